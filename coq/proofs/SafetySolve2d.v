(* Memory safety of the whole 2D solver (gen/Fteik2d.v: fteik2d), generic in the numeric type, all shapes with at
   least one cell per axis, all sources:
     TruncLaws                 the two facts about int() / np.round() / division the subscripts rely on
     fteik2d_p1_ok_true        reading the slowness of the source cell
     fteik2d_p2_ok_true        the source initialisation (four corner writes, four loops along the source row/column)
     fteik2d_ok_true           fteik2d only performs in-range accesses
     TruncLawsR                the laws hold for exact real arithmetic
   `f_ok true false args = true` : index obligations on, divisor obligations off.
   Compile proofs/SafetyTools.v, proofs/Safety2d.v first. *)
From Coq Require Import ZArith List Bool Lia Reals Lra.
From FT.lib Require Import Num Arr ArrLemmas.
From FT.gen Require Import Common Fteik2d.
From FT.proofs Require Import SafetyTools Safety2d.
Import ListNotations.
Open Scope Z_scope.

(* ------------------------------------------------------------------------------------------ *)
(* numeric laws                                                                                 *)
(* ------------------------------------------------------------------------------------------ *)
(* z is a source coordinate, d the grid spacing along the same axis, n the number of cells along it:
   - the source cell index int(z / d) is not negative;
     (class TruncDivLaw: all the 3D solver needs; proved below for the reals and for binary64)
   - when the source is snapped to a node, int(np.round(z / d)) is a node index (0 .. n), provided the cell count n is
     one the numeric type represents exactly (`cells_ok n`: every n for the reals; for binary64 the law fails for
     n = 2^53 + 3, see `trunc_round_div_range_F_needs_bound` at the end of this file, so cells_ok has to bound n). *)
Class TruncDivLaw (T : Type) `{Num T} : Prop := {
  trunc_div_nonneg : forall z d : T,
    nleb (nofZ 0) z = true -> nltb (nofZ 0) d = true -> 0 <= ntrunc (ndiv z d) }.
Class TruncLaws (T : Type) `{Num T} := {
  trunc_div_law : TruncDivLaw T;
  cells_ok : Z -> Prop;
  trunc_round_div_range : forall (z d : T) (n : Z),
    cells_ok n -> nleb (nofZ 0) z = true -> nltb (nofZ 0) d = true -> nleb z (nmul d (nofZ n)) = true ->
    0 <= ntrunc (nround (ndiv z d)) <= n }.
#[global] Existing Instance trunc_div_law.

(* ------------------------------------------------------------------------------------------ *)
(* an obligation walker with one invariant per state type                                       *)
(* ------------------------------------------------------------------------------------------ *)
(* `kinv A` / `linv S` (Ltac functions returning a predicate) give the invariant assumed of the argument of a let-bound
   continuation of type A -> bool / of a loop state of type S; when `kinv` fails the continuation is inlined.
   `post x Hx v` decides what is remembered of an ordinary binding x := v (Hx : x = v),
   `unfh H` unfolds an invariant hypothesis, `isolve` proves an invariant of a state expression, `istep s` proves the
   invariant of `body i s` from the invariant of s. *)
Lemma andb_intro2 (a b : bool) : a = true -> b = true -> a && b = true.
Proof. intros -> ->. reflexivity. Qed.

Ltac conj_step :=
  lazymatch goal with |- andb ?a ?b = true => refine (andb_intro2 a b _ _) end.

Ltac triv_k :=
  lazymatch goal with
  | |- true = true => reflexivity
  | |- (let x := ?v in @?F x) = true => refine (let_eq_true v F _); intros ? _; cbv beta; triv_k
  end.

Ltac norm_hyps :=
  repeat match goal with
  | H : _ /\ _ |- _ => destruct H
  | H : true = true -> _ |- _ => specialize (H eq_refl)
  | H : false = true -> _ |- _ => clear H
  end.

Ltac let_post2 x Hx v :=
  lazymatch type of x with
  | arr _ =>
      let S := fresh "S" in
      pose proof (f_equal shape Hx) as S; rewrite ?shape_set, ?shape_set_sub in S;
      cbn [shape full fill] in S;
      try match type of S with
          | _ = shape ?a => match goal with Ha : shape a = _ |- _ => rewrite Ha in S end
          end;
      lazymatch v with
      | full _ _ => idtac
      | _ => clear Hx
      end
  | Z => idtac
  | _ => clear Hx
  end.

Ltac okw kinv linv post unfh isolve istep leaf :=
  lazymatch goal with
  | |- true = true => reflexivity
  | |- andb _ _ = true => conj_step; okw kinv linv post unfh isolve istep leaf
  | |- (let x := ?v in @?F x) = true =>
      let tv := type of v in
      lazymatch tv with
      | ?A -> bool =>
          let Ht := fresh "Ht" in
          tryif (assert (Ht : forall u, v u = true) by (intro; cbv beta; triv_k))
          then (refine (let_fun_true v F Ht _); clear Ht;
                let k := fresh "k" in let Hk := fresh "Hk" in
                intros k Hk; cbv beta; okw kinv linv post unfh isolve istep leaf)
          else tryif (let P := kinv A in idtac)
          then (let P := kinv A in
                refine (let_fun_true_pre P v F _ _);
                [ let u := fresh "u" in let Hu := fresh "Hu" in
                  intros u Hu; unfh Hu; norm_hyps; cbv beta; okw kinv linv post unfh isolve istep leaf
                | let k := fresh "k" in let Hk := fresh "Hk" in
                  intros k Hk; cbv beta; okw kinv linv post unfh isolve istep leaf ])
          else (let G := eval cbv beta in (F v) in change (G = true);
                okw kinv linv post unfh isolve istep leaf)
      | _ =>
          lazymatch v with
          | fst _ => let v' := eval cbn beta iota delta [fst snd] in v in
                     let G := eval cbv beta in (F v') in change (G = true)
          | snd _ => let v' := eval cbn beta iota delta [fst snd] in v in
                     let G := eval cbv beta in (F v') in change (G = true)
          | pair _ _ => let G := eval cbv beta in (F v) in change (G = true)
          | for_list _ _ ?st =>
              let x := fresh "x" in let Hx := fresh "Hx" in
              refine (let_eq_true v F _); intros x Hx; cbv beta;
              let S := type of st in
              let Pinv := linv S in
              let Sx := fresh "Sx" in
              assert (Sx : Pinv x) by (rewrite Hx; isolve); clear Hx; unfh Sx; norm_hyps
          | _ =>
              let x := fresh "x" in let Hx := fresh "Hx" in
              refine (let_eq_true v F _); intros x Hx; cbv beta; post x Hx v
          end;
          okw kinv linv post unfh isolve istep leaf
      end
  | |- (if ?c then ?a else ?b) = true =>
      let c' := eval cbn [andb negb orb] in c in
      lazymatch c' with
      | true => change (a = true); okw kinv linv post unfh isolve istep leaf
      | false => change (b = true); okw kinv linv post unfh isolve istep leaf
      | context [Z.eqb ?p ?q] =>
          let E := fresh "E" in
          destruct (Z.eqb p q) eqn:E; [ apply Z.eqb_eq in E | apply Z.eqb_neq in E ];
          use_imps; norm_hyps;
          okw kinv linv post unfh isolve istep leaf
      | _ => let E := fresh "E" in destruct c eqn:E; bool_hyps_ns; okw kinv linv post unfh isolve istep leaf
      end
  | |- for_list_ok _ _ _ ?st = true =>
      let S := type of st in
      let Pinv := linv S in
      let s := fresh "s" in let Hs := fresh "Hs" in let Hi := fresh "Hi" in
      apply (for_list_ok_inv Pinv);
      [ isolve
      | intros ? s Hi Hs; split;
        [ istep s | unfh Hs; norm_hyps; cbv beta; okw kinv linv post unfh isolve istep leaf ] ]
  | |- obD false _ = true => reflexivity
  | Hk : forall u, ?k u = true |- ?k _ = true => apply Hk
  | Hk : forall u, _ -> ?k u = true |- ?k _ = true => apply Hk; isolve
  | |- (fun _ => _) _ = true => cbv beta; okw kinv linv post unfh isolve istep leaf
  | |- _ => leaf
  end.

(* ---------- shapes through value-level code ---------- *)
(* Goal  P (let x := v in F x)  where P is an invariant of the final state.  The let-chain is walked one binding at a
   time and nothing is ever substituted: a bound array is replaced by a variable of known shape, a bound tuple of
   arrays (a loop result, a conditional update) by a variable satisfying the invariant `vinv` of its type, any
   other binding by an unconstrained variable.  `unfh H` unfolds an invariant hypothesis, `fin` closes an invariant
   of a tuple of variables. *)
Definition shp_is {A} (sh : list Z) (a : arr A) : Prop := shape a = sh.

Ltac shape_expr a :=
  lazymatch a with
  | set ?b _ _ => shape_expr b
  | set_sub ?b _ _ => shape_expr b
  | full ?sh _ => sh
  | fill ?b _ => shape_expr b
  | (if _ then _ else ?b) => shape_expr b
  | _ => lazymatch goal with
         | Hsh : shape a = ?sh |- _ => sh
         | _ => constr:(shape a)
         end
  end.

Ltac shape_hyp_norm Hx :=
  unfold shp_is in Hx; rewrite ?shape_set, ?shape_set_sub in Hx; cbn [shape full fill] in Hx;
  try match type of Hx with
      | _ = shape ?a => match goal with Ha : shape a = _ |- _ => rewrite Ha in Hx end
      end.

Ltac vwalk vinv unfh fin :=
  cbv beta;
  lazymatch goal with
  | |- ?P (let x := ?v in @?F x) =>
      let X := fresh "X" in
      let tv := type of v in
      lazymatch v with
      | (let y := ?a in @?G y) =>
          (* nested binding: let x := (let y := a in G y) in F x  is  let y := a in let x := G y in F x *)
          change (P (let y := a in let x := G y in F x))
      | _ =>
      lazymatch tv with
      | arr _ =>
          let sh := shape_expr v in
          let Hx := fresh "Hx" in
          assert (Hx : shp_is sh v) by vwalk vinv unfh fin;
          change (let x := v in P (F x)); intro X; cbv beta;
          change (shp_is sh X) in Hx; clearbody X; shape_hyp_norm Hx
      | _ =>
          tryif (let Pv := vinv tv in idtac)
          then (let Pv := vinv tv in
                let Hx := fresh "Hx" in
                assert (Hx : Pv v) by vwalk vinv unfh fin;
                change (let x := v in P (F x)); intro X; cbv beta;
                change (Pv X) in Hx; clearbody X; unfh Hx; norm_hyps)
          else (change (let x := v in P (F x)); intro X; cbv beta; clearbody X)
      end
      end;
      vwalk vinv unfh fin
  | |- ?P (if ?c then ?a else ?b) =>
      lazymatch c with
      | true => change (P a)
      | false => change (P b)
      | _ => destruct c
      end; vwalk vinv unfh fin
  | |- ?P (for_list ?l ?b ?s) =>
      let s' := fresh "s" in let Hs := fresh "Hs" in
      apply (for_list_inv P l b s);
      [ vwalk vinv unfh fin | intros ? s' ? Hs; unfh Hs; norm_hyps; vwalk vinv unfh fin ]
  | |- _ => fin
  end.

Section P2ok.
Context {T : Type} `{Num T}.

(* loop state (td, tt, ttsgn) of the four initialisation loops; NZ, NX are node counts *)
Definition inv3 (NZ NX : Z) (g : bool) (s : arr T * arr T * arr Z) : Prop :=
  shape (fst (fst s)) = [Z.max NZ NX] /\ shape (snd (fst s)) = [NZ; NX] /\
  (g = true -> shape (snd s) = [NZ; NX; 2]).
Definition inv2 (NZ NX : Z) (g : bool) (s : arr T * arr Z) : Prop :=
  shape (fst s) = [NZ; NX] /\ (g = true -> shape (snd s) = [NZ; NX; 2]).
Definition invg (NZ NX : Z) (g : bool) (a : arr T) : Prop := g = true -> shape a = [NZ; NX; 2].
Definition invs (NZ NX : Z) (g : bool) (a : arr Z) : Prop := g = true -> shape a = [NZ; NX; 2].

Ltac unfh2 H := unfold inv3, inv2, invg, invs in H; cbn [fst snd] in H.
Ltac fin2 :=
  unfold inv3, inv2, invg, invs, shp_is; cbn [fst snd];
  repeat split; rewrite ?shape_set, ?shape_set_sub; cbn [shape full fill];
  first [ assumption | reflexivity | intros _; assumption | let E := fresh "E" in intros E; discriminate E ].
Ltac vwalk2 NZ NX g :=
  vwalk ltac:(fun A => lazymatch A with
                       | (arr T * arr T * arr Z)%type => constr:(inv3 NZ NX g)
                       | (arr T * arr Z)%type => constr:(inv2 NZ NX g)
                       end) unfh2 fin2.
Ltac isolve2 :=
  cbv beta;
  lazymatch goal with
  | |- inv3 ?NZ ?NX ?g _ => vwalk2 NZ NX g
  | |- _ => fin2
  end.
Ltac istep2 s :=
  cbv beta;
  match goal with Hs : inv3 ?NZ ?NX ?g s |- _ => unfh2 Hs; norm_hyps; vwalk2 NZ NX g end.

Ltac leaf2 :=
  first [ apply t_anad_ok_true | apply t_ana_ok_true | apply delta_ok_true
        | range_hyps; inb_solve ].

Theorem fteik2d_p2_ok_true (dx dz : T) grad iflag NX NZ (slow tt ttgrad : arr T) (ttsgn : arr Z)
        (vzero xsa : T) xsi (zsa : T) zsi :
  0 <= zsi <= NZ - 2 -> 0 <= xsi <= NX - 2 ->
  shape slow = [NZ - 1; NX - 1] -> shape tt = [NZ; NX] ->
  (grad = true -> shape ttgrad = [NZ; NX; 2] /\ shape ttsgn = [NZ; NX; 2]) ->
  (iflag <> 2 -> 0 <= ntrunc zsa < NZ /\ 0 <= ntrunc xsa < NX) ->
  fteik2d_p2_ok true false dx dz grad iflag NX NZ slow tt ttgrad ttsgn vzero xsa xsi zsa zsi = true.
Proof.
  intros Hz Hx Hslow Htt Hg Hfl.
  cbv beta delta [fteik2d_p2_ok].
  destruct grad; norm_hyps.
  - okw ltac:(fun A => lazymatch A with
                       | (arr T * arr Z)%type => constr:(inv2 NZ NX true)
                       | arr Z => constr:(invs NZ NX true)
                       | arr T => constr:(invg NZ NX true)
                       end)
        ltac:(fun S => constr:(inv3 NZ NX true))
        let_post2 unfh2 isolve2 istep2 leaf2.
  - okw ltac:(fun A => lazymatch A with
                       | (arr T * arr Z)%type => constr:(inv2 NZ NX false)
                       | arr Z => constr:(invs NZ NX false)
                       | arr T => constr:(invg NZ NX false)
                       end)
        ltac:(fun S => constr:(inv3 NZ NX false))
        let_post2 unfh2 isolve2 istep2 leaf2.
Qed.

End P2ok.

(* ------------------------------------------------------------------------------------------ *)
(* the solver                                                                                   *)
(* ------------------------------------------------------------------------------------------ *)
(* conversion must never unfold the big generated constants when comparing two calls *)
Local Strategy 1000 [fteik2d_p1 fteik2d_p2 fteik2d_p1_ok fteik2d_p2_ok sweep2d sweep2d_ok].

Section Main.
Context {T : Type} `{Num T}.

(* ---------- fteik2d_p1: straight-line code ---------- *)
Lemma fteik2d_p1_char (dx dz : T) grad nx nz (slow : arr T) (xsrc zsrc : T) :
  let zsi := Z.min (ntrunc (ndiv zsrc dz)) (nz - 1) in
  let xsi := Z.min (ntrunc (ndiv xsrc dx)) (nx - 1) in
  exists iflag zsa xsa,
    fteik2d_p1 dx dz grad nx nz slow xsrc zsrc =
      (iflag, nx + 1, nz + 1, full [nz + 1; nx + 1] Big,
       (if grad then full [nz + 1; nx + 1; 2] (nofZ 0) else full [0; 0; 0] (nofZ 0)),
       (if grad then full [nz + 1; nx + 1; 2] 0 else full [0; 0; 0] 0),
       get (nofZ 0) slow [zsi; xsi], xsa, xsi, zsa, zsi) /\
    (iflag <> 2 -> zsa = nround (ndiv zsrc dz) /\ xsa = nround (ndiv xsrc dx)).
Proof.
  intros zsi xsi. unfold fteik2d_p1. cbv zeta. fold zsi xsi.
  destruct grad; cbn [fst snd];
  repeat match goal with |- context [if ?c then _ else _] => destruct c end; cbn [fst snd];
  do 3 eexists; (split; [ reflexivity | intros N; first [ exfalso; apply N; reflexivity | split; reflexivity ] ]).
Qed.

Theorem fteik2d_p1_ok_true (dx dz : T) grad nx nz (slow : arr T) (xsrc zsrc : T) :
  shape slow = [nz; nx] ->
  0 <= Z.min (ntrunc (ndiv zsrc dz)) (nz - 1) -> 0 <= Z.min (ntrunc (ndiv xsrc dx)) (nx - 1) ->
  fteik2d_p1_ok true false dx dz grad nx nz slow xsrc zsrc = true.
Proof.
  intros Hs Hz Hx. cbv beta iota zeta delta [fteik2d_p1_ok obD obI].
  rewrite (inb2_true slow nz nx _ _ Hs) by lia. cbn [andb fst snd].
  destruct grad; repeat match goal with |- context [if ?c then _ else _] => destruct c end; reflexivity.
Qed.

(* the initialisation keeps the shapes of the traveltime and gradient arrays *)
Definition p2_shapes (NZ NX : Z) (g : bool) (r : arr T * arr T * arr Z) : Prop :=
  shape (fst (fst r)) = [NZ; NX] /\ (g = true -> shape (snd (fst r)) = [NZ; NX; 2]).
Lemma fteik2d_p2_shapes dx dz grad iflag NX NZ slow (tt G : arr T) (S : arr Z) vzero xsa xsi zsa zsi :
  shape tt = [NZ; NX] -> (grad = true -> shape G = [NZ; NX; 2] /\ shape S = [NZ; NX; 2]) ->
  p2_shapes NZ NX grad (fteik2d_p2 dx dz grad iflag NX NZ slow tt G S vzero xsa xsi zsa zsi).
Proof.
  intros Htt Hg. cbv beta delta [fteik2d_p2].
  lazymatch goal with |- p2_shapes ?a ?b ?g (let u := (if ?c then ?x else ?y) in _) =>
    change (p2_shapes a b g (if c then x else y)); destruct c end;
  (destruct grad; norm_hyps;
   lazymatch goal with |- p2_shapes _ _ ?g _ =>
     vwalk ltac:(fun A => lazymatch A with
                          | (arr T * arr T * arr Z)%type => constr:(inv3 NZ NX g)
                          | (arr T * arr Z)%type => constr:(inv2 NZ NX g)
                          end)
           ltac:(fun Hh => unfold inv3, inv2, invg, invs in Hh; cbn [fst snd] in Hh)
           ltac:(unfold p2_shapes, inv3, inv2, invg, invs, shp_is; cbn [fst snd];
                 repeat split; rewrite ?shape_set, ?shape_set_sub; cbn [shape full fill];
                 first [ assumption | reflexivity | intros _; assumption
                       | let E := fresh "E" in intros E; discriminate E ])
   end).
Qed.

Context `{!TruncLaws T}.

Theorem fteik2d_ok_true (slow : arr T) (dz dx zsrc xsrc : T) (nsweep : Z) (grad : bool) (nz nx : Z) :
  shape slow = [nz; nx] -> 1 <= nz -> 1 <= nx -> cells_ok nz -> cells_ok nx ->
  nltb (nofZ 0) dz = true -> nltb (nofZ 0) dx = true ->
  fteik2d_ok true false slow dz dx zsrc xsrc nsweep grad = true.
Proof.
  intros Hs Hnz Hnx Cz Cx Hdz Hdx.
  rewrite fteik2d_ok_tail. cbv beta zeta.
  rewrite (dim_0 slow nz [nx] Hs), (dim_1 slow nz nx [] Hs). cbn [fst snd].
  lazymatch goal with |- (if negb ?c then _ else _) = true => destruct c eqn:Hin end; [ | reflexivity ].
  cbn [negb].
  apply andb_true_iff in Hin. destruct Hin as [Hcz Hcx].
  apply andb_true_iff in Hcz. destruct Hcz as [Hz0 Hz1].
  apply andb_true_iff in Hcx. destruct Hcx as [Hx0 Hx1].
  pose proof (trunc_div_nonneg zsrc dz Hz0 Hdz) as Tz.
  pose proof (trunc_div_nonneg xsrc dx Hx0 Hdx) as Tx.
  pose proof (trunc_round_div_range zsrc dz nz Cz Hz0 Hdz Hz1) as Rz.
  pose proof (trunc_round_div_range xsrc dx nx Cx Hx0 Hdx Hx1) as Rx.
  destruct (fteik2d_p1_char dx dz grad nx nz slow xsrc zsrc) as (iflag & zsa & xsa & E & Hfl).
  cbv zeta in E.
  set (zsi := Z.min (ntrunc (ndiv zsrc dz)) (nz - 1)) in *.
  set (xsi := Z.min (ntrunc (ndiv xsrc dx)) (nx - 1)) in *.
  assert (Bz : 0 <= zsi <= nz - 1) by (unfold zsi; lia).
  assert (Bx : 0 <= xsi <= nx - 1) by (unfold xsi; lia).
  assert (Hslow' : shape slow = [nz + 1 - 1; nx + 1 - 1])
    by (rewrite Hs; f_equal; [ lia | f_equal; lia ]).
  apply andb_intro2; [ apply fteik2d_p1_ok_true; [ exact Hs | apply Bz | apply Bx ] | ].
  rewrite E. cbn [fst snd].
  set (G1 := if grad then full [nz + 1; nx + 1; 2] (nofZ 0) else full [0; 0; 0] (nofZ 0)).
  set (S1 := if grad then full [nz + 1; nx + 1; 2] 0 else full [0; 0; 0] 0).
  set (tt1 := full [nz + 1; nx + 1] Big).
  set (vz := get (nofZ 0) slow [zsi; xsi]).
  apply andb_intro2.
  - apply fteik2d_p2_ok_true; try lia; try assumption.
    + reflexivity.
    + intros ->. split; reflexivity.
    + intros N. destruct (Hfl N) as [-> ->]. lia.
  - assert (Sh : p2_shapes (nz + 1) (nx + 1) grad
                  (fteik2d_p2 dx dz grad iflag (nx + 1) (nz + 1) slow tt1 G1 S1 vz xsa xsi zsa zsi)).
    { apply fteik2d_p2_shapes; [ reflexivity | intros ->; split; reflexivity ]. }
    destruct Sh as [Sh1 Sh2].
    apply tail_ok_true; try lia; try assumption.
    intros G. split; [ | exact (Sh2 G) ]. subst grad.
    apply init_preserves_sgn_inv; try lia. apply sgn_inv_zeros; lia.
Qed.
End Main.

(* ------------------------------------------------------------------------------------------ *)
(* the laws for exact real arithmetic                                                           *)
(* ------------------------------------------------------------------------------------------ *)
Lemma Int_part_spec (x : R) (k : Z) : (IZR k <= x < IZR k + 1)%R -> Int_part x = k.
Proof.
  intros [H1 H2]. destruct (base_Int_part x) as [B1 B2].
  assert (A1 : (IZR (Int_part x) < IZR (k + 1))%R) by (rewrite plus_IZR; lra).
  assert (A2 : (IZR k < IZR (Int_part x + 1))%R) by (rewrite plus_IZR; lra).
  apply lt_IZR in A1, A2. lia.
Qed.
Lemma Int_part_nonneg (x : R) : (0 <= x)%R -> 0 <= Int_part x.
Proof.
  intros Hx. destruct (base_Int_part x) as [B1 B2].
  assert (A : (IZR (-1) < IZR (Int_part x))%R) by (simpl; lra).
  apply lt_IZR in A. lia.
Qed.
Lemma Int_part_le (x : R) (n : Z) : (x <= IZR n)%R -> Int_part x <= n.
Proof.
  intros Hx. destruct (base_Int_part x) as [B1 B2].
  assert (A : (IZR (Int_part x) < IZR (n + 1))%R) by (rewrite plus_IZR; lra).
  apply lt_IZR in A. lia.
Qed.
Lemma Rtrunc_IZR (k : Z) : 0 <= k -> Rtrunc (IZR k) = k.
Proof.
  intros Hk. unfold Rtrunc. destruct (Rle_dec 0 (IZR k)) as [_ | N].
  - apply Int_part_spec. lra.
  - exfalso. apply N. apply IZR_le in Hk. exact Hk.
Qed.
(* np.round of a real in [0, n] is an integer in [0, n] *)
Lemma Rround_range (x : R) (n : Z) : (0 <= x <= IZR n)%R -> exists m, Rround x = IZR m /\ 0 <= m <= n.
Proof.
  intros [H0 Hn]. unfold Rround.
  pose proof (Int_part_nonneg x H0) as F0. pose proof (Int_part_le x n Hn) as Fn.
  destruct (base_Int_part x) as [B1 B2].
  set (f := Int_part x) in *.
  assert (Hlt : (1 / 2 <= x - IZR f)%R -> f + 1 <= n).
  { intros Hr. assert (A : (IZR f < IZR n)%R) by lra. apply lt_IZR in A. lia. }
  destruct (Rlt_dec (x - IZR f) (1 / 2)) as [L | L]; [ exists f; split; [ reflexivity | lia ] | ].
  destruct (Rlt_dec (1 / 2) (x - IZR f)) as [G | G]; [ exists (f + 1); split; [ reflexivity | ]; split; [ lia | apply Hlt; lra ] | ].
  destruct (Z.even f); [ exists f; split; [ reflexivity | lia ] | exists (f + 1); split; [ reflexivity | ] ].
  split; [ lia | apply Hlt; lra ].
Qed.

Lemma trunc_div_nonneg_R (z d : R) : Rleb 0 z = true -> Rltb 0 d = true -> 0 <= Rtrunc (z / d).
Proof.
  intros Hz Hd. apply Rleb_true in Hz. apply Rltb_true in Hd.
  assert (Hq : (0 <= z / d)%R) by (apply Rle_mult_inv_pos; assumption).
  unfold Rtrunc. destruct (Rle_dec 0 (z / d)) as [_ | N]; [ | contradiction ].
  apply Int_part_nonneg. exact Hq.
Qed.
Lemma trunc_round_div_range_R (z d : R) (n : Z) :
  Rleb 0 z = true -> Rltb 0 d = true -> Rleb z (d * IZR n) = true -> 0 <= Rtrunc (Rround (z / d)) <= n.
Proof.
  intros Hz Hd Hn. apply Rleb_true in Hz, Hn. apply Rltb_true in Hd.
  assert (Hq : (0 <= z / d)%R) by (apply Rle_mult_inv_pos; assumption).
  assert (Hq' : (z / d <= IZR n)%R).
  { apply Rmult_le_reg_r with d; [ exact Hd | ]. unfold Rdiv. rewrite Rmult_assoc, Rinv_l by lra. lra. }
  destruct (Rround_range (z / d) n (conj Hq Hq')) as (m & -> & Hm).
  rewrite Rtrunc_IZR by lia. exact Hm.
Qed.

#[global] Instance TruncDivLawR : @TruncDivLaw R NumR := @Build_TruncDivLaw R NumR trunc_div_nonneg_R.
#[global] Instance TruncLawsR : @TruncLaws R NumR :=
  @Build_TruncLaws R NumR TruncDivLawR (fun _ => True) (fun z d n _ => trunc_round_div_range_R z d n).

(* the theorem at the reals *)
Corollary fteik2d_ok_true_R (slow : arr R) (dz dx zsrc xsrc : R) (nsweep : Z) (grad : bool) (nz nx : Z) :
  shape slow = [nz; nx] -> 1 <= nz -> 1 <= nx -> (0 < dz)%R -> (0 < dx)%R ->
  fteik2d_ok true false slow dz dx zsrc xsrc nsweep grad = true.
Proof.
  intros Hs Hnz Hnx Hdz Hdx.
  apply (@fteik2d_ok_true R NumR TruncLawsR slow dz dx zsrc xsrc nsweep grad nz nx Hs Hnz Hnx);
    first [ exact I | apply Rltb_true; assumption ].
Qed.

(* ------------------------------------------------------------------------------------------ *)
(* binary64                                                                                     *)
(* ------------------------------------------------------------------------------------------ *)
(* TruncDivLaw holds for binary64, NaN and infinities included: a quotient of a non-negative by a positive float is
   never a negative finite number.  The second law of TruncLaws is not proved for binary64 (it needs the error analysis
   of z <= fl(d * n) -> fl(z / d) <= n, then np.round and int on an integer-valued float); it is false without a
   bound on n, as the example shows. *)
From Coq Require Import PrimFloat FloatOps FloatAxioms SpecFloat.

Definition sf_nonneg (x : spec_float) : Prop := match x with S754_finite true _ _ => False | _ => True end.

Lemma f_trunc_nonneg (x : float) : sf_nonneg (Prim2SF x) -> 0 <= f_trunc x.
Proof.
  unfold f_trunc. destruct (Prim2SF x) as [s | s | | s m e]; cbn [sf_nonneg]; try lia.
  destruct s; [ contradiction | intros _ ].
  destruct (0 <=? e) eqn:E.
  - apply Z.leb_le in E. apply Z.mul_nonneg_nonneg; [ lia | apply Z.pow_nonneg; lia ].
  - apply Z.leb_gt in E. apply Z.div_pos; [ lia | apply Z.pow_pos_nonneg; lia ].
Qed.

Lemma binary_round_aux_nonneg mx ex lx : sf_nonneg (binary_round_aux prec emax false mx ex lx).
Proof.
  unfold binary_round_aux.
  destruct (shr_fexp prec emax mx ex lx) as [mrs' e'].
  destruct (shr_fexp prec emax (round_nearest_even (shr_m mrs') (loc_of_shr_record mrs')) e' loc_Exact) as [mrs'' e''].
  destruct (shr_m mrs''); [ exact I | destruct (Zle_bool e'' (emax - prec)); exact I | exact I ].
Qed.

Lemma SFdiv_nonneg (x y : spec_float) :
  SFleb (S754_zero false) x = true -> SFltb (S754_zero false) y = true -> sf_nonneg (SFdiv prec emax x y).
Proof.
  destruct x as [sx | sx | | sx mx ex], y as [sy | sy | | sy my ey];
    cbn [SFleb SFltb SFcompare]; try discriminate;
    try destruct sx; try destruct sy; try discriminate; intros _ _; try exact I.
  cbn [SFdiv xorb].
  destruct (SFdiv_core_binary prec emax (Z.pos mx) ex (Z.pos my) ey) as [[mz ez] lz].
  apply binary_round_aux_nonneg.
Qed.

Lemma trunc_div_nonneg_F (z d : float) :
  PrimFloat.leb (f_ofZ 0) z = true -> PrimFloat.ltb (f_ofZ 0) d = true -> 0 <= f_trunc (PrimFloat.div z d).
Proof.
  change (f_ofZ 0) with 0%float. rewrite leb_spec, ltb_spec.
  change (Prim2SF 0%float) with (S754_zero false). intros Hz Hd.
  apply f_trunc_nonneg. rewrite div_spec. apply SFdiv_nonneg; assumption.
Qed.

#[global] Instance TruncDivLawF : @TruncDivLaw float NumF := @Build_TruncDivLaw float NumF trunc_div_nonneg_F.

(* without a bound on the cell count the second law fails for binary64: n = 2^53 + 3 is not a float, nofZ n rounds
   to 2^53 + 4, and the source z = 2^53 + 4 (spacing 1) passes the domain test but gives the node index n + 1 *)
Lemma trunc_round_div_range_F_needs_bound :
  exists (z d : float) (n : Z),
    nleb (nofZ 0) z = true /\ nltb (nofZ 0) d = true /\ nleb z (nmul d (nofZ n)) = true /\
    n < ntrunc (nround (ndiv z d)).
Proof.
  exists (f_ofZ (2 ^ 53 + 4)), (f_ofZ 1), (2 ^ 53 + 3). vm_compute. repeat split; reflexivity.
Qed.

Print Assumptions fteik2d_p1_ok_true.
Print Assumptions fteik2d_p2_ok_true.
Print Assumptions fteik2d_ok_true.
Print Assumptions TruncLawsR.
Print Assumptions fteik2d_ok_true_R.
Print Assumptions TruncDivLawF.
Print Assumptions trunc_round_div_range_F_needs_bound.
