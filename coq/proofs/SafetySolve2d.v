(* Memory safety of the whole 2D solver (gen/Fteik2d.v: fteik2d), generic in the numeric type, all shapes with at
   least one cell per axis, all sources:
     TruncLaws                 the two facts about int() / np.round() / division the subscripts rely on
     fteik2d_p1_ok_true        reading the slowness of the source cell
     fteik2d_p2_ok_true        the source initialisation (four corner writes, four loops along the source row/column)
     fteik2d_ok_true           fteik2d only performs in-range accesses
     TruncLawsR                the laws hold for exact real arithmetic
   `f_ok true false args = true` : index obligations on, divisor obligations off.
   Compile proofs/SafetyTools.v, proofs/Safety2d.v, proofs/Solve2dProofs.v first. *)
From Coq Require Import ZArith List Bool Lia Reals Lra.
From FT.lib Require Import Num Arr ArrLemmas.
From FT.gen Require Import Common Fteik2d.
From FT.proofs Require Import SafetyTools Safety2d Solve2dProofs.
Import ListNotations.
Open Scope Z_scope.

(* ------------------------------------------------------------------------------------------ *)
(* numeric laws                                                                                 *)
(* ------------------------------------------------------------------------------------------ *)
(* z is a source coordinate, d the grid spacing along the same axis, n the number of cells:
   - the source cell index int(z / d) is not negative;
   - when the source is snapped to a node, int(np.round(z / d)) is a node index (0 .. n). *)
Class TruncLaws (T : Type) `{Num T} : Prop := {
  trunc_div_nonneg : forall z d : T,
    nleb (nofZ 0) z = true -> nltb (nofZ 0) d = true -> 0 <= ntrunc (ndiv z d);
  trunc_round_div_range : forall (z d : T) (n : Z),
    nleb (nofZ 0) z = true -> nltb (nofZ 0) d = true -> nleb z (nmul d (nofZ n)) = true ->
    0 <= ntrunc (nround (ndiv z d)) <= n }.

(* ------------------------------------------------------------------------------------------ *)
(* an obligation walker with one invariant per state type                                       *)
(* ------------------------------------------------------------------------------------------ *)
(* `kinv A` / `linv S` (Ltac functions returning a predicate) give the invariant assumed of the argument of a let-bound
   continuation of type A -> bool / of a loop state of type S; when `kinv` fails the continuation is inlined.
   `unfh H` unfolds an invariant hypothesis, `isolve` proves an invariant of a state expression, `istep s` proves the
   invariant of `body i s` from the invariant of s. *)
Lemma andb_intro2 (a b : bool) : a = true -> b = true -> a && b = true.
Proof. intros -> ->. reflexivity. Qed.

Ltac triv_k :=
  lazymatch goal with
  | |- true = true => reflexivity
  | |- (let x := ?v in @?F x) = true => refine (let_eq_true v F _); intros ? _; cbv beta; triv_k
  end.

Ltac norm_hyps :=
  repeat match goal with
  | H : _ /\ _ |- _ => destruct H
  | H : true = true -> _ |- _ => specialize (H eq_refl)
  | H : false = true -> _ |- _ => clear H
  end.

Ltac let_post2 x Hx v :=
  lazymatch type of x with
  | arr _ =>
      let S := fresh "S" in
      pose proof (f_equal shape Hx) as S; rewrite ?shape_set, ?shape_set_sub in S;
      cbn [shape full fill] in S;
      try match type of S with
          | _ = shape ?a => match goal with Ha : shape a = _ |- _ => rewrite Ha in S end
          end;
      lazymatch v with
      | full _ _ => idtac
      | _ => clear Hx
      end
  | Z => idtac
  | _ => clear Hx
  end.

Ltac okw kinv linv unfh isolve istep leaf :=
  lazymatch goal with
  | |- true = true => reflexivity
  | |- andb ?a ?b = true => refine (andb_intro2 a b _ _); okw kinv linv unfh isolve istep leaf
  | |- (let x := ?v in @?F x) = true =>
      let tv := type of v in
      lazymatch tv with
      | ?A -> bool =>
          let Ht := fresh "Ht" in
          tryif (assert (Ht : forall u, v u = true) by (intro; cbv beta; triv_k))
          then (refine (let_fun_true v F Ht _); clear Ht;
                let k := fresh "k" in let Hk := fresh "Hk" in
                intros k Hk; cbv beta; okw kinv linv unfh isolve istep leaf)
          else tryif (let P := kinv A in idtac)
          then (let P := kinv A in
                refine (let_fun_true_pre P v F _ _);
                [ let u := fresh "u" in let Hu := fresh "Hu" in
                  intros u Hu; unfh Hu; norm_hyps; cbv beta; okw kinv linv unfh isolve istep leaf
                | let k := fresh "k" in let Hk := fresh "Hk" in
                  intros k Hk; cbv beta; okw kinv linv unfh isolve istep leaf ])
          else (let G := eval cbv beta in (F v) in change (G = true);
                okw kinv linv unfh isolve istep leaf)
      | _ =>
          lazymatch v with
          | fst _ => let v' := eval cbn beta iota delta [fst snd] in v in
                     let G := eval cbv beta in (F v') in change (G = true)
          | snd _ => let v' := eval cbn beta iota delta [fst snd] in v in
                     let G := eval cbv beta in (F v') in change (G = true)
          | for_list _ _ ?st =>
              let x := fresh "x" in let Hx := fresh "Hx" in
              refine (let_eq_true v F _); intros x Hx; cbv beta;
              let S := type of st in
              let Pinv := linv S in
              let Sx := fresh "Sx" in
              assert (Sx : Pinv x) by (rewrite Hx; isolve); clear Hx; unfh Sx; norm_hyps
          | _ =>
              let x := fresh "x" in let Hx := fresh "Hx" in
              refine (let_eq_true v F _); intros x Hx; cbv beta; let_post2 x Hx v
          end;
          okw kinv linv unfh isolve istep leaf
      end
  | |- (if ?c then ?a else ?b) = true =>
      let c' := eval cbn [andb negb orb] in c in
      lazymatch c' with
      | true => change (a = true); okw kinv linv unfh isolve istep leaf
      | false => change (b = true); okw kinv linv unfh isolve istep leaf
      | context [Z.eqb ?p ?q] =>
          let E := fresh "E" in
          destruct (Z.eqb p q) eqn:E; [ apply Z.eqb_eq in E | apply Z.eqb_neq in E ];
          use_imps; norm_hyps;
          okw kinv linv unfh isolve istep leaf
      | _ => let E := fresh "E" in destruct c eqn:E; bool_hyps_ns; okw kinv linv unfh isolve istep leaf
      end
  | |- for_list_ok _ _ _ ?st = true =>
      let S := type of st in
      let Pinv := linv S in
      let s := fresh "s" in let Hs := fresh "Hs" in let Hi := fresh "Hi" in
      apply (for_list_ok_inv Pinv);
      [ isolve
      | intros ? s Hi Hs; split;
        [ istep s | unfh Hs; norm_hyps; cbv beta; okw kinv linv unfh isolve istep leaf ] ]
  | |- obD false _ = true => reflexivity
  | Hk : forall u, ?k u = true |- ?k _ = true => apply Hk
  | Hk : forall u, _ -> ?k u = true |- ?k _ = true => apply Hk; isolve
  | |- (fun _ => _) _ = true => cbv beta; okw kinv linv unfh isolve istep leaf
  | |- _ => leaf
  end.

(* ---------- shapes through value-level code: `keeps` of Solve2dProofs.v ---------- *)
Lemma sig_shape {A} (a b : arr A) : sig a = sig b -> shape a = shape b.
Proof. unfold sig. intros E. injection E as E _. exact E. Qed.

Section P2ok.
Context {T : Type} `{Num T}.

(* loop state (td, tt, ttsgn) of the four initialisation loops; NZ, NX are node counts *)
Definition inv3 (NZ NX : Z) (g : bool) (s : arr T * arr T * arr Z) : Prop :=
  shape (fst (fst s)) = [Z.max NZ NX] /\ shape (snd (fst s)) = [NZ; NX] /\
  (g = true -> shape (snd s) = [NZ; NX; 2]).
Definition inv2 (NZ NX : Z) (g : bool) (s : arr T * arr Z) : Prop :=
  shape (fst s) = [NZ; NX] /\ (g = true -> shape (snd s) = [NZ; NX; 2]).
Definition invg (NZ NX : Z) (g : bool) (a : arr T) : Prop := g = true -> shape a = [NZ; NX; 2].
Definition invs (NZ NX : Z) (g : bool) (a : arr Z) : Prop := g = true -> shape a = [NZ; NX; 2].

Lemma keeps_inv3 NZ NX g (s0 s : arr T * arr T * arr Z) : keeps s0 s -> inv3 NZ NX g s0 -> inv3 NZ NX g s.
Proof.
  unfold keeps, inv3. cbn [Solve2dProofs.shp Shp_arr Shp_pair].
  intros ((A & B) & C) (H1 & H2 & H3).
  rewrite (sig_shape _ _ A), (sig_shape _ _ B), (sig_shape _ _ C). auto.
Qed.

Ltac unfh2 H := unfold inv3, inv2, invg, invs in H; cbn [fst snd] in H.
Ltac isolve2 :=
  cbv beta;
  lazymatch goal with
  | |- inv3 _ _ _ (for_list ?l ?b ?st) =>
      apply (keeps_inv3 _ _ _ st); [ apply for_list_keeps; intros ? ? _; uwalk ltac:(idtac) | isolve2 ]
  | |- _ =>
      unfold inv3, inv2, invg, invs; cbn [fst snd];
      repeat split; first [ assumption | intros _; assumption | intros E; discriminate E ]
  end.
Ltac istep2 s :=
  cbv beta; apply (keeps_inv3 _ _ _ s); [ uwalk ltac:(idtac) | assumption ].

Ltac leaf2 :=
  first [ apply t_anad_ok_true | apply t_ana_ok_true | apply delta_ok_true
        | range_hyps; inb_solve ].

Theorem fteik2d_p2_ok_true (dx dz : T) grad iflag NX NZ (slow tt ttgrad : arr T) (ttsgn : arr Z)
        (vzero xsa : T) xsi (zsa : T) zsi :
  0 <= zsi <= NZ - 2 -> 0 <= xsi <= NX - 2 ->
  shape slow = [NZ - 1; NX - 1] -> shape tt = [NZ; NX] ->
  (grad = true -> shape ttgrad = [NZ; NX; 2] /\ shape ttsgn = [NZ; NX; 2]) ->
  (iflag <> 2 -> 0 <= ntrunc zsa < NZ /\ 0 <= ntrunc xsa < NX) ->
  fteik2d_p2_ok true false dx dz grad iflag NX NZ slow tt ttgrad ttsgn vzero xsa xsi zsa zsi = true.
Proof.
  intros Hz Hx Hslow Htt Hg Hfl.
  cbv beta delta [fteik2d_p2_ok].
  destruct grad; norm_hyps.
  - okw ltac:(fun A => lazymatch A with
                       | (arr T * arr Z)%type => constr:(inv2 NZ NX true)
                       | arr Z => constr:(invs NZ NX true)
                       | arr T => constr:(invg NZ NX true)
                       end)
        ltac:(fun S => constr:(inv3 NZ NX true))
        unfh2 isolve2 istep2 leaf2.
  - okw ltac:(fun A => lazymatch A with
                       | (arr T * arr Z)%type => constr:(inv2 NZ NX false)
                       | arr Z => constr:(invs NZ NX false)
                       | arr T => constr:(invg NZ NX false)
                       end)
        ltac:(fun S => constr:(inv3 NZ NX false))
        unfh2 isolve2 istep2 leaf2.
Qed.

End P2ok.
