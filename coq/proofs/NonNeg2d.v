(* Traveltimes of the 2D solver are non-negative (clause of C03), over the reals (T := R, instance NumR), for ALL inputs.

     every entry of an array is >= 0:   nonneg a := Forall (fun x => 0 <= x) (dat a)
     (for a well-formed 2-D array this is the same as  forall i j in range, 0 <= get 0 a [i; j] : nonneg_iff_get)

     1. sweep_nonneg (+ _get)     one node update (Fteik2d.sweep) keeps every entry >= 0
     2. sweep2d_nonneg (+ _get)   one pass (Fteik2d.sweep2d) keeps every entry >= 0
     3. init_nonneg_raw, init_nonneg   the initial state (fteik2d_p1 ; fteik2d_p2) has every traveltime >= 0, vzero >= 0
                                  (fteik2d_p2_nonneg: the initialisation never writes a negative time, whatever the spacings)
     4. fteik2d_nonneg (+ _get)   every traveltime returned by fteik2d is >= 0, and so is vzero

   No hypothesis on shapes or index ranges is needed: `get` on an out-of-range index returns an entry or the default 0,
   `set` on an out-of-range index overwrites an entry or nothing.  The only hypotheses are dz > 0, dx > 0 and
   "every slowness is >= 0" (and for the initialisation alone not even the first two).

   The one non-trivial point is the 4-point plane-wave operator: under its admissibility test it returns a value
   >= tev (four_point_ge_tev; the radicand is >= 0 there: four_point_radicand_nonneg).  The 3-point operators add
   dx * sqrt(..) >= 0 to te (resp. dz * sqrt(..) to tv) (Coq's sqrt is 0 on negative reals, so no side condition), the
   spherical operator is replaced by Big when it is < tv or < te, the 1D operators add dz * s, dx * s with s >= 0.
   In the initialisation a new time is only written when it passed  tnew >= tt[previous node]. *)
From Coq Require Import ZArith List Bool Lia Reals Lra Psatz.
From FT.lib Require Import Num Arr ArrLemmas.
From FT.gen Require Import Fteik2d.
From FT.proofs Require Import OperatorsR Solve2dProofs.
Import ListNotations.
Open Scope R_scope.

(* ------------------------------------------------------------------------------------------ *)
(* arrays with non-negative entries                                                             *)
(* ------------------------------------------------------------------------------------------ *)
Definition nonneg (a : arr R) : Prop := Forall (fun x => 0 <= x) (dat a).

Lemma get_nonneg a idx : nonneg a -> 0 <= get 0 a idx.
Proof.
  intros Ha. unfold get. destruct (nth_in_or_default (Z.to_nat (flat (shape a) idx)) (dat a) 0) as [Hin | ->].
  - unfold nonneg in Ha. rewrite Forall_forall in Ha. apply Ha, Hin.
  - lra.
Qed.

Lemma Forall_upd {A} (P : A -> Prop) (l : list A) n v : Forall P l -> P v -> Forall P (upd l n v).
Proof.
  intros Hl Hv. revert n. induction Hl as [|x l Hx Hl IH]; intros [|n]; cbn [upd]; constructor; auto.
Qed.

Lemma nonneg_set a idx v : nonneg a -> 0 <= v -> nonneg (set a idx v).
Proof. intros Ha Hv. unfold nonneg, set. cbn [dat]. apply Forall_upd; assumption. Qed.

Lemma nonneg_full sh v : 0 <= v -> nonneg (full sh v).
Proof. intros Hv. unfold nonneg, full. cbn [dat]. rewrite Forall_forall. intros x Hx. apply repeat_spec in Hx. lra. Qed.

(* the same thing said with indices, for a well-formed 2-D array *)
Lemma nonneg_iff_get (a : arr R) (nz nx : Z) :
  wf a -> shape a = [nz; nx] ->
  (nonneg a <-> forall i j, (0 <= i < nz)%Z -> (0 <= j < nx)%Z -> 0 <= get 0 a [i; j]).
Proof.
  intros [Hl Hs] Es. split; [intros Ha i j _ _; apply get_nonneg, Ha|].
  intros Hg. unfold nonneg. rewrite Forall_forall. intros x Hx.
  destruct (In_nth _ _ 0 Hx) as (n & Hn & <-).
  rewrite Hl, Es in Hn. unfold prodZ in Hn. cbn [fold_right] in Hn.
  rewrite Es in Hs. inversion Hs as [|? ? Hnz Hs']; subst. inversion Hs' as [|? ? Hnx _]; subst.
  assert (Hpos : (0 < nx)%Z) by nia.
  assert (Hn' : (0 <= Z.of_nat n < nz * nx)%Z) by nia.
  assert (Hq : (0 <= Z.of_nat n / nx < nz)%Z).
  { split; [apply Z.div_pos; lia | apply Z.div_lt_upper_bound; lia]. }
  assert (Hr : (0 <= Z.of_nat n mod nx < nx)%Z) by (apply Z.mod_pos_bound; lia).
  specialize (Hg _ _ Hq Hr). unfold get in Hg. rewrite Es in Hg. unfold flat in Hg. cbn [flat_aux] in Hg.
  replace ((0 * nz + Z.of_nat n / nx) * nx + Z.of_nat n mod nx)%Z with (Z.of_nat n) in Hg
    by (pose proof (Z.div_mod (Z.of_nat n) nx ltac:(lia)); lia).
  rewrite Nat2Z.id in Hg. exact Hg.
Qed.

(* ------------------------------------------------------------------------------------------ *)
(* real arithmetic                                                                              *)
(* ------------------------------------------------------------------------------------------ *)
Lemma pymin2_ge (m a b : R) : m <= a -> m <= b -> m <= pymin2 a b.
Proof. intros Ha Hb. unfold pymin2. destruct (nltb b a); assumption. Qed.
Lemma pymin3_ge (m a b c : R) : m <= a -> m <= b -> m <= c -> m <= pymin3 a b c.
Proof. intros Ha Hb Hc. unfold pymin3. apply pymin2_ge; [apply pymin2_ge|]; assumption. Qed.

Lemma Big_nonneg : 0 <= (Big : R).
Proof. unfold Big. cbn [nofZ NumR]. lra. Qed.

(* the heart of the matter: with p = 1/dz, q = 1/dx, w = te - tv, the admissibility test says w p <= vref and
   - w q <= vref; then  w (p^2 - q^2) <= sqrt (4 vref^2 (p^2 + q^2) - p^2 q^2 (2 w)^2) *)
Lemma four_point_core (p q w vref : R) :
  0 < p -> 0 < q -> 0 <= vref -> w * p <= vref -> - w * q <= vref ->
  w * (p * p - q * q) <= sqrt (4 * (vref * vref) * (p * p + q * q) - p * p * (q * q) * ((2 * w) * (2 * w))).
Proof.
  intros Hp Hq Hv H1 H2.
  destruct (Rle_dec (w * (p * p - q * q)) 0) as [Hn|Hn].
  - eapply Rle_trans; [exact Hn | apply sqrt_pos].
  - assert (Hpos : 0 < w * (p * p - q * q)) by lra.
    rewrite <- (sqrt_square (w * (p * p - q * q))) by lra.
    apply sqrt_le_1_alt.
    (* difference = (p^2 + q^2) (4 vref^2 - w^2 (p^2 + q^2)) *)
    assert (Hk : w * w * (p * p + q * q) <= 2 * (vref * vref)).
    { destruct (Rle_dec 0 w) as [Hw|Hw].
      - (* w >= 0: then p > q, and 0 <= w q <= w p <= vref *)
        assert (Hpq : q <= p).
        { destruct (Rle_dec q p) as [|N]; [assumption|exfalso].
          assert (0 <= q * q - p * p) by nra.
          assert (0 <= w * (q * q - p * p)) by (apply Rmult_le_pos; lra). lra. }
        assert (Hwq : 0 <= w * q) by nra.
        assert (Hwp : w * q <= w * p) by nra.
        assert (S1 : (w * p) * (w * p) <= vref * vref) by nra.
        assert (S2 : (w * q) * (w * q) <= vref * vref) by nra.
        nra.
      - (* w < 0: then q > p, and 0 <= - w p <= - w q <= vref *)
        assert (Hw' : 0 < - w) by lra.
        assert (Hpq : p <= q).
        { destruct (Rle_dec p q) as [|N]; [assumption|exfalso].
          assert (0 <= p * p - q * q) by nra.
          assert (0 <= - w * (p * p - q * q)) by (apply Rmult_le_pos; lra). lra. }
        assert (Hwp : 0 <= - w * p) by nra.
        assert (Hwq : - w * p <= - w * q) by nra.
        assert (S1 : (- w * p) * (- w * p) <= vref * vref) by nra.
        assert (S2 : (- w * q) * (- w * q) <= vref * vref) by nra.
        nra. }
    assert (HA : 0 < p * p + q * q) by nra.
    assert (Hd : 0 <= (p * p + q * q) * (4 * (vref * vref) - w * w * (p * p + q * q))) by (apply Rmult_le_pos; nra).
    nra.
Qed.

(* the 4-point plane-wave operator, under the admissibility test applied by `sweep`, returns at least tev *)
Theorem four_point_ge_tev tv te tev vref dz dx :
  0 < dz -> 0 < dx -> 0 <= vref ->
  tv <= te + dx * vref -> te <= tv + dz * vref ->
  tev <= four_point tv te tev vref (1 / dz / dz) (1 / dx / dx).
Proof.
  intros Hdz Hdx Hv H1 H2. unfold four_point. cbv zeta.
  set (p := / dz). set (q := / dx).
  assert (Hp : 0 < p) by (apply Rinv_0_lt_compat; exact Hdz).
  assert (Hq : 0 < q) by (apply Rinv_0_lt_compat; exact Hdx).
  assert (Epz : p * dz = 1) by (unfold p; apply Rinv_l; lra).
  assert (Eqx : q * dx = 1) by (unfold q; apply Rinv_l; lra).
  replace (1 / dz / dz) with (p * p) by (unfold p; field; lra).
  replace (1 / dx / dx) with (q * q) by (unfold q; field; lra).
  set (w := te - tv).
  assert (W1 : w * p <= vref).
  { assert (w * p <= (dz * vref) * p) by (apply Rmult_le_compat_r; unfold w; lra).
    replace (dz * vref * p) with (vref * (p * dz)) in H by ring. rewrite Epz in H. lra. }
  assert (W2 : - w * q <= vref).
  { assert (- w * q <= (dx * vref) * q) by (apply Rmult_le_compat_r; unfold w; lra).
    replace (dx * vref * q) with (vref * (q * dx)) in H by ring. rewrite Eqx in H. lra. }
  pose proof (four_point_core p q w vref Hp Hq Hv W1 W2) as Hc.
  replace (tev + te - tv - (tev - te + tv)) with (2 * w) by (unfold w; ring).
  set (S := sqrt _) in *.
  assert (HA : 0 < p * p + q * q) by nra.
  apply (Rmult_le_reg_r (p * p + q * q)); [exact HA|].
  unfold Rdiv. rewrite Rmult_assoc, Rinv_l by lra.
  replace ((tev - te + tv) * (p * p) + (tev + te - tv) * (q * q))
    with (tev * (p * p + q * q) - w * (p * p - q * q)) by (unfold w; ring).
  lra.
Qed.

Example four_point_ge_tev_ex : 1 <= four_point 2 (5/2) 1 1 (1 / 1 / 1) (1 / 2 / 2).
Proof. apply four_point_ge_tev; lra. Qed.

(* side remark (not needed for the sign): under the same test the radicand of the 4-point operator is >= 0, so the
   square root taken there is a genuine one *)
Lemma four_point_radicand_nonneg tv te tev vref dz dx :
  0 < dz -> 0 < dx -> 0 <= vref ->
  tv <= te + dx * vref -> te <= tv + dz * vref ->
  let ta := tev + te - tv in let tb := tev - te + tv in
  0 <= 4 * (vref * vref) * (1 / dz / dz + 1 / dx / dx) - (1 / dz / dz) * (1 / dx / dx) * ((ta - tb) * (ta - tb)).
Proof.
  intros Hdz Hdx Hv H1 H2 ta tb.
  set (p := / dz). set (q := / dx).
  assert (Hp : 0 < p) by (apply Rinv_0_lt_compat; exact Hdz).
  assert (Hq : 0 < q) by (apply Rinv_0_lt_compat; exact Hdx).
  assert (Epz : p * dz = 1) by (unfold p; apply Rinv_l; lra).
  assert (Eqx : q * dx = 1) by (unfold q; apply Rinv_l; lra).
  replace (1 / dz / dz) with (p * p) by (unfold p; field; lra).
  replace (1 / dx / dx) with (q * q) by (unfold q; field; lra).
  set (w := te - tv). replace (ta - tb) with (2 * w) by (unfold ta, tb, w; ring).
  assert (W1 : w * p <= vref).
  { assert (w * p <= (dz * vref) * p) by (apply Rmult_le_compat_r; unfold w; lra).
    replace (dz * vref * p) with (vref * (p * dz)) in H by ring. rewrite Epz in H. lra. }
  assert (W2 : - w * q <= vref).
  { assert (- w * q <= (dx * vref) * q) by (apply Rmult_le_compat_r; unfold w; lra).
    replace (dx * vref * q) with (vref * (q * dx)) in H by ring. rewrite Eqx in H. lra. }
  assert (Hk : (p * q * w) * (p * q * w) <= vref * vref * (p * p + q * q)).
  { destruct (Rle_dec 0 w) as [Hw|Hw].
    - assert (P1 : 0 <= w * p) by (apply Rmult_le_pos; lra).
      assert (S1 : (w * p) * (w * p) <= vref * vref) by nra.
      assert (S2 : 0 <= (vref * vref - (w * p) * (w * p)) * (q * q)) by (apply Rmult_le_pos; nra).
      nra.
    - assert (P1 : 0 <= - w * q) by (apply Rmult_le_pos; lra).
      assert (S1 : (- w * q) * (- w * q) <= vref * vref) by nra.
      assert (S2 : 0 <= (vref * vref - (- w * q) * (- w * q)) * (p * p)) by (apply Rmult_le_pos; nra).
      nra. }
  nra.
Qed.

(* ------------------------------------------------------------------------------------------ *)
(* 1. one node update                                                                           *)
(* ------------------------------------------------------------------------------------------ *)
Lemma plane_t2d_nonneg tv te tev vref dz dx :
  0 < dz -> 0 < dx -> 0 <= vref -> 0 <= tv -> 0 <= te -> 0 <= tev ->
  0 <= plane_t2d tv te tev vref dz dx (1 / dz / dz) (1 / dx / dx).
Proof.
  intros Hdz Hdx Hv Htv Hte Htev. unfold plane_t2d.
  destruct (adm4 tv te tev vref dz dx) eqn:E4.
  - apply adm4_true in E4. destruct E4 as (A1 & A2 & _ & _).
    eapply Rle_trans; [exact Htev | apply four_point_ge_tev; assumption].
  - destruct (adm3e te tev vref dz dx).
    + unfold three_point_e. pose proof (sqrt_pos (vref * vref - (te - tev) / dz * ((te - tev) / dz))). nra.
    + destruct (adm3v tv tev vref dz dx).
      * unfold three_point_v. pose proof (sqrt_pos (vref * vref - (tv - tev) / dx * ((tv - tev) / dx))). nra.
      * apply Big_nonneg.
Qed.

Lemma spherical_t2d_nonneg tv te tev vref dz dx dzi dxi dz2i dx2i zsa xsa vzero i j sgntz sgntx :
  0 <= tv -> 0 <= spherical_t2d tv te tev vref dz dx dzi dxi dz2i dx2i zsa xsa vzero i j sgntz sgntx.
Proof.
  intros Htv. unfold spherical_t2d. destruct (admS tv te tev vref dz dx); [|apply Big_nonneg]. cbv zeta.
  set (d := spherical_raw _ _ _ _ _ _ _ _ _ _ _ _ _ _ _ _ _).
  destruct (Rltb d tv) eqn:E1; cbn [orb]; [apply Big_nonneg|].
  destruct (Rltb d te); [apply Big_nonneg|]. apply Rltb_false in E1. lra.
Qed.

Lemma sweep_t2d_nonneg tt slow dz dx zsi xsi zsa xsa vzero i j sgnvz sgnvx sgntz sgntx :
  0 < dz -> 0 < dx -> nonneg slow -> nonneg tt ->
  0 <= sweep_t2d tt slow dz dx (1 / dz) (1 / dx) (1 / dz / dz) (1 / dx / dx) zsi xsi zsa xsa vzero i j sgnvz sgnvx sgntz sgntx.
Proof.
  intros Hdz Hdx Hs Ht. unfold sweep_t2d. cbv zeta. destruct (outside_box zsi xsi i j).
  - apply plane_t2d_nonneg; try assumption; unfold cell_s, nb_v, nb_e, nb_ev; apply get_nonneg; assumption.
  - apply spherical_t2d_nonneg. unfold nb_v. apply get_nonneg, Ht.
Qed.

Lemma t1d_nonneg tt slow dz dx i j sgnvz sgnvx sgntz sgntx nz nx :
  0 < dz -> 0 < dx -> nonneg slow -> nonneg tt -> 0 <= t1d tt slow dz dx i j sgnvz sgnvx sgntz sgntx nz nx.
Proof.
  intros Hdz Hdx Hs Ht. unfold t1d, t1d_z, t1d_x, edge_s_z, edge_s_x, nb_v, nb_e.
  apply pymin2_ge.
  - match goal with |- 0 <= ?a + dz * ?m =>
      assert (0 <= a) by (apply get_nonneg, Ht);
      assert (0 <= m) by (apply pymin2_ge; apply get_nonneg, Hs) end. nra.
  - match goal with |- 0 <= ?a + dx * ?m =>
      assert (0 <= a) by (apply get_nonneg, Ht);
      assert (0 <= m) by (apply pymin2_ge; apply get_nonneg, Hs) end. nra.
Qed.

(* the value written at node (i,j) *)
Lemma sweep_value_nonneg tt slow dz dx zsi xsi zsa xsa vzero i j sgnvz sgnvx sgntz sgntx nz nx :
  0 < dz -> 0 < dx -> nonneg slow -> nonneg tt ->
  0 <= pymin3 (get 0 tt [i; j]) (t1d tt slow dz dx i j sgnvz sgnvx sgntz sgntx nz nx)
              (sweep_t2d tt slow dz dx (1 / dz) (1 / dx) (1 / dz / dz) (1 / dx / dx) zsi xsi zsa xsa vzero
                         i j sgnvz sgnvx sgntz sgntx).
Proof.
  intros Hdz Hdx Hs Ht. apply pymin3_ge.
  - apply get_nonneg, Ht.
  - apply t1d_nonneg; assumption.
  - apply sweep_t2d_nonneg; assumption.
Qed.

(* MAIN 1: all indices, all shapes, all signs, any source position, any vzero *)
Theorem sweep_nonneg (tt : arr R) ttsgn (slow : arr R) (dz dx zsi xsi zsa xsa vzero : R) i j sgnvz sgnvx sgntz sgntx nz nx grad :
  0 < dz -> 0 < dx -> nonneg slow -> nonneg tt ->
  nonneg (fst (sweep tt ttsgn slow (dz, dx, 1 / dz, 1 / dx, 1 / dz / dz, 1 / dx / dx) zsi xsi zsa xsa vzero
                     i j sgnvz sgnvx sgntz sgntx nz nx grad)).
Proof.
  intros Hdz Hdx Hs Ht. rewrite sweep_tt_eq. apply nonneg_set; [exact Ht|]. apply sweep_value_nonneg; assumption.
Qed.

(* the index form asked for: every in-range entry of the result is >= 0 *)
Corollary sweep_nonneg_get (tt : arr R) ttsgn (slow : arr R) (dz dx zsi xsi zsa xsa vzero : R) i j sgnvz sgnvx sgntz sgntx nz nx grad :
  0 < dz -> 0 < dx ->
  wf slow -> shape slow = [(nz - 1)%Z; (nx - 1)%Z] ->
  (forall p q, (0 <= p < nz - 1)%Z -> (0 <= q < nx - 1)%Z -> 0 <= get 0 slow [p; q]) ->
  wf tt -> shape tt = [nz; nx] ->
  (forall p q, (0 <= p < nz)%Z -> (0 <= q < nx)%Z -> 0 <= get 0 tt [p; q]) ->
  forall p q, (0 <= p < nz)%Z -> (0 <= q < nx)%Z ->
    0 <= get 0 (fst (sweep tt ttsgn slow (dz, dx, 1 / dz, 1 / dx, 1 / dz / dz, 1 / dx / dx) zsi xsi zsa xsa vzero
                           i j sgnvz sgnvx sgntz sgntx nz nx grad)) [p; q].
Proof.
  intros Hdz Hdx Ws Ss Hs Wt St Ht p q _ _. apply get_nonneg. apply sweep_nonneg; try assumption.
  - apply (nonneg_iff_get slow _ _ Ws Ss), Hs.
  - apply (nonneg_iff_get tt _ _ Wt St), Ht.
Qed.

(* non-vacuity: a model of 2 x 2 cells of slowness 1 (3 x 3 nodes), unit spacings; three nodes already reached, the
   others at Big; node (1,1) is updated in the first sweep direction, source far away (plane-wave branch) *)
Definition ex2 : arr R := mkarr [2%Z; 2%Z] [1; 1; 1; 1].
Definition ex2_tt : arr R := mkarr [3%Z; 3%Z] [0; 1; 2; 1; 100000; 100000; 2; 100000; 100000].
Definition ex2_sgn : arr Z := full [3%Z; 3%Z; 2%Z] 0%Z.
Lemma ex2_nonneg : nonneg ex2.
Proof. unfold nonneg, ex2. cbn [dat]. repeat constructor; lra. Qed.
Lemma ex2_tt_nonneg : nonneg ex2_tt.
Proof. unfold nonneg, ex2_tt. cbn [dat]. repeat constructor; lra. Qed.
Example sweep_nonneg_ex :
  nonneg (fst (sweep ex2_tt ex2_sgn ex2 (1, 1, 1 / 1, 1 / 1, 1 / 1 / 1, 1 / 1 / 1) 100 100 100 100 1
                     1 1 1 1 1 1 3 3 false)).
Proof. apply sweep_nonneg; [lra | lra | apply ex2_nonneg | apply ex2_tt_nonneg]. Qed.

(* ------------------------------------------------------------------------------------------ *)
(* 2. one pass                                                                                  *)
(* ------------------------------------------------------------------------------------------ *)
(* loop invariant "the traveltime component is non-negative" pushed through the loop nest of sweep2d *)
Ltac nn2d :=
  cbn beta iota delta [fst snd];
  lazymatch goal with
  | |- nonneg (fst (for_list ?l ?b ?s)) =>
      apply (for_list_inv (fun st : arr R * arr Z => nonneg (fst st))); [ nn2d | intros ? ? _ ?; nn2d ]
  | |- nonneg (fst (sweep _ _ _ _ _ _ _ _ _ _ _ _ _ _ _ _ _ _)) => apply sweep_nonneg; assumption
  | |- _ => assumption
  end.

(* MAIN 2: all grid sizes nz, nx (also degenerate ones), any source position, any vzero *)
Theorem sweep2d_nonneg (tt : arr R) ttsgn (slow : arr R) (dz dx zsi xsi zsa xsa vzero : R) nz nx grad :
  0 < dz -> 0 < dx -> nonneg slow -> nonneg tt ->
  nonneg (fst (sweep2d tt ttsgn slow dz dx zsi xsi zsa xsa vzero nz nx grad)).
Proof.
  intros Hdz Hdx Hs Ht. unfold sweep2d. cbv zeta. nn2d.
Qed.

Corollary sweep2d_nonneg_get (tt : arr R) ttsgn (slow : arr R) (dz dx zsi xsi zsa xsa vzero : R) nz nx grad :
  0 < dz -> 0 < dx -> nonneg slow -> nonneg tt ->
  forall p q, 0 <= get 0 (fst (sweep2d tt ttsgn slow dz dx zsi xsi zsa xsa vzero nz nx grad)) [p; q].
Proof. intros Hdz Hdx Hs Ht p q. apply get_nonneg, sweep2d_nonneg; assumption. Qed.

Example sweep2d_nonneg_ex :
  nonneg (fst (sweep2d ex2_tt ex2_sgn ex2 1 1 100 100 100 100 1 3 3 false)).
Proof. apply sweep2d_nonneg; [lra | lra | apply ex2_nonneg | apply ex2_tt_nonneg]. Qed.

(* ------------------------------------------------------------------------------------------ *)
(* 3. the initial state                                                                         *)
(* ------------------------------------------------------------------------------------------ *)
Lemma t_ana_nonneg i j (dz dx zsa xsa vzero : R) : 0 <= vzero -> 0 <= t_ana i j dz dx zsa xsa vzero.
Proof. intros Hv. rewrite t_ana_exact. apply Rmult_le_pos; [exact Hv | apply sqrt_pos]. Qed.

Definition nnO (r : arr R * arr R * arr Z) : Prop := nonneg (fst (fst r)).   (* result      (tt, ttgrad, ttsgn) *)
Definition nnL (s : arr R * arr R * arr Z) : Prop := nonneg (snd (fst s)).   (* loop state  (td, tt, ttsgn)     *)
Definition nnI (s : arr R * arr Z) : Prop := nonneg (fst s).                 (* guarded update (tt, ttsgn)      *)
Lemma nnL_elim s : nnL s -> nonneg (snd (fst s)). Proof. exact (fun h => h). Qed.
Lemma for_list_nnL l (b : Z -> arr R * arr R * arr Z -> arr R * arr R * arr Z) s :
  nnL s -> (forall i st, nnL st -> nnL (b i st)) -> nnL (for_list l b s).
Proof. intros H0 Hb. apply (for_list_inv nnL); auto. Qed.
Lemma if_nnI (c : bool) a b : (c = true -> nnI a) -> nnI b -> nnI (if c then a else b).
Proof. destruct c; auto. Qed.

(* goal 0 <= v for a value written into the traveltime grid: an analytic time (recorded when its `t_anad` binding is
   met), the constant 0, or a `tnew` that passed the guard  tnew >= tt[previous node] && tnew >= td[k]  *)
Ltac nn_val :=
  first
  [ assumption
  | cbn [nofZ NumR]; lra
  | match goal with E : (ngeb ?t (get _ ?a _) && _) = true |- 0 <= ?t =>
      apply andb_true_iff in E; destruct E as [E _]; unfold ngeb in E; cbn [nleb NumR] in E; apply Rleb_true in E;
      eapply Rle_trans; [ apply (get_nonneg a); assumption | exact E ] end ].
Ltac nn_arr := first [ assumption | apply nonneg_set; [ assumption | nn_val ] ].
Ltac nn_leaf := unfold nnO, nnL, nnI; cbn beta iota delta [fst snd]; assumption.

(* Walking a generated let-chain.  Conversion between two large let-terms is very expensive (every let is expanded on
   both sides), so a chain  Q (let x1 := v1 in ... let xn := vn in fin)  is handled in ONE step: every binding is posed
   as a local definition (cheap), the goal is replaced by  Q fin  (`change_no_check`: the kernel checks it at Qed), and
   only then the definitions are visited in program order (`walk`/`proc`):
     - a loop `for_list l b s` on the state (td, tt, ttsgn): invariant "tt is non-negative", its body is a new chain;
     - a guarded update `if c then a else b` of (tt, ttsgn): both branches are new chains, `c = true` is kept;
     - an array: its non-negativity is recorded when it can be shown (the traveltime grid), not otherwise (`td`, gradient);
     - a triple `t_anad ..`: its first component is >= 0;
   after which the body of the definition is forgotten. *)
Ltac peel_then t acc k :=
  lazymatch t with
  | (let x := ?v in @?F x) =>
      let x' := fresh "v" in
      pose (x' := v);
      let b := eval cbv beta in (F x') in
      peel_then b constr:((acc, x')) k
  | _ => k t acc
  end.

Ltac region :=
  lazymatch goal with |- ?Q ?t =>
    let t' := eval cbv beta in t in
    peel_then t' constr:(I) ltac:(fun fin acc => change_no_check (Q fin); walk acc; nn_leaf)
  end
with walk acc :=
  lazymatch acc with
  | (?rest, ?x) => walk rest; proc x
  | _ => idtac
  end
with proc x :=
  let v := eval cbv delta [x] in x in
  let ty := type of x in
  lazymatch v with
  | for_list ?l ?b ?s =>
      let H := fresh "H" in
      assert (H : nonneg (snd (fst x)))
        by (change_no_check (nnL (for_list l b s)); apply for_list_nnL;
            [ nn_leaf | let Hs := fresh "Hs" in intros ? ? Hs; apply nnL_elim in Hs; region ]);
      clearbody x
  | (if ?c then ?a else ?b) =>
      lazymatch ty with
      | (arr R * arr Z)%type =>
          let H := fresh "H" in
          assert (H : nonneg (fst x))
            by (change_no_check (nnI (if c then a else b)); apply if_nnI;
                [ let E := fresh "E" in intro E; region | region ]);
          clearbody x
      | _ => clearbody x
      end
  | _ =>
      lazymatch ty with
      | arr R => let H := fresh "H" in try (assert (H : nonneg x) by (unfold x; nn_arr)); clearbody x
      | (R * R * R)%type =>
          let H := fresh "H" in
          try (assert (H : 0 <= fst (fst x)) by (unfold x; rewrite t_anad_fst; apply t_ana_nonneg; assumption));
          clearbody x
      | _ => clearbody x
      end
  end.

(* no hypothesis on the spacings, the slownesses or the indices: every value written is guarded or analytic *)
Lemma fteik2d_p2_nonneg (dx dz : R) grad iflag nx nz (slow tt G : arr R) S (vzero xsa : R) xsi (zsa : R) zsi :
  0 <= vzero -> nonneg tt ->
  nnO (fteik2d_p2 dx dz grad iflag nx nz slow tt G S vzero xsa xsi zsa zsi).
Proof.
  intros Hv Ht.
  lazymatch goal with |- nnO ?t => let t' := eval cbv beta delta [fteik2d_p2] in t in
    lazymatch t' with (let u := (if ?c then ?a else ?b) in _) =>
      change_no_check (nnO (if c then a else b)); destruct c end end.
  - region.
  - region.
Qed.

(* MAIN 3, self-contained form: the composition fteik2d_p1 ; fteik2d_p2 exactly as in fteik2d *)
Theorem init_nonneg_raw (dx dz : R) grad nx nz (slow : arr R) (xsrc zsrc : R) :
  nonneg slow ->
  let r1 := fteik2d_p1 dx dz grad nx nz slow xsrc zsrc in
  let iflag := fst (fst (fst (fst (fst (fst (fst (fst (fst (fst r1))))))))) in
  let nx' := snd (fst (fst (fst (fst (fst (fst (fst (fst (fst r1))))))))) in
  let nz' := snd (fst (fst (fst (fst (fst (fst (fst (fst r1)))))))) in
  let tt1 := snd (fst (fst (fst (fst (fst (fst (fst r1))))))) in
  let G1 := snd (fst (fst (fst (fst (fst (fst r1)))))) in
  let S1 := snd (fst (fst (fst (fst (fst r1))))) in
  let vzero := snd (fst (fst (fst (fst r1)))) in
  let xsa := snd (fst (fst (fst r1))) in
  let xsi := snd (fst (fst r1)) in
  let zsa := snd (fst r1) in
  let zsi := snd r1 in
  0 <= vzero /\
  nonneg (fst (fst (fteik2d_p2 dx dz grad iflag nx' nz' slow tt1 G1 S1 vzero xsa xsi zsa zsi))).
Proof.
  intros Hs r1 iflag nx' nz' tt1 G1 S1 vzero xsa xsi zsa zsi.
  assert (Hv : 0 <= vzero).
  { unfold vzero, r1. cbv beta delta [fteik2d_p1]. cbv zeta. cbn [fst snd]. apply get_nonneg, Hs. }
  split; [exact Hv|].
  apply (fteik2d_p2_nonneg dx dz grad iflag nx' nz' slow tt1 G1 S1 vzero xsa xsi zsa zsi Hv).
  unfold tt1, r1. cbv beta delta [fteik2d_p1]. cbv zeta. cbn [fst snd]. apply nonneg_full, Big_nonneg.
Qed.

(* MAIN 3 in the vocabulary of Solve2dProofs: i_tt = traveltime grid before the first sweep, i_vzero = slowness at the source *)
Theorem init_nonneg (slow : arr R) (dz dx zsrc xsrc : R) grad :
  nonneg slow ->
  nonneg (i_tt slow dz dx zsrc xsrc grad) /\ 0 <= i_vzero slow dz dx zsrc xsrc grad.
Proof.
  intros Hs.
  destruct (init_nonneg_raw dx dz grad (dim slow 1) (dim slow 0) slow xsrc zsrc Hs) as [Hv Ht].
  split; [exact Ht | exact Hv].
Qed.

(* non-vacuity: the model ex2 above (2 x 2 cells of slowness 1), unit spacings, source in the middle of cell (0,0) *)
Example init_nonneg_ex : nonneg (i_tt ex2 1 1 (1/2) (1/2) false) /\ 0 <= i_vzero ex2 1 1 (1/2) (1/2) false.
Proof. apply init_nonneg, ex2_nonneg. Qed.

(* ------------------------------------------------------------------------------------------ *)
(* 4. the solver                                                                                *)
(* ------------------------------------------------------------------------------------------ *)
Lemma ptt_nonneg (slow : arr R) (dz dx zsrc xsrc : R) grad t :
  0 < dz -> 0 < dx -> nonneg slow -> nonneg t -> nonneg (ptt slow dz dx zsrc xsrc grad t).
Proof. intros Hdz Hdx Hs Ht. unfold ptt, pass2d. cbn [fst snd]. apply sweep2d_nonneg; assumption. Qed.

(* MAIN 4: all models (any shape), any source, any number of sweeps, with or without gradient *)
Theorem fteik2d_nonneg (slow : arr R) (dz dx zsrc xsrc : R) nsweep grad (tt ttgrad : arr R) (vzero : R) :
  0 < dz -> 0 < dx -> nonneg slow ->
  fteik2d slow dz dx zsrc xsrc nsweep grad = Ok (tt, ttgrad, vzero) ->
  nonneg tt /\ 0 <= vzero.
Proof.
  intros Hdz Hdx Hs E. apply fteik2d_ok_inv in E as (_ & -> & ->).
  destruct (init_nonneg slow dz dx zsrc xsrc grad Hs) as [H0 Hv]. split; [|exact Hv].
  induction (Z.to_nat nsweep) as [|k IH]; [exact H0|].
  rewrite iter_S. apply ptt_nonneg; assumption.
Qed.

(* the same with indices: slownesses given cell by cell, traveltimes read node by node *)
Corollary fteik2d_nonneg_get (slow : arr R) (dz dx zsrc xsrc : R) nsweep grad (tt ttgrad : arr R) (vzero : R) :
  0 < dz -> 0 < dx -> wf slow -> (1 <= dim slow 0)%Z -> (1 <= dim slow 1)%Z -> shape slow = [dim slow 0; dim slow 1] ->
  (forall i j, (0 <= i < dim slow 0)%Z -> (0 <= j < dim slow 1)%Z -> 0 <= get 0 slow [i; j]) ->
  fteik2d slow dz dx zsrc xsrc nsweep grad = Ok (tt, ttgrad, vzero) ->
  (forall i j, (0 <= i <= dim slow 0)%Z -> (0 <= j <= dim slow 1)%Z -> 0 <= get 0 tt [i; j]) /\ 0 <= vzero.
Proof.
  intros Hdz Hdx Hw _ _ Hsh Hg E.
  destruct (fteik2d_nonneg slow dz dx zsrc xsrc nsweep grad tt ttgrad vzero Hdz Hdx) as [Ht Hv]; [|exact E|].
  - apply (nonneg_iff_get slow _ _ Hw Hsh), Hg.
  - split; [|exact Hv]. intros i j _ _. apply get_nonneg, Ht.
Qed.

Lemma ex2_inside : inside2d ex2 1 1 (1/2) (1/2) = true.
Proof.
  unfold inside2d. cbn [dim shape ex2 nth]. cbn [nleb nmul nofZ NumR].
  rewrite !andb_true_iff, !Rleb_true. lra.
Qed.
Example fteik2d_nonneg_ex :
  exists tt G v, fteik2d ex2 1 1 (1/2) (1/2) 2 false = Ok (tt, G, v) /\ nonneg tt /\ 0 <= v.
Proof.
  destruct (fteik2d_raises_iff ex2 1 1 (1/2) (1/2) 2 false) as [_ H].
  destruct (H ex2_inside) as [[[tt G] v] E]. exists tt, G, v. split; [exact E|].
  apply (fteik2d_nonneg ex2 1 1 (1/2) (1/2) 2 false tt G v); [lra | lra | apply ex2_nonneg | exact E].
Qed.

Print Assumptions four_point_ge_tev.
Print Assumptions four_point_radicand_nonneg.
Print Assumptions sweep_nonneg.
Print Assumptions sweep2d_nonneg.
Print Assumptions fteik2d_p2_nonneg.
Print Assumptions init_nonneg_raw.
Print Assumptions init_nonneg.
Print Assumptions fteik2d_nonneg.
Print Assumptions fteik2d_nonneg_get.
