(* Traveltimes of the 2D solver are non-negative (clause of C03), over the reals (T := R, instance NumR), for ALL inputs.

     every entry of an array is >= 0:   nonneg a := Forall (fun x => 0 <= x) (dat a)
     (for a well-formed 2-D array this is the same as  forall i j in range, 0 <= get 0 a [i; j] : nonneg_iff_get)

     1. sweep_nonneg     one node update (Fteik2d.sweep) keeps every entry >= 0
     2. sweep2d_nonneg   one pass (Fteik2d.sweep2d) keeps every entry >= 0
     3. init_nonneg      the initial state (fteik2d_p1 ; fteik2d_p2) has every traveltime >= 0
     4. fteik2d_nonneg   every traveltime returned by fteik2d is >= 0, and so is vzero

   No hypothesis on shapes or index ranges is needed: `get` on an out-of-range index returns an entry or the default 0,
   `set` on an out-of-range index overwrites an entry or nothing.  The only hypotheses are dz > 0, dx > 0 and
   "every slowness is >= 0".

   The one non-trivial point is the 4-point plane-wave operator: under its admissibility test it returns a value
   >= tev (four_point_ge_tev).  The 3-point operators add dx * sqrt(..) >= 0 to te (resp. tv) (Coq's sqrt is 0 on
   negative reals), the spherical operator is replaced by Big when it is < tv or < te. *)
From Coq Require Import ZArith List Bool Lia Reals Lra Psatz.
From FT.lib Require Import Num Arr ArrLemmas.
From FT.gen Require Import Fteik2d.
From FT.proofs Require Import OperatorsR.
Import ListNotations.
Open Scope R_scope.

(* ------------------------------------------------------------------------------------------ *)
(* arrays with non-negative entries                                                             *)
(* ------------------------------------------------------------------------------------------ *)
Definition nonneg (a : arr R) : Prop := Forall (fun x => 0 <= x) (dat a).

Lemma get_nonneg a idx : nonneg a -> 0 <= get 0 a idx.
Proof.
  intros Ha. unfold get. destruct (nth_in_or_default (Z.to_nat (flat (shape a) idx)) (dat a) 0) as [Hin | ->].
  - unfold nonneg in Ha. rewrite Forall_forall in Ha. apply Ha, Hin.
  - lra.
Qed.

Lemma Forall_upd {A} (P : A -> Prop) (l : list A) n v : Forall P l -> P v -> Forall P (upd l n v).
Proof.
  intros Hl Hv. revert n. induction Hl as [|x l Hx Hl IH]; intros [|n]; cbn [upd]; constructor; auto.
Qed.

Lemma nonneg_set a idx v : nonneg a -> 0 <= v -> nonneg (set a idx v).
Proof. intros Ha Hv. unfold nonneg, set. cbn [dat]. apply Forall_upd; assumption. Qed.

Lemma nonneg_full sh v : 0 <= v -> nonneg (full sh v).
Proof. intros Hv. unfold nonneg, full. cbn [dat]. rewrite Forall_forall. intros x Hx. apply repeat_spec in Hx. lra. Qed.

(* the same thing said with indices, for a well-formed 2-D array *)
Lemma nonneg_iff_get (a : arr R) (nz nx : Z) :
  wf a -> shape a = [nz; nx] ->
  (nonneg a <-> forall i j, (0 <= i < nz)%Z -> (0 <= j < nx)%Z -> 0 <= get 0 a [i; j]).
Proof.
  intros [Hl Hs] Es. split; [intros Ha i j _ _; apply get_nonneg, Ha|].
  intros Hg. unfold nonneg. rewrite Forall_forall. intros x Hx.
  destruct (In_nth _ _ 0 Hx) as (n & Hn & <-).
  rewrite Hl, Es in Hn. unfold prodZ in Hn. cbn [fold_right] in Hn.
  rewrite Es in Hs. inversion Hs as [|? ? Hnz Hs']; subst. inversion Hs' as [|? ? Hnx _]; subst.
  assert (Hpos : (0 < nx)%Z) by nia.
  assert (Hn' : (0 <= Z.of_nat n < nz * nx)%Z) by nia.
  assert (Hq : (0 <= Z.of_nat n / nx < nz)%Z).
  { split; [apply Z.div_pos; lia | apply Z.div_lt_upper_bound; lia]. }
  assert (Hr : (0 <= Z.of_nat n mod nx < nx)%Z) by (apply Z.mod_pos_bound; lia).
  specialize (Hg _ _ Hq Hr). unfold get in Hg. rewrite Es in Hg. unfold flat in Hg. cbn [flat_aux] in Hg.
  replace ((0 * nz + Z.of_nat n / nx) * nx + Z.of_nat n mod nx)%Z with (Z.of_nat n) in Hg
    by (pose proof (Z.div_mod (Z.of_nat n) nx ltac:(lia)); lia).
  rewrite Nat2Z.id in Hg. exact Hg.
Qed.

(* ------------------------------------------------------------------------------------------ *)
(* real arithmetic                                                                              *)
(* ------------------------------------------------------------------------------------------ *)
Lemma pymin2_ge (m a b : R) : m <= a -> m <= b -> m <= pymin2 a b.
Proof. intros Ha Hb. unfold pymin2. destruct (nltb b a); assumption. Qed.
Lemma pymin3_ge (m a b c : R) : m <= a -> m <= b -> m <= c -> m <= pymin3 a b c.
Proof. intros Ha Hb Hc. unfold pymin3. apply pymin2_ge; [apply pymin2_ge|]; assumption. Qed.

Lemma Big_nonneg : 0 <= (Big : R).
Proof. unfold Big. cbn [nofZ NumR]. lra. Qed.

(* the heart of the matter: with p = 1/dz, q = 1/dx, w = te - tv, the admissibility test says w p <= vref and
   - w q <= vref; then  w (p^2 - q^2) <= sqrt (4 vref^2 (p^2 + q^2) - p^2 q^2 (2 w)^2) *)
Lemma four_point_core (p q w vref : R) :
  0 < p -> 0 < q -> 0 <= vref -> w * p <= vref -> - w * q <= vref ->
  w * (p * p - q * q) <= sqrt (4 * (vref * vref) * (p * p + q * q) - p * p * (q * q) * ((2 * w) * (2 * w))).
Proof.
  intros Hp Hq Hv H1 H2.
  destruct (Rle_dec (w * (p * p - q * q)) 0) as [Hn|Hn].
  - eapply Rle_trans; [exact Hn | apply sqrt_pos].
  - assert (Hpos : 0 < w * (p * p - q * q)) by lra.
    rewrite <- (sqrt_square (w * (p * p - q * q))) by lra.
    apply sqrt_le_1_alt.
    (* difference = (p^2 + q^2) (4 vref^2 - w^2 (p^2 + q^2)) *)
    assert (Hk : w * w * (p * p + q * q) <= 2 * (vref * vref)).
    { destruct (Rle_dec 0 w) as [Hw|Hw].
      - (* w >= 0: then p > q, and 0 <= w q <= w p <= vref *)
        assert (Hpq : q <= p).
        { destruct (Rle_dec q p) as [|N]; [assumption|exfalso].
          assert (0 <= q * q - p * p) by nra.
          assert (0 <= w * (q * q - p * p)) by (apply Rmult_le_pos; lra). lra. }
        assert (Hwq : 0 <= w * q) by nra.
        assert (Hwp : w * q <= w * p) by nra.
        assert (S1 : (w * p) * (w * p) <= vref * vref) by nra.
        assert (S2 : (w * q) * (w * q) <= vref * vref) by nra.
        nra.
      - (* w < 0: then q > p, and 0 <= - w p <= - w q <= vref *)
        assert (Hw' : 0 < - w) by lra.
        assert (Hpq : p <= q).
        { destruct (Rle_dec p q) as [|N]; [assumption|exfalso].
          assert (0 <= p * p - q * q) by nra.
          assert (0 <= - w * (p * p - q * q)) by (apply Rmult_le_pos; lra). lra. }
        assert (Hwp : 0 <= - w * p) by nra.
        assert (Hwq : - w * p <= - w * q) by nra.
        assert (S1 : (- w * p) * (- w * p) <= vref * vref) by nra.
        assert (S2 : (- w * q) * (- w * q) <= vref * vref) by nra.
        nra. }
    assert (HA : 0 < p * p + q * q) by nra.
    assert (Hd : 0 <= (p * p + q * q) * (4 * (vref * vref) - w * w * (p * p + q * q))) by (apply Rmult_le_pos; nra).
    nra.
Qed.

(* the 4-point plane-wave operator, under the admissibility test applied by `sweep`, returns at least tev *)
Theorem four_point_ge_tev tv te tev vref dz dx :
  0 < dz -> 0 < dx -> 0 <= vref ->
  tv <= te + dx * vref -> te <= tv + dz * vref ->
  tev <= four_point tv te tev vref (1 / dz / dz) (1 / dx / dx).
Proof.
  intros Hdz Hdx Hv H1 H2. unfold four_point. cbv zeta.
  set (p := / dz). set (q := / dx).
  assert (Hp : 0 < p) by (apply Rinv_0_lt_compat; exact Hdz).
  assert (Hq : 0 < q) by (apply Rinv_0_lt_compat; exact Hdx).
  assert (Epz : p * dz = 1) by (unfold p; apply Rinv_l; lra).
  assert (Eqx : q * dx = 1) by (unfold q; apply Rinv_l; lra).
  replace (1 / dz / dz) with (p * p) by (unfold p; field; lra).
  replace (1 / dx / dx) with (q * q) by (unfold q; field; lra).
  set (w := te - tv).
  assert (W1 : w * p <= vref).
  { assert (w * p <= (dz * vref) * p) by (apply Rmult_le_compat_r; unfold w; lra).
    replace (dz * vref * p) with (vref * (p * dz)) in H by ring. rewrite Epz in H. lra. }
  assert (W2 : - w * q <= vref).
  { assert (- w * q <= (dx * vref) * q) by (apply Rmult_le_compat_r; unfold w; lra).
    replace (dx * vref * q) with (vref * (q * dx)) in H by ring. rewrite Eqx in H. lra. }
  pose proof (four_point_core p q w vref Hp Hq Hv W1 W2) as Hc.
  replace (tev + te - tv - (tev - te + tv)) with (2 * w) by (unfold w; ring).
  set (S := sqrt _) in *.
  assert (HA : 0 < p * p + q * q) by nra.
  apply (Rmult_le_reg_r (p * p + q * q)); [exact HA|].
  unfold Rdiv. rewrite Rmult_assoc, Rinv_l by lra.
  replace ((tev - te + tv) * (p * p) + (tev + te - tv) * (q * q))
    with (tev * (p * p + q * q) - w * (p * p - q * q)) by (unfold w; ring).
  lra.
Qed.

Example four_point_ge_tev_ex : 1 <= four_point 2 (5/2) 1 1 (1 / 1 / 1) (1 / 2 / 2).
Proof. apply four_point_ge_tev; lra. Qed.

(* ------------------------------------------------------------------------------------------ *)
(* 1. one node update                                                                           *)
(* ------------------------------------------------------------------------------------------ *)
Lemma plane_t2d_nonneg tv te tev vref dz dx :
  0 < dz -> 0 < dx -> 0 <= vref -> 0 <= tv -> 0 <= te -> 0 <= tev ->
  0 <= plane_t2d tv te tev vref dz dx (1 / dz / dz) (1 / dx / dx).
Proof.
  intros Hdz Hdx Hv Htv Hte Htev. unfold plane_t2d.
  destruct (adm4 tv te tev vref dz dx) eqn:E4.
  - apply adm4_true in E4. destruct E4 as (A1 & A2 & _ & _).
    eapply Rle_trans; [exact Htev | apply four_point_ge_tev; assumption].
  - destruct (adm3e te tev vref dz dx).
    + unfold three_point_e. pose proof (sqrt_pos (vref * vref - (te - tev) / dz * ((te - tev) / dz))). nra.
    + destruct (adm3v tv tev vref dz dx).
      * unfold three_point_v. pose proof (sqrt_pos (vref * vref - (tv - tev) / dx * ((tv - tev) / dx))). nra.
      * apply Big_nonneg.
Qed.

Lemma spherical_t2d_nonneg tv te tev vref dz dx dzi dxi dz2i dx2i zsa xsa vzero i j sgntz sgntx :
  0 <= tv -> 0 <= spherical_t2d tv te tev vref dz dx dzi dxi dz2i dx2i zsa xsa vzero i j sgntz sgntx.
Proof.
  intros Htv. unfold spherical_t2d. destruct (admS tv te tev vref dz dx); [|apply Big_nonneg]. cbv zeta.
  set (d := spherical_raw _ _ _ _ _ _ _ _ _ _ _ _ _ _ _ _ _).
  destruct (Rltb d tv) eqn:E1; cbn [orb]; [apply Big_nonneg|].
  destruct (Rltb d te); [apply Big_nonneg|]. apply Rltb_false in E1. lra.
Qed.

Lemma sweep_t2d_nonneg tt slow dz dx zsi xsi zsa xsa vzero i j sgnvz sgnvx sgntz sgntx :
  0 < dz -> 0 < dx -> nonneg slow -> nonneg tt ->
  0 <= sweep_t2d tt slow dz dx (1 / dz) (1 / dx) (1 / dz / dz) (1 / dx / dx) zsi xsi zsa xsa vzero i j sgnvz sgnvx sgntz sgntx.
Proof.
  intros Hdz Hdx Hs Ht. unfold sweep_t2d. cbv zeta. destruct (outside_box zsi xsi i j).
  - apply plane_t2d_nonneg; try assumption; unfold cell_s, nb_v, nb_e, nb_ev; apply get_nonneg; assumption.
  - apply spherical_t2d_nonneg. unfold nb_v. apply get_nonneg, Ht.
Qed.

Lemma t1d_nonneg tt slow dz dx i j sgnvz sgnvx sgntz sgntx nz nx :
  0 < dz -> 0 < dx -> nonneg slow -> nonneg tt -> 0 <= t1d tt slow dz dx i j sgnvz sgnvx sgntz sgntx nz nx.
Proof.
  intros Hdz Hdx Hs Ht. unfold t1d, t1d_z, t1d_x, edge_s_z, edge_s_x, nb_v, nb_e.
  apply pymin2_ge.
  - match goal with |- 0 <= ?a + dz * ?m =>
      assert (0 <= a) by (apply get_nonneg, Ht);
      assert (0 <= m) by (apply pymin2_ge; apply get_nonneg, Hs) end. nra.
  - match goal with |- 0 <= ?a + dx * ?m =>
      assert (0 <= a) by (apply get_nonneg, Ht);
      assert (0 <= m) by (apply pymin2_ge; apply get_nonneg, Hs) end. nra.
Qed.

(* the value written at node (i,j) *)
Lemma sweep_value_nonneg tt slow dz dx zsi xsi zsa xsa vzero i j sgnvz sgnvx sgntz sgntx nz nx :
  0 < dz -> 0 < dx -> nonneg slow -> nonneg tt ->
  0 <= pymin3 (get 0 tt [i; j]) (t1d tt slow dz dx i j sgnvz sgnvx sgntz sgntx nz nx)
              (sweep_t2d tt slow dz dx (1 / dz) (1 / dx) (1 / dz / dz) (1 / dx / dx) zsi xsi zsa xsa vzero
                         i j sgnvz sgnvx sgntz sgntx).
Proof.
  intros Hdz Hdx Hs Ht. apply pymin3_ge.
  - apply get_nonneg, Ht.
  - apply t1d_nonneg; assumption.
  - apply sweep_t2d_nonneg; assumption.
Qed.

(* MAIN 1: all indices, all shapes, all signs, any source position, any vzero *)
Theorem sweep_nonneg (tt : arr R) ttsgn (slow : arr R) (dz dx zsi xsi zsa xsa vzero : R) i j sgnvz sgnvx sgntz sgntx nz nx grad :
  0 < dz -> 0 < dx -> nonneg slow -> nonneg tt ->
  nonneg (fst (sweep tt ttsgn slow (dz, dx, 1 / dz, 1 / dx, 1 / dz / dz, 1 / dx / dx) zsi xsi zsa xsa vzero
                     i j sgnvz sgnvx sgntz sgntx nz nx grad)).
Proof.
  intros Hdz Hdx Hs Ht. rewrite sweep_tt_eq. apply nonneg_set; [exact Ht|]. apply sweep_value_nonneg; assumption.
Qed.

(* the index form asked for: every in-range entry of the result is >= 0 *)
Corollary sweep_nonneg_get (tt : arr R) ttsgn (slow : arr R) (dz dx zsi xsi zsa xsa vzero : R) i j sgnvz sgnvx sgntz sgntx nz nx grad :
  0 < dz -> 0 < dx ->
  wf slow -> shape slow = [(nz - 1)%Z; (nx - 1)%Z] ->
  (forall p q, (0 <= p < nz - 1)%Z -> (0 <= q < nx - 1)%Z -> 0 <= get 0 slow [p; q]) ->
  wf tt -> shape tt = [nz; nx] ->
  (forall p q, (0 <= p < nz)%Z -> (0 <= q < nx)%Z -> 0 <= get 0 tt [p; q]) ->
  forall p q, (0 <= p < nz)%Z -> (0 <= q < nx)%Z ->
    0 <= get 0 (fst (sweep tt ttsgn slow (dz, dx, 1 / dz, 1 / dx, 1 / dz / dz, 1 / dx / dx) zsi xsi zsa xsa vzero
                           i j sgnvz sgnvx sgntz sgntx nz nx grad)) [p; q].
Proof.
  intros Hdz Hdx Ws Ss Hs Wt St Ht p q _ _. apply get_nonneg. apply sweep_nonneg; try assumption.
  - apply (nonneg_iff_get slow _ _ Ws Ss), Hs.
  - apply (nonneg_iff_get tt _ _ Wt St), Ht.
Qed.

(* non-vacuity: a 2x2-node grid over one cell of slowness 2 (OperatorsR.ex_tt, ex_slow), node (1,1) updated *)
Lemma ex_slow_nonneg : nonneg ex_slow.
Proof. unfold nonneg, ex_slow. cbn [dat]. repeat constructor; lra. Qed.
Lemma ex_tt_nonneg : nonneg (ex_tt (8/5) (6/5)).
Proof. unfold nonneg, ex_tt. cbn [dat]. repeat constructor; lra. Qed.
Example sweep_nonneg_ex :
  nonneg (fst (sweep (ex_tt (8/5) (6/5)) ex_sgn ex_slow (1, 1, 1 / 1, 1 / 1, 1 / 1 / 1, 1 / 1 / 1) 100 100 100 100 2
                     1 1 1 1 1 1 2 2 false)).
Proof. apply sweep_nonneg; [lra | lra | apply ex_slow_nonneg | apply ex_tt_nonneg]. Qed.

(* ------------------------------------------------------------------------------------------ *)
(* 2. one pass                                                                                  *)
(* ------------------------------------------------------------------------------------------ *)
(* loop invariant "the traveltime component is non-negative" pushed through the loop nest of sweep2d *)
Ltac nn2d :=
  cbn beta iota delta [fst snd];
  lazymatch goal with
  | |- nonneg (fst (for_list ?l ?b ?s)) =>
      apply (for_list_inv (fun st : arr R * arr Z => nonneg (fst st))); [ nn2d | intros ? ? _ ?; nn2d ]
  | |- nonneg (fst (sweep _ _ _ _ _ _ _ _ _ _ _ _ _ _ _ _ _ _)) => apply sweep_nonneg; assumption
  | |- _ => assumption
  end.

(* MAIN 2: all grid sizes nz, nx (also degenerate ones), any source position, any vzero *)
Theorem sweep2d_nonneg (tt : arr R) ttsgn (slow : arr R) (dz dx zsi xsi zsa xsa vzero : R) nz nx grad :
  0 < dz -> 0 < dx -> nonneg slow -> nonneg tt ->
  nonneg (fst (sweep2d tt ttsgn slow dz dx zsi xsi zsa xsa vzero nz nx grad)).
Proof.
  intros Hdz Hdx Hs Ht. unfold sweep2d. cbv zeta. nn2d.
Qed.

Corollary sweep2d_nonneg_get (tt : arr R) ttsgn (slow : arr R) (dz dx zsi xsi zsa xsa vzero : R) nz nx grad :
  0 < dz -> 0 < dx -> nonneg slow -> nonneg tt ->
  forall p q, 0 <= get 0 (fst (sweep2d tt ttsgn slow dz dx zsi xsi zsa xsa vzero nz nx grad)) [p; q].
Proof. intros Hdz Hdx Hs Ht p q. apply get_nonneg, sweep2d_nonneg; assumption. Qed.

Example sweep2d_nonneg_ex :
  nonneg (fst (sweep2d (ex_tt (8/5) (6/5)) ex_sgn ex_slow 1 1 100 100 100 100 2 2 2 false)).
Proof. apply sweep2d_nonneg; [lra | lra | apply ex_slow_nonneg | apply ex_tt_nonneg]. Qed.
