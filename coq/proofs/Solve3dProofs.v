(* 3D eikonal solver driver (gen/Fteik3d.v: fteik3d = 8 source corners from t_anad ; nsweep * sweep3d ; gradient),
   generic in the numeric type unless stated otherwise.  Same statements as Solve2dProofs.v:
     1. fteik3d_raises_iff            raises ValueError exactly when the code's inside-test is false
     2. fteik3d_nsweep_iter           nsweep is only an iteration count of one fixed pass
     3. fteik3d_init_okT              the initial traveltime grid is well formed, shape (nz+1, nx+1, ny+1)
     4. fteik3d_monotone_in_nsweep    one more sweep never increases a traveltime (bit for bit)
     5. fteik3d_fixed_stays           once a sweep changes nothing, no later sweep does
     6. fteik3d_tt_indep_of_grad      the traveltime grid and vzero do not depend on return_gradient
     7. fteik3d_converges             (binary64) the grids are eventually constant in nsweep
   The generic tools (iteration lemmas, let-chain walking, rank sums of binary64 grids) come from Solve2dProofs. *)
From Coq Require Import ZArith List Bool Lia.
From FT.lib Require Import Num Arr ArrLemmas Lower.
From FT.gen Require Import Fteik3d.
From FT.proofs Require Import Sweep2dProofs NumFLaws Solve2dProofs Sweep3dProofs.
Import ListNotations.
Open Scope Z_scope.

(* conversion must never unfold the big generated constants when comparing two calls *)
Local Strategy 1000 [fteik3d_p1 sweep3d t_anad].

(* on a grid with a single layer of nodes along one axis (or none) every loop of sweep3d is empty *)
Lemma pass3T_small {T} `{Num T} nz nx ny slow dargs uz ux uy (tt : arr T) :
  nz <= 1 \/ nx <= 1 \/ ny <= 1 -> pass3T nz nx ny slow dargs uz ux uy tt = tt.
Proof.
  intros Hs. unfold pass3T.
  destruct Hs as [Hs|[Hs|Hs]];
    repeat first [ rewrite (dir_range_small _ _ Hs); reflexivity | apply for_list_id_ext; intros ].
Qed.
Lemma sweep3d_small {T} `{Num T} (tt : arr T) ttsgn slow dz dx dy nz nx ny grad :
  nz <= 1 \/ nx <= 1 \/ ny <= 1 -> fst (sweep3d tt ttsgn slow dz dx dy nz nx ny grad) = tt.
Proof.
  intros Hs. destruct (sweep3d_proj nz nx ny slow dz dx dy) as (dargs & E & _).
  rewrite E. unfold sweep3dT. cbv zeta. rewrite !(pass3T_small _ _ _ _ _ _ _ _ _ Hs). reflexivity.
Qed.

Section Solve.
Context {T : Type} `{Num T}.
Variables (slow : arr T) (dz dx dy zsrc xsrc ysrc : T).

(* the code's test (condz and condx and condy) *)
Definition inside3d : bool :=
  let nz := dim slow 0 in let nx := dim slow 1 in let ny := dim slow 2 in
  (nleb (nofZ 0) zsrc && nleb zsrc (nmul dz (nofZ nz))) && (nleb (nofZ 0) xsrc && nleb xsrc (nmul dx (nofZ nx)))
  && (nleb (nofZ 0) ysrc && nleb ysrc (nmul dy (nofZ ny))).

(* the initialisation of fteik3d, transcribed: source cell, reference slowness, grid extents, the 8 corners of the source
   cell set from the analytical time t_anad in the code's order *)
Definition zsa3 : T := ndiv zsrc dz.
Definition xsa3 : T := ndiv xsrc dx.
Definition ysa3 : T := ndiv ysrc dy.
Definition zsi3 : Z := Z.min (ntrunc zsa3) (dim slow 0 - 1).
Definition xsi3 : Z := Z.min (ntrunc xsa3) (dim slow 1 - 1).
Definition ysi3 : Z := Z.min (ntrunc ysa3) (dim slow 2 - 1).
Definition vzero3 : T := get (nofZ 0) slow [zsi3; xsi3; ysi3].
Notation NZ := (dim slow 0 + 1).
Notation NX := (dim slow 1 + 1).
Notation NY := (dim slow 2 + 1).
Definition corner3 (t : arr T) (i j k : Z) : arr T :=
  set t [i; j; k] (fst (fst (fst (t_anad i j k dz dx dy zsa3 xsa3 ysa3 vzero3)))).
Definition tt0_3d : arr T :=
  let t := full [NZ; NX; NY] Big in
  let t := corner3 t zsi3 xsi3 ysi3 in
  let t := corner3 t (zsi3 + 1) xsi3 ysi3 in
  let t := corner3 t zsi3 (xsi3 + 1) ysi3 in
  let t := corner3 t zsi3 xsi3 (ysi3 + 1) in
  let t := corner3 t (zsi3 + 1) (xsi3 + 1) ysi3 in
  let t := corner3 t (zsi3 + 1) xsi3 (ysi3 + 1) in
  let t := corner3 t zsi3 (xsi3 + 1) (ysi3 + 1) in
  let t := corner3 t (zsi3 + 1) (xsi3 + 1) (ysi3 + 1) in
  t.
Definition ttsgn0_3d (grad : bool) : arr Z := if grad then full [NZ; NX; NY; 3] 0 else full [0; 0; 0; 0] 0.

(* the state before the first sweep: (tt, ttsgn, vzero, nz, nx, ny); no dependence on nsweep *)
Definition init_state3 : Type := (arr T * arr Z * T * Z * Z * Z)%type.
Definition st3_tt (st : init_state3) : arr T := fst (fst (fst (fst (fst st)))).
Definition st3_ttsgn (st : init_state3) : arr Z := snd (fst (fst (fst (fst st)))).
Definition st3_vzero (st : init_state3) : T := snd (fst (fst (fst st))).
Definition init3d (grad : bool) : init_state3 := (tt0_3d, ttsgn0_3d grad, vzero3, NZ, NX, NY).

(* one pass of the sweeping loop, on the state (tt, ttsgn) *)
Definition pass3d (grad : bool) (st : arr T * arr Z) : arr T * arr Z :=
  sweep3d (fst st) (snd st) slow dz dx dy NZ NX NY grad.

(* characterisation of fteik3d used by everything below *)
Lemma fteik3d_outside nsweep grad :
  inside3d = false -> fteik3d slow dz dx dy zsrc xsrc ysrc nsweep grad = Raise ValueError.
Proof. intros Hin. cbv beta delta [fteik3d]. repeat let_intro. apply if_negb_false; [exact Hin | reflexivity]. Qed.

Lemma fteik3d_inside nsweep grad :
  inside3d = true ->
  res_is (fst (Nat.iter (Z.to_nat nsweep) (pass3d grad) (tt0_3d, ttsgn0_3d grad))) vzero3
         (fteik3d slow dz dx dy zsrc xsrc ysrc nsweep grad).
Proof.
  intros Hin. cbv beta delta [fteik3d]. repeat let_intro. apply res_is_if; [exact Hin|]. repeat let_intro.
  split; [|reflexivity].
  lazymatch goal with |- ?x = _ => subst x end.
  lazymatch goal with |- fst ?x = _ => subst x end.
  f_equal. rewrite (for_range_iter (pass3d grad)) by (intros ? ?; symmetry; apply surjective_pairing).
  apply (f_equal (Nat.iter _ _)). apply f_equal2; [reflexivity|].
  lazymatch goal with |- ?x = _ => subst x end.
  lazymatch goal with |- snd ?x = _ => subst x end. unfold ttsgn0_3d. destruct grad; reflexivity.
Qed.

Lemma fteik3d_char nsweep grad :
  exists G, fteik3d slow dz dx dy zsrc xsrc ysrc nsweep grad =
    if inside3d then Ok (fst (Nat.iter (Z.to_nat nsweep) (pass3d grad) (tt0_3d, ttsgn0_3d grad)), G, vzero3)
    else Raise ValueError.
Proof.
  destruct inside3d eqn:Hin.
  - apply res_is_ex, fteik3d_inside, Hin.
  - exists (full [] (nofZ 0)). apply fteik3d_outside, Hin.
Qed.

(* ---------- 1 ---------- *)
Theorem fteik3d_raises_iff nsweep grad :
  (inside3d = false -> fteik3d slow dz dx dy zsrc xsrc ysrc nsweep grad = Raise ValueError) /\
  (inside3d = true -> exists r, fteik3d slow dz dx dy zsrc xsrc ysrc nsweep grad = Ok r).
Proof.
  destruct (fteik3d_char nsweep grad) as [G E]. rewrite E. split; intros ->; [reflexivity|]. eexists; reflexivity.
Qed.

(* ---------- 2 ---------- *)
Theorem fteik3d_nsweep_iter nsweep grad :
  inside3d = true ->
  exists G, fteik3d slow dz dx dy zsrc xsrc ysrc nsweep grad =
    Ok (fst (Nat.iter (Z.to_nat nsweep) (pass3d grad) (st3_tt (init3d grad), st3_ttsgn (init3d grad))),
        G, st3_vzero (init3d grad)).
Proof. intros Hin. destruct (fteik3d_char nsweep grad) as [G E]. exists G. rewrite E, Hin. reflexivity. Qed.

(* the traveltime component of a pass is a function of the traveltime component *)
Definition ptt3 (grad : bool) (t : arr T) : arr T := fst (pass3d grad (t, full [] 0)).
Lemma pass3d_fst grad s : fst (pass3d grad s) = ptt3 grad (fst s).
Proof. unfold ptt3, pass3d. cbn [fst snd]. apply sweep3d_tt_indep. Qed.
Lemma fteik3d_ok_inv nsweep grad tt G v :
  fteik3d slow dz dx dy zsrc xsrc ysrc nsweep grad = Ok (tt, G, v) ->
  inside3d = true /\ tt = Nat.iter (Z.to_nat nsweep) (ptt3 grad) tt0_3d /\ v = vzero3.
Proof.
  destruct (fteik3d_char nsweep grad) as [G' E]. rewrite E. destruct inside3d; [|discriminate].
  intros E'. injection E' as <- _ <-. rewrite (iter_fst _ _ (pass3d_fst grad)). auto.
Qed.

(* ---------- 5 ---------- *)
Theorem fteik3d_fixed_stays grad n m ttn Gn vn ttn' Gn' vn' ttm Gm vm :
  0 <= n <= m ->
  fteik3d slow dz dx dy zsrc xsrc ysrc n grad = Ok (ttn, Gn, vn) ->
  fteik3d slow dz dx dy zsrc xsrc ysrc (n + 1) grad = Ok (ttn', Gn', vn') ->
  ttn' = ttn ->
  fteik3d slow dz dx dy zsrc xsrc ysrc m grad = Ok (ttm, Gm, vm) ->
  ttm = ttn.
Proof.
  intros Hnm En En' Eq Em.
  apply fteik3d_ok_inv in En as (_ & -> & _). apply fteik3d_ok_inv in En' as (_ & -> & _).
  apply fteik3d_ok_inv in Em as (_ & -> & _).
  replace (Z.to_nat (n + 1)) with (S (Z.to_nat n)) in Eq by lia.
  apply (iter_fixed_stays _ _ _ Eq). lia.
Qed.

(* ---------- 3 ---------- *)
(* tt0_3d is the first component of init3d grad *)
Theorem fteik3d_init_okT :
  0 <= dim slow 0 -> 0 <= dim slow 1 -> 0 <= dim slow 2 -> okT NZ NX NY tt0_3d.
Proof.
  intros Hz Hx Hy. unfold tt0_3d, corner3. cbv zeta. repeat apply okT_set.
  split; [|reflexivity]. apply wf_full. repeat constructor; lia.
Qed.
Lemma init3d_tt grad : st3_tt (init3d grad) = tt0_3d.
Proof. reflexivity. Qed.

(* degenerate model (a negative extent): the sweeps do nothing *)
Lemma ptt3_small grad t : dim slow 0 < 0 \/ dim slow 1 < 0 \/ dim slow 2 < 0 -> ptt3 grad t = t.
Proof. intros Hs. unfold ptt3, pass3d. cbn [fst snd]. apply sweep3d_small. lia. Qed.

(* ---------- 6 ---------- *)
Lemma ptt3_indep t : ptt3 true t = ptt3 false t.
Proof. unfold ptt3, pass3d. apply sweep3d_tt_indep. Qed.

Theorem fteik3d_tt_indep_of_grad nsweep :
  match fteik3d slow dz dx dy zsrc xsrc ysrc nsweep true, fteik3d slow dz dx dy zsrc xsrc ysrc nsweep false with
  | Ok (t1, _, v1), Ok (t2, _, v2) => t1 = t2 /\ v1 = v2
  | Raise e1, Raise e2 => e1 = e2
  | _, _ => False
  end.
Proof.
  destruct (fteik3d_char nsweep true) as [G1 E1]. destruct (fteik3d_char nsweep false) as [G2 E2].
  rewrite E1, E2. destruct inside3d; [|reflexivity]. split; [|reflexivity].
  rewrite !(iter_fst _ _ (pass3d_fst _)). cbn [fst]. apply iter_ext, ptt3_indep.
Qed.

(* ---------- 4 ---------- *)
Section Laws.
Context `{!NumLaws T}.

Lemma ptt3_lowers grad t : okT NZ NX NY t -> okT NZ NX NY (ptt3 grad t) /\ leT NZ NX NY (ptt3 grad t) t.
Proof. intros Hok. unfold ptt3, pass3d. cbn [fst snd]. apply sweep3d_lowers. exact Hok. Qed.

Lemma iter_ptt3_okT grad t k : okT NZ NX NY t -> okT NZ NX NY (Nat.iter k (ptt3 grad) t).
Proof. intros Hok. induction k as [|k IH]; [exact Hok|]. rewrite iter_S. apply ptt3_lowers, IH. Qed.

Lemma iter_ptt3_mono grad t a b : okT NZ NX NY t -> (a <= b)%nat ->
  leT NZ NX NY (Nat.iter b (ptt3 grad) t) (Nat.iter a (ptt3 grad) t).
Proof.
  intros Hok Hab. induction Hab as [|b Hab IH].
  - apply leT_refl, iter_ptt3_okT, Hok.
  - rewrite iter_S. eapply leT_trans; [|exact IH]. apply ptt3_lowers, iter_ptt3_okT, Hok.
Qed.

(* all n <= m (item 4 is m = n + 1); no condition on the sign of n: a non-positive nsweep means no sweep *)
Theorem fteik3d_monotone_in_nsweep_le grad n m ttn Gn vn ttm Gm vm :
  0 <= dim slow 0 -> 0 <= dim slow 1 -> 0 <= dim slow 2 -> n <= m ->
  fteik3d slow dz dx dy zsrc xsrc ysrc n grad = Ok (ttn, Gn, vn) ->
  fteik3d slow dz dx dy zsrc xsrc ysrc m grad = Ok (ttm, Gm, vm) ->
  okT NZ NX NY ttn /\ okT NZ NX NY ttm /\ leT NZ NX NY ttm ttn.
Proof.
  intros Hz Hx Hy Hnm En Em.
  apply fteik3d_ok_inv in En as (_ & -> & _). apply fteik3d_ok_inv in Em as (_ & -> & _).
  pose proof (fteik3d_init_okT Hz Hx Hy) as H0.
  split; [apply iter_ptt3_okT, H0|]. split; [apply iter_ptt3_okT, H0|].
  apply iter_ptt3_mono; [exact H0 | lia].
Qed.

Theorem fteik3d_monotone_in_nsweep grad n ttn Gn vn ttm Gm vm :
  0 <= dim slow 0 -> 0 <= dim slow 1 -> 0 <= dim slow 2 ->
  fteik3d slow dz dx dy zsrc xsrc ysrc n grad = Ok (ttn, Gn, vn) ->
  fteik3d slow dz dx dy zsrc xsrc ysrc (n + 1) grad = Ok (ttm, Gm, vm) ->
  okT NZ NX NY ttn /\ okT NZ NX NY ttm /\ leT NZ NX NY ttm ttn.
Proof. intros Hz Hx Hy. apply fteik3d_monotone_in_nsweep_le; auto. lia. Qed.
End Laws.

End Solve.

(* ------------------------------------------------------------------------------------------ *)
(* 7. convergence for binary64                                                                  *)
(* ------------------------------------------------------------------------------------------ *)
Section F3d.
Notation float := PrimFloat.float.
Notation los := (@le_or_same float NumF).

(* 3D grids: pointwise order on indices = pointwise order on the data lists *)
Lemma leT3_Forall2 nz nx ny (a b : arr float) :
  0 < nx -> 0 < ny -> okT nz nx ny a -> okT nz nx ny b -> leT nz nx ny a b -> Forall2 los (dat a) (dat b).
Proof.
  intros Hnx Hny [[La Fa] Sa] [[Lb _] Sb] Hle.
  rewrite Sa in La, Fa. rewrite Sb in Lb. unfold prodZ in La, Lb. cbn [fold_right] in La, Lb.
  assert (Hnz : 0 <= nz) by (inversion Fa; assumption).
  apply (Forall2_nth_intro _ (nofZ 0)); [congruence|]. intros n Hn.
  assert (Hn' : 0 <= Z.of_nat n < (nz * nx) * ny) by nia.
  destruct (decomp2 (Z.of_nat n) (nz * nx) ny Hn' Hny) as (Hm & Hr & En).
  destruct (decomp2 (Z.of_nat n / ny) nz nx Hm Hnx) as (Hp & Hq & Em).
  specialize (Hle _ _ _ Hp Hq Hr). unfold get in Hle. rewrite Sa, Sb in Hle. unfold flat in Hle. cbn [flat_aux] in Hle.
  replace (((0 * nz + Z.of_nat n / ny / nx) * nx + Z.of_nat n / ny mod nx) * ny + Z.of_nat n mod ny)
    with (Z.of_nat n) in Hle by lia.
  rewrite Nat2Z.id in Hle. exact Hle.
Qed.

Variables (slow : arr float) (dz dx dy zsrc xsrc ysrc : float).
Notation NZ := (dim slow 0 + 1).
Notation NX := (dim slow 1 + 1).
Notation NY := (dim slow 2 + 1).

(* the traveltime grid after k sweeps *)
Definition grid3d (grad : bool) (k : nat) : arr float :=
  fst (Nat.iter k (pass3d slow dz dx dy grad) (tt0_3d slow dz dx dy zsrc xsrc ysrc, ttsgn0_3d slow grad)).

Theorem fteik3d_converges grad : exists K, forall k, (K <= k)%nat -> grid3d grad k = grid3d grad K.
Proof.
  unfold grid3d.
  destruct (Z_lt_ge_dec (dim slow 0) 0) as [Hz|Hz]; [|destruct (Z_lt_ge_dec (dim slow 1) 0) as [Hx|Hx];
    [|destruct (Z_lt_ge_dec (dim slow 2) 0) as [Hy|Hy]]].
  1,2,3: exists O; intros k _; rewrite !(iter_fst _ _ (pass3d_fst slow dz dx dy grad)); cbn [fst];
       induction k as [|k IH]; [reflexivity | rewrite iter_S, IH; apply ptt3_small; lia].
  destruct (lowering_iter_converges (ptt3 slow dz dx dy grad) (okT NZ NX NY))
    with (t0 := tt0_3d slow dz dx dy zsrc xsrc ysrc) as [K HK].
  - intros a Ha. destruct (ptt3_lowers slow dz dx dy grad a Ha) as [Ho Hl].
    split; [exact Ho|]. split; [destruct Ho as [_ ->], Ha as [_ ->]; reflexivity|].
    apply (leT3_Forall2 NZ NX NY); auto; lia.
  - apply fteik3d_init_okT; lia.
  - exists K. intros k Hk. rewrite !(iter_fst _ _ (pass3d_fst slow dz dx dy grad)). cbn [fst]. apply HK, Hk.
Qed.

(* the same, on the results of fteik3d: from some sweep count on, the returned grid no longer changes *)
Corollary fteik3d_converges_results grad :
  exists K, forall n m ttn Gn vn ttm Gm vm, K <= n <= m ->
    fteik3d slow dz dx dy zsrc xsrc ysrc n grad = Ok (ttn, Gn, vn) ->
    fteik3d slow dz dx dy zsrc xsrc ysrc m grad = Ok (ttm, Gm, vm) -> ttm = ttn.
Proof.
  destruct (fteik3d_converges grad) as [K HK]. exists (Z.of_nat K). intros n m ttn Gn vn ttm Gm vm Hnm En Em.
  apply fteik3d_ok_inv in En as (_ & -> & _). apply fteik3d_ok_inv in Em as (_ & -> & _).
  pose proof (HK (Z.to_nat m) ltac:(lia)) as Hm. pose proof (HK (Z.to_nat n) ltac:(lia)) as Hn.
  unfold grid3d in Hm, Hn. rewrite !(iter_fst _ _ (pass3d_fst slow dz dx dy grad)) in Hm, Hn.
  cbn [fst] in Hm, Hn. congruence.
Qed.
End F3d.

Print Assumptions fteik3d_raises_iff.
Print Assumptions fteik3d_nsweep_iter.
Print Assumptions fteik3d_init_okT.
Print Assumptions fteik3d_monotone_in_nsweep.
Print Assumptions fteik3d_monotone_in_nsweep_le.
Print Assumptions fteik3d_fixed_stays.
Print Assumptions fteik3d_tt_indep_of_grad.
Print Assumptions fteik3d_converges.
Print Assumptions fteik3d_converges_results.
