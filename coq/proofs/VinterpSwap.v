(* The traveltime (apparent-velocity) interpolators _vinterp2d / _vinterp3d do not privilege an axis:
   relabelling the axes (axis arrays, query and source coordinates, and the node values permuted
   accordingly) does not change the result.  Exact real arithmetic (T := R), axes ascending with >= 2
   nodes, EVERY query and source: outside the hull, source cell, zero corner time, the far
   face / edge / corner branches (3 in 2-D, 7 in 3-D) and the generic branch are all covered, because
   the statements are about the kernels themselves (gen/Vinterp2d.v, gen/Vinterp3d.v), not about one branch.

   Built on the branch-by-branch characterisations vinterp2d_char (VinterpR.v) / vinterp3d_char
   (Vinterp3R.v).  No asymmetry between the axes was found in the per-branch corner bookkeeping. *)
From Coq Require Import ZArith List Bool Reals Lra Lia Psatz Field Btauto.
From FT.lib Require Import Num Arr NumArr ArrLemmas.
From FT.gen Require Import Common Vinterp2d Vinterp3d.
From FT.proofs Require Import SSR InterpR Interp3R VinterpR Vinterp3R.
Import ListNotations.
Open Scope R_scope.

(* ================================================================== *)
(* 0. vocabulary                                                        *)
(* ================================================================== *)
(* the hull test of one axis, as the boolean the kernels compute *)
Local Notation inhull a q :=
  (nleb (get (nofZ 0) a [0%Z]) q && nleb q (get (nofZ 0) a [Z.sub (dim a 0%nat) 1])) (only parsing).

Lemma inhull_R (a : arr R) n q : axis a n -> inhull a q = true ->
  get 0 a [0%Z] <= q <= get 0 a [(n - 1)%Z].
Proof.
  intros A E. apply andb_prop in E as [E0 E1]. rewrite (axis_dim _ _ A) in E1.
  apply Rleb_true in E0, E1. split; assumption.
Qed.

(* the distances do not privilege a coordinate *)
Lemma dist2d_swap (a b c d : R) : dist2d a b c d = dist2d b a d c.
Proof. rewrite !dist2d_R. f_equal. ring. Qed.
Lemma dist3d_swap_xy (a b c d e f : R) : dist3d a b c d e f = dist3d b a c e d f.
Proof. rewrite !dist3d_R. f_equal. ring. Qed.
Lemma dist3d_swap_yz (a b c d e f : R) : dist3d a b c d e f = dist3d a c b d f e.
Proof. rewrite !dist3d_R. f_equal. ring. Qed.

(* two boolean tests built from the same atoms: name every `Reqb t 0` and every `far`, then decide *)
Ltac bool_atoms :=
  repeat match goal with
  | |- context [Reqb ?t 0] => let b := fresh "b" in generalize (Reqb t 0); intros b
  end;
  repeat match goal with
  | |- context [far ?a ?n ?q] => let f := fresh "f" in generalize (far a n q); intros f
  end.

(* ================================================================== *)
(* 1. 2-D                                                               *)
(* ================================================================== *)
Section Swap2.
Variables (x y v vt : arr R) (nx ny : Z).
Hypothesis Ax : axis x nx.
Hypothesis Ay : axis y ny.
Hypothesis Sv : shape v = [nx; ny].
Hypothesis Svt : shape vt = [ny; nx].
Hypothesis Ht : forall i j, (0 <= i < nx)%Z -> (0 <= j < ny)%Z -> get 0 vt [j; i] = get 0 v [i; j].

Section InHull.
Variables (xq yq xsrc ysrc : R).
Hypothesis Hx : get 0 x [0%Z] <= xq <= get 0 x [(nx - 1)%Z].
Hypothesis Hy : get 0 y [0%Z] <= yq <= get 0 y [(ny - 1)%Z].

(* the zero-time test reads the same corners *)
Lemma times_ok2_swap : times_ok2 y x vt ny nx yq xq = times_ok2 x y v nx ny xq yq.
Proof.
  destruct (cell_facts x nx xq Ax (proj1 Hx) (proj2 Hx)) as (Ix & _).
  destruct (cell_facts y ny yq Ay (proj1 Hy) (proj2 Hy)) as (Iy & _).
  unfold times_ok2. cbv zeta. rewrite !Ht by lia. unfold nzm. bool_atoms. btauto.
Qed.

(* the apparent velocities are interpolated with the same weights *)
Lemma vbilin_swap :
  vbilin y x vt ysrc xsrc (cell y ny yq) (cell x nx xq) yq xq =
  vbilin x y v xsrc ysrc (cell x nx xq) (cell y ny yq) xq yq.
Proof.
  destruct (cell_facts x nx xq Ax (proj1 Hx) (proj2 Hx)) as (Ix & _).
  destruct (cell_facts y ny yq Ay (proj1 Hy) (proj2 Hy)) as (Iy & _).
  unfold vbilin, appvel2. rewrite !Ht by lia. rewrite !(dist2d_swap ysrc xsrc).
  f_equal. unfold bilin_core. cbv zeta. ring.
Qed.
End InHull.

(* (W1) swapping the two axes and transposing the times does not change the result;
   every query (inside or outside the hull), every source, every branch *)
Theorem vinterp2d_axis_swap (xq yq xsrc ysrc vzero fval : R) :
  u_vinterp2d_v x y v xq yq xsrc ysrc vzero fval = u_vinterp2d_v y x vt yq xq ysrc xsrc vzero fval.
Proof.
  destruct (inhull x xq) eqn:Ex; destruct (inhull y yq) eqn:Ey;
  try (rewrite (vinterp2d_outside x y v xq yq xsrc ysrc vzero fval) by (rewrite Ex, Ey; reflexivity);
       rewrite (vinterp2d_outside y x vt yq xq ysrc xsrc vzero fval) by (rewrite Ex, Ey; reflexivity);
       reflexivity).
  pose proof (inhull_R x nx xq Ax Ex) as Hx. pose proof (inhull_R y ny yq Ay Ey) as Hy.
  destruct (Z.eq_dec (searchsorted_right x xsrc) (searchsorted_right x xq)) as [Sx|Sx];
  [destruct (Z.eq_dec (searchsorted_right y ysrc) (searchsorted_right y yq)) as [Sy|Sy]|].
  - (* source cell *)
    rewrite (vinterp2d_source_cell x y v nx ny Ax Ay xq yq xsrc ysrc vzero fval Hx Hy (conj Sx Sy)).
    rewrite (vinterp2d_source_cell y x vt ny nx Ay Ax yq xq ysrc xsrc vzero fval Hy Hx (conj Sy Sx)).
    f_equal. f_equal. ring.
  - rewrite (vinterp2d_char x y v nx ny xq yq xsrc ysrc vzero fval Ax Ay Sv Hx Hy) by tauto.
    rewrite (vinterp2d_char y x vt ny nx yq xq ysrc xsrc vzero fval Ay Ax Svt Hy Hx) by tauto.
    rewrite (times_ok2_swap xq yq Hx Hy), (vbilin_swap xq yq xsrc ysrc Hx Hy), (dist2d_swap ysrc xsrc).
    reflexivity.
  - rewrite (vinterp2d_char x y v nx ny xq yq xsrc ysrc vzero fval Ax Ay Sv Hx Hy) by tauto.
    rewrite (vinterp2d_char y x vt ny nx yq xq ysrc xsrc vzero fval Ay Ax Svt Hy Hx) by tauto.
    rewrite (times_ok2_swap xq yq Hx Hy), (vbilin_swap xq yq xsrc ysrc Hx Hy), (dist2d_swap ysrc xsrc).
    reflexivity.
Qed.
End Swap2.

(* ... with the concrete transpose of InterpR.v *)
Corollary vinterp2d_axis_swap_transpose (x y v : arr R) (nx ny : Z) (xq yq xsrc ysrc vzero fval : R) :
  axis x nx -> axis y ny -> shape v = [nx; ny] ->
  u_vinterp2d_v x y v xq yq xsrc ysrc vzero fval =
  u_vinterp2d_v y x (transpose2 v) yq xq ysrc xsrc vzero fval.
Proof.
  intros Ax Ay Sv. pose proof (axis_n _ _ Ax). pose proof (axis_n _ _ Ay).
  destruct (transpose2_spec v nx ny ltac:(lia) ltac:(lia) Sv) as (_ & St & Gt).
  apply (vinterp2d_axis_swap x y v (transpose2 v) nx ny); assumption.
Qed.

(* ================================================================== *)
(* 2. 3-D                                                               *)
(* ================================================================== *)
(* decide "same searchsorted cell as the source" *)
Lemma same_cell3_dec (a b c a' b' c' : Z) : {a = a' /\ b = b' /\ c = c'} + {~ (a = a' /\ b = b' /\ c = c')}.
Proof.
  destruct (Z.eq_dec a a'); destruct (Z.eq_dec b b'); destruct (Z.eq_dec c c');
  first [left; tauto | right; tauto].
Qed.

Section Swap3.
Variables (x y z v : arr R) (nx ny nz : Z).
Hypothesis Ax : axis x nx.
Hypothesis Ay : axis y ny.
Hypothesis Az : axis z nz.
Hypothesis Sv : shape v = [nx; ny; nz].

(* ---------- first two axes ---------- *)
Section XY.
Variable vt : arr R.
Hypothesis Svt : shape vt = [ny; nx; nz].
Hypothesis Ht : forall i j k, (0 <= i < nx)%Z -> (0 <= j < ny)%Z -> (0 <= k < nz)%Z ->
  get 0 vt [j; i; k] = get 0 v [i; j; k].

Section InHull.
Variables (xq yq zq xsrc ysrc zsrc : R).
Hypothesis Hx : get 0 x [0%Z] <= xq <= get 0 x [(nx - 1)%Z].
Hypothesis Hy : get 0 y [0%Z] <= yq <= get 0 y [(ny - 1)%Z].
Hypothesis Hz : get 0 z [0%Z] <= zq <= get 0 z [(nz - 1)%Z].

Lemma times_ok3_swap_xy : times_ok3 y x z vt ny nx nz yq xq zq = times_ok3 x y z v nx ny nz xq yq zq.
Proof.
  destruct (cell_facts x nx xq Ax (proj1 Hx) (proj2 Hx)) as (Ix & _).
  destruct (cell_facts y ny yq Ay (proj1 Hy) (proj2 Hy)) as (Iy & _).
  destruct (cell_facts z nz zq Az (proj1 Hz) (proj2 Hz)) as (Iz & _).
  unfold times_ok3. cbv zeta. rewrite !Ht by lia. unfold nzm. bool_atoms. btauto.
Qed.

Lemma vtrilin_swap_xy :
  vtrilin y x z vt ysrc xsrc zsrc (cell y ny yq) (cell x nx xq) (cell z nz zq) yq xq zq =
  vtrilin x y z v xsrc ysrc zsrc (cell x nx xq) (cell y ny yq) (cell z nz zq) xq yq zq.
Proof.
  destruct (cell_facts x nx xq Ax (proj1 Hx) (proj2 Hx)) as (Ix & _).
  destruct (cell_facts y ny yq Ay (proj1 Hy) (proj2 Hy)) as (Iy & _).
  destruct (cell_facts z nz zq Az (proj1 Hz) (proj2 Hz)) as (Iz & _).
  unfold vtrilin, appvel3. cbv zeta. rewrite !Ht by lia. rewrite !(dist3d_swap_xy ysrc xsrc zsrc).
  f_equal. unfold trilin_core. cbv zeta. ring.
Qed.
End InHull.

(* (W2a) swapping the first two axes *)
Theorem vinterp3d_axis_swap_xy (xq yq zq xsrc ysrc zsrc vzero fval : R) :
  u_vinterp3d_v x y z v xq yq zq xsrc ysrc zsrc vzero fval =
  u_vinterp3d_v y x z vt yq xq zq ysrc xsrc zsrc vzero fval.
Proof.
  destruct (inhull x xq) eqn:Ex; destruct (inhull y yq) eqn:Ey; destruct (inhull z zq) eqn:Ez;
  try (rewrite (vinterp3d_outside x y z v xq yq zq xsrc ysrc zsrc vzero fval) by (rewrite Ex, Ey, Ez; reflexivity);
       rewrite (vinterp3d_outside y x z vt yq xq zq ysrc xsrc zsrc vzero fval) by (rewrite Ex, Ey, Ez; reflexivity);
       reflexivity).
  pose proof (inhull_R x nx xq Ax Ex) as Hx. pose proof (inhull_R y ny yq Ay Ey) as Hy.
  pose proof (inhull_R z nz zq Az Ez) as Hz.
  destruct (same_cell3_dec (searchsorted_right x xsrc) (searchsorted_right y ysrc) (searchsorted_right z zsrc)
              (searchsorted_right x xq) (searchsorted_right y yq) (searchsorted_right z zq)) as [(Sx & Sy & Sz)|NS].
  - rewrite (vinterp3d_source_cell x y z v nx ny nz Ax Ay Az xq yq zq xsrc ysrc zsrc vzero fval Hx Hy Hz
               (conj Sx (conj Sy Sz))).
    rewrite (vinterp3d_source_cell y x z vt ny nx nz Ay Ax Az yq xq zq ysrc xsrc zsrc vzero fval Hy Hx Hz
               (conj Sy (conj Sx Sz))).
    f_equal. f_equal. ring.
  - rewrite (vinterp3d_char x y z v nx ny nz xq yq zq xsrc ysrc zsrc vzero fval Ax Ay Az Sv Hx Hy Hz NS).
    rewrite (vinterp3d_char y x z vt ny nx nz yq xq zq ysrc xsrc zsrc vzero fval Ay Ax Az Svt Hy Hx Hz)
      by tauto.
    rewrite (times_ok3_swap_xy xq yq zq Hx Hy Hz), (vtrilin_swap_xy xq yq zq xsrc ysrc zsrc Hx Hy Hz),
            (dist3d_swap_xy ysrc xsrc zsrc).
    reflexivity.
Qed.
End XY.

(* ---------- last two axes ---------- *)
Section YZ.
Variable vt : arr R.
Hypothesis Svt : shape vt = [nx; nz; ny].
Hypothesis Ht : forall i j k, (0 <= i < nx)%Z -> (0 <= j < ny)%Z -> (0 <= k < nz)%Z ->
  get 0 vt [i; k; j] = get 0 v [i; j; k].

Section InHull.
Variables (xq yq zq xsrc ysrc zsrc : R).
Hypothesis Hx : get 0 x [0%Z] <= xq <= get 0 x [(nx - 1)%Z].
Hypothesis Hy : get 0 y [0%Z] <= yq <= get 0 y [(ny - 1)%Z].
Hypothesis Hz : get 0 z [0%Z] <= zq <= get 0 z [(nz - 1)%Z].

Lemma times_ok3_swap_yz : times_ok3 x z y vt nx nz ny xq zq yq = times_ok3 x y z v nx ny nz xq yq zq.
Proof.
  destruct (cell_facts x nx xq Ax (proj1 Hx) (proj2 Hx)) as (Ix & _).
  destruct (cell_facts y ny yq Ay (proj1 Hy) (proj2 Hy)) as (Iy & _).
  destruct (cell_facts z nz zq Az (proj1 Hz) (proj2 Hz)) as (Iz & _).
  unfold times_ok3. cbv zeta. rewrite !Ht by lia. unfold nzm. bool_atoms. btauto.
Qed.

Lemma vtrilin_swap_yz :
  vtrilin x z y vt xsrc zsrc ysrc (cell x nx xq) (cell z nz zq) (cell y ny yq) xq zq yq =
  vtrilin x y z v xsrc ysrc zsrc (cell x nx xq) (cell y ny yq) (cell z nz zq) xq yq zq.
Proof.
  destruct (cell_facts x nx xq Ax (proj1 Hx) (proj2 Hx)) as (Ix & _).
  destruct (cell_facts y ny yq Ay (proj1 Hy) (proj2 Hy)) as (Iy & _).
  destruct (cell_facts z nz zq Az (proj1 Hz) (proj2 Hz)) as (Iz & _).
  unfold vtrilin, appvel3. cbv zeta. rewrite !Ht by lia. rewrite !(dist3d_swap_yz xsrc zsrc ysrc).
  f_equal. unfold trilin_core. cbv zeta. ring.
Qed.
End InHull.

(* (W2b) swapping the last two axes *)
Theorem vinterp3d_axis_swap_yz (xq yq zq xsrc ysrc zsrc vzero fval : R) :
  u_vinterp3d_v x y z v xq yq zq xsrc ysrc zsrc vzero fval =
  u_vinterp3d_v x z y vt xq zq yq xsrc zsrc ysrc vzero fval.
Proof.
  destruct (inhull x xq) eqn:Ex; destruct (inhull y yq) eqn:Ey; destruct (inhull z zq) eqn:Ez;
  try (rewrite (vinterp3d_outside x y z v xq yq zq xsrc ysrc zsrc vzero fval) by (rewrite Ex, Ey, Ez; reflexivity);
       rewrite (vinterp3d_outside x z y vt xq zq yq xsrc zsrc ysrc vzero fval) by (rewrite Ex, Ey, Ez; reflexivity);
       reflexivity).
  pose proof (inhull_R x nx xq Ax Ex) as Hx. pose proof (inhull_R y ny yq Ay Ey) as Hy.
  pose proof (inhull_R z nz zq Az Ez) as Hz.
  destruct (same_cell3_dec (searchsorted_right x xsrc) (searchsorted_right y ysrc) (searchsorted_right z zsrc)
              (searchsorted_right x xq) (searchsorted_right y yq) (searchsorted_right z zq)) as [(Sx & Sy & Sz)|NS].
  - rewrite (vinterp3d_source_cell x y z v nx ny nz Ax Ay Az xq yq zq xsrc ysrc zsrc vzero fval Hx Hy Hz
               (conj Sx (conj Sy Sz))).
    rewrite (vinterp3d_source_cell x z y vt nx nz ny Ax Az Ay xq zq yq xsrc zsrc ysrc vzero fval Hx Hz Hy
               (conj Sx (conj Sz Sy))).
    f_equal. f_equal. ring.
  - rewrite (vinterp3d_char x y z v nx ny nz xq yq zq xsrc ysrc zsrc vzero fval Ax Ay Az Sv Hx Hy Hz NS).
    rewrite (vinterp3d_char x z y vt nx nz ny xq zq yq xsrc zsrc ysrc vzero fval Ax Az Ay Svt Hx Hz Hy)
      by tauto.
    rewrite (times_ok3_swap_yz xq yq zq Hx Hy Hz), (vtrilin_swap_yz xq yq zq xsrc ysrc zsrc Hx Hy Hz),
            (dist3d_swap_yz xsrc zsrc ysrc).
    reflexivity.
Qed.
End YZ.

(* ---------- with the concrete transposes of Interp3R.v ---------- *)
Corollary vinterp3d_axis_swap_xy_transpose (xq yq zq xsrc ysrc zsrc vzero fval : R) :
  u_vinterp3d_v x y z v xq yq zq xsrc ysrc zsrc vzero fval =
  u_vinterp3d_v y x z (transpose3_xy v) yq xq zq ysrc xsrc zsrc vzero fval.
Proof.
  pose proof (axis_n _ _ Ax). pose proof (axis_n _ _ Ay). pose proof (axis_n _ _ Az).
  destruct (transpose3_xy_spec v nx ny nz ltac:(lia) ltac:(lia) ltac:(lia) Sv) as (_ & St & Gt).
  apply (vinterp3d_axis_swap_xy (transpose3_xy v)); assumption.
Qed.

Corollary vinterp3d_axis_swap_yz_transpose (xq yq zq xsrc ysrc zsrc vzero fval : R) :
  u_vinterp3d_v x y z v xq yq zq xsrc ysrc zsrc vzero fval =
  u_vinterp3d_v x z y (transpose3_yz v) xq zq yq xsrc zsrc ysrc vzero fval.
Proof.
  pose proof (axis_n _ _ Ax). pose proof (axis_n _ _ Ay). pose proof (axis_n _ _ Az).
  destruct (transpose3_yz_spec v nx ny nz ltac:(lia) ltac:(lia) ltac:(lia) Sv) as (_ & St & Gt).
  apply (vinterp3d_axis_swap_yz (transpose3_yz v)); assumption.
Qed.
End Swap3.

(* the two transpositions generate all six relabellings; the remaining three, spelled out:
   (x y z) -> (y z x), (z x y), (z y x) *)
Section Permutations.
Variables (x y z v : arr R) (nx ny nz : Z) (xq yq zq xsrc ysrc zsrc vzero fval : R).
Hypothesis Ax : axis x nx.
Hypothesis Ay : axis y ny.
Hypothesis Az : axis z nz.
Hypothesis Sv : shape v = [nx; ny; nz].

Let Nx := axis_n _ _ Ax.
Let Ny := axis_n _ _ Ay.
Let Nz := axis_n _ _ Az.

Corollary vinterp3d_axis_cycle_yzx :
  u_vinterp3d_v x y z v xq yq zq xsrc ysrc zsrc vzero fval =
  u_vinterp3d_v y z x (transpose3_yz (transpose3_xy v)) yq zq xq ysrc zsrc xsrc vzero fval.
Proof.
  destruct (transpose3_xy_spec v nx ny nz ltac:(lia) ltac:(lia) ltac:(lia) Sv) as (_ & St & _).
  rewrite (vinterp3d_axis_swap_xy_transpose x y z v nx ny nz Ax Ay Az Sv).
  apply (vinterp3d_axis_swap_yz_transpose y x z (transpose3_xy v) ny nx nz); assumption.
Qed.

Corollary vinterp3d_axis_cycle_zxy :
  u_vinterp3d_v x y z v xq yq zq xsrc ysrc zsrc vzero fval =
  u_vinterp3d_v z x y (transpose3_xy (transpose3_yz v)) zq xq yq zsrc xsrc ysrc vzero fval.
Proof.
  destruct (transpose3_yz_spec v nx ny nz ltac:(lia) ltac:(lia) ltac:(lia) Sv) as (_ & St & _).
  rewrite (vinterp3d_axis_swap_yz_transpose x y z v nx ny nz Ax Ay Az Sv).
  apply (vinterp3d_axis_swap_xy_transpose x z y (transpose3_yz v) nx nz ny); assumption.
Qed.

Corollary vinterp3d_axis_swap_xz :
  u_vinterp3d_v x y z v xq yq zq xsrc ysrc zsrc vzero fval =
  u_vinterp3d_v z y x (transpose3_xy (transpose3_yz (transpose3_xy v))) zq yq xq zsrc ysrc xsrc vzero fval.
Proof.
  destruct (transpose3_xy_spec v nx ny nz ltac:(lia) ltac:(lia) ltac:(lia) Sv) as (_ & St & _).
  destruct (transpose3_yz_spec (transpose3_xy v) ny nx nz ltac:(lia) ltac:(lia) ltac:(lia) St) as (_ & St' & _).
  rewrite vinterp3d_axis_cycle_yzx.
  apply (vinterp3d_axis_swap_xy_transpose y z x (transpose3_yz (transpose3_xy v)) ny nz nx); assumption.
Qed.
End Permutations.

(* ================================================================== *)
(* 3. the hypotheses are satisfiable                                    *)
(* ================================================================== *)
(* the 2 x 2 grid of VinterpR.v (x = 0, 12; y = 5, 9; times 5, 9, 26, 30) *)
Example vinterp2d_axis_swap_example (xq yq xsrc ysrc vzero fval : R) :
  u_vinterp2d_v xe ye ve xq yq xsrc ysrc vzero fval =
  u_vinterp2d_v ye xe (transpose2 ve) yq xq ysrc xsrc vzero fval.
Proof.
  apply (vinterp2d_axis_swap_transpose xe ye ve 2 2); [apply axis2; lra | apply axis2; lra | reflexivity].
Qed.

(* a 2 x 2 x 2 grid *)
Definition ze3 : arr R := mkarr [2%Z] [1; 4].
Definition ve3 : arr R := mkarr [2%Z; 2%Z; 2%Z] [5; 9; 26; 30; 6; 10; 27; 31].

Example vinterp3d_axis_swap_example (xq yq zq xsrc ysrc zsrc vzero fval : R) :
  u_vinterp3d_v xe ye ze3 ve3 xq yq zq xsrc ysrc zsrc vzero fval =
  u_vinterp3d_v ye xe ze3 (transpose3_xy ve3) yq xq zq ysrc xsrc zsrc vzero fval /\
  u_vinterp3d_v xe ye ze3 ve3 xq yq zq xsrc ysrc zsrc vzero fval =
  u_vinterp3d_v xe ze3 ye (transpose3_yz ve3) xq zq yq xsrc zsrc ysrc vzero fval.
Proof.
  assert (Ax : axis xe 2) by (apply axis2; lra). assert (Ay : axis ye 2) by (apply axis2; lra).
  assert (Az : axis ze3 2) by (apply axis2; lra).
  split.
  - apply (vinterp3d_axis_swap_xy_transpose xe ye ze3 ve3 2 2 2); auto.
  - apply (vinterp3d_axis_swap_yz_transpose xe ye ze3 ve3 2 2 2); auto.
Qed.

Print Assumptions vinterp2d_axis_swap.
Print Assumptions vinterp2d_axis_swap_transpose.
Print Assumptions vinterp3d_axis_swap_xy.
Print Assumptions vinterp3d_axis_swap_yz.
Print Assumptions vinterp3d_axis_swap_xy_transpose.
Print Assumptions vinterp3d_axis_swap_yz_transpose.
Print Assumptions vinterp3d_axis_cycle_yzx.
Print Assumptions vinterp3d_axis_cycle_zxy.
Print Assumptions vinterp3d_axis_swap_xz.
Print Assumptions vinterp2d_axis_swap_example.
Print Assumptions vinterp3d_axis_swap_example.
