(* Mirror invariance of the interpolation kernels (exact real arithmetic, T := R).
   `mirror_axis x` is the axis whose k-th node is -(x[n-1-k]) (still ascending); the node values are
   reversed along that axis.  Then
       _interp2d / _interp3d  return the same value at the mirrored query, for EVERY query
       (inside or outside the hull, on node lines, on the near / far faces).
   The kernels locate the cell with searchsorted(side="right") and treat the far face by a special
   branch, so a query ON an interior node line is evaluated in different cells in the two frames, and
   a query on the near face becomes a query on the far face: equality then comes from the continuity
   of the multilinear interpolant across faces (interp2d_spec_any_cell / interp3d_spec_any_cell).

   For the apparent-velocity kernels _vinterp2d / _vinterp3d (source mirrored too) the unrestricted
   statement is FALSE (sections 5-7): the source-cell test compares searchsorted(side="right") indices,
   and the zero-time test reads only the face nodes on a far face.  Proved instead:
     * vinterp{2d,3d}_mirror_*_gen / *_off_nodes: equality for every input such that the query's
       coordinate on the mirrored axis is not a node and the source-cell test on that axis agrees in
       the two frames (in particular: source coordinate not a node either; or source on a node and
       the query in neither adjacent cell).  Nothing is assumed about the other axes, the hull,
       the times (zeros allowed), vzero, fval.
     * *_refuted_*: concrete witnesses for the rest - query on an interior node line (7a, 7d),
       source on a node line (7b), query on the far face next to a zero time (7c).  The three 2-D
       witnesses were replayed on the Python implementation: same pairs of values. *)
From Coq Require Import ZArith List Bool Reals Lra Lia Psatz Field.
From FT.lib Require Import Num Arr NumArr ArrLemmas.
From FT.gen Require Import Common Interp2d Interp3d Vinterp2d Vinterp3d.
From FT.proofs Require Import SSR InterpR Interp3R VinterpR Vinterp3R TranslateR.
Import ListNotations.
Open Scope R_scope.

(* ================================================================== *)
(* 1. the mirrored axis                                                 *)
(* ================================================================== *)
Definition mirror_axis (x : arr R) : arr R := mkarr (shape x) (map Ropp (rev (dat x))).

Lemma mirror_shape x : shape (mirror_axis x) = shape x.
Proof. reflexivity. Qed.
Lemma mirror_dim x k : dim (mirror_axis x) k = dim x k.
Proof. reflexivity. Qed.
Lemma mirror_length x : length (dat (mirror_axis x)) = length (dat x).
Proof. unfold mirror_axis. cbn [dat]. rewrite map_length, rev_length. reflexivity. Qed.

(* node k of the mirrored axis is minus node m = n-1-k of the axis *)
Lemma mirror_get1 x n k m : axis1 x n -> (0 <= k < n)%Z -> (k + m = n - 1)%Z ->
  get 0 (mirror_axis x) [k] = - get 0 x [m].
Proof.
  intros [S L] Hk Hm. unfold get. rewrite mirror_shape, S. unfold mirror_axis, flat. cbn [dat flat_aux].
  rewrite (nth_indep _ 0 (- 0)) by (rewrite map_length, rev_length, L; lia).
  rewrite (map_nth Ropp). f_equal.
  rewrite rev_nth by (rewrite L; lia). f_equal. rewrite L. lia.
Qed.

Lemma mirror_get x n k m : axis x n -> (0 <= k < n)%Z -> (k + m = n - 1)%Z ->
  get 0 (mirror_axis x) [k] = - get 0 x [m].
Proof. intros A. apply mirror_get1. apply axis_axis1. exact A. Qed.

Lemma axis_mirror x n : axis x n -> axis (mirror_axis x) n.
Proof.
  intros A. pose proof A as (S & L & N & Asc). repeat split.
  - rewrite mirror_shape. exact S.
  - rewrite mirror_length. exact L.
  - exact N.
  - intros i j Hij.
    rewrite (mirror_get x n i (n - 1 - i) A), (mirror_get x n j (n - 1 - j) A) by lia.
    apply Ropp_lt_contravar. apply Asc. lia.
Qed.

(* mirroring twice gives the axis back *)
Lemma mirror_axis_invol x : mirror_axis (mirror_axis x) = x.
Proof.
  destruct x as [sh l]. unfold mirror_axis. cbn [shape dat]. f_equal.
  rewrite <- map_rev, rev_involutive, map_map. rewrite <- (map_id l) at 2.
  apply map_ext. intros a. apply Ropp_involutive.
Qed.

(* ---------- the hull test on the mirrored axis ---------- *)
Lemma Rleb_opp a b : Rleb (- a) (- b) = Rleb b a.
Proof. unfold Rleb. destruct (Rle_dec (- a) (- b)), (Rle_dec b a); auto; exfalso; lra. Qed.
Lemma Rltb_opp a b : Rltb (- a) (- b) = Rltb b a.
Proof. unfold Rltb. destruct (Rlt_dec (- a) (- b)), (Rlt_dec b a); auto; exfalso; lra. Qed.

Lemma inhullb_mirror a n q : axis a n -> inhullb (mirror_axis a) (- q) = inhullb a q.
Proof.
  intros A. pose proof (axis_n _ _ A) as N. unfold inhullb.
  rewrite mirror_dim, (axis_dim a n A). cbn [nleb nofZ NumR].
  rewrite (mirror_get a n 0 (n - 1) A), (mirror_get a n (n - 1) 0 A) by lia.
  rewrite !Rleb_opp. apply andb_comm.
Qed.

Lemma hull_mirror a n q : axis a n ->
  get 0 a [0%Z] <= q <= get 0 a [(n - 1)%Z] ->
  get 0 (mirror_axis a) [0%Z] <= - q <= get 0 (mirror_axis a) [(n - 1)%Z].
Proof.
  intros A H. pose proof (axis_n _ _ A) as N.
  rewrite (mirror_get a n 0 (n - 1) A), (mirror_get a n (n - 1) 0 A) by lia. lra.
Qed.

(* the cell located in the mirrored frame, read in the original frame: cell i' of the mirrored axis
   is cell n-2-i' of the axis, and it contains the query (as a CLOSED cell) *)
Lemma mirror_cell a n q : axis a n -> get 0 a [0%Z] <= q <= get 0 a [(n - 1)%Z] ->
  let i' := cell (mirror_axis a) n (- q) in
  (0 <= i' <= n - 2)%Z /\
  get 0 a [(n - 2 - i')%Z] <= q <= get 0 a [(n - 2 - i' + 1)%Z].
Proof.
  intros A H. cbv zeta.
  pose proof (hull_mirror a n q A H) as [H0 H1].
  destruct (cell_facts (mirror_axis a) n (- q) (axis_mirror a n A) H0 H1) as (I & B & _).
  remember (cell (mirror_axis a) n (- q)) as i' eqn:Ei. clear Ei. split; [exact I|].
  rewrite (mirror_get a n i' (n - 2 - i' + 1) A) in B by lia.
  rewrite (mirror_get a n (i' + 1) (n - 2 - i') A) in B by lia.
  lra.
Qed.

(* ---------- the formulas under a reflection of one coordinate ---------- *)
(* the parameters of the untouched coordinates are atoms (no condition on their cell widths) *)
Ltac atom_param q a b := generalize ((q - a) / (b - a)); intro.

Lemma bilin_core_mirror_x x1 x2 y1 y2 v11 v21 v12 v22 xq yq : x1 <> x2 ->
  bilin_core (- x2) (- x1) y1 y2 v21 v11 v22 v12 (- xq) yq =
  bilin_core x1 x2 y1 y2 v11 v21 v12 v22 xq yq.
Proof. intros D. unfold bilin_core. cbv zeta. atom_param yq y1 y2. field. lra. Qed.
Lemma bilin_core_mirror_y x1 x2 y1 y2 v11 v21 v12 v22 xq yq : y1 <> y2 ->
  bilin_core x1 x2 (- y2) (- y1) v12 v22 v11 v21 xq (- yq) =
  bilin_core x1 x2 y1 y2 v11 v21 v12 v22 xq yq.
Proof. intros D. unfold bilin_core. cbv zeta. atom_param xq x1 x2. field. lra. Qed.

Lemma trilin_core_mirror_x x1 x2 y1 y2 z1 z2 v111 v211 v121 v221 v112 v212 v122 v222 xq yq zq : x1 <> x2 ->
  trilin_core (- x2) (- x1) y1 y2 z1 z2 v211 v111 v221 v121 v212 v112 v222 v122 (- xq) yq zq =
  trilin_core x1 x2 y1 y2 z1 z2 v111 v211 v121 v221 v112 v212 v122 v222 xq yq zq.
Proof.
  intros D. unfold trilin_core. cbv zeta. atom_param yq y1 y2. atom_param zq z1 z2. field. lra.
Qed.
Lemma trilin_core_mirror_y x1 x2 y1 y2 z1 z2 v111 v211 v121 v221 v112 v212 v122 v222 xq yq zq : y1 <> y2 ->
  trilin_core x1 x2 (- y2) (- y1) z1 z2 v121 v221 v111 v211 v122 v222 v112 v212 xq (- yq) zq =
  trilin_core x1 x2 y1 y2 z1 z2 v111 v211 v121 v221 v112 v212 v122 v222 xq yq zq.
Proof.
  intros D. unfold trilin_core. cbv zeta. atom_param xq x1 x2. atom_param zq z1 z2. field. lra.
Qed.
Lemma trilin_core_mirror_z x1 x2 y1 y2 z1 z2 v111 v211 v121 v221 v112 v212 v122 v222 xq yq zq : z1 <> z2 ->
  trilin_core x1 x2 y1 y2 (- z2) (- z1) v112 v212 v122 v222 v111 v211 v121 v221 xq yq (- zq) =
  trilin_core x1 x2 y1 y2 z1 z2 v111 v211 v121 v221 v112 v212 v122 v222 xq yq zq.
Proof.
  intros D. unfold trilin_core. cbv zeta. atom_param xq x1 x2. atom_param yq y1 y2. field. lra.
Qed.

(* index bookkeeping: n-1-i' and n-1-(i'+1) in terms of i = n-2-i' *)
Ltac mirror_idx n i' :=
  replace (n - 1 - i')%Z with (n - 2 - i' + 1)%Z by lia;
  replace (n - 1 - (i' + 1))%Z with (n - 2 - i')%Z by lia.

(* ================================================================== *)
(* 2. _interp2d                                                         *)
(* ================================================================== *)
(* v' is v reversed along the first / second axis *)
Definition rev2_x (nx ny : Z) (v v' : arr R) : Prop :=
  shape v' = [nx; ny] /\
  forall i j, (0 <= i < nx)%Z -> (0 <= j < ny)%Z -> get 0 v' [i; j] = get 0 v [(nx - 1 - i)%Z; j].
Definition rev2_y (nx ny : Z) (v v' : arr R) : Prop :=
  shape v' = [nx; ny] /\
  forall i j, (0 <= i < nx)%Z -> (0 <= j < ny)%Z -> get 0 v' [i; j] = get 0 v [i; (ny - 1 - j)%Z].

Lemma bilin_mirror_x x y v v' nx ny i' j xq yq : axis x nx -> rev2_x nx ny v v' ->
  (0 <= i' <= nx - 2)%Z -> (0 <= j <= ny - 2)%Z ->
  bilin (mirror_axis x) y v' i' j (- xq) yq = bilin x y v (nx - 2 - i') j xq yq.
Proof.
  intros Ax [_ Hv] Hi Hj. unfold bilin.
  rewrite (mirror_get x nx i' (nx - 2 - i' + 1) Ax), (mirror_get x nx (i' + 1) (nx - 2 - i') Ax) by lia.
  rewrite !Hv by lia. mirror_idx nx i'.
  apply bilin_core_mirror_x.
  pose proof (axis_lt x nx (nx - 2 - i') (nx - 2 - i' + 1) Ax ltac:(lia)). lra.
Qed.

Lemma bilin_mirror_y x y v v' nx ny i j' xq yq : axis y ny -> rev2_y nx ny v v' ->
  (0 <= i <= nx - 2)%Z -> (0 <= j' <= ny - 2)%Z ->
  bilin x (mirror_axis y) v' i j' xq (- yq) = bilin x y v i (ny - 2 - j') xq yq.
Proof.
  intros Ay [_ Hv] Hi Hj. unfold bilin.
  rewrite (mirror_get y ny j' (ny - 2 - j' + 1) Ay), (mirror_get y ny (j' + 1) (ny - 2 - j') Ay) by lia.
  rewrite !Hv by lia. mirror_idx ny j'.
  apply bilin_core_mirror_y.
  pose proof (axis_lt y ny (ny - 2 - j') (ny - 2 - j' + 1) Ay ltac:(lia)). lra.
Qed.

(* M1, first axis: every query, every fill value *)
Theorem interp2d_mirror_x_gen (x y v v' : arr R) (nx ny : Z) (xq yq fval : R) :
  axis x nx -> axis y ny -> shape v = [nx; ny] -> rev2_x nx ny v v' ->
  u_interp2d_v (mirror_axis x) y v' (- xq) yq fval = u_interp2d_v x y v xq yq fval.
Proof.
  intros Ax Ay Sv Rv. pose proof (axis_mirror x nx Ax) as Ax'.
  destruct (inhullb x xq && inhullb y yq)%bool eqn:E.
  - apply andb_prop in E as [Ex Ey].
    pose proof (inhullb_true x nx xq Ax Ex) as Hx. pose proof (inhullb_true y ny yq Ay Ey) as Hy.
    rewrite (interp2d_spec _ y v' nx ny _ yq fval Ax' Ay (proj1 Rv) (hull_mirror x nx xq Ax Hx) Hy).
    destruct (mirror_cell x nx xq Ax Hx) as (Ix & Bx).
    destruct (cell_facts y ny yq Ay (proj1 Hy) (proj2 Hy)) as (Iy & By & _).
    rewrite (bilin_mirror_x x y v v' nx ny) by assumption.
    symmetry. apply (interp2d_spec_any_cell x y v nx ny Ax Ay Sv); try assumption; lia.
  - rewrite (interp2d_outside x y v xq yq fval E).
    apply interp2d_outside. fold (inhullb (mirror_axis x) (- xq)). fold (inhullb y yq).
    rewrite (inhullb_mirror x nx xq Ax). exact E.
Qed.

(* M1, second axis *)
Theorem interp2d_mirror_y_gen (x y v v' : arr R) (nx ny : Z) (xq yq fval : R) :
  axis x nx -> axis y ny -> shape v = [nx; ny] -> rev2_y nx ny v v' ->
  u_interp2d_v x (mirror_axis y) v' xq (- yq) fval = u_interp2d_v x y v xq yq fval.
Proof.
  intros Ax Ay Sv Rv. pose proof (axis_mirror y ny Ay) as Ay'.
  destruct (inhullb x xq && inhullb y yq)%bool eqn:E.
  - apply andb_prop in E as [Ex Ey].
    pose proof (inhullb_true x nx xq Ax Ex) as Hx. pose proof (inhullb_true y ny yq Ay Ey) as Hy.
    rewrite (interp2d_spec x _ v' nx ny xq _ fval Ax Ay' (proj1 Rv) Hx (hull_mirror y ny yq Ay Hy)).
    destruct (mirror_cell y ny yq Ay Hy) as (Iy & By).
    destruct (cell_facts x nx xq Ax (proj1 Hx) (proj2 Hx)) as (Ix & Bx & _).
    rewrite (bilin_mirror_y x y v v' nx ny) by assumption.
    symmetry. apply (interp2d_spec_any_cell x y v nx ny Ax Ay Sv); try assumption; lia.
  - rewrite (interp2d_outside x y v xq yq fval E).
    apply interp2d_outside. fold (inhullb x xq). fold (inhullb (mirror_axis y) (- yq)).
    rewrite (inhullb_mirror y ny yq Ay). exact E.
Qed.

(* the concrete reversed grids *)
Definition reverse_rows (v : arr R) : arr R :=
  tab2 (dim v 0%nat) (dim v 1%nat) (fun i j => get 0 v [(dim v 0%nat - 1 - i)%Z; j]).
Definition reverse_cols (v : arr R) : arr R :=
  tab2 (dim v 0%nat) (dim v 1%nat) (fun i j => get 0 v [i; (dim v 1%nat - 1 - j)%Z]).

Lemma reverse_rows_spec v nx ny : (0 <= nx)%Z -> (0 <= ny)%Z -> shape v = [nx; ny] ->
  wf (reverse_rows v) /\ rev2_x nx ny v (reverse_rows v).
Proof.
  intros Hx Hy Sv. unfold reverse_rows. rewrite (dim2_0 v _ _ Sv), (dim2_1 v _ _ Sv).
  split; [apply wf_tab2; assumption|]. split; [reflexivity|].
  intros i j Hi Hj. rewrite get_tab2 by assumption. reflexivity.
Qed.
Lemma reverse_cols_spec v nx ny : (0 <= nx)%Z -> (0 <= ny)%Z -> shape v = [nx; ny] ->
  wf (reverse_cols v) /\ rev2_y nx ny v (reverse_cols v).
Proof.
  intros Hx Hy Sv. unfold reverse_cols. rewrite (dim2_0 v _ _ Sv), (dim2_1 v _ _ Sv).
  split; [apply wf_tab2; assumption|]. split; [reflexivity|].
  intros i j Hi Hj. rewrite get_tab2 by assumption. reflexivity.
Qed.

Theorem interp2d_mirror_x (x y v : arr R) (nx ny : Z) (xq yq fval : R) :
  axis x nx -> axis y ny -> shape v = [nx; ny] ->
  u_interp2d_v (mirror_axis x) y (reverse_rows v) (- xq) yq fval = u_interp2d_v x y v xq yq fval.
Proof.
  intros Ax Ay Sv. pose proof (axis_n _ _ Ax). pose proof (axis_n _ _ Ay).
  apply (interp2d_mirror_x_gen x y v _ nx ny); auto.
  apply reverse_rows_spec; auto; lia.
Qed.

Theorem interp2d_mirror_y (x y v : arr R) (nx ny : Z) (xq yq fval : R) :
  axis x nx -> axis y ny -> shape v = [nx; ny] ->
  u_interp2d_v x (mirror_axis y) (reverse_cols v) xq (- yq) fval = u_interp2d_v x y v xq yq fval.
Proof.
  intros Ax Ay Sv. pose proof (axis_n _ _ Ax). pose proof (axis_n _ _ Ay).
  apply (interp2d_mirror_y_gen x y v _ nx ny); auto.
  apply reverse_cols_spec; auto; lia.
Qed.

(* ================================================================== *)
(* 3. _interp3d                                                         *)
(* ================================================================== *)
Definition rev3_x (nx ny nz : Z) (v v' : arr R) : Prop :=
  shape v' = [nx; ny; nz] /\
  forall i j k, (0 <= i < nx)%Z -> (0 <= j < ny)%Z -> (0 <= k < nz)%Z ->
    get 0 v' [i; j; k] = get 0 v [(nx - 1 - i)%Z; j; k].
Definition rev3_y (nx ny nz : Z) (v v' : arr R) : Prop :=
  shape v' = [nx; ny; nz] /\
  forall i j k, (0 <= i < nx)%Z -> (0 <= j < ny)%Z -> (0 <= k < nz)%Z ->
    get 0 v' [i; j; k] = get 0 v [i; (ny - 1 - j)%Z; k].
Definition rev3_z (nx ny nz : Z) (v v' : arr R) : Prop :=
  shape v' = [nx; ny; nz] /\
  forall i j k, (0 <= i < nx)%Z -> (0 <= j < ny)%Z -> (0 <= k < nz)%Z ->
    get 0 v' [i; j; k] = get 0 v [i; j; (nz - 1 - k)%Z].

Lemma trilin_mirror_x x y z v v' nx ny nz i' j k xq yq zq : axis x nx -> rev3_x nx ny nz v v' ->
  (0 <= i' <= nx - 2)%Z -> (0 <= j <= ny - 2)%Z -> (0 <= k <= nz - 2)%Z ->
  trilin (mirror_axis x) y z v' i' j k (- xq) yq zq = trilin x y z v (nx - 2 - i') j k xq yq zq.
Proof.
  intros Ax [_ Hv] Hi Hj Hk. unfold trilin.
  rewrite (mirror_get x nx i' (nx - 2 - i' + 1) Ax), (mirror_get x nx (i' + 1) (nx - 2 - i') Ax) by lia.
  rewrite !Hv by lia. mirror_idx nx i'.
  apply trilin_core_mirror_x.
  pose proof (axis_lt x nx (nx - 2 - i') (nx - 2 - i' + 1) Ax ltac:(lia)). lra.
Qed.

Lemma trilin_mirror_y x y z v v' nx ny nz i j' k xq yq zq : axis y ny -> rev3_y nx ny nz v v' ->
  (0 <= i <= nx - 2)%Z -> (0 <= j' <= ny - 2)%Z -> (0 <= k <= nz - 2)%Z ->
  trilin x (mirror_axis y) z v' i j' k xq (- yq) zq = trilin x y z v i (ny - 2 - j') k xq yq zq.
Proof.
  intros Ay [_ Hv] Hi Hj Hk. unfold trilin.
  rewrite (mirror_get y ny j' (ny - 2 - j' + 1) Ay), (mirror_get y ny (j' + 1) (ny - 2 - j') Ay) by lia.
  rewrite !Hv by lia. mirror_idx ny j'.
  apply trilin_core_mirror_y.
  pose proof (axis_lt y ny (ny - 2 - j') (ny - 2 - j' + 1) Ay ltac:(lia)). lra.
Qed.

Lemma trilin_mirror_z x y z v v' nx ny nz i j k' xq yq zq : axis z nz -> rev3_z nx ny nz v v' ->
  (0 <= i <= nx - 2)%Z -> (0 <= j <= ny - 2)%Z -> (0 <= k' <= nz - 2)%Z ->
  trilin x y (mirror_axis z) v' i j k' xq yq (- zq) = trilin x y z v i j (nz - 2 - k') xq yq zq.
Proof.
  intros Az [_ Hv] Hi Hj Hk. unfold trilin.
  rewrite (mirror_get z nz k' (nz - 2 - k' + 1) Az), (mirror_get z nz (k' + 1) (nz - 2 - k') Az) by lia.
  rewrite !Hv by lia. mirror_idx nz k'.
  apply trilin_core_mirror_z.
  pose proof (axis_lt z nz (nz - 2 - k') (nz - 2 - k' + 1) Az ltac:(lia)). lra.
Qed.

Section Mirror3.
Variables (x y z v v' : arr R) (nx ny nz : Z) (xq yq zq fval : R).
Hypothesis Ax : axis x nx.
Hypothesis Ay : axis y ny.
Hypothesis Az : axis z nz.
Hypothesis Sv : shape v = [nx; ny; nz].

(* M2, first axis *)
Theorem interp3d_mirror_x_gen : rev3_x nx ny nz v v' ->
  u_interp3d_v (mirror_axis x) y z v' (- xq) yq zq fval = u_interp3d_v x y z v xq yq zq fval.
Proof.
  intros Rv. pose proof (axis_mirror x nx Ax) as Ax'.
  destruct (inhullb x xq && inhullb y yq && inhullb z zq)%bool eqn:E.
  - apply andb_prop in E as [E Ez]. apply andb_prop in E as [Ex Ey].
    pose proof (inhullb_true x nx xq Ax Ex) as Hx. pose proof (inhullb_true y ny yq Ay Ey) as Hy.
    pose proof (inhullb_true z nz zq Az Ez) as Hz.
    rewrite (interp3d_spec _ y z v' nx ny nz _ yq zq fval Ax' Ay Az (proj1 Rv)
               (hull_mirror x nx xq Ax Hx) Hy Hz).
    destruct (mirror_cell x nx xq Ax Hx) as (Ix & Bx).
    destruct (cell_facts y ny yq Ay (proj1 Hy) (proj2 Hy)) as (Iy & By & _).
    destruct (cell_facts z nz zq Az (proj1 Hz) (proj2 Hz)) as (Iz & Bz & _).
    rewrite (trilin_mirror_x x y z v v' nx ny nz) by assumption.
    symmetry. apply (interp3d_spec_any_cell x y z v nx ny nz Ax Ay Az Sv); try assumption; lia.
  - rewrite (interp3d_outside x y z v xq yq zq fval E).
    apply interp3d_outside. fold (inhullb (mirror_axis x) (- xq)). fold (inhullb y yq). fold (inhullb z zq).
    rewrite (inhullb_mirror x nx xq Ax). exact E.
Qed.

(* M2, second axis *)
Theorem interp3d_mirror_y_gen : rev3_y nx ny nz v v' ->
  u_interp3d_v x (mirror_axis y) z v' xq (- yq) zq fval = u_interp3d_v x y z v xq yq zq fval.
Proof.
  intros Rv. pose proof (axis_mirror y ny Ay) as Ay'.
  destruct (inhullb x xq && inhullb y yq && inhullb z zq)%bool eqn:E.
  - apply andb_prop in E as [E Ez]. apply andb_prop in E as [Ex Ey].
    pose proof (inhullb_true x nx xq Ax Ex) as Hx. pose proof (inhullb_true y ny yq Ay Ey) as Hy.
    pose proof (inhullb_true z nz zq Az Ez) as Hz.
    rewrite (interp3d_spec x _ z v' nx ny nz xq _ zq fval Ax Ay' Az (proj1 Rv)
               Hx (hull_mirror y ny yq Ay Hy) Hz).
    destruct (mirror_cell y ny yq Ay Hy) as (Iy & By).
    destruct (cell_facts x nx xq Ax (proj1 Hx) (proj2 Hx)) as (Ix & Bx & _).
    destruct (cell_facts z nz zq Az (proj1 Hz) (proj2 Hz)) as (Iz & Bz & _).
    rewrite (trilin_mirror_y x y z v v' nx ny nz) by assumption.
    symmetry. apply (interp3d_spec_any_cell x y z v nx ny nz Ax Ay Az Sv); try assumption; lia.
  - rewrite (interp3d_outside x y z v xq yq zq fval E).
    apply interp3d_outside. fold (inhullb x xq). fold (inhullb (mirror_axis y) (- yq)). fold (inhullb z zq).
    rewrite (inhullb_mirror y ny yq Ay). exact E.
Qed.

(* M2, third axis *)
Theorem interp3d_mirror_z_gen : rev3_z nx ny nz v v' ->
  u_interp3d_v x y (mirror_axis z) v' xq yq (- zq) fval = u_interp3d_v x y z v xq yq zq fval.
Proof.
  intros Rv. pose proof (axis_mirror z nz Az) as Az'.
  destruct (inhullb x xq && inhullb y yq && inhullb z zq)%bool eqn:E.
  - apply andb_prop in E as [E Ez]. apply andb_prop in E as [Ex Ey].
    pose proof (inhullb_true x nx xq Ax Ex) as Hx. pose proof (inhullb_true y ny yq Ay Ey) as Hy.
    pose proof (inhullb_true z nz zq Az Ez) as Hz.
    rewrite (interp3d_spec x y _ v' nx ny nz xq yq _ fval Ax Ay Az' (proj1 Rv)
               Hx Hy (hull_mirror z nz zq Az Hz)).
    destruct (mirror_cell z nz zq Az Hz) as (Iz & Bz).
    destruct (cell_facts x nx xq Ax (proj1 Hx) (proj2 Hx)) as (Ix & Bx & _).
    destruct (cell_facts y ny yq Ay (proj1 Hy) (proj2 Hy)) as (Iy & By & _).
    rewrite (trilin_mirror_z x y z v v' nx ny nz) by assumption.
    symmetry. apply (interp3d_spec_any_cell x y z v nx ny nz Ax Ay Az Sv); try assumption; lia.
  - rewrite (interp3d_outside x y z v xq yq zq fval E).
    apply interp3d_outside. fold (inhullb x xq). fold (inhullb y yq). fold (inhullb (mirror_axis z) (- zq)).
    rewrite (inhullb_mirror z nz zq Az). exact E.
Qed.
End Mirror3.

(* the concrete reversed grids *)
Definition reverse3_x (v : arr R) : arr R :=
  tab3 (dim v 0%nat) (dim v 1%nat) (dim v 2%nat) (fun i j k => get 0 v [(dim v 0%nat - 1 - i)%Z; j; k]).
Definition reverse3_y (v : arr R) : arr R :=
  tab3 (dim v 0%nat) (dim v 1%nat) (dim v 2%nat) (fun i j k => get 0 v [i; (dim v 1%nat - 1 - j)%Z; k]).
Definition reverse3_z (v : arr R) : arr R :=
  tab3 (dim v 0%nat) (dim v 1%nat) (dim v 2%nat) (fun i j k => get 0 v [i; j; (dim v 2%nat - 1 - k)%Z]).

Lemma reverse3_x_spec v nx ny nz : (0 <= nx)%Z -> (0 <= ny)%Z -> (0 <= nz)%Z -> shape v = [nx; ny; nz] ->
  wf (reverse3_x v) /\ rev3_x nx ny nz v (reverse3_x v).
Proof.
  intros Hx Hy Hz Sv. unfold reverse3_x.
  rewrite (dim3_0 v _ _ _ Sv), (dim3_1 v _ _ _ Sv), (dim3_2 v _ _ _ Sv).
  split; [apply wf_tab3; assumption|]. split; [reflexivity|].
  intros i j k Hi Hj Hk. rewrite get_tab3 by assumption. reflexivity.
Qed.
Lemma reverse3_y_spec v nx ny nz : (0 <= nx)%Z -> (0 <= ny)%Z -> (0 <= nz)%Z -> shape v = [nx; ny; nz] ->
  wf (reverse3_y v) /\ rev3_y nx ny nz v (reverse3_y v).
Proof.
  intros Hx Hy Hz Sv. unfold reverse3_y.
  rewrite (dim3_0 v _ _ _ Sv), (dim3_1 v _ _ _ Sv), (dim3_2 v _ _ _ Sv).
  split; [apply wf_tab3; assumption|]. split; [reflexivity|].
  intros i j k Hi Hj Hk. rewrite get_tab3 by assumption. reflexivity.
Qed.
Lemma reverse3_z_spec v nx ny nz : (0 <= nx)%Z -> (0 <= ny)%Z -> (0 <= nz)%Z -> shape v = [nx; ny; nz] ->
  wf (reverse3_z v) /\ rev3_z nx ny nz v (reverse3_z v).
Proof.
  intros Hx Hy Hz Sv. unfold reverse3_z.
  rewrite (dim3_0 v _ _ _ Sv), (dim3_1 v _ _ _ Sv), (dim3_2 v _ _ _ Sv).
  split; [apply wf_tab3; assumption|]. split; [reflexivity|].
  intros i j k Hi Hj Hk. rewrite get_tab3 by assumption. reflexivity.
Qed.

Section Mirror3Concrete.
Variables (x y z v : arr R) (nx ny nz : Z) (xq yq zq fval : R).
Hypothesis Ax : axis x nx.
Hypothesis Ay : axis y ny.
Hypothesis Az : axis z nz.
Hypothesis Sv : shape v = [nx; ny; nz].

Theorem interp3d_mirror_x :
  u_interp3d_v (mirror_axis x) y z (reverse3_x v) (- xq) yq zq fval = u_interp3d_v x y z v xq yq zq fval.
Proof.
  pose proof (axis_n _ _ Ax). pose proof (axis_n _ _ Ay). pose proof (axis_n _ _ Az).
  apply (interp3d_mirror_x_gen x y z v _ nx ny nz); auto. apply reverse3_x_spec; auto; lia.
Qed.
Theorem interp3d_mirror_y :
  u_interp3d_v x (mirror_axis y) z (reverse3_y v) xq (- yq) zq fval = u_interp3d_v x y z v xq yq zq fval.
Proof.
  pose proof (axis_n _ _ Ax). pose proof (axis_n _ _ Ay). pose proof (axis_n _ _ Az).
  apply (interp3d_mirror_y_gen x y z v _ nx ny nz); auto. apply reverse3_y_spec; auto; lia.
Qed.
Theorem interp3d_mirror_z :
  u_interp3d_v x y (mirror_axis z) (reverse3_z v) xq yq (- zq) fval = u_interp3d_v x y z v xq yq zq fval.
Proof.
  pose proof (axis_n _ _ Ax). pose proof (axis_n _ _ Ay). pose proof (axis_n _ _ Az).
  apply (interp3d_mirror_z_gen x y z v _ nx ny nz); auto. apply reverse3_z_spec; auto; lia.
Qed.
End Mirror3Concrete.

(* ================================================================== *)
(* 4. searchsorted(side="right") on the mirrored axis                   *)
(* ================================================================== *)
(* q is not a node of the axis *)
Definition off_nodes (a : arr R) (n : Z) (q : R) : Prop :=
  forall k, (0 <= k < n)%Z -> get 0 a [k] <> q.

(* off the nodes the count of nodes <= q becomes the count of nodes >= q: n - s *)
Lemma ssr_mirror_off a n q : axis a n -> off_nodes a n q ->
  searchsorted_right (mirror_axis a) (- q) = (n - searchsorted_right a q)%Z.
Proof.
  intros A Off. pose proof (axis_axis1 _ _ A) as A1. pose proof (axis_n _ _ A) as N.
  pose proof (axis_axis1 _ _ (axis_mirror a n A)) as A1'.
  pose proof (ssr_range a n q A1 ltac:(lia)) as Rg.
  apply (ssr_unique 0 (mirror_axis a) n (- q) _ A1'); [lia | |].
  - intros k Hk. cbn [nltb NumR]. rewrite (mirror_get a n k (n - 1 - k) A) by lia.
    rewrite Rltb_opp. apply Rltb_false.
    assert (Hs : (searchsorted_right a q <= n - 1 - k < n)%Z) by lia.
    pose proof (ssr_above 0 a n q (n - 1 - k) A1 (axis_ascending _ _ A) Hs) as B.
    cbn [nltb NumR] in B. apply Rltb_true in B. lra.
  - intros Hm. cbn [nltb NumR].
    rewrite (mirror_get a n _ (searchsorted_right a q - 1) A) by lia.
    rewrite Rltb_opp. apply Rltb_true.
    assert (Hs : (0 <= searchsorted_right a q - 1 < searchsorted_right a q)%Z) by lia.
    pose proof (ssr_below 0 a n q (searchsorted_right a q - 1) A1 Hs) as B.
    cbn [nltb NumR] in B. apply Rltb_false in B.
    assert (Hn : (0 <= searchsorted_right a q - 1 < n)%Z) by lia.
    pose proof (Off _ Hn). lra.
Qed.

(* ON node k the node itself is counted in both frames: n - s + 1 *)
Lemma ssr_mirror_node a n k : axis a n -> (0 <= k < n)%Z ->
  searchsorted_right (mirror_axis a) (- get 0 a [k]) = (n - k)%Z.
Proof.
  intros A Hk. rewrite <- (mirror_get a n (n - 1 - k) k A) by lia.
  rewrite (ssrR_node _ n (n - 1 - k) (axis_mirror a n A)) by lia. lia.
Qed.

(* off the nodes, inside the hull: the mirrored cell is the mirror image of the cell, no far face *)
Lemma mirror_off a n q : axis a n -> get 0 a [0%Z] <= q <= get 0 a [(n - 1)%Z] -> off_nodes a n q ->
  cell (mirror_axis a) n (- q) = (n - 2 - cell a n q)%Z /\
  far a n q = false /\ far (mirror_axis a) n (- q) = false.
Proof.
  intros A [H0 H1] Off. pose proof (axis_n _ _ A) as N.
  pose proof (ssrR_range a n q A H0) as Rg.
  assert (Nl : (searchsorted_right a q - 1 <> n - 1)%Z).
  { intros E. apply (ssrR_last a n q A H1) in E. apply (Off (n - 1)%Z); [lia | auto]. }
  unfold cell, far. rewrite (ssr_mirror_off a n q A Off).
  repeat split; [lia | apply Z.eqb_neq; lia | apply Z.eqb_neq; lia].
Qed.

(* the kernels' source-cell test on one axis gives the same answer in the two frames *)
Definition src_agrees (a : arr R) (q s : R) : Prop :=
  searchsorted_right a s = searchsorted_right a q <->
  searchsorted_right (mirror_axis a) (- s) = searchsorted_right (mirror_axis a) (- q).

(* ... when neither the query nor the source coordinate is a node *)
Lemma src_agrees_off a n q s : axis a n -> off_nodes a n q -> off_nodes a n s -> src_agrees a q s.
Proof.
  intros A Oq Os. unfold src_agrees.
  rewrite (ssr_mirror_off a n q A Oq), (ssr_mirror_off a n s A Os). split; lia.
Qed.

(* ... or when the source coordinate is node k and the query is in neither cell adjacent to it *)
Lemma src_agrees_node a n q k : axis a n -> off_nodes a n q -> (0 <= k < n)%Z ->
  searchsorted_right a q <> k -> searchsorted_right a q <> (k + 1)%Z ->
  src_agrees a q (get 0 a [k]).
Proof.
  intros A Oq Hk N1 N2. unfold src_agrees.
  rewrite (ssr_mirror_off a n q A Oq), (ssr_mirror_node a n k A Hk), (ssrR_node a n k A Hk). split; lia.
Qed.

Lemma dist2d_opp_x a b c d : dist2d (- a) b (- c) d = dist2d a b c d.
Proof. rewrite !dist2d_R. f_equal. ring. Qed.
Lemma dist2d_opp_y a b c d : dist2d a (- b) c (- d) = dist2d a b c d.
Proof. rewrite !dist2d_R. f_equal. ring. Qed.
Lemma dist3d_opp_x a b c d e f : dist3d (- a) b c (- d) e f = dist3d a b c d e f.
Proof. rewrite !dist3d_R. f_equal. ring. Qed.
Lemma dist3d_opp_y a b c d e f : dist3d a (- b) c d (- e) f = dist3d a b c d e f.
Proof. rewrite !dist3d_R. f_equal. ring. Qed.
Lemma dist3d_opp_z a b c d e f : dist3d a b (- c) d e (- f) = dist3d a b c d e f.
Proof. rewrite !dist3d_R. f_equal. ring. Qed.

(* the zero-time tests of the two frames are conjunctions of the same atoms in another order *)
Ltac nzm_shuffle :=
  rewrite ?orb_false_r; cbn [orb];
  repeat match goal with |- context [nzm ?m ?t] => destruct (nzm m t) end; reflexivity.

(* n-1-(n-2-i) and n-1-(n-2-i+1) in terms of i *)
Ltac unmirror_idx n i :=
  replace (n - 1 - (n - 2 - i))%Z with (i + 1)%Z by lia;
  replace (n - 1 - (n - 2 - i + 1))%Z with i by lia.

(* ================================================================== *)
(* 5. _vinterp2d                                                        *)
(* ================================================================== *)
Lemma vbilin_mirror_x x y v v' nx ny xsrc ysrc i' j xq yq : axis x nx -> rev2_x nx ny v v' ->
  (0 <= i' <= nx - 2)%Z -> (0 <= j <= ny - 2)%Z ->
  vbilin (mirror_axis x) y v' (- xsrc) ysrc i' j (- xq) yq = vbilin x y v xsrc ysrc (nx - 2 - i') j xq yq.
Proof.
  intros Ax [_ Hv] Hi Hj. unfold vbilin, appvel2.
  rewrite (mirror_get x nx i' (nx - 2 - i' + 1) Ax), (mirror_get x nx (i' + 1) (nx - 2 - i') Ax) by lia.
  rewrite !Hv by lia. mirror_idx nx i'. rewrite !dist2d_opp_x. f_equal.
  apply bilin_core_mirror_x.
  pose proof (axis_lt x nx (nx - 2 - i') (nx - 2 - i' + 1) Ax ltac:(lia)). lra.
Qed.

Lemma vbilin_mirror_y x y v v' nx ny xsrc ysrc i j' xq yq : axis y ny -> rev2_y nx ny v v' ->
  (0 <= i <= nx - 2)%Z -> (0 <= j' <= ny - 2)%Z ->
  vbilin x (mirror_axis y) v' xsrc (- ysrc) i j' xq (- yq) = vbilin x y v xsrc ysrc i (ny - 2 - j') xq yq.
Proof.
  intros Ay [_ Hv] Hi Hj. unfold vbilin, appvel2.
  rewrite (mirror_get y ny j' (ny - 2 - j' + 1) Ay), (mirror_get y ny (j' + 1) (ny - 2 - j') Ay) by lia.
  rewrite !Hv by lia. mirror_idx ny j'. rewrite !dist2d_opp_y. f_equal.
  apply bilin_core_mirror_y.
  pose proof (axis_lt y ny (ny - 2 - j') (ny - 2 - j' + 1) Ay ltac:(lia)). lra.
Qed.

Lemma times_ok2_mirror_x x y v v' nx ny xq yq : axis x nx -> axis y ny -> rev2_x nx ny v v' ->
  get 0 x [0%Z] <= xq <= get 0 x [(nx - 1)%Z] -> get 0 y [0%Z] <= yq <= get 0 y [(ny - 1)%Z] ->
  off_nodes x nx xq ->
  times_ok2 (mirror_axis x) y v' nx ny (- xq) yq = times_ok2 x y v nx ny xq yq.
Proof.
  intros Ax Ay [_ Hv] Hx Hy Off.
  destruct (mirror_off x nx xq Ax Hx Off) as (C & F & F').
  destruct (cell_facts x nx xq Ax (proj1 Hx) (proj2 Hx)) as (Ix & _).
  destruct (cell_facts y ny yq Ay (proj1 Hy) (proj2 Hy)) as (Iy & _).
  unfold times_ok2. cbv zeta. rewrite C, F, F'.
  set (i := cell x nx xq) in *. set (j := cell y ny yq) in *.
  rewrite !Hv by lia. unmirror_idx nx i. nzm_shuffle.
Qed.

Lemma times_ok2_mirror_y x y v v' nx ny xq yq : axis x nx -> axis y ny -> rev2_y nx ny v v' ->
  get 0 x [0%Z] <= xq <= get 0 x [(nx - 1)%Z] -> get 0 y [0%Z] <= yq <= get 0 y [(ny - 1)%Z] ->
  off_nodes y ny yq ->
  times_ok2 x (mirror_axis y) v' nx ny xq (- yq) = times_ok2 x y v nx ny xq yq.
Proof.
  intros Ax Ay [_ Hv] Hx Hy Off.
  destruct (mirror_off y ny yq Ay Hy Off) as (C & F & F').
  destruct (cell_facts x nx xq Ax (proj1 Hx) (proj2 Hx)) as (Ix & _).
  destruct (cell_facts y ny yq Ay (proj1 Hy) (proj2 Hy)) as (Iy & _).
  unfold times_ok2. cbv zeta. rewrite C, F, F'.
  set (i := cell x nx xq) in *. set (j := cell y ny yq) in *.
  rewrite !Hv by lia. unmirror_idx ny j. nzm_shuffle.
Qed.

(* M3, 2-D, first axis: the query's coordinate on the mirrored axis is not a node, and the
   source-cell test on that axis agrees in the two frames.  Every other input is arbitrary:
   outside the hull, zero corner times, query on node lines / far face of the OTHER axis. *)
Theorem vinterp2d_mirror_x_gen (x y v v' : arr R) (nx ny : Z) (xq yq xsrc ysrc vzero fval : R) :
  axis x nx -> axis y ny -> shape v = [nx; ny] -> rev2_x nx ny v v' ->
  off_nodes x nx xq -> src_agrees x xq xsrc ->
  u_vinterp2d_v (mirror_axis x) y v' (- xq) yq (- xsrc) ysrc vzero fval =
  u_vinterp2d_v x y v xq yq xsrc ysrc vzero fval.
Proof.
  intros Ax Ay Sv Rv Off Ag. unfold src_agrees in Ag. pose proof (axis_mirror x nx Ax) as Ax'.
  assert (Eh : (inhullb (mirror_axis x) (- xq) && inhullb y yq)%bool = (inhullb x xq && inhullb y yq)%bool)
    by (rewrite (inhullb_mirror x nx xq Ax); reflexivity).
  destruct (inhullb x xq && inhullb y yq)%bool eqn:E.
  - pose proof E as E0. apply andb_prop in E0 as [Ex Ey].
    pose proof (inhullb_true x nx xq Ax Ex) as Hx. pose proof (inhullb_true y ny yq Ay Ey) as Hy.
    destruct (Z.eq_dec (searchsorted_right x xsrc) (searchsorted_right x xq)) as [Sx|Sx];
    destruct (Z.eq_dec (searchsorted_right y ysrc) (searchsorted_right y yq)) as [Sy|Sy];
    [ rewrite (vinterp2d_source_cell_gen x y v xq yq xsrc ysrc vzero fval E Sx Sy);
      rewrite (vinterp2d_source_cell_gen (mirror_axis x) y v' (- xq) yq (- xsrc) ysrc vzero fval Eh
                 (proj1 Ag Sx) Sy);
      rewrite dist2d_opp_x; reflexivity
    | .. ];
    ( rewrite (vinterp2d_char x y v nx ny xq yq xsrc ysrc vzero fval Ax Ay Sv Hx Hy) by tauto;
      rewrite (vinterp2d_char _ y v' nx ny _ yq _ ysrc vzero fval Ax' Ay (proj1 Rv)
                 (hull_mirror x nx xq Ax Hx) Hy) by tauto;
      rewrite (times_ok2_mirror_x x y v v' nx ny xq yq) by assumption;
      destruct (mirror_off x nx xq Ax Hx Off) as (C & _);
      destruct (cell_facts x nx xq Ax (proj1 Hx) (proj2 Hx)) as (Ix & _);
      destruct (cell_facts y ny yq Ay (proj1 Hy) (proj2 Hy)) as (Iy & _);
      rewrite (vbilin_mirror_x x y v v' nx ny) by (assumption || (rewrite C; lia));
      rewrite C; replace (nx - 2 - (nx - 2 - cell x nx xq))%Z with (cell x nx xq) by lia;
      rewrite dist2d_opp_x; reflexivity ).
  - rewrite (vinterp2d_outside x y v xq yq xsrc ysrc vzero fval E).
    apply vinterp2d_outside. exact Eh.
Qed.

(* M3, 2-D, second axis *)
Theorem vinterp2d_mirror_y_gen (x y v v' : arr R) (nx ny : Z) (xq yq xsrc ysrc vzero fval : R) :
  axis x nx -> axis y ny -> shape v = [nx; ny] -> rev2_y nx ny v v' ->
  off_nodes y ny yq -> src_agrees y yq ysrc ->
  u_vinterp2d_v x (mirror_axis y) v' xq (- yq) xsrc (- ysrc) vzero fval =
  u_vinterp2d_v x y v xq yq xsrc ysrc vzero fval.
Proof.
  intros Ax Ay Sv Rv Off Ag. unfold src_agrees in Ag. pose proof (axis_mirror y ny Ay) as Ay'.
  assert (Eh : (inhullb x xq && inhullb (mirror_axis y) (- yq))%bool = (inhullb x xq && inhullb y yq)%bool)
    by (rewrite (inhullb_mirror y ny yq Ay); reflexivity).
  destruct (inhullb x xq && inhullb y yq)%bool eqn:E.
  - pose proof E as E0. apply andb_prop in E0 as [Ex Ey].
    pose proof (inhullb_true x nx xq Ax Ex) as Hx. pose proof (inhullb_true y ny yq Ay Ey) as Hy.
    destruct (Z.eq_dec (searchsorted_right x xsrc) (searchsorted_right x xq)) as [Sx|Sx];
    destruct (Z.eq_dec (searchsorted_right y ysrc) (searchsorted_right y yq)) as [Sy|Sy];
    [ rewrite (vinterp2d_source_cell_gen x y v xq yq xsrc ysrc vzero fval E Sx Sy);
      rewrite (vinterp2d_source_cell_gen x (mirror_axis y) v' xq (- yq) xsrc (- ysrc) vzero fval Eh
                 Sx (proj1 Ag Sy));
      rewrite dist2d_opp_y; reflexivity
    | .. ];
    ( rewrite (vinterp2d_char x y v nx ny xq yq xsrc ysrc vzero fval Ax Ay Sv Hx Hy) by tauto;
      rewrite (vinterp2d_char x _ v' nx ny xq _ xsrc _ vzero fval Ax Ay' (proj1 Rv)
                 Hx (hull_mirror y ny yq Ay Hy)) by tauto;
      rewrite (times_ok2_mirror_y x y v v' nx ny xq yq) by assumption;
      destruct (mirror_off y ny yq Ay Hy Off) as (C & _);
      destruct (cell_facts x nx xq Ax (proj1 Hx) (proj2 Hx)) as (Ix & _);
      destruct (cell_facts y ny yq Ay (proj1 Hy) (proj2 Hy)) as (Iy & _);
      rewrite (vbilin_mirror_y x y v v' nx ny) by (assumption || (rewrite C; lia));
      rewrite C; replace (ny - 2 - (ny - 2 - cell y ny yq))%Z with (cell y ny yq) by lia;
      rewrite dist2d_opp_y; reflexivity ).
  - rewrite (vinterp2d_outside x y v xq yq xsrc ysrc vzero fval E).
    apply vinterp2d_outside. exact Eh.
Qed.

(* the statement for queries and sources off the node lines of the mirrored axis, concrete reversal *)
Theorem vinterp2d_mirror_x_off_nodes (x y v : arr R) (nx ny : Z) (xq yq xsrc ysrc vzero fval : R) :
  axis x nx -> axis y ny -> shape v = [nx; ny] -> off_nodes x nx xq -> off_nodes x nx xsrc ->
  u_vinterp2d_v (mirror_axis x) y (reverse_rows v) (- xq) yq (- xsrc) ysrc vzero fval =
  u_vinterp2d_v x y v xq yq xsrc ysrc vzero fval.
Proof.
  intros Ax Ay Sv Oq Os. pose proof (axis_n _ _ Ax). pose proof (axis_n _ _ Ay).
  apply (vinterp2d_mirror_x_gen x y v _ nx ny); auto.
  - apply reverse_rows_spec; auto; lia.
  - apply (src_agrees_off x nx); assumption.
Qed.

Theorem vinterp2d_mirror_y_off_nodes (x y v : arr R) (nx ny : Z) (xq yq xsrc ysrc vzero fval : R) :
  axis x nx -> axis y ny -> shape v = [nx; ny] -> off_nodes y ny yq -> off_nodes y ny ysrc ->
  u_vinterp2d_v x (mirror_axis y) (reverse_cols v) xq (- yq) xsrc (- ysrc) vzero fval =
  u_vinterp2d_v x y v xq yq xsrc ysrc vzero fval.
Proof.
  intros Ax Ay Sv Oq Os. pose proof (axis_n _ _ Ax). pose proof (axis_n _ _ Ay).
  apply (vinterp2d_mirror_y_gen x y v _ nx ny); auto.
  - apply reverse_cols_spec; auto; lia.
  - apply (src_agrees_off y ny); assumption.
Qed.

(* ================================================================== *)
(* 6. _vinterp3d                                                        *)
(* ================================================================== *)
Lemma vtrilin_mirror_x x y z v v' nx ny nz xsrc ysrc zsrc i' j k xq yq zq :
  axis x nx -> rev3_x nx ny nz v v' ->
  (0 <= i' <= nx - 2)%Z -> (0 <= j <= ny - 2)%Z -> (0 <= k <= nz - 2)%Z ->
  vtrilin (mirror_axis x) y z v' (- xsrc) ysrc zsrc i' j k (- xq) yq zq =
  vtrilin x y z v xsrc ysrc zsrc (nx - 2 - i') j k xq yq zq.
Proof.
  intros Ax [_ Hv] Hi Hj Hk. unfold vtrilin, appvel3. cbv zeta.
  rewrite (mirror_get x nx i' (nx - 2 - i' + 1) Ax), (mirror_get x nx (i' + 1) (nx - 2 - i') Ax) by lia.
  rewrite !Hv by lia. mirror_idx nx i'. rewrite !dist3d_opp_x. f_equal.
  apply trilin_core_mirror_x.
  pose proof (axis_lt x nx (nx - 2 - i') (nx - 2 - i' + 1) Ax ltac:(lia)). lra.
Qed.

Lemma vtrilin_mirror_y x y z v v' nx ny nz xsrc ysrc zsrc i j' k xq yq zq :
  axis y ny -> rev3_y nx ny nz v v' ->
  (0 <= i <= nx - 2)%Z -> (0 <= j' <= ny - 2)%Z -> (0 <= k <= nz - 2)%Z ->
  vtrilin x (mirror_axis y) z v' xsrc (- ysrc) zsrc i j' k xq (- yq) zq =
  vtrilin x y z v xsrc ysrc zsrc i (ny - 2 - j') k xq yq zq.
Proof.
  intros Ay [_ Hv] Hi Hj Hk. unfold vtrilin, appvel3. cbv zeta.
  rewrite (mirror_get y ny j' (ny - 2 - j' + 1) Ay), (mirror_get y ny (j' + 1) (ny - 2 - j') Ay) by lia.
  rewrite !Hv by lia. mirror_idx ny j'. rewrite !dist3d_opp_y. f_equal.
  apply trilin_core_mirror_y.
  pose proof (axis_lt y ny (ny - 2 - j') (ny - 2 - j' + 1) Ay ltac:(lia)). lra.
Qed.

Lemma vtrilin_mirror_z x y z v v' nx ny nz xsrc ysrc zsrc i j k' xq yq zq :
  axis z nz -> rev3_z nx ny nz v v' ->
  (0 <= i <= nx - 2)%Z -> (0 <= j <= ny - 2)%Z -> (0 <= k' <= nz - 2)%Z ->
  vtrilin x y (mirror_axis z) v' xsrc ysrc (- zsrc) i j k' xq yq (- zq) =
  vtrilin x y z v xsrc ysrc zsrc i j (nz - 2 - k') xq yq zq.
Proof.
  intros Az [_ Hv] Hi Hj Hk. unfold vtrilin, appvel3. cbv zeta.
  rewrite (mirror_get z nz k' (nz - 2 - k' + 1) Az), (mirror_get z nz (k' + 1) (nz - 2 - k') Az) by lia.
  rewrite !Hv by lia. mirror_idx nz k'. rewrite !dist3d_opp_z. f_equal.
  apply trilin_core_mirror_z.
  pose proof (axis_lt z nz (nz - 2 - k') (nz - 2 - k' + 1) Az ltac:(lia)). lra.
Qed.

Lemma times_ok3_mirror_x x y z v v' nx ny nz xq yq zq :
  axis x nx -> axis y ny -> axis z nz -> rev3_x nx ny nz v v' ->
  get 0 x [0%Z] <= xq <= get 0 x [(nx - 1)%Z] -> get 0 y [0%Z] <= yq <= get 0 y [(ny - 1)%Z] ->
  get 0 z [0%Z] <= zq <= get 0 z [(nz - 1)%Z] -> off_nodes x nx xq ->
  times_ok3 (mirror_axis x) y z v' nx ny nz (- xq) yq zq = times_ok3 x y z v nx ny nz xq yq zq.
Proof.
  intros Ax Ay Az [_ Hv] Hx Hy Hz Off.
  destruct (mirror_off x nx xq Ax Hx Off) as (C & F & F').
  destruct (cell_facts x nx xq Ax (proj1 Hx) (proj2 Hx)) as (Ix & _).
  destruct (cell_facts y ny yq Ay (proj1 Hy) (proj2 Hy)) as (Iy & _).
  destruct (cell_facts z nz zq Az (proj1 Hz) (proj2 Hz)) as (Iz & _).
  unfold times_ok3. cbv zeta. rewrite C, F, F'.
  set (i := cell x nx xq) in *. set (j := cell y ny yq) in *. set (k := cell z nz zq) in *.
  rewrite !Hv by lia. unmirror_idx nx i. nzm_shuffle.
Qed.

Lemma times_ok3_mirror_y x y z v v' nx ny nz xq yq zq :
  axis x nx -> axis y ny -> axis z nz -> rev3_y nx ny nz v v' ->
  get 0 x [0%Z] <= xq <= get 0 x [(nx - 1)%Z] -> get 0 y [0%Z] <= yq <= get 0 y [(ny - 1)%Z] ->
  get 0 z [0%Z] <= zq <= get 0 z [(nz - 1)%Z] -> off_nodes y ny yq ->
  times_ok3 x (mirror_axis y) z v' nx ny nz xq (- yq) zq = times_ok3 x y z v nx ny nz xq yq zq.
Proof.
  intros Ax Ay Az [_ Hv] Hx Hy Hz Off.
  destruct (mirror_off y ny yq Ay Hy Off) as (C & F & F').
  destruct (cell_facts x nx xq Ax (proj1 Hx) (proj2 Hx)) as (Ix & _).
  destruct (cell_facts y ny yq Ay (proj1 Hy) (proj2 Hy)) as (Iy & _).
  destruct (cell_facts z nz zq Az (proj1 Hz) (proj2 Hz)) as (Iz & _).
  unfold times_ok3. cbv zeta. rewrite C, F, F'.
  set (i := cell x nx xq) in *. set (j := cell y ny yq) in *. set (k := cell z nz zq) in *.
  rewrite !Hv by lia. unmirror_idx ny j. nzm_shuffle.
Qed.

Lemma times_ok3_mirror_z x y z v v' nx ny nz xq yq zq :
  axis x nx -> axis y ny -> axis z nz -> rev3_z nx ny nz v v' ->
  get 0 x [0%Z] <= xq <= get 0 x [(nx - 1)%Z] -> get 0 y [0%Z] <= yq <= get 0 y [(ny - 1)%Z] ->
  get 0 z [0%Z] <= zq <= get 0 z [(nz - 1)%Z] -> off_nodes z nz zq ->
  times_ok3 x y (mirror_axis z) v' nx ny nz xq yq (- zq) = times_ok3 x y z v nx ny nz xq yq zq.
Proof.
  intros Ax Ay Az [_ Hv] Hx Hy Hz Off.
  destruct (mirror_off z nz zq Az Hz Off) as (C & F & F').
  destruct (cell_facts x nx xq Ax (proj1 Hx) (proj2 Hx)) as (Ix & _).
  destruct (cell_facts y ny yq Ay (proj1 Hy) (proj2 Hy)) as (Iy & _).
  destruct (cell_facts z nz zq Az (proj1 Hz) (proj2 Hz)) as (Iz & _).
  unfold times_ok3. cbv zeta. rewrite C, F, F'.
  set (i := cell x nx xq) in *. set (j := cell y ny yq) in *. set (k := cell z nz zq) in *.
  rewrite !Hv by lia. unmirror_idx nz k. nzm_shuffle.
Qed.

Section VMirror3.
Variables (x y z v v' : arr R) (nx ny nz : Z) (xq yq zq xsrc ysrc zsrc vzero fval : R).
Hypothesis Ax : axis x nx.
Hypothesis Ay : axis y ny.
Hypothesis Az : axis z nz.
Hypothesis Sv : shape v = [nx; ny; nz].

(* M3, 3-D, first axis *)
Theorem vinterp3d_mirror_x_gen : rev3_x nx ny nz v v' ->
  off_nodes x nx xq -> src_agrees x xq xsrc ->
  u_vinterp3d_v (mirror_axis x) y z v' (- xq) yq zq (- xsrc) ysrc zsrc vzero fval =
  u_vinterp3d_v x y z v xq yq zq xsrc ysrc zsrc vzero fval.
Proof.
  intros Rv Off Ag. unfold src_agrees in Ag. pose proof (axis_mirror x nx Ax) as Am.
  assert (Eh : (inhullb (mirror_axis x) (- xq) && inhullb y yq && inhullb z zq)%bool =
               (inhullb x xq && inhullb y yq && inhullb z zq)%bool)
    by (rewrite (inhullb_mirror x nx xq Ax); reflexivity).
  destruct (inhullb x xq && inhullb y yq && inhullb z zq)%bool eqn:E.
  - pose proof E as E0. apply andb_prop in E0 as [E0 Ez]. apply andb_prop in E0 as [Ex Ey].
    pose proof (inhullb_true x nx xq Ax Ex) as Hx. pose proof (inhullb_true y ny yq Ay Ey) as Hy.
    pose proof (inhullb_true z nz zq Az Ez) as Hz.
    destruct (Z.eq_dec (searchsorted_right x xsrc) (searchsorted_right x xq)) as [Sx|Sx];
    destruct (Z.eq_dec (searchsorted_right y ysrc) (searchsorted_right y yq)) as [Sy|Sy];
    destruct (Z.eq_dec (searchsorted_right z zsrc) (searchsorted_right z zq)) as [Sz|Sz];
    [ rewrite (vinterp3d_source_cell_gen x y z v xq yq zq xsrc ysrc zsrc vzero fval E Sx Sy Sz);
      rewrite (vinterp3d_source_cell_gen (mirror_axis x) y z v' (- xq) yq zq (- xsrc) ysrc zsrc vzero fval Eh
                 (proj1 Ag Sx) Sy Sz);
      rewrite dist3d_opp_x; reflexivity
    | .. ];
    ( rewrite (vinterp3d_char x y z v nx ny nz xq yq zq xsrc ysrc zsrc vzero fval Ax Ay Az Sv Hx Hy Hz) by tauto;
      rewrite (vinterp3d_char (mirror_axis x) y z v' nx ny nz (- xq) yq zq (- xsrc) ysrc zsrc vzero fval
                 Am Ay Az (proj1 Rv) (hull_mirror x nx xq Ax Hx) Hy Hz) by tauto;
      rewrite (times_ok3_mirror_x x y z v v' nx ny nz xq yq zq) by assumption;
      destruct (mirror_off x nx xq Ax Hx Off) as (C & _);
      destruct (cell_facts x nx xq Ax (proj1 Hx) (proj2 Hx)) as (Ix & _);
      destruct (cell_facts y ny yq Ay (proj1 Hy) (proj2 Hy)) as (Iy & _);
      destruct (cell_facts z nz zq Az (proj1 Hz) (proj2 Hz)) as (Iz & _);
      rewrite (vtrilin_mirror_x x y z v v' nx ny nz) by (assumption || (rewrite C; lia));
      rewrite C; replace (nx - 2 - (nx - 2 - cell x nx xq))%Z with (cell x nx xq) by lia;
      rewrite dist3d_opp_x; reflexivity ).
  - rewrite (vinterp3d_outside x y z v xq yq zq xsrc ysrc zsrc vzero fval E).
    apply vinterp3d_outside. exact Eh.
Qed.

(* M3, 3-D, second axis *)
Theorem vinterp3d_mirror_y_gen : rev3_y nx ny nz v v' ->
  off_nodes y ny yq -> src_agrees y yq ysrc ->
  u_vinterp3d_v x (mirror_axis y) z v' xq (- yq) zq xsrc (- ysrc) zsrc vzero fval =
  u_vinterp3d_v x y z v xq yq zq xsrc ysrc zsrc vzero fval.
Proof.
  intros Rv Off Ag. unfold src_agrees in Ag. pose proof (axis_mirror y ny Ay) as Am.
  assert (Eh : (inhullb x xq && inhullb (mirror_axis y) (- yq) && inhullb z zq)%bool =
               (inhullb x xq && inhullb y yq && inhullb z zq)%bool)
    by (rewrite (inhullb_mirror y ny yq Ay); reflexivity).
  destruct (inhullb x xq && inhullb y yq && inhullb z zq)%bool eqn:E.
  - pose proof E as E0. apply andb_prop in E0 as [E0 Ez]. apply andb_prop in E0 as [Ex Ey].
    pose proof (inhullb_true x nx xq Ax Ex) as Hx. pose proof (inhullb_true y ny yq Ay Ey) as Hy.
    pose proof (inhullb_true z nz zq Az Ez) as Hz.
    destruct (Z.eq_dec (searchsorted_right x xsrc) (searchsorted_right x xq)) as [Sx|Sx];
    destruct (Z.eq_dec (searchsorted_right y ysrc) (searchsorted_right y yq)) as [Sy|Sy];
    destruct (Z.eq_dec (searchsorted_right z zsrc) (searchsorted_right z zq)) as [Sz|Sz];
    [ rewrite (vinterp3d_source_cell_gen x y z v xq yq zq xsrc ysrc zsrc vzero fval E Sx Sy Sz);
      rewrite (vinterp3d_source_cell_gen x (mirror_axis y) z v' xq (- yq) zq xsrc (- ysrc) zsrc vzero fval Eh
                 Sx (proj1 Ag Sy) Sz);
      rewrite dist3d_opp_y; reflexivity
    | .. ];
    ( rewrite (vinterp3d_char x y z v nx ny nz xq yq zq xsrc ysrc zsrc vzero fval Ax Ay Az Sv Hx Hy Hz) by tauto;
      rewrite (vinterp3d_char x (mirror_axis y) z v' nx ny nz xq (- yq) zq xsrc (- ysrc) zsrc vzero fval
                 Ax Am Az (proj1 Rv) Hx (hull_mirror y ny yq Ay Hy) Hz) by tauto;
      rewrite (times_ok3_mirror_y x y z v v' nx ny nz xq yq zq) by assumption;
      destruct (mirror_off y ny yq Ay Hy Off) as (C & _);
      destruct (cell_facts x nx xq Ax (proj1 Hx) (proj2 Hx)) as (Ix & _);
      destruct (cell_facts y ny yq Ay (proj1 Hy) (proj2 Hy)) as (Iy & _);
      destruct (cell_facts z nz zq Az (proj1 Hz) (proj2 Hz)) as (Iz & _);
      rewrite (vtrilin_mirror_y x y z v v' nx ny nz) by (assumption || (rewrite C; lia));
      rewrite C; replace (ny - 2 - (ny - 2 - cell y ny yq))%Z with (cell y ny yq) by lia;
      rewrite dist3d_opp_y; reflexivity ).
  - rewrite (vinterp3d_outside x y z v xq yq zq xsrc ysrc zsrc vzero fval E).
    apply vinterp3d_outside. exact Eh.
Qed.

(* M3, 3-D, third axis *)
Theorem vinterp3d_mirror_z_gen : rev3_z nx ny nz v v' ->
  off_nodes z nz zq -> src_agrees z zq zsrc ->
  u_vinterp3d_v x y (mirror_axis z) v' xq yq (- zq) xsrc ysrc (- zsrc) vzero fval =
  u_vinterp3d_v x y z v xq yq zq xsrc ysrc zsrc vzero fval.
Proof.
  intros Rv Off Ag. unfold src_agrees in Ag. pose proof (axis_mirror z nz Az) as Am.
  assert (Eh : (inhullb x xq && inhullb y yq && inhullb (mirror_axis z) (- zq))%bool =
               (inhullb x xq && inhullb y yq && inhullb z zq)%bool)
    by (rewrite (inhullb_mirror z nz zq Az); reflexivity).
  destruct (inhullb x xq && inhullb y yq && inhullb z zq)%bool eqn:E.
  - pose proof E as E0. apply andb_prop in E0 as [E0 Ez]. apply andb_prop in E0 as [Ex Ey].
    pose proof (inhullb_true x nx xq Ax Ex) as Hx. pose proof (inhullb_true y ny yq Ay Ey) as Hy.
    pose proof (inhullb_true z nz zq Az Ez) as Hz.
    destruct (Z.eq_dec (searchsorted_right x xsrc) (searchsorted_right x xq)) as [Sx|Sx];
    destruct (Z.eq_dec (searchsorted_right y ysrc) (searchsorted_right y yq)) as [Sy|Sy];
    destruct (Z.eq_dec (searchsorted_right z zsrc) (searchsorted_right z zq)) as [Sz|Sz];
    [ rewrite (vinterp3d_source_cell_gen x y z v xq yq zq xsrc ysrc zsrc vzero fval E Sx Sy Sz);
      rewrite (vinterp3d_source_cell_gen x y (mirror_axis z) v' xq yq (- zq) xsrc ysrc (- zsrc) vzero fval Eh
                 Sx Sy (proj1 Ag Sz));
      rewrite dist3d_opp_z; reflexivity
    | .. ];
    ( rewrite (vinterp3d_char x y z v nx ny nz xq yq zq xsrc ysrc zsrc vzero fval Ax Ay Az Sv Hx Hy Hz) by tauto;
      rewrite (vinterp3d_char x y (mirror_axis z) v' nx ny nz xq yq (- zq) xsrc ysrc (- zsrc) vzero fval
                 Ax Ay Am (proj1 Rv) Hx Hy (hull_mirror z nz zq Az Hz)) by tauto;
      rewrite (times_ok3_mirror_z x y z v v' nx ny nz xq yq zq) by assumption;
      destruct (mirror_off z nz zq Az Hz Off) as (C & _);
      destruct (cell_facts x nx xq Ax (proj1 Hx) (proj2 Hx)) as (Ix & _);
      destruct (cell_facts y ny yq Ay (proj1 Hy) (proj2 Hy)) as (Iy & _);
      destruct (cell_facts z nz zq Az (proj1 Hz) (proj2 Hz)) as (Iz & _);
      rewrite (vtrilin_mirror_z x y z v v' nx ny nz) by (assumption || (rewrite C; lia));
      rewrite C; replace (nz - 2 - (nz - 2 - cell z nz zq))%Z with (cell z nz zq) by lia;
      rewrite dist3d_opp_z; reflexivity ).
  - rewrite (vinterp3d_outside x y z v xq yq zq xsrc ysrc zsrc vzero fval E).
    apply vinterp3d_outside. exact Eh.
Qed.

End VMirror3.

Section VMirror3Concrete.
Variables (x y z v : arr R) (nx ny nz : Z) (xq yq zq xsrc ysrc zsrc vzero fval : R).
Hypothesis Ax : axis x nx.
Hypothesis Ay : axis y ny.
Hypothesis Az : axis z nz.
Hypothesis Sv : shape v = [nx; ny; nz].

Theorem vinterp3d_mirror_x_off_nodes : off_nodes x nx xq -> off_nodes x nx xsrc ->
  u_vinterp3d_v (mirror_axis x) y z (reverse3_x v) (- xq) yq zq (- xsrc) ysrc zsrc vzero fval =
  u_vinterp3d_v x y z v xq yq zq xsrc ysrc zsrc vzero fval.
Proof.
  intros Oq Os. pose proof (axis_n _ _ Ax). pose proof (axis_n _ _ Ay). pose proof (axis_n _ _ Az).
  apply (vinterp3d_mirror_x_gen x y z v _ nx ny nz); auto.
  - apply reverse3_x_spec; auto; lia.
  - apply (src_agrees_off x nx); assumption.
Qed.

Theorem vinterp3d_mirror_y_off_nodes : off_nodes y ny yq -> off_nodes y ny ysrc ->
  u_vinterp3d_v x (mirror_axis y) z (reverse3_y v) xq (- yq) zq xsrc (- ysrc) zsrc vzero fval =
  u_vinterp3d_v x y z v xq yq zq xsrc ysrc zsrc vzero fval.
Proof.
  intros Oq Os. pose proof (axis_n _ _ Ax). pose proof (axis_n _ _ Ay). pose proof (axis_n _ _ Az).
  apply (vinterp3d_mirror_y_gen x y z v _ nx ny nz); auto.
  - apply reverse3_y_spec; auto; lia.
  - apply (src_agrees_off y ny); assumption.
Qed.

Theorem vinterp3d_mirror_z_off_nodes : off_nodes z nz zq -> off_nodes z nz zsrc ->
  u_vinterp3d_v x y (mirror_axis z) (reverse3_z v) xq yq (- zq) xsrc ysrc (- zsrc) vzero fval =
  u_vinterp3d_v x y z v xq yq zq xsrc ysrc zsrc vzero fval.
Proof.
  intros Oq Os. pose proof (axis_n _ _ Ax). pose proof (axis_n _ _ Ay). pose proof (axis_n _ _ Az).
  apply (vinterp3d_mirror_z_gen x y z v _ nx ny nz); auto.
  - apply reverse3_z_spec; auto; lia.
  - apply (src_agrees_off z nz); assumption.
Qed.

End VMirror3Concrete.

(* ================================================================== *)
(* 7. the hypotheses are satisfiable; the unrestricted statements fail   *)
(* ================================================================== *)
Lemma axis3 (a b c : R) : a < b -> b < c -> axis (mkarr [3%Z] [a; b; c]) 3.
Proof.
  intros Hab Hbc. repeat split; try reflexivity; try lia.
  intros i j Hij.
  assert (C : ((i = 0 /\ j = 1) \/ (i = 0 /\ j = 2) \/ (i = 1 /\ j = 2))%Z) by lia.
  destruct C as [[-> ->] | [[-> ->] | [-> ->]]]; unfold get; simpl; lra.
Qed.

(* nodes 0, 1, 2 on the mirrored axis; 0, 1 on the others *)
Definition xw : arr R := mkarr [3%Z] [0; 1; 2].
Definition yw : arr R := mkarr [2%Z] [0; 1].
Lemma axis_xw : axis xw 3. Proof. apply axis3; lra. Qed.
Lemma axis_yw : axis yw 2. Proof. apply axis2; lra. Qed.

Lemma xw_nodes k : (0 <= k < 3)%Z -> get 0 xw [k] = 0 \/ get 0 xw [k] = 1 \/ get 0 xw [k] = 2.
Proof.
  intros Hk. assert (C : (k = 0 \/ k = 1 \/ k = 2)%Z) by lia.
  destruct C as [-> | [-> | ->]]; [left | right; left | right; right]; reflexivity.
Qed.
Lemma yw_nodes k : (0 <= k < 2)%Z -> get 0 yw [k] = 0 \/ get 0 yw [k] = 1.
Proof.
  intros Hk. assert (C : (k = 0 \/ k = 1)%Z) by lia.
  destruct C as [-> | ->]; [left | right]; reflexivity.
Qed.
Lemma off_xw q : q <> 0 -> q <> 1 -> q <> 2 -> off_nodes xw 3 q.
Proof. intros H0 H1 H2 k Hk. destruct (xw_nodes k Hk) as [E | [E | E]]; rewrite E; auto. Qed.

(* the hypotheses of the restricted theorems hold for an in-hull query and source *)
Example off_nodes_example :
  get 0 xw [0%Z] <= 1 / 2 <= get 0 xw [(3 - 1)%Z] /\ off_nodes xw 3 (1 / 2) /\ off_nodes xw 3 (3 / 2) /\
  src_agrees xw (1 / 2) (3 / 2).
Proof.
  assert (O1 : off_nodes xw 3 (1 / 2)) by (apply off_xw; lra).
  assert (O2 : off_nodes xw 3 (3 / 2)) by (apply off_xw; lra).
  repeat split; try assumption; try (unfold get; simpl; lra);
  apply (src_agrees_off xw 3 _ _ axis_xw O1 O2).
Qed.

(* searchsorted on the witness axes *)
Lemma ssr_xw_half : searchsorted_right xw (1 / 2) = 1%Z.
Proof.
  pose proof (ssrR_cell xw 3 (1 / 2) 0 axis_xw ltac:(lia)) as C.
  assert (H : get 0 xw [0%Z] <= 1 / 2 < get 0 xw [(0 + 1)%Z]) by (unfold get; simpl; lra).
  specialize (C H). lia.
Qed.
Lemma ssr_xw_3half : searchsorted_right xw (3 / 2) = 2%Z.
Proof.
  pose proof (ssrR_cell xw 3 (3 / 2) 1 axis_xw ltac:(lia)) as C.
  assert (H : get 0 xw [1%Z] <= 3 / 2 < get 0 xw [(1 + 1)%Z]) by (unfold get; simpl; lra).
  specialize (C H). lia.
Qed.
Lemma ssr_xw_1 : searchsorted_right xw 1 = 2%Z.
Proof. exact (ssrR_node xw 3 1 axis_xw ltac:(lia)). Qed.
Lemma ssr_xw_2 : searchsorted_right xw 2 = 3%Z.
Proof. exact (ssrR_node xw 3 2 axis_xw ltac:(lia)). Qed.
Lemma ssr_yw_half : searchsorted_right yw (1 / 2) = 1%Z.
Proof.
  pose proof (ssrR_cell yw 2 (1 / 2) 0 axis_yw ltac:(lia)) as C.
  assert (H : get 0 yw [0%Z] <= 1 / 2 < get 0 yw [(0 + 1)%Z]) by (unfold get; simpl; lra).
  specialize (C H). lia.
Qed.
Lemma ssr_yw_0 : searchsorted_right yw 0 = 1%Z.
Proof. exact (ssrR_node yw 2 0 axis_yw ltac:(lia)). Qed.
(* ... and on the mirrored witness axis *)
Lemma ssr_xw'_half : searchsorted_right (mirror_axis xw) (- (1 / 2)) = 2%Z.
Proof. rewrite (ssr_mirror_off xw 3 (1 / 2) axis_xw) by (apply off_xw; lra). rewrite ssr_xw_half. reflexivity. Qed.
Lemma ssr_xw'_3half : searchsorted_right (mirror_axis xw) (- (3 / 2)) = 1%Z.
Proof. rewrite (ssr_mirror_off xw 3 (3 / 2) axis_xw) by (apply off_xw; lra). rewrite ssr_xw_3half. reflexivity. Qed.
Lemma ssr_xw'_1 : searchsorted_right (mirror_axis xw) (- (1)) = 2%Z.
Proof. exact (ssr_mirror_node xw 3 1 axis_xw ltac:(lia)). Qed.
Lemma ssr_xw'_2 : searchsorted_right (mirror_axis xw) (- (2)) = 1%Z.
Proof. exact (ssr_mirror_node xw 3 2 axis_xw ltac:(lia)). Qed.

Lemma hull_xw q : 0 <= q <= 2 -> get 0 xw [0%Z] <= q <= get 0 xw [(3 - 1)%Z].
Proof. intros H. unfold get; simpl; lra. Qed.
Lemma hull_yw q : 0 <= q <= 1 -> get 0 yw [0%Z] <= q <= get 0 yw [(2 - 1)%Z].
Proof. intros H. unfold get; simpl; lra. Qed.

(* ---- 7a. the query ON an interior node line of the mirrored axis, the source off the node lines.
   All times 1, vzero = 0.  Query (1, 0), source (3/2, 1/2).
   Original frame: the query has the searchsorted indices of the source -> vzero * distance = 0.
   Mirrored frame: the query (-1, 0) falls in the cell LEFT of the node line, the source (-3/2, 1/2)
   too ... but searchsorted(side="right") puts the query in the cell to the right of its node line:
   not the source's cell -> the node value 1. *)
Definition vw1 : arr R := mkarr [3%Z; 2%Z] [1; 1; 1; 1; 1; 1].
Lemma vw1_get k l : (0 <= k < 3)%Z -> (0 <= l < 2)%Z -> get 0 vw1 [k; l] = 1.
Proof.
  intros Hk Hl. assert (Ck : (k = 0 \/ k = 1 \/ k = 2)%Z) by lia. assert (Cl : (l = 0 \/ l = 1)%Z) by lia.
  destruct Ck as [-> | [-> | ->]]; destruct Cl as [-> | ->]; reflexivity.
Qed.

Theorem vinterp2d_mirror_x_refuted_query_on_node :
  off_nodes xw 3 (3 / 2) /\
  u_vinterp2d_v xw yw vw1 1 0 (3 / 2) (1 / 2) 0 0 = 0 /\
  u_vinterp2d_v (mirror_axis xw) yw (reverse_rows vw1) (- (1)) 0 (- (3 / 2)) (1 / 2) 0 0 = 1.
Proof.
  pose proof axis_xw as Ax. pose proof axis_yw as Ay. pose proof (axis_mirror xw 3 Ax) as Ax'.
  assert (Sv : shape vw1 = [3; 2]%Z) by reflexivity.
  destruct (reverse_rows_spec vw1 3 2 ltac:(lia) ltac:(lia) Sv) as (_ & Sv' & Gv').
  split; [apply off_xw; lra|]. split.
  - rewrite (vinterp2d_source_cell xw yw vw1 3 2 Ax Ay 1 0 (3 / 2) (1 / 2) 0 0
               (hull_xw 1 ltac:(lra)) (hull_yw 0 ltac:(lra))); [ring|].
    rewrite ssr_xw_3half, ssr_xw_1, ssr_yw_half, ssr_yw_0. split; reflexivity.
  - pose proof (vinterp2d_node (mirror_axis xw) yw (reverse_rows vw1) 3 2 Ax' Ay Sv' 1 0
                  (- (3 / 2)) (1 / 2) 0 0 ltac:(lia) ltac:(lia)) as Hn.
    cbv zeta in Hn. rewrite (mirror_get xw 3 1 1 Ax) in Hn by lia.
    change (get 0 xw [1%Z]) with 1 in Hn. change (get 0 yw [0%Z]) with 0 in Hn.
    rewrite Hn.
    + rewrite Gv' by lia. apply vw1_get; lia.
    + rewrite ssr_xw'_3half, ssr_xw'_1. intros [Ea _]. discriminate Ea.
    + intros k' l' Uk Ul.
      destruct (hull_mirror xw 3 1 Ax (hull_xw 1 ltac:(lra))) as [M0 M1].
      apply (used_range (mirror_axis xw) 3 (- (1)) Ax' M0 M1) in Uk.
      destruct (hull_yw 0 ltac:(lra)) as [Y0 Y1].
      apply (used_range yw 2 0 Ay Y0 Y1) in Ul.
      rewrite Gv' by lia. rewrite vw1_get by lia. lra.
Qed.

Corollary vinterp2d_mirror_x_refuted :
  exists (x y v : arr R) (nx ny : Z) (xq yq xsrc ysrc vzero fval : R),
    axis x nx /\ axis y ny /\ shape v = [nx; ny] /\ wf v /\
    u_vinterp2d_v (mirror_axis x) y (reverse_rows v) (- xq) yq (- xsrc) ysrc vzero fval <>
    u_vinterp2d_v x y v xq yq xsrc ysrc vzero fval.
Proof.
  exists xw, yw, vw1, 3%Z, 2%Z, 1, 0, (3 / 2), (1 / 2), 0, 0.
  destruct vinterp2d_mirror_x_refuted_query_on_node as (_ & E1 & E2).
  split; [apply axis_xw|]. split; [apply axis_yw|]. split; [reflexivity|].
  split; [split; [reflexivity | repeat constructor; lia]|].
  rewrite E1, E2. lra.
Qed.

(* ---- 7b. the SOURCE on a node line of the mirrored axis, the query off the node lines.
   Times = distance to the source (homogeneous medium, slowness 1), vzero = 0.
   Source (1, 1/2), query (3/2, 1/2).
   Original frame: the source belongs to the cell on its right, where the query is -> 0.
   Mirrored frame: the source (-1, 1/2) again belongs to the cell on its right, the query (-3/2, 1/2)
   is on its left -> interpolation, exact in a homogeneous medium: the distance 1/2. *)
Definition vw2 : arr R := tab2 3 2 (fun i j => dist2d 1 (1 / 2) (get 0 xw [i]) (get 0 yw [j])).

Theorem vinterp2d_mirror_x_refuted_source_on_node :
  off_nodes xw 3 (3 / 2) /\
  u_vinterp2d_v xw yw vw2 (3 / 2) (1 / 2) 1 (1 / 2) 0 0 = 0 /\
  u_vinterp2d_v (mirror_axis xw) yw (reverse_rows vw2) (- (3 / 2)) (1 / 2) (- (1)) (1 / 2) 0 0 = 1 / 2.
Proof.
  pose proof axis_xw as Ax. pose proof axis_yw as Ay. pose proof (axis_mirror xw 3 Ax) as Ax'.
  assert (Sv : shape vw2 = [3; 2]%Z) by reflexivity.
  destruct (reverse_rows_spec vw2 3 2 ltac:(lia) ltac:(lia) Sv) as (_ & Sv' & Gv').
  split; [apply off_xw; lra|]. split.
  - rewrite (vinterp2d_source_cell xw yw vw2 3 2 Ax Ay (3 / 2) (1 / 2) 1 (1 / 2) 0 0
               (hull_xw (3 / 2) ltac:(lra)) (hull_yw (1 / 2) ltac:(lra))); [ring|].
    rewrite ssr_xw_3half, ssr_xw_1. split; reflexivity.
  - destruct (hull_mirror xw 3 (3 / 2) Ax (hull_xw (3 / 2) ltac:(lra))) as [M0 M1].
    destruct (hull_yw (1 / 2) ltac:(lra)) as [Y0 Y1].
    rewrite (vinterp2d_homogeneous_exact (mirror_axis xw) yw (reverse_rows vw2) 3 2 Ax' Ay Sv'
               (- (3 / 2)) (1 / 2) (- (1)) (1 / 2) 0 0 (conj M0 M1) (conj Y0 Y1) 1).
    + rewrite (sqrt_of_square _ (1 / 2)); [lra | lra | field].
    + rewrite ssr_xw'_3half, ssr_xw'_1. intros [Ea _]. discriminate Ea.
    + lra.
    + intros k l Uk Ul.
      apply (used_range (mirror_axis xw) 3 (- (3 / 2)) Ax' M0 M1) in Uk.
      apply (used_range yw 2 (1 / 2) Ay Y0 Y1) in Ul.
      rewrite Gv' by lia. unfold vw2. rewrite get_tab2 by lia.
      rewrite (mirror_get xw 3 k (3 - 1 - k) Ax) by lia.
      rewrite !dist2d_opp_x.
      split; [|ring].
      pose proof (dist2d_nonneg 1 (1 / 2) (get 0 xw [(3 - 1 - k)%Z]) (get 0 yw [l])) as P.
      destruct (Req_dec (dist2d 1 (1 / 2) (get 0 xw [(3 - 1 - k)%Z]) (get 0 yw [l])) 0) as [Z0|NZ]; [|lra].
      apply dist2d_zero in Z0 as [_ Z0]. destruct (yw_nodes l Ul) as [E | E]; rewrite E in Z0; lra.
Qed.

(* ---- 7c. the query on the FAR face of the mirrored axis, a zero time on the neighbouring node line,
   the source far away (never the source's cell).  Times 1 except v[1,0] = 0, vzero = 0.
   Query (2, 0), source (1/2, 1/2).
   Original frame: far-face branch, only the nodes of the face are read -> the node value 1.
   Mirrored frame: the query (-2, 0) is on the NEAR face, the kernel reads the whole cell, finds the
   zero time -> vzero * distance = 0. *)
Definition vw3 : arr R := mkarr [3%Z; 2%Z] [1; 1; 0; 1; 1; 1].

Theorem vinterp2d_mirror_x_refuted_far_face_zero_time :
  off_nodes xw 3 (1 / 2) /\
  u_vinterp2d_v xw yw vw3 2 0 (1 / 2) (1 / 2) 0 0 = 1 /\
  u_vinterp2d_v (mirror_axis xw) yw (reverse_rows vw3) (- (2)) 0 (- (1 / 2)) (1 / 2) 0 0 = 0.
Proof.
  pose proof axis_xw as Ax. pose proof axis_yw as Ay. pose proof (axis_mirror xw 3 Ax) as Ax'.
  assert (Sv : shape vw3 = [3; 2]%Z) by reflexivity.
  destruct (reverse_rows_spec vw3 3 2 ltac:(lia) ltac:(lia) Sv) as (_ & Sv' & Gv').
  split; [apply off_xw; lra|]. split.
  - pose proof (vinterp2d_node xw yw vw3 3 2 Ax Ay Sv 2 0 (1 / 2) (1 / 2) 0 0 ltac:(lia) ltac:(lia)) as Hn.
    cbv zeta in Hn.
    assert (Uk : forall k', used xw 3 (get 0 xw [2%Z]) k' -> k' = 2%Z).
    { intros k' U. unfold used, far in U.
      rewrite (cell_node xw 3 2 Ax ltac:(lia)), (ssrR_node xw 3 2 Ax ltac:(lia)) in U.
      destruct U as [-> | [_ F]]; [reflexivity | discriminate F]. }
    change (get 0 yw [0%Z]) with 0 in Hn.
    assert (Hn' := fun NS NZ => Hn NS NZ). clear Hn.
    change (get 0 xw [2%Z]) with 2 in Hn' at 2 3. 
    rewrite Hn'; [reflexivity | |].
    + change (get 0 xw [2%Z]) with 2. rewrite ssr_xw_half, ssr_xw_2. intros [Ea _]. discriminate Ea.
    + intros k' l' U Ul. apply Uk in U. subst k'.
      destruct (hull_yw 0 ltac:(lra)) as [Y0 Y1]. apply (used_range yw 2 0 Ay Y0 Y1) in Ul.
      assert (Cl : (l' = 0 \/ l' = 1)%Z) by lia. destruct Cl as [-> | ->]; unfold get; simpl; lra.
  - destruct (hull_mirror xw 3 2 Ax (hull_xw 2 ltac:(lra))) as [M0 M1].
    destruct (hull_yw 0 ltac:(lra)) as [Y0 Y1].
    rewrite (vinterp2d_zero_corner (mirror_axis xw) yw (reverse_rows vw3) 3 2 Ax' Ay Sv'
               (- (2)) 0 (- (1 / 2)) (1 / 2) 0 0 (conj M0 M1) (conj Y0 Y1)); [ring | |].
    + rewrite ssr_xw'_half, ssr_xw'_2. intros [Ea _]. discriminate Ea.
    + exists 1%Z, 0%Z. split; [|split].
      * left. unfold cell. rewrite ssr_xw'_2. reflexivity.
      * exact (used_node yw 2 0 Ay ltac:(lia)).
      * rewrite Gv' by lia. reflexivity.
Qed.

(* ---- 7d. the same mechanism as 7a for the second axis and for the three axes of _vinterp3d:
   all times 1, vzero = 0, the mirrored axis has nodes 0 1 2 and the others 0 1; the query is the node
   with coordinate 1 on the mirrored axis and 0 on the others, the source has coordinate 3/2 on the
   mirrored axis and 1/2 on the others.  Original frame: source's cell -> 0.  Mirrored frame: 1. *)
Definition ones2 (a b : Z) : arr R := full [a; b] 1.
Definition ones3 (a b c : Z) : arr R := full [a; b; c] 1.
Lemma ones2_get a b i j : (0 <= i < a)%Z -> (0 <= j < b)%Z -> get 0 (ones2 a b) [i; j] = 1.
Proof.
  intros Hi Hj. apply get_full. cbn [inb_sh].
  repeat (apply andb_true_intro; split); try apply Z.leb_le; try apply Z.ltb_lt; try lia; reflexivity.
Qed.
Lemma ones3_get a b c i j k : (0 <= i < a)%Z -> (0 <= j < b)%Z -> (0 <= k < c)%Z ->
  get 0 (ones3 a b c) [i; j; k] = 1.
Proof.
  intros Hi Hj Hk. apply get_full. cbn [inb_sh].
  repeat (apply andb_true_intro; split); try apply Z.leb_le; try apply Z.ltb_lt; try lia; reflexivity.
Qed.

Theorem vinterp2d_mirror_y_refuted_query_on_node :
  off_nodes xw 3 (3 / 2) /\
  u_vinterp2d_v yw xw (ones2 2 3) 0 1 (1 / 2) (3 / 2) 0 0 = 0 /\
  u_vinterp2d_v yw (mirror_axis xw) (reverse_cols (ones2 2 3)) 0 (- (1)) (1 / 2) (- (3 / 2)) 0 0 = 1.
Proof.
  pose proof axis_xw as Ax. pose proof axis_yw as Ay. pose proof (axis_mirror xw 3 Ax) as Ax'.
  assert (Sv : shape (ones2 2 3) = [2; 3]%Z) by reflexivity.
  destruct (reverse_cols_spec (ones2 2 3) 2 3 ltac:(lia) ltac:(lia) Sv) as (_ & Sv' & Gv').
  split; [apply off_xw; lra|]. split.
  - rewrite (vinterp2d_source_cell yw xw (ones2 2 3) 2 3 Ay Ax 0 1 (1 / 2) (3 / 2) 0 0
               (hull_yw 0 ltac:(lra)) (hull_xw 1 ltac:(lra))); [ring|].
    rewrite ssr_xw_3half, ssr_xw_1, ssr_yw_half, ssr_yw_0. split; reflexivity.
  - pose proof (vinterp2d_node yw (mirror_axis xw) (reverse_cols (ones2 2 3)) 2 3 Ay Ax' Sv' 0 1
                  (1 / 2) (- (3 / 2)) 0 0 ltac:(lia) ltac:(lia)) as Hn.
    cbv zeta in Hn. rewrite (mirror_get xw 3 1 1 Ax) in Hn by lia.
    change (get 0 xw [1%Z]) with 1 in Hn. change (get 0 yw [0%Z]) with 0 in Hn.
    rewrite Hn.
    + rewrite Gv' by lia. apply ones2_get; lia.
    + rewrite ssr_xw'_3half, ssr_xw'_1. intros [_ Ea]. discriminate Ea.
    + intros k' l' Uk Ul.
      destruct (hull_mirror xw 3 1 Ax (hull_xw 1 ltac:(lra))) as [M0 M1].
      destruct (hull_yw 0 ltac:(lra)) as [Y0 Y1].
      apply (used_range yw 2 0 Ay Y0 Y1) in Uk.
      apply (used_range (mirror_axis xw) 3 (- (1)) Ax' M0 M1) in Ul.
      rewrite Gv' by lia. rewrite ones2_get by lia. lra.
Qed.

Theorem vinterp3d_mirror_x_refuted_query_on_node :
  off_nodes xw 3 (3 / 2) /\
  u_vinterp3d_v xw yw yw (ones3 3 2 2) 1 0 0 (3 / 2) (1 / 2) (1 / 2) 0 0 = 0 /\
  u_vinterp3d_v (mirror_axis xw) yw yw (reverse3_x (ones3 3 2 2)) (- (1)) 0 0 (- (3 / 2)) (1 / 2) (1 / 2) 0 0 = 1.
Proof.
  pose proof axis_xw as Ax. pose proof axis_yw as Ay. pose proof (axis_mirror xw 3 Ax) as Ax'.
  assert (Sv : shape (ones3 3 2 2) = [3; 2; 2]%Z) by reflexivity.
  destruct (reverse3_x_spec (ones3 3 2 2) 3 2 2 ltac:(lia) ltac:(lia) ltac:(lia) Sv) as (_ & Sv' & Gv').
  split; [apply off_xw; lra|]. split.
  - rewrite (vinterp3d_source_cell xw yw yw (ones3 3 2 2) 3 2 2 Ax Ay Ay
               1 0 0 (3 / 2) (1 / 2) (1 / 2) 0 0 (hull_xw 1 ltac:(lra)) (hull_yw 0 ltac:(lra)) (hull_yw 0 ltac:(lra))); [ring|].
    rewrite ssr_xw_3half, ssr_xw_1, ssr_yw_half, ssr_yw_0. repeat split; reflexivity.
  - pose proof (vinterp3d_node (mirror_axis xw) yw yw (reverse3_x (ones3 3 2 2)) 3 2 2 Ax' Ay Ay Sv'
                  1 0 0 (- (3 / 2)) (1 / 2) (1 / 2) 0 0 ltac:(lia) ltac:(lia) ltac:(lia)) as Hn.
    cbv zeta in Hn. rewrite (mirror_get xw 3 1 1 Ax) in Hn by lia.
    change (get 0 xw [1%Z]) with 1 in Hn. change (get 0 yw [0%Z]) with 0 in Hn.
    rewrite Hn.
    + rewrite Gv' by lia. apply ones3_get; lia.
    + rewrite ssr_xw'_3half, ssr_xw'_1. intros [Ea _]. discriminate Ea.
    + intros k' l' m' Uk Ul Um.
      destruct (hull_mirror xw 3 1 Ax (hull_xw 1 ltac:(lra))) as [M0 M1].
      destruct (hull_yw 0 ltac:(lra)) as [Y0 Y1].
      apply (used_range (mirror_axis xw) 3 (- (1)) Ax' M0 M1) in Uk.
      apply (used_range yw 2 0 Ay Y0 Y1) in Ul.
      apply (used_range yw 2 0 Ay Y0 Y1) in Um.
      rewrite Gv' by lia. rewrite ones3_get by lia. lra.
Qed.

Theorem vinterp3d_mirror_y_refuted_query_on_node :
  off_nodes xw 3 (3 / 2) /\
  u_vinterp3d_v yw xw yw (ones3 2 3 2) 0 1 0 (1 / 2) (3 / 2) (1 / 2) 0 0 = 0 /\
  u_vinterp3d_v yw (mirror_axis xw) yw (reverse3_y (ones3 2 3 2)) 0 (- (1)) 0 (1 / 2) (- (3 / 2)) (1 / 2) 0 0 = 1.
Proof.
  pose proof axis_xw as Ax. pose proof axis_yw as Ay. pose proof (axis_mirror xw 3 Ax) as Ax'.
  assert (Sv : shape (ones3 2 3 2) = [2; 3; 2]%Z) by reflexivity.
  destruct (reverse3_y_spec (ones3 2 3 2) 2 3 2 ltac:(lia) ltac:(lia) ltac:(lia) Sv) as (_ & Sv' & Gv').
  split; [apply off_xw; lra|]. split.
  - rewrite (vinterp3d_source_cell yw xw yw (ones3 2 3 2) 2 3 2 Ay Ax Ay
               0 1 0 (1 / 2) (3 / 2) (1 / 2) 0 0 (hull_yw 0 ltac:(lra)) (hull_xw 1 ltac:(lra)) (hull_yw 0 ltac:(lra))); [ring|].
    rewrite ssr_xw_3half, ssr_xw_1, ssr_yw_half, ssr_yw_0. repeat split; reflexivity.
  - pose proof (vinterp3d_node yw (mirror_axis xw) yw (reverse3_y (ones3 2 3 2)) 2 3 2 Ay Ax' Ay Sv'
                  0 1 0 (1 / 2) (- (3 / 2)) (1 / 2) 0 0 ltac:(lia) ltac:(lia) ltac:(lia)) as Hn.
    cbv zeta in Hn. rewrite (mirror_get xw 3 1 1 Ax) in Hn by lia.
    change (get 0 xw [1%Z]) with 1 in Hn. change (get 0 yw [0%Z]) with 0 in Hn.
    rewrite Hn.
    + rewrite Gv' by lia. apply ones3_get; lia.
    + rewrite ssr_xw'_3half, ssr_xw'_1. intros (_ & Ea & _). discriminate Ea.
    + intros k' l' m' Uk Ul Um.
      destruct (hull_mirror xw 3 1 Ax (hull_xw 1 ltac:(lra))) as [M0 M1].
      destruct (hull_yw 0 ltac:(lra)) as [Y0 Y1].
      apply (used_range yw 2 0 Ay Y0 Y1) in Uk.
      apply (used_range (mirror_axis xw) 3 (- (1)) Ax' M0 M1) in Ul.
      apply (used_range yw 2 0 Ay Y0 Y1) in Um.
      rewrite Gv' by lia. rewrite ones3_get by lia. lra.
Qed.

Theorem vinterp3d_mirror_z_refuted_query_on_node :
  off_nodes xw 3 (3 / 2) /\
  u_vinterp3d_v yw yw xw (ones3 2 2 3) 0 0 1 (1 / 2) (1 / 2) (3 / 2) 0 0 = 0 /\
  u_vinterp3d_v yw yw (mirror_axis xw) (reverse3_z (ones3 2 2 3)) 0 0 (- (1)) (1 / 2) (1 / 2) (- (3 / 2)) 0 0 = 1.
Proof.
  pose proof axis_xw as Ax. pose proof axis_yw as Ay. pose proof (axis_mirror xw 3 Ax) as Ax'.
  assert (Sv : shape (ones3 2 2 3) = [2; 2; 3]%Z) by reflexivity.
  destruct (reverse3_z_spec (ones3 2 2 3) 2 2 3 ltac:(lia) ltac:(lia) ltac:(lia) Sv) as (_ & Sv' & Gv').
  split; [apply off_xw; lra|]. split.
  - rewrite (vinterp3d_source_cell yw yw xw (ones3 2 2 3) 2 2 3 Ay Ay Ax
               0 0 1 (1 / 2) (1 / 2) (3 / 2) 0 0 (hull_yw 0 ltac:(lra)) (hull_yw 0 ltac:(lra)) (hull_xw 1 ltac:(lra))); [ring|].
    rewrite ssr_xw_3half, ssr_xw_1, ssr_yw_half, ssr_yw_0. repeat split; reflexivity.
  - pose proof (vinterp3d_node yw yw (mirror_axis xw) (reverse3_z (ones3 2 2 3)) 2 2 3 Ay Ay Ax' Sv'
                  0 0 1 (1 / 2) (1 / 2) (- (3 / 2)) 0 0 ltac:(lia) ltac:(lia) ltac:(lia)) as Hn.
    cbv zeta in Hn. rewrite (mirror_get xw 3 1 1 Ax) in Hn by lia.
    change (get 0 xw [1%Z]) with 1 in Hn. change (get 0 yw [0%Z]) with 0 in Hn.
    rewrite Hn.
    + rewrite Gv' by lia. apply ones3_get; lia.
    + rewrite ssr_xw'_3half, ssr_xw'_1. intros (_ & _ & Ea). discriminate Ea.
    + intros k' l' m' Uk Ul Um.
      destruct (hull_mirror xw 3 1 Ax (hull_xw 1 ltac:(lra))) as [M0 M1].
      destruct (hull_yw 0 ltac:(lra)) as [Y0 Y1].
      apply (used_range yw 2 0 Ay Y0 Y1) in Uk.
      apply (used_range yw 2 0 Ay Y0 Y1) in Ul.
      apply (used_range (mirror_axis xw) 3 (- (1)) Ax' M0 M1) in Um.
      rewrite Gv' by lia. rewrite ones3_get by lia. lra.
Qed.

(* ---- 7e. a source ON a node line is harmless when the query is in neither adjacent cell *)
Theorem vinterp2d_mirror_x_source_on_node (x y v : arr R) (nx ny k : Z) (xq yq ysrc vzero fval : R) :
  axis x nx -> axis y ny -> shape v = [nx; ny] -> off_nodes x nx xq -> (0 <= k < nx)%Z ->
  searchsorted_right x xq <> k -> searchsorted_right x xq <> (k + 1)%Z ->
  u_vinterp2d_v (mirror_axis x) y (reverse_rows v) (- xq) yq (- get 0 x [k]) ysrc vzero fval =
  u_vinterp2d_v x y v xq yq (get 0 x [k]) ysrc vzero fval.
Proof.
  intros Ax Ay Sv Oq Hk N1 N2. pose proof (axis_n _ _ Ax). pose proof (axis_n _ _ Ay).
  apply (vinterp2d_mirror_x_gen x y v _ nx ny); auto.
  - apply reverse_rows_spec; auto; lia.
  - apply (src_agrees_node x nx); assumption.
Qed.

Print Assumptions interp2d_mirror_x.
Print Assumptions interp2d_mirror_y.
Print Assumptions interp3d_mirror_x.
Print Assumptions interp3d_mirror_y.
Print Assumptions interp3d_mirror_z.
Print Assumptions vinterp2d_mirror_x_gen.
Print Assumptions vinterp2d_mirror_y_gen.
Print Assumptions vinterp2d_mirror_x_off_nodes.
Print Assumptions vinterp2d_mirror_y_off_nodes.
Print Assumptions vinterp3d_mirror_x_gen.
Print Assumptions vinterp3d_mirror_y_gen.
Print Assumptions vinterp3d_mirror_z_gen.
Print Assumptions vinterp3d_mirror_x_off_nodes.
Print Assumptions vinterp3d_mirror_y_off_nodes.
Print Assumptions vinterp3d_mirror_z_off_nodes.
Print Assumptions vinterp2d_mirror_x_refuted_query_on_node.
Print Assumptions vinterp2d_mirror_x_refuted.
Print Assumptions vinterp2d_mirror_x_refuted_source_on_node.
Print Assumptions vinterp2d_mirror_x_refuted_far_face_zero_time.
Print Assumptions vinterp2d_mirror_y_refuted_query_on_node.
Print Assumptions vinterp3d_mirror_x_refuted_query_on_node.
Print Assumptions vinterp3d_mirror_y_refuted_query_on_node.
Print Assumptions vinterp3d_mirror_z_refuted_query_on_node.
Print Assumptions vinterp2d_mirror_x_source_on_node.
