(* C08 / C13: list (parallel-loop) forms of the kernels are maps of the single-item kernels, in input order.
   In the generated model a `prange` loop is translated to `map` / `mapM` over the iterations; the translator rejects
   a parallel loop whose body writes anything but its own `out[i]` slots of arrays allocated in the same function, or
   reads an array the loop writes (tools/py2coq/py2coq.py, method `prange`).  The theorems below characterise the
   generated list forms, for every numeric instance. *)
From Coq Require Import ZArith List Bool Lia.
From FT.lib Require Import Num Arr ArrLemmas NumArr.
From FT.gen Require Import Common Interp2d Interp3d Vinterp2d Vinterp3d Fteik2d Fteik3d.
Import ListNotations.
Open Scope Z_scope.

(* ---------- generic facts about mapM / find_exc ---------- *)
Section Generic.
Context {A B : Type}.
Lemma rbind_ok_id (r : res A) : rbind r (fun a => Ok a) = r.
Proof. destruct r; reflexivity. Qed.
Lemma mapM_all_ok (f : Z -> res B) (g : Z -> B) l :
  (forall i, In i l -> f i = Ok (g i)) -> mapM f l = Ok (map g l).
Proof.
  induction l as [|i l IH]; intros Hf; simpl; [reflexivity|].
  rewrite (Hf i (or_introl eq_refl)). simpl. rewrite IH by (intros; apply Hf; right; assumption). reflexivity.
Qed.
(* the list form fails with what the FIRST failing item fails with (Python order) *)
Lemma mapM_first_failure (f : Z -> res B) (g : Z -> B) l1 i l2 e :
  (forall k, In k l1 -> f k = Ok (g k)) -> f i = Raise e -> mapM f (l1 ++ i :: l2) = Raise e.
Proof.
  induction l1 as [|k l1 IH]; intros Hok Hi; simpl.
  - rewrite Hi. reflexivity.
  - rewrite (Hok k (or_introl eq_refl)). simpl. rewrite IH; auto. intros; apply Hok; right; assumption.
Qed.
End Generic.

Lemma find_exc_none (f : Z -> option exn) l : find_exc f l = None <-> forall i, In i l -> f i = None.
Proof.
  induction l as [|i l IH]; simpl; [split; [intros _ k []|reflexivity]|].
  destruct (f i) eqn:E.
  - split; [discriminate|]. intros Hn. rewrite (Hn i (or_introl eq_refl)) in E. discriminate.
  - rewrite IH. split; [intros Hn k [<-|Hk]; auto | intros Hn k Hk; apply Hn; right; exact Hk].
Qed.
Lemma find_exc_some (f : Z -> option exn) l e : find_exc f l = Some e ->
  exists l1 i l2, l = l1 ++ i :: l2 /\ f i = Some e /\ forall k, In k l1 -> f k = None.
Proof.
  induction l as [|i l IH]; simpl; [discriminate|]. destruct (f i) eqn:E.
  - intros [= <-]. exists [], i, l. repeat split; auto. intros k [].
  - intros Hf. destruct (IH Hf) as (l1 & j & l2 & -> & Hj & Hn). exists (i :: l1), j, l2. repeat split; auto.
    intros k [<-|Hk]; auto.
Qed.

Section V.
Context {T : Type} `{Num T}.

(* ---------- point evaluation: list = map of singles, in input order ---------- *)
Lemma interp2d_vectorized_is_map x y v xq yq fval :
  u_interp2d_vectorized_v x y v xq yq fval =
  map (fun i => u_interp2d_v x y v (get (nofZ 0) xq [i]) (get (nofZ 0) yq [i]) fval) (pyrange 0 (dim xq 0) 1).
Proof. reflexivity. Qed.
Lemma interp3d_vectorized_is_map x y z v xq yq zq fval :
  u_interp3d_vectorized_v x y z v xq yq zq fval =
  map (fun i => u_interp3d_v x y z v (get (nofZ 0) xq [i]) (get (nofZ 0) yq [i]) (get (nofZ 0) zq [i]) fval) (pyrange 0 (dim xq 0) 1).
Proof. reflexivity. Qed.
Lemma vinterp2d_vectorized_is_map x y v xq yq xsrc ysrc vzero fval :
  u_vinterp2d_vectorized_v x y v xq yq xsrc ysrc vzero fval =
  map (fun i => u_vinterp2d_v x y v (get (nofZ 0) xq [i]) (get (nofZ 0) yq [i]) xsrc ysrc vzero fval) (pyrange 0 (dim xq 0) 1).
Proof. reflexivity. Qed.
Lemma vinterp3d_vectorized_is_map x y z v xq yq zq xsrc ysrc zsrc vzero fval :
  u_vinterp3d_vectorized_v x y z v xq yq zq xsrc ysrc zsrc vzero fval =
  map (fun i => u_vinterp3d_v x y z v (get (nofZ 0) xq [i]) (get (nofZ 0) yq [i]) (get (nofZ 0) zq [i]) xsrc ysrc zsrc vzero fval)
      (pyrange 0 (dim xq 0) 1).
Proof. reflexivity. Qed.
(* the public dispatch: a 1-D argument takes the scalar path, a 2-D argument the list path on its columns *)
Lemma interp2d_dispatch_single x y v q fval :
  interp2d_1 x y v q fval = u_interp2d_v x y v (get (nofZ 0) q [0]) (get (nofZ 0) q [1]) fval.
Proof. reflexivity. Qed.
Lemma interp2d_dispatch_list x y v q fval :
  interp2d_n x y v q fval = u_interp2d_vectorized_v x y v (col (nofZ 0) q 0) (col (nofZ 0) q 1) fval.
Proof. reflexivity. Qed.

(* ---------- solving: the list form validates every source first, then maps the single solver ---------- *)
Definition src_inside2 (slow : arr T) (dz dx zs xs : T) : bool :=
  (nleb (nofZ 0) zs && nleb zs (nmul dz (nofZ (dim slow 0)))) && (nleb (nofZ 0) xs && nleb xs (nmul dx (nofZ (dim slow 1)))).
Definition src_inside3 (slow : arr T) (dz dx dy zs xs ys : T) : bool :=
  (nleb (nofZ 0) zs && nleb zs (nmul dz (nofZ (dim slow 0)))) && (nleb (nofZ 0) xs && nleb xs (nmul dx (nofZ (dim slow 1))))
  && (nleb (nofZ 0) ys && nleb ys (nmul dy (nofZ (dim slow 2)))).

Lemma fteik2d_vectorized_spec slow dz dx zsrc xsrc nsweep grad :
  fteik2d_vectorized slow dz dx zsrc xsrc nsweep grad =
  match find_exc (fun i => if negb (src_inside2 slow dz dx (get (nofZ 0) zsrc [i]) (get (nofZ 0) xsrc [i])) then Some ValueError else None)
                 (pyrange 0 (dim zsrc 0) 1) with
  | Some e => Raise e
  | None => mapM (fun i => fteik2d slow dz dx (get (nofZ 0) zsrc [i]) (get (nofZ 0) xsrc [i]) nsweep grad) (pyrange 0 (dim zsrc 0) 1)
  end.
Proof.
  unfold fteik2d_vectorized, src_inside2. cbv zeta. cbn [fst snd].
  match goal with |- match ?a with _ => _ end = match ?b with _ => _ end => replace b with a by reflexivity end.
  destruct (find_exc _ _); [reflexivity|]. apply rbind_ok_id.
Qed.

Lemma fteik3d_vectorized_spec slow dz dx dy zsrc xsrc ysrc nsweep grad :
  fteik3d_vectorized slow dz dx dy zsrc xsrc ysrc nsweep grad =
  match find_exc (fun i => if negb (src_inside3 slow dz dx dy (get (nofZ 0) zsrc [i]) (get (nofZ 0) xsrc [i]) (get (nofZ 0) ysrc [i]))
                           then Some ValueError else None) (pyrange 0 (dim zsrc 0) 1) with
  | Some e => Raise e
  | None => mapM (fun i => fteik3d slow dz dx dy (get (nofZ 0) zsrc [i]) (get (nofZ 0) xsrc [i]) (get (nofZ 0) ysrc [i]) nsweep grad)
                 (pyrange 0 (dim zsrc 0) 1)
  end.
Proof.
  unfold fteik3d_vectorized, src_inside3. cbv zeta. cbn [fst snd].
  match goal with |- match ?a with _ => _ end = match ?b with _ => _ end => replace b with a by reflexivity end.
  destruct (find_exc _ _); [reflexivity|]. apply rbind_ok_id.
Qed.

(* consequences: (1) an outside source anywhere in the list makes the list call raise ValueError, like the single call;
   (2) if every single solve returns, the list call returns exactly the list of the single results, in input order *)
Theorem solve2d_list_raises_iff_some_source_outside slow dz dx zsrc xsrc nsweep grad :
  (exists i, In i (pyrange 0 (dim zsrc 0) 1) /\ src_inside2 slow dz dx (get (nofZ 0) zsrc [i]) (get (nofZ 0) xsrc [i]) = false) ->
  fteik2d_vectorized slow dz dx zsrc xsrc nsweep grad = Raise ValueError.
Proof.
  intros (i & Hi & Hout). rewrite fteik2d_vectorized_spec.
  destruct (find_exc _ _) eqn:E.
  - apply find_exc_some in E as (l1 & j & l2 & _ & Hj & _). destruct (negb _); [injection Hj as <-; reflexivity | discriminate].
  - exfalso. rewrite find_exc_none in E. specialize (E i Hi). cbv beta in E. rewrite Hout in E. discriminate.
Qed.

Theorem solve2d_list_is_map_of_singles slow dz dx zsrc xsrc nsweep grad (r : Z -> arr T * arr T * T) :
  (forall i, In i (pyrange 0 (dim zsrc 0) 1) ->
     src_inside2 slow dz dx (get (nofZ 0) zsrc [i]) (get (nofZ 0) xsrc [i]) = true /\
     fteik2d slow dz dx (get (nofZ 0) zsrc [i]) (get (nofZ 0) xsrc [i]) nsweep grad = Ok (r i)) ->
  fteik2d_vectorized slow dz dx zsrc xsrc nsweep grad = Ok (map r (pyrange 0 (dim zsrc 0) 1)).
Proof.
  intros Hall. rewrite fteik2d_vectorized_spec.
  destruct (find_exc _ _) eqn:E.
  - apply find_exc_some in E as (l1 & j & l2 & El & Hj & _). exfalso.
    assert (Hin : In j (pyrange 0 (dim zsrc 0) 1)) by (rewrite El; apply in_or_app; right; left; reflexivity).
    destruct (Hall j Hin) as [Hins _]. rewrite Hins in Hj. discriminate.
  - apply mapM_all_ok. intros i Hi. apply (Hall i Hi).
Qed.

Theorem solve3d_list_is_map_of_singles slow dz dx dy zsrc xsrc ysrc nsweep grad (r : Z -> arr T * arr T * T) :
  (forall i, In i (pyrange 0 (dim zsrc 0) 1) ->
     src_inside3 slow dz dx dy (get (nofZ 0) zsrc [i]) (get (nofZ 0) xsrc [i]) (get (nofZ 0) ysrc [i]) = true /\
     fteik3d slow dz dx dy (get (nofZ 0) zsrc [i]) (get (nofZ 0) xsrc [i]) (get (nofZ 0) ysrc [i]) nsweep grad = Ok (r i)) ->
  fteik3d_vectorized slow dz dx dy zsrc xsrc ysrc nsweep grad = Ok (map r (pyrange 0 (dim zsrc 0) 1)).
Proof.
  intros Hall. rewrite fteik3d_vectorized_spec.
  destruct (find_exc _ _) eqn:E.
  - apply find_exc_some in E as (l1 & j & l2 & El & Hj & _). exfalso.
    assert (Hin : In j (pyrange 0 (dim zsrc 0) 1)) by (rewrite El; apply in_or_app; right; left; reflexivity).
    destruct (Hall j Hin) as [Hins _]. rewrite Hins in Hj. discriminate.
  - apply mapM_all_ok. intros i Hi. apply (Hall i Hi).
Qed.
End V.
