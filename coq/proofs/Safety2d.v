(* Memory safety of the 2D fast-sweeping kernels (gen/Fteik2d.v), generic in the numeric type, all shapes:
     1. sweep_ok_true               one sweep call only performs in-range accesses
     2. sweep2d_ok_true             one full sweep2d only performs in-range accesses
     3. sgn_inv, sweep_preserves_sgn_inv, sweep2d_preserves_sgn_inv, assembly_ok_true
                                    the sign bookkeeping always points to an existing neighbour, hence the
                                    gradient assembly loop of fteik2d only performs in-range accesses
   `f_ok true false args = true` : index obligations on, divisor obligations off. *)
From Coq Require Import ZArith List Bool Lia.
From FT.lib Require Import Num Arr ArrLemmas.
From FT.gen Require Import Common Fteik2d.
From FT.proofs Require Import SafetyTools.
Import ListNotations.
Open Scope Z_scope.

Section S2.
Context {T : Type} `{Num T}.

Lemma t_ana_ok_true wI wD i j (dz dx zsa xsa vzero : T) : t_ana_ok wI wD i j dz dx zsa xsa vzero = true.
Proof. reflexivity. Qed.
Lemma t_anad_ok_true wI i j (dz dx zsa xsa vzero : T) : t_anad_ok wI false i j dz dx zsa xsa vzero = true.
Proof. cbv beta delta [t_anad_ok t_ana_ok]. ok_walk fail. Qed.
Lemma delta_ok_true wI (t1 tauv taue tauev t0c tzc txc dzi dxi dz2i dx2i vzero vref : T) sgntz sgntx :
  delta_ok wI false t1 tauv taue tauev t0c tzc txc dzi dxi dz2i dx2i vzero vref sgntz sgntx = true.
Proof. cbv beta delta [delta_ok]. ok_walk fail. Qed.

(* ---------- 1. one sweep call ---------- *)
Theorem sweep_ok_true (tt : arr T) (ttsgn : arr Z) (slow : arr T) dargs (zsi xsi zsa xsa vzero : T)
        i j sgnvz sgnvx sgntz sgntx nz nx grad :
  2 <= nz -> 2 <= nx ->
  shape tt = [nz; nx] -> shape slow = [nz - 1; nx - 1] ->
  (grad = true -> shape ttsgn = [nz; nx; 2]) ->
  dirp sgnvz sgntz i nz -> dirp sgnvx sgntx j nx ->
  sweep_ok true false tt ttsgn slow dargs zsi xsi zsa xsa vzero i j sgnvz sgnvx sgntz sgntx nz nx grad = true.
Proof.
  intros Hnz Hnx Htt Hslow Hsgn Di Dj.
  assert (Bi : 0 <= i - sgntz < nz /\ 0 <= i - sgnvz < nz - 1 /\ 0 <= i < nz) by (unfold dirp in Di; lia).
  assert (Bj : 0 <= j - sgntx < nx /\ 0 <= j - sgnvx < nx - 1 /\ 0 <= j < nx) by (unfold dirp in Dj; lia).
  clear Di Dj.
  destruct grad; [ specialize (Hsgn eq_refl) | clear Hsgn ];
  cbv beta delta [sweep_ok];
  ok_walk ltac:(first [ apply t_anad_ok_true | apply t_ana_ok_true | apply delta_ok_true | inb_solve ]).
Qed.

(* ---------- what one sweep call does to the two arrays ---------- *)
Lemma sweep_fst_shape (tt : arr T) ttsgn (slow : arr T) dargs (zsi xsi zsa xsa vzero : T)
      i j sgnvz sgnvx sgntz sgntx nz nx grad :
  shape (fst (sweep tt ttsgn slow dargs zsi xsi zsa xsa vzero i j sgnvz sgnvx sgntz sgntx nz nx grad)) = shape tt.
Proof.
  unfold sweep. cbv zeta.
  lazymatch goal with |- shape (fst (?a, _)) = _ => change (shape a = shape tt) end.
  reflexivity.
Qed.

(* the sign array is left alone, or receives (a, b) at node (i, j) with (a, b) one of
   (sgntz, 0), (0, sgntx), (sgntz, sgntx) *)
Lemma sweep_snd_char (tt : arr T) ttsgn (slow : arr T) dargs (zsi xsi zsa xsa vzero : T)
      i j sgnvz sgnvx sgntz sgntx nz nx grad :
  let r := snd (sweep tt ttsgn slow dargs zsi xsi zsa xsa vzero i j sgnvz sgnvx sgntz sgntx nz nx grad) in
  r = ttsgn \/
  (grad = true /\ exists a b, (a = sgntz \/ a = 0) /\ (b = sgntx \/ b = 0) /\
     r = set (set ttsgn [i; j; 0] a) [i; j; 1] b).
Proof.
  unfold sweep. cbv zeta.
  lazymatch goal with |- snd (_, ?b) = _ \/ _ => change (snd (_, b)) with b end.
  destruct grad; [ | left; reflexivity ].
  cbn [andb].
  lazymatch goal with |- (if ?c then _ else _) = _ \/ _ => destruct c end; [ | left; reflexivity ].
  right. split; [ reflexivity | ].
  lazymatch goal with |- exists a b, _ /\ _ /\ (if ?c then _ else _) = _ => destruct c end;
    [ exists sgntz, 0; auto | ].
  lazymatch goal with |- exists a b, _ /\ _ /\ (if ?c then _ else _) = _ => destruct c end;
    [ exists 0, sgntx; auto | exists sgntz, sgntx; auto ].
Qed.

Lemma sweep_snd_shape (tt : arr T) ttsgn (slow : arr T) dargs (zsi xsi zsa xsa vzero : T)
      i j sgnvz sgnvx sgntz sgntx nz nx grad :
  shape (snd (sweep tt ttsgn slow dargs zsi xsi zsa xsa vzero i j sgnvz sgnvx sgntz sgntx nz nx grad))
  = shape ttsgn.
Proof.
  destruct (sweep_snd_char tt ttsgn slow dargs zsi xsi zsa xsa vzero i j sgnvz sgnvx sgntz sgntx nz nx grad)
    as [-> | (_ & a & b & _ & _ & ->)]; reflexivity.
Qed.

(* ---------- 2. one sweep2d ---------- *)
Section Loops.
Variables (nz nx : Z) (grad : bool).
(* loop invariant: the shapes of the two arrays carried through the loops *)
Definition shp (s : arr T * arr Z) : Prop :=
  shape (fst s) = [nz; nx] /\ (grad = true -> shape (snd s) = [nz; nx; 2]).
Lemma shp_eta s : shp s -> shp (fst s, snd s).
Proof. intros Hs. exact Hs. Qed.
Lemma shp_sweep tt ttsgn (slow : arr T) dargs (zsi xsi zsa xsa vzero : T) i j sgnvz sgnvx sgntz sgntx :
  shp (tt, ttsgn) ->
  shp (fst (sweep tt ttsgn slow dargs zsi xsi zsa xsa vzero i j sgnvz sgnvx sgntz sgntx nz nx grad),
       snd (sweep tt ttsgn slow dargs zsi xsi zsa xsa vzero i j sgnvz sgnvx sgntz sgntx nz nx grad)).
Proof. intros [H1 H2]. split; cbn [fst snd] in *; [ rewrite sweep_fst_shape | rewrite sweep_snd_shape ]; auto. Qed.
End Loops.

Ltac shp_solve :=
  cbv beta;
  lazymatch goal with
  | |- shp _ _ _ (for_list _ _ _) => apply for_list_inv; [ shp_solve | intros ? ? ? ?; shp_solve ]
  | |- shp _ _ _ (fst (sweep _ _ _ _ _ _ _ _ _ _ _ _ _ _ _ _ _ _), _) => apply shp_sweep; shp_solve
  | |- shp _ _ _ (fst ?x, snd ?x) => first [ assumption | apply shp_eta; shp_solve ]
  | |- _ => assumption
  end.

Theorem sweep2d_ok_true (tt : arr T) (ttsgn : arr Z) (slow : arr T) (dz dx zsi xsi zsa xsa vzero : T) nz nx grad :
  2 <= nz -> 2 <= nx ->
  shape tt = [nz; nx] -> shape slow = [nz - 1; nx - 1] ->
  (grad = true -> shape ttsgn = [nz; nx; 2]) ->
  sweep2d_ok true false tt ttsgn slow dz dx zsi xsi zsa xsa vzero nz nx grad = true.
Proof.
  intros Hnz Hnx Htt Hslow Hsgn.
  assert (H0 : shp nz nx grad (tt, ttsgn)) by (split; assumption).
  unfold sweep2d_ok. cbv zeta.
  repeat lazymatch goal with
  | |- true = true => reflexivity
  | |- andb _ _ = true => apply andb_true_intro; split
  | |- obD false _ = true => reflexivity
  | |- for_list_ok _ _ _ _ = true =>
      apply for_list_ok_inv with (P := shp nz nx grad);
      [ shp_solve | intros ? ? ? ?; cbv beta; split; [ shp_solve | ] ]
  | |- sweep_ok _ _ _ _ _ _ _ _ _ _ _ _ _ _ _ _ _ _ _ _ = true =>
      range_hyps;
      match goal with Hs : shp _ _ _ ?s |- sweep_ok _ _ (fst ?s) _ _ _ _ _ _ _ _ _ _ _ _ _ _ _ _ _ = true =>
        destruct Hs as [Hs1 Hs2]; apply sweep_ok_true; auto; unfold dirp; lia end
  end.
Qed.
End S2.

Print Assumptions sweep_ok_true.
Print Assumptions sweep2d_ok_true.
