(* Memory safety of the 2D fast-sweeping kernels (gen/Fteik2d.v), generic in the numeric type, all shapes:
     1. sweep_ok_true               one sweep call only performs in-range accesses
     2. sweep2d_ok_true             one full sweep2d only performs in-range accesses
     3. sgn_inv, sgn_inv_zeros, init_preserves_sgn_inv, sweep_preserves_sgn_inv, sweep2d_preserves_sgn_inv,
        assembly_ok_true, tail_ok_true
                                    the sign bookkeeping always points to an existing neighbour, hence the
                                    gradient assembly loop of fteik2d only performs in-range accesses;
                                    fteik2d_ok_assembly / fteik2d_ok_tail tie the copied loop texts to the
                                    generated fteik2d_ok by reflexivity
   Compile proofs/SafetyTools.v first.
   `f_ok true false args = true` : index obligations on, divisor obligations off. *)
From Coq Require Import ZArith List Bool Lia.
From FT.lib Require Import Num Arr ArrLemmas.
From FT.gen Require Import Common Fteik2d.
From FT.proofs Require Import SafetyTools.
Import ListNotations.
Open Scope Z_scope.

(* ---------- the sign bookkeeping (independent of the numeric type) ---------- *)
(* a sign s stored for index idx on an axis of n nodes: s in {-1, 0, 1}, and the neighbour idx - s exists *)
Definition sgn_ok (s idx n : Z) : Prop :=
  (s = -1 \/ s = 0 \/ s = 1) /\ (s = 1 -> 1 <= idx) /\ (s = -1 -> idx <= n - 2).
Definition sgn_inv (nz nx : Z) (sg : arr Z) : Prop :=
  wf sg /\ shape sg = [nz; nx; 2] /\
  forall i j, 0 <= i < nz -> 0 <= j < nx ->
    sgn_ok (get 0 sg [i; j; 0]) i nz /\ sgn_ok (get 0 sg [i; j; 1]) j nx.

Lemma sgn_ok_0 idx n : sgn_ok 0 idx n.
Proof. unfold sgn_ok. lia. Qed.

(* established by the initialisation `np.zeros((nz, nx, 2))` *)
Lemma sgn_inv_zeros nz nx : 0 <= nz -> 0 <= nx -> sgn_inv nz nx (full [nz; nx; 2] 0).
Proof.
  intros Hnz Hnx. split; [ apply wf_full; repeat constructor; lia | ]. split; [ reflexivity | ].
  intros i j Hi Hj.
  rewrite !get_full by (cbn [inb_sh]; repeat (apply andb_true_intro; split);
                        first [ reflexivity | apply Z.leb_le; lia | apply Z.ltb_lt; lia ]).
  split; apply sgn_ok_0.
Qed.

Ltac neq_idx := let E := fresh "E" in intro E; injection E; intros; lia.

(* writing admissible signs at one node *)
Lemma sgn_inv_set2 nz nx sg i j a b :
  sgn_inv nz nx sg -> 0 <= i < nz -> 0 <= j < nx -> sgn_ok a i nz -> sgn_ok b j nx ->
  sgn_inv nz nx (set (set sg [i; j; 0] a) [i; j; 1] b).
Proof.
  intros (W & S & Hq) Hi Hj Ha Hb.
  assert (W1 : wf (set sg [i; j; 0] a)) by (apply wf_set; exact W).
  assert (I0 : forall p q c, 0 <= p < nz -> 0 <= q < nx -> 0 <= c < 2 -> inb sg [p; q; c] = true)
    by (intros; eapply inb3_true; eauto).
  assert (I1 : forall p q c, 0 <= p < nz -> 0 <= q < nx -> 0 <= c < 2 -> inb (set sg [i; j; 0] a) [p; q; c] = true)
    by (intros; rewrite inb_set; apply I0; assumption).
  split; [ apply wf_set; exact W1 | ]. split; [ exact S | ].
  intros p q Hp Hq'.
  destruct (Z.eq_dec p i) as [-> | Np]; [ destruct (Z.eq_dec q j) as [-> | Nq] | ].
  - split.
    + rewrite get_set_other by (first [ apply I1; lia | neq_idx ]).
      rewrite get_set_same by (first [ exact W | apply I0; lia ]). exact Ha.
    + rewrite get_set_same by (first [ exact W1 | apply I1; lia ]). exact Hb.
  - rewrite !get_set_other by (first [ apply I1; lia | apply I0; lia | neq_idx ]). apply Hq; assumption.
  - rewrite !get_set_other by (first [ apply I1; lia | apply I0; lia | neq_idx ]). apply Hq; assumption.
Qed.

Section S2.
Context {T : Type} `{Num T}.

Lemma t_ana_ok_true wI wD i j (dz dx zsa xsa vzero : T) : t_ana_ok wI wD i j dz dx zsa xsa vzero = true.
Proof. reflexivity. Qed.
Lemma t_anad_ok_true wI i j (dz dx zsa xsa vzero : T) : t_anad_ok wI false i j dz dx zsa xsa vzero = true.
Proof. cbv beta delta [t_anad_ok t_ana_ok]. ok_walk fail. Qed.
Lemma delta_ok_true wI (t1 tauv taue tauev t0c tzc txc dzi dxi dz2i dx2i vzero vref : T) sgntz sgntx :
  delta_ok wI false t1 tauv taue tauev t0c tzc txc dzi dxi dz2i dx2i vzero vref sgntz sgntx = true.
Proof. cbv beta delta [delta_ok]. ok_walk fail. Qed.

(* ---------- 1. one sweep call ---------- *)
Theorem sweep_ok_true (tt : arr T) (ttsgn : arr Z) (slow : arr T) dargs (zsi xsi zsa xsa vzero : T)
        i j sgnvz sgnvx sgntz sgntx nz nx grad :
  2 <= nz -> 2 <= nx ->
  shape tt = [nz; nx] -> shape slow = [nz - 1; nx - 1] ->
  (grad = true -> shape ttsgn = [nz; nx; 2]) ->
  dirp sgnvz sgntz i nz -> dirp sgnvx sgntx j nx ->
  sweep_ok true false tt ttsgn slow dargs zsi xsi zsa xsa vzero i j sgnvz sgnvx sgntz sgntx nz nx grad = true.
Proof.
  intros Hnz Hnx Htt Hslow Hsgn Di Dj.
  assert (Bi : 0 <= i - sgntz < nz /\ 0 <= i - sgnvz < nz - 1 /\ 0 <= i < nz) by (unfold dirp in Di; lia).
  assert (Bj : 0 <= j - sgntx < nx /\ 0 <= j - sgnvx < nx - 1 /\ 0 <= j < nx) by (unfold dirp in Dj; lia).
  clear Di Dj.
  destruct grad; [ specialize (Hsgn eq_refl) | clear Hsgn ];
  cbv beta delta [sweep_ok];
  ok_walk ltac:(first [ apply t_anad_ok_true | apply t_ana_ok_true | apply delta_ok_true | inb_solve ]).
Qed.

(* ---------- what one sweep call does to the two arrays ---------- *)
Lemma sweep_fst_shape (tt : arr T) ttsgn (slow : arr T) dargs (zsi xsi zsa xsa vzero : T)
      i j sgnvz sgnvx sgntz sgntx nz nx grad :
  shape (fst (sweep tt ttsgn slow dargs zsi xsi zsa xsa vzero i j sgnvz sgnvx sgntz sgntx nz nx grad)) = shape tt.
Proof.
  unfold sweep. cbv zeta.
  lazymatch goal with |- shape (fst (?a, _)) = _ => change (shape a = shape tt) end.
  reflexivity.
Qed.

(* the sign array is left alone, or receives (a, b) at node (i, j) with (a, b) one of
   (sgntz, 0), (0, sgntx), (sgntz, sgntx) *)
Lemma sweep_snd_char (tt : arr T) ttsgn (slow : arr T) dargs (zsi xsi zsa xsa vzero : T)
      i j sgnvz sgnvx sgntz sgntx nz nx grad :
  let r := snd (sweep tt ttsgn slow dargs zsi xsi zsa xsa vzero i j sgnvz sgnvx sgntz sgntx nz nx grad) in
  r = ttsgn \/
  (grad = true /\ exists a b, (a = sgntz \/ a = 0) /\ (b = sgntx \/ b = 0) /\
     r = set (set ttsgn [i; j; 0] a) [i; j; 1] b).
Proof.
  unfold sweep. cbv zeta.
  lazymatch goal with |- snd (_, ?b) = _ \/ _ => change (snd (_, b)) with b end.
  destruct grad; [ | left; reflexivity ].
  cbn [andb].
  lazymatch goal with |- (if ?c then _ else _) = _ \/ _ => destruct c end; [ | left; reflexivity ].
  right. split; [ reflexivity | ].
  lazymatch goal with |- exists a b, _ /\ _ /\ (if ?c then _ else _) = _ => destruct c end;
    [ exists sgntz, 0; auto | ].
  lazymatch goal with |- exists a b, _ /\ _ /\ (if ?c then _ else _) = _ => destruct c end;
    [ exists 0, sgntx; auto | exists sgntz, sgntx; auto ].
Qed.

Lemma sweep_snd_shape (tt : arr T) ttsgn (slow : arr T) dargs (zsi xsi zsa xsa vzero : T)
      i j sgnvz sgnvx sgntz sgntx nz nx grad :
  shape (snd (sweep tt ttsgn slow dargs zsi xsi zsa xsa vzero i j sgnvz sgnvx sgntz sgntx nz nx grad))
  = shape ttsgn.
Proof.
  destruct (sweep_snd_char tt ttsgn slow dargs zsi xsi zsa xsa vzero i j sgnvz sgnvx sgntz sgntx nz nx grad)
    as [-> | (_ & a & b & _ & _ & ->)]; reflexivity.
Qed.

(* ---------- 2. one sweep2d ---------- *)
Section Loops.
Variables (nz nx : Z) (grad : bool).
(* loop invariant: the shapes of the two arrays carried through the loops *)
Definition shp (s : arr T * arr Z) : Prop :=
  shape (fst s) = [nz; nx] /\ (grad = true -> shape (snd s) = [nz; nx; 2]).
Lemma shp_eta s : shp s -> shp (fst s, snd s).
Proof. intros Hs. exact Hs. Qed.
Lemma shp_sweep tt ttsgn (slow : arr T) dargs (zsi xsi zsa xsa vzero : T) i j sgnvz sgnvx sgntz sgntx :
  shp (tt, ttsgn) ->
  shp (fst (sweep tt ttsgn slow dargs zsi xsi zsa xsa vzero i j sgnvz sgnvx sgntz sgntx nz nx grad),
       snd (sweep tt ttsgn slow dargs zsi xsi zsa xsa vzero i j sgnvz sgnvx sgntz sgntx nz nx grad)).
Proof. intros [H1 H2]. split; cbn [fst snd] in *; [ rewrite sweep_fst_shape | rewrite sweep_snd_shape ]; auto. Qed.
End Loops.

Ltac shp_solve :=
  cbv beta;
  lazymatch goal with
  | |- shp _ _ _ (for_list _ _ _) => apply for_list_inv; [ shp_solve | intros ? ? ? ?; shp_solve ]
  | |- shp _ _ _ (fst (sweep _ _ _ _ _ _ _ _ _ _ _ _ _ _ _ _ _ _), _) => apply shp_sweep; shp_solve
  | |- shp _ _ _ (fst ?x, snd ?x) => first [ assumption | apply shp_eta; shp_solve ]
  | |- _ => assumption
  end.

Theorem sweep2d_ok_true (tt : arr T) (ttsgn : arr Z) (slow : arr T) (dz dx zsi xsi zsa xsa vzero : T) nz nx grad :
  2 <= nz -> 2 <= nx ->
  shape tt = [nz; nx] -> shape slow = [nz - 1; nx - 1] ->
  (grad = true -> shape ttsgn = [nz; nx; 2]) ->
  sweep2d_ok true false tt ttsgn slow dz dx zsi xsi zsa xsa vzero nz nx grad = true.
Proof.
  intros Hnz Hnx Htt Hslow Hsgn.
  assert (H0 : shp nz nx grad (tt, ttsgn)) by (split; assumption).
  unfold sweep2d_ok. cbv zeta.
  repeat lazymatch goal with
  | |- true = true => reflexivity
  | |- andb _ _ = true => apply andb_true_intro; split
  | |- obD false _ = true => reflexivity
  | |- for_list_ok _ _ _ _ = true =>
      apply for_list_ok_inv with (P := shp nz nx grad);
      [ shp_solve | intros ? ? ? ?; cbv beta; split; [ shp_solve | ] ]
  | |- sweep_ok _ _ _ _ _ _ _ _ _ _ _ _ _ _ _ _ _ _ _ _ = true =>
      range_hyps;
      match goal with Hs : shp _ _ _ ?s |- sweep_ok _ _ (fst ?s) _ _ _ _ _ _ _ _ _ _ _ _ _ _ _ _ _ = true =>
        destruct Hs as [Hs1 Hs2]; apply sweep_ok_true; auto; unfold dirp; lia end
  end.
Qed.

(* ------------------------------------------------------------------------------------------ *)
(* 3. the sign bookkeeping always points to an existing neighbour; the gradient assembly is safe *)
(* ------------------------------------------------------------------------------------------ *)
Lemma sgn_ok_dirp sgnv sgnt idx n : dirp sgnv sgnt idx n -> sgn_ok sgnt idx n /\ 0 <= idx < n.
Proof. unfold dirp, sgn_ok. lia. Qed.

Theorem sweep_preserves_sgn_inv (tt : arr T) ttsgn (slow : arr T) dargs (zsi xsi zsa xsa vzero : T)
        i j sgnvz sgnvx sgntz sgntx nz nx grad :
  sgn_inv nz nx ttsgn -> dirp sgnvz sgntz i nz -> dirp sgnvx sgntx j nx ->
  sgn_inv nz nx (snd (sweep tt ttsgn slow dargs zsi xsi zsa xsa vzero i j sgnvz sgnvx sgntz sgntx nz nx grad)).
Proof.
  intros Hinv Di Dj.
  destruct (sgn_ok_dirp _ _ _ _ Di) as [Oz Hi]. destruct (sgn_ok_dirp _ _ _ _ Dj) as [Ox Hj].
  destruct (sweep_snd_char tt ttsgn slow dargs zsi xsi zsa xsa vzero i j sgnvz sgnvx sgntz sgntx nz nx grad)
    as [-> | (_ & a & b & Ha & Hb & ->)]; [ exact Hinv | ].
  apply sgn_inv_set2; auto.
  - destruct Ha as [-> | ->]; [ exact Oz | apply sgn_ok_0 ].
  - destruct Hb as [-> | ->]; [ exact Ox | apply sgn_ok_0 ].
Qed.

(* established by the source initialisation of fteik2d (the part between the allocation and the sweeps):
   every sign it writes points to an existing neighbour, provided the source cell (zsi, xsi) is a cell of the
   grid; nz, nx are the node counts *)
Ltac sg_solve :=
  cbv beta;
  lazymatch goal with
  | |- sgn_inv ?n ?m (snd (_, ?b)) => change (sgn_inv n m b); sg_solve
  | |- sgn_inv _ _ (snd (if ?c then _ else _)) => destruct c; sg_solve
  | |- sgn_inv ?n ?m (snd (for_list ?l ?b ?s)) =>
      apply (for_list_inv (fun st => sgn_inv n m (snd st)) l b s); [ sg_solve | intros ? ? ? ?; sg_solve ]
  | |- sgn_inv _ _ (if ?c then _ else _) => destruct c; sg_solve
  | |- sgn_inv _ _ (set (set _ [?p; ?q; 0] _) [?p; ?q; 1] _) =>
      apply sgn_inv_set2;
      [ sg_solve | range_hyps; lia | range_hyps; lia
      | unfold sgn_ok; range_hyps; lia | unfold sgn_ok; range_hyps; lia ]
  | |- _ => assumption
  end.

Theorem init_preserves_sgn_inv (dx dz : T) grad iflag nx nz (slow tt ttgrad : arr T) ttsgn (vzero xsa zsa : T) xsi zsi :
  0 <= zsi <= nz - 2 -> 0 <= xsi <= nx - 2 -> sgn_inv nz nx ttsgn ->
  sgn_inv nz nx (snd (fteik2d_p2 dx dz grad iflag nx nz slow tt ttgrad ttsgn vzero xsa xsi zsa zsi)).
Proof.
  intros Hz Hx Hinv. unfold fteik2d_p2. sg_solve.
Qed.

(* loop invariant on the pair state of sweep2d *)
Definition sgi (nz nx : Z) (s : arr T * arr Z) : Prop := sgn_inv nz nx (snd s).
Lemma sgi_eta nz nx s : sgi nz nx s -> sgi nz nx (fst s, snd s).
Proof. intros Hs. exact Hs. Qed.
Lemma sgi_sweep nz nx grad tt ttsgn (slow : arr T) dargs (zsi xsi zsa xsa vzero : T) i j sgnvz sgnvx sgntz sgntx :
  dirp sgnvz sgntz i nz -> dirp sgnvx sgntx j nx -> sgi nz nx (tt, ttsgn) ->
  sgi nz nx (fst (sweep tt ttsgn slow dargs zsi xsi zsa xsa vzero i j sgnvz sgnvx sgntz sgntx nz nx grad),
             snd (sweep tt ttsgn slow dargs zsi xsi zsa xsa vzero i j sgnvz sgnvx sgntz sgntx nz nx grad)).
Proof. intros Di Dj Hs. unfold sgi in *. cbn [snd] in *. apply sweep_preserves_sgn_inv; auto. Qed.

Ltac sgi_solve :=
  cbv beta;
  lazymatch goal with
  | |- sgi _ _ (for_list _ _ _) => apply for_list_inv; [ sgi_solve | intros ? ? ? ?; sgi_solve ]
  | |- sgi _ _ (fst ?x, snd ?x) =>
      first [ assumption
            | apply sgi_sweep; [ range_hyps; unfold dirp; lia | range_hyps; unfold dirp; lia | sgi_solve ]
            | apply sgi_eta; sgi_solve ]
  | |- _ => assumption
  end.

Theorem sweep2d_preserves_sgn_inv (tt : arr T) ttsgn (slow : arr T) (dz dx zsi xsi zsa xsa vzero : T) nz nx grad :
  sgn_inv nz nx ttsgn ->
  sgn_inv nz nx (snd (sweep2d tt ttsgn slow dz dx zsi xsi zsa xsa vzero nz nx grad)).
Proof.
  intros Hinv. assert (H0 : sgi nz nx (tt, ttsgn)) by exact Hinv.
  change (sgi nz nx (sweep2d tt ttsgn slow dz dx zsi xsi zsa xsa vzero nz nx grad)).
  unfold sweep2d. sgi_solve.
Qed.

(* the shapes are preserved as well *)
Theorem sweep2d_shapes (tt : arr T) ttsgn (slow : arr T) (dz dx zsi xsi zsa xsa vzero : T) nz nx grad :
  shape (fst (sweep2d tt ttsgn slow dz dx zsi xsi zsa xsa vzero nz nx grad)) = shape tt /\
  shape (snd (sweep2d tt ttsgn slow dz dx zsi xsi zsa xsa vzero nz nx grad)) = shape ttsgn.
Proof.
  set (P := fun s : arr T * arr Z => shape (fst s) = shape tt /\ shape (snd s) = shape ttsgn).
  change (P (sweep2d tt ttsgn slow dz dx zsi xsi zsa xsa vzero nz nx grad)).
  assert (H0 : P (tt, ttsgn)) by (split; reflexivity).
  assert (Hsw : forall a b dargs i j c1 c2 c3 c4, P (a, b) ->
            P (fst (sweep a b slow dargs zsi xsi zsa xsa vzero i j c1 c2 c3 c4 nz nx grad),
               snd (sweep a b slow dargs zsi xsi zsa xsa vzero i j c1 c2 c3 c4 nz nx grad))).
  { intros a b dargs i j c1 c2 c3 c4 [E1 E2]. split; cbn [fst snd] in *;
      [ rewrite sweep_fst_shape | rewrite sweep_snd_shape ]; assumption. }
  assert (Heta : forall s, P s -> P (fst s, snd s)) by (intros s Hs; exact Hs).
  unfold sweep2d.
  repeat lazymatch goal with
  | |- P (for_list _ _ _) => apply for_list_inv; [ | intros ? ? ? ?; cbv beta ]
  | |- P (fst ?x, snd ?x) => first [ assumption | apply Hsw | apply Heta ]
  | |- _ => assumption
  end.
Qed.

(* ---------- the gradient assembly loop of fteik2d ---------- *)
(* `assembly_ok` / `assembly` are copies of the obligation text / value text of the loop nest
   `if grad: for i in range(nz): for j in range(nx): ...` as they appear inside the generated `fteik2d_ok` /
   `fteik2d`; `fteik2d_ok_assembly` below checks by `reflexivity` that the copy is the generated text. *)
Local Open Scope bool_scope.
Definition assembly_ok (wI wD : bool) (tt_v : arr T) (ttsgn : arr Z) (ttgrad : arr T) (dz dx : T) (nz nx : Z) : bool :=
for_list_ok (pyrange 0 nz 1) (fun (i : Z) (u_s_v : (arr T)) =>
let ttgrad := u_s_v in
for_list_ok (pyrange 0 nx 1) (fun (j : Z) (u_s_v : (arr T)) =>
let ttgrad := u_s_v in
obI wI (inb ttsgn [i; j; 0]) &&
let sgntz := (get 0 ttsgn [i; j; 0]) in
let u_k26_v : (arr T) -> bool := (fun (u_j_v : (arr T)) =>
let ttgrad := u_j_v in
obI wI (inb ttsgn [i; j; 1]) &&
let sgntx := (get 0 ttsgn [i; j; 1]) in
let u_k27_v : (arr T) -> bool := (fun (u_j_v : (arr T)) =>
let ttgrad := u_j_v in
((obI wI (inb ttgrad [i; j; 0]) && obI wI (inb ttgrad [i; j; 1])) && (Common.norm2d_ok wI wD (get (nofZ 0) ttgrad [i; j; 0]) (get (nofZ 0) ttgrad [i; j; 1]))) &&
let gn := (Common.norm2d (get (nofZ 0) ttgrad [i; j; 0]) (get (nofZ 0) ttgrad [i; j; 1])) in
let u_k28_v : (arr T) -> bool := (fun (u_j_v : (arr T)) =>
let ttgrad := u_j_v in
true) in
(if (ngtb gn (nofZ 0)) return bool
 then ((obI wI (inb_sub ttgrad [i; j]) && obD wD (nneb gn (nofZ 0))) &&
let ttgrad := (set_sub ttgrad [i; j] (amap (fun u_e_v => ndiv u_e_v gn) (get_sub ttgrad [i; j]))) in
u_k28_v ttgrad)
 else (u_k28_v ttgrad))) in
(if (negb (sgntx =? 0)) return bool
 then (obI wI (inb tt_v [i; (j - sgntx)]) &&
let t1 := (get (nofZ 0) tt_v [i; (j - sgntx)]) in
((obI wI (inb tt_v [i; j]) && obD wD (nneb dx (nofZ 0))) && obI wI (inb ttgrad [i; j; 1])) &&
let ttgrad := (set ttgrad [i; j; 1] (ndiv (nmul (nofZ sgntx) (nsub (get (nofZ 0) tt_v [i; j]) t1)) dx)) in
u_k27_v ttgrad)
 else (u_k27_v ttgrad))) in
(if (negb (sgntz =? 0)) return bool
 then (obI wI (inb tt_v [(i - sgntz); j]) &&
let t1 := (get (nofZ 0) tt_v [(i - sgntz); j]) in
((obI wI (inb tt_v [i; j]) && obD wD (nneb dz (nofZ 0))) && obI wI (inb ttgrad [i; j; 0])) &&
let ttgrad := (set ttgrad [i; j; 0] (ndiv (nmul (nofZ sgntz) (nsub (get (nofZ 0) tt_v [i; j]) t1)) dz)) in
u_k26_v ttgrad)
 else (u_k26_v ttgrad))) (fun (j : Z) (u_s_v : (arr T)) =>
let ttgrad := u_s_v in
let sgntz := (get 0 ttsgn [i; j; 0]) in
let u_j_v : (arr T) := (if (negb (sgntz =? 0))
 then (let t1 := (get (nofZ 0) tt_v [(i - sgntz); j]) in
let ttgrad := (set ttgrad [i; j; 0] (ndiv (nmul (nofZ sgntz) (nsub (get (nofZ 0) tt_v [i; j]) t1)) dz)) in
ttgrad)
 else (ttgrad)) in
let ttgrad := u_j_v in
let sgntx := (get 0 ttsgn [i; j; 1]) in
let u_j_v : (arr T) := (if (negb (sgntx =? 0))
 then (let t1 := (get (nofZ 0) tt_v [i; (j - sgntx)]) in
let ttgrad := (set ttgrad [i; j; 1] (ndiv (nmul (nofZ sgntx) (nsub (get (nofZ 0) tt_v [i; j]) t1)) dx)) in
ttgrad)
 else (ttgrad)) in
let ttgrad := u_j_v in
let gn := (Common.norm2d (get (nofZ 0) ttgrad [i; j; 0]) (get (nofZ 0) ttgrad [i; j; 1])) in
let u_j_v : (arr T) := (if (ngtb gn (nofZ 0))
 then (let ttgrad := (set_sub ttgrad [i; j] (amap (fun u_e_v => ndiv u_e_v gn) (get_sub ttgrad [i; j]))) in
ttgrad)
 else (ttgrad)) in
let ttgrad := u_j_v in
ttgrad) ttgrad &&
let u_s_v := for_list (pyrange 0 nx 1) (fun (j : Z) (u_s_v : (arr T)) =>
let ttgrad := u_s_v in
let sgntz := (get 0 ttsgn [i; j; 0]) in
let u_j_v : (arr T) := (if (negb (sgntz =? 0))
 then (let t1 := (get (nofZ 0) tt_v [(i - sgntz); j]) in
let ttgrad := (set ttgrad [i; j; 0] (ndiv (nmul (nofZ sgntz) (nsub (get (nofZ 0) tt_v [i; j]) t1)) dz)) in
ttgrad)
 else (ttgrad)) in
let ttgrad := u_j_v in
let sgntx := (get 0 ttsgn [i; j; 1]) in
let u_j_v : (arr T) := (if (negb (sgntx =? 0))
 then (let t1 := (get (nofZ 0) tt_v [i; (j - sgntx)]) in
let ttgrad := (set ttgrad [i; j; 1] (ndiv (nmul (nofZ sgntx) (nsub (get (nofZ 0) tt_v [i; j]) t1)) dx)) in
ttgrad)
 else (ttgrad)) in
let ttgrad := u_j_v in
let gn := (Common.norm2d (get (nofZ 0) ttgrad [i; j; 0]) (get (nofZ 0) ttgrad [i; j; 1])) in
let u_j_v : (arr T) := (if (ngtb gn (nofZ 0))
 then (let ttgrad := (set_sub ttgrad [i; j] (amap (fun u_e_v => ndiv u_e_v gn) (get_sub ttgrad [i; j]))) in
ttgrad)
 else (ttgrad)) in
let ttgrad := u_j_v in
ttgrad) ttgrad in
let ttgrad := u_s_v in
true) (fun (i : Z) (u_s_v : (arr T)) =>
let ttgrad := u_s_v in
let u_s_v := for_list (pyrange 0 nx 1) (fun (j : Z) (u_s_v : (arr T)) =>
let ttgrad := u_s_v in
let sgntz := (get 0 ttsgn [i; j; 0]) in
let u_j_v : (arr T) := (if (negb (sgntz =? 0))
 then (let t1 := (get (nofZ 0) tt_v [(i - sgntz); j]) in
let ttgrad := (set ttgrad [i; j; 0] (ndiv (nmul (nofZ sgntz) (nsub (get (nofZ 0) tt_v [i; j]) t1)) dz)) in
ttgrad)
 else (ttgrad)) in
let ttgrad := u_j_v in
let sgntx := (get 0 ttsgn [i; j; 1]) in
let u_j_v : (arr T) := (if (negb (sgntx =? 0))
 then (let t1 := (get (nofZ 0) tt_v [i; (j - sgntx)]) in
let ttgrad := (set ttgrad [i; j; 1] (ndiv (nmul (nofZ sgntx) (nsub (get (nofZ 0) tt_v [i; j]) t1)) dx)) in
ttgrad)
 else (ttgrad)) in
let ttgrad := u_j_v in
let gn := (Common.norm2d (get (nofZ 0) ttgrad [i; j; 0]) (get (nofZ 0) ttgrad [i; j; 1])) in
let u_j_v : (arr T) := (if (ngtb gn (nofZ 0))
 then (let ttgrad := (set_sub ttgrad [i; j] (amap (fun u_e_v => ndiv u_e_v gn) (get_sub ttgrad [i; j]))) in
ttgrad)
 else (ttgrad)) in
let ttgrad := u_j_v in
ttgrad) ttgrad in
let ttgrad := u_s_v in
ttgrad) ttgrad.
Definition assembly (tt_v : arr T) (ttsgn : arr Z) (ttgrad : arr T) (dz dx : T) (nz nx : Z) : arr T :=
for_list (pyrange 0 nz 1) (fun (i : Z) (u_s_v : (arr T)) =>
let ttgrad := u_s_v in
let u_s_v := for_list (pyrange 0 nx 1) (fun (j : Z) (u_s_v : (arr T)) =>
let ttgrad := u_s_v in
let sgntz := (get 0 ttsgn [i; j; 0]) in
let u_j_v : (arr T) := (if (negb (sgntz =? 0))
 then (let t1 := (get (nofZ 0) tt_v [(i - sgntz); j]) in
let ttgrad := (set ttgrad [i; j; 0] (ndiv (nmul (nofZ sgntz) (nsub (get (nofZ 0) tt_v [i; j]) t1)) dz)) in
ttgrad)
 else (ttgrad)) in
let ttgrad := u_j_v in
let sgntx := (get 0 ttsgn [i; j; 1]) in
let u_j_v : (arr T) := (if (negb (sgntx =? 0))
 then (let t1 := (get (nofZ 0) tt_v [i; (j - sgntx)]) in
let ttgrad := (set ttgrad [i; j; 1] (ndiv (nmul (nofZ sgntx) (nsub (get (nofZ 0) tt_v [i; j]) t1)) dx)) in
ttgrad)
 else (ttgrad)) in
let ttgrad := u_j_v in
let gn := (Common.norm2d (get (nofZ 0) ttgrad [i; j; 0]) (get (nofZ 0) ttgrad [i; j; 1])) in
let u_j_v : (arr T) := (if (ngtb gn (nofZ 0))
 then (let ttgrad := (set_sub ttgrad [i; j] (amap (fun u_e_v => ndiv u_e_v gn) (get_sub ttgrad [i; j]))) in
ttgrad)
 else (ttgrad)) in
let ttgrad := u_j_v in
ttgrad) ttgrad in
let ttgrad := u_s_v in
ttgrad) ttgrad.

Lemma fteik2d_ok_assembly (wI wD : bool) (slow : arr T) (dz dx zsrc xsrc : T) (nsweep : Z) (grad : bool) :
  fteik2d_ok wI wD slow dz dx zsrc xsrc nsweep grad =
let u_r_v := ((dim slow 0%nat), (dim slow 1%nat)) in
let nz := (fst u_r_v) in
let nx := (snd u_r_v) in
let condz := ((nleb (nofZ 0) zsrc) && (nleb zsrc (nmul dz (nofZ nz)))) in
let condx := ((nleb (nofZ 0) xsrc) && (nleb xsrc (nmul dx (nofZ nx)))) in
(if (negb (condz && condx)) return bool
 then (true)
 else ((fteik2d_p1_ok wI wD dx dz grad nx nz slow xsrc zsrc) &&
let u_p_v := (fteik2d_p1 dx dz grad nx nz slow xsrc zsrc) in
let iflag := (fst (fst (fst (fst (fst (fst (fst (fst (fst (fst u_p_v)))))))))) in
let nx := (snd (fst (fst (fst (fst (fst (fst (fst (fst (fst u_p_v)))))))))) in
let nz := (snd (fst (fst (fst (fst (fst (fst (fst (fst u_p_v))))))))) in
let tt_v := (snd (fst (fst (fst (fst (fst (fst (fst u_p_v)))))))) in
let ttgrad := (snd (fst (fst (fst (fst (fst (fst u_p_v))))))) in
let ttsgn := (snd (fst (fst (fst (fst (fst u_p_v)))))) in
let vzero := (snd (fst (fst (fst (fst u_p_v))))) in
let xsa := (snd (fst (fst (fst u_p_v)))) in
let xsi := (snd (fst (fst u_p_v))) in
let zsa := (snd (fst u_p_v)) in
let zsi := (snd u_p_v) in
(fteik2d_p2_ok wI wD dx dz grad iflag nx nz slow tt_v ttgrad ttsgn vzero xsa xsi zsa zsi) &&
let u_p_v := (fteik2d_p2 dx dz grad iflag nx nz slow tt_v ttgrad ttsgn vzero xsa xsi zsa zsi) in
let tt_v := (fst (fst u_p_v)) in
let ttgrad := (snd (fst u_p_v)) in
let ttsgn := (snd u_p_v) in
for_list_ok (pyrange 0 nsweep 1) (fun (u__v : Z) (u_s_v : ((arr T) * (arr Z))) =>
let tt_v := (fst u_s_v) in
let ttsgn := (snd u_s_v) in
(sweep2d_ok wI wD tt_v ttsgn slow dz dx (nofZ zsi) (nofZ xsi) zsa xsa vzero nz nx grad) &&
let u_r_v := (sweep2d tt_v ttsgn slow dz dx (nofZ zsi) (nofZ xsi) zsa xsa vzero nz nx grad) in
let tt_v := (fst u_r_v) in
let ttsgn := (snd u_r_v) in
true) (fun (u__v : Z) (u_s_v : ((arr T) * (arr Z))) =>
let tt_v := (fst u_s_v) in
let ttsgn := (snd u_s_v) in
let u_r_v := (sweep2d tt_v ttsgn slow dz dx (nofZ zsi) (nofZ xsi) zsa xsa vzero nz nx grad) in
let tt_v := (fst u_r_v) in
let ttsgn := (snd u_r_v) in
(tt_v, ttsgn)) (tt_v, ttsgn) &&
let u_s_v := for_list (pyrange 0 nsweep 1) (fun (u__v : Z) (u_s_v : ((arr T) * (arr Z))) =>
let tt_v := (fst u_s_v) in
let ttsgn := (snd u_s_v) in
let u_r_v := (sweep2d tt_v ttsgn slow dz dx (nofZ zsi) (nofZ xsi) zsa xsa vzero nz nx grad) in
let tt_v := (fst u_r_v) in
let ttsgn := (snd u_r_v) in
(tt_v, ttsgn)) (tt_v, ttsgn) in
let tt_v := (fst u_s_v) in
let ttsgn := (snd u_s_v) in
(if grad then assembly_ok wI wD tt_v ttsgn ttgrad dz dx nz nx && true else true))).
Proof. reflexivity. Qed.

Ltac shp1_solve :=
  cbv beta;
  lazymatch goal with
  | |- shape (for_list ?l ?b ?s) = ?sh =>
      apply (for_list_inv (fun g => shape g = sh) l b s); [ shp1_solve | intros ? ? ? ?; shp1_solve ]
  | |- shape (if ?c then _ else _) = _ => destruct c; shp1_solve
  | |- shape (set _ _ _) = _ => rewrite shape_set; shp1_solve
  | |- shape (set_sub _ _ _) = _ => rewrite shape_set_sub; shp1_solve
  | |- _ => assumption
  end.

Theorem assembly_ok_true (tt : arr T) (ttsgn : arr Z) (ttgrad : arr T) (dz dx : T) nz nx :
  shape tt = [nz; nx] -> sgn_inv nz nx ttsgn -> shape ttgrad = [nz; nx; 2] ->
  assembly_ok true false tt ttsgn ttgrad dz dx nz nx = true.
Proof.
  intros Htt (W & Ssg & Hq) Hg.
  cbv beta delta [assembly_ok].
  ok_walk_gen (fun g : arr T => shape g = [nz; nx; 2]) shp1_solve
    ltac:(first [ reflexivity
                | range_hyps;
                  match goal with Hi : 0 <= ?i < nz, Hj : 0 <= ?j < nx |- _ =>
                    destruct (Hq i j Hi Hj) as [Fz Fx]; unfold sgn_ok in Fz, Fx end;
                  inb_solve ]).
Qed.

(* the assembly loop keeps the shape of the gradient array *)
Lemma assembly_shape (tt : arr T) (ttsgn : arr Z) (ttgrad : arr T) (dz dx : T) nz nx :
  shape (assembly tt ttsgn ttgrad dz dx nz nx) = shape ttgrad.
Proof. unfold assembly. remember (shape ttgrad) as sh eqn:E. symmetry in E. shp1_solve. Qed.

(* ---------- sweeps and assembly together: the part of fteik2d after the source initialisation ---------- *)
(* `tail_ok` is a copy of the obligation text of `for _ in range(nsweep): sweep2d(...)` followed by the assembly, as
   it appears in `fteik2d_ok` (checked by `fteik2d_ok_tail`); zsi, xsi are the source cell indices as floats *)
Definition tail_ok (wI wD : bool) (slow : arr T) (dz dx zsi xsi zsa xsa vzero : T) (nz nx nsweep : Z) (grad : bool)
           (tt_v : arr T) (ttsgn : arr Z) (ttgrad : arr T) : bool :=
for_list_ok (pyrange 0 nsweep 1) (fun (u__v : Z) (u_s_v : ((arr T) * (arr Z))) =>
let tt_v := (fst u_s_v) in
let ttsgn := (snd u_s_v) in
(sweep2d_ok wI wD tt_v ttsgn slow dz dx zsi xsi zsa xsa vzero nz nx grad) &&
let u_r_v := (sweep2d tt_v ttsgn slow dz dx zsi xsi zsa xsa vzero nz nx grad) in
let tt_v := (fst u_r_v) in
let ttsgn := (snd u_r_v) in
true) (fun (u__v : Z) (u_s_v : ((arr T) * (arr Z))) =>
let tt_v := (fst u_s_v) in
let ttsgn := (snd u_s_v) in
let u_r_v := (sweep2d tt_v ttsgn slow dz dx zsi xsi zsa xsa vzero nz nx grad) in
let tt_v := (fst u_r_v) in
let ttsgn := (snd u_r_v) in
(tt_v, ttsgn)) (tt_v, ttsgn) &&
let u_s_v := for_list (pyrange 0 nsweep 1) (fun (u__v : Z) (u_s_v : ((arr T) * (arr Z))) =>
let tt_v := (fst u_s_v) in
let ttsgn := (snd u_s_v) in
let u_r_v := (sweep2d tt_v ttsgn slow dz dx zsi xsi zsa xsa vzero nz nx grad) in
let tt_v := (fst u_r_v) in
let ttsgn := (snd u_r_v) in
(tt_v, ttsgn)) (tt_v, ttsgn) in
let tt_v := (fst u_s_v) in
let ttsgn := (snd u_s_v) in
(if grad then assembly_ok wI wD tt_v ttsgn ttgrad dz dx nz nx && true else true).

Lemma fteik2d_ok_tail (wI wD : bool) (slow : arr T) (dz dx zsrc xsrc : T) (nsweep : Z) (grad : bool) :
  fteik2d_ok wI wD slow dz dx zsrc xsrc nsweep grad =
let u_r_v := ((dim slow 0%nat), (dim slow 1%nat)) in
let nz := (fst u_r_v) in
let nx := (snd u_r_v) in
let condz := ((nleb (nofZ 0) zsrc) && (nleb zsrc (nmul dz (nofZ nz)))) in
let condx := ((nleb (nofZ 0) xsrc) && (nleb xsrc (nmul dx (nofZ nx)))) in
(if (negb (condz && condx)) return bool
 then (true)
 else ((fteik2d_p1_ok wI wD dx dz grad nx nz slow xsrc zsrc) &&
let u_p_v := (fteik2d_p1 dx dz grad nx nz slow xsrc zsrc) in
let iflag := (fst (fst (fst (fst (fst (fst (fst (fst (fst (fst u_p_v)))))))))) in
let nx := (snd (fst (fst (fst (fst (fst (fst (fst (fst (fst u_p_v)))))))))) in
let nz := (snd (fst (fst (fst (fst (fst (fst (fst (fst u_p_v))))))))) in
let tt_v := (snd (fst (fst (fst (fst (fst (fst (fst u_p_v)))))))) in
let ttgrad := (snd (fst (fst (fst (fst (fst (fst u_p_v))))))) in
let ttsgn := (snd (fst (fst (fst (fst (fst u_p_v)))))) in
let vzero := (snd (fst (fst (fst (fst u_p_v))))) in
let xsa := (snd (fst (fst (fst u_p_v)))) in
let xsi := (snd (fst (fst u_p_v))) in
let zsa := (snd (fst u_p_v)) in
let zsi := (snd u_p_v) in
(fteik2d_p2_ok wI wD dx dz grad iflag nx nz slow tt_v ttgrad ttsgn vzero xsa xsi zsa zsi) &&
let u_p_v := (fteik2d_p2 dx dz grad iflag nx nz slow tt_v ttgrad ttsgn vzero xsa xsi zsa zsi) in
let tt_v := (fst (fst u_p_v)) in
let ttgrad := (snd (fst u_p_v)) in
let ttsgn := (snd u_p_v) in
tail_ok wI wD slow dz dx (nofZ zsi) (nofZ xsi) zsa xsa vzero nz nx nsweep grad tt_v ttsgn ttgrad)).
Proof. reflexivity. Qed.

Section Tail.
Variables (nz nx : Z) (grad : bool).
Definition tinv (s : arr T * arr Z) : Prop :=
  shape (fst s) = [nz; nx] /\ (grad = true -> sgn_inv nz nx (snd s)).
Lemma tinv_eta s : tinv s -> tinv (fst s, snd s).
Proof. intros Hs. exact Hs. Qed.
Lemma tinv_sweep2d tt ttsgn (slow : arr T) (dz dx zsi xsi zsa xsa vzero : T) :
  tinv (tt, ttsgn) ->
  tinv (fst (sweep2d tt ttsgn slow dz dx zsi xsi zsa xsa vzero nz nx grad),
        snd (sweep2d tt ttsgn slow dz dx zsi xsi zsa xsa vzero nz nx grad)).
Proof.
  intros [H1 H2]. cbn [fst snd] in *. split; cbn [fst snd].
  - rewrite (proj1 (sweep2d_shapes tt ttsgn slow dz dx zsi xsi zsa xsa vzero nz nx grad)). exact H1.
  - intros G. apply sweep2d_preserves_sgn_inv. auto.
Qed.
End Tail.

Ltac tinv_solve :=
  cbv beta;
  lazymatch goal with
  | |- tinv _ _ _ (for_list _ _ _) => apply for_list_inv; [ tinv_solve | intros ? ? ? ?; tinv_solve ]
  | |- tinv _ _ _ (fst ?x, snd ?x) =>
      first [ assumption | apply tinv_sweep2d; tinv_solve | apply tinv_eta; tinv_solve ]
  | |- _ => assumption
  end.

Theorem tail_ok_true (slow : arr T) (dz dx zsi xsi zsa xsa vzero : T) nz nx nsweep grad
        (tt : arr T) (ttsgn : arr Z) (ttgrad : arr T) :
  2 <= nz -> 2 <= nx -> shape tt = [nz; nx] -> shape slow = [nz - 1; nx - 1] ->
  (grad = true -> sgn_inv nz nx ttsgn /\ shape ttgrad = [nz; nx; 2]) ->
  tail_ok true false slow dz dx zsi xsi zsa xsa vzero nz nx nsweep grad tt ttsgn ttgrad = true.
Proof.
  intros Hnz Hnx Htt Hslow Hg.
  assert (H0 : tinv nz nx grad (tt, ttsgn)) by (split; [ exact Htt | intros G; apply Hg; exact G ]).
  cbv beta delta [tail_ok].
  ok_walk_gen (tinv nz nx grad) tinv_solve
    ltac:(idtac;
          match goal with
          | Hs : tinv _ _ _ ?s |- sweep2d_ok _ _ (fst ?s) _ _ _ _ _ _ _ _ _ _ _ _ = true =>
              destruct Hs as [Hs1 Hs2]; apply sweep2d_ok_true; auto;
              intros G; destruct (Hs2 G) as (_ & Sg & _); exact Sg
          | Hs : tinv _ _ _ ?s |- assembly_ok _ _ (fst ?s) _ _ _ _ _ _ = true =>
              destruct Hs as [Hs1 Hs2]; destruct (Hg eq_refl) as [_ Sgr];
              apply assembly_ok_true; auto
          end).
Qed.
End S2.

Print Assumptions sweep_ok_true.
Print Assumptions sweep2d_ok_true.
Print Assumptions sgn_inv_zeros.
Print Assumptions init_preserves_sgn_inv.
Print Assumptions sweep_preserves_sgn_inv.
Print Assumptions sweep2d_preserves_sgn_inv.
Print Assumptions fteik2d_ok_assembly.
Print Assumptions assembly_ok_true.
Print Assumptions fteik2d_ok_tail.
Print Assumptions tail_ok_true.
