(* Traveltimes of the 2D solver are zero only at a node coinciding with the source (clause of C03), over the reals
   (T := R, instance NumR), for ALL inputs with strictly positive slowness: every model with >= 1 cell per axis, every
   source accepted by the solver, any number of sweeps, with or without gradient.

   (zsa, xsa) below are the source coordinates in grid units in the solver's own frame, i.e. the components zsa, xsa of
   fteik2d_p1 (Solve2dProofs.i_zsa, i_xsa): each is zsrc/dz (resp. xsrc/dx) or its rounding to the nearest node
   coordinate, the latter only when it is within eps = 1e-15 of it (i_src_cases, i_src_detail, source_frame,
   source_frame_eps).

     0. four_point_gt_tev        the 4-point operator, under its admissibility test and vref > 0, is > tev (strict)
        Rtrunc_IZR, Rtrunc_bounds, Rround_spec, src_cell, src_round     int() / np.round() on the reals
     1. Good nz nx zsa xsa tt    invariant: tt well formed of shape [nz; nx], all entries >= 0, and
                                 PosAway: every in-range node (i,j) with IZR i <> zsa \/ IZR j <> xsa has tt[i,j] > 0
     2. sweep_good               one node update (Fteik2d.sweep) preserves Good
     3. sweep2d_good             one pass (Fteik2d.sweep2d) preserves Good
     4. fteik2d_p2_good          the initialisation establishes Good (via InitSym.fteik2d_p2_decompose: four corner
                                 writes t_ana > 0 off the source; every guarded write is >= td[k] > 0)
     5. init_good, iter_good     the same for the state before the first sweep / after k passes of fteik2d
        fteik2d_zero_only_at_source   MAIN: tt[i,j] = 0 -> IZR i = zsa /\ IZR j = xsa
        fteik2d_pos_away_from_source  contrapositive: every other node has tt > 0
        fteik2d_zero_only_at_source_raw   the same with the projections of fteik2d_p1 written out
        fteik2d_at_most_one_zero      at most one node carries 0
        fteik2d_zero_iff_source       both directions: tt[i,j] = 0 <-> IZR i = zsa /\ IZR j = xsa
                                      (when the frame puts the source on a node, iflag is 1 or 3, that node receives 0
                                      and keeps it; in the branch iflag = 2 the source is never on a node:
                                      iflag2_off_node, so no entry is 0 at all)
        fteik2d_zero_near_source      in terms of the inputs: tt[i,j] = 0 -> |i - zsrc/dz| <= 1e-15 /\ |j - xsrc/dx| <= 1e-15
     6. non-vacuity: a closed instance over R (exactly one zero, at the source node) and the generated solver run on
        binary64 by vm_compute (source on a node: exactly one entry == 0.0; source off the nodes: none).

   No write of an exact 0 at a non-source node was found: every value written is (a) an analytic time
   vzero * distance > 0, (b) guarded by  tnew >= td[k]  with td[k] > 0, or (c) min(t0, t1d, t2d) with t0 > 0 by the
   invariant, t1d >= dz * s > 0 resp. dx * s > 0, and t2d > 0 (4-point: > tev >= 0; 3-point: >= te > tev >= 0 resp.
   tv > tev; spherical: >= max(tv, te) > 0 since the two neighbours are distinct nodes; otherwise Big).
   What the proof needs from the code's guards: dxe = 1 - |xsa - xsi| >= 0 and dzd >= 0 (source inside its cell, which
   follows from the domain test 0 <= src <= d * n and the definition of zsi, xsi: src_cell, src_round). *)
From Coq Require Import ZArith List Bool Lia Reals Lra Psatz.
From FT.lib Require Import Num Arr ArrLemmas.
From FT.gen Require Import Fteik2d.
From FT.proofs Require Import OperatorsR Solve2dProofs InitSym NonNeg2d.
Import ListNotations.
Open Scope R_scope.

(* ------------------------------------------------------------------------------------------ *)
(* 0. real arithmetic                                                                           *)
(* ------------------------------------------------------------------------------------------ *)
Lemma pymin2_gt (m a b : R) : m < a -> m < b -> m < pymin2 a b.
Proof. intros Ha Hb. unfold pymin2. destruct (nltb b a); assumption. Qed.
Lemma pymin3_gt (m a b c : R) : m < a -> m < b -> m < c -> m < pymin3 a b c.
Proof. intros Ha Hb Hc. unfold pymin3. apply pymin2_gt; [apply pymin2_gt|]; assumption. Qed.

Lemma Big_pos : 0 < (Big : R).
Proof. unfold Big. cbn [nofZ NumR]. lra. Qed.

(* strict version of NonNeg2d.four_point_core: with vref > 0 the square root strictly dominates *)
Lemma four_point_core_strict (p q w vref : R) :
  0 < p -> 0 < q -> 0 < vref -> w * p <= vref -> - w * q <= vref ->
  w * (p * p - q * q) < sqrt (4 * (vref * vref) * (p * p + q * q) - p * p * (q * q) * ((2 * w) * (2 * w))).
Proof.
  intros Hp Hq Hv H1 H2.
  assert (Hvv : 0 < vref * vref) by nra.
  assert (HP : 0 < p * p) by nra. assert (HQ : 0 < q * q) by nra.
  destruct (Rle_dec (w * (p * p - q * q)) 0) as [Hn|Hn].
  - (* the radicand is > 0 *)
    eapply Rle_lt_trans; [exact Hn | apply sqrt_lt_R0].
    destruct (Rle_dec 0 w) as [Hw|Hw].
    + assert (P1 : 0 <= w * p) by (apply Rmult_le_pos; lra).
      assert (S1 : (w * p) * (w * p) <= vref * vref) by nra.
      assert (S2 : 0 <= (vref * vref - (w * p) * (w * p)) * (q * q)) by (apply Rmult_le_pos; nra).
      assert (S3 : 0 < (vref * vref) * (p * p)) by (apply Rmult_lt_0_compat; assumption).
      nra.
    + assert (P1 : 0 <= - w * q) by (apply Rmult_le_pos; lra).
      assert (S1 : (- w * q) * (- w * q) <= vref * vref) by nra.
      assert (S2 : 0 <= (vref * vref - (- w * q) * (- w * q)) * (p * p)) by (apply Rmult_le_pos; nra).
      assert (S3 : 0 < (vref * vref) * (q * q)) by (apply Rmult_lt_0_compat; assumption).
      nra.
  - assert (Hpos : 0 < w * (p * p - q * q)) by lra.
    rewrite <- (sqrt_square (w * (p * p - q * q))) by lra.
    apply sqrt_lt_1_alt. split; [nra|].
    assert (Hk : w * w * (p * p + q * q) <= 2 * (vref * vref)).
    { destruct (Rle_dec 0 w) as [Hw|Hw].
      - assert (Hpq : q <= p).
        { destruct (Rle_dec q p) as [|N]; [assumption|exfalso].
          assert (0 <= q * q - p * p) by nra.
          assert (0 <= w * (q * q - p * p)) by (apply Rmult_le_pos; lra). lra. }
        assert (Hwq : 0 <= w * q) by nra.
        assert (Hwp : w * q <= w * p) by nra.
        assert (S1 : (w * p) * (w * p) <= vref * vref) by nra.
        assert (S2 : (w * q) * (w * q) <= vref * vref) by nra.
        nra.
      - assert (Hw' : 0 < - w) by lra.
        assert (Hpq : p <= q).
        { destruct (Rle_dec p q) as [|N]; [assumption|exfalso].
          assert (0 <= p * p - q * q) by nra.
          assert (0 <= - w * (p * p - q * q)) by (apply Rmult_le_pos; lra). lra. }
        assert (Hwp : 0 <= - w * p) by nra.
        assert (Hwq : - w * p <= - w * q) by nra.
        assert (S1 : (- w * p) * (- w * p) <= vref * vref) by nra.
        assert (S2 : (- w * q) * (- w * q) <= vref * vref) by nra.
        nra. }
    assert (HA : 0 < p * p + q * q) by nra.
    assert (Hd : 0 < (p * p + q * q) * (4 * (vref * vref) - w * w * (p * p + q * q)))
      by (apply Rmult_lt_0_compat; nra).
    nra.
Qed.

(* the 4-point plane-wave operator, under the admissibility test applied by `sweep` and with a positive slowness,
   returns a value strictly above tev *)
Theorem four_point_gt_tev tv te tev vref dz dx :
  0 < dz -> 0 < dx -> 0 < vref ->
  tv <= te + dx * vref -> te <= tv + dz * vref ->
  tev < four_point tv te tev vref (1 / dz / dz) (1 / dx / dx).
Proof.
  intros Hdz Hdx Hv H1 H2. unfold four_point. cbv zeta.
  set (p := / dz). set (q := / dx).
  assert (Hp : 0 < p) by (apply Rinv_0_lt_compat; exact Hdz).
  assert (Hq : 0 < q) by (apply Rinv_0_lt_compat; exact Hdx).
  assert (Epz : p * dz = 1) by (unfold p; apply Rinv_l; lra).
  assert (Eqx : q * dx = 1) by (unfold q; apply Rinv_l; lra).
  replace (1 / dz / dz) with (p * p) by (unfold p; field; lra).
  replace (1 / dx / dx) with (q * q) by (unfold q; field; lra).
  set (w := te - tv).
  assert (W1 : w * p <= vref).
  { assert (w * p <= (dz * vref) * p) by (apply Rmult_le_compat_r; unfold w; lra).
    replace (dz * vref * p) with (vref * (p * dz)) in H by ring. rewrite Epz in H. lra. }
  assert (W2 : - w * q <= vref).
  { assert (- w * q <= (dx * vref) * q) by (apply Rmult_le_compat_r; unfold w; lra).
    replace (dx * vref * q) with (vref * (q * dx)) in H by ring. rewrite Eqx in H. lra. }
  pose proof (four_point_core_strict p q w vref Hp Hq Hv W1 W2) as Hc.
  replace (tev + te - tv - (tev - te + tv)) with (2 * w) by (unfold w; ring).
  set (S := sqrt _) in *.
  assert (HA : 0 < p * p + q * q) by nra.
  apply (Rmult_lt_reg_r (p * p + q * q)); [exact HA|].
  unfold Rdiv. rewrite Rmult_assoc, Rinv_l by lra.
  replace ((tev - te + tv) * (p * p) + (tev + te - tv) * (q * q))
    with (tev * (p * p + q * q) - w * (p * p - q * q)) by (unfold w; ring).
  lra.
Qed.

(* the worst case of the hint: diagonal neighbour at time 0 (the source), both others at 0 too *)
Example four_point_gt_tev_ex : 0 < four_point 0 0 0 1 (1 / 1 / 1) (1 / 2 / 2).
Proof. apply four_point_gt_tev; lra. Qed.

(* ---------- int() and np.round() on the reals ---------- *)
Lemma Int_part_unique r k : IZR k <= r < IZR k + 1 -> Int_part r = k.
Proof.
  intros [H1 H2]. unfold Int_part.
  assert (E : (k + 1)%Z = up r) by (apply tech_up; rewrite plus_IZR; lra). lia.
Qed.

Lemma Rtrunc_IZR k : Rtrunc (IZR k) = k.
Proof.
  unfold Rtrunc. destruct (Rle_dec 0 (IZR k)).
  - apply Int_part_unique; lra.
  - rewrite <- opp_IZR. rewrite (Int_part_unique (IZR (- k)) (- k)%Z); [lia | lra].
Qed.

Lemma Rtrunc_bounds x : 0 <= x -> (0 <= Rtrunc x)%Z /\ IZR (Rtrunc x) <= x < IZR (Rtrunc x) + 1.
Proof.
  intros Hx. unfold Rtrunc. destruct (Rle_dec 0 x) as [_|N]; [|contradiction].
  destruct (base_Int_part x) as [B1 B2]. split; [|lra].
  assert (IZR (-1) < IZR (Int_part x)) by (cbn; lra). apply lt_IZR in H. lia.
Qed.

Lemma Rround_spec x : exists k, Rround x = IZR k /\ Rabs (x - IZR k) <= 1 / 2.
Proof.
  unfold Rround. cbv zeta. destruct (base_Int_part x) as [B1 B2]. set (f := Int_part x) in *.
  destruct (Rlt_dec (x - IZR f) (1 / 2)) as [L|L].
  - exists f. split; [reflexivity|]. rewrite Rabs_right; lra.
  - assert (Hup : Rabs (x - IZR (f + 1)) <= 1 / 2).
    { rewrite plus_IZR. rewrite Rabs_left1; lra. }
    destruct (Rlt_dec (1 / 2) (x - IZR f)) as [L2|L2].
    + exists (f + 1)%Z. split; [reflexivity | exact Hup].
    + destruct (Z.even f).
      * exists f. split; [reflexivity|]. rewrite Rabs_right; lra.
      * exists (f + 1)%Z. split; [reflexivity | exact Hup].
Qed.

(* the source cell index computed by the code, and the rounded coordinate, for a coordinate 0 <= a <= n (n >= 1 cells) *)
Lemma src_cell a n :
  (1 <= n)%Z -> 0 <= a <= IZR n ->
  (0 <= Z.min (Rtrunc a) (n - 1) <= n - 1)%Z /\
  IZR (Z.min (Rtrunc a) (n - 1)) <= a <= IZR (Z.min (Rtrunc a) (n - 1)) + 1.
Proof.
  intros Hn [H0 H1]. destruct (Rtrunc_bounds a H0) as [T0 [T1 T2]].
  destruct (Z.min_spec (Rtrunc a) (n - 1)) as [[L ->]|[L ->]].
  - split; [lia|lra].
  - split; [lia|]. rewrite minus_IZR. split; [|lra].
    apply IZR_le in L. rewrite minus_IZR in L. lra.
Qed.

Lemma src_round a s :
  IZR s <= a <= IZR s + 1 -> exists k, Rround a = IZR k /\ (k = s \/ k = (s + 1)%Z).
Proof.
  intros [H0 H1]. destruct (Rround_spec a) as (k & E & Hk). exists k. split; [exact E|].
  assert (Hk' : - (1 / 2) <= a - IZR k <= 1 / 2)
    by (unfold Rabs in Hk; destruct (Rcase_abs (a - IZR k)); lra).
  assert (A : IZR (s - 1) < IZR k) by (rewrite minus_IZR; lra).
  assert (B : IZR k < IZR (s + 2)) by (rewrite plus_IZR; lra).
  apply lt_IZR in A, B. lia.
Qed.

(* ------------------------------------------------------------------------------------------ *)
(* 1. the invariant                                                                             *)
(* ------------------------------------------------------------------------------------------ *)
(* every node other than (zsa, xsa) carries a positive time *)
Definition PosAway (nz nx : Z) (zsa xsa : R) (tt : arr R) : Prop :=
  forall i j, (0 <= i < nz)%Z -> (0 <= j < nx)%Z -> (IZR i <> zsa \/ IZR j <> xsa) -> 0 < get 0 tt [i; j].
Definition Good (nz nx : Z) (zsa xsa : R) (tt : arr R) : Prop :=
  wf tt /\ shape tt = [nz; nx] /\ nonneg tt /\ PosAway nz nx zsa xsa tt.
(* every cell of a model with nz x nx nodes has positive slowness *)
Definition SlowPos (nz nx : Z) (slow : arr R) : Prop :=
  forall p q, (0 <= p < nz - 1)%Z -> (0 <= q < nx - 1)%Z -> 0 < get 0 slow [p; q].

Lemma inb2_in {A} (a : arr A) n0 n1 i j :
  shape a = [n0; n1] -> (0 <= i < n0)%Z -> (0 <= j < n1)%Z -> inb a [i; j] = true.
Proof.
  intros E Hi Hj. unfold inb. rewrite E. cbn [inb_sh].
  rewrite !andb_true_iff, !Z.leb_le, !Z.ltb_lt. lia.
Qed.
Lemma inb1_in {A} (a : arr A) n0 i : shape a = [n0] -> (0 <= i < n0)%Z -> inb a [i] = true.
Proof.
  intros E Hi. unfold inb. rewrite E. cbn [inb_sh]. rewrite !andb_true_iff, !Z.leb_le, !Z.ltb_lt. lia.
Qed.

Lemma Good_set nz nx zsa xsa tt i j v :
  Good nz nx zsa xsa tt -> (0 <= i < nz)%Z -> (0 <= j < nx)%Z ->
  0 <= v -> ((IZR i <> zsa \/ IZR j <> xsa) -> 0 < v) ->
  Good nz nx zsa xsa (set tt [i; j] v).
Proof.
  intros (W & Sh & Nn & Pa) Hi Hj Hv0 Hv. split; [apply wf_set, W|]. split; [exact Sh|].
  split; [apply nonneg_set; assumption|].
  intros p q Hp Hq Hne.
  destruct (list_eq_dec_Z [i; j] [p; q]) as [E|N].
  - injection E as -> ->. rewrite get_set_same; [auto | exact W | apply (inb2_in tt nz nx); assumption].
  - rewrite get_set_other; [apply Pa; assumption | | | exact N]; apply (inb2_in tt nz nx); assumption.
Qed.

Lemma Good_full nz nx zsa xsa : (0 <= nz)%Z -> (0 <= nx)%Z -> Good nz nx zsa xsa (full [nz; nx] Big).
Proof.
  intros Hz Hx. split; [apply wf_full; repeat constructor; assumption|]. split; [reflexivity|].
  split; [apply nonneg_full, Big_nonneg|].
  intros i j Hi Hj _. rewrite get_full; [apply Big_pos|].
  cbn [inb_sh]. rewrite !andb_true_iff, !Z.leb_le, !Z.ltb_lt. lia.
Qed.

Lemma Good_nonneg nz nx zsa xsa tt : Good nz nx zsa xsa tt -> nonneg tt.
Proof. intros (_ & _ & H & _). exact H. Qed.

(* the conclusion we are after, read off the invariant *)
Lemma Good_zero nz nx zsa xsa tt i j :
  Good nz nx zsa xsa tt -> (0 <= i < nz)%Z -> (0 <= j < nx)%Z -> get 0 tt [i; j] = 0 -> IZR i = zsa /\ IZR j = xsa.
Proof.
  intros (_ & _ & _ & Pa) Hi Hj E.
  destruct (Req_dec (IZR i) zsa) as [Ez|Nz]; [destruct (Req_dec (IZR j) xsa) as [Ex|Nx]|].
  - split; assumption.
  - specialize (Pa i j Hi Hj (or_intror Nx)). lra.
  - specialize (Pa i j Hi Hj (or_introl Nz)). lra.
Qed.

Lemma SlowPos_nonneg nz nx slow : wf slow -> shape slow = [(nz - 1)%Z; (nx - 1)%Z] -> SlowPos nz nx slow -> nonneg slow.
Proof.
  intros W Sh Sp. apply (nonneg_iff_get slow _ _ W Sh). intros i j Hi Hj. left. apply Sp; assumption.
Qed.

(* ------------------------------------------------------------------------------------------ *)
(* 2. one node update                                                                           *)
(* ------------------------------------------------------------------------------------------ *)
Lemma plane_t2d_pos tv te tev vref dz dx :
  0 < dz -> 0 < dx -> 0 < vref -> 0 <= tv -> 0 <= te -> 0 <= tev ->
  0 < plane_t2d tv te tev vref dz dx (1 / dz / dz) (1 / dx / dx).
Proof.
  intros Hdz Hdx Hv Htv Hte Htev. unfold plane_t2d.
  destruct (adm4 tv te tev vref dz dx) eqn:E4.
  - apply adm4_true in E4. destruct E4 as (A1 & A2 & _ & _).
    eapply Rle_lt_trans; [exact Htev | apply four_point_gt_tev; assumption].
  - destruct (adm3e te tev vref dz dx) eqn:E3.
    + apply adm3e_true in E3. destruct E3 as [_ E3].
      unfold three_point_e. pose proof (sqrt_pos (vref * vref - (te - tev) / dz * ((te - tev) / dz))). nra.
    + destruct (adm3v tv tev vref dz dx) eqn:E3v.
      * apply adm3v_true in E3v. destruct E3v as [_ E3v].
        unfold three_point_v. pose proof (sqrt_pos (vref * vref - (tv - tev) / dx * ((tv - tev) / dx))). nra.
      * apply Big_pos.
Qed.

Lemma spherical_t2d_pos tv te tev vref dz dx dzi dxi dz2i dx2i zsa xsa vzero i j sgntz sgntx :
  0 <= tv -> 0 <= te -> (0 < tv \/ 0 < te) ->
  0 < spherical_t2d tv te tev vref dz dx dzi dxi dz2i dx2i zsa xsa vzero i j sgntz sgntx.
Proof.
  intros Htv Hte Hor. unfold spherical_t2d. destruct (admS tv te tev vref dz dx); [|apply Big_pos]. cbv zeta.
  set (d := spherical_raw _ _ _ _ _ _ _ _ _ _ _ _ _ _ _ _ _).
  destruct (Rltb d tv) eqn:E1; cbn [orb]; [apply Big_pos|].
  destruct (Rltb d te) eqn:E2; [apply Big_pos|]. apply Rltb_false in E1, E2. lra.
Qed.

Section Node.
Variables (tt slow : arr R) (dz dx zsi xsi zsa xsa vzero : R) (i j sgnvz sgnvx sgntz sgntx nz nx : Z).
Hypotheses (Hdz : 0 < dz) (Hdx : 0 < dx) (Hs : SlowPos nz nx slow) (Ht : Good nz nx zsa xsa tt).
Hypotheses (Hnz : (2 <= nz)%Z) (Hnx : (2 <= nx)%Z) (Hi : (0 <= i < nz)%Z) (Hj : (0 <= j < nx)%Z).
Hypotheses (Hiv : (0 <= i - sgnvz < nz - 1)%Z) (Hjv : (0 <= j - sgnvx < nx - 1)%Z).
Hypotheses (Hit : (0 <= i - sgntz < nz)%Z) (Hjt : (0 <= j - sgntx < nx)%Z) (Hsg : sgntz <> 0%Z).

Lemma nb_or_pos : 0 < nb_v tt i j sgntz \/ 0 < nb_e tt i j sgntx.
Proof.
  destruct Ht as (_ & _ & _ & Pa). unfold nb_v, nb_e.
  destruct (Req_dec (IZR (i - sgntz)) zsa) as [Ez|Nz].
  - right. apply Pa; try assumption. left. intros E. rewrite <- Ez in E. apply eq_IZR in E. lia.
  - left. apply Pa; try assumption. left. exact Nz.
Qed.

Lemma t1d_pos : 0 < t1d tt slow dz dx i j sgnvz sgnvx sgntz sgntx nz nx.
Proof.
  pose proof (Good_nonneg _ _ _ _ _ Ht) as Nn.
  unfold t1d, t1d_z, t1d_x, edge_s_z, edge_s_x, nb_v, nb_e.
  apply pymin2_gt.
  - match goal with |- 0 < ?a + dz * ?m =>
      assert (0 <= a) by (apply get_nonneg, Nn);
      assert (0 < m) by (apply pymin2_gt; apply Hs; lia) end. nra.
  - match goal with |- 0 < ?a + dx * ?m =>
      assert (0 <= a) by (apply get_nonneg, Nn);
      assert (0 < m) by (apply pymin2_gt; apply Hs; lia) end. nra.
Qed.

Lemma sweep_t2d_pos :
  0 < sweep_t2d tt slow dz dx (1 / dz) (1 / dx) (1 / dz / dz) (1 / dx / dx) zsi xsi zsa xsa vzero i j sgnvz sgnvx sgntz sgntx.
Proof.
  pose proof (Good_nonneg _ _ _ _ _ Ht) as Nn.
  unfold sweep_t2d. cbv zeta. destruct (outside_box zsi xsi i j).
  - apply plane_t2d_pos; try assumption; [unfold cell_s; apply Hs; assumption | | |];
      unfold nb_v, nb_e, nb_ev; apply get_nonneg, Nn.
  - apply spherical_t2d_pos; [unfold nb_v; apply get_nonneg, Nn | unfold nb_e; apply get_nonneg, Nn | apply nb_or_pos].
Qed.

Lemma sweep_good ttsgn grad :
  wf slow -> shape slow = [(nz - 1)%Z; (nx - 1)%Z] ->
  Good nz nx zsa xsa
    (fst (sweep tt ttsgn slow (dz, dx, 1 / dz, 1 / dx, 1 / dz / dz, 1 / dx / dx) zsi xsi zsa xsa vzero
                i j sgnvz sgnvx sgntz sgntx nz nx grad)).
Proof.
  intros Ws Ss. pose proof (SlowPos_nonneg _ _ _ Ws Ss Hs) as Ns.
  pose proof (Good_nonneg _ _ _ _ _ Ht) as Nn.
  rewrite sweep_tt_eq. apply Good_set; try assumption.
  - apply sweep_value_nonneg; assumption.
  - intros Hne. apply pymin3_gt.
    + destruct Ht as (_ & _ & _ & Pa). apply Pa; assumption.
    + apply t1d_pos.
    + apply sweep_t2d_pos.
Qed.
End Node.

(* ------------------------------------------------------------------------------------------ *)
(* 3. one pass                                                                                  *)
(* ------------------------------------------------------------------------------------------ *)
Ltac good2d :=
  cbn beta iota delta [fst snd];
  lazymatch goal with
  | |- Good ?nz ?nx ?zsa ?xsa (fst (for_list ?l ?b ?s)) =>
      apply (for_list_inv (fun st : arr R * arr Z => Good nz nx zsa xsa (fst st)));
      [ good2d | let Hin := fresh "Hin" in intros ? ? Hin ?; good2d ]
  | |- Good _ _ _ _ (fst (sweep _ _ _ _ _ _ _ _ _ _ _ _ _ _ _ _ _ _)) =>
      repeat match goal with
             | H : In _ (pyrange _ _ 1) |- _ => apply in_pyrange_up in H
             | H : In _ (pyrange _ _ (-1)) |- _ => apply in_pyrange_down in H
             end;
      apply sweep_good; try assumption; lia
  | |- _ => assumption
  end.

Theorem sweep2d_good (tt : arr R) ttsgn (slow : arr R) (dz dx zsi xsi zsa xsa vzero : R) nz nx grad :
  0 < dz -> 0 < dx -> (2 <= nz)%Z -> (2 <= nx)%Z ->
  wf slow -> shape slow = [(nz - 1)%Z; (nx - 1)%Z] -> SlowPos nz nx slow ->
  Good nz nx zsa xsa tt ->
  Good nz nx zsa xsa (fst (sweep2d tt ttsgn slow dz dx zsi xsi zsa xsa vzero nz nx grad)).
Proof.
  intros Hdz Hdx Hnz Hnx Ws Ss Hs Ht. unfold sweep2d. cbv zeta. good2d.
Qed.

(* ---------- converse direction: a node holding the time 0 keeps it ---------- *)
Lemma pymin3_zero (a b : R) : 0 <= a -> 0 <= b -> pymin3 0 a b = 0.
Proof.
  intros Ha Hb. unfold pymin3, pymin2. cbn [nltb NumR].
  destruct (Rltb a 0) eqn:E1; [apply Rltb_true in E1; lra|].
  destruct (Rltb b 0) eqn:E2; [apply Rltb_true in E2; lra | reflexivity].
Qed.

Definition GoodZ (nz nx : Z) (zsa xsa : R) (kz kx : Z) (tt : arr R) : Prop :=
  Good nz nx zsa xsa tt /\ get 0 tt [kz; kx] = 0.

Lemma sweep_zero_kept (tt : arr R) ttsgn (slow : arr R) (dz dx zsi xsi zsa xsa vzero : R)
      i j sgnvz sgnvx sgntz sgntx nz nx grad kz kx :
  0 < dz -> 0 < dx -> nonneg slow -> wf tt -> shape tt = [nz; nx] -> nonneg tt ->
  (0 <= i < nz)%Z -> (0 <= j < nx)%Z -> (0 <= kz < nz)%Z -> (0 <= kx < nx)%Z ->
  get 0 tt [kz; kx] = 0 ->
  get 0 (fst (sweep tt ttsgn slow (dz, dx, 1 / dz, 1 / dx, 1 / dz / dz, 1 / dx / dx) zsi xsi zsa xsa vzero
                    i j sgnvz sgnvx sgntz sgntx nz nx grad)) [kz; kx] = 0.
Proof.
  intros Hdz Hdx Ns W Sh Nn Hi Hj Hkz Hkx E0. rewrite sweep_tt_eq.
  destruct (list_eq_dec_Z [i; j] [kz; kx]) as [E|N].
  - injection E as -> ->. rewrite get_set_same; [| exact W | apply (inb2_in tt nz nx); assumption].
    rewrite E0. apply pymin3_zero; [apply t1d_nonneg | apply sweep_t2d_nonneg]; assumption.
  - rewrite get_set_other; [exact E0 | | | exact N]; apply (inb2_in tt nz nx); assumption.
Qed.

Ltac goodz2d :=
  cbn beta iota delta [fst snd];
  lazymatch goal with
  | |- GoodZ ?nz ?nx ?zsa ?xsa ?kz ?kx (fst (for_list ?l ?b ?s)) =>
      apply (for_list_inv (fun st : arr R * arr Z => GoodZ nz nx zsa xsa kz kx (fst st)));
      [ goodz2d | let Hin := fresh "Hin" in intros ? ? Hin ?; goodz2d ]
  | |- GoodZ _ _ _ _ _ _ (fst (sweep _ _ _ _ _ _ _ _ _ _ _ _ _ _ _ _ _ _)) =>
      repeat match goal with
             | H : In _ (pyrange _ _ 1) |- _ => apply in_pyrange_up in H
             | H : In _ (pyrange _ _ (-1)) |- _ => apply in_pyrange_down in H
             end;
      match goal with H : GoodZ _ _ _ _ _ _ _ |- _ =>
        let HG := fresh "HG" in let HZ := fresh "HZ" in destruct H as [HG HZ];
        split; [ apply sweep_good; try assumption; lia
               | destruct HG as (? & ? & ? & _); apply sweep_zero_kept; try assumption; lia ] end
  | |- _ => assumption
  end.

Lemma sweep2d_goodz (tt : arr R) ttsgn (slow : arr R) (dz dx zsi xsi zsa xsa vzero : R) nz nx grad kz kx :
  0 < dz -> 0 < dx -> (2 <= nz)%Z -> (2 <= nx)%Z ->
  wf slow -> shape slow = [(nz - 1)%Z; (nx - 1)%Z] -> SlowPos nz nx slow ->
  (0 <= kz < nz)%Z -> (0 <= kx < nx)%Z ->
  GoodZ nz nx zsa xsa kz kx tt ->
  GoodZ nz nx zsa xsa kz kx (fst (sweep2d tt ttsgn slow dz dx zsi xsi zsa xsa vzero nz nx grad)).
Proof.
  intros Hdz Hdx Hnz Hnx Ws Ss Hs Hkz Hkx Ht.
  pose proof (SlowPos_nonneg _ _ _ Ws Ss Hs) as Ns.
  unfold sweep2d. cbv zeta. goodz2d.
Qed.

(* ------------------------------------------------------------------------------------------ *)
(* 4. the initial state                                                                         *)
(* ------------------------------------------------------------------------------------------ *)
Lemma t_ana_pos i j (dz dx zsa xsa vzero : R) :
  0 < dz -> 0 < dx -> 0 < vzero -> (IZR i <> zsa \/ IZR j <> xsa) -> 0 < t_ana i j dz dx zsa xsa vzero.
Proof.
  intros Hdz Hdx Hv Hne. rewrite t_ana_exact. apply Rmult_lt_0_compat; [exact Hv|]. apply sqrt_lt_R0.
  set (a := dz * (IZR i - zsa)). set (b := dx * (IZR j - xsa)).
  replace (a ^ 2 + b ^ 2) with (a * a + b * b) by ring.
  assert (Ha : 0 <= a * a) by nra. assert (Hb : 0 <= b * b) by nra.
  destruct Hne as [N|N].
  - assert (a <> 0) by (unfold a; apply Rmult_integral_contrapositive_currified; lra).
    destruct (Rtotal_order a 0) as [L|[L|L]]; [nra | contradiction | nra].
  - assert (b <> 0) by (unfold b; apply Rmult_integral_contrapositive_currified; lra).
    destruct (Rtotal_order b 0) as [L|[L|L]]; [nra | contradiction | nra].
Qed.

(* the scratch line td: well formed, of length m, non-negative *)
Definition TdOK (m : Z) (td : arr R) : Prop := wf td /\ shape td = [m] /\ nonneg td.
(* loop state (td, tt, ttsgn) of the four source-line loops *)
Definition StI (nz nx : Z) (zsa xsa : R) (st : arr R * arr R * arr Z) : Prop :=
  TdOK (Z.max nz nx) (fst (fst st)) /\ Good nz nx zsa xsa (snd (fst st)).

Lemma TdOK_set m td idx v : TdOK m td -> 0 <= v -> TdOK m (set td idx v).
Proof. intros (W & S & N) Hv. split; [apply wf_set, W|]. split; [exact S|]. apply nonneg_set; assumption. Qed.

Lemma TdOK_full m : (0 <= m)%Z -> TdOK m (full [m] Big).
Proof.
  intros Hm. split; [apply wf_full; repeat constructor; exact Hm|]. split; [reflexivity|]. apply nonneg_full, Big_nonneg.
Qed.

(* td[k] = td[kp] + v with v > 0: the line stays non-negative and the entry just written is > 0 *)
Lemma td_step m td k kp v :
  TdOK m td -> (0 <= k < m)%Z -> 0 < v ->
  TdOK m (set td [k] (get 0 td [kp] + v)) /\ 0 < get 0 (set td [k] (get 0 td [kp] + v)) [k].
Proof.
  intros (W & S & N) Hk Hv. pose proof (get_nonneg td [kp] N) as Hp. split.
  - apply TdOK_set; [split; [exact W | split; [exact S | exact N]] | lra].
  - rewrite get_set_same; [lra | exact W | apply (inb1_in td m); assumption].
Qed.

Section Init.
Variables (nz nx : Z) (dx dz : R) (grad : bool) (slow : arr R) (vzero xsa zsa : R).
Hypotheses (Hdz : 0 < dz) (Hdx : 0 < dx) (Hv : 0 < vzero) (Hs : SlowPos nz nx slow).

Lemma corner_good i j tt G :
  Good nz nx zsa xsa tt -> (0 <= i < nz)%Z -> (0 <= j < nx)%Z ->
  Good nz nx zsa xsa (fst (corner dx dz grad vzero xsa zsa i j tt G)).
Proof.
  intros Ht Hi Hj. unfold corner. cbv zeta. cbn [fst]. rewrite t_anad_fst. apply Good_set; try assumption.
  - apply t_ana_nonneg. lra.
  - intros Hne. apply t_ana_pos; assumption.
Qed.

Lemma init_corners_good xsi zsi tt G :
  Good nz nx zsa xsa tt -> (0 <= zsi)%Z -> (zsi + 1 < nz)%Z -> (0 <= xsi)%Z -> (xsi + 1 < nx)%Z ->
  Good nz nx zsa xsa (fst (init_corners dx dz grad vzero xsa xsi zsa zsi tt G)).
Proof.
  intros Ht Z0 Z1 X0 X1. unfold init_corners. cbv zeta. repeat (apply corner_good; [|lia|lia]). exact Ht.
Qed.

(* one guarded write of an x-loop *)
Lemma blk_x_good dxi dx2i row dzw sgz sgx jp j vref tauv tauev td tt ttsgn :
  Good nz nx zsa xsa tt -> (0 <= row < nz)%Z -> (0 <= j < nx)%Z -> 0 < get 0 td [j] ->
  Good nz nx zsa xsa
    (fst (blk_x dx dz grad vzero xsa zsa dxi dx2i row dzw sgz sgx jp j vref tauv tauev td tt ttsgn)).
Proof.
  intros Ht Hr Hj Htd. unfold blk_x.
  lazymatch goal with |- Good _ _ _ _ (fst (if ?c then _ else _)) => destruct c end; [|exact Ht].
  cbv zeta. cbn [fst snd].
  lazymatch goal with |- Good _ _ _ _ (fst (if ?c then _ else _)) => destruct c eqn:E end; [|exact Ht].
  cbn [fst snd].
  apply andb_true_iff in E. destruct E as [_ E]. unfold ngeb in E. cbn [nleb NumR] in E. apply Rleb_true in E.
  lazymatch goal with |- Good _ _ _ _ (set _ _ ?t) =>
    assert (Hpos : 0 < t) by (eapply Rlt_le_trans; [exact Htd | exact E]) end.
  apply Good_set; try assumption; [left; exact Hpos | intros _; exact Hpos].
Qed.

(* one guarded write of a z-loop *)
Lemma blk_z_good dzi dz2i col dxw sgz sgx ip i vref taue tauev td tt ttsgn :
  Good nz nx zsa xsa tt -> (0 <= i < nz)%Z -> (0 <= col < nx)%Z -> 0 < get 0 td [i] ->
  Good nz nx zsa xsa
    (fst (blk_z dx dz grad vzero xsa zsa dzi dz2i col dxw sgz sgx ip i vref taue tauev td tt ttsgn)).
Proof.
  intros Ht Hr Hj Htd. unfold blk_z.
  lazymatch goal with |- Good _ _ _ _ (fst (if ?c then _ else _)) => destruct c end; [|exact Ht].
  cbv zeta. cbn [fst snd].
  lazymatch goal with |- Good _ _ _ _ (fst (if ?c then _ else _)) => destruct c eqn:E end; [|exact Ht].
  cbn [fst snd].
  apply andb_true_iff in E. destruct E as [_ E]. unfold ngeb in E. cbn [nleb NumR] in E. apply Rleb_true in E.
  lazymatch goal with |- Good _ _ _ _ (set _ _ ?t) =>
    assert (Hpos : 0 < t) by (eapply Rlt_le_trans; [exact Htd | exact E]) end.
  apply Good_set; try assumption; [left; exact Hpos | intros _; exact Hpos].
Qed.

(* the four loop bodies *)
Ltac body_tac k kp :=
  cbv zeta;
  lazymatch goal with Htd : TdOK _ (fst (fst ?st)) |- context [set (fst (fst ?st)) [k] (nadd _ ?u)] =>
    let H1 := fresh "Htd'" in let H2 := fresh "Hpos" in
    destruct (td_step _ _ k kp u Htd) as [H1 H2];
    [ lia | cbn [nmul NumR]; apply Rmult_lt_0_compat; [assumption | apply Hs; lia] | ]
  end;
  split; cbn [fst snd]; [assumption|].

Lemma east_body_inv zsi dzu dzd dxi dx2i j st :
  StI nz nx zsa xsa st -> (0 <= zsi)%Z -> (zsi + 1 < nz)%Z -> (1 <= j < nx)%Z ->
  StI nz nx zsa xsa (east_body dx dz grad slow vzero xsa zsa zsi dzu dzd dxi dx2i j st).
Proof.
  intros Hst Z0 Z1 Hj. destruct Hst as [Htd Htt]. unfold east_body. body_tac j (j - 1)%Z.
  apply blk_x_good; [apply blk_x_good|..]; try assumption; lia.
Qed.

Lemma west_body_inv zsi dzu dzd dxi dx2i j st :
  StI nz nx zsa xsa st -> (0 <= zsi)%Z -> (zsi + 1 < nz)%Z -> (0 <= j < nx - 1)%Z ->
  StI nz nx zsa xsa (west_body dx dz grad slow vzero xsa zsa zsi dzu dzd dxi dx2i j st).
Proof.
  intros Hst Z0 Z1 Hj. destruct Hst as [Htd Htt]. unfold west_body. body_tac j (j + 1)%Z.
  apply blk_x_good; [apply blk_x_good|..]; try assumption; lia.
Qed.

Lemma down_body_inv xsi dxw dxe dzi dz2i i st :
  StI nz nx zsa xsa st -> (0 <= xsi)%Z -> (xsi + 1 < nx)%Z -> (1 <= i < nz)%Z ->
  StI nz nx zsa xsa (down_body dx dz grad slow vzero xsa zsa xsi dxw dxe dzi dz2i i st).
Proof.
  intros Hst X0 X1 Hi. destruct Hst as [Htd Htt]. unfold down_body. body_tac i (i - 1)%Z.
  apply blk_z_good; [apply blk_z_good|..]; try assumption; lia.
Qed.

Lemma up_body_inv xsi dxw dxe dzi dz2i i st :
  StI nz nx zsa xsa st -> (0 <= xsi)%Z -> (xsi + 1 < nx)%Z -> (0 <= i < nz - 1)%Z ->
  StI nz nx zsa xsa (up_body dx dz grad slow vzero xsa zsa xsi dxw dxe dzi dz2i i st).
Proof.
  intros Hst X0 X1 Hi. destruct Hst as [Htd Htt]. unfold up_body. body_tac i (i + 1)%Z.
  apply blk_z_good; [apply blk_z_good|..]; try assumption; lia.
Qed.
End Init.

Section Phases.
Variables (nz nx : Z) (dx dz : R) (grad : bool) (slow : arr R) (vzero xsa zsa : R) (xsi zsi : Z).
Hypotheses (Hdz : 0 < dz) (Hdx : 0 < dx) (Hv : 0 < vzero) (Hs : SlowPos nz nx slow).
Hypotheses (Z0 : (0 <= zsi)%Z) (Z1 : (zsi + 1 < nz)%Z) (X0 : (0 <= xsi)%Z) (X1 : (xsi + 1 < nx)%Z).

Lemma seed_nonneg d h : 0 <= d -> 0 < h -> 0 <= nmul (nmul vzero d) h.
Proof. intros Hd Hh. cbn [nmul NumR]. apply Rmult_le_pos; [apply Rmult_le_pos|]; lra. Qed.

Lemma east_phase_inv dzu dzd dxe st :
  0 <= dxe -> StI nz nx zsa xsa st ->
  StI nz nx zsa xsa (east_phase dx dz grad nx slow vzero xsa xsi zsa zsi dzu dzd dxe st).
Proof.
  intros Hd [Htd Htt]. unfold east_phase. cbv zeta. apply (for_list_inv (StI nz nx zsa xsa)).
  - split; cbn [fst snd]; [apply TdOK_set; [exact Htd | apply seed_nonneg; assumption] | exact Htt].
  - intros j s Hin Hst. apply in_pyrange_up in Hin. apply east_body_inv; try assumption; lia.
Qed.

Lemma west_phase_inv dzu dzd dxw st :
  0 <= dxw -> StI nz nx zsa xsa st ->
  StI nz nx zsa xsa (west_phase dx dz grad slow vzero xsa xsi zsa zsi dzu dzd dxw st).
Proof.
  intros Hd [Htd Htt]. unfold west_phase. cbv zeta. apply (for_list_inv (StI nz nx zsa xsa)).
  - split; cbn [fst snd]; [apply TdOK_set; [exact Htd | apply seed_nonneg; assumption] | exact Htt].
  - intros j s Hin Hst. apply in_pyrange_down in Hin. apply west_body_inv; try assumption; lia.
Qed.

Lemma down_phase_inv dxw dxe dzd st :
  0 <= dzd -> StI nz nx zsa xsa st ->
  StI nz nx zsa xsa (down_phase dx dz grad nz slow vzero xsa xsi zsa zsi dxw dxe dzd st).
Proof.
  intros Hd [Htd Htt]. unfold down_phase. cbv zeta. apply (for_list_inv (StI nz nx zsa xsa)).
  - split; cbn [fst snd]; [apply TdOK_set; [exact Htd | apply seed_nonneg; assumption] | exact Htt].
  - intros j s Hin Hst. apply in_pyrange_up in Hin. apply down_body_inv; try assumption; lia.
Qed.

Lemma up_phase_inv dxw dxe dzu st :
  0 <= dzu -> StI nz nx zsa xsa st ->
  StI nz nx zsa xsa (up_phase dx dz grad slow vzero xsa xsi zsa zsi dxw dxe dzu st).
Proof.
  intros Hd [Htd Htt]. unfold up_phase. cbv zeta. apply (for_list_inv (StI nz nx zsa xsa)).
  - split; cbn [fst snd]; [apply TdOK_set; [exact Htd | apply seed_nonneg; assumption] | exact Htt].
  - intros j s Hin Hst. apply in_pyrange_down in Hin. apply up_body_inv; try assumption; lia.
Qed.

(* td[:] = Big between the x-loops and the z-loops *)
Lemma StI_fill st :
  StI nz nx zsa xsa st -> StI nz nx zsa xsa (fill (fst (fst st)) Big, snd (fst st), snd st).
Proof.
  intros [(W & S & N) Htt]. split; cbn [fst snd]; [|exact Htt].
  unfold fill. rewrite S. apply TdOK_full. lia.
Qed.

(* the initialisation, for the source position (zsa, xsa) in cell (zsi, xsi): zsi <= zsa <= zsi+1, xsi <= xsa <= xsi+1;
   when iflag <> 2 the code writes at [int(zsa); int(xsa)], which is the source node when zsa, xsa are integers *)
Lemma fteik2d_p2_good iflag G S :
  IZR zsi <= zsa <= IZR zsi + 1 -> IZR xsi <= xsa <= IZR xsi + 1 ->
  (iflag <> 2%Z -> exists kz kx, zsa = IZR kz /\ xsa = IZR kx) ->
  Good nz nx zsa xsa
    (fst (fst (fteik2d_p2 dx dz grad iflag nx nz slow (full [nz; nx] Big) G S vzero xsa xsi zsa zsi))).
Proof.
  intros Hz Hx Hfl. rewrite fteik2d_p2_decompose.
  assert (G0 : Good nz nx zsa xsa (full [nz; nx] Big)) by (apply Good_full; lia).
  destruct (iflag =? 2)%Z eqn:Ef.
  - cbv zeta. cbn [fst snd nabs nsub nofZ NumR].
    assert (Hzu : 0 <= Rabs (zsa - IZR zsi)) by apply Rabs_pos.
    assert (Hxw : 0 <= Rabs (xsa - IZR xsi)) by apply Rabs_pos.
    assert (Hzd : 0 <= 1 - Rabs (zsa - IZR zsi)) by (rewrite Rabs_right; lra).
    assert (Hxe : 0 <= 1 - Rabs (xsa - IZR xsi)) by (rewrite Rabs_right; lra).
    lazymatch goal with |- Good _ _ _ _ (snd (fst ?st)) => cut (StI nz nx zsa xsa st); [intros [_ H]; exact H|] end.
    apply up_phase_inv; [exact Hzu|].
    apply down_phase_inv; [exact Hzd|].
    apply StI_fill.
    apply west_phase_inv; [exact Hxw|].
    apply east_phase_inv; [exact Hxe|].
    split; cbn [fst snd]; [apply TdOK_full; lia|].
    apply init_corners_good; assumption.
  - cbn [fst snd]. apply Z.eqb_neq in Ef. destruct (Hfl Ef) as (kz & kx & Ez & Ex).
    cbn [ntrunc nofZ NumR]. rewrite Ez, Ex, !Rtrunc_IZR.
    rewrite Ez in Hz. rewrite Ex in Hx.
    assert (A1 : IZR (zsi - 1) < IZR kz) by (rewrite minus_IZR; lra).
    assert (A2 : IZR kz < IZR (zsi + 2)) by (rewrite plus_IZR; lra).
    assert (B1 : IZR (xsi - 1) < IZR kx) by (rewrite minus_IZR; lra).
    assert (B2 : IZR kx < IZR (xsi + 2)) by (rewrite plus_IZR; lra).
    apply lt_IZR in A1, A2, B1, B2.
    rewrite Ez, Ex in G0.
    apply Good_set; [exact G0 | lia | lia | lra |].
    intros [N|N]; exfalso; apply N; reflexivity.
Qed.
(* when iflag <> 2 the node [int(zsa); int(xsa)] = (zsa, xsa) receives the time 0 *)
Lemma fteik2d_p2_zero iflag G S kz kx :
  iflag <> 2%Z -> zsa = IZR kz -> xsa = IZR kx -> (0 <= kz < nz)%Z -> (0 <= kx < nx)%Z ->
  get 0 (fst (fst (fteik2d_p2 dx dz grad iflag nx nz slow (full [nz; nx] Big) G S vzero xsa xsi zsa zsi))) [kz; kx] = 0.
Proof.
  intros Hfl Ez Ex Hkz Hkx. rewrite fteik2d_p2_decompose.
  apply Z.eqb_neq in Hfl. rewrite Hfl. cbn [fst snd ntrunc nofZ NumR]. rewrite Ez, Ex, !Rtrunc_IZR.
  apply get_set_same; [apply wf_full; repeat constructor; lia|].
  apply (inb2_in _ nz nx); [reflexivity | lia | lia].
Qed.
End Phases.

(* ------------------------------------------------------------------------------------------ *)
(* 5. the solver                                                                                *)
(* ------------------------------------------------------------------------------------------ *)
Section Solver.
Variables (slow : arr R) (dz dx zsrc xsrc : R).
Notation zsa := (i_zsa slow dz dx zsrc xsrc).
Notation xsa := (i_xsa slow dz dx zsrc xsrc).
Notation zsi := (i_zsi slow dz dx zsrc xsrc).
Notation xsi := (i_xsi slow dz dx zsrc xsrc).

(* what fteik2d_p1 computes (straight-line code): source cell, source slowness, source position in grid units *)
Lemma i_zsi_eq grad : zsi grad = Z.min (Rtrunc (zsrc / dz)) (dim slow 0 - 1).
Proof. unfold i_zsi, p1. cbv beta delta [fteik2d_p1]. reflexivity. Qed.
Lemma i_xsi_eq grad : xsi grad = Z.min (Rtrunc (xsrc / dx)) (dim slow 1 - 1).
Proof. unfold i_xsi, p1. cbv beta delta [fteik2d_p1]. reflexivity. Qed.
Lemma i_vzero_eq grad : i_vzero slow dz dx zsrc xsrc grad = get 0 slow [zsi grad; xsi grad].
Proof. unfold i_vzero, i_zsi, i_xsi, p1. cbv beta delta [fteik2d_p1]. reflexivity. Qed.

Lemma i_src_cases grad :
  (zsa grad = zsrc / dz \/ zsa grad = Rround (zsrc / dz)) /\
  (xsa grad = xsrc / dx \/ xsa grad = Rround (xsrc / dx)) /\
  (i_iflag slow dz dx zsrc xsrc grad <> 2%Z -> zsa grad = Rround (zsrc / dz) /\ xsa grad = Rround (xsrc / dx)).
Proof.
  unfold i_zsa, i_xsa, i_iflag, p1. cbv beta delta [fteik2d_p1]. cbv zeta. cbn [fst snd ndiv nround NumR].
  repeat match goal with |- context [if ?c then _ else _] => destruct c end; cbn [fst snd];
    (split; [auto | split; [auto | intros N; first [ exfalso; apply N; reflexivity | split; reflexivity ] ] ]).
Qed.

(* finer: a coordinate is rounded only when it is within eps (= 1e-15 grid units) of a node coordinate, and in the
   branch iflag = 2 at least one coordinate is farther than eps from the nodes and is left as it is.
   dmin a s = min(|a - s|, 1 - |a - s|) is the code's dzv_min / dzh_min *)
Definition dmin (a : R) (s : Z) : R := pymin2 (Rabs (a - IZR s)) (1 - Rabs (a - IZR s)).
Lemma i_src_detail grad :
  (zsa grad = zsrc / dz \/ (zsa grad = Rround (zsrc / dz) /\ dmin (zsrc / dz) (zsi grad) <= eps)) /\
  (xsa grad = xsrc / dx \/ (xsa grad = Rround (xsrc / dx) /\ dmin (xsrc / dx) (xsi grad) <= eps)) /\
  (i_iflag slow dz dx zsrc xsrc grad = 2%Z ->
     (eps < dmin (zsrc / dz) (zsi grad) /\ zsa grad = zsrc / dz) \/
     (eps < dmin (xsrc / dx) (xsi grad) /\ xsa grad = xsrc / dx)).
Proof.
  unfold dmin, i_zsa, i_xsa, i_zsi, i_xsi, i_iflag, p1. cbv beta delta [fteik2d_p1]. cbv zeta.
  cbn [fst snd ndiv nround nabs nsub nofZ ntrunc NumR]. unfold ngtb. cbn [nltb NumR].
  set (X := pymin2 (Rabs (zsrc / dz - _)) _). set (Y := pymin2 (Rabs (xsrc / dx - _)) _).
  clearbody X Y. set (e := eps). clearbody e.
  destruct (Rltb X e) eqn:EX; destruct (Rltb Y e) eqn:EY; destruct (Rltb e X) eqn:EX'; destruct (Rltb e Y) eqn:EY';
    cbn [andb orb fst snd];
    repeat match goal with
           | H : Rltb _ _ = true |- _ => apply Rltb_true in H
           | H : Rltb _ _ = false |- _ => apply Rltb_false in H
           end;
    try (exfalso; lra);
    (split; [ first [left; reflexivity | right; split; [reflexivity | lra]]
            | split; [ first [left; reflexivity | right; split; [reflexivity | lra]]
                     | intros E2; try discriminate E2;
                       first [left; split; [lra | reflexivity] | right; split; [lra | reflexivity]] ] ]).
Qed.

Hypotheses (Hdz : 0 < dz) (Hdx : 0 < dx).
Hypotheses (Hnz : (1 <= dim slow 0)%Z) (Hnx : (1 <= dim slow 1)%Z).
Hypothesis (Hin : inside2d slow dz dx zsrc xsrc = true).

Lemma inside_coords : 0 <= zsrc / dz <= IZR (dim slow 0) /\ 0 <= xsrc / dx <= IZR (dim slow 1).
Proof.
  unfold inside2d in Hin. cbv zeta in Hin. cbn [nleb nmul nofZ NumR] in Hin.
  rewrite !andb_true_iff, !Rleb_true in Hin. destruct Hin as [[A1 A2] [B1 B2]].
  assert (Ez : zsrc / dz * dz = zsrc) by (field; lra).
  assert (Ex : xsrc / dx * dx = xsrc) by (field; lra).
  repeat split; nra.
Qed.

(* the source cell (zsi, xsi) is a cell of the model and contains the source position (zsa, xsa) used by the solver,
   which is the true position zsrc/dz, xsrc/dx or, per coordinate, its rounding to the nearest node *)
Lemma source_frame grad :
  (0 <= zsi grad <= dim slow 0 - 1)%Z /\ (0 <= xsi grad <= dim slow 1 - 1)%Z /\
  IZR (zsi grad) <= zsa grad <= IZR (zsi grad) + 1 /\ IZR (xsi grad) <= xsa grad <= IZR (xsi grad) + 1 /\
  (i_iflag slow dz dx zsrc xsrc grad <> 2%Z -> exists kz kx, zsa grad = IZR kz /\ xsa grad = IZR kx).
Proof.
  destruct inside_coords as [Cz Cx].
  destruct (src_cell _ _ Hnz Cz) as [Sz Bz]. destruct (src_cell _ _ Hnx Cx) as [Sx Bx].
  rewrite <- (i_zsi_eq grad) in Sz, Bz. rewrite <- (i_xsi_eq grad) in Sx, Bx.
  destruct (src_round _ _ Bz) as (kz & Ekz & Hkz). destruct (src_round _ _ Bx) as (kx & Ekx & Hkx).
  destruct (i_src_cases grad) as (Ca & Cb & Cf).
  split; [exact Sz|]. split; [exact Sx|].
  assert (Rz : IZR (zsi grad) <= IZR kz <= IZR (zsi grad) + 1)
    by (destruct Hkz as [->| ->]; rewrite ?plus_IZR; lra).
  assert (Rx : IZR (xsi grad) <= IZR kx <= IZR (xsi grad) + 1)
    by (destruct Hkx as [->| ->]; rewrite ?plus_IZR; lra).
  split; [destruct Ca as [-> | ->]; [exact Bz | rewrite Ekz; exact Rz]|].
  split; [destruct Cb as [-> | ->]; [exact Bx | rewrite Ekx; exact Rx]|].
  intros N. destruct (Cf N) as [-> ->]. exists kz, kx. split; assumption.
Qed.

Lemma eps_bounds : 0 < (eps : R) < 1 / 2.
Proof. unfold eps. cbn [nofQ NumR]. lra. Qed.

Lemma round_close a s : IZR s <= a <= IZR s + 1 -> dmin a s <= eps -> Rabs (Rround a - a) <= eps.
Proof.
  intros [H0 H1] Hd. pose proof eps_bounds as [E0 E1]. set (e := eps) in *. clearbody e.
  destruct (Rround_spec a) as (k & -> & Hk).
  assert (Hk' : - (1 / 2) <= a - IZR k <= 1 / 2) by (unfold Rabs in Hk; destruct (Rcase_abs (a - IZR k)); lra).
  assert (A : IZR (s - 1) < IZR k) by (rewrite minus_IZR; lra).
  assert (B : IZR k < IZR (s + 2)) by (rewrite plus_IZR; lra).
  apply lt_IZR in A, B.
  unfold dmin in Hd. rewrite (Rabs_right (a - IZR s)) in Hd by lra. unfold pymin2 in Hd. cbn [nltb NumR] in Hd.
  assert (Ck : k = s \/ k = (s + 1)%Z) by lia.
  destruct (Rltb (1 - (a - IZR s)) (a - IZR s)); destruct Ck as [-> | ->]; rewrite ?plus_IZR in *;
    unfold Rabs; destruct (Rcase_abs _); lra.
Qed.

(* the solver's source position is within eps = 1e-15 grid units of the true one, in each coordinate *)
Lemma source_frame_eps grad :
  Rabs (zsa grad - zsrc / dz) <= eps /\ Rabs (xsa grad - xsrc / dx) <= eps.
Proof.
  destruct inside_coords as [Cz Cx].
  destruct (src_cell _ _ Hnz Cz) as [_ Bz]. destruct (src_cell _ _ Hnx Cx) as [_ Bx].
  rewrite <- (i_zsi_eq grad) in Bz. rewrite <- (i_xsi_eq grad) in Bx.
  destruct (i_src_detail grad) as (Ca & Cb & _). pose proof eps_bounds as [E0 _].
  split.
  - destruct Ca as [-> | [-> Hd]]; [rewrite Rminus_diag_eq, Rabs_R0 by reflexivity; lra | apply (round_close _ _ Bz Hd)].
  - destruct Cb as [-> | [-> Hd]]; [rewrite Rminus_diag_eq, Rabs_R0 by reflexivity; lra | apply (round_close _ _ Bx Hd)].
Qed.

(* in the branch iflag = 2 the source is not on a node *)
Lemma dmin_node k s : IZR s <= IZR k <= IZR s + 1 -> dmin (IZR k) s = 0.
Proof.
  intros [H0 H1]. assert (A : IZR (s - 1) < IZR k) by (rewrite minus_IZR; lra).
  assert (B : IZR k < IZR (s + 2)) by (rewrite plus_IZR; lra). apply lt_IZR in A, B.
  assert (Ck : k = s \/ k = (s + 1)%Z) by lia. unfold dmin, pymin2. cbn [nltb NumR].
  destruct Ck as [-> | ->]; rewrite ?plus_IZR.
  - replace (IZR s - IZR s) with 0 by ring. rewrite Rabs_R0.
    destruct (Rltb (1 - 0) 0) eqn:E; [apply Rltb_true in E; lra | reflexivity].
  - replace (IZR s + 1 - IZR s) with 1 by ring. rewrite Rabs_R1.
    destruct (Rltb (1 - 1) 1) eqn:E; [ring | apply Rltb_false in E; lra].
Qed.

Lemma iflag2_off_node grad kz kx :
  i_iflag slow dz dx zsrc xsrc grad = 2%Z -> zsa grad = IZR kz -> xsa grad = IZR kx -> False.
Proof.
  intros E2 Ez Ex.
  destruct inside_coords as [Cz Cx].
  destruct (src_cell _ _ Hnz Cz) as [_ Bz]. destruct (src_cell _ _ Hnx Cx) as [_ Bx].
  rewrite <- (i_zsi_eq grad) in Bz. rewrite <- (i_xsi_eq grad) in Bx.
  destruct (i_src_detail grad) as (_ & _ & C2). pose proof eps_bounds as [E0 _].
  destruct (C2 E2) as [[Hd Ea] | [Hd Eb]].
  - rewrite <- Ea, Ez in Hd, Bz. rewrite (dmin_node _ _ Bz) in Hd. lra.
  - rewrite <- Eb, Ex in Hd, Bx. rewrite (dmin_node _ _ Bx) in Hd. lra.
Qed.

Hypotheses (Hw : wf slow) (Hsh : shape slow = [dim slow 0; dim slow 1]).
Hypothesis (Hpos : forall i j, (0 <= i < dim slow 0)%Z -> (0 <= j < dim slow 1)%Z -> 0 < get 0 slow [i; j]).

Let NZ := (dim slow 0 + 1)%Z.
Let NX := (dim slow 1 + 1)%Z.

Lemma slowpos : SlowPos NZ NX slow.
Proof. intros p q Hp Hq. apply Hpos; unfold NZ, NX in *; lia. Qed.

Lemma i_vzero_pos grad : 0 < i_vzero slow dz dx zsrc xsrc grad.
Proof.
  destruct (source_frame grad) as (Sz & Sx & _). rewrite i_vzero_eq. apply Hpos; lia.
Qed.

(* the state before the first sweep *)
Theorem init_good grad : Good NZ NX (zsa grad) (xsa grad) (i_tt slow dz dx zsrc xsrc grad).
Proof.
  destruct (source_frame grad) as (Sz & Sx & Bz & Bx & Hfl).
  unfold i_tt, p2. rewrite i_tt1_eq, i_nz_eq, i_nx_eq. fold NZ NX.
  apply fteik2d_p2_good; try assumption; unfold NZ, NX; try lia.
  - apply i_vzero_pos.
  - apply slowpos.
Qed.

(* one pass *)
Lemma ptt_good grad t :
  Good NZ NX (zsa grad) (xsa grad) t -> Good NZ NX (zsa grad) (xsa grad) (ptt slow dz dx zsrc xsrc grad t).
Proof.
  intros Ht. unfold ptt, pass2d. cbn [fst snd]. rewrite i_nz_eq, i_nx_eq. fold NZ NX.
  apply sweep2d_good; try assumption; unfold NZ, NX; try lia.
  - rewrite Hsh. f_equal; [|f_equal]; lia.
  - apply slowpos.
Qed.

Lemma iter_good grad k :
  Good NZ NX (zsa grad) (xsa grad) (Nat.iter k (ptt slow dz dx zsrc xsrc grad) (i_tt slow dz dx zsrc xsrc grad)).
Proof. induction k as [|k IH]; [apply init_good|]. rewrite iter_S. apply ptt_good, IH. Qed.

(* converse: when the solver's source position is a node, that node carries the time 0 throughout *)
Lemma iter_goodz grad k kz kx :
  zsa grad = IZR kz -> xsa grad = IZR kx -> (0 <= kz < NZ)%Z -> (0 <= kx < NX)%Z ->
  GoodZ NZ NX (zsa grad) (xsa grad) kz kx
    (Nat.iter k (ptt slow dz dx zsrc xsrc grad) (i_tt slow dz dx zsrc xsrc grad)).
Proof.
  intros Ez Ex Hkz Hkx. induction k as [|k IH].
  - split; [apply init_good|]. cbn [Nat.iter].
    unfold i_tt, p2. rewrite i_tt1_eq, i_nz_eq, i_nx_eq. fold NZ NX.
    destruct (source_frame grad) as (Sz & Sx & _).
    apply fteik2d_p2_zero; try assumption; try (unfold NZ, NX in *; lia);
      try (intros E2; exact (iflag2_off_node grad kz kx E2 Ez Ex)).
  - rewrite iter_S. unfold ptt at 1, pass2d. cbn [fst snd]. rewrite i_nz_eq, i_nx_eq. fold NZ NX.
    apply sweep2d_goodz; try assumption; unfold NZ, NX; try lia.
    + rewrite Hsh. f_equal; [|f_equal]; lia.
    + apply slowpos.
Qed.
End Solver.

(* MAIN: all models with >= 1 cell per axis and positive slowness, all sources, any number of sweeps, grad or not.
   (zsa, xsa) = (i_zsa, i_xsa) are the source coordinates in grid units in the solver's own frame: the 10th and 8th
   components of fteik2d_p1 (see source_frame / i_src_cases above and fteik2d_zero_only_at_source_raw below). *)
Theorem fteik2d_zero_only_at_source (slow : arr R) (dz dx zsrc xsrc : R) nsweep grad (tt ttgrad : arr R) (vzero : R) :
  0 < dz -> 0 < dx ->
  wf slow -> (1 <= dim slow 0)%Z -> (1 <= dim slow 1)%Z -> shape slow = [dim slow 0; dim slow 1] ->
  (forall i j, (0 <= i < dim slow 0)%Z -> (0 <= j < dim slow 1)%Z -> 0 < get 0 slow [i; j]) ->
  fteik2d slow dz dx zsrc xsrc nsweep grad = Ok (tt, ttgrad, vzero) ->
  forall i j, (0 <= i <= dim slow 0)%Z -> (0 <= j <= dim slow 1)%Z ->
    get 0 tt [i; j] = 0 ->
    IZR i = i_zsa slow dz dx zsrc xsrc grad /\ IZR j = i_xsa slow dz dx zsrc xsrc grad.
Proof.
  intros Hdz Hdx Hw Hnz Hnx Hsh Hpos E i j Hi Hj E0.
  apply fteik2d_ok_inv in E as (Hin & -> & _).
  pose proof (iter_good slow dz dx zsrc xsrc Hdz Hdx Hnz Hnx Hin Hw Hsh Hpos grad (Z.to_nat nsweep)) as G.
  apply (Good_zero _ _ _ _ _ i j G); [lia | lia | exact E0].
Qed.

(* the same, contrapositive: every node other than the source node has a positive traveltime *)
Corollary fteik2d_pos_away_from_source (slow : arr R) (dz dx zsrc xsrc : R) nsweep grad (tt ttgrad : arr R) (vzero : R) :
  0 < dz -> 0 < dx ->
  wf slow -> (1 <= dim slow 0)%Z -> (1 <= dim slow 1)%Z -> shape slow = [dim slow 0; dim slow 1] ->
  (forall i j, (0 <= i < dim slow 0)%Z -> (0 <= j < dim slow 1)%Z -> 0 < get 0 slow [i; j]) ->
  fteik2d slow dz dx zsrc xsrc nsweep grad = Ok (tt, ttgrad, vzero) ->
  forall i j, (0 <= i <= dim slow 0)%Z -> (0 <= j <= dim slow 1)%Z ->
    (IZR i <> i_zsa slow dz dx zsrc xsrc grad \/ IZR j <> i_xsa slow dz dx zsrc xsrc grad) ->
    0 < get 0 tt [i; j].
Proof.
  intros Hdz Hdx Hw Hnz Hnx Hsh Hpos E i j Hi Hj Hne.
  apply fteik2d_ok_inv in E as (Hin & -> & _).
  destruct (iter_good slow dz dx zsrc xsrc Hdz Hdx Hnz Hnx Hin Hw Hsh Hpos grad (Z.to_nat nsweep)) as (_ & _ & _ & Pa).
  apply Pa; [lia | lia | exact Hne].
Qed.

(* the same with the projections of fteik2d_p1 written out, exactly as fteik2d binds them *)
Corollary fteik2d_zero_only_at_source_raw (slow : arr R) (dz dx zsrc xsrc : R) nsweep grad (tt ttgrad : arr R) (vzero : R) :
  0 < dz -> 0 < dx ->
  wf slow -> (1 <= dim slow 0)%Z -> (1 <= dim slow 1)%Z -> shape slow = [dim slow 0; dim slow 1] ->
  (forall i j, (0 <= i < dim slow 0)%Z -> (0 <= j < dim slow 1)%Z -> 0 < get 0 slow [i; j]) ->
  fteik2d slow dz dx zsrc xsrc nsweep grad = Ok (tt, ttgrad, vzero) ->
  let r1 := fteik2d_p1 dx dz grad (dim slow 1) (dim slow 0) slow xsrc zsrc in
  let xsa := snd (fst (fst (fst r1))) in
  let zsa := snd (fst r1) in
  forall i j, (0 <= i <= dim slow 0)%Z -> (0 <= j <= dim slow 1)%Z ->
    get 0 tt [i; j] = 0 -> IZR i = zsa /\ IZR j = xsa.
Proof. exact (fteik2d_zero_only_at_source slow dz dx zsrc xsrc nsweep grad tt ttgrad vzero). Qed.

(* consequences: at most one node carries the time 0, and it lies within half a cell of the true source *)
Corollary fteik2d_at_most_one_zero (slow : arr R) (dz dx zsrc xsrc : R) nsweep grad (tt ttgrad : arr R) (vzero : R) :
  0 < dz -> 0 < dx ->
  wf slow -> (1 <= dim slow 0)%Z -> (1 <= dim slow 1)%Z -> shape slow = [dim slow 0; dim slow 1] ->
  (forall i j, (0 <= i < dim slow 0)%Z -> (0 <= j < dim slow 1)%Z -> 0 < get 0 slow [i; j]) ->
  fteik2d slow dz dx zsrc xsrc nsweep grad = Ok (tt, ttgrad, vzero) ->
  forall i j i' j', (0 <= i <= dim slow 0)%Z -> (0 <= j <= dim slow 1)%Z ->
    (0 <= i' <= dim slow 0)%Z -> (0 <= j' <= dim slow 1)%Z ->
    get 0 tt [i; j] = 0 -> get 0 tt [i'; j'] = 0 -> i = i' /\ j = j'.
Proof.
  intros Hdz Hdx Hw Hnz Hnx Hsh Hpos E i j i' j' Hi Hj Hi' Hj' E0 E0'.
  destruct (fteik2d_zero_only_at_source _ _ _ _ _ _ _ _ _ _ Hdz Hdx Hw Hnz Hnx Hsh Hpos E i j Hi Hj E0) as [A B].
  destruct (fteik2d_zero_only_at_source _ _ _ _ _ _ _ _ _ _ Hdz Hdx Hw Hnz Hnx Hsh Hpos E i' j' Hi' Hj' E0') as [A' B'].
  split; apply eq_IZR; congruence.
Qed.

(* both directions: the time is 0 exactly at the node (if any) where the solver's frame puts the source *)
Theorem fteik2d_zero_iff_source (slow : arr R) (dz dx zsrc xsrc : R) nsweep grad (tt ttgrad : arr R) (vzero : R) :
  0 < dz -> 0 < dx ->
  wf slow -> (1 <= dim slow 0)%Z -> (1 <= dim slow 1)%Z -> shape slow = [dim slow 0; dim slow 1] ->
  (forall i j, (0 <= i < dim slow 0)%Z -> (0 <= j < dim slow 1)%Z -> 0 < get 0 slow [i; j]) ->
  fteik2d slow dz dx zsrc xsrc nsweep grad = Ok (tt, ttgrad, vzero) ->
  forall i j, (0 <= i <= dim slow 0)%Z -> (0 <= j <= dim slow 1)%Z ->
    (get 0 tt [i; j] = 0 <->
     IZR i = i_zsa slow dz dx zsrc xsrc grad /\ IZR j = i_xsa slow dz dx zsrc xsrc grad).
Proof.
  intros Hdz Hdx Hw Hnz Hnx Hsh Hpos E i j Hi Hj. split.
  - apply (fteik2d_zero_only_at_source slow dz dx zsrc xsrc nsweep grad tt ttgrad vzero); assumption.
  - intros [Ez Ex]. apply fteik2d_ok_inv in E as (Hin & -> & _).
    destruct (iter_goodz slow dz dx zsrc xsrc Hdz Hdx Hnz Hnx Hin Hw Hsh Hpos grad (Z.to_nat nsweep) i j)
      as [_ H0]; auto; lia.
Qed.

(* in terms of the inputs only: a node with time 0 coincides with the source up to the solver's snapping tolerance
   eps = 1e-15 (in grid units), in both coordinates *)
Corollary fteik2d_zero_near_source (slow : arr R) (dz dx zsrc xsrc : R) nsweep grad (tt ttgrad : arr R) (vzero : R) :
  0 < dz -> 0 < dx ->
  wf slow -> (1 <= dim slow 0)%Z -> (1 <= dim slow 1)%Z -> shape slow = [dim slow 0; dim slow 1] ->
  (forall i j, (0 <= i < dim slow 0)%Z -> (0 <= j < dim slow 1)%Z -> 0 < get 0 slow [i; j]) ->
  fteik2d slow dz dx zsrc xsrc nsweep grad = Ok (tt, ttgrad, vzero) ->
  forall i j, (0 <= i <= dim slow 0)%Z -> (0 <= j <= dim slow 1)%Z ->
    get 0 tt [i; j] = 0 ->
    Rabs (IZR i - zsrc / dz) <= 1 / 1000000000000000 /\ Rabs (IZR j - xsrc / dx) <= 1 / 1000000000000000.
Proof.
  intros Hdz Hdx Hw Hnz Hnx Hsh Hpos E i j Hi Hj E0.
  destruct (fteik2d_zero_only_at_source _ _ _ _ _ _ _ _ _ _ Hdz Hdx Hw Hnz Hnx Hsh Hpos E i j Hi Hj E0) as [-> ->].
  apply fteik2d_ok_inv in E as (Hin & _).
  exact (source_frame_eps slow dz dx zsrc xsrc Hdz Hdx Hnz Hnx Hin grad).
Qed.

(* ------------------------------------------------------------------------------------------ *)
(* 6. non-vacuity                                                                               *)
(* ------------------------------------------------------------------------------------------ *)
(* over R: the model NonNeg2d.ex2 (2 x 2 cells of slowness 1, unit spacings), source on the central node (1,1) *)
Lemma ex2_pos i j : (0 <= i < 2)%Z -> (0 <= j < 2)%Z -> 0 < get 0 ex2 [i; j].
Proof.
  intros Hi Hj. assert (Ci : i = 0%Z \/ i = 1%Z) by lia. assert (Cj : j = 0%Z \/ j = 1%Z) by lia.
  destruct Ci as [-> | ->], Cj as [-> | ->]; cbv [get ex2 shape dat flat flat_aux Z.to_nat Z.mul Z.add Pos.to_nat
    Pos.iter_op Nat.add nth Pos.mul Pos.add]; lra.
Qed.
Lemma ex2_inside11 : inside2d ex2 1 1 1 1 = true.
Proof.
  unfold inside2d. cbn [dim shape ex2 nth]. cbn [nleb nmul nofZ NumR].
  rewrite !andb_true_iff, !Rleb_true. lra.
Qed.
Lemma Rround_1 : Rround 1 = 1.
Proof.
  destruct (Rround_spec 1) as (k & -> & Hk).
  assert (Hk' : - (1 / 2) <= 1 - IZR k <= 1 / 2) by (unfold Rabs in Hk; destruct (Rcase_abs (1 - IZR k)); lra).
  assert (A : IZR 0 < IZR k) by lra. assert (B : IZR k < IZR 2) by lra.
  apply lt_IZR in A, B. assert (k = 1%Z) by lia. subst k. reflexivity.
Qed.
Lemma ex2_frame : i_zsa ex2 1 1 1 1 false = 1 /\ i_xsa ex2 1 1 1 1 false = 1.
Proof.
  destruct (i_src_cases ex2 1 1 1 1 false) as (Ca & Cb & _).
  replace (1 / 1) with 1 in Ca, Cb by field. rewrite Rround_1 in Ca, Cb.
  split; [destruct Ca | destruct Cb]; assumption.
Qed.
(* exactly one node of the returned grid carries the time 0: the source node (1,1) *)
Example fteik2d_zero_only_at_source_ex :
  exists tt G v, fteik2d ex2 1 1 1 1 2 false = Ok (tt, G, v) /\
    forall i j, (0 <= i <= 2)%Z -> (0 <= j <= 2)%Z -> (get 0 tt [i; j] = 0 <-> i = 1%Z /\ j = 1%Z).
Proof.
  destruct (fteik2d_raises_iff ex2 1 1 1 1 2 false) as [_ H].
  destruct (H ex2_inside11) as [[[tt G] v] E]. exists tt, G, v. split; [exact E|].
  intros i j Hi Hj.
  assert (W : wf ex2) by (split; [reflexivity | repeat constructor; lia]).
  pose proof (fteik2d_zero_iff_source ex2 1 1 1 1 2 false tt G v ltac:(lra) ltac:(lra) W
                ltac:(cbn; lia) ltac:(cbn; lia) eq_refl ex2_pos E i j Hi Hj) as Hiff.
  destruct ex2_frame as [Ez Ex]. rewrite Ez, Ex in Hiff. rewrite Hiff. split.
  - intros [A B]. split; apply eq_IZR; assumption.
  - intros [-> ->]. split; reflexivity.
Qed.

(* on binary64 (the generated solver itself, run by vm_compute): a heterogeneous model of 2 x 2 cells, dz = 1, dx = 2;
   which entries of the returned 3 x 3 grid (row-major) are == 0.0 *)
Module FloatExample.
Import Coq.Floats.PrimFloat.   (* (Flocq has a module of the same short name) *)
Definition fslow : arr float := mkarr [2%Z; 2%Z] [1.0; 1.25; 0.75; 1.5]%float.
Definition zeros (r : res (arr float * arr float * float)) : option (list bool) :=
  match r with Ok (t, _, _) => Some (map (fun x => Coq.Floats.PrimFloat.eqb x 0%float) (dat t)) | _ => None end.
(* source on the central node (1,1): exactly one zero entry, there *)
Example one_zero_centre :
  zeros (fteik2d (T := float) fslow 1.0%float 2.0%float 1.0%float 2.0%float 2 false)
  = Some [false; false; false; false; true; false; false; false; false].
Proof. vm_compute. reflexivity. Qed.
(* source on the corner node (2,2), with gradient *)
Example one_zero_corner :
  zeros (fteik2d (T := float) fslow 1.0%float 2.0%float 2.0%float 4.0%float 2 true)
  = Some [false; false; false; false; false; false; false; false; true].
Proof. vm_compute. reflexivity. Qed.
(* source in the middle of a vertical edge (z = 0.5 is not a node coordinate): no zero entry at all *)
Example no_zero_off_node :
  zeros (fteik2d (T := float) fslow 1.0%float 2.0%float 0.5%float 2.0%float 2 true)
  = Some [false; false; false; false; false; false; false; false; false].
Proof. vm_compute. reflexivity. Qed.
End FloatExample.

Print Assumptions four_point_gt_tev.
Print Assumptions sweep_good.
Print Assumptions sweep2d_good.
Print Assumptions fteik2d_p2_good.
Print Assumptions source_frame.
Print Assumptions init_good.
Print Assumptions fteik2d_zero_only_at_source.
Print Assumptions fteik2d_pos_away_from_source.
Print Assumptions fteik2d_zero_only_at_source_raw.
Print Assumptions fteik2d_at_most_one_zero.
Print Assumptions fteik2d_zero_iff_source.
Print Assumptions fteik2d_zero_near_source.
Print Assumptions fteik2d_zero_only_at_source_ex.
Print Assumptions FloatExample.one_zero_centre.
