(* Step length of free-step rays: property C10, clause "consecutive vertices at most one step length
   apart", for the generated ray tracers gen/Ray2d.v and gen/Ray3d.v (sources
   /repo/fteikpy/_fteik/_ray2d.py, _ray3d.py) with honor_grid = false, in exact arithmetic T := R.

   What the code does (free-step branch): while dist(src, pcur) >= stepsize: stop if the budget is
   exhausted; interpolate the gradient g at pcur; stop if |g| > 0 is false; otherwise
   pcur <- clamp(pcur - stepsize * g * (1/|g|)) and store pcur.  Afterwards (budget not exhausted) the
   source is appended.  So there are exactly two ways to leave the loop with a returned ray:
   the source is closer than one step, or the gradient norm at the current point is not positive.

   Results (2D; the 3D ones are the same with `3`):
     free_core2_eq          the generated core with honor_grid = false IS the loop
                            `while_fuel fcond2 fbody2 init2` followed by fin2 (any numeric type)
     free_step_length_2d    every segment between two STORED vertices (k, k+1 with k+1 < count) has
                            Euclidean length <= stepsize.  Hypotheses: a ray was returned (count >= 1) and
                            0 <= stepsize; the end point is then inside the hull (else count = -1) and no
                            assumption on the axes is needed (clamping only uses z[0] <= zend <= z[-1]).
     last_segment_2d        the segment from the last stored vertex to the source is either SHORTER than
                            stepsize, or it is at least one step long and BOTH interpolated gradient
                            components at the last stored vertex are exactly 0 (finding F17: the walk
                            stopped on a zero gradient and jumped to the source).  No other case exists.
     ray2d_1_step_length    the same for the reversed polyline returned by ray2d_1: segments i, i+1 with
                            1 <= i < count are <= stepsize, segment 0-1 (touching the source) obeys the
                            dichotomy.
     free_ray_three_vertices_2d      non-vacuity: a homogeneous-gradient grid on which a ray with 3 vertices
                                     (count = 2) is returned (T := R)
     last_segment_2d_refuted         T := R: a returned ray whose last segment has length 2 with stepsize 1
     last_segment_2d_refuted_binary64   binary64 (vm_compute): one elongated 1 x 4 cell, source on a node, the
                                     gradient interpolates to exactly 0 midway: last segment 2 with stepsize 0.5
   3D: free_core3_eq, free_step_length_3d, last_segment_3d, ray3d_1_step_length,
       free_ray_three_vertices_3d, last_segment_3d_refuted, last_segment_3d_refuted_binary64. *)
From Coq Require Import ZArith List Bool Lia Reals Lra Psatz.
From FT.lib Require Import Num Arr ArrLemmas NumArr.
From FT.gen Require Import Common Interp2d Interp3d FteikCommon Ray2d Ray3d.
From FT.proofs Require Import Ray2dProofs Ray3dProofs.
Import ListNotations.
Open Scope Z_scope.

(* ------------------------------------------------------------------------------------------ *)
(* 0. while_fuel: extensionality                                                                *)
(* ------------------------------------------------------------------------------------------ *)
Lemma while_fuel_ext {S} (c c' : S -> bool) (b b' : S -> ctl S) :
  (forall s, c s = c' s) -> (forall s, b s = b' s) ->
  forall fuel s, while_fuel fuel c b s = while_fuel fuel c' b' s.
Proof.
  intros Hc Hb. induction fuel as [|f IH]; intros s; simpl; [reflexivity|].
  rewrite Hc, Hb. destruct (c' s); [|reflexivity]. destruct (b' s); auto.
Qed.

(* ------------------------------------------------------------------------------------------ *)
(* 1. the free-step loop of the 2D core, explicitly (any numeric type)                          *)
(* ------------------------------------------------------------------------------------------ *)
Section Free2.
Context {T : Type} `{Num T}.
Variables (z x zgrad xgrad : arr T) (zend xend zsrc xsrc stepsize : T) (max_step : Z).

(* loop test: dist2d(src, pcur) >= stepsize *)
Definition fcond2 (s : @St2 T) : bool :=
  ngeb (Common.dist2d zsrc xsrc (get (nofZ 0) (s_pcur s) [0]) (get (nofZ 0) (s_pcur s) [1])) stepsize.
(* budget test (made at the top of the body and again after the loop) *)
Definition bud2 (s : @St2 T) : bool :=
  (max_step <=? s_count s) || (nfree_max2 z x stepsize <? s_nfree s).
(* interpolated gradient at the current point, and its norm *)
Definition gz2 (p : arr T) : T := Interp2d.interp2d_1 z x zgrad p nnan.
Definition gx2 (p : arr T) : T := Interp2d.interp2d_1 z x xgrad p nnan.
Definition gn2 (p : arr T) : T := Common.norm2d (gz2 p) (gx2 p).

(* the state after one free step *)
Definition fnext2 (s : @St2 T) : @St2 T :=
  let gni := ndiv (nofZ 1) (gn2 (s_pcur s)) in
  let delta := set (set (s_delta s) [0] (nmul (nmul stepsize (gz2 (s_pcur s))) gni))
                   [1] (nmul (nmul stepsize (gx2 (s_pcur s))) gni) in
  let p1 := amap2 nsub (s_pcur s) delta in
  let p2 := set p1 [0] (clamp z (get (nofZ 0) p1 [0])) in
  let p3 := set p2 [1] (clamp x (get (nofZ 0) p2 [1])) in
  (s_count s + 1, delta, s_lower s, s_nfree s, p3, set_sub (s_ray s) [s_count s] p3, s_upper s).

(* the loop body: stop on an exhausted budget, stop when the gradient norm is not positive,
   otherwise store the next point *)
Definition fbody2 (s : @St2 T) : ctl (@St2 T) :=
  if bud2 s then Brk s
  else if ngtb (gn2 (s_pcur s)) (nofZ 0) then Next (fnext2 s) else Brk s.

Definition init2 : @St2 T :=
  (1, full [2] (nofZ 0), mkarr [0] [], 0, of_list [zend; xend],
   set_sub (full [max_step; 2] (nofZ 0)) [0] (of_list [zend; xend]), mkarr [0] []).

Lemma free_core2_eq :
  hull2 z x zend xend = true ->
  forall fuel,
    u_ray2d_core_v fuel z x zgrad xgrad zend xend zsrc xsrc stepsize max_step false =
    rbind (while_fuel fuel fcond2 fbody2 init2) (fin2 zsrc xsrc max_step (nfree_max2 z x stepsize)).
Proof.
  intros Hh fuel. cbv beta delta [u_ray2d_core_v].
  repeat pull_let_eq.
  apply if_negb_true; [exact Hh|].
  repeat pull_let_eq.
  repeat match goal with v := _ |- _ => subst v end.
  lazymatch goal with |- rbind (while_fuel _ ?C ?B _) _ = _ =>
    change (rbind (while_fuel fuel C B init2) (fin2 zsrc xsrc max_step (nfree_max2 z x stepsize)) =
            rbind (while_fuel fuel fcond2 fbody2 init2) (fin2 zsrc xsrc max_step (nfree_max2 z x stepsize)))
  end.
  f_equal. apply while_fuel_ext.
  - intros s. reflexivity.
  - (* walk through the generated body so that the final comparison is syntactic *)
    intros [[[[[[c d] l] n] p] r] u]. cbv beta.
    repeat pull_let_eq. cbn [fst snd] in *.
    repeat match goal with v := _ |- _ => subst v end.
    unfold fbody2, bud2, fnext2, gn2, gz2, gx2, clamp. cbv zeta.
    cbn [s_count s_nfree s_pcur s_delta s_lower s_upper s_ray fst snd].
    lazymatch goal with |- context [(?t <? n)] => change t with (nfree_max2 z x stepsize) end.
    reflexivity.
Qed.
End Free2.

(* one free step on 2-vectors: components of the new delta and of the new (clamped) point *)
Lemma step_pt2 {T} `{Num T} (z x p d : arr T) (a b : T) :
  vec2 p -> vec2 d ->
  let d' := set (set d [0] a) [1] b in
  let p1 := amap2 nsub p d' in
  let p2 := set p1 [0] (clamp z (get (nofZ 0) p1 [0])) in
  let p3 := set p2 [1] (clamp x (get (nofZ 0) p2 [1])) in
  vec2 d' /\ vec2 p3 /\
  get (nofZ 0) p3 [0] = clamp z (nsub (get (nofZ 0) p [0]) a) /\
  get (nofZ 0) p3 [1] = clamp x (nsub (get (nofZ 0) p [1]) b).
Proof.
  intros [Sp Lp] [Sd Ld]. destruct p as [shp lp]. destruct d as [shd ld]. simpl in Sp, Lp, Sd, Ld. subst shp shd.
  destruct lp as [|p0 [|p1 [|]]]; try discriminate.
  destruct ld as [|d0 [|d1 [|]]]; try discriminate.
  cbv zeta. repeat split.
Qed.

(* ------------------------------------------------------------------------------------------ *)
(* 2. real-number facts                                                                          *)
(* ------------------------------------------------------------------------------------------ *)
Section GeomR.
Local Open Scope R_scope.

(* clamping onto [lo, hi] does not move a point away from any point of [lo, hi] *)
Lemma clamp_nonexp (lo hi a p : R) :
  lo <= p <= hi -> (pymin2 (pymax2 a lo) hi - p) * (pymin2 (pymax2 a lo) hi - p) <= (a - p) * (a - p).
Proof.
  intros Hp. unfold pymin2, pymax2. cbn [nltb NumR].
  destruct (Rltb a lo) eqn:E1; [apply Rltb_true in E1|apply Rltb_false in E1];
  match goal with |- context [Rltb ?u ?v] => destruct (Rltb u v) eqn:E2 end;
    try (apply Rltb_true in E2); try (apply Rltb_false in E2); nra.
Qed.

(* a vector of length s in the direction of a non-zero (gz, gx) *)
Lemma unit_step2 (s gz gx : R) :
  0 < sqrt (gz * gz + gx * gx) ->
  let gni := 1 / sqrt (gz * gz + gx * gx) in
  (s * gz * gni) * (s * gz * gni) + (s * gx * gni) * (s * gx * gni) = s * s.
Proof.
  intros Hn gni. unfold gni. set (gn := sqrt (gz * gz + gx * gx)) in *.
  assert (Hs : gn * gn = gz * gz + gx * gx) by (apply sqrt_sqrt; nra).
  assert (Hne : gn <> 0) by lra.
  transitivity (s * s * (gz * gz + gx * gx) / (gn * gn)); [field; exact Hne|].
  rewrite <- Hs. field. exact Hne.
Qed.

Lemma unit_step3 (s gz gx gy : R) :
  0 < sqrt (gz * gz + gx * gx + gy * gy) ->
  let gni := 1 / sqrt (gz * gz + gx * gx + gy * gy) in
  (s * gz * gni) * (s * gz * gni) + (s * gx * gni) * (s * gx * gni) + (s * gy * gni) * (s * gy * gni) = s * s.
Proof.
  intros Hn gni. unfold gni. set (gn := sqrt (gz * gz + gx * gx + gy * gy)) in *.
  assert (Hs : gn * gn = gz * gz + gx * gx + gy * gy) by (apply sqrt_sqrt; nra).
  assert (Hne : gn <> 0) by lra.
  transitivity (s * s * (gz * gz + gx * gx + gy * gy) / (gn * gn)); [field; exact Hne|].
  rewrite <- Hs. field. exact Hne.
Qed.

Lemma sqrt_le_of_sq (a s : R) : 0 <= s -> a <= s * s -> sqrt a <= s.
Proof.
  intros Hs Ha. rewrite <- (sqrt_square s Hs). apply sqrt_le_1_alt. exact Ha.
Qed.

(* a vanishing Euclidean norm *)
Lemma norm2_le0 (a b : R) : sqrt (a * a + b * b) <= 0 -> a = 0 /\ b = 0.
Proof.
  intros Hle. assert (H0 : sqrt (a * a + b * b) = 0) by (pose proof (sqrt_pos (a * a + b * b)); lra).
  apply sqrt_eq_0 in H0; [|nra]. split; nra.
Qed.
Lemma norm3_le0 (a b c : R) : sqrt (a * a + b * b + c * c) <= 0 -> a = 0 /\ b = 0 /\ c = 0.
Proof.
  intros Hle. assert (H0 : sqrt (a * a + b * b + c * c) = 0) by (pose proof (sqrt_pos (a * a + b * b + c * c)); lra).
  apply sqrt_eq_0 in H0; [|nra]. repeat split; nra.
Qed.
End GeomR.

Section Free2Facts.
Context {T : Type} `{Num T}.
Variables (z x zgrad xgrad : arr T) (stepsize : T).

Lemma fnext2_facts (s : @St2 T) :
  vec2 (s_pcur s) -> vec2 (s_delta s) ->
  let s' := fnext2 z x zgrad xgrad stepsize s in
  let gni := ndiv (nofZ 1) (gn2 z x zgrad xgrad (s_pcur s)) in
  s_count s' = s_count s + 1 /\ s_nfree s' = s_nfree s /\
  s_ray s' = set_sub (s_ray s) [s_count s] (s_pcur s') /\
  vec2 (s_pcur s') /\ vec2 (s_delta s') /\
  get (nofZ 0) (s_pcur s') [0] =
    clamp z (nsub (get (nofZ 0) (s_pcur s) [0]) (nmul (nmul stepsize (gz2 z x zgrad (s_pcur s))) gni)) /\
  get (nofZ 0) (s_pcur s') [1] =
    clamp x (nsub (get (nofZ 0) (s_pcur s) [1]) (nmul (nmul stepsize (gx2 z x xgrad (s_pcur s))) gni)).
Proof.
  intros Vp Vd s' gni.
  destruct (step_pt2 z x (s_pcur s) (s_delta s)
              (nmul (nmul stepsize (gz2 z x zgrad (s_pcur s))) gni)
              (nmul (nmul stepsize (gx2 z x xgrad (s_pcur s))) gni) Vp Vd) as (Vd' & Vp' & G0 & G1).
  unfold s', fnext2. cbv zeta. cbn [s_count s_nfree s_ray s_pcur s_delta fst snd].
  cbv zeta in Vd', Vp', G0, G1.
  split; [reflexivity|]. split; [reflexivity|]. split; [reflexivity|]. split; [exact Vp'|].
  split; [exact Vd'|]. split; [exact G0|exact G1].
Qed.
End Free2Facts.

(* ------------------------------------------------------------------------------------------ *)
(* 3. 2D: the step-length theorems                                                              *)
(* ------------------------------------------------------------------------------------------ *)
Local Open Scope R_scope.

(* Euclidean distance between rows i and j of a 2-column array of vertices *)
Definition vdist2 (ray : arr R) (i j : Z) : R :=
  sqrt ((get 0 ray [j; 0%Z] - get 0 ray [i; 0%Z]) ^ 2 + (get 0 ray [j; 1%Z] - get 0 ray [i; 1%Z]) ^ 2).

Lemma vdist2_sym ray i j : vdist2 ray i j = vdist2 ray j i.
Proof. unfold vdist2. f_equal. ring. Qed.

Lemma vdist2_val ray i j a0 a1 b0 b1 :
  get 0 ray [i; 0%Z] = a0 -> get 0 ray [i; 1%Z] = a1 -> get 0 ray [j; 0%Z] = b0 -> get 0 ray [j; 1%Z] = b1 ->
  vdist2 ray i j = sqrt ((b0 - a0) * (b0 - a0) + (b1 - a1) * (b1 - a1)).
Proof. intros E1 E2 E3 E4. unfold vdist2. rewrite E1, E2, E3, E4. f_equal. ring. Qed.

Section Main2.
Variables (z x zgrad xgrad : arr R) (zend xend zsrc xsrc stepsize : R) (max_step : Z).
Notation core fuel := (u_ray2d_core_v fuel z x zgrad xgrad zend xend zsrc xsrc stepsize max_step false).
Notation cond2 := (fcond2 zsrc xsrc stepsize).
Notation body2 := (fbody2 z x zgrad xgrad stepsize max_step).
Notation budget2 := (bud2 z x stepsize max_step).
Notation nfm := (nfree_max2 z x stepsize).

(* loop invariant *)
Definition FInv2 (s : @St2 R) : Prop :=
  ray_ok zend xend max_step s /\ vec2 (s_pcur s) /\ vec2 (s_delta s) /\
  in_ax z (get 0 (s_pcur s) [0%Z]) /\ in_ax x (get 0 (s_pcur s) [1%Z]) /\
  get 0 (s_ray s) [(s_count s - 1)%Z; 0%Z] = get 0 (s_pcur s) [0%Z] /\
  get 0 (s_ray s) [(s_count s - 1)%Z; 1%Z] = get 0 (s_pcur s) [1%Z] /\
  (0 <= stepsize ->
   forall k : Z, (0 <= k)%Z -> (k + 1 < s_count s)%Z -> vdist2 (s_ray s) k (k + 1) <= stepsize).

Lemma gn2_R (p : arr R) :
  gn2 z x zgrad xgrad p = sqrt (gz2 z x zgrad p * gz2 z x zgrad p + gx2 z x xgrad p * gx2 z x xgrad p).
Proof. reflexivity. Qed.

Lemma FInv2_step s s' : FInv2 s -> body2 s = Next s' -> FInv2 s'.
Proof.
  intros (Hok & Vp & Vd & Iz & Ix & R0 & R1 & Hseg) Eb.
  unfold fbody2 in Eb. destruct (budget2 s) eqn:Ebud; [discriminate|].
  destruct (ngtb _ _) eqn:Egn; [|discriminate]. injection Eb as <-.
  unfold bud2 in Ebud. apply orb_false_elim in Ebud. destruct Ebud as [Eb1 _]. apply Z.leb_gt in Eb1.
  unfold ngtb in Egn. cbn [nltb nofZ NumR] in Egn. apply Rltb_true in Egn. rewrite gn2_R in Egn.
  destruct (fnext2_facts z x zgrad xgrad stepsize s Vp Vd) as (Ec & _ & Er & Vp' & Vd' & G0 & G1).
  cbv zeta in Ec, Er, Vp', Vd', G0, G1. cbn [nofZ nsub nmul ndiv NumR] in G0, G1. rewrite gn2_R in G0, G1.
  set (t := fnext2 z x zgrad xgrad stepsize s) in *.
  set (gz := gz2 z x zgrad (s_pcur s)) in *. set (gx := gx2 z x xgrad (s_pcur s)) in *.
  set (p0 := get 0 (s_pcur s) [0%Z]) in *. set (p1 := get 0 (s_pcur s) [1%Z]) in *.
  destruct (ray_ok_set_sub zend xend max_step s (s_pcur t) Hok Eb1 Vp') as (S1 & S2 & S3 & S4 & S5 & S6).
  cbn [nofZ NumR] in S3, S4, S5, S6. rewrite <- Er in S1, S2, S3, S4, S5, S6.
  destruct Hok as (Hc & Hsh & Hwf & H00 & H01).
  assert (Hz01 : get 0 z [0%Z] <= get 0 z [(dim z 0%nat - 1)%Z]) by (unfold in_ax in Iz; lra).
  assert (Hx01 : get 0 x [0%Z] <= get 0 x [(dim x 0%nat - 1)%Z]) by (unfold in_ax in Ix; lra).
  assert (Hold : forall k c, (0 <= k < s_count s)%Z -> (0 <= c < 2)%Z ->
                   get 0 (s_ray t) [k; c] = get 0 (s_ray s) [k; c]).
  { intros k c Hk Hcc. rewrite Er.
    apply (get_set_sub_other 0 (s_ray s) (s_pcur t) max_step 2 (s_count s) k c); auto; try lia.
    destruct Vp' as [_ L]. exact L. }
  unfold FInv2. rewrite Ec.
  split; [split; [lia|]; split; [exact S1|]; split; [exact S2|]; split; [exact S3|exact S4]|].
  split; [exact Vp'|]. split; [exact Vd'|].
  split; [rewrite G0; apply clamp_in; exact Hz01|].
  split; [rewrite G1; apply clamp_in; exact Hx01|].
  replace (s_count s + 1 - 1)%Z with (s_count s) by lia.
  split; [exact S5|]. split; [exact S6|].
  intros Hs0 k Hk0 Hk1. destruct (Z.eq_dec (k + 1) (s_count s)) as [Ek|Nk].
  - (* the new segment *)
    rewrite Ek.
    rewrite (vdist2_val (s_ray t) k (s_count s) p0 p1 (get 0 (s_pcur t) [0%Z]) (get 0 (s_pcur t) [1%Z])).
    + apply sqrt_le_of_sq; [exact Hs0|].
      rewrite G0, G1. unfold clamp. cbn [nofZ NumR].
      pose proof (clamp_nonexp _ _ (p0 - stepsize * gz * (1 / sqrt (gz * gz + gx * gx))) p0 Iz) as C0.
      pose proof (clamp_nonexp _ _ (p1 - stepsize * gx * (1 / sqrt (gz * gz + gx * gx))) p1 Ix) as C1.
      pose proof (unit_step2 stepsize gz gx Egn) as U. cbv zeta in U. nra.
    + rewrite Hold by lia. replace k with (s_count s - 1)%Z by lia. exact R0.
    + rewrite Hold by lia. replace k with (s_count s - 1)%Z by lia. exact R1.
    + exact S5.
    + exact S6.
  - (* an older segment *)
    unfold vdist2. rewrite !Hold by lia. apply (Hseg Hs0 k); lia.
Qed.

(* why the loop stopped: the source is within one step, the budget is exhausted, or the norm of
   the interpolated gradient at the current point is not positive *)
Definition Exit2 (s : @St2 R) : Prop :=
  FInv2 s /\
  (cond2 s = false \/ budget2 s = true \/
   (cond2 s = true /\ budget2 s = false /\ ngtb (gn2 z x zgrad xgrad (s_pcur s)) 0 = false)).

Lemma FInv2_init : hull2 z x zend xend = true -> (1 <= max_step)%Z -> FInv2 (init2 zend xend max_step).
Proof.
  intros Hh Hms. destruct (hull2_R z x zend xend Hh) as [Hz Hx].
  assert (Hok : ray_ok zend xend max_step (init2 zend xend max_step)).
  { apply ray_ok_init; try reflexivity; lia. }
  pose proof Hok as (_ & _ & _ & H00 & H01).
  split; [exact Hok|]. split; [apply vec2_of_list|]. split; [split; reflexivity|].
  split; [exact Hz|]. split; [exact Hx|]. split; [exact H00|]. split; [exact H01|].
  intros _ k Hk0 Hk1. change (s_count (init2 zend xend max_step)) with 1%Z in Hk1. lia.
Qed.

Lemma free_loop2 fuel s0 s1 : FInv2 s0 -> while_fuel fuel cond2 body2 s0 = Ok s1 -> Exit2 s1.
Proof.
  intros H0 Hw. apply (while_fuel_inv cond2 body2 FInv2 Exit2) with (4 := H0) (5 := Hw).
  - intros s s' Hs _ Eb. eapply FInv2_step; eauto.
  - intros s s' Hs Ec Eb. unfold fbody2 in Eb. destruct (budget2 s) eqn:Ebud.
    + injection Eb as <-. split; [exact Hs|]. right; left. exact Ebud.
    + destruct (ngtb _ _) eqn:Egn; [discriminate|]. injection Eb as <-.
      split; [exact Hs|]. right; right. auto.
  - intros s Hs Ec. split; [exact Hs|]. left. exact Ec.
Qed.

Lemma free_core2_final fuel ray count :
  core fuel = Ok (ray, count) -> (1 <= count)%Z ->
  exists s1, Exit2 s1 /\ budget2 s1 = false /\ count = s_count s1 /\
             ray = set_sub (s_ray s1) [count] (of_list [zsrc; xsrc]).
Proof.
  intros Hc Hpos.
  destruct (ray2d_core_count_range z x zgrad xgrad zend xend zsrc xsrc stepsize max_step false fuel ray count Hc)
    as [Hr _].
  destruct (hull2 z x zend xend) eqn:Hh.
  2:{ rewrite ray2d_core_outside in Hc by exact Hh. injection Hc as _ <-. lia. }
  rewrite (free_core2_eq z x zgrad xgrad zend xend zsrc xsrc stepsize max_step Hh) in Hc.
  destruct (while_fuel fuel cond2 body2 (init2 zend xend max_step)) as [s1| |] eqn:Ew; simpl in Hc; try discriminate.
  assert (Hex : Exit2 s1). { eapply free_loop2; [|exact Ew]. apply FInv2_init; [exact Hh|lia]. }
  exists s1. split; [exact Hex|]. unfold fin2 in Hc. fold (budget2 s1) in Hc.
  destruct (budget2 s1); injection Hc as <- <-; [lia|]. auto.
Qed.

(* rows of the returned array in terms of the final loop state *)
Lemma final_rows2 s1 :
  FInv2 s1 -> budget2 s1 = false ->
  let ray := set_sub (s_ray s1) [s_count s1] (of_list [zsrc; xsrc]) in
  (forall k c, (0 <= k < s_count s1)%Z -> (0 <= c < 2)%Z -> get 0 ray [k; c] = get 0 (s_ray s1) [k; c]) /\
  get 0 ray [s_count s1; 0%Z] = zsrc /\ get 0 ray [s_count s1; 1%Z] = xsrc.
Proof.
  intros (Hok & _) Ebud ray.
  unfold bud2 in Ebud. apply orb_false_elim in Ebud. destruct Ebud as [Eb1 _]. apply Z.leb_gt in Eb1.
  destruct (ray_ok_set_sub zend xend max_step s1 (of_list [zsrc; xsrc]) Hok Eb1 (vec2_of_list zsrc xsrc))
    as (_ & _ & _ & _ & S5 & S6).
  destruct Hok as (Hc & Hsh & Hwf & _).
  split; [|split; [exact S5|exact S6]].
  intros k c Hk Hcc. unfold ray.
  apply (get_set_sub_other 0 (s_ray s1) (of_list [zsrc; xsrc]) max_step 2 (s_count s1) k c); auto; try lia.
Qed.

(* (1) all segments between stored vertices are at most one step long *)
Theorem free_step_length_2d fuel ray count :
  core fuel = Ok (ray, count) -> (1 <= count)%Z -> 0 <= stepsize ->
  forall k : Z, (0 <= k)%Z -> (k + 1 < count)%Z -> vdist2 ray k (k + 1) <= stepsize.
Proof.
  intros Hc Hpos Hs0 k Hk0 Hk1.
  destruct (free_core2_final fuel ray count Hc Hpos) as (s1 & (Hinv & _) & Ebud & -> & ->).
  destruct (final_rows2 s1 Hinv Ebud) as (Hrows & _). cbv zeta in Hrows.
  unfold vdist2. rewrite !Hrows by lia.
  destruct Hinv as (_ & _ & _ & _ & _ & _ & _ & Hseg). apply (Hseg Hs0 k); lia.
Qed.

(* (2) the segment that ends at the source: either shorter than one step, or the loop stopped at a
   point where both interpolated gradient components vanish, at least one step away from the source *)
Theorem last_segment_2d fuel ray count :
  core fuel = Ok (ray, count) -> (1 <= count)%Z ->
  let pz := get 0 ray [(count - 1)%Z; 0%Z] in
  let px := get 0 ray [(count - 1)%Z; 1%Z] in
  vdist2 ray (count - 1) count < stepsize \/
  (stepsize <= vdist2 ray (count - 1) count /\
   u_interp2d_v z x zgrad pz px 0 = 0 /\ u_interp2d_v z x xgrad pz px 0 = 0).
Proof.
  intros Hc Hpos.
  destruct (free_core2_final fuel ray count Hc Hpos) as (s1 & (Hinv & Hwhy) & Ebud & -> & ->).
  destruct (final_rows2 s1 Hinv Ebud) as (Hrows & Sz & Sx). cbv zeta in Hrows, Sz, Sx.
  pose proof Hinv as ((Hc1 & _) & _ & _ & _ & _ & R0 & R1 & _).
  cbv zeta. rewrite !Hrows by lia. rewrite R0, R1.
  rewrite (vdist2_val _ (s_count s1 - 1) (s_count s1) (get 0 (s_pcur s1) [0%Z]) (get 0 (s_pcur s1) [1%Z]) zsrc xsrc);
    try assumption; try (rewrite Hrows by lia; assumption).
  assert (Ed : Common.dist2d zsrc xsrc (get 0 (s_pcur s1) [0%Z]) (get 0 (s_pcur s1) [1%Z]) =
               sqrt ((zsrc - get 0 (s_pcur s1) [0%Z]) * (zsrc - get 0 (s_pcur s1) [0%Z]) +
                     (xsrc - get 0 (s_pcur s1) [1%Z]) * (xsrc - get 0 (s_pcur s1) [1%Z]))) by reflexivity.
  destruct Hwhy as [Ec|[Eb|(Ec & _ & Egn)]].
  - left. unfold fcond2, ngeb in Ec. cbn [nleb nofZ NumR] in Ec. apply Rleb_false in Ec.
    rewrite Ed in Ec. exact Ec.
  - congruence.
  - right. unfold fcond2, ngeb in Ec. cbn [nleb nofZ NumR] in Ec. apply Rleb_true in Ec.
    rewrite Ed in Ec. split; [exact Ec|].
    unfold ngtb in Egn. cbn [nltb nofZ NumR] in Egn. apply Rltb_false in Egn. rewrite gn2_R in Egn.
    apply norm2_le0 in Egn. exact Egn.
Qed.
End Main2.

(* (1), written out: the clause of C10 exactly as stated *)
Corollary free_step_length_2d_explicit (z x zgrad xgrad : arr R) (zend xend zsrc xsrc stepsize : R)
          (max_step : Z) fuel ray count :
  u_ray2d_core_v fuel z x zgrad xgrad zend xend zsrc xsrc stepsize max_step false = Ok (ray, count) ->
  (1 <= count)%Z -> 0 < stepsize ->
  forall k : Z, (0 <= k)%Z -> (k + 1 < count)%Z ->
    sqrt ((get 0 ray [(k + 1)%Z; 0%Z] - get 0 ray [k; 0%Z]) ^ 2 +
          (get 0 ray [(k + 1)%Z; 1%Z] - get 0 ray [k; 1%Z]) ^ 2) <= stepsize.
Proof.
  intros Hc Hpos Hs k Hk0 Hk1.
  exact (free_step_length_2d z x zgrad xgrad zend xend zsrc xsrc stepsize max_step fuel ray count Hc Hpos
           (Rlt_le _ _ Hs) k Hk0 Hk1).
Qed.

(* (4) the public single-ray entry point returns the vertices in reverse order (source first):
   every segment except possibly the first one (the one touching the source) is at most one step
   long; the first one is shorter than one step unless the walk stopped on a zero gradient *)
Theorem ray2d_1_step_length fuel (z x zgrad xgrad p src : arr R) (stepsize : R) (max_step : Z) r :
  ray2d_1 fuel z x zgrad xgrad p src stepsize max_step false = Ok r ->
  exists count : Z, (1 <= count < max_step)%Z /\ shape r = [(count + 1)%Z; 2%Z] /\
    (0 <= stepsize -> forall i : Z, (1 <= i < count)%Z -> vdist2 r i (i + 1) <= stepsize) /\
    (vdist2 r 0 1 < stepsize \/
     (stepsize <= vdist2 r 0 1 /\
      u_interp2d_v z x zgrad (get 0 r [1%Z; 0%Z]) (get 0 r [1%Z; 1%Z]) 0 = 0 /\
      u_interp2d_v z x xgrad (get 0 r [1%Z; 0%Z]) (get 0 r [1%Z; 1%Z]) 0 = 0)).
Proof.
  unfold ray2d_1, u_ray2d_v. intros Hr.
  destruct (u_ray2d_core_v _ _ _ _ _ _ _ _ _ _ _ _) as [[ray count]| |] eqn:Ec; simpl in Hr; try discriminate.
  destruct (ray2d_core_count_range _ _ _ _ _ _ _ _ _ _ _ _ _ _ Ec) as [Hrange _].
  destruct (Z.eqb_spec count (-1)); [discriminate|].
  destruct (Z.eqb_spec count (-2)); [discriminate|]. simpl in Hr. injection Hr as <-.
  assert (Hpos : (1 <= count)%Z) by lia.
  destruct (ray2d_core_endpoints _ _ _ _ _ _ _ _ _ _ _ _ _ _ Ec Hpos) as (Hsh & Hwf & Hlt & _).
  assert (Hget : forall i c, (0 <= i <= count)%Z -> (0 <= c < 2)%Z ->
                   get 0 (rev_prefix ray count) [i; c] = get 0 ray [(count - i)%Z; c]).
  { intros i c Hi Hcc. apply (get_rev_prefix 0 ray max_step 2 count i c); auto; lia. }
  exists count. split; [lia|]. split; [apply shape_rev_prefix with (n := max_step); exact Hsh|].
  split.
  - intros Hs0 i Hi. unfold vdist2. rewrite !Hget by lia.
    pose proof (free_step_length_2d _ _ _ _ _ _ _ _ _ _ fuel ray count Ec Hpos Hs0 (count - (i + 1))%Z
                  ltac:(lia) ltac:(lia)) as Hseg.
    rewrite vdist2_sym in Hseg. unfold vdist2 in Hseg.
    replace (count - (i + 1) + 1)%Z with (count - i)%Z in Hseg by lia. exact Hseg.
  - pose proof (last_segment_2d _ _ _ _ _ _ _ _ _ _ fuel ray count Ec Hpos) as Hlast. cbv zeta in Hlast.
    rewrite vdist2_sym in Hlast. unfold vdist2 in *. rewrite !Hget by lia.
    replace (count - 0)%Z with count by lia. exact Hlast.
Qed.

(* ------------------------------------------------------------------------------------------ *)
(* 4. 2D: evaluating the loop on concrete real data; non-vacuity and the long last segment       *)
(* ------------------------------------------------------------------------------------------ *)
From FT.proofs Require Import SSR InterpR.

Lemma while_next {S} fuel (c : S -> bool) (b : S -> ctl S) s s' :
  c s = true -> b s = Next s' -> while_fuel (Datatypes.S fuel) c b s = while_fuel fuel c b s'.
Proof. intros Ec Eb. simpl. rewrite Ec, Eb. reflexivity. Qed.
Lemma while_brk {S} fuel (c : S -> bool) (b : S -> ctl S) s s' :
  c s = true -> b s = Brk s' -> while_fuel (Datatypes.S fuel) c b s = Ok s'.
Proof. intros Ec Eb. simpl. rewrite Ec, Eb. reflexivity. Qed.
Lemma while_done {S} fuel (c : S -> bool) (b : S -> ctl S) s :
  c s = false -> while_fuel (Datatypes.S fuel) c b s = Ok s.
Proof. intros Ec. simpl. rewrite Ec. reflexivity. Qed.

Lemma Int_part_ge0 (r : R) : 0 <= r -> (0 <= Int_part r)%Z.
Proof.
  intros Hr. destruct (base_Int_part r) as [B1 B2].
  assert (A : IZR (-1) < IZR (Int_part r)) by (simpl; lra). apply lt_IZR in A. lia.
Qed.

Section Eval2.
Variables (z x zgrad xgrad : arr R) (zend xend zsrc xsrc stepsize : R) (max_step : Z).
Notation cond2 := (fcond2 zsrc xsrc stepsize).
Notation body2 := (fbody2 z x zgrad xgrad stepsize max_step).
Notation budget2 := (bud2 z x stepsize max_step).
Notation next2 := (fnext2 z x zgrad xgrad stepsize).

Lemma nfm2_nonneg : 0 < stepsize -> (0 <= nfree_max2 z x stepsize)%Z.
Proof.
  intros Hs. unfold nfree_max2, Common.dist2d, Common.norm2d. cbn [ntrunc ndiv nsqrt NumR]. unfold Rtrunc.
  match goal with |- context [Rle_dec 0 ?q] => destruct (Rle_dec 0 q) as [Hq|Hq] end.
  - match goal with |- (0 <= Int_part ?q + 1)%Z => pose proof (Int_part_ge0 q Hq) end. lia.
  - exfalso. apply Hq. apply Rmult_le_pos; [apply sqrt_pos|]. left. apply Rinv_0_lt_compat. exact Hs.
Qed.

Lemma bud2_false (s : @St2 R) :
  0 < stepsize -> (s_count s < max_step)%Z -> s_nfree s = 0%Z -> budget2 s = false.
Proof.
  intros Hs Hc Hn. unfold bud2. rewrite Hn. pose proof (nfm2_nonneg Hs).
  apply orb_false_intro; [apply Z.leb_gt; exact Hc|apply Z.ltb_ge; assumption].
Qed.

Lemma cond2_true (s : @St2 R) p0 p1 :
  get 0 (s_pcur s) [0%Z] = p0 -> get 0 (s_pcur s) [1%Z] = p1 ->
  stepsize <= sqrt ((zsrc - p0) * (zsrc - p0) + (xsrc - p1) * (xsrc - p1)) -> cond2 s = true.
Proof. intros <- <- Hle. unfold fcond2, ngeb. cbn [nleb nofZ NumR]. apply Rleb_true. exact Hle. Qed.
Lemma cond2_false (s : @St2 R) p0 p1 :
  get 0 (s_pcur s) [0%Z] = p0 -> get 0 (s_pcur s) [1%Z] = p1 ->
  sqrt ((zsrc - p0) * (zsrc - p0) + (xsrc - p1) * (xsrc - p1)) < stepsize -> cond2 s = false.
Proof. intros <- <- Hlt. unfold fcond2, ngeb. cbn [nleb nofZ NumR]. apply Rleb_false. exact Hlt. Qed.

Lemma body2_next (s : @St2 R) g h :
  budget2 s = false -> gz2 z x zgrad (s_pcur s) = g -> gx2 z x xgrad (s_pcur s) = h ->
  0 < sqrt (g * g + h * h) -> body2 s = Next (next2 s).
Proof.
  intros Eb <- <- Hn. unfold fbody2. rewrite Eb.
  replace (ngtb (gn2 z x zgrad xgrad (s_pcur s)) (nofZ 0)) with true; [reflexivity|].
  symmetry. unfold ngtb. cbn [nltb nofZ NumR]. apply Rltb_true. exact Hn.
Qed.
Lemma body2_zero (s : @St2 R) :
  budget2 s = false -> gz2 z x zgrad (s_pcur s) = 0 -> gx2 z x xgrad (s_pcur s) = 0 -> body2 s = Brk s.
Proof.
  intros Eb Ez Ex. unfold fbody2. rewrite Eb.
  replace (ngtb (gn2 z x zgrad xgrad (s_pcur s)) (nofZ 0)) with false; [reflexivity|].
  symmetry. unfold ngtb. cbn [nltb nofZ NumR]. apply Rltb_false.
  change (sqrt (gz2 z x zgrad (s_pcur s) * gz2 z x zgrad (s_pcur s) +
                gx2 z x xgrad (s_pcur s) * gx2 z x xgrad (s_pcur s)) <= 0).
  rewrite Ez, Ex. replace (0 * 0 + 0 * 0) with 0 by ring. rewrite sqrt_0. lra.
Qed.

(* the point stored by a step, when the gradient at the current point is known *)
Lemma next2_point (s : @St2 R) g h :
  vec2 (s_pcur s) -> vec2 (s_delta s) ->
  gz2 z x zgrad (s_pcur s) = g -> gx2 z x xgrad (s_pcur s) = h ->
  get 0 (s_pcur (next2 s)) [0%Z] = clamp z (get 0 (s_pcur s) [0%Z] - stepsize * g * (1 / sqrt (g * g + h * h))) /\
  get 0 (s_pcur (next2 s)) [1%Z] = clamp x (get 0 (s_pcur s) [1%Z] - stepsize * h * (1 / sqrt (g * g + h * h))).
Proof.
  intros Vp Vd <- <-.
  destruct (fnext2_facts z x zgrad xgrad stepsize s Vp Vd) as (_ & _ & _ & _ & _ & G0 & G1).
  split; [exact G0|exact G1].
Qed.
End Eval2.

Lemma clamp_id (ax : arr R) (a : R) : in_ax ax a -> clamp ax a = a.
Proof.
  intros [H1 H2]. unfold clamp, pymin2, pymax2. cbn [nltb nofZ NumR].
  destruct (Rltb a (get 0 ax [0%Z])) eqn:E1; [apply Rltb_true in E1; lra|].
  destruct (Rltb _ a) eqn:E2; [apply Rltb_true in E2; lra|reflexivity].
Qed.

(* grid z = [0, 2, 3], x = [0, 1] *)
Definition exz : arr R := mkarr [3%Z] [0; 2; 3].
Definition exx : arr R := mkarr [2%Z] [0; 1].
Lemma exz_axis : axis exz 3.
Proof.
  split; [reflexivity|]. split; [reflexivity|]. split; [lia|]. intros i j Hij.
  assert (Hi : (i = 0 \/ i = 1)%Z) by lia. assert (Hj : (j = 1 \/ j = 2)%Z) by lia.
  destruct Hi as [-> | ->]; destruct Hj as [-> | ->]; try lia;
    [change (0 < 2)|change (0 < 3)|change (2 < 3)]; lra.
Qed.
Lemma exx_axis : axis exx 2.
Proof.
  split; [reflexivity|]. split; [reflexivity|]. split; [lia|]. intros i j Hij.
  assert (Hi : (i = 0)%Z) by lia. assert (Hj : (j = 1)%Z) by lia. subst. change (0 < 1). lra.
Qed.
Lemma ex_hull (a b : R) : 0 <= a <= 3 -> 0 <= b <= 1 -> hull2 exz exx a b = true.
Proof.
  intros Ha Hb. unfold hull2. cbn [nleb nofZ NumR].
  change (get 0 exz [0%Z]) with 0. change (get 0 exx [0%Z]) with 0.
  change (get 0 exz [(dim exz 0%nat - 1)%Z]) with 3. change (get 0 exx [(dim exx 0%nat - 1)%Z]) with 1.
  rewrite !(proj2 (Rleb_true _ _)) by lra. reflexivity.
Qed.
Lemma ex_in_z a : 0 <= a <= 3 -> in_ax exz a.
Proof. intros Ha. exact Ha. Qed.
Lemma ex_in_x a : 0 <= a <= 1 -> in_ax exx a.
Proof. intros Ha. exact Ha. Qed.

(* (a) homogeneous gradient (1, 0): a ray with three vertices (3,0), (2,0), (3/2,0) is returned *)
Definition exg1 : arr R := mkarr [3%Z; 2%Z] [1; 1; 1; 1; 1; 1].
Definition exg0 : arr R := mkarr [3%Z; 2%Z] [0; 0; 0; 0; 0; 0].

Lemma sqrt_10 : sqrt (1 * 1 + 0 * 0) = 1.
Proof. replace (1 * 1 + 0 * 0) with 1 by ring. apply sqrt_1. Qed.

Example free_ray_three_vertices_2d :
  exists ray, u_ray2d_core_v 11 exz exx exg1 exg0 3 0 (3/2) 0 1 10%Z false = Ok (ray, 2%Z).
Proof.
  rewrite free_core2_eq by (apply ex_hull; lra).
  set (s0 := init2 3 0 10 : @St2 R). set (s1 := fnext2 exz exx exg1 exg0 1 s0).
  assert (Vp0 : vec2 (s_pcur s0)) by apply vec2_of_list.
  assert (Vd0 : vec2 (s_delta s0)) by (split; reflexivity).
  assert (Gz0 : gz2 exz exx exg1 (s_pcur s0) = 1)
    by exact (interp2d_node exz exx exg1 3 2 exz_axis exx_axis eq_refl 2 0 0 ltac:(lia) ltac:(lia)).
  assert (Gx0 : gx2 exz exx exg0 (s_pcur s0) = 0)
    by exact (interp2d_node exz exx exg0 3 2 exz_axis exx_axis eq_refl 2 0 0 ltac:(lia) ltac:(lia)).
  assert (B0 : fbody2 exz exx exg1 exg0 1 10 s0 = Next s1).
  { apply (body2_next exz exx exg1 exg0 1 10 s0 1 0);
      [apply bud2_false; [lra|reflexivity|reflexivity]|exact Gz0|exact Gx0|rewrite sqrt_10; lra]. }
  destruct (next2_point exz exx exg1 exg0 1 s0 1 0 Vp0 Vd0 Gz0 Gx0) as [P0 P1]. fold s1 in P0, P1.
  rewrite sqrt_10 in P0, P1.
  change (get 0 (s_pcur s0) [0%Z]) with 3 in P0. change (get 0 (s_pcur s0) [1%Z]) with 0 in P1.
  rewrite clamp_id in P0 by (apply ex_in_z; lra). rewrite clamp_id in P1 by (apply ex_in_x; lra).
  assert (C0 : fcond2 (3/2) 0 1 s0 = true).
  { apply (cond2_true _ _ _ s0 3 0 eq_refl eq_refl).
    replace ((3/2 - 3) * (3/2 - 3) + (0 - 0) * (0 - 0)) with ((3/2) * (3/2)) by field.
    rewrite sqrt_square by lra. lra. }
  assert (C1 : fcond2 (3/2) 0 1 s1 = false).
  { apply (cond2_false _ _ _ s1 _ _ P0 P1).
    replace ((3/2 - (3 - 1 * 1 * (1 / 1))) * (3/2 - (3 - 1 * 1 * (1 / 1))) +
             (0 - (0 - 1 * 0 * (1 / 1))) * (0 - (0 - 1 * 0 * (1 / 1)))) with ((1/2) * (1/2)) by field.
    rewrite sqrt_square by lra. lra. }
  rewrite (while_next _ _ _ s0 s1 C0 B0), (while_done _ _ _ s1 C1). cbn [rbind]. unfold fin2.
  assert (E1 : bud2 exz exx 1 10 s1 = false) by (apply bud2_false; [lra|reflexivity|reflexivity]).
  unfold bud2 in E1. rewrite E1. eexists. reflexivity.
Qed.

(* (b) F17 over the reals: the z-gradient vanishes on the rows z = 0 and z = 2 and equals 1 on the row
   z = 3.  From (3,0) the walk makes one unit step to the node (2,0), where both interpolated
   gradient components are exactly 0; it stops there and the source (0,0) is appended:
   the last segment has length 2 = 2 * stepsize. *)
Definition exgs : arr R := mkarr [3%Z; 2%Z] [0; 0; 0; 0; 1; 1].

Example last_segment_2d_refuted :
  exists ray, u_ray2d_core_v 11 exz exx exgs exg0 3 0 0 0 1 10%Z false = Ok (ray, 2%Z) /\
              vdist2 ray 1 2 = 2 /\ ~ (vdist2 ray 1 2 <= 1).
Proof.
  assert (Hh : hull2 exz exx 3 0 = true) by (apply ex_hull; lra).
  rewrite (free_core2_eq exz exx exgs exg0 3 0 0 0 1 10 Hh).
  set (s0 := init2 3 0 10 : @St2 R). set (s1 := fnext2 exz exx exgs exg0 1 s0).
  assert (Vp0 : vec2 (s_pcur s0)) by apply vec2_of_list.
  assert (Vd0 : vec2 (s_delta s0)) by (split; reflexivity).
  assert (Gz0 : gz2 exz exx exgs (s_pcur s0) = 1)
    by exact (interp2d_node exz exx exgs 3 2 exz_axis exx_axis eq_refl 2 0 0 ltac:(lia) ltac:(lia)).
  assert (Gx0 : gx2 exz exx exg0 (s_pcur s0) = 0)
    by exact (interp2d_node exz exx exg0 3 2 exz_axis exx_axis eq_refl 2 0 0 ltac:(lia) ltac:(lia)).
  assert (B0 : fbody2 exz exx exgs exg0 1 10 s0 = Next s1).
  { apply (body2_next exz exx exgs exg0 1 10 s0 1 0);
      [apply bud2_false; [lra|reflexivity|reflexivity]|exact Gz0|exact Gx0|rewrite sqrt_10; lra]. }
  destruct (next2_point exz exx exgs exg0 1 s0 1 0 Vp0 Vd0 Gz0 Gx0) as [P0 P1]. fold s1 in P0, P1.
  rewrite sqrt_10 in P0, P1.
  change (get 0 (s_pcur s0) [0%Z]) with 3 in P0. change (get 0 (s_pcur s0) [1%Z]) with 0 in P1.
  rewrite clamp_id in P0 by (apply ex_in_z; lra). rewrite clamp_id in P1 by (apply ex_in_x; lra).
  replace (3 - 1 * 1 * (1 / 1)) with 2 in P0 by field. replace (0 - 1 * 0 * (1 / 1)) with 0 in P1 by field.
  (* the gradient at the stored point (2, 0) = node (1, 0) *)
  assert (Gz1 : gz2 exz exx exgs (s_pcur s1) = 0).
  { unfold gz2, interp2d_1. cbn [nofZ NumR]. rewrite P0, P1.
    exact (interp2d_node exz exx exgs 3 2 exz_axis exx_axis eq_refl 1 0 0 ltac:(lia) ltac:(lia)). }
  assert (Gx1 : gx2 exz exx exg0 (s_pcur s1) = 0).
  { unfold gx2, interp2d_1. cbn [nofZ NumR]. rewrite P0, P1.
    exact (interp2d_node exz exx exg0 3 2 exz_axis exx_axis eq_refl 1 0 0 ltac:(lia) ltac:(lia)). }
  assert (E1 : bud2 exz exx 1 10 s1 = false) by (apply bud2_false; [lra|reflexivity|reflexivity]).
  assert (B1 : fbody2 exz exx exgs exg0 1 10 s1 = Brk s1) by (apply body2_zero; assumption).
  assert (C0 : fcond2 0 0 1 s0 = true).
  { apply (cond2_true _ _ _ s0 3 0 eq_refl eq_refl).
    replace ((0 - 3) * (0 - 3) + (0 - 0) * (0 - 0)) with (3 * 3) by ring. rewrite sqrt_square by lra. lra. }
  assert (C1 : fcond2 0 0 1 s1 = true).
  { apply (cond2_true _ _ _ s1 _ _ P0 P1).
    replace ((0 - 2) * (0 - 2) + (0 - 0) * (0 - 0)) with (2 * 2) by ring. rewrite sqrt_square by lra. lra. }
  rewrite (while_next _ _ _ s0 s1 C0 B0), (while_brk _ _ _ s1 s1 C1 B1). cbn [rbind]. unfold fin2.
  pose proof E1 as E1'. unfold bud2 in E1'. rewrite E1'. eexists. split; [reflexivity|].
  (* rows 1 and 2 of the returned array *)
  assert (I1 : FInv2 exz exx 3 0 1 10 s1).
  { apply (FInv2_step exz exx exgs exg0 3 0 1 10 s0 s1); [apply FInv2_init; [exact Hh|lia]|exact B0]. }
  destruct (final_rows2 exz exx 3 0 0 0 1 10 s1 I1 E1) as (Hrows & Sz & Sx).
  cbv zeta in Hrows, Sz, Sx. change (s_count s1) with 2%Z in Hrows, Sz, Sx |- *.
  destruct I1 as (_ & _ & _ & _ & _ & R0 & R1 & _). change (s_count s1 - 1)%Z with 1%Z in R0, R1.
  assert (Ev : vdist2 (set_sub (s_ray s1) [2%Z] (of_list [0; 0])) 1 2 = 2).
  { rewrite (vdist2_val _ 1 2 2 0 0 0).
    - replace ((0 - 2) * (0 - 2) + (0 - 0) * (0 - 0)) with (2 * 2) by ring. apply sqrt_square. lra.
    - rewrite Hrows by lia. rewrite R0. exact P0.
    - rewrite Hrows by lia. rewrite R1. exact P1.
    - exact Sz.
    - exact Sx. }
  split; [exact Ev|]. rewrite Ev. lra.
Qed.

(* ========================================================================================== *)
(* 3D                                                                                          *)
(* ========================================================================================== *)
Local Close Scope R_scope.

(* ------------------------------------------------------------------------------------------ *)
(* 5. the free-step loop of the 3D core, explicitly (any numeric type)                          *)
(* ------------------------------------------------------------------------------------------ *)
Section Free3.
Context {T : Type} `{Num T}.
Variables (z x y zgrad xgrad ygrad : arr T) (zend xend yend zsrc xsrc ysrc stepsize : T) (max_step : Z).

Definition fcond3 (s : @St2 T) : bool :=
  ngeb (Common.dist3d zsrc xsrc ysrc (get (nofZ 0) (s_pcur s) [0]) (get (nofZ 0) (s_pcur s) [1])
                      (get (nofZ 0) (s_pcur s) [2])) stepsize.
Definition bud3 (s : @St2 T) : bool :=
  (max_step <=? s_count s) || (nfree_max3 z x y stepsize <? s_nfree s).
Definition gz3 (p : arr T) : T := Interp3d.interp3d_1 z x y zgrad p nnan.
Definition gx3 (p : arr T) : T := Interp3d.interp3d_1 z x y xgrad p nnan.
Definition gy3 (p : arr T) : T := Interp3d.interp3d_1 z x y ygrad p nnan.
Definition gn3 (p : arr T) : T := Common.norm3d (gz3 p) (gx3 p) (gy3 p).

Definition fnext3 (s : @St2 T) : @St2 T :=
  let gni := ndiv (nofZ 1) (gn3 (s_pcur s)) in
  let delta := set (set (set (s_delta s) [0] (nmul (nmul stepsize (gz3 (s_pcur s))) gni))
                        [1] (nmul (nmul stepsize (gx3 (s_pcur s))) gni))
                   [2] (nmul (nmul stepsize (gy3 (s_pcur s))) gni) in
  let p1 := amap2 nsub (s_pcur s) delta in
  let p2 := set p1 [0] (clamp z (get (nofZ 0) p1 [0])) in
  let p3 := set p2 [1] (clamp x (get (nofZ 0) p2 [1])) in
  let p4 := set p3 [2] (clamp y (get (nofZ 0) p3 [2])) in
  (s_count s + 1, delta, s_lower s, s_nfree s, p4, set_sub (s_ray s) [s_count s] p4, s_upper s).

Definition fbody3 (s : @St2 T) : ctl (@St2 T) :=
  if bud3 s then Brk s
  else if ngtb (gn3 (s_pcur s)) (nofZ 0) then Next (fnext3 s) else Brk s.

Definition init3 : @St2 T :=
  (1, full [3] (nofZ 0), mkarr [0] [], 0, of_list [zend; xend; yend],
   set_sub (full [max_step; 3] (nofZ 0)) [0] (of_list [zend; xend; yend]), mkarr [0] []).

Lemma free_core3_eq :
  hull3 z x y zend xend yend = true ->
  forall fuel,
    u_ray3d_core_v fuel z x y zgrad xgrad ygrad zend xend yend zsrc xsrc ysrc stepsize max_step false =
    rbind (while_fuel fuel fcond3 fbody3 init3)
          (fin3 zsrc xsrc ysrc max_step (nfree_max3 z x y stepsize)).
Proof.
  intros Hh fuel. cbv beta delta [u_ray3d_core_v].
  repeat pull_let_eq.
  apply if_negb_true; [exact Hh|].
  repeat pull_let_eq.
  repeat match goal with v := _ |- _ => subst v end.
  lazymatch goal with |- rbind (while_fuel _ ?C ?B _) _ = _ =>
    change (rbind (while_fuel fuel C B init3) (fin3 zsrc xsrc ysrc max_step (nfree_max3 z x y stepsize)) =
            rbind (while_fuel fuel fcond3 fbody3 init3)
                  (fin3 zsrc xsrc ysrc max_step (nfree_max3 z x y stepsize)))
  end.
  f_equal. apply while_fuel_ext.
  - intros s. reflexivity.
  - intros [[[[[[c d] l] n] p] r] u]. cbv beta.
    repeat pull_let_eq. cbn [fst snd] in *.
    repeat match goal with v := _ |- _ => subst v end.
    unfold fbody3, bud3, fnext3, gn3, gz3, gx3, gy3, clamp. cbv zeta.
    cbn [s_count s_nfree s_pcur s_delta s_lower s_upper s_ray fst snd].
    lazymatch goal with |- context [(?t <? n)] => change t with (nfree_max3 z x y stepsize) end.
    reflexivity.
Qed.
End Free3.

Lemma step_pt3 {T} `{Num T} (z x y p d : arr T) (a b c : T) :
  vec3 p -> vec3 d ->
  let d' := set (set (set d [0] a) [1] b) [2] c in
  let p1 := amap2 nsub p d' in
  let p2 := set p1 [0] (clamp z (get (nofZ 0) p1 [0])) in
  let p3 := set p2 [1] (clamp x (get (nofZ 0) p2 [1])) in
  let p4 := set p3 [2] (clamp y (get (nofZ 0) p3 [2])) in
  vec3 d' /\ vec3 p4 /\
  get (nofZ 0) p4 [0] = clamp z (nsub (get (nofZ 0) p [0]) a) /\
  get (nofZ 0) p4 [1] = clamp x (nsub (get (nofZ 0) p [1]) b) /\
  get (nofZ 0) p4 [2] = clamp y (nsub (get (nofZ 0) p [2]) c).
Proof.
  intros [Sp Lp] [Sd Ld]. destruct p as [shp lp]. destruct d as [shd ld]. simpl in Sp, Lp, Sd, Ld. subst shp shd.
  destruct lp as [|p0 [|p1 [|p2 [|]]]]; try discriminate.
  destruct ld as [|d0 [|d1 [|d2 [|]]]]; try discriminate.
  cbv zeta. repeat split.
Qed.

Section Free3Facts.
Context {T : Type} `{Num T}.
Variables (z x y zgrad xgrad ygrad : arr T) (stepsize : T).

Lemma fnext3_facts (s : @St2 T) :
  vec3 (s_pcur s) -> vec3 (s_delta s) ->
  let s' := fnext3 z x y zgrad xgrad ygrad stepsize s in
  let gni := ndiv (nofZ 1) (gn3 z x y zgrad xgrad ygrad (s_pcur s)) in
  s_count s' = s_count s + 1 /\ s_nfree s' = s_nfree s /\
  s_ray s' = set_sub (s_ray s) [s_count s] (s_pcur s') /\
  vec3 (s_pcur s') /\ vec3 (s_delta s') /\
  get (nofZ 0) (s_pcur s') [0] =
    clamp z (nsub (get (nofZ 0) (s_pcur s) [0]) (nmul (nmul stepsize (gz3 z x y zgrad (s_pcur s))) gni)) /\
  get (nofZ 0) (s_pcur s') [1] =
    clamp x (nsub (get (nofZ 0) (s_pcur s) [1]) (nmul (nmul stepsize (gx3 z x y xgrad (s_pcur s))) gni)) /\
  get (nofZ 0) (s_pcur s') [2] =
    clamp y (nsub (get (nofZ 0) (s_pcur s) [2]) (nmul (nmul stepsize (gy3 z x y ygrad (s_pcur s))) gni)).
Proof.
  intros Vp Vd s' gni.
  destruct (step_pt3 z x y (s_pcur s) (s_delta s)
              (nmul (nmul stepsize (gz3 z x y zgrad (s_pcur s))) gni)
              (nmul (nmul stepsize (gx3 z x y xgrad (s_pcur s))) gni)
              (nmul (nmul stepsize (gy3 z x y ygrad (s_pcur s))) gni) Vp Vd) as (Vd' & Vp' & G0 & G1 & G2).
  unfold s', fnext3. cbv zeta. cbn [s_count s_nfree s_ray s_pcur s_delta fst snd].
  cbv zeta in Vd', Vp', G0, G1, G2.
  split; [reflexivity|]. split; [reflexivity|]. split; [reflexivity|]. split; [exact Vp'|].
  split; [exact Vd'|]. split; [exact G0|]. split; [exact G1|exact G2].
Qed.
End Free3Facts.

(* ------------------------------------------------------------------------------------------ *)
(* 6. 3D: the step-length theorems                                                              *)
(* ------------------------------------------------------------------------------------------ *)
Local Open Scope R_scope.

Definition vdist3 (ray : arr R) (i j : Z) : R :=
  sqrt ((get 0 ray [j; 0%Z] - get 0 ray [i; 0%Z]) ^ 2 + (get 0 ray [j; 1%Z] - get 0 ray [i; 1%Z]) ^ 2 +
        (get 0 ray [j; 2%Z] - get 0 ray [i; 2%Z]) ^ 2).

Lemma vdist3_sym ray i j : vdist3 ray i j = vdist3 ray j i.
Proof. unfold vdist3. f_equal. ring. Qed.

Lemma vdist3_val ray i j a0 a1 a2 b0 b1 b2 :
  get 0 ray [i; 0%Z] = a0 -> get 0 ray [i; 1%Z] = a1 -> get 0 ray [i; 2%Z] = a2 ->
  get 0 ray [j; 0%Z] = b0 -> get 0 ray [j; 1%Z] = b1 -> get 0 ray [j; 2%Z] = b2 ->
  vdist3 ray i j = sqrt ((b0 - a0) * (b0 - a0) + (b1 - a1) * (b1 - a1) + (b2 - a2) * (b2 - a2)).
Proof. intros E1 E2 E3 E4 E5 E6. unfold vdist3. rewrite E1, E2, E3, E4, E5, E6. f_equal. ring. Qed.

Section Main3.
Variables (z x y zgrad xgrad ygrad : arr R) (zend xend yend zsrc xsrc ysrc stepsize : R) (max_step : Z).
Notation core fuel :=
  (u_ray3d_core_v fuel z x y zgrad xgrad ygrad zend xend yend zsrc xsrc ysrc stepsize max_step false).
Notation cond3 := (fcond3 zsrc xsrc ysrc stepsize).
Notation body3 := (fbody3 z x y zgrad xgrad ygrad stepsize max_step).
Notation budget3 := (bud3 z x y stepsize max_step).

Definition FInv3 (s : @St2 R) : Prop :=
  ray3_ok zend xend yend max_step s /\ vec3 (s_pcur s) /\ vec3 (s_delta s) /\
  (in_ax z (get 0 (s_pcur s) [0%Z]) /\ in_ax x (get 0 (s_pcur s) [1%Z]) /\ in_ax y (get 0 (s_pcur s) [2%Z])) /\
  (get 0 (s_ray s) [(s_count s - 1)%Z; 0%Z] = get 0 (s_pcur s) [0%Z] /\
   get 0 (s_ray s) [(s_count s - 1)%Z; 1%Z] = get 0 (s_pcur s) [1%Z] /\
   get 0 (s_ray s) [(s_count s - 1)%Z; 2%Z] = get 0 (s_pcur s) [2%Z]) /\
  (0 <= stepsize ->
   forall k : Z, (0 <= k)%Z -> (k + 1 < s_count s)%Z -> vdist3 (s_ray s) k (k + 1) <= stepsize).

Lemma gn3_R (p : arr R) :
  gn3 z x y zgrad xgrad ygrad p =
  sqrt (gz3 z x y zgrad p * gz3 z x y zgrad p + gx3 z x y xgrad p * gx3 z x y xgrad p +
        gy3 z x y ygrad p * gy3 z x y ygrad p).
Proof. reflexivity. Qed.

Lemma FInv3_step s s' : FInv3 s -> body3 s = Next s' -> FInv3 s'.
Proof.
  intros (Hok & Vp & Vd & (Iz & Ix & Iy) & (R0 & R1 & R2) & Hseg) Eb.
  unfold fbody3 in Eb. destruct (budget3 s) eqn:Ebud; [discriminate|].
  destruct (ngtb _ _) eqn:Egn; [|discriminate]. injection Eb as <-.
  unfold bud3 in Ebud. apply orb_false_elim in Ebud. destruct Ebud as [Eb1 _]. apply Z.leb_gt in Eb1.
  unfold ngtb in Egn. cbn [nltb nofZ NumR] in Egn. apply Rltb_true in Egn. rewrite gn3_R in Egn.
  destruct (fnext3_facts z x y zgrad xgrad ygrad stepsize s Vp Vd) as (Ec & _ & Er & Vp' & Vd' & G0 & G1 & G2).
  cbv zeta in Ec, Er, Vp', Vd', G0, G1, G2. cbn [nofZ nsub nmul ndiv NumR] in G0, G1, G2.
  rewrite gn3_R in G0, G1, G2.
  set (t := fnext3 z x y zgrad xgrad ygrad stepsize s) in *.
  set (gz := gz3 z x y zgrad (s_pcur s)) in *. set (gx := gx3 z x y xgrad (s_pcur s)) in *.
  set (gy := gy3 z x y ygrad (s_pcur s)) in *.
  set (p0 := get 0 (s_pcur s) [0%Z]) in *. set (p1 := get 0 (s_pcur s) [1%Z]) in *.
  set (p2 := get 0 (s_pcur s) [2%Z]) in *.
  destruct (ray3_ok_set_sub zend xend yend max_step s (s_pcur t) Hok Eb1 Vp')
    as (S1 & S2 & S3 & S5 & S6 & S7).
  cbn [nofZ NumR] in S3, S5, S6, S7. rewrite <- Er in S1, S2, S3, S5, S6, S7.
  destruct Hok as (Hc & Hsh & Hwf & H00).
  assert (Hz01 : get 0 z [0%Z] <= get 0 z [(dim z 0%nat - 1)%Z]) by (unfold in_ax in Iz; lra).
  assert (Hx01 : get 0 x [0%Z] <= get 0 x [(dim x 0%nat - 1)%Z]) by (unfold in_ax in Ix; lra).
  assert (Hy01 : get 0 y [0%Z] <= get 0 y [(dim y 0%nat - 1)%Z]) by (unfold in_ax in Iy; lra).
  assert (Hold : forall k c, (0 <= k < s_count s)%Z -> (0 <= c < 3)%Z ->
                   get 0 (s_ray t) [k; c] = get 0 (s_ray s) [k; c]).
  { intros k c Hk Hcc. rewrite Er.
    apply (get_set_sub_other 0 (s_ray s) (s_pcur t) max_step 3 (s_count s) k c); auto; try lia.
    destruct Vp' as [_ L]. exact L. }
  unfold FInv3. rewrite Ec.
  split; [split; [lia|]; split; [exact S1|]; split; [exact S2|exact S3]|].
  split; [exact Vp'|]. split; [exact Vd'|].
  split; [rewrite G0, G1, G2; split; [|split]; apply clamp_in; assumption|].
  replace (s_count s + 1 - 1)%Z with (s_count s) by lia.
  split; [split; [exact S5|split; [exact S6|exact S7]]|].
  intros Hs0 k Hk0 Hk1. destruct (Z.eq_dec (k + 1) (s_count s)) as [Ek|Nk].
  - rewrite Ek.
    rewrite (vdist3_val (s_ray t) k (s_count s) p0 p1 p2
               (get 0 (s_pcur t) [0%Z]) (get 0 (s_pcur t) [1%Z]) (get 0 (s_pcur t) [2%Z])).
    + apply sqrt_le_of_sq; [exact Hs0|].
      rewrite G0, G1, G2. unfold clamp. cbn [nofZ NumR].
      set (gni := 1 / sqrt (gz * gz + gx * gx + gy * gy)).
      pose proof (clamp_nonexp _ _ (p0 - stepsize * gz * gni) p0 Iz) as C0.
      pose proof (clamp_nonexp _ _ (p1 - stepsize * gx * gni) p1 Ix) as C1.
      pose proof (clamp_nonexp _ _ (p2 - stepsize * gy * gni) p2 Iy) as C2.
      pose proof (unit_step3 stepsize gz gx gy Egn) as U. cbv zeta in U. fold gni in U. nra.
    + rewrite Hold by lia. replace k with (s_count s - 1)%Z by lia. exact R0.
    + rewrite Hold by lia. replace k with (s_count s - 1)%Z by lia. exact R1.
    + rewrite Hold by lia. replace k with (s_count s - 1)%Z by lia. exact R2.
    + exact S5.
    + exact S6.
    + exact S7.
  - unfold vdist3. rewrite !Hold by lia. apply (Hseg Hs0 k); lia.
Qed.

Definition Exit3 (s : @St2 R) : Prop :=
  FInv3 s /\
  (cond3 s = false \/ budget3 s = true \/
   (cond3 s = true /\ budget3 s = false /\ ngtb (gn3 z x y zgrad xgrad ygrad (s_pcur s)) 0 = false)).

Lemma FInv3_init :
  hull3 z x y zend xend yend = true -> (1 <= max_step)%Z -> FInv3 (init3 zend xend yend max_step).
Proof.
  intros Hh Hms. destruct (hull3_R z x y zend xend yend Hh) as (Hz & Hx & Hy).
  assert (Hok : ray3_ok zend xend yend max_step (init3 zend xend yend max_step)).
  { apply ray3_ok_init; try reflexivity; lia. }
  pose proof Hok as (_ & _ & _ & H00).
  split; [exact Hok|]. split; [apply vec3_of_list|]. split; [split; reflexivity|].
  split; [split; [exact Hz|split; [exact Hx|exact Hy]]|]. split; [exact H00|].
  intros _ k Hk0 Hk1. change (s_count (init3 zend xend yend max_step)) with 1%Z in Hk1. lia.
Qed.

Lemma free_loop3 fuel s0 s1 : FInv3 s0 -> while_fuel fuel cond3 body3 s0 = Ok s1 -> Exit3 s1.
Proof.
  intros H0 Hw. apply (while_fuel_inv cond3 body3 FInv3 Exit3) with (4 := H0) (5 := Hw).
  - intros s s' Hs _ Eb. eapply FInv3_step; eauto.
  - intros s s' Hs Ec Eb. unfold fbody3 in Eb. destruct (budget3 s) eqn:Ebud.
    + injection Eb as <-. split; [exact Hs|]. right; left. exact Ebud.
    + destruct (ngtb _ _) eqn:Egn; [discriminate|]. injection Eb as <-.
      split; [exact Hs|]. right; right. auto.
  - intros s Hs Ec. split; [exact Hs|]. left. exact Ec.
Qed.

Lemma free_core3_final fuel ray count :
  core fuel = Ok (ray, count) -> (1 <= count)%Z ->
  exists s1, Exit3 s1 /\ budget3 s1 = false /\ count = s_count s1 /\
             ray = set_sub (s_ray s1) [count] (of_list [zsrc; xsrc; ysrc]).
Proof.
  intros Hc Hpos.
  destruct (ray3d_core_count_range z x y zgrad xgrad ygrad zend xend yend zsrc xsrc ysrc stepsize max_step false
              fuel ray count Hc) as [Hr _].
  destruct (hull3 z x y zend xend yend) eqn:Hh.
  2:{ rewrite ray3d_core_outside in Hc by exact Hh. injection Hc as _ <-. lia. }
  rewrite (free_core3_eq z x y zgrad xgrad ygrad zend xend yend zsrc xsrc ysrc stepsize max_step Hh) in Hc.
  destruct (while_fuel fuel cond3 body3 (init3 zend xend yend max_step)) as [s1| |] eqn:Ew; simpl in Hc;
    try discriminate.
  assert (Hex : Exit3 s1). { eapply free_loop3; [|exact Ew]. apply FInv3_init; [exact Hh|lia]. }
  exists s1. split; [exact Hex|]. unfold fin3 in Hc. fold (budget3 s1) in Hc.
  destruct (budget3 s1); injection Hc as <- <-; [lia|]. auto.
Qed.

Lemma final_rows3 s1 :
  FInv3 s1 -> budget3 s1 = false ->
  let ray := set_sub (s_ray s1) [s_count s1] (of_list [zsrc; xsrc; ysrc]) in
  (forall k c, (0 <= k < s_count s1)%Z -> (0 <= c < 3)%Z -> get 0 ray [k; c] = get 0 (s_ray s1) [k; c]) /\
  get 0 ray [s_count s1; 0%Z] = zsrc /\ get 0 ray [s_count s1; 1%Z] = xsrc /\
  get 0 ray [s_count s1; 2%Z] = ysrc.
Proof.
  intros (Hok & _) Ebud ray.
  unfold bud3 in Ebud. apply orb_false_elim in Ebud. destruct Ebud as [Eb1 _]. apply Z.leb_gt in Eb1.
  destruct (ray3_ok_set_sub zend xend yend max_step s1 (of_list [zsrc; xsrc; ysrc]) Hok Eb1
              (vec3_of_list zsrc xsrc ysrc)) as (_ & _ & _ & S5 & S6 & S7).
  destruct Hok as (Hc & Hsh & Hwf & _).
  split; [|split; [exact S5|split; [exact S6|exact S7]]].
  intros k c Hk Hcc. unfold ray.
  apply (get_set_sub_other 0 (s_ray s1) (of_list [zsrc; xsrc; ysrc]) max_step 3 (s_count s1) k c); auto; try lia.
Qed.

(* (3a) all segments between stored vertices are at most one step long *)
Theorem free_step_length_3d fuel ray count :
  core fuel = Ok (ray, count) -> (1 <= count)%Z -> 0 <= stepsize ->
  forall k : Z, (0 <= k)%Z -> (k + 1 < count)%Z -> vdist3 ray k (k + 1) <= stepsize.
Proof.
  intros Hc Hpos Hs0 k Hk0 Hk1.
  destruct (free_core3_final fuel ray count Hc Hpos) as (s1 & (Hinv & _) & Ebud & -> & ->).
  destruct (final_rows3 s1 Hinv Ebud) as (Hrows & _). cbv zeta in Hrows.
  unfold vdist3. rewrite !Hrows by lia.
  destruct Hinv as (_ & _ & _ & _ & _ & Hseg). apply (Hseg Hs0 k); lia.
Qed.

(* (3b) the segment that ends at the source *)
Theorem last_segment_3d fuel ray count :
  core fuel = Ok (ray, count) -> (1 <= count)%Z ->
  let pz := get 0 ray [(count - 1)%Z; 0%Z] in
  let px := get 0 ray [(count - 1)%Z; 1%Z] in
  let py := get 0 ray [(count - 1)%Z; 2%Z] in
  vdist3 ray (count - 1) count < stepsize \/
  (stepsize <= vdist3 ray (count - 1) count /\
   u_interp3d_v z x y zgrad pz px py 0 = 0 /\ u_interp3d_v z x y xgrad pz px py 0 = 0 /\
   u_interp3d_v z x y ygrad pz px py 0 = 0).
Proof.
  intros Hc Hpos.
  destruct (free_core3_final fuel ray count Hc Hpos) as (s1 & (Hinv & Hwhy) & Ebud & -> & ->).
  destruct (final_rows3 s1 Hinv Ebud) as (Hrows & Sz & Sx & Sy). cbv zeta in Hrows, Sz, Sx, Sy.
  pose proof Hinv as ((Hc1 & _) & _ & _ & _ & (R0 & R1 & R2) & _).
  cbv zeta. rewrite !Hrows by lia. rewrite R0, R1, R2.
  rewrite (vdist3_val _ (s_count s1 - 1) (s_count s1)
             (get 0 (s_pcur s1) [0%Z]) (get 0 (s_pcur s1) [1%Z]) (get 0 (s_pcur s1) [2%Z]) zsrc xsrc ysrc);
    try assumption; try (rewrite Hrows by lia; assumption).
  assert (Ed : Common.dist3d zsrc xsrc ysrc (get 0 (s_pcur s1) [0%Z]) (get 0 (s_pcur s1) [1%Z])
                             (get 0 (s_pcur s1) [2%Z]) =
               sqrt ((zsrc - get 0 (s_pcur s1) [0%Z]) * (zsrc - get 0 (s_pcur s1) [0%Z]) +
                     (xsrc - get 0 (s_pcur s1) [1%Z]) * (xsrc - get 0 (s_pcur s1) [1%Z]) +
                     (ysrc - get 0 (s_pcur s1) [2%Z]) * (ysrc - get 0 (s_pcur s1) [2%Z]))) by reflexivity.
  destruct Hwhy as [Ec|[Eb|(Ec & _ & Egn)]].
  - left. unfold fcond3, ngeb in Ec. cbn [nleb nofZ NumR] in Ec. apply Rleb_false in Ec.
    rewrite Ed in Ec. exact Ec.
  - congruence.
  - right. unfold fcond3, ngeb in Ec. cbn [nleb nofZ NumR] in Ec. apply Rleb_true in Ec.
    rewrite Ed in Ec. split; [exact Ec|].
    unfold ngtb in Egn. cbn [nltb nofZ NumR] in Egn. apply Rltb_false in Egn. rewrite gn3_R in Egn.
    apply norm3_le0 in Egn. exact Egn.
Qed.
End Main3.

Corollary free_step_length_3d_explicit (z x y zgrad xgrad ygrad : arr R)
          (zend xend yend zsrc xsrc ysrc stepsize : R) (max_step : Z) fuel ray count :
  u_ray3d_core_v fuel z x y zgrad xgrad ygrad zend xend yend zsrc xsrc ysrc stepsize max_step false =
    Ok (ray, count) ->
  (1 <= count)%Z -> 0 < stepsize ->
  forall k : Z, (0 <= k)%Z -> (k + 1 < count)%Z ->
    sqrt ((get 0 ray [(k + 1)%Z; 0%Z] - get 0 ray [k; 0%Z]) ^ 2 +
          (get 0 ray [(k + 1)%Z; 1%Z] - get 0 ray [k; 1%Z]) ^ 2 +
          (get 0 ray [(k + 1)%Z; 2%Z] - get 0 ray [k; 2%Z]) ^ 2) <= stepsize.
Proof.
  intros Hc Hpos Hs k Hk0 Hk1.
  exact (free_step_length_3d z x y zgrad xgrad ygrad zend xend yend zsrc xsrc ysrc stepsize max_step fuel ray count
           Hc Hpos (Rlt_le _ _ Hs) k Hk0 Hk1).
Qed.

(* (4, 3D) the public single-ray entry point *)
Theorem ray3d_1_step_length fuel (z x y zgrad xgrad ygrad p src : arr R) (stepsize : R) (max_step : Z) r :
  ray3d_1 fuel z x y zgrad xgrad ygrad p src stepsize max_step false = Ok r ->
  exists count : Z, (1 <= count < max_step)%Z /\ shape r = [(count + 1)%Z; 3%Z] /\
    (0 <= stepsize -> forall i : Z, (1 <= i < count)%Z -> vdist3 r i (i + 1) <= stepsize) /\
    (vdist3 r 0 1 < stepsize \/
     (stepsize <= vdist3 r 0 1 /\
      u_interp3d_v z x y zgrad (get 0 r [1%Z; 0%Z]) (get 0 r [1%Z; 1%Z]) (get 0 r [1%Z; 2%Z]) 0 = 0 /\
      u_interp3d_v z x y xgrad (get 0 r [1%Z; 0%Z]) (get 0 r [1%Z; 1%Z]) (get 0 r [1%Z; 2%Z]) 0 = 0 /\
      u_interp3d_v z x y ygrad (get 0 r [1%Z; 0%Z]) (get 0 r [1%Z; 1%Z]) (get 0 r [1%Z; 2%Z]) 0 = 0)).
Proof.
  unfold ray3d_1, u_ray3d_v. intros Hr.
  destruct (u_ray3d_core_v _ _ _ _ _ _ _ _ _ _ _ _ _ _ _ _) as [[ray count]| |] eqn:Ec; simpl in Hr; try discriminate.
  destruct (ray3d_core_count_range _ _ _ _ _ _ _ _ _ _ _ _ _ _ _ _ _ _ Ec) as [Hrange _].
  destruct (Z.eqb_spec count (-1)); [discriminate|].
  destruct (Z.eqb_spec count (-2)); [discriminate|]. simpl in Hr. injection Hr as <-.
  assert (Hpos : (1 <= count)%Z) by lia.
  destruct (ray3d_core_endpoints _ _ _ _ _ _ _ _ _ _ _ _ _ _ _ _ _ _ Ec Hpos) as (Hsh & Hwf & Hlt & _).
  assert (Hget : forall i c, (0 <= i <= count)%Z -> (0 <= c < 3)%Z ->
                   get 0 (rev_prefix ray count) [i; c] = get 0 ray [(count - i)%Z; c]).
  { intros i c Hi Hcc. apply (get_rev_prefix 0 ray max_step 3 count i c); auto; lia. }
  exists count. split; [lia|]. split; [apply shape_rev_prefix with (n := max_step); exact Hsh|].
  split.
  - intros Hs0 i Hi. unfold vdist3. rewrite !Hget by lia.
    pose proof (free_step_length_3d _ _ _ _ _ _ _ _ _ _ _ _ _ _ fuel ray count Ec Hpos Hs0 (count - (i + 1))%Z
                  ltac:(lia) ltac:(lia)) as Hseg.
    rewrite vdist3_sym in Hseg. unfold vdist3 in Hseg.
    replace (count - (i + 1) + 1)%Z with (count - i)%Z in Hseg by lia. exact Hseg.
  - pose proof (last_segment_3d _ _ _ _ _ _ _ _ _ _ _ _ _ _ fuel ray count Ec Hpos) as Hlast. cbv zeta in Hlast.
    rewrite vdist3_sym in Hlast. unfold vdist3 in *. rewrite !Hget by lia.
    replace (count - 0)%Z with count by lia. exact Hlast.
Qed.

(* ------------------------------------------------------------------------------------------ *)
(* 7. 3D: evaluation on concrete real data; non-vacuity and the long last segment                *)
(* ------------------------------------------------------------------------------------------ *)
From FT.proofs Require Import Interp3R.

Section Eval3.
Variables (z x y zgrad xgrad ygrad : arr R) (zsrc xsrc ysrc stepsize : R) (max_step : Z).
Notation cond3 := (fcond3 zsrc xsrc ysrc stepsize).
Notation body3 := (fbody3 z x y zgrad xgrad ygrad stepsize max_step).
Notation budget3 := (bud3 z x y stepsize max_step).
Notation next3 := (fnext3 z x y zgrad xgrad ygrad stepsize).

Lemma nfm3_nonneg : 0 < stepsize -> (0 <= nfree_max3 z x y stepsize)%Z.
Proof.
  intros Hs. unfold nfree_max3, Common.dist3d, Common.norm3d. cbn [ntrunc ndiv nsqrt NumR]. unfold Rtrunc.
  match goal with |- context [Rle_dec 0 ?q] => destruct (Rle_dec 0 q) as [Hq|Hq] end.
  - match goal with |- (0 <= Int_part ?q + 1)%Z => pose proof (Int_part_ge0 q Hq) end. lia.
  - exfalso. apply Hq. apply Rmult_le_pos; [apply sqrt_pos|]. left. apply Rinv_0_lt_compat. exact Hs.
Qed.

Lemma bud3_false (s : @St2 R) :
  0 < stepsize -> (s_count s < max_step)%Z -> s_nfree s = 0%Z -> budget3 s = false.
Proof.
  intros Hs Hc Hn. unfold bud3. rewrite Hn. pose proof (nfm3_nonneg Hs).
  apply orb_false_intro; [apply Z.leb_gt; exact Hc|apply Z.ltb_ge; assumption].
Qed.

Lemma cond3_true (s : @St2 R) p0 p1 p2 :
  get 0 (s_pcur s) [0%Z] = p0 -> get 0 (s_pcur s) [1%Z] = p1 -> get 0 (s_pcur s) [2%Z] = p2 ->
  stepsize <= sqrt ((zsrc - p0) * (zsrc - p0) + (xsrc - p1) * (xsrc - p1) + (ysrc - p2) * (ysrc - p2)) ->
  cond3 s = true.
Proof. intros <- <- <- Hle. unfold fcond3, ngeb. cbn [nleb nofZ NumR]. apply Rleb_true. exact Hle. Qed.
Lemma cond3_false (s : @St2 R) p0 p1 p2 :
  get 0 (s_pcur s) [0%Z] = p0 -> get 0 (s_pcur s) [1%Z] = p1 -> get 0 (s_pcur s) [2%Z] = p2 ->
  sqrt ((zsrc - p0) * (zsrc - p0) + (xsrc - p1) * (xsrc - p1) + (ysrc - p2) * (ysrc - p2)) < stepsize ->
  cond3 s = false.
Proof. intros <- <- <- Hlt. unfold fcond3, ngeb. cbn [nleb nofZ NumR]. apply Rleb_false. exact Hlt. Qed.

Lemma body3_next (s : @St2 R) g h k :
  budget3 s = false -> gz3 z x y zgrad (s_pcur s) = g -> gx3 z x y xgrad (s_pcur s) = h ->
  gy3 z x y ygrad (s_pcur s) = k -> 0 < sqrt (g * g + h * h + k * k) -> body3 s = Next (next3 s).
Proof.
  intros Eb <- <- <- Hn. unfold fbody3. rewrite Eb.
  replace (ngtb (gn3 z x y zgrad xgrad ygrad (s_pcur s)) (nofZ 0)) with true; [reflexivity|].
  symmetry. unfold ngtb. cbn [nltb nofZ NumR]. apply Rltb_true. exact Hn.
Qed.
Lemma body3_zero (s : @St2 R) :
  budget3 s = false -> gz3 z x y zgrad (s_pcur s) = 0 -> gx3 z x y xgrad (s_pcur s) = 0 ->
  gy3 z x y ygrad (s_pcur s) = 0 -> body3 s = Brk s.
Proof.
  intros Eb Ez Ex Ey. unfold fbody3. rewrite Eb.
  replace (ngtb (gn3 z x y zgrad xgrad ygrad (s_pcur s)) (nofZ 0)) with false; [reflexivity|].
  symmetry. unfold ngtb. cbn [nltb nofZ NumR]. apply Rltb_false.
  rewrite gn3_R, Ez, Ex, Ey. replace (0 * 0 + 0 * 0 + 0 * 0) with 0 by ring. rewrite sqrt_0. lra.
Qed.

Lemma next3_point (s : @St2 R) g h k :
  vec3 (s_pcur s) -> vec3 (s_delta s) ->
  gz3 z x y zgrad (s_pcur s) = g -> gx3 z x y xgrad (s_pcur s) = h -> gy3 z x y ygrad (s_pcur s) = k ->
  let gni := 1 / sqrt (g * g + h * h + k * k) in
  get 0 (s_pcur (next3 s)) [0%Z] = clamp z (get 0 (s_pcur s) [0%Z] - stepsize * g * gni) /\
  get 0 (s_pcur (next3 s)) [1%Z] = clamp x (get 0 (s_pcur s) [1%Z] - stepsize * h * gni) /\
  get 0 (s_pcur (next3 s)) [2%Z] = clamp y (get 0 (s_pcur s) [2%Z] - stepsize * k * gni).
Proof.
  intros Vp Vd <- <- <-.
  destruct (fnext3_facts z x y zgrad xgrad ygrad stepsize s Vp Vd) as (_ & _ & _ & _ & _ & G0 & G1 & G2).
  split; [exact G0|split; [exact G1|exact G2]].
Qed.
End Eval3.

Lemma ex_hull3 (a b c : R) : 0 <= a <= 3 -> 0 <= b <= 1 -> 0 <= c <= 1 -> hull3 exz exx exx a b c = true.
Proof.
  intros Ha Hb Hc. unfold hull3. cbn [nleb nofZ NumR].
  change (get 0 exz [0%Z]) with 0. change (get 0 exx [0%Z]) with 0.
  change (get 0 exz [(dim exz 0%nat - 1)%Z]) with 3. change (get 0 exx [(dim exx 0%nat - 1)%Z]) with 1.
  rewrite !(proj2 (Rleb_true _ _)) by lra. reflexivity.
Qed.

Definition exh1 : arr R := mkarr [3%Z; 2%Z; 2%Z] [1; 1; 1; 1; 1; 1; 1; 1; 1; 1; 1; 1].
Definition exh0 : arr R := mkarr [3%Z; 2%Z; 2%Z] [0; 0; 0; 0; 0; 0; 0; 0; 0; 0; 0; 0].
Definition exhs : arr R := mkarr [3%Z; 2%Z; 2%Z] [0; 0; 0; 0; 0; 0; 0; 0; 1; 1; 1; 1].

Lemma sqrt_100 : sqrt (1 * 1 + 0 * 0 + 0 * 0) = 1.
Proof. replace (1 * 1 + 0 * 0 + 0 * 0) with 1 by ring. apply sqrt_1. Qed.

(* the first step of both examples: from (3,0,0) with gradient (1,0,0) to (2,0,0) *)
Lemma ex3_first_step (zg : arr R) (zs : R) :
  shape zg = [3%Z; 2%Z; 2%Z] -> get 0 zg [2%Z; 0%Z; 0%Z] = 1 ->
  let s0 := init3 3 0 0 10 : @St2 R in
  let s1 := fnext3 exz exx exx zg exh0 exh0 1 s0 in
  fbody3 exz exx exx zg exh0 exh0 1 10 s0 = Next s1 /\
  get 0 (s_pcur s1) [0%Z] = 2 /\ get 0 (s_pcur s1) [1%Z] = 0 /\ get 0 (s_pcur s1) [2%Z] = 0.
Proof.
  intros Sg Eg s0 s1.
  assert (Vp0 : vec3 (s_pcur s0)) by apply vec3_of_list.
  assert (Vd0 : vec3 (s_delta s0)) by (split; reflexivity).
  assert (Gz0 : gz3 exz exx exx zg (s_pcur s0) = 1).
  { rewrite <- Eg.
    exact (interp3d_node exz exx exx zg 3 2 2 exz_axis exx_axis exx_axis Sg 2 0 0 0
             ltac:(lia) ltac:(lia) ltac:(lia)). }
  assert (Gx0 : gx3 exz exx exx exh0 (s_pcur s0) = 0)
    by exact (interp3d_node exz exx exx exh0 3 2 2 exz_axis exx_axis exx_axis eq_refl 2 0 0 0
                ltac:(lia) ltac:(lia) ltac:(lia)).
  assert (Gy0 : gy3 exz exx exx exh0 (s_pcur s0) = 0) by exact Gx0.
  split.
  - apply (body3_next exz exx exx zg exh0 exh0 1 10 s0 1 0 0);
      [apply bud3_false; [lra|reflexivity|reflexivity]|exact Gz0|exact Gx0|exact Gy0|rewrite sqrt_100; lra].
  - destruct (next3_point exz exx exx zg exh0 exh0 1 s0 1 0 0 Vp0 Vd0 Gz0 Gx0 Gy0) as (P0 & P1 & P2).
    cbv zeta in P0, P1, P2. fold s1 in P0, P1, P2. rewrite sqrt_100 in P0, P1, P2.
    change (get 0 (s_pcur s0) [0%Z]) with 3 in P0. change (get 0 (s_pcur s0) [1%Z]) with 0 in P1.
    change (get 0 (s_pcur s0) [2%Z]) with 0 in P2.
    rewrite clamp_id in P0 by (apply ex_in_z; lra). rewrite clamp_id in P1 by (apply ex_in_x; lra).
    rewrite clamp_id in P2 by (apply ex_in_x; lra).
    rewrite P0, P1, P2. repeat split; field.
Qed.

(* (a) homogeneous gradient (1,0,0): a ray with three vertices (3,0,0), (2,0,0), (3/2,0,0) *)
Example free_ray_three_vertices_3d :
  exists ray, u_ray3d_core_v 11 exz exx exx exh1 exh0 exh0 3 0 0 (3/2) 0 0 1 10%Z false = Ok (ray, 2%Z).
Proof.
  rewrite free_core3_eq by (apply ex_hull3; lra).
  destruct (ex3_first_step exh1 (3/2) eq_refl eq_refl) as (B0 & P0 & P1 & P2). cbv zeta in B0, P0, P1, P2.
  set (s0 := init3 3 0 0 10 : @St2 R) in *. set (s1 := fnext3 exz exx exx exh1 exh0 exh0 1 s0) in *.
  assert (C0 : fcond3 (3/2) 0 0 1 s0 = true).
  { apply (cond3_true _ _ _ _ s0 3 0 0 eq_refl eq_refl eq_refl).
    replace ((3/2 - 3) * (3/2 - 3) + (0 - 0) * (0 - 0) + (0 - 0) * (0 - 0)) with ((3/2) * (3/2)) by field.
    rewrite sqrt_square by lra. lra. }
  assert (C1 : fcond3 (3/2) 0 0 1 s1 = false).
  { apply (cond3_false _ _ _ _ s1 _ _ _ P0 P1 P2).
    replace ((3/2 - 2) * (3/2 - 2) + (0 - 0) * (0 - 0) + (0 - 0) * (0 - 0)) with ((1/2) * (1/2)) by field.
    rewrite sqrt_square by lra. lra. }
  rewrite (while_next _ _ _ s0 s1 C0 B0), (while_done _ _ _ s1 C1). cbn [rbind]. unfold fin3.
  assert (E1 : bud3 exz exx exx 1 10 s1 = false) by (apply bud3_false; [lra|reflexivity|reflexivity]).
  unfold bud3 in E1. rewrite E1. eexists. reflexivity.
Qed.

(* (b) F17 in 3D: the z-gradient vanishes on the planes z = 0 and z = 2 and equals 1 on z = 3; the walk
   stops at the node (2,0,0) and the source (0,0,0) is appended: last segment of length 2 = 2 steps *)
Example last_segment_3d_refuted :
  exists ray, u_ray3d_core_v 11 exz exx exx exhs exh0 exh0 3 0 0 0 0 0 1 10%Z false = Ok (ray, 2%Z) /\
              vdist3 ray 1 2 = 2 /\ ~ (vdist3 ray 1 2 <= 1).
Proof.
  assert (Hh : hull3 exz exx exx 3 0 0 = true) by (apply ex_hull3; lra).
  rewrite (free_core3_eq exz exx exx exhs exh0 exh0 3 0 0 0 0 0 1 10 Hh).
  destruct (ex3_first_step exhs 0 eq_refl eq_refl) as (B0 & P0 & P1 & P2). cbv zeta in B0, P0, P1, P2.
  set (s0 := init3 3 0 0 10 : @St2 R) in *. set (s1 := fnext3 exz exx exx exhs exh0 exh0 1 s0) in *.
  assert (Gz1 : gz3 exz exx exx exhs (s_pcur s1) = 0).
  { unfold gz3, interp3d_1. cbn [nofZ NumR]. rewrite P0, P1, P2.
    exact (interp3d_node exz exx exx exhs 3 2 2 exz_axis exx_axis exx_axis eq_refl 1 0 0 0
             ltac:(lia) ltac:(lia) ltac:(lia)). }
  assert (Gx1 : gx3 exz exx exx exh0 (s_pcur s1) = 0).
  { unfold gx3, interp3d_1. cbn [nofZ NumR]. rewrite P0, P1, P2.
    exact (interp3d_node exz exx exx exh0 3 2 2 exz_axis exx_axis exx_axis eq_refl 1 0 0 0
             ltac:(lia) ltac:(lia) ltac:(lia)). }
  assert (Gy1 : gy3 exz exx exx exh0 (s_pcur s1) = 0) by exact Gx1.
  assert (E1 : bud3 exz exx exx 1 10 s1 = false) by (apply bud3_false; [lra|reflexivity|reflexivity]).
  assert (B1 : fbody3 exz exx exx exhs exh0 exh0 1 10 s1 = Brk s1) by (apply body3_zero; assumption).
  assert (C0 : fcond3 0 0 0 1 s0 = true).
  { apply (cond3_true _ _ _ _ s0 3 0 0 eq_refl eq_refl eq_refl).
    replace ((0 - 3) * (0 - 3) + (0 - 0) * (0 - 0) + (0 - 0) * (0 - 0)) with (3 * 3) by ring.
    rewrite sqrt_square by lra. lra. }
  assert (C1 : fcond3 0 0 0 1 s1 = true).
  { apply (cond3_true _ _ _ _ s1 _ _ _ P0 P1 P2).
    replace ((0 - 2) * (0 - 2) + (0 - 0) * (0 - 0) + (0 - 0) * (0 - 0)) with (2 * 2) by ring.
    rewrite sqrt_square by lra. lra. }
  rewrite (while_next _ _ _ s0 s1 C0 B0), (while_brk _ _ _ s1 s1 C1 B1). cbn [rbind]. unfold fin3.
  pose proof E1 as E1'. unfold bud3 in E1'. rewrite E1'. eexists. split; [reflexivity|].
  assert (I1 : FInv3 exz exx exx 3 0 0 1 10 s1).
  { apply (FInv3_step exz exx exx exhs exh0 exh0 3 0 0 1 10 s0 s1); [apply FInv3_init; [exact Hh|lia]|exact B0]. }
  destruct (final_rows3 exz exx exx 3 0 0 0 0 0 1 10 s1 I1 E1) as (Hrows & Sz & Sx & Sy).
  cbv zeta in Hrows, Sz, Sx, Sy. change (s_count s1) with 2%Z in Hrows, Sz, Sx, Sy |- *.
  destruct I1 as (_ & _ & _ & _ & (R0 & R1 & R2) & _). change (s_count s1 - 1)%Z with 1%Z in R0, R1, R2.
  assert (Ev : vdist3 (set_sub (s_ray s1) [2%Z] (of_list [0; 0; 0])) 1 2 = 2).
  { rewrite (vdist3_val _ 1 2 2 0 0 0 0 0).
    - replace ((0 - 2) * (0 - 2) + (0 - 0) * (0 - 0) + (0 - 0) * (0 - 0)) with (2 * 2) by ring.
      apply sqrt_square. lra.
    - rewrite Hrows by lia. rewrite R0. exact P0.
    - rewrite Hrows by lia. rewrite R1. exact P1.
    - rewrite Hrows by lia. rewrite R2. exact P2.
    - exact Sz.
    - exact Sx.
    - exact Sy. }
  split; [exact Ev|]. rewrite Ev. lra.
Qed.

(* ------------------------------------------------------------------------------------------ *)
(* 8. binary64 witnesses of F17 (the generated model run under vm_compute)                      *)
(*    One elongated cell (1 x 4), source on the node (0,0).  The x-gradient is -1 on the nodes   *)
(*    x = 0 and +1 on the nodes x = 4, i.e. it points away from the line x = 2 on either side;    *)
(*    the z-gradient is 0.  From (0,4) the walk makes four steps of 0.5 to (0,2), where the       *)
(*    interpolated gradient is exactly 0: it stops and the source is appended.  The last segment  *)
(*    has length 2 = 4 * stepsize.                                                                *)
(* ------------------------------------------------------------------------------------------ *)
From Coq Require Import PrimFloat.
Local Open Scope float_scope.

Definition fz : arr float := mkarr [2%Z] [0; 1].
Definition fx : arr float := mkarr [2%Z] [0; 4].
Definition fg0 : arr float := mkarr [2%Z; 2%Z] [0; 0; 0; 0].
Definition fgx : arr float := mkarr [2%Z; 2%Z] [-1; 1; -1; 1].

Example last_segment_2d_refuted_binary64 :
  match u_ray2d_core_v 30%nat fz fx fg0 fgx 0 4 0 0 0.5 20%Z false with
  | Ok (ray, count) =>
      count = 5%Z /\
      (get 0 ray [4%Z; 0%Z] = 0 /\ get 0 ray [4%Z; 1%Z] = 2) /\
      (get 0 ray [5%Z; 0%Z] = 0 /\ get 0 ray [5%Z; 1%Z] = 0) /\
      Common.dist2d (get 0 ray [5%Z; 0%Z]) (get 0 ray [5%Z; 1%Z]) (get 0 ray [4%Z; 0%Z]) (get 0 ray [4%Z; 1%Z]) = 2 /\
      PrimFloat.ltb 0.5 (Common.dist2d (get 0 ray [5%Z; 0%Z]) (get 0 ray [5%Z; 1%Z])
                                       (get 0 ray [4%Z; 0%Z]) (get 0 ray [4%Z; 1%Z])) = true
  | _ => False
  end.
Proof. vm_compute. repeat split; reflexivity. Qed.

Definition hg0 : arr float := mkarr [2%Z; 2%Z; 2%Z] [0; 0; 0; 0; 0; 0; 0; 0].
Definition hgx : arr float := mkarr [2%Z; 2%Z; 2%Z] [-1; -1; 1; 1; -1; -1; 1; 1].

Example last_segment_3d_refuted_binary64 :
  match u_ray3d_core_v 30%nat fz fx fz hg0 hgx hg0 0 4 0 0 0 0 0.5 20%Z false with
  | Ok (ray, count) =>
      count = 5%Z /\
      (get 0 ray [4%Z; 0%Z] = 0 /\ get 0 ray [4%Z; 1%Z] = 2 /\ get 0 ray [4%Z; 2%Z] = 0) /\
      (get 0 ray [5%Z; 0%Z] = 0 /\ get 0 ray [5%Z; 1%Z] = 0 /\ get 0 ray [5%Z; 2%Z] = 0) /\
      PrimFloat.ltb 0.5 (Common.dist3d (get 0 ray [5%Z; 0%Z]) (get 0 ray [5%Z; 1%Z]) (get 0 ray [5%Z; 2%Z])
                                       (get 0 ray [4%Z; 0%Z]) (get 0 ray [4%Z; 1%Z]) (get 0 ray [4%Z; 2%Z])) = true
  | _ => False
  end.
Proof. vm_compute. repeat split; reflexivity. Qed.
Local Close Scope float_scope.

Print Assumptions free_core2_eq.
Print Assumptions free_step_length_2d.
Print Assumptions last_segment_2d.
Print Assumptions ray2d_1_step_length.
Print Assumptions free_ray_three_vertices_2d.
Print Assumptions last_segment_2d_refuted.
Print Assumptions last_segment_2d_refuted_binary64.
Print Assumptions free_core3_eq.
Print Assumptions free_step_length_3d.
Print Assumptions last_segment_3d.
Print Assumptions ray3d_1_step_length.
Print Assumptions free_ray_three_vertices_3d.
Print Assumptions last_segment_3d_refuted.
Print Assumptions last_segment_3d_refuted_binary64.
