(* C18  The four copies of the source-line initialisation loop of `fteik2d` (the `if iflag == 2:` block of
   _fteik/_fteik2d.py, generated function `fteik2d_p2`) are images of one another under mirroring and
   transposition.

   1. Pieces.  `blk_x` / `blk_z` are the text of one "if d > 0 and tt[..] < Big:" block of an x-loop / a z-loop,
      `east_body`, `west_body`, `down_body`, `up_body` the four loop bodies, `east_phase` ... the loops together with
      the `td[..] = vzero * d * h` statement in front of them, `init_corners` the four corner assignments.
      `fteik2d_p2_decompose` ties them to the generated code by conversion.
   2. Geometric relations between states (`arel`): x-mirror, z-mirror, transposition.
   3. Pairing theorems over R (all shapes, any number of iterations, heterogeneous medium).
*)
From Coq Require Import ZArith List Bool Lia Reals Lra Psatz.
From FT.lib Require Import Num Arr ArrLemmas.
From FT.gen Require Import Common Fteik2d.
From FT.proofs Require Import SafetyTools OperatorsR.
Import ListNotations.
Open Scope Z_scope.
Open Scope bool_scope.

(* ========================================================================================== *)
(* 1. the pieces of fteik2d_p2 (text copied from gen/Fteik2d.v)                                 *)
(* ========================================================================================== *)
Section Pieces.
Context {T : Type} `{Num T}.

(* one block of an x-loop (east / west): line `row`, moving column `j`, previous column `jp`, fractional
   distance `dzw` of the source to that line, signs `sgz sgx` *)
Definition blk_x (dx dz : T) (grad : bool) (vzero xsa zsa dxi dx2i : T)
    (row : Z) (dzw : T) (sgz sgx : Z) (jp j : Z) (vref tauv tauev : T)
    (td tt_v : arr T) (ttsgn : arr Z) : ((arr T) * (arr Z)) :=
(if ((ngtb dzw (nofZ 0)) && (nltb (get (nofZ 0) tt_v [row; jp]) Big))
 then (let dzi := (ndiv (nofZ 1) (nmul dzw dz)) in
let dz2i := (ndiv dzi (nmul dzw dz)) in
let taue := (nsub (get (nofZ 0) tt_v [row; jp]) (t_ana row jp dz dx zsa xsa vzero)) in
let u_r_v := (t_anad row j dz dx zsa xsa vzero) in
let t0c := (fst (fst u_r_v)) in
let tzc := (snd (fst u_r_v)) in
let txc := (snd u_r_v) in
let tnew := (delta (get (nofZ 0) tt_v [row; j]) tauv taue tauev t0c tzc txc dzi dxi dz2i dx2i vzero vref sgz sgx) in
let u_j_v : ((arr T) * (arr Z)) := (if ((ngeb tnew (get (nofZ 0) tt_v [row; jp])) && (ngeb tnew (get (nofZ 0) td [j])))
 then (let tt_v := (set tt_v [row; j] tnew) in
let u_j_v : (arr Z) := (if grad
 then (let ttsgn := (set ttsgn [row; j; 0] sgz) in
let ttsgn := (set ttsgn [row; j; 1] sgx) in
ttsgn)
 else (ttsgn)) in
let ttsgn := u_j_v in
(tt_v, ttsgn))
 else ((tt_v, ttsgn))) in
let tt_v := (fst u_j_v) in
let ttsgn := (snd u_j_v) in
(tt_v, ttsgn))
 else ((tt_v, ttsgn))).

(* one block of a z-loop (down / up): line (column) `col`, moving row `i`, previous row `ip` *)
Definition blk_z (dx dz : T) (grad : bool) (vzero xsa zsa dzi dz2i : T)
    (col : Z) (dxw : T) (sgz sgx : Z) (ip i : Z) (vref taue tauev : T)
    (td tt_v : arr T) (ttsgn : arr Z) : ((arr T) * (arr Z)) :=
(if ((ngtb dxw (nofZ 0)) && (nltb (get (nofZ 0) tt_v [ip; col]) Big))
 then (let dxi := (ndiv (nofZ 1) (nmul dxw dx)) in
let dx2i := (ndiv dxi (nmul dxw dx)) in
let tauv := (nsub (get (nofZ 0) tt_v [ip; col]) (t_ana ip col dz dx zsa xsa vzero)) in
let u_r_v := (t_anad i col dz dx zsa xsa vzero) in
let t0c := (fst (fst u_r_v)) in
let tzc := (snd (fst u_r_v)) in
let txc := (snd u_r_v) in
let tnew := (delta (get (nofZ 0) tt_v [i; col]) tauv taue tauev t0c tzc txc dzi dxi dz2i dx2i vzero vref sgz sgx) in
let u_j_v : ((arr T) * (arr Z)) := (if ((ngeb tnew (get (nofZ 0) tt_v [ip; col])) && (ngeb tnew (get (nofZ 0) td [i])))
 then (let tt_v := (set tt_v [i; col] tnew) in
let u_j_v : (arr Z) := (if grad
 then (let ttsgn := (set ttsgn [i; col; 0] sgz) in
let ttsgn := (set ttsgn [i; col; 1] sgx) in
ttsgn)
 else (ttsgn)) in
let ttsgn := u_j_v in
(tt_v, ttsgn))
 else ((tt_v, ttsgn))) in
let tt_v := (fst u_j_v) in
let ttsgn := (snd u_j_v) in
(tt_v, ttsgn))
 else ((tt_v, ttsgn))).

Definition east_body (dx dz : T) (grad : bool) (slow : arr T) (vzero xsa zsa : T) (zsi : Z) (dzu dzd dxi dx2i : T)
    (j : Z) (u_s_v : ((arr T) * (arr T) * (arr Z))) : ((arr T) * (arr T) * (arr Z)) :=
let td := (fst (fst u_s_v)) in
let tt_v := (snd (fst u_s_v)) in
let ttsgn := (snd u_s_v) in
let vref := (get (nofZ 0) slow [zsi; (j - 1)]) in
let td := (set td [j] (nadd (get (nofZ 0) td [(j - 1)]) (nmul dx vref))) in
let tauv := (nsub (get (nofZ 0) td [j]) (nmul (nmul vzero (nabs (nsub (nofZ j) xsa))) dx)) in
let tauev := (nsub (get (nofZ 0) td [(j - 1)]) (nmul (nmul vzero (nabs (nsub (nsub (nofZ j) xsa) (nofZ 1)))) dx)) in
let u_j_v : ((arr T) * (arr Z)) :=
  blk_x dx dz grad vzero xsa zsa dxi dx2i (zsi + 1) dzd 1 1 (j - 1) j vref tauv tauev td tt_v ttsgn in
let tt_v := (fst u_j_v) in
let ttsgn := (snd u_j_v) in
let u_j_v : ((arr T) * (arr Z)) :=
  blk_x dx dz grad vzero xsa zsa dxi dx2i zsi dzu (-1) 1 (j - 1) j vref tauv tauev td tt_v ttsgn in
let tt_v := (fst u_j_v) in
let ttsgn := (snd u_j_v) in
(td, tt_v, ttsgn).

Definition west_body (dx dz : T) (grad : bool) (slow : arr T) (vzero xsa zsa : T) (zsi : Z) (dzu dzd dxi dx2i : T)
    (j : Z) (u_s_v : ((arr T) * (arr T) * (arr Z))) : ((arr T) * (arr T) * (arr Z)) :=
let td := (fst (fst u_s_v)) in
let tt_v := (snd (fst u_s_v)) in
let ttsgn := (snd u_s_v) in
let vref := (get (nofZ 0) slow [zsi; j]) in
let td := (set td [j] (nadd (get (nofZ 0) td [(j + 1)]) (nmul dx vref))) in
let tauv := (nsub (get (nofZ 0) td [j]) (nmul (nmul vzero (nabs (nsub (nofZ j) xsa))) dx)) in
let tauev := (nsub (get (nofZ 0) td [(j + 1)]) (nmul (nmul vzero (nabs (nadd (nsub (nofZ j) xsa) (nofZ 1)))) dx)) in
let u_j_v : ((arr T) * (arr Z)) :=
  blk_x dx dz grad vzero xsa zsa dxi dx2i (zsi + 1) dzd 1 (-1) (j + 1) j vref tauv tauev td tt_v ttsgn in
let tt_v := (fst u_j_v) in
let ttsgn := (snd u_j_v) in
let u_j_v : ((arr T) * (arr Z)) :=
  blk_x dx dz grad vzero xsa zsa dxi dx2i zsi dzu (-1) (-1) (j + 1) j vref tauv tauev td tt_v ttsgn in
let tt_v := (fst u_j_v) in
let ttsgn := (snd u_j_v) in
(td, tt_v, ttsgn).

Definition down_body (dx dz : T) (grad : bool) (slow : arr T) (vzero xsa zsa : T) (xsi : Z) (dxw dxe dzi dz2i : T)
    (i : Z) (u_s_v : ((arr T) * (arr T) * (arr Z))) : ((arr T) * (arr T) * (arr Z)) :=
let td := (fst (fst u_s_v)) in
let tt_v := (snd (fst u_s_v)) in
let ttsgn := (snd u_s_v) in
let vref := (get (nofZ 0) slow [(i - 1); xsi]) in
let td := (set td [i] (nadd (get (nofZ 0) td [(i - 1)]) (nmul dz vref))) in
let taue := (nsub (get (nofZ 0) td [i]) (nmul (nmul vzero (nabs (nsub (nofZ i) zsa))) dz)) in
let tauev := (nsub (get (nofZ 0) td [(i - 1)]) (nmul (nmul vzero (nabs (nsub (nsub (nofZ i) zsa) (nofZ 1)))) dz)) in
let u_j_v : ((arr T) * (arr Z)) :=
  blk_z dx dz grad vzero xsa zsa dzi dz2i (xsi + 1) dxe 1 1 (i - 1) i vref taue tauev td tt_v ttsgn in
let tt_v := (fst u_j_v) in
let ttsgn := (snd u_j_v) in
let u_j_v : ((arr T) * (arr Z)) :=
  blk_z dx dz grad vzero xsa zsa dzi dz2i xsi dxw 1 (-1) (i - 1) i vref taue tauev td tt_v ttsgn in
let tt_v := (fst u_j_v) in
let ttsgn := (snd u_j_v) in
(td, tt_v, ttsgn).

Definition up_body (dx dz : T) (grad : bool) (slow : arr T) (vzero xsa zsa : T) (xsi : Z) (dxw dxe dzi dz2i : T)
    (i : Z) (u_s_v : ((arr T) * (arr T) * (arr Z))) : ((arr T) * (arr T) * (arr Z)) :=
let td := (fst (fst u_s_v)) in
let tt_v := (snd (fst u_s_v)) in
let ttsgn := (snd u_s_v) in
let vref := (get (nofZ 0) slow [i; xsi]) in
let td := (set td [i] (nadd (get (nofZ 0) td [(i + 1)]) (nmul dz vref))) in
let taue := (nsub (get (nofZ 0) td [i]) (nmul (nmul vzero (nabs (nsub (nofZ i) zsa))) dz)) in
let tauev := (nsub (get (nofZ 0) td [(i + 1)]) (nmul (nmul vzero (nabs (nadd (nsub (nofZ i) zsa) (nofZ 1)))) dz)) in
let u_j_v : ((arr T) * (arr Z)) :=
  blk_z dx dz grad vzero xsa zsa dzi dz2i (xsi + 1) dxe (-1) 1 (i + 1) i vref taue tauev td tt_v ttsgn in
let tt_v := (fst u_j_v) in
let ttsgn := (snd u_j_v) in
let u_j_v : ((arr T) * (arr Z)) :=
  blk_z dx dz grad vzero xsa zsa dzi dz2i xsi dxw (-1) (-1) (i + 1) i vref taue tauev td tt_v ttsgn in
let tt_v := (fst u_j_v) in
let ttsgn := (snd u_j_v) in
(td, tt_v, ttsgn).

(* the loops with the statement that seeds `td` in front of them; `st = (td, tt, ttsgn)` *)
Definition east_phase (dx dz : T) (grad : bool) (nx : Z) (slow : arr T) (vzero xsa : T) (xsi : Z) (zsa : T) (zsi : Z)
    (dzu dzd dxe : T) (st : ((arr T) * (arr T) * (arr Z))) : ((arr T) * (arr T) * (arr Z)) :=
let dxi := (ndiv (nofZ 1) dx) in
let dx2i := (ndiv dxi dx) in
let td := (set (fst (fst st)) [(xsi + 1)] (nmul (nmul vzero dxe) dx)) in
for_list (pyrange (xsi + 2) nx 1) (east_body dx dz grad slow vzero xsa zsa zsi dzu dzd dxi dx2i)
  (td, snd (fst st), snd st).

Definition west_phase (dx dz : T) (grad : bool) (slow : arr T) (vzero xsa : T) (xsi : Z) (zsa : T) (zsi : Z)
    (dzu dzd dxw : T) (st : ((arr T) * (arr T) * (arr Z))) : ((arr T) * (arr T) * (arr Z)) :=
let dxi := (ndiv (nofZ 1) dx) in
let dx2i := (ndiv dxi dx) in
let td := (set (fst (fst st)) [xsi] (nmul (nmul vzero dxw) dx)) in
for_list (pyrange (xsi - 1) (-1) (-1)) (west_body dx dz grad slow vzero xsa zsa zsi dzu dzd dxi dx2i)
  (td, snd (fst st), snd st).

Definition down_phase (dx dz : T) (grad : bool) (nz : Z) (slow : arr T) (vzero xsa : T) (xsi : Z) (zsa : T) (zsi : Z)
    (dxw dxe dzd : T) (st : ((arr T) * (arr T) * (arr Z))) : ((arr T) * (arr T) * (arr Z)) :=
let dzi := (ndiv (nofZ 1) dz) in
let dz2i := (ndiv dzi dz) in
let td := (set (fst (fst st)) [(zsi + 1)] (nmul (nmul vzero dzd) dz)) in
for_list (pyrange (zsi + 2) nz 1) (down_body dx dz grad slow vzero xsa zsa xsi dxw dxe dzi dz2i)
  (td, snd (fst st), snd st).

Definition up_phase (dx dz : T) (grad : bool) (slow : arr T) (vzero xsa : T) (xsi : Z) (zsa : T) (zsi : Z)
    (dxw dxe dzu : T) (st : ((arr T) * (arr T) * (arr Z))) : ((arr T) * (arr T) * (arr Z)) :=
let dzi := (ndiv (nofZ 1) dz) in
let dz2i := (ndiv dzi dz) in
let td := (set (fst (fst st)) [zsi] (nmul (nmul vzero dzu) dz)) in
for_list (pyrange (zsi - 1) (-1) (-1)) (up_body dx dz grad slow vzero xsa zsa xsi dxw dxe dzi dz2i)
  (td, snd (fst st), snd st).

(* one of the four corner assignments around the source *)
Definition corner (dx dz : T) (grad : bool) (vzero xsa zsa : T) (i j : Z) (tt_v ttgrad : arr T) : (arr T * arr T) :=
let u_r_v := (t_anad i j dz dx zsa xsa vzero) in
let tt_v := (set tt_v [i; j] (fst (fst u_r_v))) in
let tzc := (snd (fst u_r_v)) in
let txc := (snd u_r_v) in
let u_j_v : (arr T) := (if grad
 then (let ttgrad := (set ttgrad [i; j; 0] tzc) in
let ttgrad := (set ttgrad [i; j; 1] txc) in
ttgrad)
 else (ttgrad)) in
(tt_v, u_j_v).

Definition init_corners (dx dz : T) (grad : bool) (vzero xsa : T) (xsi : Z) (zsa : T) (zsi : Z)
    (tt_v ttgrad : arr T) : (arr T * arr T) :=
let c := corner dx dz grad vzero xsa zsa zsi xsi tt_v ttgrad in
let c := corner dx dz grad vzero xsa zsa (zsi + 1) xsi (fst c) (snd c) in
let c := corner dx dz grad vzero xsa zsa zsi (xsi + 1) (fst c) (snd c) in
corner dx dz grad vzero xsa zsa (zsi + 1) (xsi + 1) (fst c) (snd c).

(* THE TIE: the generated function is the composition of the pieces (checked by conversion) *)
Lemma fteik2d_p2_decompose dx dz grad iflag nx nz slow (tt_v ttgrad : arr T) ttsgn vzero xsa xsi zsa zsi :
  fteik2d_p2 dx dz grad iflag nx nz slow tt_v ttgrad ttsgn vzero xsa xsi zsa zsi =
  if (iflag =? 2) then
    let td := (full [(Z.max nz nx)] Big) in
    let dzu := (nabs (nsub zsa (nofZ zsi))) in
    let dzd := (nsub (nofZ 1) dzu) in
    let dxw := (nabs (nsub xsa (nofZ xsi))) in
    let dxe := (nsub (nofZ 1) dxw) in
    let c := init_corners dx dz grad vzero xsa xsi zsa zsi tt_v ttgrad in
    let st := east_phase dx dz grad nx slow vzero xsa xsi zsa zsi dzu dzd dxe (td, fst c, ttsgn) in
    let st := west_phase dx dz grad slow vzero xsa xsi zsa zsi dzu dzd dxw st in
    let st := down_phase dx dz grad nz slow vzero xsa xsi zsa zsi dxw dxe dzd (fill (fst (fst st)) Big, snd (fst st), snd st) in
    let st := up_phase dx dz grad slow vzero xsa xsi zsa zsi dxw dxe dzu st in
    (snd (fst st), snd c, snd st)
  else (set tt_v [(ntrunc zsa); (ntrunc xsa)] (nofZ 0), ttgrad, ttsgn).
Proof.
  cbv beta delta [fteik2d_p2]. destruct (iflag =? 2); reflexivity.
Qed.

End Pieces.
