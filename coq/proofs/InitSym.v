(* C18  The four copies of the source-line initialisation loop of `fteik2d` (the `if iflag == 2:` block of
   _fteik/_fteik2d.py, generated function `fteik2d_p2`) are images of one another under mirroring and
   transposition.

   1. Pieces.  `blk_x` / `blk_z` are the text of one "if d > 0 and tt[..] < Big:" block of an x-loop / a z-loop,
      `east_body`, `west_body`, `down_body`, `up_body` the four loop bodies, `east_phase` ... the loops together with
      the `td[..] = vzero * d * h` statement in front of them, `init_corners` the four corner assignments.
      `fteik2d_p2_decompose` ties them to the generated code by conversion.
   2. Geometric relations between states (`arel`): x-mirror, z-mirror, transposition.
   3. Pairing theorems over R (all shapes, any number of iterations, heterogeneous medium, scratch line `td`
      arbitrary on entry):
        west_is_mirror_of_east       west phase on the x-mirrored problem  = x-mirror of the east phase
        down_is_transpose_of_east    down phase on the transposed problem  = transpose of the east phase
        up_is_transpose_of_west      up phase on the transposed problem    = transpose of the west phase
        up_is_mirror_of_down         up phase on the z-mirrored problem    = z-mirror of the down phase
      each also in explicit form (`..._explicit`) with the maps `mirror_x`, `mirror_z`, `transpose`,
      `mirror_sgn_x`, `mirror_sgn_z`, `transpose_sgn` as functions and the conclusion cell by cell (all cells of the
      grid, so untouched cells are covered too).
   4. Non-vacuity: a closed instance, and the generated function evaluated on binary64 (all four loops write).
   The two blocks inside one loop (line s+1 / line s) are instances of the same `blk_x` / `blk_z`, which is part of
   what `fteik2d_p2_decompose` checks.
*)
From Coq Require Import ZArith List Bool Lia Reals Lra Psatz.
From FT.lib Require Import Num Arr ArrLemmas.
From FT.gen Require Import Common Fteik2d.
From FT.proofs Require Import SafetyTools OperatorsR.
Import ListNotations.
Open Scope Z_scope.
Open Scope bool_scope.

(* ========================================================================================== *)
(* 1. the pieces of fteik2d_p2 (text copied from gen/Fteik2d.v)                                 *)
(* ========================================================================================== *)
Section Pieces.
Context {T : Type} `{Num T}.

(* one block of an x-loop (east / west): line `row`, moving column `j`, previous column `jp`, fractional
   distance `dzw` of the source to that line, signs `sgz sgx` *)
Definition blk_x (dx dz : T) (grad : bool) (vzero xsa zsa dxi dx2i : T)
    (row : Z) (dzw : T) (sgz sgx : Z) (jp j : Z) (vref tauv tauev : T)
    (td tt_v : arr T) (ttsgn : arr Z) : ((arr T) * (arr Z)) :=
(if ((ngtb dzw (nofZ 0)) && (nltb (get (nofZ 0) tt_v [row; jp]) Big))
 then (let dzi := (ndiv (nofZ 1) (nmul dzw dz)) in
let dz2i := (ndiv dzi (nmul dzw dz)) in
let taue := (nsub (get (nofZ 0) tt_v [row; jp]) (t_ana row jp dz dx zsa xsa vzero)) in
let u_r_v := (t_anad row j dz dx zsa xsa vzero) in
let t0c := (fst (fst u_r_v)) in
let tzc := (snd (fst u_r_v)) in
let txc := (snd u_r_v) in
let tnew := (delta (get (nofZ 0) tt_v [row; j]) tauv taue tauev t0c tzc txc dzi dxi dz2i dx2i vzero vref sgz sgx) in
let u_j_v : ((arr T) * (arr Z)) := (if ((ngeb tnew (get (nofZ 0) tt_v [row; jp])) && (ngeb tnew (get (nofZ 0) td [j])))
 then (let tt_v := (set tt_v [row; j] tnew) in
let u_j_v : (arr Z) := (if grad
 then (let ttsgn := (set ttsgn [row; j; 0] sgz) in
let ttsgn := (set ttsgn [row; j; 1] sgx) in
ttsgn)
 else (ttsgn)) in
let ttsgn := u_j_v in
(tt_v, ttsgn))
 else ((tt_v, ttsgn))) in
let tt_v := (fst u_j_v) in
let ttsgn := (snd u_j_v) in
(tt_v, ttsgn))
 else ((tt_v, ttsgn))).

(* one block of a z-loop (down / up): line (column) `col`, moving row `i`, previous row `ip` *)
Definition blk_z (dx dz : T) (grad : bool) (vzero xsa zsa dzi dz2i : T)
    (col : Z) (dxw : T) (sgz sgx : Z) (ip i : Z) (vref taue tauev : T)
    (td tt_v : arr T) (ttsgn : arr Z) : ((arr T) * (arr Z)) :=
(if ((ngtb dxw (nofZ 0)) && (nltb (get (nofZ 0) tt_v [ip; col]) Big))
 then (let dxi := (ndiv (nofZ 1) (nmul dxw dx)) in
let dx2i := (ndiv dxi (nmul dxw dx)) in
let tauv := (nsub (get (nofZ 0) tt_v [ip; col]) (t_ana ip col dz dx zsa xsa vzero)) in
let u_r_v := (t_anad i col dz dx zsa xsa vzero) in
let t0c := (fst (fst u_r_v)) in
let tzc := (snd (fst u_r_v)) in
let txc := (snd u_r_v) in
let tnew := (delta (get (nofZ 0) tt_v [i; col]) tauv taue tauev t0c tzc txc dzi dxi dz2i dx2i vzero vref sgz sgx) in
let u_j_v : ((arr T) * (arr Z)) := (if ((ngeb tnew (get (nofZ 0) tt_v [ip; col])) && (ngeb tnew (get (nofZ 0) td [i])))
 then (let tt_v := (set tt_v [i; col] tnew) in
let u_j_v : (arr Z) := (if grad
 then (let ttsgn := (set ttsgn [i; col; 0] sgz) in
let ttsgn := (set ttsgn [i; col; 1] sgx) in
ttsgn)
 else (ttsgn)) in
let ttsgn := u_j_v in
(tt_v, ttsgn))
 else ((tt_v, ttsgn))) in
let tt_v := (fst u_j_v) in
let ttsgn := (snd u_j_v) in
(tt_v, ttsgn))
 else ((tt_v, ttsgn))).

Definition east_body (dx dz : T) (grad : bool) (slow : arr T) (vzero xsa zsa : T) (zsi : Z) (dzu dzd dxi dx2i : T)
    (j : Z) (u_s_v : ((arr T) * (arr T) * (arr Z))) : ((arr T) * (arr T) * (arr Z)) :=
let td := (fst (fst u_s_v)) in
let tt_v := (snd (fst u_s_v)) in
let ttsgn := (snd u_s_v) in
let vref := (get (nofZ 0) slow [zsi; (j - 1)]) in
let td := (set td [j] (nadd (get (nofZ 0) td [(j - 1)]) (nmul dx vref))) in
let tauv := (nsub (get (nofZ 0) td [j]) (nmul (nmul vzero (nabs (nsub (nofZ j) xsa))) dx)) in
let tauev := (nsub (get (nofZ 0) td [(j - 1)]) (nmul (nmul vzero (nabs (nsub (nsub (nofZ j) xsa) (nofZ 1)))) dx)) in
let u_j_v : ((arr T) * (arr Z)) :=
  blk_x dx dz grad vzero xsa zsa dxi dx2i (zsi + 1) dzd 1 1 (j - 1) j vref tauv tauev td tt_v ttsgn in
let tt_v := (fst u_j_v) in
let ttsgn := (snd u_j_v) in
let u_j_v : ((arr T) * (arr Z)) :=
  blk_x dx dz grad vzero xsa zsa dxi dx2i zsi dzu (-1) 1 (j - 1) j vref tauv tauev td tt_v ttsgn in
let tt_v := (fst u_j_v) in
let ttsgn := (snd u_j_v) in
(td, tt_v, ttsgn).

Definition west_body (dx dz : T) (grad : bool) (slow : arr T) (vzero xsa zsa : T) (zsi : Z) (dzu dzd dxi dx2i : T)
    (j : Z) (u_s_v : ((arr T) * (arr T) * (arr Z))) : ((arr T) * (arr T) * (arr Z)) :=
let td := (fst (fst u_s_v)) in
let tt_v := (snd (fst u_s_v)) in
let ttsgn := (snd u_s_v) in
let vref := (get (nofZ 0) slow [zsi; j]) in
let td := (set td [j] (nadd (get (nofZ 0) td [(j + 1)]) (nmul dx vref))) in
let tauv := (nsub (get (nofZ 0) td [j]) (nmul (nmul vzero (nabs (nsub (nofZ j) xsa))) dx)) in
let tauev := (nsub (get (nofZ 0) td [(j + 1)]) (nmul (nmul vzero (nabs (nadd (nsub (nofZ j) xsa) (nofZ 1)))) dx)) in
let u_j_v : ((arr T) * (arr Z)) :=
  blk_x dx dz grad vzero xsa zsa dxi dx2i (zsi + 1) dzd 1 (-1) (j + 1) j vref tauv tauev td tt_v ttsgn in
let tt_v := (fst u_j_v) in
let ttsgn := (snd u_j_v) in
let u_j_v : ((arr T) * (arr Z)) :=
  blk_x dx dz grad vzero xsa zsa dxi dx2i zsi dzu (-1) (-1) (j + 1) j vref tauv tauev td tt_v ttsgn in
let tt_v := (fst u_j_v) in
let ttsgn := (snd u_j_v) in
(td, tt_v, ttsgn).

Definition down_body (dx dz : T) (grad : bool) (slow : arr T) (vzero xsa zsa : T) (xsi : Z) (dxw dxe dzi dz2i : T)
    (i : Z) (u_s_v : ((arr T) * (arr T) * (arr Z))) : ((arr T) * (arr T) * (arr Z)) :=
let td := (fst (fst u_s_v)) in
let tt_v := (snd (fst u_s_v)) in
let ttsgn := (snd u_s_v) in
let vref := (get (nofZ 0) slow [(i - 1); xsi]) in
let td := (set td [i] (nadd (get (nofZ 0) td [(i - 1)]) (nmul dz vref))) in
let taue := (nsub (get (nofZ 0) td [i]) (nmul (nmul vzero (nabs (nsub (nofZ i) zsa))) dz)) in
let tauev := (nsub (get (nofZ 0) td [(i - 1)]) (nmul (nmul vzero (nabs (nsub (nsub (nofZ i) zsa) (nofZ 1)))) dz)) in
let u_j_v : ((arr T) * (arr Z)) :=
  blk_z dx dz grad vzero xsa zsa dzi dz2i (xsi + 1) dxe 1 1 (i - 1) i vref taue tauev td tt_v ttsgn in
let tt_v := (fst u_j_v) in
let ttsgn := (snd u_j_v) in
let u_j_v : ((arr T) * (arr Z)) :=
  blk_z dx dz grad vzero xsa zsa dzi dz2i xsi dxw 1 (-1) (i - 1) i vref taue tauev td tt_v ttsgn in
let tt_v := (fst u_j_v) in
let ttsgn := (snd u_j_v) in
(td, tt_v, ttsgn).

Definition up_body (dx dz : T) (grad : bool) (slow : arr T) (vzero xsa zsa : T) (xsi : Z) (dxw dxe dzi dz2i : T)
    (i : Z) (u_s_v : ((arr T) * (arr T) * (arr Z))) : ((arr T) * (arr T) * (arr Z)) :=
let td := (fst (fst u_s_v)) in
let tt_v := (snd (fst u_s_v)) in
let ttsgn := (snd u_s_v) in
let vref := (get (nofZ 0) slow [i; xsi]) in
let td := (set td [i] (nadd (get (nofZ 0) td [(i + 1)]) (nmul dz vref))) in
let taue := (nsub (get (nofZ 0) td [i]) (nmul (nmul vzero (nabs (nsub (nofZ i) zsa))) dz)) in
let tauev := (nsub (get (nofZ 0) td [(i + 1)]) (nmul (nmul vzero (nabs (nadd (nsub (nofZ i) zsa) (nofZ 1)))) dz)) in
let u_j_v : ((arr T) * (arr Z)) :=
  blk_z dx dz grad vzero xsa zsa dzi dz2i (xsi + 1) dxe (-1) 1 (i + 1) i vref taue tauev td tt_v ttsgn in
let tt_v := (fst u_j_v) in
let ttsgn := (snd u_j_v) in
let u_j_v : ((arr T) * (arr Z)) :=
  blk_z dx dz grad vzero xsa zsa dzi dz2i xsi dxw (-1) (-1) (i + 1) i vref taue tauev td tt_v ttsgn in
let tt_v := (fst u_j_v) in
let ttsgn := (snd u_j_v) in
(td, tt_v, ttsgn).

(* the loops with the statement that seeds `td` in front of them; `st = (td, tt, ttsgn)` *)
Definition east_phase (dx dz : T) (grad : bool) (nx : Z) (slow : arr T) (vzero xsa : T) (xsi : Z) (zsa : T) (zsi : Z)
    (dzu dzd dxe : T) (st : ((arr T) * (arr T) * (arr Z))) : ((arr T) * (arr T) * (arr Z)) :=
let dxi := (ndiv (nofZ 1) dx) in
let dx2i := (ndiv dxi dx) in
let td := (set (fst (fst st)) [(xsi + 1)] (nmul (nmul vzero dxe) dx)) in
for_list (pyrange (xsi + 2) nx 1) (east_body dx dz grad slow vzero xsa zsa zsi dzu dzd dxi dx2i)
  (td, snd (fst st), snd st).

Definition west_phase (dx dz : T) (grad : bool) (slow : arr T) (vzero xsa : T) (xsi : Z) (zsa : T) (zsi : Z)
    (dzu dzd dxw : T) (st : ((arr T) * (arr T) * (arr Z))) : ((arr T) * (arr T) * (arr Z)) :=
let dxi := (ndiv (nofZ 1) dx) in
let dx2i := (ndiv dxi dx) in
let td := (set (fst (fst st)) [xsi] (nmul (nmul vzero dxw) dx)) in
for_list (pyrange (xsi - 1) (-1) (-1)) (west_body dx dz grad slow vzero xsa zsa zsi dzu dzd dxi dx2i)
  (td, snd (fst st), snd st).

Definition down_phase (dx dz : T) (grad : bool) (nz : Z) (slow : arr T) (vzero xsa : T) (xsi : Z) (zsa : T) (zsi : Z)
    (dxw dxe dzd : T) (st : ((arr T) * (arr T) * (arr Z))) : ((arr T) * (arr T) * (arr Z)) :=
let dzi := (ndiv (nofZ 1) dz) in
let dz2i := (ndiv dzi dz) in
let td := (set (fst (fst st)) [(zsi + 1)] (nmul (nmul vzero dzd) dz)) in
for_list (pyrange (zsi + 2) nz 1) (down_body dx dz grad slow vzero xsa zsa xsi dxw dxe dzi dz2i)
  (td, snd (fst st), snd st).

Definition up_phase (dx dz : T) (grad : bool) (slow : arr T) (vzero xsa : T) (xsi : Z) (zsa : T) (zsi : Z)
    (dxw dxe dzu : T) (st : ((arr T) * (arr T) * (arr Z))) : ((arr T) * (arr T) * (arr Z)) :=
let dzi := (ndiv (nofZ 1) dz) in
let dz2i := (ndiv dzi dz) in
let td := (set (fst (fst st)) [zsi] (nmul (nmul vzero dzu) dz)) in
for_list (pyrange (zsi - 1) (-1) (-1)) (up_body dx dz grad slow vzero xsa zsa xsi dxw dxe dzi dz2i)
  (td, snd (fst st), snd st).

(* one of the four corner assignments around the source *)
Definition corner (dx dz : T) (grad : bool) (vzero xsa zsa : T) (i j : Z) (tt_v ttgrad : arr T) : (arr T * arr T) :=
let u_r_v := (t_anad i j dz dx zsa xsa vzero) in
let tt_v := (set tt_v [i; j] (fst (fst u_r_v))) in
let tzc := (snd (fst u_r_v)) in
let txc := (snd u_r_v) in
let u_j_v : (arr T) := (if grad
 then (let ttgrad := (set ttgrad [i; j; 0] tzc) in
let ttgrad := (set ttgrad [i; j; 1] txc) in
ttgrad)
 else (ttgrad)) in
(tt_v, u_j_v).

Definition init_corners (dx dz : T) (grad : bool) (vzero xsa : T) (xsi : Z) (zsa : T) (zsi : Z)
    (tt_v ttgrad : arr T) : (arr T * arr T) :=
let c := corner dx dz grad vzero xsa zsa zsi xsi tt_v ttgrad in
let c := corner dx dz grad vzero xsa zsa (zsi + 1) xsi (fst c) (snd c) in
let c := corner dx dz grad vzero xsa zsa zsi (xsi + 1) (fst c) (snd c) in
corner dx dz grad vzero xsa zsa (zsi + 1) (xsi + 1) (fst c) (snd c).

(* THE TIE: the generated function is the composition of the pieces (checked by conversion) *)
Lemma fteik2d_p2_decompose dx dz grad iflag nx nz slow (tt_v ttgrad : arr T) ttsgn vzero xsa xsi zsa zsi :
  fteik2d_p2 dx dz grad iflag nx nz slow tt_v ttgrad ttsgn vzero xsa xsi zsa zsi =
  if (iflag =? 2) then
    let td := (full [(Z.max nz nx)] Big) in
    let dzu := (nabs (nsub zsa (nofZ zsi))) in
    let dzd := (nsub (nofZ 1) dzu) in
    let dxw := (nabs (nsub xsa (nofZ xsi))) in
    let dxe := (nsub (nofZ 1) dxw) in
    let c := init_corners dx dz grad vzero xsa xsi zsa zsi tt_v ttgrad in
    let st := east_phase dx dz grad nx slow vzero xsa xsi zsa zsi dzu dzd dxe (td, fst c, ttsgn) in
    let st := west_phase dx dz grad slow vzero xsa xsi zsa zsi dzu dzd dxw st in
    let st := down_phase dx dz grad nz slow vzero xsa xsi zsa zsi dxw dxe dzd (fill (fst (fst st)) Big, snd (fst st), snd st) in
    let st := up_phase dx dz grad slow vzero xsa xsi zsa zsi dxw dxe dzu st in
    (snd (fst st), snd c, snd st)
  else (set tt_v [(ntrunc zsa); (ntrunc xsa)] (nofZ 0), ttgrad, ttsgn).
Proof.
  cbv beta delta [fteik2d_p2]. destruct (iflag =? 2); reflexivity.
Qed.

End Pieces.
(* ========================================================================================== *)
(* 2. geometric relations between arrays                                                        *)
(* ========================================================================================== *)
(* `a'` is the image of `a` under the index map `f` (values transported by `g`) on the index set `dom` *)
Section Rel.
Context {A : Type} (d : A).
Variable dom : list Z -> Prop.
Variable f : list Z -> list Z.
Variable g : list Z -> A -> A.

Definition arel (a a' : arr A) : Prop :=
  wf a /\ wf a' /\
  (forall ix, dom ix -> inb a ix = true /\ inb a' (f ix) = true) /\
  (forall ix, dom ix -> get d a' (f ix) = g ix (get d a ix)).

Hypothesis f_inj : forall ix iy, dom ix -> dom iy -> f ix = f iy -> ix = iy.

Lemma arel_set a a' ix v : arel a a' -> dom ix -> arel (set a ix v) (set a' (f ix) (g ix v)).
Proof.
  intros (W & W' & Hin & Hg) Hd.
  split; [apply wf_set, W|]. split; [apply wf_set, W'|]. split.
  - intros iy Hy. rewrite !inb_set. apply Hin, Hy.
  - intros iy Hy. destruct (Hin ix Hd) as [I1 I1']. destruct (Hin iy Hy) as [I2 I2'].
    destruct (list_eq_dec_Z ix iy) as [<-|N].
    + rewrite !get_set_same by assumption. reflexivity.
    + rewrite !get_set_other; auto; intro E; apply N; apply f_inj; auto.
Qed.

Lemma arel_get a a' ix ix' : arel a a' -> dom ix -> ix' = f ix -> get d a' ix' = g ix (get d a ix).
Proof. intros (_ & _ & _ & Hg) Hd ->. apply Hg, Hd. Qed.
End Rel.

(* index sets *)
Definition dom1 (n : Z) (ix : list Z) : Prop := exists j, ix = [j] /\ 0 <= j < n.
Definition dom2 (n0 n1 : Z) (ix : list Z) : Prop := exists i j, ix = [i; j] /\ 0 <= i < n0 /\ 0 <= j < n1.
Definition dom3 (n0 n1 : Z) (ix : list Z) : Prop :=
  exists i j k, ix = [i; j; k] /\ 0 <= i < n0 /\ 0 <= j < n1 /\ 0 <= k < 2.

(* x-mirror with n columns: j -> n-1-j on the column index (second index of 2-D / 3-D arrays) *)
Definition fmx (n : Z) (ix : list Z) : list Z :=
  match ix with
  | [i; j] => [i; n - 1 - j]
  | [i; j; k] => [i; n - 1 - j; k]
  | _ => ix
  end.
(* z-mirror with n rows *)
Definition fmz (n : Z) (ix : list Z) : list Z :=
  match ix with
  | [i; j] => [n - 1 - i; j]
  | [i; j; k] => [n - 1 - i; j; k]
  | _ => ix
  end.
(* transposition; the component index k of the sign / gradient arrays is exchanged too *)
Definition ftr (ix : list Z) : list Z :=
  match ix with
  | [i; j] => [j; i]
  | [i; j; k] => [j; i; 1 - k]
  | _ => ix
  end.
(* 1-D mirror on the scratch line `td` *)
Definition fm1 (n : Z) (ix : list Z) : list Z :=
  match ix with
  | [j] => [n - 1 - j]
  | _ => ix
  end.
(* value maps on the sign array: component 1 (x) changes sign under x-mirror, component 0 (z) under z-mirror *)
Definition gneg (c : Z) (ix : list Z) (v : Z) : Z :=
  match ix with
  | [_; _; k] => if k =? c then - v else v
  | _ => v
  end.
Definition gid {A} (ix : list Z) (v : A) : A := v.

Lemma cons_inj {A} (a b : A) l m : a :: l = b :: m -> a = b /\ l = m.
Proof. intros E. injection E. auto. Qed.
Ltac linj E := repeat (apply cons_inj in E; let E1 := fresh "E" in destruct E as [E1 E]).

Lemma fmx_inj2 n0 n1 ix iy : dom2 n0 n1 ix -> dom2 n0 n1 iy -> fmx n1 ix = fmx n1 iy -> ix = iy.
Proof. intros (i & j & -> & _) (i' & j' & -> & _) E. unfold fmx, fmz, ftr in E. linj E. f_equal; [|f_equal]; lia. Qed.
Lemma fmx_inj3 n0 n1 ix iy : dom3 n0 n1 ix -> dom3 n0 n1 iy -> fmx n1 ix = fmx n1 iy -> ix = iy.
Proof. intros (i & j & k & -> & _) (i' & j' & k' & -> & _) E. unfold fmx, fmz, ftr in E. linj E.
  f_equal; [|f_equal; [|f_equal]]; lia. Qed.
Lemma fmz_inj2 n0 n1 ix iy : dom2 n0 n1 ix -> dom2 n0 n1 iy -> fmz n0 ix = fmz n0 iy -> ix = iy.
Proof. intros (i & j & -> & _) (i' & j' & -> & _) E. unfold fmx, fmz, ftr in E. linj E. f_equal; [|f_equal]; lia. Qed.
Lemma fmz_inj3 n0 n1 ix iy : dom3 n0 n1 ix -> dom3 n0 n1 iy -> fmz n0 ix = fmz n0 iy -> ix = iy.
Proof. intros (i & j & k & -> & _) (i' & j' & k' & -> & _) E. unfold fmx, fmz, ftr in E. linj E.
  f_equal; [|f_equal; [|f_equal]]; lia. Qed.
Lemma ftr_inj2 n0 n1 ix iy : dom2 n0 n1 ix -> dom2 n0 n1 iy -> ftr ix = ftr iy -> ix = iy.
Proof. intros (i & j & -> & _) (i' & j' & -> & _) E. unfold fmx, fmz, ftr in E. linj E. f_equal; [|f_equal]; lia. Qed.
Lemma ftr_inj3 n0 n1 ix iy : dom3 n0 n1 ix -> dom3 n0 n1 iy -> ftr ix = ftr iy -> ix = iy.
Proof. intros (i & j & k & -> & _) (i' & j' & k' & -> & _) E. unfold fmx, fmz, ftr in E. linj E.
  f_equal; [|f_equal; [|f_equal]]; lia. Qed.

Lemma dom2_intro n0 n1 i j : 0 <= i < n0 -> 0 <= j < n1 -> dom2 n0 n1 [i; j].
Proof. intros. exists i, j. auto. Qed.
Lemma dom3_intro n0 n1 i j k : 0 <= i < n0 -> 0 <= j < n1 -> 0 <= k < 2 -> dom3 n0 n1 [i; j; k].
Proof. intros. exists i, j, k. auto. Qed.

(* ========================================================================================== *)
(* 3. the analytic operators under mirroring (over R)                                            *)
(* ========================================================================================== *)
Section OpsR.
Open Scope R_scope.
Implicit Types (dz dx zsa xsa v vzero vref tauv taue tauev t0c tzc txc dzi dxi dz2i dx2i : R) (i j sgz sgx : Z).

(* coordinates relative to the source change sign under a mirror of n nodes *)
Lemma mir_coord (n k : Z) (a : R) : IZR (n - 1 - k) - (IZR (n - 1) - a) = - (IZR k - a).
Proof. rewrite !minus_IZR. ring. Qed.

Lemma t_ana_mirror_x i j j' dz dx zsa xsa xsa' v :
  IZR j' - xsa' = - (IZR j - xsa) -> t_ana i j' dz dx zsa xsa' v = t_ana i j dz dx zsa xsa v.
Proof. intros E. rewrite !t_ana_exact, E. f_equal. f_equal. ring. Qed.
Lemma t_ana_mirror_z i i' j dz dx zsa zsa' xsa v :
  IZR i' - zsa' = - (IZR i - zsa) -> t_ana i' j dz dx zsa' xsa v = t_ana i j dz dx zsa xsa v.
Proof. intros E. rewrite !t_ana_exact, E. f_equal. f_equal. ring. Qed.

(* the x-derivative changes sign under the x-mirror, the z-derivative under the z-mirror *)
Lemma t_anad_mirror_x i j j' dz dx zsa xsa xsa' v :
  IZR j' - xsa' = - (IZR j - xsa) ->
  t_anad i j' dz dx zsa xsa' v = let '(t, tzc, txc) := t_anad i j dz dx zsa xsa v in (t, tzc, - txc).
Proof.
  intros E. rewrite !t_anad_exact. rewrite (t_ana_mirror_x i j j' dz dx zsa xsa xsa' v E). cbv zeta beta iota.
  rewrite E. destruct (Rlt_dec _ _); f_equal; unfold Rdiv; ring.
Qed.
Lemma t_anad_mirror_z i i' j dz dx zsa zsa' xsa v :
  IZR i' - zsa' = - (IZR i - zsa) ->
  t_anad i' j dz dx zsa' xsa v = let '(t, tzc, txc) := t_anad i j dz dx zsa xsa v in (t, - tzc, txc).
Proof.
  intros E. rewrite !t_anad_exact. rewrite (t_ana_mirror_z i i' j dz dx zsa zsa' xsa v E). cbv zeta beta iota.
  rewrite E. destruct (Rlt_dec _ _); (apply f_equal2; [apply f_equal2|]); try reflexivity; unfold Rdiv; ring.
Qed.

(* delta only sees the products sgntx * txc and sgntz * tzc *)
Lemma delta_mirror_x (t1 : R) tauv taue tauev t0c tzc txc dzi dxi dz2i dx2i vzero vref sgz sgx :
  delta t1 tauv taue tauev t0c tzc (- txc) dzi dxi dz2i dx2i vzero vref sgz (- sgx)
  = delta t1 tauv taue tauev t0c tzc txc dzi dxi dz2i dx2i vzero vref sgz sgx.
Proof.
  rewrite !delta_eq.
  assert (Eb : delta_b tauv taue tauev tzc (- txc) dzi dxi dz2i dx2i sgz (- sgx)
             = delta_b tauv taue tauev tzc txc dzi dxi dz2i dx2i sgz sgx)
    by (unfold delta_b; rewrite opp_IZR; ring).
  assert (Ed : delta_d tauv taue tauev tzc (- txc) dzi dxi dz2i dx2i vzero vref sgz (- sgx)
             = delta_d tauv taue tauev tzc txc dzi dxi dz2i dx2i vzero vref sgz sgx)
    by (unfold delta_d, delta_c, delta_b; cbv zeta; rewrite opp_IZR; ring).
  rewrite Eb, Ed. reflexivity.
Qed.
Lemma delta_mirror_z (t1 : R) tauv taue tauev t0c tzc txc dzi dxi dz2i dx2i vzero vref sgz sgx :
  delta t1 tauv taue tauev t0c (- tzc) txc dzi dxi dz2i dx2i vzero vref (- sgz) sgx
  = delta t1 tauv taue tauev t0c tzc txc dzi dxi dz2i dx2i vzero vref sgz sgx.
Proof.
  rewrite !delta_eq.
  assert (Eb : delta_b tauv taue tauev (- tzc) txc dzi dxi dz2i dx2i (- sgz) sgx
             = delta_b tauv taue tauev tzc txc dzi dxi dz2i dx2i sgz sgx)
    by (unfold delta_b; rewrite opp_IZR; ring).
  assert (Ed : delta_d tauv taue tauev (- tzc) txc dzi dxi dz2i dx2i vzero vref (- sgz) sgx
             = delta_d tauv taue tauev tzc txc dzi dxi dz2i dx2i vzero vref sgz sgx)
    by (unfold delta_d, delta_c, delta_b; cbv zeta; rewrite opp_IZR; ring).
  rewrite Eb, Ed. reflexivity.
Qed.

(* the distances along the line *)
Lemma abs_mirror (a b : R) : a = - b -> Rabs a = Rabs b.
Proof. intros ->. apply Rabs_Ropp. Qed.
End OpsR.

(* ========================================================================================== *)
(* 4. relations between the states of the loops                                                  *)
(* ========================================================================================== *)
(* x-mirror *)
Definition RelTTx (nz nx : Z) : arr R -> arr R -> Prop := arel 0%R (dom2 nz nx) (fmx nx) gid.
Definition RelSGx (nz nx : Z) : arr Z -> arr Z -> Prop := arel 0%Z (dom3 nz nx) (fmx nx) (gneg 1).
(* z-mirror *)
Definition RelTTz (nz nx : Z) : arr R -> arr R -> Prop := arel 0%R (dom2 nz nx) (fmz nz) gid.
Definition RelSGz (nz nx : Z) : arr Z -> arr Z -> Prop := arel 0%Z (dom3 nz nx) (fmz nz) (gneg 0).
(* transposition *)
Definition RelTTt (nz nx : Z) : arr R -> arr R -> Prop := arel 0%R (dom2 nz nx) ftr gid.
Definition RelSGt (nz nx : Z) : arr Z -> arr Z -> Prop := arel 0%Z (dom3 nz nx) ftr gid.

Lemma relTTx_get nz nx tt tt' i j j' :
  RelTTx nz nx tt tt' -> 0 <= i < nz -> 0 <= j < nx -> j' = nx - 1 - j -> get 0%R tt' [i; j'] = get 0%R tt [i; j].
Proof. intros H Hi Hj ->. exact (arel_get 0%R _ _ _ tt tt' [i; j] _ H (dom2_intro _ _ _ _ Hi Hj) eq_refl). Qed.
Lemma relTTz_get nz nx tt tt' i i' j :
  RelTTz nz nx tt tt' -> 0 <= i < nz -> 0 <= j < nx -> i' = nz - 1 - i -> get 0%R tt' [i'; j] = get 0%R tt [i; j].
Proof. intros H Hi Hj ->. exact (arel_get 0%R _ _ _ tt tt' [i; j] _ H (dom2_intro _ _ _ _ Hi Hj) eq_refl). Qed.
Lemma relTTt_get nz nx tt tt' i j :
  RelTTt nz nx tt tt' -> 0 <= i < nz -> 0 <= j < nx -> get 0%R tt' [j; i] = get 0%R tt [i; j].
Proof. intros H Hi Hj. exact (arel_get 0%R _ _ _ tt tt' [i; j] _ H (dom2_intro _ _ _ _ Hi Hj) eq_refl). Qed.

Lemma relTTx_set nz nx tt tt' i j j' v :
  RelTTx nz nx tt tt' -> 0 <= i < nz -> 0 <= j < nx -> j' = nx - 1 - j ->
  RelTTx nz nx (set tt [i; j] v) (set tt' [i; j'] v).
Proof. intros H Hi Hj ->.
  exact (arel_set 0%R _ _ _ (fmx_inj2 nz nx) tt tt' [i; j] v H (dom2_intro _ _ _ _ Hi Hj)). Qed.
Lemma relTTz_set nz nx tt tt' i i' j v :
  RelTTz nz nx tt tt' -> 0 <= i < nz -> 0 <= j < nx -> i' = nz - 1 - i ->
  RelTTz nz nx (set tt [i; j] v) (set tt' [i'; j] v).
Proof. intros H Hi Hj ->.
  exact (arel_set 0%R _ _ _ (fmz_inj2 nz nx) tt tt' [i; j] v H (dom2_intro _ _ _ _ Hi Hj)). Qed.
Lemma relTTt_set nz nx tt tt' i j v :
  RelTTt nz nx tt tt' -> 0 <= i < nz -> 0 <= j < nx ->
  RelTTt nz nx (set tt [i; j] v) (set tt' [j; i] v).
Proof. intros H Hi Hj.
  exact (arel_set 0%R _ _ _ (ftr_inj2 nz nx) tt tt' [i; j] v H (dom2_intro _ _ _ _ Hi Hj)). Qed.

(* the two sign components written at one node *)
Lemma relSGx_set2 nz nx sg sg' i j j' a b :
  RelSGx nz nx sg sg' -> 0 <= i < nz -> 0 <= j < nx -> j' = nx - 1 - j ->
  RelSGx nz nx (set (set sg [i; j; 0] a) [i; j; 1] b) (set (set sg' [i; j'; 0] a) [i; j'; 1] (- b)).
Proof. intros H Hi Hj ->.
  pose proof (arel_set 0%Z _ _ _ (fmx_inj3 nz nx) sg sg' [i; j; 0] a H
                (dom3_intro nz nx i j 0 Hi Hj ltac:(lia))) as H1.
  exact (arel_set 0%Z _ _ _ (fmx_inj3 nz nx) _ _ [i; j; 1] b H1 (dom3_intro nz nx i j 1 Hi Hj ltac:(lia))). Qed.
Lemma relSGz_set2 nz nx sg sg' i i' j a b :
  RelSGz nz nx sg sg' -> 0 <= i < nz -> 0 <= j < nx -> i' = nz - 1 - i ->
  RelSGz nz nx (set (set sg [i; j; 0] a) [i; j; 1] b) (set (set sg' [i'; j; 0] (- a)) [i'; j; 1] b).
Proof. intros H Hi Hj ->.
  pose proof (arel_set 0%Z _ _ _ (fmz_inj3 nz nx) sg sg' [i; j; 0] a H
                (dom3_intro nz nx i j 0 Hi Hj ltac:(lia))) as H1.
  exact (arel_set 0%Z _ _ _ (fmz_inj3 nz nx) _ _ [i; j; 1] b H1 (dom3_intro nz nx i j 1 Hi Hj ltac:(lia))). Qed.

(* two writes at different places commute *)
Lemma upd_comm {A} (l : list A) : forall n m x y, n <> m -> upd (upd l n x) m y = upd (upd l m y) n x.
Proof. induction l as [|h t IH]; intros [|n] [|m] x y N; simpl; auto; try congruence. f_equal. apply IH. congruence. Qed.
Lemma set_comm {A} (a : arr A) p q x y :
  inb a p = true -> inb a q = true -> p <> q -> set (set a p x) q y = set (set a q y) p x.
Proof.
  intros Hp Hq N. unfold set; simpl. f_equal. apply upd_comm. intro E.
  apply N. apply (flat_inj (shape a)); auto.
  pose proof (flat_bound _ _ Hp). pose proof (flat_bound _ _ Hq). apply Z2Nat.inj in E; lia.
Qed.
Lemma relSGt_set2 nz nx sg sg' i j a b :
  RelSGt nz nx sg sg' -> 0 <= i < nz -> 0 <= j < nx ->
  RelSGt nz nx (set (set sg [i; j; 0] a) [i; j; 1] b) (set (set sg' [j; i; 0] b) [j; i; 1] a).
Proof. intros H Hi Hj.
  assert (D0 : dom3 nz nx [i; j; 0]) by (apply dom3_intro; lia).
  assert (D1 : dom3 nz nx [i; j; 1]) by (apply dom3_intro; lia).
  pose proof (arel_set 0%Z _ _ _ (ftr_inj3 nz nx) sg sg' [i; j; 0] a H D0) as H1.
  pose proof (arel_set 0%Z _ _ _ (ftr_inj3 nz nx) _ _ [i; j; 1] b H1 D1) as H2.
  destruct H as (_ & _ & Hin & _). destruct (Hin _ D0) as [_ I0]. destruct (Hin _ D1) as [_ I1].
  rewrite (set_comm sg' [j; i; 0] [j; i; 1] b a); [exact H2 | exact I1 | exact I0 | intro E; discriminate E].
Qed.

(* ========================================================================================== *)
(* 5. x-mirror: west is the mirror image of east                                                 *)
(* ========================================================================================== *)
Ltac numR' := cbn [nadd nsub nmul ndiv nsqrt nabs nneg nltb nleb neqb nofZ nofQ NumR].

Lemma blk_x_mirror_x nz nx (dx dz : R) grad (vzero xsa xsa' zsa dxi dx2i : R) row (dzw : R) sgz sgx jp j jp' j'
      (vref tauv tauev : R) (td td' tt tt' : arr R) (sg sg' : arr Z) :
  RelTTx nz nx tt tt' -> (grad = true -> RelSGx nz nx sg sg') ->
  0 <= row < nz -> 0 <= j < nx -> 0 <= jp < nx -> j' = nx - 1 - j -> jp' = nx - 1 - jp ->
  xsa' = (IZR (nx - 1) - xsa)%R ->
  get 0%R td' [j'] = get 0%R td [j] ->
  let r := blk_x dx dz grad vzero xsa zsa dxi dx2i row dzw sgz sgx jp j vref tauv tauev td tt sg in
  let r' := blk_x dx dz grad vzero xsa' zsa dxi dx2i row dzw sgz (- sgx) jp' j' vref tauv tauev td' tt' sg' in
  RelTTx nz nx (fst r) (fst r') /\ (grad = true -> RelSGx nz nx (snd r) (snd r')).
Proof.
  intros HT HS Hrow Hj Hjp Ej Ejp Exsa Htd r r'. subst r r'. unfold blk_x. cbv zeta.
  assert (G1 : get 0%R tt' [row; jp'] = get 0%R tt [row; jp]) by (eapply relTTx_get; eauto).
  assert (G2 : get 0%R tt' [row; j'] = get 0%R tt [row; j]) by (eapply relTTx_get; eauto).
  assert (C1 : (IZR jp' - xsa' = - (IZR jp - xsa))%R) by (subst jp' xsa'; apply mir_coord).
  assert (C2 : (IZR j' - xsa' = - (IZR j - xsa))%R) by (subst j' xsa'; apply mir_coord).
  change (@nofZ R NumR 0) with 0%R.
  rewrite G1, G2, Htd.
  rewrite (t_ana_mirror_x row jp jp' dz dx zsa xsa xsa' vzero C1).
  rewrite (t_anad_mirror_x row j j' dz dx zsa xsa xsa' vzero C2).
  destruct (t_anad row j dz dx zsa xsa vzero) as [[t0c tzc] txc]. cbn [fst snd].
  rewrite delta_mirror_x.
  match goal with |- context [if ?c then _ else _] => destruct c end; [|split; [exact HT | exact HS]].
  match goal with |- context [if ?c then _ else _] => destruct c end; cbn [fst snd]; [|split; [exact HT | exact HS]].
  split.
  - apply relTTx_set; assumption.
  - intros Hg. rewrite Hg. apply relSGx_set2; auto.
Qed.

(* the medium: cell (i, c) of `slow` <-> cell (i, nx-2-c) *)
Definition RelSLx (nz nx : Z) : arr R -> arr R -> Prop := arel 0%R (dom2 (nz - 1) (nx - 1)) (fmx (nx - 1)) gid.
Definition RelSLz (nz nx : Z) : arr R -> arr R -> Prop := arel 0%R (dom2 (nz - 1) (nx - 1)) (fmz (nz - 1)) gid.
Definition RelSLt (nz nx : Z) : arr R -> arr R -> Prop := arel 0%R (dom2 (nz - 1) (nx - 1)) ftr gid.

(* states (td, tt, ttsgn) of an east loop about to run column k and of a west loop about to run column nx-1-k:
   the grids are mirror images and the last value written on the scratch line agrees *)
Definition SimX (nz nx M M' : Z) (grad : bool) (k : Z) (st st' : arr R * arr R * arr Z) : Prop :=
  wf (fst (fst st)) /\ wf (fst (fst st')) /\ shape (fst (fst st)) = [M] /\ shape (fst (fst st')) = [M'] /\
  get 0%R (fst (fst st')) [nx - k] = get 0%R (fst (fst st)) [k - 1] /\
  RelTTx nz nx (snd (fst st)) (snd (fst st')) /\
  (grad = true -> RelSGx nz nx (snd st) (snd st')).

Ltac idx_eq := repeat match goal with |- _ :: _ = _ :: _ => apply f_equal2; [lia|] end; try reflexivity.

Lemma get1_set_same (a : arr R) M j v : wf a -> shape a = [M] -> 0 <= j < M -> get 0%R (set a [j] v) [j] = v.
Proof. intros W S Hj. apply get_set_same; [exact W | eapply inb1_true; eauto]. Qed.
Lemma get1_set_other (a : arr R) M j k v :
  shape a = [M] -> 0 <= j < M -> 0 <= k < M -> j <> k -> get 0%R (set a [j] v) [k] = get 0%R a [k].
Proof. intros S Hj Hk N. apply get_set_other; try (eapply inb1_true; eauto). intro E. apply N. congruence. Qed.

Lemma east_west_step nz nx M M' (dx dz : R) grad slow slow' (vzero xsa xsa' zsa : R) zsi (dzu dzd dxi dx2i : R) k st st' :
  RelSLx nz nx slow slow' -> nx <= M -> nx <= M' -> 0 <= zsi < nz - 1 -> 1 <= k < nx ->
  xsa' = (IZR (nx - 1) - xsa)%R ->
  SimX nz nx M M' grad k st st' ->
  SimX nz nx M M' grad (k + 1)
    (east_body dx dz grad slow vzero xsa zsa zsi dzu dzd dxi dx2i k st)
    (west_body dx dz grad slow' vzero xsa' zsa zsi dzu dzd dxi dx2i (nx - 1 - k) st').
Proof.
  intros HSL HM HM' Hzsi Hk Exsa. destruct st as [[td tt] sg], st' as [[td' tt'] sg'].
  unfold SimX. cbn [fst snd]. intros (W & W' & S & S' & Htd & HT & HS).
  cbv beta zeta delta [east_body west_body]. cbn [fst snd].
  change (@nofZ R NumR 0) with 0%R.
  set (j' := nx - 1 - k).
  set (vref := get 0%R slow [zsi; k - 1]).
  assert (Ev : get 0%R slow' [zsi; j'] = vref).
  { apply (arel_get 0%R _ _ _ slow slow' [zsi; k - 1] [zsi; j'] HSL).
    - apply dom2_intro; lia.
    - unfold fmx, j'. idx_eq. }
  rewrite Ev. replace (j' + 1) with (nx - k) by (unfold j'; lia). rewrite Htd.
  set (v := nadd (get 0%R td [k - 1]) (nmul dx vref)).
  rewrite (get1_set_same td M k v W S ltac:(lia)).
  rewrite (get1_set_same td' M' j' v W' S' ltac:(unfold j'; lia)).
  rewrite (get1_set_other td M k (k - 1) v S ltac:(lia) ltac:(lia) ltac:(lia)).
  rewrite (get1_set_other td' M' j' (nx - k) v S' ltac:(unfold j'; lia) ltac:(lia) ltac:(unfold j'; lia)).
  rewrite Htd.
  assert (C2 : (IZR j' - xsa' = - (IZR k - xsa))%R) by (unfold j'; subst xsa'; apply mir_coord).
  assert (A1 : nabs (nsub (nofZ j') xsa') = nabs (nsub (nofZ k) xsa)).
  { numR'. apply abs_mirror. exact C2. }
  assert (A2 : nabs (nadd (nsub (nofZ j') xsa') (nofZ 1)) = nabs (nsub (nsub (nofZ k) xsa) (nofZ 1))).
  { numR'. apply abs_mirror. lra. }
  rewrite A1, A2.
  set (tauv := nsub v _). set (tauev := nsub (get 0%R td [k - 1]) _).
  set (tdn := set td [k] v). set (tdn' := set td' [j'] v).
  assert (Htdn : get 0%R tdn' [j'] = get 0%R tdn [k]).
  { unfold tdn, tdn'. rewrite (get1_set_same td M k v W S ltac:(lia)).
    rewrite (get1_set_same td' M' j' v W' S' ltac:(unfold j'; lia)). reflexivity. }
  destruct (blk_x_mirror_x nz nx dx dz grad vzero xsa xsa' zsa dxi dx2i (zsi + 1) dzd 1 1 (k - 1) k (nx - k) j'
              vref tauv tauev tdn tdn' tt tt' sg sg' HT HS ltac:(lia) ltac:(lia) ltac:(lia) eq_refl
              ltac:(lia) Exsa Htdn) as [HT1 HS1].
  match type of HT1 with RelTTx _ _ (fst ?b) (fst ?b') => set (B1 := b) in *; set (B1' := b') in * end.
  destruct (blk_x_mirror_x nz nx dx dz grad vzero xsa xsa' zsa dxi dx2i zsi dzu (-1) 1 (k - 1) k (nx - k) j'
              vref tauv tauev tdn tdn' (fst B1) (fst B1') (snd B1) (snd B1') HT1 HS1 ltac:(lia) ltac:(lia) ltac:(lia) eq_refl
              ltac:(lia) Exsa Htdn) as [HT2 HS2].
  split; [apply wf_set, W|]. split; [apply wf_set, W'|]. split; [exact S|]. split; [exact S'|].
  split; [|split; [exact HT2 | exact HS2]].
  replace (nx - (k + 1)) with j' by (unfold j'; lia). replace (k + 1 - 1) with k by lia. exact Htdn.
Qed.

(* ---------- loops over consecutive indices ---------- *)
Definition upto (a : Z) (n : nat) : list Z := map (fun k => a + Z.of_nat k) (seq 0 n).
Lemma upto_S a n : upto a (S n) = a :: upto (a + 1) n.
Proof. unfold upto. cbn [seq map]. f_equal; [lia|]. rewrite <- seq_shift, map_map. apply map_ext. intros; lia. Qed.
Lemma pyrange_up a b : pyrange a b 1 = upto a (Z.to_nat (b - a)).
Proof.
  unfold pyrange, upto. change (0 <? 1) with true. cbv iota.
  replace ((b - a + 1 - 1) / 1) with (b - a) by (rewrite Z.div_1_r; lia). apply map_ext. intros; lia.
Qed.
(* a descending range is the image of an ascending one under i -> c - i *)
Lemma pyrange_down a c : pyrange a (-1) (-1) = map (fun i => c - i) (upto (c - a) (Z.to_nat (a + 1))).
Proof.
  unfold pyrange, upto. change (0 <? -1) with false. change (-1 <? 0) with true. cbv iota. change (- -1) with 1.
  replace ((a - -1 + 1 - 1) / 1) with (a + 1) by (rewrite Z.div_1_r; lia).
  rewrite map_map. apply map_ext. intros; lia.
Qed.

(* two loops running in lock step over images of the same ascending range; the relation may depend on the position *)
Lemma for_list_sim {S1 S2} (Rl : Z -> S1 -> S2 -> Prop) (b1 : Z -> S1 -> S1) (b2 : Z -> S2 -> S2) (f1 f2 : Z -> Z) n :
  forall a s1 s2, Rl a s1 s2 ->
    (forall p x y, a <= p < a + Z.of_nat n -> Rl p x y -> Rl (p + 1) (b1 (f1 p) x) (b2 (f2 p) y)) ->
    Rl (a + Z.of_nat n) (for_list (map f1 (upto a n)) b1 s1) (for_list (map f2 (upto a n)) b2 s2).
Proof.
  induction n as [|n IH]; intros a s1 s2 H0 Hs.
  - cbn. replace (a + 0) with a by lia. exact H0.
  - rewrite upto_S. cbn [map]. rewrite !for_list_cons.
    replace (a + Z.of_nat (S n)) with ((a + 1) + Z.of_nat n) by lia.
    apply IH; [apply Hs; [lia | exact H0] | intros p x y Hp; apply Hs; lia].
Qed.

(* (a), loops only *)
Theorem west_loop_is_mirror_of_east_loop nz nx M M' (dx dz : R) grad slow slow' (vzero xsa xsa' zsa : R) xsi xsi' zsi
    (dzu dzd dxi dx2i : R) st st' :
  RelSLx nz nx slow slow' -> nx <= M -> nx <= M' -> 0 <= zsi < nz - 1 -> 0 <= xsi < nx - 1 ->
  xsa' = (IZR (nx - 1) - xsa)%R -> xsi' = nx - 2 - xsi ->
  SimX nz nx M M' grad (xsi + 2) st st' ->
  SimX nz nx M M' grad nx
    (for_list (pyrange (xsi + 2) nx 1) (east_body dx dz grad slow vzero xsa zsa zsi dzu dzd dxi dx2i) st)
    (for_list (pyrange (xsi' - 1) (-1) (-1)) (west_body dx dz grad slow' vzero xsa' zsa zsi dzu dzd dxi dx2i) st').
Proof.
  intros HSL HM HM' Hzsi Hxsi Exsa Exsi H0.
  rewrite pyrange_up, (pyrange_down (xsi' - 1) (nx - 1)).
  replace (nx - 1 - (xsi' - 1)) with (xsi + 2) by lia.
  replace (Z.to_nat (xsi' - 1 + 1)) with (Z.to_nat (nx - (xsi + 2))) by (f_equal; lia).
  set (n := Z.to_nat (nx - (xsi + 2))).
  assert (En : xsi + 2 + Z.of_nat n = nx) by lia.
  pose proof (for_list_sim (SimX nz nx M M' grad)
                (east_body dx dz grad slow vzero xsa zsa zsi dzu dzd dxi dx2i)
                (west_body dx dz grad slow' vzero xsa' zsa zsi dzu dzd dxi dx2i)
                (fun x => x) (fun i => nx - 1 - i) n (xsi + 2) st st' H0) as L.
  rewrite En, map_id in L. apply L.
  intros p x y Hp Hxy. apply east_west_step; auto. lia.
Qed.

(* (a) WEST IS THE MIRROR IMAGE OF EAST.  The scratch lines `td`, `td'` are arbitrary (only their sizes matter): the
   phases seed them themselves.  `dzu dzd` are the same reals on both sides, the x-distance `dxe` of the east side
   is the `dxw` of the west side. *)
Theorem west_is_mirror_of_east nz nx M M' (dx dz : R) grad slow slow' (vzero xsa xsa' : R) xsi xsi' (zsa : R) zsi
    (dzu dzd dxe : R) td td' tt tt' sg sg' :
  RelSLx nz nx slow slow' ->
  wf td -> wf td' -> shape td = [M] -> shape td' = [M'] -> nx <= M -> nx <= M' ->
  0 <= zsi < nz - 1 -> 0 <= xsi < nx - 1 ->
  xsa' = (IZR (nx - 1) - xsa)%R -> xsi' = nx - 2 - xsi ->
  RelTTx nz nx tt tt' -> (grad = true -> RelSGx nz nx sg sg') ->
  let r := east_phase dx dz grad nx slow vzero xsa xsi zsa zsi dzu dzd dxe (td, tt, sg) in
  let r' := west_phase dx dz grad slow' vzero xsa' xsi' zsa zsi dzu dzd dxe (td', tt', sg') in
  RelTTx nz nx (snd (fst r)) (snd (fst r')) /\ (grad = true -> RelSGx nz nx (snd r) (snd r')).
Proof.
  intros HSL W W' S S' HM HM' Hzsi Hxsi Exsa Exsi HT HS r r'. subst r r'.
  unfold east_phase, west_phase. cbv zeta. cbn [fst snd].
  match goal with |- context [for_list ?l (east_body ?a1 ?a2 ?a3 ?a4 ?a5 ?a6 ?a7 ?a8 ?a9 ?a10 ?a11 ?a12) ?s] =>
    match goal with |- context [for_list ?l' (west_body _ _ _ ?sl' _ ?xa' _ _ _ _ _ _) ?s'] =>
      pose proof (west_loop_is_mirror_of_east_loop nz nx M M' a1 a2 a3 a4 sl' a5 a6 xa' a7 xsi xsi' a8 a9 a10 a11 a12 s s'
                    HSL HM HM' Hzsi Hxsi Exsa Exsi) as L end end.
  destruct L as (_ & _ & _ & _ & _ & HT' & HS'); [|split; assumption].
  unfold SimX. cbn [fst snd].
  split; [apply wf_set, W|]. split; [apply wf_set, W'|]. split; [exact S|]. split; [exact S'|].
  split; [|split; assumption].
  replace (nx - (xsi + 2)) with xsi' by lia. replace (xsi + 2 - 1) with (xsi + 1) by lia.
  rewrite (get1_set_same td M (xsi + 1) _ W S ltac:(lia)).
  rewrite (get1_set_same td' M' xsi' _ W' S' ltac:(lia)). reflexivity.
Qed.

(* ========================================================================================== *)
(* 6. transposition: down is the transpose of east, up the transpose of west                    *)
(* ========================================================================================== *)
(* a z-block on the transposed data is the transpose of the x-block: dz <-> dx, zsa <-> xsa, the roles of the two
   signs and of (tauv, taue) are exchanged *)
Lemma blk_z_transpose_of_blk_x nz nx (dx dz : R) grad (vzero xsa zsa dxi dx2i : R) row (dzw : R) sgz sgx jp j
      (vref tauv tauev : R) (td td' tt tt' : arr R) (sg sg' : arr Z) :
  RelTTt nz nx tt tt' -> (grad = true -> RelSGt nz nx sg sg') ->
  0 <= row < nz -> 0 <= j < nx -> 0 <= jp < nx ->
  get 0%R td' [j] = get 0%R td [j] ->
  let r := blk_x dx dz grad vzero xsa zsa dxi dx2i row dzw sgz sgx jp j vref tauv tauev td tt sg in
  let r' := blk_z dz dx grad vzero zsa xsa dxi dx2i row dzw sgx sgz jp j vref tauv tauev td' tt' sg' in
  RelTTt nz nx (fst r) (fst r') /\ (grad = true -> RelSGt nz nx (snd r) (snd r')).
Proof.
  intros HT HS Hrow Hj Hjp Htd r r'. subst r r'. unfold blk_x, blk_z. cbv zeta.
  assert (G1 : get 0%R tt' [jp; row] = get 0%R tt [row; jp]) by (eapply relTTt_get; eauto).
  assert (G2 : get 0%R tt' [j; row] = get 0%R tt [row; j]) by (eapply relTTt_get; eauto).
  change (@nofZ R NumR 0) with 0%R.
  rewrite G1, G2, Htd.
  rewrite (t_ana_swap jp row dx dz xsa zsa vzero).
  rewrite (t_anad_swap j row dx dz xsa zsa vzero).
  destruct (t_anad row j dz dx zsa xsa vzero) as [[t0c tzc] txc]. cbn [fst snd].
  rewrite (delta_swap (get 0%R tt [row; j]) (nsub (get 0%R tt [row; jp]) (t_ana row jp dz dx zsa xsa vzero))).
  match goal with |- context [if ?c then _ else _] => destruct c end; [|split; [exact HT | exact HS]].
  match goal with |- context [if ?c then _ else _] => destruct c end; cbn [fst snd]; [|split; [exact HT | exact HS]].
  split.
  - apply relTTt_set; assumption.
  - intros Hg. rewrite Hg. apply relSGt_set2; auto.
Qed.

(* states of an x-loop and of a z-loop on the transposed data; `p` is the line index written last *)
Definition SimT (nz nx M M' : Z) (grad : bool) (p : Z) (st st' : arr R * arr R * arr Z) : Prop :=
  wf (fst (fst st)) /\ wf (fst (fst st')) /\ shape (fst (fst st)) = [M] /\ shape (fst (fst st')) = [M'] /\
  get 0%R (fst (fst st')) [p] = get 0%R (fst (fst st)) [p] /\
  RelTTt nz nx (snd (fst st)) (snd (fst st')) /\
  (grad = true -> RelSGt nz nx (snd st) (snd st')).

Lemma relSLt_get nz nx slow slow' i j :
  RelSLt nz nx slow slow' -> 0 <= i < nz - 1 -> 0 <= j < nx - 1 -> get 0%R slow' [j; i] = get 0%R slow [i; j].
Proof. intros H Hi Hj. exact (arel_get 0%R _ _ _ slow slow' [i; j] _ H (dom2_intro _ _ _ _ Hi Hj) eq_refl). Qed.

Lemma east_down_step nz nx M M' (dx dz : R) grad slow slow' (vzero xsa zsa : R) zsi (dzu dzd dxi dx2i : R) k st st' :
  RelSLt nz nx slow slow' -> nx <= M -> nx <= M' -> 0 <= zsi < nz - 1 -> 1 <= k < nx ->
  SimT nz nx M M' grad (k - 1) st st' ->
  SimT nz nx M M' grad k
    (east_body dx dz grad slow vzero xsa zsa zsi dzu dzd dxi dx2i k st)
    (down_body dz dx grad slow' vzero zsa xsa zsi dzu dzd dxi dx2i k st').
Proof.
  intros HSL HM HM' Hzsi Hk. destruct st as [[td tt] sg], st' as [[td' tt'] sg'].
  unfold SimT. cbn [fst snd]. intros (W & W' & S & S' & Htd & HT & HS).
  cbv beta zeta delta [east_body down_body]. cbn [fst snd].
  change (@nofZ R NumR 0) with 0%R.
  rewrite (relSLt_get nz nx slow slow' zsi (k - 1) HSL Hzsi ltac:(lia)).
  set (vref := get 0%R slow [zsi; k - 1]).
  rewrite Htd.
  set (v := nadd (get 0%R td [k - 1]) (nmul dx vref)).
  rewrite (get1_set_same td M k v W S ltac:(lia)).
  rewrite (get1_set_same td' M' k v W' S' ltac:(lia)).
  rewrite (get1_set_other td M k (k - 1) v S ltac:(lia) ltac:(lia) ltac:(lia)).
  rewrite (get1_set_other td' M' k (k - 1) v S' ltac:(lia) ltac:(lia) ltac:(lia)).
  rewrite Htd.
  set (tauv := nsub v _). set (tauev := nsub (get 0%R td [k - 1]) _).
  set (tdn := set td [k] v). set (tdn' := set td' [k] v).
  assert (Htdn : get 0%R tdn' [k] = get 0%R tdn [k]).
  { unfold tdn, tdn'. rewrite (get1_set_same td M k v W S ltac:(lia)).
    rewrite (get1_set_same td' M' k v W' S' ltac:(lia)). reflexivity. }
  destruct (blk_z_transpose_of_blk_x nz nx dx dz grad vzero xsa zsa dxi dx2i (zsi + 1) dzd 1 1 (k - 1) k
              vref tauv tauev tdn tdn' tt tt' sg sg' HT HS ltac:(lia) ltac:(lia) ltac:(lia) Htdn) as [HT1 HS1].
  match type of HT1 with RelTTt _ _ (fst ?b) (fst ?b') => set (B1 := b) in *; set (B1' := b') in * end.
  destruct (blk_z_transpose_of_blk_x nz nx dx dz grad vzero xsa zsa dxi dx2i zsi dzu (-1) 1 (k - 1) k
              vref tauv tauev tdn tdn' (fst B1) (fst B1') (snd B1) (snd B1') HT1 HS1
              ltac:(lia) ltac:(lia) ltac:(lia) Htdn) as [HT2 HS2].
  split; [apply wf_set, W|]. split; [apply wf_set, W'|]. split; [exact S|]. split; [exact S'|].
  split; [first [exact Htdn | reflexivity]|]. split; [exact HT2 | exact HS2].
Qed.

Lemma west_up_step nz nx M M' (dx dz : R) grad slow slow' (vzero xsa zsa : R) zsi (dzu dzd dxi dx2i : R) k st st' :
  RelSLt nz nx slow slow' -> nx <= M -> nx <= M' -> 0 <= zsi < nz - 1 -> 0 <= k < nx - 1 ->
  SimT nz nx M M' grad (k + 1) st st' ->
  SimT nz nx M M' grad k
    (west_body dx dz grad slow vzero xsa zsa zsi dzu dzd dxi dx2i k st)
    (up_body dz dx grad slow' vzero zsa xsa zsi dzu dzd dxi dx2i k st').
Proof.
  intros HSL HM HM' Hzsi Hk. destruct st as [[td tt] sg], st' as [[td' tt'] sg'].
  unfold SimT. cbn [fst snd]. intros (W & W' & S & S' & Htd & HT & HS).
  cbv beta zeta delta [west_body up_body]. cbn [fst snd].
  change (@nofZ R NumR 0) with 0%R.
  rewrite (relSLt_get nz nx slow slow' zsi k HSL Hzsi ltac:(lia)).
  set (vref := get 0%R slow [zsi; k]).
  rewrite Htd.
  set (v := nadd (get 0%R td [k + 1]) (nmul dx vref)).
  rewrite (get1_set_same td M k v W S ltac:(lia)).
  rewrite (get1_set_same td' M' k v W' S' ltac:(lia)).
  rewrite (get1_set_other td M k (k + 1) v S ltac:(lia) ltac:(lia) ltac:(lia)).
  rewrite (get1_set_other td' M' k (k + 1) v S' ltac:(lia) ltac:(lia) ltac:(lia)).
  rewrite Htd.
  set (tauv := nsub v _). set (tauev := nsub (get 0%R td [k + 1]) _).
  set (tdn := set td [k] v). set (tdn' := set td' [k] v).
  assert (Htdn : get 0%R tdn' [k] = get 0%R tdn [k]).
  { unfold tdn, tdn'. rewrite (get1_set_same td M k v W S ltac:(lia)).
    rewrite (get1_set_same td' M' k v W' S' ltac:(lia)). reflexivity. }
  destruct (blk_z_transpose_of_blk_x nz nx dx dz grad vzero xsa zsa dxi dx2i (zsi + 1) dzd 1 (-1) (k + 1) k
              vref tauv tauev tdn tdn' tt tt' sg sg' HT HS ltac:(lia) ltac:(lia) ltac:(lia) Htdn) as [HT1 HS1].
  match type of HT1 with RelTTt _ _ (fst ?b) (fst ?b') => set (B1 := b) in *; set (B1' := b') in * end.
  destruct (blk_z_transpose_of_blk_x nz nx dx dz grad vzero xsa zsa dxi dx2i zsi dzu (-1) (-1) (k + 1) k
              vref tauv tauev tdn tdn' (fst B1) (fst B1') (snd B1) (snd B1') HT1 HS1
              ltac:(lia) ltac:(lia) ltac:(lia) Htdn) as [HT2 HS2].
  split; [apply wf_set, W|]. split; [apply wf_set, W'|]. split; [exact S|]. split; [exact S'|].
  split; [first [exact Htdn | reflexivity]|]. split; [exact HT2 | exact HS2].
Qed.

(* (b) DOWN IS THE TRANSPOSE OF EAST: the down phase run on the transposed problem (dz <-> dx, nz <-> nx,
   zsa <-> xsa, zsi <-> xsi, dzu <-> dxw, dzd <-> dxe, transposed grids) yields the transpose of the east phase *)
Theorem down_is_transpose_of_east nz nx M M' (dx dz : R) grad slow slow' (vzero xsa : R) xsi (zsa : R) zsi
    (dzu dzd dxe : R) td td' tt tt' sg sg' :
  RelSLt nz nx slow slow' ->
  wf td -> wf td' -> shape td = [M] -> shape td' = [M'] -> nx <= M -> nx <= M' ->
  0 <= zsi < nz - 1 -> 0 <= xsi < nx - 1 ->
  RelTTt nz nx tt tt' -> (grad = true -> RelSGt nz nx sg sg') ->
  let r := east_phase dx dz grad nx slow vzero xsa xsi zsa zsi dzu dzd dxe (td, tt, sg) in
  let r' := down_phase dz dx grad nx slow' vzero zsa zsi xsa xsi dzu dzd dxe (td', tt', sg') in
  RelTTt nz nx (snd (fst r)) (snd (fst r')) /\ (grad = true -> RelSGt nz nx (snd r) (snd r')).
Proof.
  intros HSL W W' S S' HM HM' Hzsi Hxsi HT HS r r'. subst r r'.
  unfold east_phase, down_phase. cbv zeta. cbn [fst snd].
  rewrite pyrange_up. set (n := Z.to_nat (nx - (xsi + 2))).
  match goal with |- context [for_list _ (east_body ?a1 ?a2 ?a3 ?a4 ?a5 ?a6 ?a7 ?a8 ?a9 ?a10 ?a11 ?a12) ?s] =>
    match goal with |- context [for_list _ (down_body _ _ _ ?sl' _ _ _ _ _ _ _ _) ?s'] =>
      pose proof (for_list_sim (fun k => SimT nz nx M M' grad (k - 1))
                    (east_body a1 a2 a3 a4 a5 a6 a7 a8 a9 a10 a11 a12)
                    (down_body a2 a1 a3 sl' a5 a7 a6 a8 a9 a10 a11 a12)
                    (fun x => x) (fun x => x) n (xsi + 2) s s') as L end end.
  rewrite !map_id in L.
  destruct L as (_ & _ & _ & _ & _ & HT' & HS'); [| |split; assumption].
  - unfold SimT. cbn [fst snd].
    split; [apply wf_set, W|]. split; [apply wf_set, W'|]. split; [exact S|]. split; [exact S'|].
    split; [|split; assumption].
    replace (xsi + 2 - 1) with (xsi + 1) by lia.
    rewrite (get1_set_same td M (xsi + 1) _ W S ltac:(lia)).
    rewrite (get1_set_same td' M' (xsi + 1) _ W' S' ltac:(lia)). reflexivity.
  - intros p x y Hp Hxy. replace (p + 1 - 1) with p by lia. apply east_down_step; auto. lia.
Qed.

(* (b') UP IS THE TRANSPOSE OF WEST *)
Theorem up_is_transpose_of_west nz nx M M' (dx dz : R) grad slow slow' (vzero xsa : R) xsi (zsa : R) zsi
    (dzu dzd dxw : R) td td' tt tt' sg sg' :
  RelSLt nz nx slow slow' ->
  wf td -> wf td' -> shape td = [M] -> shape td' = [M'] -> nx <= M -> nx <= M' ->
  0 <= zsi < nz - 1 -> 0 <= xsi < nx - 1 ->
  RelTTt nz nx tt tt' -> (grad = true -> RelSGt nz nx sg sg') ->
  let r := west_phase dx dz grad slow vzero xsa xsi zsa zsi dzu dzd dxw (td, tt, sg) in
  let r' := up_phase dz dx grad slow' vzero zsa zsi xsa xsi dzu dzd dxw (td', tt', sg') in
  RelTTt nz nx (snd (fst r)) (snd (fst r')) /\ (grad = true -> RelSGt nz nx (snd r) (snd r')).
Proof.
  intros HSL W W' S S' HM HM' Hzsi Hxsi HT HS r r'. subst r r'.
  unfold west_phase, up_phase. cbv zeta. cbn [fst snd].
  rewrite (pyrange_down (xsi - 1) (xsi - 1)). replace (xsi - 1 - (xsi - 1)) with 0 by lia.
  set (n := Z.to_nat (xsi - 1 + 1)).
  match goal with |- context [for_list _ (west_body ?a1 ?a2 ?a3 ?a4 ?a5 ?a6 ?a7 ?a8 ?a9 ?a10 ?a11 ?a12) ?s] =>
    match goal with |- context [for_list _ (up_body _ _ _ ?sl' _ _ _ _ _ _ _ _) ?s'] =>
      pose proof (for_list_sim (fun q => SimT nz nx M M' grad (xsi - q))
                    (west_body a1 a2 a3 a4 a5 a6 a7 a8 a9 a10 a11 a12)
                    (up_body a2 a1 a3 sl' a5 a7 a6 a8 a9 a10 a11 a12)
                    (fun i => xsi - 1 - i) (fun i => xsi - 1 - i) n 0 s s') as L end end.
  destruct L as (_ & _ & _ & _ & _ & HT' & HS'); [| |split; assumption].
  - unfold SimT. cbn [fst snd].
    split; [apply wf_set, W|]. split; [apply wf_set, W'|]. split; [exact S|]. split; [exact S'|].
    split; [|split; assumption].
    replace (xsi - 0) with xsi by lia.
    rewrite (get1_set_same td M xsi _ W S ltac:(lia)).
    rewrite (get1_set_same td' M' xsi _ W' S' ltac:(lia)). reflexivity.
  - intros p x y Hp Hxy. replace (xsi - (p + 1)) with (xsi - 1 - p) by lia.
    apply west_up_step; auto; [lia|]. replace (xsi - 1 - p + 1) with (xsi - p) by lia. exact Hxy.
Qed.

(* ========================================================================================== *)
(* 7. z-mirror: up is the mirror image of down                                                   *)
(* ========================================================================================== *)
Lemma blk_z_mirror_z nz nx (dx dz : R) grad (vzero xsa zsa zsa' dzi dz2i : R) col (dxw : R) sgz sgx ip i ip' i'
      (vref taue tauev : R) (td td' tt tt' : arr R) (sg sg' : arr Z) :
  RelTTz nz nx tt tt' -> (grad = true -> RelSGz nz nx sg sg') ->
  0 <= col < nx -> 0 <= i < nz -> 0 <= ip < nz -> i' = nz - 1 - i -> ip' = nz - 1 - ip ->
  zsa' = (IZR (nz - 1) - zsa)%R ->
  get 0%R td' [i'] = get 0%R td [i] ->
  let r := blk_z dx dz grad vzero xsa zsa dzi dz2i col dxw sgz sgx ip i vref taue tauev td tt sg in
  let r' := blk_z dx dz grad vzero xsa zsa' dzi dz2i col dxw (- sgz) sgx ip' i' vref taue tauev td' tt' sg' in
  RelTTz nz nx (fst r) (fst r') /\ (grad = true -> RelSGz nz nx (snd r) (snd r')).
Proof.
  intros HT HS Hcol Hi Hip Ei Eip Ezsa Htd r r'. subst r r'. unfold blk_z. cbv zeta.
  assert (G1 : get 0%R tt' [ip'; col] = get 0%R tt [ip; col]) by (eapply relTTz_get; eauto).
  assert (G2 : get 0%R tt' [i'; col] = get 0%R tt [i; col]) by (eapply relTTz_get; eauto).
  assert (C1 : (IZR ip' - zsa' = - (IZR ip - zsa))%R) by (subst ip' zsa'; apply mir_coord).
  assert (C2 : (IZR i' - zsa' = - (IZR i - zsa))%R) by (subst i' zsa'; apply mir_coord).
  change (@nofZ R NumR 0) with 0%R.
  rewrite G1, G2, Htd.
  rewrite (t_ana_mirror_z ip ip' col dz dx zsa zsa' xsa vzero C1).
  rewrite (t_anad_mirror_z i i' col dz dx zsa zsa' xsa vzero C2).
  destruct (t_anad i col dz dx zsa xsa vzero) as [[t0c tzc] txc]. cbn [fst snd].
  rewrite delta_mirror_z.
  match goal with |- context [if ?c then _ else _] => destruct c end; [|split; [exact HT | exact HS]].
  match goal with |- context [if ?c then _ else _] => destruct c end; cbn [fst snd]; [|split; [exact HT | exact HS]].
  split.
  - apply relTTz_set; assumption.
  - intros Hg. rewrite Hg. apply relSGz_set2; auto.
Qed.

Definition SimZ (nz nx M M' : Z) (grad : bool) (k : Z) (st st' : arr R * arr R * arr Z) : Prop :=
  wf (fst (fst st)) /\ wf (fst (fst st')) /\ shape (fst (fst st)) = [M] /\ shape (fst (fst st')) = [M'] /\
  get 0%R (fst (fst st')) [nz - k] = get 0%R (fst (fst st)) [k - 1] /\
  RelTTz nz nx (snd (fst st)) (snd (fst st')) /\
  (grad = true -> RelSGz nz nx (snd st) (snd st')).

Lemma down_up_step nz nx M M' (dx dz : R) grad slow slow' (vzero xsa zsa zsa' : R) xsi (dxw dxe dzi dz2i : R) k st st' :
  RelSLz nz nx slow slow' -> nz <= M -> nz <= M' -> 0 <= xsi < nx - 1 -> 1 <= k < nz ->
  zsa' = (IZR (nz - 1) - zsa)%R ->
  SimZ nz nx M M' grad k st st' ->
  SimZ nz nx M M' grad (k + 1)
    (down_body dx dz grad slow vzero xsa zsa xsi dxw dxe dzi dz2i k st)
    (up_body dx dz grad slow' vzero xsa zsa' xsi dxw dxe dzi dz2i (nz - 1 - k) st').
Proof.
  intros HSL HM HM' Hxsi Hk Ezsa. destruct st as [[td tt] sg], st' as [[td' tt'] sg'].
  unfold SimZ. cbn [fst snd]. intros (W & W' & S & S' & Htd & HT & HS).
  cbv beta zeta delta [down_body up_body]. cbn [fst snd].
  change (@nofZ R NumR 0) with 0%R.
  set (i' := nz - 1 - k).
  set (vref := get 0%R slow [k - 1; xsi]).
  assert (Ev : get 0%R slow' [i'; xsi] = vref).
  { apply (arel_get 0%R _ _ _ slow slow' [k - 1; xsi] [i'; xsi] HSL).
    - apply dom2_intro; lia.
    - unfold fmz, i'. idx_eq. }
  rewrite Ev. replace (i' + 1) with (nz - k) by (unfold i'; lia). rewrite Htd.
  set (v := nadd (get 0%R td [k - 1]) (nmul dz vref)).
  rewrite (get1_set_same td M k v W S ltac:(lia)).
  rewrite (get1_set_same td' M' i' v W' S' ltac:(unfold i'; lia)).
  rewrite (get1_set_other td M k (k - 1) v S ltac:(lia) ltac:(lia) ltac:(lia)).
  rewrite (get1_set_other td' M' i' (nz - k) v S' ltac:(unfold i'; lia) ltac:(lia) ltac:(unfold i'; lia)).
  rewrite Htd.
  assert (C2 : (IZR i' - zsa' = - (IZR k - zsa))%R) by (unfold i'; subst zsa'; apply mir_coord).
  assert (A1 : nabs (nsub (nofZ i') zsa') = nabs (nsub (nofZ k) zsa)).
  { numR'. apply abs_mirror. exact C2. }
  assert (A2 : nabs (nadd (nsub (nofZ i') zsa') (nofZ 1)) = nabs (nsub (nsub (nofZ k) zsa) (nofZ 1))).
  { numR'. apply abs_mirror. lra. }
  rewrite A1, A2.
  set (taue := nsub v _). set (tauev := nsub (get 0%R td [k - 1]) _).
  set (tdn := set td [k] v). set (tdn' := set td' [i'] v).
  assert (Htdn : get 0%R tdn' [i'] = get 0%R tdn [k]).
  { unfold tdn, tdn'. rewrite (get1_set_same td M k v W S ltac:(lia)).
    rewrite (get1_set_same td' M' i' v W' S' ltac:(unfold i'; lia)). reflexivity. }
  destruct (blk_z_mirror_z nz nx dx dz grad vzero xsa zsa zsa' dzi dz2i (xsi + 1) dxe 1 1 (k - 1) k (nz - k) i'
              vref taue tauev tdn tdn' tt tt' sg sg' HT HS ltac:(lia) ltac:(lia) ltac:(lia) eq_refl
              ltac:(lia) Ezsa Htdn) as [HT1 HS1].
  match type of HT1 with RelTTz _ _ (fst ?b) (fst ?b') => set (B1 := b) in *; set (B1' := b') in * end.
  destruct (blk_z_mirror_z nz nx dx dz grad vzero xsa zsa zsa' dzi dz2i xsi dxw 1 (-1) (k - 1) k (nz - k) i'
              vref taue tauev tdn tdn' (fst B1) (fst B1') (snd B1) (snd B1') HT1 HS1 ltac:(lia) ltac:(lia) ltac:(lia) eq_refl
              ltac:(lia) Ezsa Htdn) as [HT2 HS2].
  split; [apply wf_set, W|]. split; [apply wf_set, W'|]. split; [exact S|]. split; [exact S'|].
  split; [|split; [exact HT2 | exact HS2]].
  replace (nz - (k + 1)) with i' by (unfold i'; lia). replace (k + 1 - 1) with k by lia.
  first [exact Htdn | reflexivity].
Qed.

(* (c) UP IS THE MIRROR IMAGE OF DOWN *)
Theorem up_is_mirror_of_down nz nx M M' (dx dz : R) grad slow slow' (vzero xsa : R) xsi (zsa zsa' : R) zsi zsi'
    (dxw dxe dzd : R) td td' tt tt' sg sg' :
  RelSLz nz nx slow slow' ->
  wf td -> wf td' -> shape td = [M] -> shape td' = [M'] -> nz <= M -> nz <= M' ->
  0 <= zsi < nz - 1 -> 0 <= xsi < nx - 1 ->
  zsa' = (IZR (nz - 1) - zsa)%R -> zsi' = nz - 2 - zsi ->
  RelTTz nz nx tt tt' -> (grad = true -> RelSGz nz nx sg sg') ->
  let r := down_phase dx dz grad nz slow vzero xsa xsi zsa zsi dxw dxe dzd (td, tt, sg) in
  let r' := up_phase dx dz grad slow' vzero xsa xsi zsa' zsi' dxw dxe dzd (td', tt', sg') in
  RelTTz nz nx (snd (fst r)) (snd (fst r')) /\ (grad = true -> RelSGz nz nx (snd r) (snd r')).
Proof.
  intros HSL W W' S S' HM HM' Hzsi Hxsi Ezsa Ezsi HT HS r r'. subst r r'.
  unfold down_phase, up_phase. cbv zeta. cbn [fst snd].
  rewrite pyrange_up, (pyrange_down (zsi' - 1) (nz - 1)).
  replace (nz - 1 - (zsi' - 1)) with (zsi + 2) by lia.
  replace (Z.to_nat (zsi' - 1 + 1)) with (Z.to_nat (nz - (zsi + 2))) by (f_equal; lia).
  set (n := Z.to_nat (nz - (zsi + 2))).
  assert (En : zsi + 2 + Z.of_nat n = nz) by lia.
  match goal with |- context [for_list _ (down_body ?a1 ?a2 ?a3 ?a4 ?a5 ?a6 ?a7 ?a8 ?a9 ?a10 ?a11 ?a12) ?s] =>
    match goal with |- context [for_list _ (up_body _ _ _ ?sl' _ _ ?za' _ _ _ _ _) ?s'] =>
      pose proof (for_list_sim (SimZ nz nx M M' grad)
                    (down_body a1 a2 a3 a4 a5 a6 a7 a8 a9 a10 a11 a12)
                    (up_body a1 a2 a3 sl' a5 a6 za' a8 a9 a10 a11 a12)
                    (fun x => x) (fun i => nz - 1 - i) n (zsi + 2) s s') as L end end.
  rewrite En, map_id in L.
  destruct L as (_ & _ & _ & _ & _ & HT' & HS'); [| |split; assumption].
  - unfold SimZ. cbn [fst snd].
    split; [apply wf_set, W|]. split; [apply wf_set, W'|]. split; [exact S|]. split; [exact S'|].
    split; [|split; assumption].
    replace (nz - (zsi + 2)) with zsi' by lia. replace (zsi + 2 - 1) with (zsi + 1) by lia.
    rewrite (get1_set_same td M (zsi + 1) _ W S ltac:(lia)).
    rewrite (get1_set_same td' M' zsi' _ W' S' ltac:(lia)). reflexivity.
  - intros p x y Hp Hxy. apply down_up_step; auto. lia.
Qed.

(* ========================================================================================== *)
(* 8. the geometric maps as functions; the pairing theorems in explicit form                    *)
(* ========================================================================================== *)
(* arrays tabulated from a function of the indices *)
Definition tab2 {A} (n0 n1 : Z) (fn : Z -> Z -> A) : arr A :=
  mkarr [n0; n1] (map (fun q => let q := Z.of_nat q in fn (q / n1) (q mod n1)) (seq 0 (Z.to_nat (n0 * n1)))).
Definition tab3 {A} (n0 n1 n2 : Z) (fn : Z -> Z -> Z -> A) : arr A :=
  mkarr [n0; n1; n2]
    (map (fun q => let q := Z.of_nat q in fn (q / n2 / n1) ((q / n2) mod n1) (q mod n2))
         (seq 0 (Z.to_nat (n0 * n1 * n2)))).

Lemma wf_tab2 {A} n0 n1 (fn : Z -> Z -> A) : 0 <= n0 -> 0 <= n1 -> wf (tab2 n0 n1 fn).
Proof. intros H0 H1. split; simpl.
  - rewrite map_length, seq_length. f_equal. lia.
  - repeat constructor; assumption. Qed.
Lemma wf_tab3 {A} n0 n1 n2 (fn : Z -> Z -> Z -> A) : 0 <= n0 -> 0 <= n1 -> 0 <= n2 -> wf (tab3 n0 n1 n2 fn).
Proof. intros H0 H1 H2. split; simpl.
  - rewrite map_length, seq_length. f_equal. lia.
  - repeat constructor; assumption. Qed.

Lemma nth_map_seq {A} (F : nat -> A) n q d : (q < n)%nat -> nth q (map F (seq 0 n)) d = F q.
Proof. intros Hq. rewrite (nth_indep _ d (F O)) by (rewrite map_length, seq_length; exact Hq).
  rewrite map_nth. rewrite seq_nth by exact Hq. reflexivity. Qed.

Lemma get_tab2 {A} (d : A) n0 n1 fn i j : 0 <= i < n0 -> 0 <= j < n1 -> get d (tab2 n0 n1 fn) [i; j] = fn i j.
Proof.
  intros Hi Hj. unfold get, tab2. cbn [shape dat flat flat_aux].
  rewrite nth_map_seq by (apply Nat2Z.inj_lt; rewrite !Z2Nat.id; nia).
  cbv zeta. rewrite Z2Nat.id by nia.
  replace ((0 * n0 + i) * n1 + j) with (j + i * n1) by ring.
  rewrite Z.div_add by lia. rewrite Z.mod_add by lia.
  rewrite Z.div_small, Z.mod_small by lia. f_equal; lia.
Qed.
Lemma get_tab3 {A} (d : A) n0 n1 n2 fn i j k :
  0 <= i < n0 -> 0 <= j < n1 -> 0 <= k < n2 -> get d (tab3 n0 n1 n2 fn) [i; j; k] = fn i j k.
Proof.
  intros Hi Hj Hk. unfold get, tab3. cbn [shape dat flat flat_aux].
  assert (B1 : 0 <= i * n1 + j /\ i * n1 + j + 1 <= n0 * n1) by nia.
  assert (B2 : 0 <= (i * n1 + j) * n2 + k /\ (i * n1 + j) * n2 + k + 1 <= n0 * n1 * n2) by nia.
  replace (((0 * n0 + i) * n1 + j) * n2 + k) with ((i * n1 + j) * n2 + k) by ring.
  rewrite nth_map_seq by (apply Nat2Z.inj_lt; rewrite !Z2Nat.id; lia).
  cbv zeta. rewrite Z2Nat.id by lia.
  replace ((i * n1 + j) * n2 + k) with (k + (j + i * n1) * n2) by ring.
  rewrite Z.div_add by lia. rewrite Z.mod_add by lia.
  rewrite (Z.div_small k n2), (Z.mod_small k n2) by lia. rewrite Z.add_0_l.
  rewrite Z.div_add by lia. rewrite Z.mod_add by lia.
  rewrite Z.div_small, Z.mod_small by lia. f_equal; lia.
Qed.

(* the maps of the task statement *)
Definition mirror_x (nz nx : Z) (a : arr R) : arr R := tab2 nz nx (fun i j => get 0%R a [i; nx - 1 - j]).
Definition mirror_z (nz nx : Z) (a : arr R) : arr R := tab2 nz nx (fun i j => get 0%R a [nz - 1 - i; j]).
Definition transpose (nz nx : Z) (a : arr R) : arr R := tab2 nx nz (fun j i => get 0%R a [i; j]).
Definition mirror_sgn_x (nz nx : Z) (s : arr Z) : arr Z :=
  tab3 nz nx 2 (fun i j k => if k =? 1 then - get 0 s [i; nx - 1 - j; k] else get 0 s [i; nx - 1 - j; k]).
Definition mirror_sgn_z (nz nx : Z) (s : arr Z) : arr Z :=
  tab3 nz nx 2 (fun i j k => if k =? 0 then - get 0 s [nz - 1 - i; j; k] else get 0 s [nz - 1 - i; j; k]).
Definition transpose_sgn (nz nx : Z) (s : arr Z) : arr Z := tab3 nx nz 2 (fun j i k => get 0 s [i; j; 1 - k]).

Ltac arel_tab :=
  repeat match goal with
  | |- wf (tab2 _ _ _) => apply wf_tab2; lia
  | |- wf (tab3 _ _ _ _) => apply wf_tab3; lia
  | |- _ /\ _ => split
  | |- wf _ => assumption
  end.

Lemma mirror_x_rel nz nx a : wf a -> shape a = [nz; nx] -> RelTTx nz nx a (mirror_x nz nx a).
Proof.
  intros W S. assert (0 <= nz /\ 0 <= nx) as [? ?] by (destruct W as [_ F]; rewrite S in F; inversion F as [|? ? ? F']; inversion F'; auto).
  unfold RelTTx, arel, mirror_x. arel_tab.
  - intros ix (i & j & -> & Hi & Hj). split; [eapply inb2_true; eauto | ].
    unfold fmx. eapply inb2_true; [reflexivity | lia | lia].
  - intros ix (i & j & -> & Hi & Hj). unfold fmx, gid. rewrite get_tab2 by lia. f_equal. idx_eq.
Qed.
Lemma mirror_z_rel nz nx a : wf a -> shape a = [nz; nx] -> RelTTz nz nx a (mirror_z nz nx a).
Proof.
  intros W S. assert (0 <= nz /\ 0 <= nx) as [? ?] by (destruct W as [_ F]; rewrite S in F; inversion F as [|? ? ? F']; inversion F'; auto).
  unfold RelTTz, arel, mirror_z. arel_tab.
  - intros ix (i & j & -> & Hi & Hj). split; [eapply inb2_true; eauto | ].
    unfold fmz. eapply inb2_true; [reflexivity | lia | lia].
  - intros ix (i & j & -> & Hi & Hj). unfold fmz, gid. rewrite get_tab2 by lia. f_equal. idx_eq.
Qed.
Lemma transpose_rel nz nx a : wf a -> shape a = [nz; nx] -> RelTTt nz nx a (transpose nz nx a).
Proof.
  intros W S. assert (0 <= nz /\ 0 <= nx) as [? ?] by (destruct W as [_ F]; rewrite S in F; inversion F as [|? ? ? F']; inversion F'; auto).
  unfold RelTTt, arel, transpose. arel_tab.
  - intros ix (i & j & -> & Hi & Hj). split; [eapply inb2_true; eauto | ].
    unfold ftr. eapply inb2_true; [reflexivity | lia | lia].
  - intros ix (i & j & -> & Hi & Hj). unfold ftr, gid. rewrite get_tab2 by lia. reflexivity.
Qed.
(* the cells of the medium: one row / column less *)
Lemma mirror_x_slow_rel nz nx a : wf a -> shape a = [nz - 1; nx - 1] -> RelSLx nz nx a (mirror_x (nz - 1) (nx - 1) a).
Proof. apply mirror_x_rel. Qed.
Lemma mirror_z_slow_rel nz nx a : wf a -> shape a = [nz - 1; nx - 1] -> RelSLz nz nx a (mirror_z (nz - 1) (nx - 1) a).
Proof. apply mirror_z_rel. Qed.
Lemma transpose_slow_rel nz nx a : wf a -> shape a = [nz - 1; nx - 1] -> RelSLt nz nx a (transpose (nz - 1) (nx - 1) a).
Proof. apply transpose_rel. Qed.

Lemma shape3_nonneg {A} (s : arr A) n0 n1 n2 : wf s -> shape s = [n0; n1; n2] -> 0 <= n0 /\ 0 <= n1.
Proof. intros [_ F] S. rewrite S in F. inversion F as [|? ? ? F']; inversion F'; auto. Qed.

Lemma mirror_sgn_x_rel nz nx s : wf s -> shape s = [nz; nx; 2] -> RelSGx nz nx s (mirror_sgn_x nz nx s).
Proof.
  intros W S. destruct (shape3_nonneg s _ _ _ W S).
  unfold RelSGx, arel, mirror_sgn_x. arel_tab.
  - intros ix (i & j & k & -> & Hi & Hj & Hk). split; [eapply inb3_true; eauto | ].
    unfold fmx. eapply inb3_true; [reflexivity | lia | lia | lia].
  - intros ix (i & j & k & -> & Hi & Hj & Hk). unfold fmx, gneg. rewrite get_tab3 by lia.
    replace (nx - 1 - (nx - 1 - j)) with j by lia. reflexivity.
Qed.
Lemma mirror_sgn_z_rel nz nx s : wf s -> shape s = [nz; nx; 2] -> RelSGz nz nx s (mirror_sgn_z nz nx s).
Proof.
  intros W S. destruct (shape3_nonneg s _ _ _ W S).
  unfold RelSGz, arel, mirror_sgn_z. arel_tab.
  - intros ix (i & j & k & -> & Hi & Hj & Hk). split; [eapply inb3_true; eauto | ].
    unfold fmz. eapply inb3_true; [reflexivity | lia | lia | lia].
  - intros ix (i & j & k & -> & Hi & Hj & Hk). unfold fmz, gneg. rewrite get_tab3 by lia.
    replace (nz - 1 - (nz - 1 - i)) with i by lia. reflexivity.
Qed.
Lemma transpose_sgn_rel nz nx s : wf s -> shape s = [nz; nx; 2] -> RelSGt nz nx s (transpose_sgn nz nx s).
Proof.
  intros W S. destruct (shape3_nonneg s _ _ _ W S).
  unfold RelSGt, arel, transpose_sgn. arel_tab.
  - intros ix (i & j & k & -> & Hi & Hj & Hk). split; [eapply inb3_true; eauto | ].
    unfold ftr. eapply inb3_true; [reflexivity | lia | lia | lia].
  - intros ix (i & j & k & -> & Hi & Hj & Hk). unfold ftr, gid. rewrite get_tab3 by lia.
    replace (1 - (1 - k)) with k by lia. reflexivity.
Qed.

Lemma relSGx_get nz nx s s' i j j' k :
  RelSGx nz nx s s' -> 0 <= i < nz -> 0 <= j < nx -> 0 <= k < 2 -> j' = nx - 1 - j ->
  get 0 s' [i; j'; k] = if k =? 1 then - get 0 s [i; j; k] else get 0 s [i; j; k].
Proof. intros H Hi Hj Hk ->.
  exact (arel_get 0%Z _ _ _ s s' [i; j; k] _ H (dom3_intro _ _ _ _ _ Hi Hj Hk) eq_refl). Qed.
Lemma relSGz_get nz nx s s' i i' j k :
  RelSGz nz nx s s' -> 0 <= i < nz -> 0 <= j < nx -> 0 <= k < 2 -> i' = nz - 1 - i ->
  get 0 s' [i'; j; k] = if k =? 0 then - get 0 s [i; j; k] else get 0 s [i; j; k].
Proof. intros H Hi Hj Hk ->.
  exact (arel_get 0%Z _ _ _ s s' [i; j; k] _ H (dom3_intro _ _ _ _ _ Hi Hj Hk) eq_refl). Qed.
Lemma relSGt_get nz nx s s' i j k :
  RelSGt nz nx s s' -> 0 <= i < nz -> 0 <= j < nx -> 0 <= k < 2 ->
  get 0 s' [j; i; 1 - k] = get 0 s [i; j; k].
Proof. intros H Hi Hj Hk.
  exact (arel_get 0%Z _ _ _ s s' [i; j; k] _ H (dom3_intro _ _ _ _ _ Hi Hj Hk) eq_refl). Qed.

(* ---- (a) in explicit form: run WEST on the x-mirrored problem, read the result in the mirror ---- *)
Theorem west_is_mirror_of_east_explicit nz nx M M' (dx dz : R) grad slow (vzero xsa : R) xsi (zsa : R) zsi
    (dzu dzd dxe : R) td td' tt sg :
  wf slow -> shape slow = [nz - 1; nx - 1] -> wf tt -> shape tt = [nz; nx] ->
  (grad = true -> wf sg /\ shape sg = [nz; nx; 2]) ->
  wf td -> wf td' -> shape td = [M] -> shape td' = [M'] -> nx <= M -> nx <= M' ->
  0 <= zsi < nz - 1 -> 0 <= xsi < nx - 1 ->
  let r := east_phase dx dz grad nx slow vzero xsa xsi zsa zsi dzu dzd dxe (td, tt, sg) in
  let r' := west_phase dx dz grad (mirror_x (nz - 1) (nx - 1) slow) vzero (IZR (nx - 1) - xsa)%R (nx - 2 - xsi)
              zsa zsi dzu dzd dxe (td', mirror_x nz nx tt, mirror_sgn_x nz nx sg) in
  (forall i j, 0 <= i < nz -> 0 <= j < nx -> get 0%R (snd (fst r')) [i; j] = get 0%R (snd (fst r)) [i; nx - 1 - j]) /\
  (grad = true -> forall i j, 0 <= i < nz -> 0 <= j < nx ->
     get 0 (snd r') [i; j; 0] = get 0 (snd r) [i; nx - 1 - j; 0] /\
     get 0 (snd r') [i; j; 1] = - get 0 (snd r) [i; nx - 1 - j; 1]).
Proof.
  intros Wsl Ssl Wtt Stt Hsg W W' S S' HM HM' Hzsi Hxsi r r'.
  destruct (west_is_mirror_of_east nz nx M M' dx dz grad slow (mirror_x (nz - 1) (nx - 1) slow) vzero xsa
              (IZR (nx - 1) - xsa)%R xsi (nx - 2 - xsi) zsa zsi dzu dzd dxe td td' tt (mirror_x nz nx tt)
              sg (mirror_sgn_x nz nx sg)) as [HT HS]; auto.
  - apply mirror_x_slow_rel; assumption.
  - apply mirror_x_rel; assumption.
  - intros Hg. destruct (Hsg Hg). apply mirror_sgn_x_rel; assumption.
  - fold r r' in HT, HS. split.
    + intros i j Hi Hj. apply (relTTx_get nz nx _ _ i (nx - 1 - j) j HT); lia.
    + intros Hg i j Hi Hj. specialize (HS Hg). split.
      * rewrite (relSGx_get nz nx _ _ i (nx - 1 - j) j 0 HS) by lia. reflexivity.
      * rewrite (relSGx_get nz nx _ _ i (nx - 1 - j) j 1 HS) by lia. reflexivity.
Qed.

(* ---- (b) in explicit form: run DOWN on the transposed problem, read the result transposed ---- *)
Theorem down_is_transpose_of_east_explicit nz nx M M' (dx dz : R) grad slow (vzero xsa : R) xsi (zsa : R) zsi
    (dzu dzd dxe : R) td td' tt sg :
  wf slow -> shape slow = [nz - 1; nx - 1] -> wf tt -> shape tt = [nz; nx] ->
  (grad = true -> wf sg /\ shape sg = [nz; nx; 2]) ->
  wf td -> wf td' -> shape td = [M] -> shape td' = [M'] -> nx <= M -> nx <= M' ->
  0 <= zsi < nz - 1 -> 0 <= xsi < nx - 1 ->
  let r := east_phase dx dz grad nx slow vzero xsa xsi zsa zsi dzu dzd dxe (td, tt, sg) in
  let r' := down_phase dz dx grad nx (transpose (nz - 1) (nx - 1) slow) vzero zsa zsi xsa xsi dzu dzd dxe
              (td', transpose nz nx tt, transpose_sgn nz nx sg) in
  (forall i j, 0 <= i < nz -> 0 <= j < nx -> get 0%R (snd (fst r')) [j; i] = get 0%R (snd (fst r)) [i; j]) /\
  (grad = true -> forall i j, 0 <= i < nz -> 0 <= j < nx ->
     get 0 (snd r') [j; i; 1] = get 0 (snd r) [i; j; 0] /\
     get 0 (snd r') [j; i; 0] = get 0 (snd r) [i; j; 1]).
Proof.
  intros Wsl Ssl Wtt Stt Hsg W W' S S' HM HM' Hzsi Hxsi r r'.
  destruct (down_is_transpose_of_east nz nx M M' dx dz grad slow (transpose (nz - 1) (nx - 1) slow) vzero xsa
              xsi zsa zsi dzu dzd dxe td td' tt (transpose nz nx tt) sg (transpose_sgn nz nx sg)) as [HT HS]; auto.
  - apply transpose_slow_rel; assumption.
  - apply transpose_rel; assumption.
  - intros Hg. destruct (Hsg Hg). apply transpose_sgn_rel; assumption.
  - fold r r' in HT, HS. split.
    + intros i j Hi Hj. apply (relTTt_get nz nx _ _ i j HT); lia.
    + intros Hg i j Hi Hj. specialize (HS Hg). split.
      * exact (relSGt_get nz nx _ _ i j 0 HS Hi Hj ltac:(lia)).
      * exact (relSGt_get nz nx _ _ i j 1 HS Hi Hj ltac:(lia)).
Qed.

(* ---- (b') in explicit form ---- *)
Theorem up_is_transpose_of_west_explicit nz nx M M' (dx dz : R) grad slow (vzero xsa : R) xsi (zsa : R) zsi
    (dzu dzd dxw : R) td td' tt sg :
  wf slow -> shape slow = [nz - 1; nx - 1] -> wf tt -> shape tt = [nz; nx] ->
  (grad = true -> wf sg /\ shape sg = [nz; nx; 2]) ->
  wf td -> wf td' -> shape td = [M] -> shape td' = [M'] -> nx <= M -> nx <= M' ->
  0 <= zsi < nz - 1 -> 0 <= xsi < nx - 1 ->
  let r := west_phase dx dz grad slow vzero xsa xsi zsa zsi dzu dzd dxw (td, tt, sg) in
  let r' := up_phase dz dx grad (transpose (nz - 1) (nx - 1) slow) vzero zsa zsi xsa xsi dzu dzd dxw
              (td', transpose nz nx tt, transpose_sgn nz nx sg) in
  (forall i j, 0 <= i < nz -> 0 <= j < nx -> get 0%R (snd (fst r')) [j; i] = get 0%R (snd (fst r)) [i; j]) /\
  (grad = true -> forall i j, 0 <= i < nz -> 0 <= j < nx ->
     get 0 (snd r') [j; i; 1] = get 0 (snd r) [i; j; 0] /\
     get 0 (snd r') [j; i; 0] = get 0 (snd r) [i; j; 1]).
Proof.
  intros Wsl Ssl Wtt Stt Hsg W W' S S' HM HM' Hzsi Hxsi r r'.
  destruct (up_is_transpose_of_west nz nx M M' dx dz grad slow (transpose (nz - 1) (nx - 1) slow) vzero xsa
              xsi zsa zsi dzu dzd dxw td td' tt (transpose nz nx tt) sg (transpose_sgn nz nx sg)) as [HT HS]; auto.
  - apply transpose_slow_rel; assumption.
  - apply transpose_rel; assumption.
  - intros Hg. destruct (Hsg Hg). apply transpose_sgn_rel; assumption.
  - fold r r' in HT, HS. split.
    + intros i j Hi Hj. apply (relTTt_get nz nx _ _ i j HT); lia.
    + intros Hg i j Hi Hj. specialize (HS Hg). split.
      * exact (relSGt_get nz nx _ _ i j 0 HS Hi Hj ltac:(lia)).
      * exact (relSGt_get nz nx _ _ i j 1 HS Hi Hj ltac:(lia)).
Qed.

(* ---- (c) in explicit form: run UP on the z-mirrored problem ---- *)
Theorem up_is_mirror_of_down_explicit nz nx M M' (dx dz : R) grad slow (vzero xsa : R) xsi (zsa : R) zsi
    (dxw dxe dzd : R) td td' tt sg :
  wf slow -> shape slow = [nz - 1; nx - 1] -> wf tt -> shape tt = [nz; nx] ->
  (grad = true -> wf sg /\ shape sg = [nz; nx; 2]) ->
  wf td -> wf td' -> shape td = [M] -> shape td' = [M'] -> nz <= M -> nz <= M' ->
  0 <= zsi < nz - 1 -> 0 <= xsi < nx - 1 ->
  let r := down_phase dx dz grad nz slow vzero xsa xsi zsa zsi dxw dxe dzd (td, tt, sg) in
  let r' := up_phase dx dz grad (mirror_z (nz - 1) (nx - 1) slow) vzero xsa xsi (IZR (nz - 1) - zsa)%R (nz - 2 - zsi)
              dxw dxe dzd (td', mirror_z nz nx tt, mirror_sgn_z nz nx sg) in
  (forall i j, 0 <= i < nz -> 0 <= j < nx -> get 0%R (snd (fst r')) [i; j] = get 0%R (snd (fst r)) [nz - 1 - i; j]) /\
  (grad = true -> forall i j, 0 <= i < nz -> 0 <= j < nx ->
     get 0 (snd r') [i; j; 0] = - get 0 (snd r) [nz - 1 - i; j; 0] /\
     get 0 (snd r') [i; j; 1] = get 0 (snd r) [nz - 1 - i; j; 1]).
Proof.
  intros Wsl Ssl Wtt Stt Hsg W W' S S' HM HM' Hzsi Hxsi r r'.
  destruct (up_is_mirror_of_down nz nx M M' dx dz grad slow (mirror_z (nz - 1) (nx - 1) slow) vzero xsa xsi
              zsa (IZR (nz - 1) - zsa)%R zsi (nz - 2 - zsi) dxw dxe dzd td td' tt (mirror_z nz nx tt)
              sg (mirror_sgn_z nz nx sg)) as [HT HS]; auto.
  - apply mirror_z_slow_rel; assumption.
  - apply mirror_z_rel; assumption.
  - intros Hg. destruct (Hsg Hg). apply mirror_sgn_z_rel; assumption.
  - fold r r' in HT, HS. split.
    + intros i j Hi Hj. apply (relTTz_get nz nx _ _ (nz - 1 - i) i j HT); lia.
    + intros Hg i j Hi Hj. specialize (HS Hg). split.
      * rewrite (relSGz_get nz nx _ _ (nz - 1 - i) i j 0 HS) by lia. reflexivity.
      * rewrite (relSGz_get nz nx _ _ (nz - 1 - i) i j 1 HS) by lia. reflexivity.
Qed.

(* the fractional distances computed by fteik2d_p2 itself: on the mirrored problem dxw and dxe are exchanged as soon
   as the source lies in its cell, 0 <= xsa - xsi <= 1 *)
Lemma mirrored_dxw_is_dxe n (xsa : R) xsi :
  (0 <= xsa - IZR xsi <= 1)%R ->
  let xsa' := (IZR (n - 1) - xsa)%R in let xsi' := n - 2 - xsi in
  nabs (nsub xsa' (nofZ xsi')) = nsub (nofZ 1) (nabs (nsub xsa (nofZ xsi))) /\
  nsub (nofZ 1) (nabs (nsub xsa' (nofZ xsi'))) = nabs (nsub xsa (nofZ xsi)).
Proof.
  intros Hx xsa' xsi'. unfold xsa', xsi'. numR'. rewrite !minus_IZR.
  rewrite (Rabs_right (xsa - IZR xsi)) by lra.
  replace (IZR n - 1 - xsa - (IZR n - 2 - IZR xsi))%R with (1 - (xsa - IZR xsi))%R by ring.
  rewrite Rabs_right by lra. split; ring.
Qed.

(* ========================================================================================== *)
(* 9. non-vacuity                                                                               *)
(* ========================================================================================== *)
(* the hypotheses of the explicit theorems are satisfiable: a closed instance (4 x 4 nodes, source cell (1, 1)) *)
Example west_is_mirror_of_east_instance (dx dz vzero xsa zsa dzu dzd dxe : R) :
  let slow := full [3; 3] 1%R in let tt := full [4; 4] 0%R in let sg := full [4; 4; 2] 0 in
  let td := full [4] 0%R in
  let r := east_phase dx dz true 4 slow vzero xsa 1 zsa 1 dzu dzd dxe (td, tt, sg) in
  let r' := west_phase dx dz true (mirror_x 3 3 slow) vzero (IZR 3 - xsa)%R 1 zsa 1 dzu dzd dxe
              (td, mirror_x 4 4 tt, mirror_sgn_x 4 4 sg) in
  forall i j, 0 <= i < 4 -> 0 <= j < 4 -> get 0%R (snd (fst r')) [i; j] = get 0%R (snd (fst r)) [i; 3 - j].
Proof.
  intros slow tt sg td r r' i j Hi Hj.
  destruct (west_is_mirror_of_east_explicit 4 4 4 4 dx dz true slow vzero xsa 1 zsa 1 dzu dzd dxe td td tt sg)
    as [HT _]; try lia; try reflexivity;
    try (apply wf_full; repeat constructor; lia).
  - intros _. split; [apply wf_full; repeat constructor; lia | reflexivity].
  - exact (HT i j Hi Hj).
Qed.

(* the four loops do write: the generated function evaluated on the binary64 instance, heterogeneous medium,
   dz <> dx, source inside cell (1, 1) of a 4 x 4 grid.  East writes column 3, west column 0, down row 3, up row 0,
   each with its own pair of signs. *)
Module FloatExample.
Import PrimFloat.
Definition ex_slow : arr float := mkarr [3; 3] [1.0; 1.125; 1.25; 0.875; 1.0; 1.375; 1.125; 0.75; 1.0]%float.
Definition ex_run :=
  fteik2d_p2 (T := float) 2.0%float 1.0%float true 2 4 4 ex_slow (full [4; 4] Big) (full [4; 4; 2] 0%float)
    (full [4; 4; 2] 0) 1.0%float 1.25%float 1 1.375%float 1.
Example four_loops_write :
  let tt := fst (fst ex_run) in let sg := snd ex_run in
  map (fun ix => nltb (get 0%float tt ix) Big) [[1; 3]; [2; 3]; [1; 0]; [2; 0]; [3; 1]; [3; 2]; [0; 1]; [0; 2]]
    = [true; true; true; true; true; true; true; true] /\
  map (fun ix => (get 0 sg (ix ++ [0]), get 0 sg (ix ++ [1]))) [[1; 3]; [2; 3]; [1; 0]; [2; 0]; [3; 1]; [3; 2]; [0; 1]; [0; 2]]
    = [(-1, 1); (1, 1); (-1, -1); (1, -1); (1, -1); (1, 1); (-1, -1); (-1, 1)] /\
  (* and the corners of the grid, which no loop of the block touches, keep the fill value *)
  map (fun ix => nltb (get 0%float tt ix) Big) [[0; 0]; [0; 3]; [3; 0]; [3; 3]] = [false; false; false; false].
Proof. vm_compute. repeat split. Qed.
End FloatExample.

(* ========================================================================================== *)
Print Assumptions fteik2d_p2_decompose.
Print Assumptions west_is_mirror_of_east.
Print Assumptions down_is_transpose_of_east.
Print Assumptions up_is_transpose_of_west.
Print Assumptions up_is_mirror_of_down.
Print Assumptions west_is_mirror_of_east_explicit.
Print Assumptions down_is_transpose_of_east_explicit.
Print Assumptions up_is_transpose_of_west_explicit.
Print Assumptions up_is_mirror_of_down_explicit.
Print Assumptions FloatExample.four_loops_write.
