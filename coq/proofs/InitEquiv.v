(* C18 (whole initialisation)  The source-line initialisation of `fteik2d` (block `if iflag == 2:` of
   _fteik/_fteik2d.py, generated function `fteik2d_p2`) is equivariant under transposition and under the mirrors.

   InitSym.v shows that the four loops ("phases" east, west, down, up) are images of one another.  A transposed run
   executes the images of the original's down/up phases BEFORE the images of its east/west phases, a mirrored run
   executes the image of the west phase before the image of the east phase.  So the whole initialisation is
   equivariant only if the phases of one run commute.  They do:

   1. `Foot W Rd F`: the state transformer `F` (state = (td, tt, ttsgn)) changes the time / sign arrays only at the
      nodes `W` (frame), and its effect on any node set `S` containing `Rd` depends only on the time array on `S`
      (and, for the signs on `S'`, on the signs on `S'`) - in particular not on the scratch line `td`, which every
      phase seeds itself.  `Foot_comp`, `Foot_commute`.
   2. Footprints: one block (`cstep_foot`), the loop bodies, the loops, the four phases (`east_foot`, ...).
   3. `x_z_commute`: (east; west); (down; up) = (down; up); (east; west) on (tt, ttsgn); `east_west_commute`.
      The final content of `td` differs, and is irrelevant (it is dead after the block).
   4. Transposition of the whole block: `init_transpose_rel` (relational), `fteik2d_p2_transpose` (generated code,
      every `iflag`), `fteik2d_p2_transpose_explicit` (with the maps `transpose`, `transpose_sgn`, `transpose_grad`).
   5. x-mirror of the whole block.  Needs two pairings that InitSym does not have: the down / up phase of the
      x-mirrored problem is the x-mirror of the down / up phase (`down_mirror_x`, `up_mirror_x`); inside one
      iteration the two blocks (columns xsi+1, xsi) are exchanged, they commute (`Foot_commute` again).
      `fteik2d_p2_mirror_x`, `fteik2d_p2_mirror_x_explicit`.
   6. z-mirror = transposition o x-mirror o transposition: `fteik2d_p2_mirror_z_explicit`.
   7. Non-vacuity: closed instances over R, and the generated function on binary64.
*)
From Coq Require Import ZArith List Bool Lia Reals Lra Psatz.
From FT.lib Require Import Num Arr ArrLemmas.
From FT.gen Require Import Common Fteik2d.
From FT.proofs Require Import SafetyTools OperatorsR InitSym.
Import ListNotations.
Open Scope Z_scope.
Open Scope bool_scope.

Notation St := (arr R * arr R * arr Z)%type.
Definition tdo (s : St) : arr R := fst (fst s).
Definition tto (s : St) : arr R := snd (fst s).
Definition sgo (s : St) : arr Z := snd s.

Ltac inb_tac :=
  first [ eapply inb2_true; [eassumption | lia | lia]
        | eapply inb3_true; [eassumption | lia | lia | lia]
        | eapply inb1_true; [eassumption | lia] ].

Definition Cpl (W : Z -> Z -> Prop) : Z -> Z -> Prop := fun i j => ~ W i j.
Definition Top : Z -> Z -> Prop := fun _ _ => True.

(* ========================================================================================== *)
(* 1. footprints                                                                                *)
(* ========================================================================================== *)
Section Foot.
Variables (nz nx M : Z) (grad : bool).

Definition okD (td : arr R) : Prop := wf td /\ shape td = [M].
Definition okT (tt : arr R) : Prop := wf tt /\ shape tt = [nz; nx].
Definition okS (sg : arr Z) : Prop := wf sg /\ shape sg = [nz; nx; 2].
Definition good (s : St) : Prop := okD (tdo s) /\ okT (tto s) /\ (grad = true -> okS (sgo s)).

(* equality on a set of nodes *)
Definition eqT (S : Z -> Z -> Prop) (a b : arr R) : Prop :=
  forall i j, 0 <= i < nz -> 0 <= j < nx -> S i j -> get 0%R b [i; j] = get 0%R a [i; j].
Definition eqS (S : Z -> Z -> Prop) (a b : arr Z) : Prop :=
  forall i j k, 0 <= i < nz -> 0 <= j < nx -> 0 <= k < 2 -> S i j -> get 0 b [i; j; k] = get 0 a [i; j; k].
(* the scratch line is NOT compared *)
Definition agree (S S' : Z -> Z -> Prop) (s1 s2 : St) : Prop :=
  eqT S (tto s1) (tto s2) /\ (grad = true -> eqS S' (sgo s1) (sgo s2)).

Lemma agree_refl S S' s : agree S S' s s.
Proof. split; [|intros _]; repeat intro; reflexivity. Qed.
Lemma agree_same S S' s1 s2 : tto s1 = tto s2 -> sgo s1 = sgo s2 -> agree S S' s1 s2.
Proof. intros E1 E2. unfold agree. rewrite E1, E2. split; [|intros _]; repeat intro; reflexivity. Qed.
Lemma agree_sym S S' s1 s2 : agree S S' s1 s2 -> agree S S' s2 s1.
Proof. intros [A B]. split; [|intros Hg; specialize (B Hg)]; repeat intro; symmetry; auto. Qed.
Lemma agree_trans S S' s1 s2 s3 : agree S S' s1 s2 -> agree S S' s2 s3 -> agree S S' s1 s3.
Proof.
  intros [A B] [A' B']. split.
  - intros i j Hi Hj Hs. rewrite A', A; auto.
  - intros Hg i j k Hi Hj Hk Hs. rewrite (B' Hg), (B Hg); auto.
Qed.
Lemma agree_weaken (S1 S1' S2 S2' : Z -> Z -> Prop) s1 s2 :
  (forall i j, 0 <= i < nz -> 0 <= j < nx -> S2 i j -> S1 i j) ->
  (forall i j, 0 <= i < nz -> 0 <= j < nx -> S2' i j -> S1' i j) ->
  agree S1 S1' s1 s2 -> agree S2 S2' s1 s2.
Proof.
  intros H1 H2 [A B]. split.
  - intros i j Hi Hj Hs. apply A; auto.
  - intros Hg i j k Hi Hj Hk Hs. apply (B Hg); auto.
Qed.

(* `F` writes at most the nodes `W`; what it does on a node set containing `Rd` depends on that set only *)
Definition Foot (W Rd : Z -> Z -> Prop) (F : St -> St) : Prop :=
  (forall s, good s -> good (F s)) /\
  (forall s, good s -> agree (Cpl W) (Cpl W) s (F s)) /\
  (forall (S S' : Z -> Z -> Prop) s1 s2,
     (forall i j, 0 <= i < nz -> 0 <= j < nx -> Rd i j -> S i j) ->
     good s1 -> good s2 -> agree S S' s1 s2 -> agree S S' (F s1) (F s2)).

Lemma Foot_weaken (W Rd W' Rd' : Z -> Z -> Prop) F :
  (forall i j, 0 <= i < nz -> 0 <= j < nx -> W i j -> W' i j) ->
  (forall i j, 0 <= i < nz -> 0 <= j < nx -> Rd i j -> Rd' i j) ->
  Foot W Rd F -> Foot W' Rd' F.
Proof.
  intros HW HR (G & Fr & L). split; [exact G|]. split.
  - intros s Hs. eapply agree_weaken; [| |apply Fr, Hs]; intros i j Hi Hj N Y; apply N; auto.
  - intros S S' s1 s2 HS. apply L. intros i j Hi Hj Y. apply HS; auto.
Qed.

Lemma Foot_comp (W1 R1 W2 R2 : Z -> Z -> Prop) F G :
  Foot W1 R1 F -> Foot W2 R2 G ->
  Foot (fun i j => W1 i j \/ W2 i j) (fun i j => R1 i j \/ R2 i j) (fun s => G (F s)).
Proof.
  intros (G1 & F1 & L1) (G2 & F2 & L2). split; [auto|]. split.
  - intros s Hs. eapply agree_trans.
    + eapply agree_weaken; [| |apply F1, Hs]; intros i j Hi Hj N Y; apply N; auto.
    + eapply agree_weaken; [| |apply F2, G1, Hs]; intros i j Hi Hj N Y; apply N; auto.
  - intros S S' s1 s2 HS H1 H2 A. apply L2; [auto | auto | auto |]. apply L1; auto.
Qed.

Lemma Foot_ext W Rd F G : (forall s, F s = G s) -> Foot W Rd F -> Foot W Rd G.
Proof.
  intros E (G1 & F1 & L1). split; [|split].
  - intros s. rewrite <- E. apply G1.
  - intros s. rewrite <- E. apply F1.
  - intros S S' s1 s2. rewrite <- !E. apply L1.
Qed.

(* COMMUTATION: two transformers whose write sets are disjoint from each other's read sets commute on (tt, ttsgn) *)
Lemma Foot_commute (W1 R1 W2 R2 : Z -> Z -> Prop) F G :
  Foot W1 R1 F -> Foot W2 R2 G ->
  (forall i j, 0 <= i < nz -> 0 <= j < nx -> R1 i j -> ~ W2 i j) ->
  (forall i j, 0 <= i < nz -> 0 <= j < nx -> R2 i j -> ~ W1 i j) ->
  (forall i j, 0 <= i < nz -> 0 <= j < nx -> ~ W1 i j \/ ~ W2 i j) ->
  forall s, good s -> agree Top Top (G (F s)) (F (G s)).
Proof.
  intros (G1 & F1 & L1) (G2 & F2 & L2) D1 D2 Dd s Hs.
  pose proof (F1 s Hs) as [A1 B1]. pose proof (F2 s Hs) as [A2 B2].
  pose proof (F1 (G s) (G2 s Hs)) as [A1' B1']. pose proof (F2 (F s) (G1 s Hs)) as [A2' B2'].
  (* G after F versus G alone, on the complement of W1; F after G versus F alone, on the complement of W2 *)
  pose proof (L2 (Cpl W1) (Cpl W1) s (F s) D2 Hs (G1 s Hs) (conj A1 B1)) as [C2 E2].
  pose proof (L1 (Cpl W2) (Cpl W2) s (G s) D1 Hs (G2 s Hs) (conj A2 B2)) as [C1 E1].
  split.
  - intros i j Hi Hj _. destruct (Dd i j Hi Hj) as [N|N].
    + rewrite (A1' i j Hi Hj N). symmetry. apply C2; auto.
    + rewrite (A2' i j Hi Hj N). apply C1; auto.
  - intros Hg i j k Hi Hj Hk _. destruct (Dd i j Hi Hj) as [N|N].
    + rewrite (B1' Hg i j k Hi Hj Hk N). symmetry. apply (E2 Hg); auto.
    + rewrite (B2' Hg i j k Hi Hj Hk N). apply (E1 Hg); auto.
Qed.

(* ---------- elementary facts on `set` ---------- *)
Lemma okT_set tt i j v : okT tt -> okT (set tt [i; j] v).
Proof. intros [W S]. split; [apply wf_set, W | exact S]. Qed.
Lemma okS_set sg i j k v : okS sg -> okS (set sg [i; j; k] v).
Proof. intros [W S]. split; [apply wf_set, W | exact S]. Qed.
Lemma okD_set td j v : okD td -> okD (set td [j] v).
Proof. intros [W S]. split; [apply wf_set, W | exact S]. Qed.

Lemma eqT_set S a b i j v :
  okT a -> okT b -> 0 <= i < nz -> 0 <= j < nx -> eqT S a b -> eqT S (set a [i; j] v) (set b [i; j] v).
Proof.
  intros [Wa Sa] [Wb Sb] Hi Hj E p q Hp Hq Hs.
  destruct (list_eq_dec_Z [i; j] [p; q]) as [Eq|N].
  - injection Eq as <- <-. rewrite !get_set_same; auto; inb_tac.
  - rewrite !get_set_other by (first [exact N | inb_tac]). apply E; auto.
Qed.
Lemma eqS_set S a b i j k v :
  okS a -> okS b -> 0 <= i < nz -> 0 <= j < nx -> 0 <= k < 2 -> eqS S a b ->
  eqS S (set a [i; j; k] v) (set b [i; j; k] v).
Proof.
  intros [Wa Sa] [Wb Sb] Hi Hj Hk E p q r Hp Hq Hr Hs.
  destruct (list_eq_dec_Z [i; j; k] [p; q; r]) as [Eq|N].
  - injection Eq as <- <- <-. rewrite !get_set_same; auto; inb_tac.
  - rewrite !get_set_other by (first [exact N | inb_tac]). apply E; auto.
Qed.
Lemma eqT_set_out a i j v :
  okT a -> 0 <= i < nz -> 0 <= j < nx -> eqT (Cpl (fun p q => p = i /\ q = j)) a (set a [i; j] v).
Proof.
  intros [Wa Sa] Hi Hj p q Hp Hq N. apply get_set_other; try inb_tac.
  intros E. apply N. injection E as -> ->. auto.
Qed.
Lemma eqS_set_out a i j k v :
  okS a -> 0 <= i < nz -> 0 <= j < nx -> 0 <= k < 2 -> eqS (Cpl (fun p q => p = i /\ q = j)) a (set a [i; j; k] v).
Proof.
  intros [Wa Sa] Hi Hj Hk p q r Hp Hq Hr N. apply get_set_other; try inb_tac.
  intros E. apply N. injection E as -> -> _. auto.
Qed.

(* ---------- one block: a conditional update of one node ---------- *)
(* `c` the two nested conditions, `v` the new time *)
Definition upd_cell (c : bool) (v : R) (sgz sgx : Z) (a b : Z) (tt : arr R) (sg : arr Z) : arr R * arr Z :=
  if c then (set tt [a; b] v, if grad then set (set sg [a; b; 0] sgz) [a; b; 1] sgx else sg) else (tt, sg).

(* reads: the previous node (pa, pb), the node (a, b) itself and the real `t` (an entry of the scratch line) *)
Definition cstep (cf : R -> R -> R -> bool) (vf : R -> R -> R) (sgz sgx : Z) (pa pb a b : Z) (t : R) (s : St) : St :=
  let x := get 0%R (tto s) [pa; pb] in
  let y := get 0%R (tto s) [a; b] in
  let r := upd_cell (cf x y t) (vf x y) sgz sgx a b (tto s) (sgo s) in
  (tdo s, fst r, snd r).

Lemma cstep_foot cf vf sgz sgx pa pb a b t :
  0 <= a < nz -> 0 <= b < nx -> 0 <= pa < nz -> 0 <= pb < nx ->
  Foot (fun i j => i = a /\ j = b) (fun i j => (i = a /\ j = b) \/ (i = pa /\ j = pb))
       (cstep cf vf sgz sgx pa pb a b t).
Proof.
  intros Ha Hb Hpa Hpb. split; [|split].
  - intros [[td tt] sg] (Gd & Gt & Gs). unfold cstep, upd_cell, good, tdo, tto, sgo in *. cbn [fst snd] in *.
    destruct (cf _ _ _); cbn [fst snd]; [|auto].
    split; [exact Gd|]. split; [apply okT_set, Gt|].
    intros Hg. rewrite Hg. apply okS_set, okS_set, Gs, Hg.
  - intros [[td tt] sg] (Gd & Gt & Gs). unfold cstep, upd_cell, agree, tdo, tto, sgo in *. cbn [fst snd] in *.
    destruct (cf _ _ _); cbn [fst snd]; [|apply (agree_refl _ _ (td, tt, sg))].
    split; [apply eqT_set_out; auto|].
    intros Hg. rewrite Hg. specialize (Gs Hg).
    intros i j k Hi Hj Hk N.
    rewrite (eqS_set_out (set sg [a; b; 0] sgz) a b 1 sgx (okS_set _ _ _ _ _ Gs) Ha Hb ltac:(lia) i j k Hi Hj Hk N).
    apply (eqS_set_out sg a b 0 sgz Gs Ha Hb ltac:(lia) i j k Hi Hj Hk N).
  - intros S S' [[td1 tt1] sg1] [[td2 tt2] sg2] HS (Gd1 & Gt1 & Gs1) (Gd2 & Gt2 & Gs2) [A B].
    unfold cstep, upd_cell, agree, tdo, tto, sgo in *. cbn [fst snd] in *.
    rewrite (A pa pb Hpa Hpb (HS pa pb Hpa Hpb (or_intror (conj eq_refl eq_refl)))).
    rewrite (A a b Ha Hb (HS a b Ha Hb (or_introl (conj eq_refl eq_refl)))).
    destruct (cf _ _ _); cbn [fst snd]; [|split; assumption].
    split; [apply eqT_set; auto|].
    intros Hg. rewrite Hg. specialize (Gs1 Hg). specialize (Gs2 Hg). specialize (B Hg).
    apply eqS_set; auto; try lia; try (apply okS_set; assumption). apply eqS_set; auto; lia.
Qed.


Lemma tdo_cstep cf vf sgz sgx pa pb a b t s : tdo (cstep cf vf sgz sgx pa pb a b t s) = tdo s.
Proof. reflexivity. Qed.

(* ---------- one iteration of a source-line loop: advance the scratch line from entry `kp` to entry `k`, then two
   blocks whose coefficients depend on these two entries ---------- *)
Section LBody.
Variables (kp k : Z) (nv : R -> R) (C1 C2 : R -> R -> (R -> R -> R -> bool) * (R -> R -> R)).
Variables (s1z s1x s2z s2x p1a p1b a1 b1 p2a p2b a2 b2 : Z).

Definition lbody (s : St) : St :=
  let td' := set (tdo s) [k] (nv (get 0%R (tdo s) [kp])) in
  let tk := get 0%R td' [k] in
  let tp := get 0%R td' [kp] in
  cstep (fst (C2 tk tp)) (snd (C2 tk tp)) s2z s2x p2a p2b a2 b2 tk
    (cstep (fst (C1 tk tp)) (snd (C1 tk tp)) s1z s1x p1a p1b a1 b1 tk (td', tto s, sgo s)).

Hypothesis Hk : 0 <= k < M.
Hypothesis Hkp : 0 <= kp < M.
Hypothesis Hne : kp <> k.
Hypothesis H1 : 0 <= a1 < nz /\ 0 <= b1 < nx /\ 0 <= p1a < nz /\ 0 <= p1b < nx.
Hypothesis H2 : 0 <= a2 < nz /\ 0 <= b2 < nx /\ 0 <= p2a < nz /\ 0 <= p2b < nx.

Definition lW : Z -> Z -> Prop := fun i j => (i = a1 /\ j = b1) \/ (i = a2 /\ j = b2).
Definition lR : Z -> Z -> Prop :=
  fun i j => ((i = a1 /\ j = b1) \/ (i = p1a /\ j = p1b)) \/ ((i = a2 /\ j = b2) \/ (i = p2a /\ j = p2b)).

Lemma two_foot (t u : R) :
  Foot lW lR (fun s => cstep (fst (C2 t u)) (snd (C2 t u)) s2z s2x p2a p2b a2 b2 t
                         (cstep (fst (C1 t u)) (snd (C1 t u)) s1z s1x p1a p1b a1 b1 t s)).
Proof.
  destruct H1 as (? & ? & ? & ?), H2 as (? & ? & ? & ?).
  apply (Foot_comp _ _ _ _ (cstep (fst (C1 t u)) (snd (C1 t u)) s1z s1x p1a p1b a1 b1 t)
           (cstep (fst (C2 t u)) (snd (C2 t u)) s2z s2x p2a p2b a2 b2 t)); apply cstep_foot; assumption.
Qed.

Lemma good_seed s j v : good s -> good (set (tdo s) [j] v, tto s, sgo s).
Proof. intros (Gd & Gt & Gs). split; [apply okD_set, Gd|]. split; assumption. Qed.

Lemma lbody_good s : good s -> good (lbody s).
Proof.
  intros Hs. unfold lbody. cbv zeta.
  match goal with |- good (cstep _ _ _ _ _ _ _ _ ?t (cstep _ _ _ _ _ _ _ _ _ ?s0)) =>
    match goal with |- context [C1 _ ?u] => destruct (two_foot t u) as (G & _ & _); apply (G s0) end end.
  apply good_seed, Hs.
Qed.

Lemma lbody_frame s : good s -> agree (Cpl lW) (Cpl lW) s (lbody s).
Proof.
  intros Hs. unfold lbody. cbv zeta.
  match goal with |- agree _ _ _ (cstep _ _ _ _ _ _ _ _ ?t (cstep _ _ _ _ _ _ _ _ _ ?s0)) =>
    match goal with |- context [C1 _ ?u] => destruct (two_foot t u) as (_ & Fr & _); apply (Fr s0) end end.
  apply good_seed, Hs.
Qed.

Lemma lbody_local (S S' : Z -> Z -> Prop) s s' :
  (forall i j, 0 <= i < nz -> 0 <= j < nx -> lR i j -> S i j) ->
  good s -> good s' -> get 0%R (tdo s') [kp] = get 0%R (tdo s) [kp] -> agree S S' s s' ->
  agree S S' (lbody s) (lbody s') /\ get 0%R (tdo (lbody s')) [k] = get 0%R (tdo (lbody s)) [k].
Proof.
  intros HS Hs Hs' Htd A.
  pose proof Hs as ((Wd & Sd) & _). pose proof Hs' as ((Wd' & Sd') & _).
  unfold lbody. cbv zeta. rewrite !tdo_cstep. cbn [tdo fst snd].
  fold (tdo s) (tdo s'). rewrite Htd.
  set (v := nv (get 0%R (tdo s) [kp])).
  rewrite (get1_set_same (tdo s) M k v Wd Sd Hk), (get1_set_same (tdo s') M k v Wd' Sd' Hk).
  rewrite (get1_set_other (tdo s) M k kp v Sd Hk Hkp ltac:(lia)).
  rewrite (get1_set_other (tdo s') M k kp v Sd' Hk Hkp ltac:(lia)). rewrite Htd.
  split; [|reflexivity].
  destruct (two_foot v (get 0%R (tdo s) [kp])) as (_ & _ & L).
  apply (L S S' (set (tdo s) [k] v, tto s, sgo s) (set (tdo s') [k] v, tto s', sgo s') HS);
    [apply good_seed, Hs | apply good_seed, Hs' | exact A].
Qed.
End LBody.

(* ---------- a loop of such iterations; `jp k` is the scratch-line entry read by iteration `k` ---------- *)
Fixpoint chain (jp : Z -> Z) (p : Z) (l : list Z) : Prop :=
  match l with [] => True | k :: l' => jp k = p /\ chain jp k l' end.

Section Loop.
Variables (body : Z -> St -> St) (jp : Z -> Z) (Wk Rk : Z -> Z -> Z -> Prop) (P : Z -> Prop).
Hypothesis body_good : forall k s, P k -> good s -> good (body k s).
Hypothesis body_frame : forall k s, P k -> good s -> agree (Cpl (Wk k)) (Cpl (Wk k)) s (body k s).
Hypothesis body_local : forall k (S S' : Z -> Z -> Prop) s s', P k ->
  (forall i j, 0 <= i < nz -> 0 <= j < nx -> Rk k i j -> S i j) ->
  good s -> good s' -> get 0%R (tdo s') [jp k] = get 0%R (tdo s) [jp k] -> agree S S' s s' ->
  agree S S' (body k s) (body k s') /\ get 0%R (tdo (body k s')) [k] = get 0%R (tdo (body k s)) [k].

Lemma loop_good l : forall s, (forall k, In k l -> P k) -> good s -> good (for_list l body s).
Proof.
  induction l as [|k l IH]; intros s HP Hs; [exact Hs|]. rewrite for_list_cons.
  apply IH; [intros q Hq; apply HP; right; exact Hq | apply body_good; [apply HP; left; reflexivity | exact Hs]].
Qed.

Lemma loop_frame l : forall s, (forall k, In k l -> P k) -> good s ->
  agree (Cpl (fun i j => exists k, In k l /\ Wk k i j)) (Cpl (fun i j => exists k, In k l /\ Wk k i j)) s (for_list l body s).
Proof.
  induction l as [|k l IH]; intros s HP Hs; [apply agree_refl|]. rewrite for_list_cons.
  assert (Pk : P k) by (apply HP; left; reflexivity).
  eapply agree_trans.
  - eapply agree_weaken; [| |apply (body_frame k s Pk Hs)];
      intros i j Hi Hj N Y; apply N; exists k; (split; [left; reflexivity | exact Y]).
  - eapply agree_weaken; [| |apply (IH (body k s) (fun q Hq => HP q (or_intror Hq)) (body_good k s Pk Hs))];
      intros i j Hi Hj N (q & Hq & Y); apply N; exists q; (split; [right; exact Hq | exact Y]).
Qed.

Lemma loop_local (S S' : Z -> Z -> Prop) l : forall p s s',
  chain jp p l -> (forall k, In k l -> P k) ->
  (forall k i j, In k l -> 0 <= i < nz -> 0 <= j < nx -> Rk k i j -> S i j) ->
  good s -> good s' -> get 0%R (tdo s') [p] = get 0%R (tdo s) [p] -> agree S S' s s' ->
  agree S S' (for_list l body s) (for_list l body s').
Proof.
  induction l as [|k l IH]; intros p s s' Hc HP HS Hs Hs' Htd A; [exact A|]. rewrite !for_list_cons.
  destruct Hc as [Ep Hc]. assert (Pk : P k) by (apply HP; left; reflexivity).
  rewrite <- Ep in Htd.
  destruct (body_local k S S' s s' Pk (fun i j Hi Hj Y => HS k i j (or_introl eq_refl) Hi Hj Y) Hs Hs' Htd A) as [A' Htd'].
  apply (IH k (body k s) (body k s') Hc (fun q Hq => HP q (or_intror Hq))
           (fun q i j Hq => HS q i j (or_intror Hq)) (body_good k s Pk Hs) (body_good k s' Pk Hs') Htd' A').
Qed.

(* a phase: seed entry `p0` of the scratch line, then loop *)
Lemma phase_foot l p0 (c : R) :
  0 <= p0 < M -> chain jp p0 l -> (forall k, In k l -> P k) ->
  Foot (fun i j => exists k, In k l /\ Wk k i j) (fun i j => exists k, In k l /\ Rk k i j)
       (fun s => for_list l body (set (tdo s) [p0] c, tto s, sgo s)).
Proof.
  intros Hp Hc HP. split; [|split].
  - intros s Hs. apply loop_good; [exact HP | apply good_seed, Hs].
  - intros s Hs. apply (loop_frame l (set (tdo s) [p0] c, tto s, sgo s) HP (good_seed s p0 c Hs)).
  - intros S S' s s' HS Hs Hs' A.
    apply (loop_local S S' l p0 (set (tdo s) [p0] c, tto s, sgo s) (set (tdo s') [p0] c, tto s', sgo s') Hc HP);
      [intros q i j Hq Hi Hj Y; apply HS; auto; exists q; auto | apply good_seed, Hs | apply good_seed, Hs' | | exact A].
    destruct Hs as ((Wd & Sd) & _), Hs' as ((Wd' & Sd') & _). cbn [tdo fst].
    rewrite (get1_set_same _ M p0 c Wd Sd Hp), (get1_set_same _ M p0 c Wd' Sd' Hp). reflexivity.
Qed.
End Loop.

End Foot.

(* ========================================================================================== *)
(* 2. the blocks, the loop bodies, the loops and the phases of fteik2d_p2 have footprints         *)
(* ========================================================================================== *)
(* the time a block computes (x = tt[previous node], y = tt[node]) and its two nested conditions (t = td[line index]) *)
Definition tnx (dx dz vzero xsa zsa dxi dx2i : R) (row : Z) (dzw : R) (sgz sgx jp j : Z) (vref tauv tauev x y : R) : R :=
  let dzi := ndiv (nofZ 1) (nmul dzw dz) in
  let dz2i := ndiv dzi (nmul dzw dz) in
  let taue := nsub x (t_ana row jp dz dx zsa xsa vzero) in
  let u := t_anad row j dz dx zsa xsa vzero in
  delta y tauv taue tauev (fst (fst u)) (snd (fst u)) (snd u) dzi dxi dz2i dx2i vzero vref sgz sgx.
Definition cfx (dx dz vzero xsa zsa dxi dx2i : R) (row : Z) (dzw : R) (sgz sgx jp j : Z) (vref tauv tauev x y t : R) : bool :=
  (ngtb dzw (nofZ 0) && nltb x Big) &&
  (ngeb (tnx dx dz vzero xsa zsa dxi dx2i row dzw sgz sgx jp j vref tauv tauev x y) x &&
   ngeb (tnx dx dz vzero xsa zsa dxi dx2i row dzw sgz sgx jp j vref tauv tauev x y) t).
Definition tnz (dx dz vzero xsa zsa dzi dz2i : R) (col : Z) (dxw : R) (sgz sgx ip i : Z) (vref taue tauev x y : R) : R :=
  let dxi := ndiv (nofZ 1) (nmul dxw dx) in
  let dx2i := ndiv dxi (nmul dxw dx) in
  let tauv := nsub x (t_ana ip col dz dx zsa xsa vzero) in
  let u := t_anad i col dz dx zsa xsa vzero in
  delta y tauv taue tauev (fst (fst u)) (snd (fst u)) (snd u) dzi dxi dz2i dx2i vzero vref sgz sgx.
Definition cfz (dx dz vzero xsa zsa dzi dz2i : R) (col : Z) (dxw : R) (sgz sgx ip i : Z) (vref taue tauev x y t : R) : bool :=
  (ngtb dxw (nofZ 0) && nltb x Big) &&
  (ngeb (tnz dx dz vzero xsa zsa dzi dz2i col dxw sgz sgx ip i vref taue tauev x y) x &&
   ngeb (tnz dx dz vzero xsa zsa dzi dz2i col dxw sgz sgx ip i vref taue tauev x y) t).

Lemma blk_x_upd (dx dz : R) grad (vzero xsa zsa dxi dx2i : R) row (dzw : R) sgz sgx jp j (vref tauv tauev : R) td tt sg :
  blk_x dx dz grad vzero xsa zsa dxi dx2i row dzw sgz sgx jp j vref tauv tauev td tt sg =
  upd_cell grad
    (cfx dx dz vzero xsa zsa dxi dx2i row dzw sgz sgx jp j vref tauv tauev
         (get 0%R tt [row; jp]) (get 0%R tt [row; j]) (get 0%R td [j]))
    (tnx dx dz vzero xsa zsa dxi dx2i row dzw sgz sgx jp j vref tauv tauev (get 0%R tt [row; jp]) (get 0%R tt [row; j]))
    sgz sgx row j tt sg.
Proof.
  unfold blk_x, upd_cell, cfx, tnx. cbv zeta. change (@nofZ R NumR 0) with 0%R.
  destruct (ngtb dzw 0%R && nltb (get 0%R tt [row; jp]) Big); [|reflexivity].
  cbn [andb]. match goal with |- context [if ?g then _ else _] => destruct g end; reflexivity.
Qed.
Lemma blk_z_upd (dx dz : R) grad (vzero xsa zsa dzi dz2i : R) col (dxw : R) sgz sgx ip i (vref taue tauev : R) td tt sg :
  blk_z dx dz grad vzero xsa zsa dzi dz2i col dxw sgz sgx ip i vref taue tauev td tt sg =
  upd_cell grad
    (cfz dx dz vzero xsa zsa dzi dz2i col dxw sgz sgx ip i vref taue tauev
         (get 0%R tt [ip; col]) (get 0%R tt [i; col]) (get 0%R td [i]))
    (tnz dx dz vzero xsa zsa dzi dz2i col dxw sgz sgx ip i vref taue tauev (get 0%R tt [ip; col]) (get 0%R tt [i; col]))
    sgz sgx i col tt sg.
Proof.
  unfold blk_z, upd_cell, cfz, tnz. cbv zeta. change (@nofZ R NumR 0) with 0%R.
  destruct (ngtb dxw 0%R && nltb (get 0%R tt [ip; col]) Big); [|reflexivity].
  cbn [andb]. match goal with |- context [if ?g then _ else _] => destruct g end; reflexivity.
Qed.

(* the bodies of the two x-loops / of the two z-loops as instances of one text: `jp` the previous index,
   `vc` / `vr` the index of the cell of the medium, `adj` the "+ 1" / "- 1" in tauev, `sgx` / `sgz` the sign *)
Definition xbody (jp vc : Z -> Z) (adj : R -> R) (sgx : Z) (dx dz : R) (grad : bool) (slow : arr R) (vzero xsa zsa : R)
    (zsi : Z) (dzu dzd dxi dx2i : R) (j : Z) (u_s_v : St) : St :=
let td := (fst (fst u_s_v)) in
let tt_v := (snd (fst u_s_v)) in
let ttsgn := (snd u_s_v) in
let vref := (get (nofZ 0) slow [zsi; vc j]) in
let td := (set td [j] (nadd (get (nofZ 0) td [jp j]) (nmul dx vref))) in
let tauv := (nsub (get (nofZ 0) td [j]) (nmul (nmul vzero (nabs (nsub (nofZ j) xsa))) dx)) in
let tauev := (nsub (get (nofZ 0) td [jp j]) (nmul (nmul vzero (nabs (adj (nsub (nofZ j) xsa)))) dx)) in
let u_j_v : ((arr R) * (arr Z)) :=
  blk_x dx dz grad vzero xsa zsa dxi dx2i (zsi + 1) dzd 1 sgx (jp j) j vref tauv tauev td tt_v ttsgn in
let tt_v := (fst u_j_v) in
let ttsgn := (snd u_j_v) in
let u_j_v : ((arr R) * (arr Z)) :=
  blk_x dx dz grad vzero xsa zsa dxi dx2i zsi dzu (-1) sgx (jp j) j vref tauv tauev td tt_v ttsgn in
let tt_v := (fst u_j_v) in
let ttsgn := (snd u_j_v) in
(td, tt_v, ttsgn).

Definition zbody (ip vr : Z -> Z) (adj : R -> R) (sgz : Z) (dx dz : R) (grad : bool) (slow : arr R) (vzero xsa zsa : R)
    (xsi : Z) (dxw dxe dzi dz2i : R) (i : Z) (u_s_v : St) : St :=
let td := (fst (fst u_s_v)) in
let tt_v := (snd (fst u_s_v)) in
let ttsgn := (snd u_s_v) in
let vref := (get (nofZ 0) slow [vr i; xsi]) in
let td := (set td [i] (nadd (get (nofZ 0) td [ip i]) (nmul dz vref))) in
let taue := (nsub (get (nofZ 0) td [i]) (nmul (nmul vzero (nabs (nsub (nofZ i) zsa))) dz)) in
let tauev := (nsub (get (nofZ 0) td [ip i]) (nmul (nmul vzero (nabs (adj (nsub (nofZ i) zsa)))) dz)) in
let u_j_v : ((arr R) * (arr Z)) :=
  blk_z dx dz grad vzero xsa zsa dzi dz2i (xsi + 1) dxe sgz 1 (ip i) i vref taue tauev td tt_v ttsgn in
let tt_v := (fst u_j_v) in
let ttsgn := (snd u_j_v) in
let u_j_v : ((arr R) * (arr Z)) :=
  blk_z dx dz grad vzero xsa zsa dzi dz2i xsi dxw sgz (-1) (ip i) i vref taue tauev td tt_v ttsgn in
let tt_v := (fst u_j_v) in
let ttsgn := (snd u_j_v) in
(td, tt_v, ttsgn).

Definition adjm : R -> R := fun x => nsub x (nofZ 1).
Definition adjp : R -> R := fun x => nadd x (nofZ 1).

Lemma east_body_x (dx dz : R) grad slow (vzero xsa zsa : R) zsi (dzu dzd dxi dx2i : R) :
  east_body dx dz grad slow vzero xsa zsa zsi dzu dzd dxi dx2i =
  xbody (fun j => j - 1) (fun j => j - 1) adjm 1 dx dz grad slow vzero xsa zsa zsi dzu dzd dxi dx2i.
Proof. reflexivity. Qed.
Lemma west_body_x (dx dz : R) grad slow (vzero xsa zsa : R) zsi (dzu dzd dxi dx2i : R) :
  west_body dx dz grad slow vzero xsa zsa zsi dzu dzd dxi dx2i =
  xbody (fun j => j + 1) (fun j => j) adjp (-1) dx dz grad slow vzero xsa zsa zsi dzu dzd dxi dx2i.
Proof. reflexivity. Qed.
Lemma down_body_z (dx dz : R) grad slow (vzero xsa zsa : R) xsi (dxw dxe dzi dz2i : R) :
  down_body dx dz grad slow vzero xsa zsa xsi dxw dxe dzi dz2i =
  zbody (fun i => i - 1) (fun i => i - 1) adjm 1 dx dz grad slow vzero xsa zsa xsi dxw dxe dzi dz2i.
Proof. reflexivity. Qed.
Lemma up_body_z (dx dz : R) grad slow (vzero xsa zsa : R) xsi (dxw dxe dzi dz2i : R) :
  up_body dx dz grad slow vzero xsa zsa xsi dxw dxe dzi dz2i =
  zbody (fun i => i + 1) (fun i => i) adjp (-1) dx dz grad slow vzero xsa zsa xsi dxw dxe dzi dz2i.
Proof. reflexivity. Qed.

(* both are `lbody`s *)
Lemma xbody_l jp vc adj sgx (dx dz : R) grad slow (vzero xsa zsa : R) zsi (dzu dzd dxi dx2i : R) j s :
  xbody jp vc adj sgx dx dz grad slow vzero xsa zsa zsi dzu dzd dxi dx2i j s =
  let vref := get 0%R slow [zsi; vc j] in
  let tauv := fun tk : R => nsub tk (nmul (nmul vzero (nabs (nsub (nofZ j) xsa))) dx) in
  let tauev := fun tp : R => nsub tp (nmul (nmul vzero (nabs (adj (nsub (nofZ j) xsa)))) dx) in
  lbody grad (jp j) j (fun t => nadd t (nmul dx vref))
    (fun tk tp => (cfx dx dz vzero xsa zsa dxi dx2i (zsi + 1) dzd 1 sgx (jp j) j vref (tauv tk) (tauev tp),
                   tnx dx dz vzero xsa zsa dxi dx2i (zsi + 1) dzd 1 sgx (jp j) j vref (tauv tk) (tauev tp)))
    (fun tk tp => (cfx dx dz vzero xsa zsa dxi dx2i zsi dzu (-1) sgx (jp j) j vref (tauv tk) (tauev tp),
                   tnx dx dz vzero xsa zsa dxi dx2i zsi dzu (-1) sgx (jp j) j vref (tauv tk) (tauev tp)))
    1 sgx (-1) sgx (zsi + 1) (jp j) (zsi + 1) j zsi (jp j) zsi j s.
Proof.
  destruct s as [[td tt] sg]. unfold xbody, lbody, cstep. cbv beta zeta. cbn [fst snd tdo tto sgo].
  rewrite !blk_x_upd. reflexivity.
Qed.
Lemma zbody_l ip vr adj sgz (dx dz : R) grad slow (vzero xsa zsa : R) xsi (dxw dxe dzi dz2i : R) i s :
  zbody ip vr adj sgz dx dz grad slow vzero xsa zsa xsi dxw dxe dzi dz2i i s =
  let vref := get 0%R slow [vr i; xsi] in
  let taue := fun tk : R => nsub tk (nmul (nmul vzero (nabs (nsub (nofZ i) zsa))) dz) in
  let tauev := fun tp : R => nsub tp (nmul (nmul vzero (nabs (adj (nsub (nofZ i) zsa)))) dz) in
  lbody grad (ip i) i (fun t => nadd t (nmul dz vref))
    (fun tk tp => (cfz dx dz vzero xsa zsa dzi dz2i (xsi + 1) dxe sgz 1 (ip i) i vref (taue tk) (tauev tp),
                   tnz dx dz vzero xsa zsa dzi dz2i (xsi + 1) dxe sgz 1 (ip i) i vref (taue tk) (tauev tp)))
    (fun tk tp => (cfz dx dz vzero xsa zsa dzi dz2i xsi dxw sgz (-1) (ip i) i vref (taue tk) (tauev tp),
                   tnz dx dz vzero xsa zsa dzi dz2i xsi dxw sgz (-1) (ip i) i vref (taue tk) (tauev tp)))
    sgz 1 sgz (-1) (ip i) (xsi + 1) i (xsi + 1) (ip i) xsi i xsi s.
Proof.
  destruct s as [[td tt] sg]. unfold zbody, lbody, cstep. cbv beta zeta. cbn [fst snd tdo tto sgo].
  rewrite !blk_z_upd. reflexivity.
Qed.

Lemma chain_up a n : chain (fun j => j - 1) (a - 1) (upto a n).
Proof.
  revert a. induction n as [|n IH]; intros a; [exact I|]. rewrite upto_S. split; [reflexivity|].
  replace a with (a + 1 - 1) at 1 by lia. apply IH.
Qed.
Lemma chain_down c b n : chain (fun j => j + 1) (c - b + 1) (map (fun i => c - i) (upto b n)).
Proof.
  revert b. induction n as [|n IH]; intros b; [exact I|]. rewrite upto_S. cbn [map]. split; [reflexivity|].
  replace (c - b) with (c - (b + 1) + 1) at 1 by lia. apply IH.
Qed.
Lemma chain_pyrange_up a b : chain (fun j => j - 1) (a - 1) (pyrange a b 1).
Proof. rewrite pyrange_up. apply chain_up. Qed.
Lemma chain_pyrange_down a : chain (fun j => j + 1) (a + 1) (pyrange a (-1) (-1)).
Proof. rewrite (pyrange_down a a). replace (a + 1) with (a - (a - a) + 1) by lia. apply chain_down. Qed.

Section Phases.
Variables (nz nx M : Z) (grad : bool).
Variables (dx dz : R) (slow : arr R) (vzero xsa zsa : R) (zsi xsi : Z).
Hypothesis HM : nx <= M /\ nz <= M.
Hypothesis Hzsi : 0 <= zsi < nz - 1.
Hypothesis Hxsi : 0 <= xsi < nx - 1.

Notation Foot := (Foot nz nx M grad).
Notation good := (good nz nx M grad).
Notation agree := (agree nz nx grad).

Definition OnR (i : Z) : Prop := i = zsi + 1 \/ i = zsi.
Definition OnC (j : Z) : Prop := j = xsi + 1 \/ j = xsi.

(* a generic x-phase / z-phase *)
Lemma xphase_foot jp vc adj sgx (dzu dzd dxi dx2i : R) l p0 (c : R) :
  0 <= p0 < nx -> chain jp p0 l -> (forall k, In k l -> 0 <= k < nx /\ 0 <= jp k < nx /\ jp k <> k) ->
  Foot (fun i j => exists k, In k l /\ OnR i /\ j = k)
       (fun i j => exists k, In k l /\ OnR i /\ (j = k \/ j = jp k))
       (fun s => for_list l (xbody jp vc adj sgx dx dz grad slow vzero xsa zsa zsi dzu dzd dxi dx2i)
                   (set (tdo s) [p0] c, tto s, sgo s)).
Proof.
  intros Hp Hc HP.
  eapply Foot_weaken;
    [| |apply (phase_foot nz nx M grad (xbody jp vc adj sgx dx dz grad slow vzero xsa zsa zsi dzu dzd dxi dx2i) jp
                 (fun k => lW (zsi + 1) k zsi k) (fun k => lR (zsi + 1) (jp k) (zsi + 1) k zsi (jp k) zsi k)
                 (fun k => 0 <= k < nx /\ 0 <= jp k < nx /\ jp k <> k))].
  - intros i j _ _ (k & Hk & Y). exists k. split; [exact Hk|]. unfold lW, OnR in *. lia.
  - intros i j _ _ (k & Hk & Y). exists k. split; [exact Hk|]. unfold lR, OnR in *. lia.
  - intros k s (K1 & K2 & K3) Hs. rewrite xbody_l. cbv zeta. apply lbody_good; auto; lia.
  - intros k s (K1 & K2 & K3) Hs. rewrite xbody_l. cbv zeta. apply (lbody_frame nz nx M); auto; lia.
  - intros k S S' s s' (K1 & K2 & K3) HS Hs Hs' Htd A. rewrite !xbody_l. cbv zeta.
    apply (lbody_local nz nx M); auto; lia.
  - lia.
  - exact Hc.
  - exact HP.
Qed.

Lemma zphase_foot ip vr adj sgz (dxw dxe dzi dz2i : R) l p0 (c : R) :
  0 <= p0 < nz -> chain ip p0 l -> (forall k, In k l -> 0 <= k < nz /\ 0 <= ip k < nz /\ ip k <> k) ->
  Foot (fun i j => exists k, In k l /\ OnC j /\ i = k)
       (fun i j => exists k, In k l /\ OnC j /\ (i = k \/ i = ip k))
       (fun s => for_list l (zbody ip vr adj sgz dx dz grad slow vzero xsa zsa xsi dxw dxe dzi dz2i)
                   (set (tdo s) [p0] c, tto s, sgo s)).
Proof.
  intros Hp Hc HP.
  eapply Foot_weaken;
    [| |apply (phase_foot nz nx M grad (zbody ip vr adj sgz dx dz grad slow vzero xsa zsa xsi dxw dxe dzi dz2i) ip
                 (fun k => lW k (xsi + 1) k xsi) (fun k => lR (ip k) (xsi + 1) k (xsi + 1) (ip k) xsi k xsi)
                 (fun k => 0 <= k < nz /\ 0 <= ip k < nz /\ ip k <> k))].
  - intros i j _ _ (k & Hk & Y). exists k. split; [exact Hk|]. unfold lW, OnC in *. lia.
  - intros i j _ _ (k & Hk & Y). exists k. split; [exact Hk|]. unfold lR, OnC in *. lia.
  - intros k s (K1 & K2 & K3) Hs. rewrite zbody_l. cbv zeta. apply lbody_good; auto; lia.
  - intros k s (K1 & K2 & K3) Hs. rewrite zbody_l. cbv zeta. apply (lbody_frame nz nx M); auto; lia.
  - intros k S S' s s' (K1 & K2 & K3) HS Hs Hs' Htd A. rewrite !zbody_l. cbv zeta.
    apply (lbody_local nz nx M); auto; lia.
  - lia.
  - exact Hc.
  - exact HP.
Qed.

(* (i) THE FOOTPRINTS OF THE FOUR PHASES.  First set: the nodes a phase may write.  Second set: the nodes on which
   its result depends (the two corner nodes of its side and the nodes it writes).  Neither the scratch line on entry
   nor any other node matters. *)
Definition WE : Z -> Z -> Prop := fun i j => OnR i /\ xsi + 2 <= j.
Definition RE : Z -> Z -> Prop := fun i j => OnR i /\ xsi + 1 <= j.
Definition WW : Z -> Z -> Prop := fun i j => OnR i /\ j <= xsi - 1.
Definition RW : Z -> Z -> Prop := fun i j => OnR i /\ j <= xsi.
Definition WD : Z -> Z -> Prop := fun i j => OnC j /\ zsi + 2 <= i.
Definition RD : Z -> Z -> Prop := fun i j => OnC j /\ zsi + 1 <= i.
Definition WU : Z -> Z -> Prop := fun i j => OnC j /\ i <= zsi - 1.
Definition RU : Z -> Z -> Prop := fun i j => OnC j /\ i <= zsi.

Theorem east_foot (dzu dzd dxe : R) :
  Foot WE RE (east_phase dx dz grad nx slow vzero xsa xsi zsa zsi dzu dzd dxe).
Proof.
  eapply Foot_ext; [|eapply Foot_weaken; [| |
    apply (xphase_foot (fun j => j - 1) (fun j => j - 1) adjm 1 dzu dzd (ndiv (nofZ 1) dx) (ndiv (ndiv (nofZ 1) dx) dx)
             (pyrange (xsi + 2) nx 1) (xsi + 1) (nmul (nmul vzero dxe) dx))]].
  - intros [[td tt] sg]. reflexivity.
  - intros i j _ _ (k & Hk & Y & ->). apply in_pyrange_up in Hk. split; [exact Y | lia].
  - intros i j _ _ (k & Hk & Y & Z0). apply in_pyrange_up in Hk. split; [exact Y | lia].
  - lia.
  - replace (xsi + 1) with (xsi + 2 - 1) by lia. apply chain_pyrange_up.
  - intros k Hk. apply in_pyrange_up in Hk. lia.
Qed.
Theorem west_foot (dzu dzd dxw : R) :
  Foot WW RW (west_phase dx dz grad slow vzero xsa xsi zsa zsi dzu dzd dxw).
Proof.
  eapply Foot_ext; [|eapply Foot_weaken; [| |
    apply (xphase_foot (fun j => j + 1) (fun j => j) adjp (-1) dzu dzd (ndiv (nofZ 1) dx) (ndiv (ndiv (nofZ 1) dx) dx)
             (pyrange (xsi - 1) (-1) (-1)) xsi (nmul (nmul vzero dxw) dx))]].
  - intros [[td tt] sg]. reflexivity.
  - intros i j _ _ (k & Hk & Y & ->). apply in_pyrange_down in Hk. split; [exact Y | lia].
  - intros i j _ _ (k & Hk & Y & Z0). apply in_pyrange_down in Hk. split; [exact Y | lia].
  - lia.
  - replace xsi with (xsi - 1 + 1) at 1 by lia. apply chain_pyrange_down.
  - intros k Hk. apply in_pyrange_down in Hk. lia.
Qed.
Theorem down_foot (dxw dxe dzd : R) :
  Foot WD RD (down_phase dx dz grad nz slow vzero xsa xsi zsa zsi dxw dxe dzd).
Proof.
  eapply Foot_ext; [|eapply Foot_weaken; [| |
    apply (zphase_foot (fun j => j - 1) (fun j => j - 1) adjm 1 dxw dxe (ndiv (nofZ 1) dz) (ndiv (ndiv (nofZ 1) dz) dz)
             (pyrange (zsi + 2) nz 1) (zsi + 1) (nmul (nmul vzero dzd) dz))]].
  - intros [[td tt] sg]. reflexivity.
  - intros i j _ _ (k & Hk & Y & ->). apply in_pyrange_up in Hk. split; [exact Y | lia].
  - intros i j _ _ (k & Hk & Y & Z0). apply in_pyrange_up in Hk. split; [exact Y | lia].
  - lia.
  - replace (zsi + 1) with (zsi + 2 - 1) by lia. apply chain_pyrange_up.
  - intros k Hk. apply in_pyrange_up in Hk. lia.
Qed.
Theorem up_foot (dxw dxe dzu : R) :
  Foot WU RU (up_phase dx dz grad slow vzero xsa xsi zsa zsi dxw dxe dzu).
Proof.
  eapply Foot_ext; [|eapply Foot_weaken; [| |
    apply (zphase_foot (fun j => j + 1) (fun j => j) adjp (-1) dxw dxe (ndiv (nofZ 1) dz) (ndiv (ndiv (nofZ 1) dz) dz)
             (pyrange (zsi - 1) (-1) (-1)) zsi (nmul (nmul vzero dzu) dz))]].
  - intros [[td tt] sg]. reflexivity.
  - intros i j _ _ (k & Hk & Y & ->). apply in_pyrange_down in Hk. split; [exact Y | lia].
  - intros i j _ _ (k & Hk & Y & Z0). apply in_pyrange_down in Hk. split; [exact Y | lia].
  - lia.
  - replace zsi with (zsi - 1 + 1) at 1 by lia. apply chain_pyrange_down.
  - intros k Hk. apply in_pyrange_down in Hk. lia.
Qed.

End Phases.

(* ========================================================================================== *)
(* 3. commutation of the phases                                                                  *)
(* ========================================================================================== *)
(* the four loops of the block in the order of the code; `td` is refilled between the x- and the z-loops *)
Definition phases (dx dz : R) (grad : bool) (nx nz : Z) (slow : arr R) (vzero xsa : R) (xsi : Z) (zsa : R) (zsi : Z)
    (dzu dzd dxw dxe : R) (s : St) : St :=
  let st := east_phase dx dz grad nx slow vzero xsa xsi zsa zsi dzu dzd dxe s in
  let st := west_phase dx dz grad slow vzero xsa xsi zsa zsi dzu dzd dxw st in
  let st := down_phase dx dz grad nz slow vzero xsa xsi zsa zsi dxw dxe dzd (fill (fst (fst st)) Big, snd (fst st), snd st) in
  up_phase dx dz grad slow vzero xsa xsi zsa zsi dxw dxe dzu st.

Lemma fteik2d_p2_phases (dx dz : R) grad nx nz slow (tt_v ttgrad : arr R) ttsgn (vzero xsa : R) xsi (zsa : R) zsi :
  fteik2d_p2 dx dz grad 2 nx nz slow tt_v ttgrad ttsgn vzero xsa xsi zsa zsi =
  let dzu := (nabs (nsub zsa (nofZ zsi))) in
  let dzd := (nsub (nofZ 1) dzu) in
  let dxw := (nabs (nsub xsa (nofZ xsi))) in
  let dxe := (nsub (nofZ 1) dxw) in
  let c := init_corners dx dz grad vzero xsa xsi zsa zsi tt_v ttgrad in
  let st := phases dx dz grad nx nz slow vzero xsa xsi zsa zsi dzu dzd dxw dxe (full [(Z.max nz nx)] Big, fst c, ttsgn) in
  (snd (fst st), snd c, snd st).
Proof. rewrite fteik2d_p2_decompose. reflexivity. Qed.

Section Commute.
Variables (nz nx M : Z) (grad : bool).
Variables (dx dz : R) (slow : arr R) (vzero xsa zsa : R) (zsi xsi : Z) (dzu dzd dxw dxe : R).
Hypothesis HM : nx <= M /\ nz <= M.
Hypothesis Hzsi : 0 <= zsi < nz - 1.
Hypothesis Hxsi : 0 <= xsi < nx - 1.

Notation Foot := (Foot nz nx M grad).
Notation good := (good nz nx M grad).
Notation agree := (agree nz nx grad).
Notation E := (east_phase dx dz grad nx slow vzero xsa xsi zsa zsi dzu dzd dxe).
Notation W := (west_phase dx dz grad slow vzero xsa xsi zsa zsi dzu dzd dxw).
Notation D := (down_phase dx dz grad nz slow vzero xsa xsi zsa zsi dxw dxe dzd).
Notation U := (up_phase dx dz grad slow vzero xsa xsi zsa zsi dxw dxe dzu).
Notation WE := (WE zsi xsi). Notation RE := (RE zsi xsi).
Notation WW := (WW zsi xsi). Notation RW := (RW zsi xsi).
Notation WD := (WD zsi xsi). Notation RD := (RD zsi xsi).
Notation WU := (WU zsi xsi). Notation RU := (RU zsi xsi).

Lemma E_foot : Foot WE RE E. Proof. apply east_foot; assumption. Qed.
Lemma W_foot : Foot WW RW W. Proof. apply west_foot; assumption. Qed.
Lemma D_foot : Foot WD RD D. Proof. apply down_foot; assumption. Qed.
Lemma U_foot : Foot WU RU U. Proof. apply up_foot; assumption. Qed.

Lemma X_foot : Foot (fun i j => WE i j \/ WW i j) (fun i j => RE i j \/ RW i j) (fun s => W (E s)).
Proof. apply (Foot_comp _ _ _ _ _ _ _ _ E W E_foot W_foot). Qed.
Lemma Z_foot : Foot (fun i j => WD i j \/ WU i j) (fun i j => RD i j \/ RU i j) (fun s => U (D s)).
Proof. apply (Foot_comp _ _ _ _ _ _ _ _ D U D_foot U_foot). Qed.

(* (ii) THE X-PHASES AND THE Z-PHASES COMMUTE on the time and sign arrays.  (The scratch line `td` is not compared:
   it ends with different contents, and is dead after the block.) *)
Theorem x_z_commute s : good s -> agree Top Top (U (D (W (E s)))) (W (E (U (D s)))).
Proof.
  apply (Foot_commute _ _ _ _ _ _ _ _ (fun s => W (E s)) (fun s => U (D s)) X_foot Z_foot);
    unfold InitEquiv.WE, InitEquiv.RE, InitEquiv.WW, InitEquiv.RW, InitEquiv.WD, InitEquiv.RD, InitEquiv.WU, InitEquiv.RU, OnR, OnC.
  - intros i j _ _ Y. lia.
  - intros i j _ _ Y. lia.
  - intros i j _ _. destruct (Z_le_gt_dec zsi i), (Z_le_gt_dec i (zsi + 1)); [right | left | left | left]; lia.
Qed.
Theorem east_west_commute s : good s -> agree Top Top (W (E s)) (E (W s)).
Proof.
  apply (Foot_commute _ _ _ _ _ _ _ _ E W E_foot W_foot);
    unfold InitEquiv.WE, InitEquiv.RE, InitEquiv.WW, InitEquiv.RW, OnR.
  - intros i j _ _ Y. lia.
  - intros i j _ _ Y. lia.
  - intros i j _ _. destruct (Z_le_gt_dec j xsi); [left | right]; lia.
Qed.
Theorem down_up_commute s : good s -> agree Top Top (U (D s)) (D (U s)).
Proof.
  apply (Foot_commute _ _ _ _ _ _ _ _ D U D_foot U_foot);
    unfold InitEquiv.WD, InitEquiv.RD, InitEquiv.WU, InitEquiv.RU, OnC.
  - intros i j _ _ Y. lia.
  - intros i j _ _ Y. lia.
  - intros i j _ _. destruct (Z_le_gt_dec i zsi); [left | right]; lia.
Qed.

(* refilling the scratch line changes nothing *)
Lemma good_refill s : good s -> good (fill (fst (fst s)) Big, snd (fst s), snd s).
Proof.
  intros ((Wd & Sd) & Gt & Gs). split; [|split; assumption]. unfold okD, tdo, fill. cbn [fst snd].
  split; [apply wf_full; destruct Wd as [_ F]; exact F | exact Sd].
Qed.

Notation P := (phases dx dz grad nx nz slow vzero xsa xsi zsa zsi dzu dzd dxw dxe).

Lemma phases_good s : good s -> good (P s).
Proof.
  intros Hs. unfold phases. cbv zeta.
  destruct E_foot as (GE & _), W_foot as (GW & _), D_foot as (GD & _), U_foot as (GU & _).
  apply GU, GD, good_refill, GW, GE, Hs.
Qed.
(* the code order, without the refill *)
Lemma phases_xz s : good s -> agree Top Top (P s) (U (D (W (E s)))).
Proof.
  intros Hs. unfold phases. cbv zeta.
  destruct E_foot as (GE & _), W_foot as (GW & _), Z_foot as (_ & _ & LZ).
  apply agree_sym.
  apply (LZ Top Top (W (E s)) (fill (fst (fst (W (E s)))) Big, snd (fst (W (E s))), snd (W (E s))));
    [intros; exact I | apply GW, GE, Hs | apply good_refill, GW, GE, Hs | apply agree_same; reflexivity].
Qed.
(* the z-loops first *)
Theorem phases_zx s : good s -> agree Top Top (P s) (W (E (U (D s)))).
Proof. intros Hs. eapply agree_trans; [apply phases_xz, Hs | apply x_z_commute, Hs]. Qed.
(* ... and, inside the x-loops, west first *)
Theorem phases_wexz s : good s -> agree Top Top (P s) (U (D (E (W s)))).
Proof.
  intros Hs. eapply agree_trans; [apply phases_xz, Hs|].
  destruct E_foot as (GE & _), W_foot as (GW & _), Z_foot as (_ & _ & LZ).
  apply (LZ Top Top (W (E s)) (E (W s))); [intros; exact I | apply GW, GE, Hs | apply GE, GW, Hs | apply east_west_commute, Hs].
Qed.
End Commute.

(* ========================================================================================== *)
(* 4. the geometric relations: symmetry, transport along `agree`, construction cell by cell      *)
(* ========================================================================================== *)
Lemma arel_sym {A} (d : A) (dom dom' : list Z -> Prop) f f' g g' a a' :
  (forall ix, dom' ix -> dom (f' ix) /\ f (f' ix) = ix /\ forall v, g' ix (g (f' ix) v) = v) ->
  arel d dom f g a a' -> arel d dom' f' g' a' a.
Proof.
  intros H (W & W' & Hin & Hg). split; [exact W'|]. split; [exact W|]. split.
  - intros ix Hd. destruct (H ix Hd) as (D & E & _). destruct (Hin _ D) as [I1 I2]. rewrite E in I2. auto.
  - intros ix Hd. destruct (H ix Hd) as (D & E & G). pose proof (Hg _ D) as Q. rewrite E in Q. rewrite Q, G. reflexivity.
Qed.
Lemma arel_ext {A} (d : A) dom f g a a' b b' :
  arel d dom f g a a' -> wf b -> wf b' ->
  (forall ix, dom ix -> inb b ix = true /\ get d b ix = get d a ix) ->
  (forall ix, dom ix -> inb b' (f ix) = true /\ get d b' (f ix) = get d a' (f ix)) ->
  arel d dom f g b b'.
Proof.
  intros (W & W' & Hin & Hg) Wb Wb' Hb Hb'. split; [exact Wb|]. split; [exact Wb'|]. split.
  - intros ix Hd. split; [apply Hb, Hd | apply Hb', Hd].
  - intros ix Hd. destruct (Hb ix Hd) as [_ ->]. destruct (Hb' ix Hd) as [_ ->]. apply Hg, Hd.
Qed.

(* the gradient array: component k under transposition, sign of component 1 / 0 under the x- / z-mirror *)
Definition gnegR (c : Z) (ix : list Z) (v : R) : R :=
  match ix with
  | [_; _; k] => if k =? c then (- v)%R else v
  | _ => v
  end.
Definition RelGRt (nz nx : Z) : arr R -> arr R -> Prop := arel 0%R (dom3 nz nx) ftr gid.
Definition RelGRx (nz nx : Z) : arr R -> arr R -> Prop := arel 0%R (dom3 nz nx) (fmx nx) (gnegR 1).
Definition RelGRz (nz nx : Z) : arr R -> arr R -> Prop := arel 0%R (dom3 nz nx) (fmz nz) (gnegR 0).
Definition okG (nz nx : Z) (tg : arr R) : Prop := wf tg /\ shape tg = [nz; nx; 2].

Ltac dom_inv :=
  repeat match goal with
  | H : dom2 _ _ _ |- _ => destruct H as (?i & ?j & -> & ? & ?)
  | H : dom3 _ _ _ |- _ => destruct H as (?i & ?j & ?k & -> & ? & ? & ?)
  end.

(* --- symmetry --- *)
Lemma RelTTt_sym nz nx a a' : RelTTt nz nx a a' -> RelTTt nx nz a' a.
Proof. apply arel_sym. intros ix Hd. dom_inv. cbn [ftr fmx gid]. split; [apply dom2_intro; lia|]. split; reflexivity. Qed.
Lemma RelSLt_sym nz nx a a' : RelSLt nz nx a a' -> RelSLt nx nz a' a.
Proof. apply arel_sym. intros ix Hd. dom_inv. cbn [ftr fmx gid]. split; [apply dom2_intro; lia|]. split; reflexivity. Qed.
Lemma ftr3_invol i j k : [i; j; 1 - (1 - k)] = [i; j; k].
Proof. repeat f_equal. lia. Qed.
Lemma RelSGt_sym nz nx a a' : RelSGt nz nx a a' -> RelSGt nx nz a' a.
Proof. apply arel_sym. intros ix Hd. dom_inv. cbn [ftr fmx gid]. split; [apply dom3_intro; lia|]. split; [apply ftr3_invol | reflexivity]. Qed.
Lemma RelGRt_sym nz nx a a' : RelGRt nz nx a a' -> RelGRt nx nz a' a.
Proof. apply arel_sym. intros ix Hd. dom_inv. cbn [ftr fmx gid]. split; [apply dom3_intro; lia|]. split; [apply ftr3_invol | reflexivity]. Qed.

Lemma fmx2_invol n i j : [i; n - 1 - (n - 1 - j)] = [i; j].
Proof. repeat f_equal. lia. Qed.
Lemma fmx3_invol n i j (k : Z) : [i; n - 1 - (n - 1 - j); k] = [i; j; k].
Proof. repeat f_equal. lia. Qed.
Lemma RelTTx_sym nz nx a a' : RelTTx nz nx a a' -> RelTTx nz nx a' a.
Proof. apply arel_sym. intros ix Hd. dom_inv. cbn [ftr fmx gid]. split; [apply dom2_intro; lia|]. split; [apply fmx2_invol | reflexivity]. Qed.
Lemma RelSLx_sym nz nx a a' : RelSLx nz nx a a' -> RelSLx nz nx a' a.
Proof. apply arel_sym. intros ix Hd. dom_inv. cbn [ftr fmx gid]. split; [apply dom2_intro; lia|]. split; [apply fmx2_invol | reflexivity]. Qed.
Lemma RelSGx_sym nz nx a a' : RelSGx nz nx a a' -> RelSGx nz nx a' a.
Proof.
  apply arel_sym. intros ix Hd. dom_inv. cbn [fmx gneg]. split; [apply dom3_intro; lia|]. split; [apply fmx3_invol|].
  intros v. destruct (k =? 1); lia.
Qed.
Lemma RelGRx_sym nz nx a a' : RelGRx nz nx a a' -> RelGRx nz nx a' a.
Proof.
  apply arel_sym. intros ix Hd. dom_inv. cbn [fmx gnegR]. split; [apply dom3_intro; lia|]. split; [apply fmx3_invol|].
  intros v. destruct (k =? 1); lra.
Qed.

(* --- construction from a cell-wise statement --- *)
Lemma RelTTt_intro nz nx a a' :
  okT nz nx a -> okT nx nz a' ->
  (forall i j, 0 <= i < nz -> 0 <= j < nx -> get 0%R a' [j; i] = get 0%R a [i; j]) -> RelTTt nz nx a a'.
Proof.
  intros [W S] [W' S'] H. split; [exact W|]. split; [exact W'|]. split; intros ix Hd; dom_inv; cbn [ftr gid].
  - split; inb_tac.
  - apply H; assumption.
Qed.
Lemma RelSGt_intro nz nx a a' :
  okS nz nx a -> okS nx nz a' ->
  (forall i j k, 0 <= i < nz -> 0 <= j < nx -> 0 <= k < 2 -> get 0 a' [j; i; 1 - k] = get 0 a [i; j; k]) ->
  RelSGt nz nx a a'.
Proof.
  intros [W S] [W' S'] H. split; [exact W|]. split; [exact W'|]. split; intros ix Hd; dom_inv; cbn [ftr gid].
  - split; inb_tac.
  - apply H; assumption.
Qed.
Lemma RelGRt_intro nz nx a a' :
  okG nz nx a -> okG nx nz a' ->
  (forall i j k, 0 <= i < nz -> 0 <= j < nx -> 0 <= k < 2 -> get 0%R a' [j; i; 1 - k] = get 0%R a [i; j; k]) ->
  RelGRt nz nx a a'.
Proof.
  intros [W S] [W' S'] H. split; [exact W|]. split; [exact W'|]. split; intros ix Hd; dom_inv; cbn [ftr gid].
  - split; inb_tac.
  - apply H; assumption.
Qed.
Lemma RelTTx_intro nz nx a a' :
  okT nz nx a -> okT nz nx a' ->
  (forall i j, 0 <= i < nz -> 0 <= j < nx -> get 0%R a' [i; nx - 1 - j] = get 0%R a [i; j]) -> RelTTx nz nx a a'.
Proof.
  intros [W S] [W' S'] H. split; [exact W|]. split; [exact W'|]. split; intros ix Hd; dom_inv; cbn [fmx gid].
  - split; inb_tac.
  - apply H; assumption.
Qed.
Lemma RelSGx_intro nz nx a a' :
  okS nz nx a -> okS nz nx a' ->
  (forall i j k, 0 <= i < nz -> 0 <= j < nx -> 0 <= k < 2 ->
     get 0 a' [i; nx - 1 - j; k] = if k =? 1 then - get 0 a [i; j; k] else get 0 a [i; j; k]) ->
  RelSGx nz nx a a'.
Proof.
  intros [W S] [W' S'] H. split; [exact W|]. split; [exact W'|]. split; intros ix Hd; dom_inv; cbn [fmx gneg].
  - split; inb_tac.
  - apply H; assumption.
Qed.
Lemma RelGRx_intro nz nx a a' :
  okG nz nx a -> okG nz nx a' ->
  (forall i j k, 0 <= i < nz -> 0 <= j < nx -> 0 <= k < 2 ->
     get 0%R a' [i; nx - 1 - j; k] = if k =? 1 then (- get 0%R a [i; j; k])%R else get 0%R a [i; j; k]) ->
  RelGRx nz nx a a'.
Proof.
  intros [W S] [W' S'] H. split; [exact W|]. split; [exact W'|]. split; intros ix Hd; dom_inv; cbn [fmx gnegR].
  - split; inb_tac.
  - apply H; assumption.
Qed.
Lemma relGRt_get nz nx s s' i j k :
  RelGRt nz nx s s' -> 0 <= i < nz -> 0 <= j < nx -> 0 <= k < 2 -> get 0%R s' [j; i; 1 - k] = get 0%R s [i; j; k].
Proof. intros H Hi Hj Hk. exact (arel_get 0%R _ _ _ s s' [i; j; k] _ H (dom3_intro _ _ _ _ _ Hi Hj Hk) eq_refl). Qed.
Lemma relGRx_get nz nx s s' i j k :
  RelGRx nz nx s s' -> 0 <= i < nz -> 0 <= j < nx -> 0 <= k < 2 ->
  get 0%R s' [i; nx - 1 - j; k] = if k =? 1 then (- get 0%R s [i; j; k])%R else get 0%R s [i; j; k].
Proof. intros H Hi Hj Hk. exact (arel_get 0%R _ _ _ s s' [i; j; k] _ H (dom3_intro _ _ _ _ _ Hi Hj Hk) eq_refl). Qed.

(* --- states --- *)
Definition TRelS (nz nx : Z) (grad : bool) (s s' : St) : Prop :=
  RelTTt nz nx (tto s) (tto s') /\ (grad = true -> RelSGt nz nx (sgo s) (sgo s')).
Definition XRelS (nz nx : Z) (grad : bool) (s s' : St) : Prop :=
  RelTTx nz nx (tto s) (tto s') /\ (grad = true -> RelSGx nz nx (sgo s) (sgo s')).

Lemma TRelS_sym nz nx grad s s' : TRelS nz nx grad s s' -> TRelS nx nz grad s' s.
Proof. intros [A B]. split; [apply RelTTt_sym, A | intros Hg; apply RelSGt_sym, B, Hg]. Qed.
Lemma XRelS_sym nz nx grad s s' : XRelS nz nx grad s s' -> XRelS nz nx grad s' s.
Proof. intros [A B]. split; [apply RelTTx_sym, A | intros Hg; apply RelSGx_sym, B, Hg]. Qed.

(* the relations only see (tt, ttsgn) cell by cell *)
Lemma TRelS_ext nz nx M M' grad s s' t t' :
  TRelS nz nx grad s s' -> good nz nx M grad t -> good nx nz M' grad t' ->
  agree nz nx grad Top Top s t -> agree nx nz grad Top Top s' t' -> TRelS nz nx grad t t'.
Proof.
  intros [A B] (_ & (Wt & St) & Gs) (_ & (Wt' & St') & Gs') [E1 E2] [E1' E2']. split.
  - apply (arel_ext 0%R _ _ _ _ _ _ _ A Wt Wt'); intros ix Hd; dom_inv; cbn [ftr].
    + split; [inb_tac | apply E1; auto; exact I].
    + split; [inb_tac | apply E1'; auto; exact I].
  - intros Hg. destruct (Gs Hg) as [Ws Ss], (Gs' Hg) as [Ws' Ss'].
    apply (arel_ext 0%Z _ _ _ _ _ _ _ (B Hg) Ws Ws'); intros ix Hd; dom_inv; cbn [ftr].
    + split; [inb_tac | apply (E2 Hg); auto; exact I].
    + split; [inb_tac | apply (E2' Hg); auto; try lia; exact I].
Qed.
Lemma XRelS_ext nz nx M M' grad s s' t t' :
  XRelS nz nx grad s s' -> good nz nx M grad t -> good nz nx M' grad t' ->
  agree nz nx grad Top Top s t -> agree nz nx grad Top Top s' t' -> XRelS nz nx grad t t'.
Proof.
  intros [A B] (_ & (Wt & St) & Gs) (_ & (Wt' & St') & Gs') [E1 E2] [E1' E2']. split.
  - apply (arel_ext 0%R _ _ _ _ _ _ _ A Wt Wt'); intros ix Hd; dom_inv; cbn [fmx].
    + split; [inb_tac | apply E1; auto; exact I].
    + split; [inb_tac | apply E1'; auto; try lia; exact I].
  - intros Hg. destruct (Gs Hg) as [Ws Ss], (Gs' Hg) as [Ws' Ss'].
    apply (arel_ext 0%Z _ _ _ _ _ _ _ (B Hg) Ws Ws'); intros ix Hd; dom_inv; cbn [fmx].
    + split; [inb_tac | apply (E2 Hg); auto; exact I].
    + split; [inb_tac | apply (E2' Hg); auto; try lia; exact I].
Qed.

(* ========================================================================================== *)
(* 5. the four corner assignments, cell by cell                                                 *)
(* ========================================================================================== *)
Definition isC (zsi xsi i j : Z) : bool := ((i =? zsi) || (i =? zsi + 1)) && ((j =? xsi) || (j =? xsi + 1)).

Lemma get_set2 nz nx (a : arr R) i j p q v :
  okT nz nx a -> 0 <= i < nz -> 0 <= j < nx -> 0 <= p < nz -> 0 <= q < nx ->
  get 0%R (set a [i; j] v) [p; q] = if (p =? i) && (q =? j) then v else get 0%R a [p; q].
Proof.
  intros [W S] Hi Hj Hp Hq. destruct (Z.eqb_spec p i) as [->|N1]; [destruct (Z.eqb_spec q j) as [->|N2]|]; cbn [andb].
  - apply get_set_same; [exact W | inb_tac].
  - apply get_set_other; try inb_tac. intros E. injection E as E. lia.
  - apply get_set_other; try inb_tac. intros E. injection E as E E'. lia.
Qed.
Lemma get_set3 nz nx (a : arr R) i j k p q r v :
  okG nz nx a -> 0 <= i < nz -> 0 <= j < nx -> 0 <= k < 2 -> 0 <= p < nz -> 0 <= q < nx -> 0 <= r < 2 ->
  get 0%R (set a [i; j; k] v) [p; q; r] = if (p =? i) && (q =? j) && (r =? k) then v else get 0%R a [p; q; r].
Proof.
  intros [W S] Hi Hj Hk Hp Hq Hr.
  destruct (Z.eqb_spec p i) as [->|N1]; [destruct (Z.eqb_spec q j) as [->|N2]; [destruct (Z.eqb_spec r k) as [->|N3]|]|];
    cbn [andb].
  - apply get_set_same; [exact W | inb_tac].
  - apply get_set_other; try inb_tac. intros E. injection E as E. lia.
  - apply get_set_other; try inb_tac. intros E. injection E as E E'. lia.
  - apply get_set_other; try inb_tac. intros E. injection E as E E' E''. lia.
Qed.
Lemma okG_set nz nx tg i j k v : okG nz nx tg -> okG nz nx (set tg [i; j; k] v).
Proof. intros [W S]. split; [apply wf_set, W | exact S]. Qed.

Ltac eqb_cases :=
  repeat match goal with |- context [?a =? ?b] => destruct (Z.eqb_spec a b) end;
  cbn [andb orb]; try lia; subst; try reflexivity.

Lemma init_corners_tt nz nx (dx dz : R) grad (vzero xsa : R) xsi (zsa : R) zsi tt tg :
  okT nz nx tt -> 0 <= zsi < nz - 1 -> 0 <= xsi < nx - 1 ->
  okT nz nx (fst (init_corners dx dz grad vzero xsa xsi zsa zsi tt tg)) /\
  forall p q, 0 <= p < nz -> 0 <= q < nx ->
    get 0%R (fst (init_corners dx dz grad vzero xsa xsi zsa zsi tt tg)) [p; q] =
    if isC zsi xsi p q then fst (fst (t_anad p q dz dx zsa xsa vzero)) else get 0%R tt [p; q].
Proof.
  intros Ht Hz Hx. unfold init_corners, corner. cbv zeta. cbn [fst snd]. split; [repeat apply okT_set; exact Ht|].
  intros p q Hp Hq. unfold isC.
  repeat (rewrite (get_set2 nz nx) by first [lia | repeat apply okT_set; exact Ht]).
  eqb_cases.
Qed.
Lemma init_corners_tg nz nx (dx dz : R) (vzero xsa : R) xsi (zsa : R) zsi tt tg :
  okG nz nx tg -> 0 <= zsi < nz - 1 -> 0 <= xsi < nx - 1 ->
  okG nz nx (snd (init_corners dx dz true vzero xsa xsi zsa zsi tt tg)) /\
  forall p q r, 0 <= p < nz -> 0 <= q < nx -> 0 <= r < 2 ->
    get 0%R (snd (init_corners dx dz true vzero xsa xsi zsa zsi tt tg)) [p; q; r] =
    if isC zsi xsi p q
    then (if r =? 0 then snd (fst (t_anad p q dz dx zsa xsa vzero)) else snd (t_anad p q dz dx zsa xsa vzero))
    else get 0%R tg [p; q; r].
Proof.
  intros Ht Hz Hx. unfold init_corners, corner. cbv zeta. cbn [fst snd]. split; [repeat apply okG_set; exact Ht|].
  intros p q r Hp Hq Hr. unfold isC.
  repeat (rewrite (get_set3 nz nx) by first [lia | repeat apply okG_set; exact Ht]).
  eqb_cases.
Qed.
Lemma init_corners_tg_false (dx dz : R) (vzero xsa : R) xsi (zsa : R) zsi tt tg :
  snd (init_corners dx dz false vzero xsa xsi zsa zsi tt tg) = tg.
Proof. reflexivity. Qed.

(* ========================================================================================== *)
(* 6. TRANSPOSITION of the whole initialisation                                                 *)
(* ========================================================================================== *)
(* the pairing theorems of InitSym on states *)
Lemma pair_east_down nz nx M M' (dx dz : R) grad slow slow' (vzero xsa : R) xsi (zsa : R) zsi (dzu dzd dxe : R) s s' :
  RelSLt nz nx slow slow' -> nx <= M -> nx <= M' -> 0 <= zsi < nz - 1 -> 0 <= xsi < nx - 1 ->
  good nz nx M grad s -> good nx nz M' grad s' -> TRelS nz nx grad s s' ->
  TRelS nz nx grad (east_phase dx dz grad nx slow vzero xsa xsi zsa zsi dzu dzd dxe s)
                   (down_phase dz dx grad nx slow' vzero zsa zsi xsa xsi dzu dzd dxe s').
Proof.
  destruct s as [[td tt] sg], s' as [[td' tt'] sg']. intros HSL HM HM' Hz Hx ((Wd & Sd) & _) ((Wd' & Sd') & _) [A B].
  exact (down_is_transpose_of_east nz nx M M' dx dz grad slow slow' vzero xsa xsi zsa zsi dzu dzd dxe td td' tt tt' sg sg'
           HSL Wd Wd' Sd Sd' HM HM' Hz Hx A B).
Qed.
Lemma pair_west_up nz nx M M' (dx dz : R) grad slow slow' (vzero xsa : R) xsi (zsa : R) zsi (dzu dzd dxw : R) s s' :
  RelSLt nz nx slow slow' -> nx <= M -> nx <= M' -> 0 <= zsi < nz - 1 -> 0 <= xsi < nx - 1 ->
  good nz nx M grad s -> good nx nz M' grad s' -> TRelS nz nx grad s s' ->
  TRelS nz nx grad (west_phase dx dz grad slow vzero xsa xsi zsa zsi dzu dzd dxw s)
                   (up_phase dz dx grad slow' vzero zsa zsi xsa xsi dzu dzd dxw s').
Proof.
  destruct s as [[td tt] sg], s' as [[td' tt'] sg']. intros HSL HM HM' Hz Hx ((Wd & Sd) & _) ((Wd' & Sd') & _) [A B].
  exact (up_is_transpose_of_west nz nx M M' dx dz grad slow slow' vzero xsa xsi zsa zsi dzu dzd dxw td td' tt tt' sg sg'
           HSL Wd Wd' Sd Sd' HM HM' Hz Hx A B).
Qed.

Lemma good_east nz nx M grad (dx dz : R) slow (vzero xsa : R) xsi (zsa : R) zsi (dzu dzd dxe : R) s :
  nx <= M /\ nz <= M -> 0 <= zsi < nz - 1 -> 0 <= xsi < nx - 1 -> good nz nx M grad s ->
  good nz nx M grad (east_phase dx dz grad nx slow vzero xsa xsi zsa zsi dzu dzd dxe s).
Proof. intros HM Hz Hx. apply (east_foot nz nx M grad dx dz slow vzero xsa zsa zsi xsi HM Hz Hx dzu dzd dxe). Qed.
Lemma good_west nz nx M grad (dx dz : R) slow (vzero xsa : R) xsi (zsa : R) zsi (dzu dzd dxw : R) s :
  nx <= M /\ nz <= M -> 0 <= zsi < nz - 1 -> 0 <= xsi < nx - 1 -> good nz nx M grad s ->
  good nz nx M grad (west_phase dx dz grad slow vzero xsa xsi zsa zsi dzu dzd dxw s).
Proof. intros HM Hz Hx. apply (west_foot nz nx M grad dx dz slow vzero xsa zsa zsi xsi HM Hz Hx dzu dzd dxw). Qed.
Lemma good_down nz nx M grad (dx dz : R) slow (vzero xsa : R) xsi (zsa : R) zsi (dxw dxe dzd : R) s :
  nx <= M /\ nz <= M -> 0 <= zsi < nz - 1 -> 0 <= xsi < nx - 1 -> good nz nx M grad s ->
  good nz nx M grad (down_phase dx dz grad nz slow vzero xsa xsi zsa zsi dxw dxe dzd s).
Proof. intros HM Hz Hx. apply (down_foot nz nx M grad dx dz slow vzero xsa zsa zsi xsi HM Hz Hx dxw dxe dzd). Qed.
Lemma good_up nz nx M grad (dx dz : R) slow (vzero xsa : R) xsi (zsa : R) zsi (dxw dxe dzu : R) s :
  nx <= M /\ nz <= M -> 0 <= zsi < nz - 1 -> 0 <= xsi < nx - 1 -> good nz nx M grad s ->
  good nz nx M grad (up_phase dx dz grad slow vzero xsa xsi zsa zsi dxw dxe dzu s).
Proof. intros HM Hz Hx. apply (up_foot nz nx M grad dx dz slow vzero xsa zsa zsi xsi HM Hz Hx dxw dxe dzu). Qed.
Ltac gd :=
  repeat first [ assumption | apply good_east | apply good_west | apply good_down | apply good_up ]; try lia.

Section Transpose.
Variables (nz nx M M' : Z) (grad : bool).
Variables (dx dz : R) (slow slow' : arr R) (vzero xsa zsa : R) (zsi xsi : Z) (dzu dzd dxw dxe : R).
Hypothesis HM : nx <= M /\ nz <= M.
Hypothesis HM' : nz <= M' /\ nx <= M'.
Hypothesis Hzsi : 0 <= zsi < nz - 1.
Hypothesis Hxsi : 0 <= xsi < nx - 1.
Hypothesis HSL : RelSLt nz nx slow slow'.

Notation E := (east_phase dx dz grad nx slow vzero xsa xsi zsa zsi dzu dzd dxe).
Notation W := (west_phase dx dz grad slow vzero xsa xsi zsa zsi dzu dzd dxw).
Notation D := (down_phase dx dz grad nz slow vzero xsa xsi zsa zsi dxw dxe dzd).
Notation U := (up_phase dx dz grad slow vzero xsa xsi zsa zsi dxw dxe dzu).
(* the phases of the transposed run: everything exchanged *)
Notation E' := (east_phase dz dx grad nz slow' vzero zsa zsi xsa xsi dxw dxe dzd).
Notation W' := (west_phase dz dx grad slow' vzero zsa zsi xsa xsi dxw dxe dzu).
Notation D' := (down_phase dz dx grad nx slow' vzero zsa zsi xsa xsi dzu dzd dxe).
Notation U' := (up_phase dz dx grad slow' vzero zsa zsi xsa xsi dzu dzd dxw).

(* the z-loops first on the original = the code order on the transposed problem *)
Lemma zx_transpose s s' :
  good nz nx M grad s -> good nx nz M' grad s' -> TRelS nz nx grad s s' ->
  TRelS nz nx grad (W (E (U (D s)))) (U' (D' (W' (E' s')))).
Proof.
  intros Hs Hs' H0.
  pose proof (RelSLt_sym _ _ _ _ HSL) as HSL'.
  (* down / east' *)
  assert (H1 : TRelS nz nx grad (D s) (E' s')).
  { apply TRelS_sym.
    apply (pair_east_down nx nz M' M dz dx grad slow' slow vzero zsa zsi xsa xsi dxw dxe dzd s' s);
      [exact HSL' | lia | lia | lia | lia | gd | gd | apply TRelS_sym, H0]. }
  (* up / west' *)
  assert (H2 : TRelS nz nx grad (U (D s)) (W' (E' s'))).
  { apply TRelS_sym.
    apply (pair_west_up nx nz M' M dz dx grad slow' slow vzero zsa zsi xsa xsi dxw dxe dzu (E' s') (D s));
      [exact HSL' | lia | lia | lia | lia | gd | gd | apply TRelS_sym, H1]. }
  (* east / down' *)
  assert (H3 : TRelS nz nx grad (E (U (D s))) (D' (W' (E' s')))).
  { apply (pair_east_down nz nx M M'); [exact HSL | lia | lia | lia | lia | gd | gd | exact H2]. }
  (* west / up' *)
  apply (pair_west_up nz nx M M'); [exact HSL | lia | lia | lia | lia | gd | gd | exact H3].
Qed.

Notation P := (phases dx dz grad nx nz slow vzero xsa xsi zsa zsi dzu dzd dxw dxe).
Notation P' := (phases dz dx grad nz nx slow' vzero zsa zsi xsa xsi dxw dxe dzu dzd).

(* (iii) THE FOUR LOOPS OF THE TRANSPOSED RUN GIVE THE TRANSPOSE OF THE FOUR LOOPS *)
Theorem phases_transpose s s' :
  good nz nx M grad s -> good nx nz M' grad s' -> TRelS nz nx grad s s' -> TRelS nz nx grad (P s) (P' s').
Proof.
  intros Hs Hs' H0.
  apply (TRelS_ext nz nx M M' grad _ _ _ _ (zx_transpose s s' Hs Hs' H0)).
  - apply phases_good; assumption.
  - apply phases_good; assumption.
  - apply agree_sym. apply (phases_zx nz nx M); assumption.
  - apply agree_sym. apply (phases_xz nx nz M'); assumption.
Qed.
End Transpose.
