(* C18 (whole initialisation)  The source-line initialisation of `fteik2d` (block `if iflag == 2:` of
   _fteik/_fteik2d.py, generated function `fteik2d_p2`) is equivariant under transposition and under the mirrors,
   over R, for all sizes, heterogeneous medium, with or without `grad`, and for every `iflag`.

   InitSym.v shows that the four loops ("phases" east, west, down, up) are images of one another.  A transposed run
   executes the images of the original's down/up phases BEFORE the images of its east/west phases, a mirrored run
   executes the image of the west phase before the image of the east phase.  So the whole initialisation is
   equivariant only if the phases of one run commute.  They do:

   1. `Foot W Rd F`: the state transformer `F` (state = (td, tt, ttsgn)) changes the time / sign arrays only at the
      nodes `W` (frame), and its effect on any node set `S` containing `Rd` depends only on the time array on `S`
      (and, for the signs on `S'`, on the signs on `S'`) - in particular not on the scratch line `td`, which every
      phase seeds itself.  `Foot_comp`, `Foot_commute` (disjoint write / read sets => the transformers commute).
   2. Footprints: one block (`cstep_foot`), one iteration (`lbody_*`), a loop (`phase_foot`), the four phases
      `east_foot`, `west_foot`, `down_foot`, `up_foot` with the sets WE/RE, WW/RW, WD/RD, WU/RU.
   3. `x_z_commute`: (east; west); (down; up) = (down; up); (east; west) on (tt, ttsgn); `east_west_commute`,
      `down_up_commute`; `phases_zx`, `phases_wexz` (the code order = the other orders).  The final content of `td`
      differs between the orders, and is irrelevant: `td` is dead after the block, and `agree` does not compare it.
   4. Transposition of the whole block: `phases_transpose` (the four loops), `fteik2d_p2_transpose` (generated code,
      relational form, every `iflag`), `fteik2d_p2_transpose_explicit` (maps `transpose`, `transpose_sgn`,
      `transpose_grad`, conclusion cell by cell).
   5. x-mirror of the whole block.  Needs two pairings that InitSym does not have: the down / up phase of the
      x-mirrored problem is the x-mirror of the down / up phase (`down_mirror_x`, `up_mirror_x`).  Inside one
      iteration of these loops the two blocks (columns xsi+1, xsi) are EXCHANGED by the mirror; they commute
      (`lbody_swap`, `Foot_commute` again).  `phases_mirror_x`, `fteik2d_p2_mirror_x`, `fteik2d_p2_mirror_x_explicit`.
      Hypothesis for `iflag = 2`: the source lies in its cell, 0 <= xsa - xsi <= 1 (the code recomputes dxw, dxe).
   6. z-mirror = transposition o x-mirror o transposition: `fteik2d_p2_mirror_z`, `fteik2d_p2_mirror_z_explicit`.
   7. Non-vacuity: closed instances over R (`fteik2d_p2_transpose_instance`, `fteik2d_p2_mirror_x_instance`), and the
      generated function on binary64 (`FloatExample`): transposed / mirrored runs equal the original bit for bit.
   No commutation turned out to be false: every phase reads only the corner nodes, nodes it wrote itself, `slow` and
   entries of `td` it wrote itself.
*)
From Coq Require Import ZArith List Bool Lia Reals Lra Psatz.
From FT.lib Require Import Num Arr ArrLemmas.
From FT.gen Require Import Common Fteik2d.
From FT.proofs Require Import SafetyTools OperatorsR InitSym.
Import ListNotations.
Open Scope Z_scope.
Open Scope bool_scope.

Notation St := (arr R * arr R * arr Z)%type.
Definition tdo (s : St) : arr R := fst (fst s).
Definition tto (s : St) : arr R := snd (fst s).
Definition sgo (s : St) : arr Z := snd s.

Ltac inb_tac :=
  first [ eapply inb2_true; [eassumption | lia | lia]
        | eapply inb3_true; [eassumption | lia | lia | lia]
        | eapply inb1_true; [eassumption | lia] ].

Definition Cpl (W : Z -> Z -> Prop) : Z -> Z -> Prop := fun i j => ~ W i j.
Definition Top : Z -> Z -> Prop := fun _ _ => True.

(* ========================================================================================== *)
(* 1. footprints                                                                                *)
(* ========================================================================================== *)
Section Foot.
Variables (nz nx M : Z) (grad : bool).

Definition okD (td : arr R) : Prop := wf td /\ shape td = [M].
Definition okT (tt : arr R) : Prop := wf tt /\ shape tt = [nz; nx].
Definition okS (sg : arr Z) : Prop := wf sg /\ shape sg = [nz; nx; 2].
Definition good (s : St) : Prop := okD (tdo s) /\ okT (tto s) /\ (grad = true -> okS (sgo s)).

(* equality on a set of nodes *)
Definition eqT (S : Z -> Z -> Prop) (a b : arr R) : Prop :=
  forall i j, 0 <= i < nz -> 0 <= j < nx -> S i j -> get 0%R b [i; j] = get 0%R a [i; j].
Definition eqS (S : Z -> Z -> Prop) (a b : arr Z) : Prop :=
  forall i j k, 0 <= i < nz -> 0 <= j < nx -> 0 <= k < 2 -> S i j -> get 0 b [i; j; k] = get 0 a [i; j; k].
(* the scratch line is NOT compared *)
Definition agree (S S' : Z -> Z -> Prop) (s1 s2 : St) : Prop :=
  eqT S (tto s1) (tto s2) /\ (grad = true -> eqS S' (sgo s1) (sgo s2)).

Lemma agree_refl S S' s : agree S S' s s.
Proof. split; [|intros _]; repeat intro; reflexivity. Qed.
Lemma agree_same S S' s1 s2 : tto s1 = tto s2 -> sgo s1 = sgo s2 -> agree S S' s1 s2.
Proof. intros E1 E2. unfold agree. rewrite E1, E2. split; [|intros _]; repeat intro; reflexivity. Qed.
Lemma agree_sym S S' s1 s2 : agree S S' s1 s2 -> agree S S' s2 s1.
Proof. intros [A B]. split; [|intros Hg; specialize (B Hg)]; repeat intro; symmetry; auto. Qed.
Lemma agree_trans S S' s1 s2 s3 : agree S S' s1 s2 -> agree S S' s2 s3 -> agree S S' s1 s3.
Proof.
  intros [A B] [A' B']. split.
  - intros i j Hi Hj Hs. rewrite A', A; auto.
  - intros Hg i j k Hi Hj Hk Hs. rewrite (B' Hg), (B Hg); auto.
Qed.
Lemma agree_weaken (S1 S1' S2 S2' : Z -> Z -> Prop) s1 s2 :
  (forall i j, 0 <= i < nz -> 0 <= j < nx -> S2 i j -> S1 i j) ->
  (forall i j, 0 <= i < nz -> 0 <= j < nx -> S2' i j -> S1' i j) ->
  agree S1 S1' s1 s2 -> agree S2 S2' s1 s2.
Proof.
  intros H1 H2 [A B]. split.
  - intros i j Hi Hj Hs. apply A; auto.
  - intros Hg i j k Hi Hj Hk Hs. apply (B Hg); auto.
Qed.

(* `F` writes at most the nodes `W`; what it does on a node set containing `Rd` depends on that set only *)
Definition Foot (W Rd : Z -> Z -> Prop) (F : St -> St) : Prop :=
  (forall s, good s -> good (F s)) /\
  (forall s, good s -> agree (Cpl W) (Cpl W) s (F s)) /\
  (forall (S S' : Z -> Z -> Prop) s1 s2,
     (forall i j, 0 <= i < nz -> 0 <= j < nx -> Rd i j -> S i j) ->
     good s1 -> good s2 -> agree S S' s1 s2 -> agree S S' (F s1) (F s2)).

Lemma Foot_weaken (W Rd W' Rd' : Z -> Z -> Prop) F :
  (forall i j, 0 <= i < nz -> 0 <= j < nx -> W i j -> W' i j) ->
  (forall i j, 0 <= i < nz -> 0 <= j < nx -> Rd i j -> Rd' i j) ->
  Foot W Rd F -> Foot W' Rd' F.
Proof.
  intros HW HR (G & Fr & L). split; [exact G|]. split.
  - intros s Hs. eapply agree_weaken; [| |apply Fr, Hs]; intros i j Hi Hj N Y; apply N; auto.
  - intros S S' s1 s2 HS. apply L. intros i j Hi Hj Y. apply HS; auto.
Qed.

Lemma Foot_comp (W1 R1 W2 R2 : Z -> Z -> Prop) F G :
  Foot W1 R1 F -> Foot W2 R2 G ->
  Foot (fun i j => W1 i j \/ W2 i j) (fun i j => R1 i j \/ R2 i j) (fun s => G (F s)).
Proof.
  intros (G1 & F1 & L1) (G2 & F2 & L2). split; [auto|]. split.
  - intros s Hs. eapply agree_trans.
    + eapply agree_weaken; [| |apply F1, Hs]; intros i j Hi Hj N Y; apply N; auto.
    + eapply agree_weaken; [| |apply F2, G1, Hs]; intros i j Hi Hj N Y; apply N; auto.
  - intros S S' s1 s2 HS H1 H2 A. apply L2; [auto | auto | auto |]. apply L1; auto.
Qed.

Lemma Foot_ext W Rd F G : (forall s, F s = G s) -> Foot W Rd F -> Foot W Rd G.
Proof.
  intros E (G1 & F1 & L1). split; [|split].
  - intros s. rewrite <- E. apply G1.
  - intros s. rewrite <- E. apply F1.
  - intros S S' s1 s2. rewrite <- !E. apply L1.
Qed.

(* COMMUTATION: two transformers whose write sets are disjoint from each other's read sets commute on (tt, ttsgn) *)
Lemma Foot_commute (W1 R1 W2 R2 : Z -> Z -> Prop) F G :
  Foot W1 R1 F -> Foot W2 R2 G ->
  (forall i j, 0 <= i < nz -> 0 <= j < nx -> R1 i j -> ~ W2 i j) ->
  (forall i j, 0 <= i < nz -> 0 <= j < nx -> R2 i j -> ~ W1 i j) ->
  (forall i j, 0 <= i < nz -> 0 <= j < nx -> ~ W1 i j \/ ~ W2 i j) ->
  forall s, good s -> agree Top Top (G (F s)) (F (G s)).
Proof.
  intros (G1 & F1 & L1) (G2 & F2 & L2) D1 D2 Dd s Hs.
  pose proof (F1 s Hs) as [A1 B1]. pose proof (F2 s Hs) as [A2 B2].
  pose proof (F1 (G s) (G2 s Hs)) as [A1' B1']. pose proof (F2 (F s) (G1 s Hs)) as [A2' B2'].
  (* G after F versus G alone, on the complement of W1; F after G versus F alone, on the complement of W2 *)
  pose proof (L2 (Cpl W1) (Cpl W1) s (F s) D2 Hs (G1 s Hs) (conj A1 B1)) as [C2 E2].
  pose proof (L1 (Cpl W2) (Cpl W2) s (G s) D1 Hs (G2 s Hs) (conj A2 B2)) as [C1 E1].
  split.
  - intros i j Hi Hj _. destruct (Dd i j Hi Hj) as [N|N].
    + rewrite (A1' i j Hi Hj N). symmetry. apply C2; auto.
    + rewrite (A2' i j Hi Hj N). apply C1; auto.
  - intros Hg i j k Hi Hj Hk _. destruct (Dd i j Hi Hj) as [N|N].
    + rewrite (B1' Hg i j k Hi Hj Hk N). symmetry. apply (E2 Hg); auto.
    + rewrite (B2' Hg i j k Hi Hj Hk N). apply (E1 Hg); auto.
Qed.

(* ---------- elementary facts on `set` ---------- *)
Lemma okT_set tt i j v : okT tt -> okT (set tt [i; j] v).
Proof. intros [W S]. split; [apply wf_set, W | exact S]. Qed.
Lemma okS_set sg i j k v : okS sg -> okS (set sg [i; j; k] v).
Proof. intros [W S]. split; [apply wf_set, W | exact S]. Qed.
Lemma okD_set td j v : okD td -> okD (set td [j] v).
Proof. intros [W S]. split; [apply wf_set, W | exact S]. Qed.

Lemma eqT_set S a b i j v :
  okT a -> okT b -> 0 <= i < nz -> 0 <= j < nx -> eqT S a b -> eqT S (set a [i; j] v) (set b [i; j] v).
Proof.
  intros [Wa Sa] [Wb Sb] Hi Hj E p q Hp Hq Hs.
  destruct (list_eq_dec_Z [i; j] [p; q]) as [Eq|N].
  - injection Eq as <- <-. rewrite !get_set_same; auto; inb_tac.
  - rewrite !get_set_other by (first [exact N | inb_tac]). apply E; auto.
Qed.
Lemma eqS_set S a b i j k v :
  okS a -> okS b -> 0 <= i < nz -> 0 <= j < nx -> 0 <= k < 2 -> eqS S a b ->
  eqS S (set a [i; j; k] v) (set b [i; j; k] v).
Proof.
  intros [Wa Sa] [Wb Sb] Hi Hj Hk E p q r Hp Hq Hr Hs.
  destruct (list_eq_dec_Z [i; j; k] [p; q; r]) as [Eq|N].
  - injection Eq as <- <- <-. rewrite !get_set_same; auto; inb_tac.
  - rewrite !get_set_other by (first [exact N | inb_tac]). apply E; auto.
Qed.
Lemma eqT_set_out a i j v :
  okT a -> 0 <= i < nz -> 0 <= j < nx -> eqT (Cpl (fun p q => p = i /\ q = j)) a (set a [i; j] v).
Proof.
  intros [Wa Sa] Hi Hj p q Hp Hq N. apply get_set_other; try inb_tac.
  intros E. apply N. injection E as -> ->. auto.
Qed.
Lemma eqS_set_out a i j k v :
  okS a -> 0 <= i < nz -> 0 <= j < nx -> 0 <= k < 2 -> eqS (Cpl (fun p q => p = i /\ q = j)) a (set a [i; j; k] v).
Proof.
  intros [Wa Sa] Hi Hj Hk p q r Hp Hq Hr N. apply get_set_other; try inb_tac.
  intros E. apply N. injection E as -> -> _. auto.
Qed.

(* ---------- one block: a conditional update of one node ---------- *)
(* `c` the two nested conditions, `v` the new time *)
Definition upd_cell (c : bool) (v : R) (sgz sgx : Z) (a b : Z) (tt : arr R) (sg : arr Z) : arr R * arr Z :=
  if c then (set tt [a; b] v, if grad then set (set sg [a; b; 0] sgz) [a; b; 1] sgx else sg) else (tt, sg).

(* reads: the previous node (pa, pb), the node (a, b) itself and the real `t` (an entry of the scratch line) *)
Definition cstep (cf : R -> R -> R -> bool) (vf : R -> R -> R) (sgz sgx : Z) (pa pb a b : Z) (t : R) (s : St) : St :=
  let x := get 0%R (tto s) [pa; pb] in
  let y := get 0%R (tto s) [a; b] in
  let r := upd_cell (cf x y t) (vf x y) sgz sgx a b (tto s) (sgo s) in
  (tdo s, fst r, snd r).

Lemma cstep_foot cf vf sgz sgx pa pb a b t :
  0 <= a < nz -> 0 <= b < nx -> 0 <= pa < nz -> 0 <= pb < nx ->
  Foot (fun i j => i = a /\ j = b) (fun i j => (i = a /\ j = b) \/ (i = pa /\ j = pb))
       (cstep cf vf sgz sgx pa pb a b t).
Proof.
  intros Ha Hb Hpa Hpb. split; [|split].
  - intros [[td tt] sg] (Gd & Gt & Gs). unfold cstep, upd_cell, good, tdo, tto, sgo in *. cbn [fst snd] in *.
    destruct (cf _ _ _); cbn [fst snd]; [|auto].
    split; [exact Gd|]. split; [apply okT_set, Gt|].
    intros Hg. rewrite Hg. apply okS_set, okS_set, Gs, Hg.
  - intros [[td tt] sg] (Gd & Gt & Gs). unfold cstep, upd_cell, agree, tdo, tto, sgo in *. cbn [fst snd] in *.
    destruct (cf _ _ _); cbn [fst snd]; [|apply (agree_refl _ _ (td, tt, sg))].
    split; [apply eqT_set_out; auto|].
    intros Hg. rewrite Hg. specialize (Gs Hg).
    intros i j k Hi Hj Hk N.
    rewrite (eqS_set_out (set sg [a; b; 0] sgz) a b 1 sgx (okS_set _ _ _ _ _ Gs) Ha Hb ltac:(lia) i j k Hi Hj Hk N).
    apply (eqS_set_out sg a b 0 sgz Gs Ha Hb ltac:(lia) i j k Hi Hj Hk N).
  - intros S S' [[td1 tt1] sg1] [[td2 tt2] sg2] HS (Gd1 & Gt1 & Gs1) (Gd2 & Gt2 & Gs2) [A B].
    unfold cstep, upd_cell, agree, tdo, tto, sgo in *. cbn [fst snd] in *.
    rewrite (A pa pb Hpa Hpb (HS pa pb Hpa Hpb (or_intror (conj eq_refl eq_refl)))).
    rewrite (A a b Ha Hb (HS a b Ha Hb (or_introl (conj eq_refl eq_refl)))).
    destruct (cf _ _ _); cbn [fst snd]; [|split; assumption].
    split; [apply eqT_set; auto|].
    intros Hg. rewrite Hg. specialize (Gs1 Hg). specialize (Gs2 Hg). specialize (B Hg).
    apply eqS_set; auto; try lia; try (apply okS_set; assumption). apply eqS_set; auto; lia.
Qed.


Lemma tdo_cstep cf vf sgz sgx pa pb a b t s : tdo (cstep cf vf sgz sgx pa pb a b t s) = tdo s.
Proof. reflexivity. Qed.

(* ---------- one iteration of a source-line loop: advance the scratch line from entry `kp` to entry `k`, then two
   blocks whose coefficients depend on these two entries ---------- *)
Section LBody.
Variables (kp k : Z) (nv : R -> R) (C1 C2 : R -> R -> (R -> R -> R -> bool) * (R -> R -> R)).
Variables (s1z s1x s2z s2x p1a p1b a1 b1 p2a p2b a2 b2 : Z).

Definition lbody (s : St) : St :=
  let td' := set (tdo s) [k] (nv (get 0%R (tdo s) [kp])) in
  let tk := get 0%R td' [k] in
  let tp := get 0%R td' [kp] in
  cstep (fst (C2 tk tp)) (snd (C2 tk tp)) s2z s2x p2a p2b a2 b2 tk
    (cstep (fst (C1 tk tp)) (snd (C1 tk tp)) s1z s1x p1a p1b a1 b1 tk (td', tto s, sgo s)).

Hypothesis Hk : 0 <= k < M.
Hypothesis Hkp : 0 <= kp < M.
Hypothesis Hne : kp <> k.
Hypothesis H1 : 0 <= a1 < nz /\ 0 <= b1 < nx /\ 0 <= p1a < nz /\ 0 <= p1b < nx.
Hypothesis H2 : 0 <= a2 < nz /\ 0 <= b2 < nx /\ 0 <= p2a < nz /\ 0 <= p2b < nx.

Definition lW : Z -> Z -> Prop := fun i j => (i = a1 /\ j = b1) \/ (i = a2 /\ j = b2).
Definition lR : Z -> Z -> Prop :=
  fun i j => ((i = a1 /\ j = b1) \/ (i = p1a /\ j = p1b)) \/ ((i = a2 /\ j = b2) \/ (i = p2a /\ j = p2b)).

Lemma two_foot (t u : R) :
  Foot lW lR (fun s => cstep (fst (C2 t u)) (snd (C2 t u)) s2z s2x p2a p2b a2 b2 t
                         (cstep (fst (C1 t u)) (snd (C1 t u)) s1z s1x p1a p1b a1 b1 t s)).
Proof.
  destruct H1 as (? & ? & ? & ?), H2 as (? & ? & ? & ?).
  apply (Foot_comp _ _ _ _ (cstep (fst (C1 t u)) (snd (C1 t u)) s1z s1x p1a p1b a1 b1 t)
           (cstep (fst (C2 t u)) (snd (C2 t u)) s2z s2x p2a p2b a2 b2 t)); apply cstep_foot; assumption.
Qed.

Lemma good_seed s j v : good s -> good (set (tdo s) [j] v, tto s, sgo s).
Proof. intros (Gd & Gt & Gs). split; [apply okD_set, Gd|]. split; assumption. Qed.

Lemma lbody_good s : good s -> good (lbody s).
Proof.
  intros Hs. unfold lbody. cbv zeta.
  match goal with |- good (cstep _ _ _ _ _ _ _ _ ?t (cstep _ _ _ _ _ _ _ _ _ ?s0)) =>
    match goal with |- context [C1 _ ?u] => destruct (two_foot t u) as (G & _ & _); apply (G s0) end end.
  apply good_seed, Hs.
Qed.

Lemma lbody_frame s : good s -> agree (Cpl lW) (Cpl lW) s (lbody s).
Proof.
  intros Hs. unfold lbody. cbv zeta.
  match goal with |- agree _ _ _ (cstep _ _ _ _ _ _ _ _ ?t (cstep _ _ _ _ _ _ _ _ _ ?s0)) =>
    match goal with |- context [C1 _ ?u] => destruct (two_foot t u) as (_ & Fr & _); apply (Fr s0) end end.
  apply good_seed, Hs.
Qed.

Lemma lbody_local (S S' : Z -> Z -> Prop) s s' :
  (forall i j, 0 <= i < nz -> 0 <= j < nx -> lR i j -> S i j) ->
  good s -> good s' -> get 0%R (tdo s') [kp] = get 0%R (tdo s) [kp] -> agree S S' s s' ->
  agree S S' (lbody s) (lbody s') /\ get 0%R (tdo (lbody s')) [k] = get 0%R (tdo (lbody s)) [k].
Proof.
  intros HS Hs Hs' Htd A.
  pose proof Hs as ((Wd & Sd) & _). pose proof Hs' as ((Wd' & Sd') & _).
  unfold lbody. cbv zeta. rewrite !tdo_cstep. cbn [tdo fst snd].
  fold (tdo s) (tdo s'). rewrite Htd.
  set (v := nv (get 0%R (tdo s) [kp])).
  rewrite (get1_set_same (tdo s) M k v Wd Sd Hk), (get1_set_same (tdo s') M k v Wd' Sd' Hk).
  rewrite (get1_set_other (tdo s) M k kp v Sd Hk Hkp ltac:(lia)).
  rewrite (get1_set_other (tdo s') M k kp v Sd' Hk Hkp ltac:(lia)). rewrite Htd.
  split; [|reflexivity].
  destruct (two_foot v (get 0%R (tdo s) [kp])) as (_ & _ & L).
  apply (L S S' (set (tdo s) [k] v, tto s, sgo s) (set (tdo s') [k] v, tto s', sgo s') HS);
    [apply good_seed, Hs | apply good_seed, Hs' | exact A].
Qed.
End LBody.

(* the two blocks of one iteration commute when they concern different lines *)
Lemma lbody_swap kp k nv C1 C2 s1z s1x s2z s2x p1a p1b a1 b1 p2a p2b a2 b2 s :
  0 <= a1 < nz /\ 0 <= b1 < nx /\ 0 <= p1a < nz /\ 0 <= p1b < nx ->
  0 <= a2 < nz /\ 0 <= b2 < nx /\ 0 <= p2a < nz /\ 0 <= p2b < nx ->
  (a1 <> a2 \/ b1 <> b2) -> (a1 <> p2a \/ b1 <> p2b) -> (a2 <> p1a \/ b2 <> p1b) -> good s ->
  agree Top Top (lbody kp k nv C1 C2 s1z s1x s2z s2x p1a p1b a1 b1 p2a p2b a2 b2 s)
                (lbody kp k nv C2 C1 s2z s2x s1z s1x p2a p2b a2 b2 p1a p1b a1 b1 s) /\
  tdo (lbody kp k nv C1 C2 s1z s1x s2z s2x p1a p1b a1 b1 p2a p2b a2 b2 s) =
  tdo (lbody kp k nv C2 C1 s2z s2x s1z s1x p2a p2b a2 b2 p1a p1b a1 b1 s).
Proof.
  intros (? & ? & ? & ?) (? & ? & ? & ?) N12 N1 N2 Hs. split; [|reflexivity].
  unfold lbody. cbv zeta.
  match goal with |- agree _ _ (cstep ?f2 ?v2 _ _ _ _ _ _ ?t (cstep ?f1 ?v1 _ _ _ _ _ _ _ ?s0)) _ =>
    apply (Foot_commute _ _ _ _ (cstep f1 v1 s1z s1x p1a p1b a1 b1 t) (cstep f2 v2 s2z s2x p2a p2b a2 b2 t)
             (cstep_foot f1 v1 s1z s1x p1a p1b a1 b1 t ltac:(assumption) ltac:(assumption) ltac:(assumption) ltac:(assumption))
             (cstep_foot f2 v2 s2z s2x p2a p2b a2 b2 t ltac:(assumption) ltac:(assumption) ltac:(assumption) ltac:(assumption)))
  end.
  - intros i j _ _ Y. lia.
  - intros i j _ _ Y. lia.
  - intros i j _ _. destruct (Z.eq_dec i a1), (Z.eq_dec j b1); [right | left | left | left]; lia.
  - apply good_seed, Hs.
Qed.

(* ---------- a loop of such iterations; `jp k` is the scratch-line entry read by iteration `k` ---------- *)
Fixpoint chain (jp : Z -> Z) (p : Z) (l : list Z) : Prop :=
  match l with [] => True | k :: l' => jp k = p /\ chain jp k l' end.

Section Loop.
Variables (body : Z -> St -> St) (jp : Z -> Z) (Wk Rk : Z -> Z -> Z -> Prop) (P : Z -> Prop).
Hypothesis body_good : forall k s, P k -> good s -> good (body k s).
Hypothesis body_frame : forall k s, P k -> good s -> agree (Cpl (Wk k)) (Cpl (Wk k)) s (body k s).
Hypothesis body_local : forall k (S S' : Z -> Z -> Prop) s s', P k ->
  (forall i j, 0 <= i < nz -> 0 <= j < nx -> Rk k i j -> S i j) ->
  good s -> good s' -> get 0%R (tdo s') [jp k] = get 0%R (tdo s) [jp k] -> agree S S' s s' ->
  agree S S' (body k s) (body k s') /\ get 0%R (tdo (body k s')) [k] = get 0%R (tdo (body k s)) [k].

Lemma loop_good l : forall s, (forall k, In k l -> P k) -> good s -> good (for_list l body s).
Proof.
  induction l as [|k l IH]; intros s HP Hs; [exact Hs|]. rewrite for_list_cons.
  apply IH; [intros q Hq; apply HP; right; exact Hq | apply body_good; [apply HP; left; reflexivity | exact Hs]].
Qed.

Lemma loop_frame l : forall s, (forall k, In k l -> P k) -> good s ->
  agree (Cpl (fun i j => exists k, In k l /\ Wk k i j)) (Cpl (fun i j => exists k, In k l /\ Wk k i j)) s (for_list l body s).
Proof.
  induction l as [|k l IH]; intros s HP Hs; [apply agree_refl|]. rewrite for_list_cons.
  assert (Pk : P k) by (apply HP; left; reflexivity).
  eapply agree_trans.
  - eapply agree_weaken; [| |apply (body_frame k s Pk Hs)];
      intros i j Hi Hj N Y; apply N; exists k; (split; [left; reflexivity | exact Y]).
  - eapply agree_weaken; [| |apply (IH (body k s) (fun q Hq => HP q (or_intror Hq)) (body_good k s Pk Hs))];
      intros i j Hi Hj N (q & Hq & Y); apply N; exists q; (split; [right; exact Hq | exact Y]).
Qed.

Lemma loop_local (S S' : Z -> Z -> Prop) l : forall p s s',
  chain jp p l -> (forall k, In k l -> P k) ->
  (forall k i j, In k l -> 0 <= i < nz -> 0 <= j < nx -> Rk k i j -> S i j) ->
  good s -> good s' -> get 0%R (tdo s') [p] = get 0%R (tdo s) [p] -> agree S S' s s' ->
  agree S S' (for_list l body s) (for_list l body s').
Proof.
  induction l as [|k l IH]; intros p s s' Hc HP HS Hs Hs' Htd A; [exact A|]. rewrite !for_list_cons.
  destruct Hc as [Ep Hc]. assert (Pk : P k) by (apply HP; left; reflexivity).
  rewrite <- Ep in Htd.
  destruct (body_local k S S' s s' Pk (fun i j Hi Hj Y => HS k i j (or_introl eq_refl) Hi Hj Y) Hs Hs' Htd A) as [A' Htd'].
  apply (IH k (body k s) (body k s') Hc (fun q Hq => HP q (or_intror Hq))
           (fun q i j Hq => HS q i j (or_intror Hq)) (body_good k s Pk Hs) (body_good k s' Pk Hs') Htd' A').
Qed.

(* a phase: seed entry `p0` of the scratch line, then loop *)
Lemma phase_foot l p0 (c : R) :
  0 <= p0 < M -> chain jp p0 l -> (forall k, In k l -> P k) ->
  Foot (fun i j => exists k, In k l /\ Wk k i j) (fun i j => exists k, In k l /\ Rk k i j)
       (fun s => for_list l body (set (tdo s) [p0] c, tto s, sgo s)).
Proof.
  intros Hp Hc HP. split; [|split].
  - intros s Hs. apply loop_good; [exact HP | apply good_seed, Hs].
  - intros s Hs. apply (loop_frame l (set (tdo s) [p0] c, tto s, sgo s) HP (good_seed s p0 c Hs)).
  - intros S S' s s' HS Hs Hs' A.
    apply (loop_local S S' l p0 (set (tdo s) [p0] c, tto s, sgo s) (set (tdo s') [p0] c, tto s', sgo s') Hc HP);
      [intros q i j Hq Hi Hj Y; apply HS; auto; exists q; auto | apply good_seed, Hs | apply good_seed, Hs' | | exact A].
    destruct Hs as ((Wd & Sd) & _), Hs' as ((Wd' & Sd') & _). cbn [tdo fst].
    rewrite (get1_set_same _ M p0 c Wd Sd Hp), (get1_set_same _ M p0 c Wd' Sd' Hp). reflexivity.
Qed.
End Loop.

End Foot.

(* ========================================================================================== *)
(* 2. the blocks, the loop bodies, the loops and the phases of fteik2d_p2 have footprints         *)
(* ========================================================================================== *)
(* the time a block computes (x = tt[previous node], y = tt[node]) and its two nested conditions (t = td[line index]) *)
Definition tnx (dx dz vzero xsa zsa dxi dx2i : R) (row : Z) (dzw : R) (sgz sgx jp j : Z) (vref tauv tauev x y : R) : R :=
  let dzi := ndiv (nofZ 1) (nmul dzw dz) in
  let dz2i := ndiv dzi (nmul dzw dz) in
  let taue := nsub x (t_ana row jp dz dx zsa xsa vzero) in
  let u := t_anad row j dz dx zsa xsa vzero in
  delta y tauv taue tauev (fst (fst u)) (snd (fst u)) (snd u) dzi dxi dz2i dx2i vzero vref sgz sgx.
Definition cfx (dx dz vzero xsa zsa dxi dx2i : R) (row : Z) (dzw : R) (sgz sgx jp j : Z) (vref tauv tauev x y t : R) : bool :=
  (ngtb dzw (nofZ 0) && nltb x Big) &&
  (ngeb (tnx dx dz vzero xsa zsa dxi dx2i row dzw sgz sgx jp j vref tauv tauev x y) x &&
   ngeb (tnx dx dz vzero xsa zsa dxi dx2i row dzw sgz sgx jp j vref tauv tauev x y) t).
Definition tnz (dx dz vzero xsa zsa dzi dz2i : R) (col : Z) (dxw : R) (sgz sgx ip i : Z) (vref taue tauev x y : R) : R :=
  let dxi := ndiv (nofZ 1) (nmul dxw dx) in
  let dx2i := ndiv dxi (nmul dxw dx) in
  let tauv := nsub x (t_ana ip col dz dx zsa xsa vzero) in
  let u := t_anad i col dz dx zsa xsa vzero in
  delta y tauv taue tauev (fst (fst u)) (snd (fst u)) (snd u) dzi dxi dz2i dx2i vzero vref sgz sgx.
Definition cfz (dx dz vzero xsa zsa dzi dz2i : R) (col : Z) (dxw : R) (sgz sgx ip i : Z) (vref taue tauev x y t : R) : bool :=
  (ngtb dxw (nofZ 0) && nltb x Big) &&
  (ngeb (tnz dx dz vzero xsa zsa dzi dz2i col dxw sgz sgx ip i vref taue tauev x y) x &&
   ngeb (tnz dx dz vzero xsa zsa dzi dz2i col dxw sgz sgx ip i vref taue tauev x y) t).

Lemma blk_x_upd (dx dz : R) grad (vzero xsa zsa dxi dx2i : R) row (dzw : R) sgz sgx jp j (vref tauv tauev : R) td tt sg :
  blk_x dx dz grad vzero xsa zsa dxi dx2i row dzw sgz sgx jp j vref tauv tauev td tt sg =
  upd_cell grad
    (cfx dx dz vzero xsa zsa dxi dx2i row dzw sgz sgx jp j vref tauv tauev
         (get 0%R tt [row; jp]) (get 0%R tt [row; j]) (get 0%R td [j]))
    (tnx dx dz vzero xsa zsa dxi dx2i row dzw sgz sgx jp j vref tauv tauev (get 0%R tt [row; jp]) (get 0%R tt [row; j]))
    sgz sgx row j tt sg.
Proof.
  unfold blk_x, upd_cell, cfx, tnx. cbv zeta. change (@nofZ R NumR 0) with 0%R.
  destruct (ngtb dzw 0%R && nltb (get 0%R tt [row; jp]) Big); [|reflexivity].
  cbn [andb]. match goal with |- context [if ?g then _ else _] => destruct g end; reflexivity.
Qed.
Lemma blk_z_upd (dx dz : R) grad (vzero xsa zsa dzi dz2i : R) col (dxw : R) sgz sgx ip i (vref taue tauev : R) td tt sg :
  blk_z dx dz grad vzero xsa zsa dzi dz2i col dxw sgz sgx ip i vref taue tauev td tt sg =
  upd_cell grad
    (cfz dx dz vzero xsa zsa dzi dz2i col dxw sgz sgx ip i vref taue tauev
         (get 0%R tt [ip; col]) (get 0%R tt [i; col]) (get 0%R td [i]))
    (tnz dx dz vzero xsa zsa dzi dz2i col dxw sgz sgx ip i vref taue tauev (get 0%R tt [ip; col]) (get 0%R tt [i; col]))
    sgz sgx i col tt sg.
Proof.
  unfold blk_z, upd_cell, cfz, tnz. cbv zeta. change (@nofZ R NumR 0) with 0%R.
  destruct (ngtb dxw 0%R && nltb (get 0%R tt [ip; col]) Big); [|reflexivity].
  cbn [andb]. match goal with |- context [if ?g then _ else _] => destruct g end; reflexivity.
Qed.

(* the bodies of the two x-loops / of the two z-loops as instances of one text: `jp` the previous index,
   `vc` / `vr` the index of the cell of the medium, `adj` the "+ 1" / "- 1" in tauev, `sgx` / `sgz` the sign *)
Definition xbody (jp vc : Z -> Z) (adj : R -> R) (sgx : Z) (dx dz : R) (grad : bool) (slow : arr R) (vzero xsa zsa : R)
    (zsi : Z) (dzu dzd dxi dx2i : R) (j : Z) (u_s_v : St) : St :=
let td := (fst (fst u_s_v)) in
let tt_v := (snd (fst u_s_v)) in
let ttsgn := (snd u_s_v) in
let vref := (get (nofZ 0) slow [zsi; vc j]) in
let td := (set td [j] (nadd (get (nofZ 0) td [jp j]) (nmul dx vref))) in
let tauv := (nsub (get (nofZ 0) td [j]) (nmul (nmul vzero (nabs (nsub (nofZ j) xsa))) dx)) in
let tauev := (nsub (get (nofZ 0) td [jp j]) (nmul (nmul vzero (nabs (adj (nsub (nofZ j) xsa)))) dx)) in
let u_j_v : ((arr R) * (arr Z)) :=
  blk_x dx dz grad vzero xsa zsa dxi dx2i (zsi + 1) dzd 1 sgx (jp j) j vref tauv tauev td tt_v ttsgn in
let tt_v := (fst u_j_v) in
let ttsgn := (snd u_j_v) in
let u_j_v : ((arr R) * (arr Z)) :=
  blk_x dx dz grad vzero xsa zsa dxi dx2i zsi dzu (-1) sgx (jp j) j vref tauv tauev td tt_v ttsgn in
let tt_v := (fst u_j_v) in
let ttsgn := (snd u_j_v) in
(td, tt_v, ttsgn).

Definition zbody (ip vr : Z -> Z) (adj : R -> R) (sgz : Z) (dx dz : R) (grad : bool) (slow : arr R) (vzero xsa zsa : R)
    (xsi : Z) (dxw dxe dzi dz2i : R) (i : Z) (u_s_v : St) : St :=
let td := (fst (fst u_s_v)) in
let tt_v := (snd (fst u_s_v)) in
let ttsgn := (snd u_s_v) in
let vref := (get (nofZ 0) slow [vr i; xsi]) in
let td := (set td [i] (nadd (get (nofZ 0) td [ip i]) (nmul dz vref))) in
let taue := (nsub (get (nofZ 0) td [i]) (nmul (nmul vzero (nabs (nsub (nofZ i) zsa))) dz)) in
let tauev := (nsub (get (nofZ 0) td [ip i]) (nmul (nmul vzero (nabs (adj (nsub (nofZ i) zsa)))) dz)) in
let u_j_v : ((arr R) * (arr Z)) :=
  blk_z dx dz grad vzero xsa zsa dzi dz2i (xsi + 1) dxe sgz 1 (ip i) i vref taue tauev td tt_v ttsgn in
let tt_v := (fst u_j_v) in
let ttsgn := (snd u_j_v) in
let u_j_v : ((arr R) * (arr Z)) :=
  blk_z dx dz grad vzero xsa zsa dzi dz2i xsi dxw sgz (-1) (ip i) i vref taue tauev td tt_v ttsgn in
let tt_v := (fst u_j_v) in
let ttsgn := (snd u_j_v) in
(td, tt_v, ttsgn).

Definition adjm : R -> R := fun x => nsub x (nofZ 1).
Definition adjp : R -> R := fun x => nadd x (nofZ 1).

Lemma east_body_x (dx dz : R) grad slow (vzero xsa zsa : R) zsi (dzu dzd dxi dx2i : R) :
  east_body dx dz grad slow vzero xsa zsa zsi dzu dzd dxi dx2i =
  xbody (fun j => j - 1) (fun j => j - 1) adjm 1 dx dz grad slow vzero xsa zsa zsi dzu dzd dxi dx2i.
Proof. reflexivity. Qed.
Lemma west_body_x (dx dz : R) grad slow (vzero xsa zsa : R) zsi (dzu dzd dxi dx2i : R) :
  west_body dx dz grad slow vzero xsa zsa zsi dzu dzd dxi dx2i =
  xbody (fun j => j + 1) (fun j => j) adjp (-1) dx dz grad slow vzero xsa zsa zsi dzu dzd dxi dx2i.
Proof. reflexivity. Qed.
Lemma down_body_z (dx dz : R) grad slow (vzero xsa zsa : R) xsi (dxw dxe dzi dz2i : R) :
  down_body dx dz grad slow vzero xsa zsa xsi dxw dxe dzi dz2i =
  zbody (fun i => i - 1) (fun i => i - 1) adjm 1 dx dz grad slow vzero xsa zsa xsi dxw dxe dzi dz2i.
Proof. reflexivity. Qed.
Lemma up_body_z (dx dz : R) grad slow (vzero xsa zsa : R) xsi (dxw dxe dzi dz2i : R) :
  up_body dx dz grad slow vzero xsa zsa xsi dxw dxe dzi dz2i =
  zbody (fun i => i + 1) (fun i => i) adjp (-1) dx dz grad slow vzero xsa zsa xsi dxw dxe dzi dz2i.
Proof. reflexivity. Qed.

(* both are `lbody`s *)
Lemma xbody_l jp vc adj sgx (dx dz : R) grad slow (vzero xsa zsa : R) zsi (dzu dzd dxi dx2i : R) j s :
  xbody jp vc adj sgx dx dz grad slow vzero xsa zsa zsi dzu dzd dxi dx2i j s =
  let vref := get 0%R slow [zsi; vc j] in
  let tauv := fun tk : R => nsub tk (nmul (nmul vzero (nabs (nsub (nofZ j) xsa))) dx) in
  let tauev := fun tp : R => nsub tp (nmul (nmul vzero (nabs (adj (nsub (nofZ j) xsa)))) dx) in
  lbody grad (jp j) j (fun t => nadd t (nmul dx vref))
    (fun tk tp => (cfx dx dz vzero xsa zsa dxi dx2i (zsi + 1) dzd 1 sgx (jp j) j vref (tauv tk) (tauev tp),
                   tnx dx dz vzero xsa zsa dxi dx2i (zsi + 1) dzd 1 sgx (jp j) j vref (tauv tk) (tauev tp)))
    (fun tk tp => (cfx dx dz vzero xsa zsa dxi dx2i zsi dzu (-1) sgx (jp j) j vref (tauv tk) (tauev tp),
                   tnx dx dz vzero xsa zsa dxi dx2i zsi dzu (-1) sgx (jp j) j vref (tauv tk) (tauev tp)))
    1 sgx (-1) sgx (zsi + 1) (jp j) (zsi + 1) j zsi (jp j) zsi j s.
Proof.
  destruct s as [[td tt] sg]. unfold xbody, lbody, cstep. cbv beta zeta. cbn [fst snd tdo tto sgo].
  rewrite !blk_x_upd. reflexivity.
Qed.
Lemma zbody_l ip vr adj sgz (dx dz : R) grad slow (vzero xsa zsa : R) xsi (dxw dxe dzi dz2i : R) i s :
  zbody ip vr adj sgz dx dz grad slow vzero xsa zsa xsi dxw dxe dzi dz2i i s =
  let vref := get 0%R slow [vr i; xsi] in
  let taue := fun tk : R => nsub tk (nmul (nmul vzero (nabs (nsub (nofZ i) zsa))) dz) in
  let tauev := fun tp : R => nsub tp (nmul (nmul vzero (nabs (adj (nsub (nofZ i) zsa)))) dz) in
  lbody grad (ip i) i (fun t => nadd t (nmul dz vref))
    (fun tk tp => (cfz dx dz vzero xsa zsa dzi dz2i (xsi + 1) dxe sgz 1 (ip i) i vref (taue tk) (tauev tp),
                   tnz dx dz vzero xsa zsa dzi dz2i (xsi + 1) dxe sgz 1 (ip i) i vref (taue tk) (tauev tp)))
    (fun tk tp => (cfz dx dz vzero xsa zsa dzi dz2i xsi dxw sgz (-1) (ip i) i vref (taue tk) (tauev tp),
                   tnz dx dz vzero xsa zsa dzi dz2i xsi dxw sgz (-1) (ip i) i vref (taue tk) (tauev tp)))
    sgz 1 sgz (-1) (ip i) (xsi + 1) i (xsi + 1) (ip i) xsi i xsi s.
Proof.
  destruct s as [[td tt] sg]. unfold zbody, lbody, cstep. cbv beta zeta. cbn [fst snd tdo tto sgo].
  rewrite !blk_z_upd. reflexivity.
Qed.

Lemma chain_up a n : chain (fun j => j - 1) (a - 1) (upto a n).
Proof.
  revert a. induction n as [|n IH]; intros a; [exact I|]. rewrite upto_S. split; [reflexivity|].
  replace a with (a + 1 - 1) at 1 by lia. apply IH.
Qed.
Lemma chain_down c b n : chain (fun j => j + 1) (c - b + 1) (map (fun i => c - i) (upto b n)).
Proof.
  revert b. induction n as [|n IH]; intros b; [exact I|]. rewrite upto_S. cbn [map]. split; [reflexivity|].
  replace (c - b) with (c - (b + 1) + 1) at 1 by lia. apply IH.
Qed.
Lemma chain_pyrange_up a b : chain (fun j => j - 1) (a - 1) (pyrange a b 1).
Proof. rewrite pyrange_up. apply chain_up. Qed.
Lemma chain_pyrange_down a : chain (fun j => j + 1) (a + 1) (pyrange a (-1) (-1)).
Proof. rewrite (pyrange_down a a). replace (a + 1) with (a - (a - a) + 1) by lia. apply chain_down. Qed.

Section Phases.
Variables (nz nx M : Z) (grad : bool).
Variables (dx dz : R) (slow : arr R) (vzero xsa zsa : R) (zsi xsi : Z).
Hypothesis HM : nx <= M /\ nz <= M.
Hypothesis Hzsi : 0 <= zsi < nz - 1.
Hypothesis Hxsi : 0 <= xsi < nx - 1.

Notation Foot := (Foot nz nx M grad).
Notation good := (good nz nx M grad).
Notation agree := (agree nz nx grad).

Definition OnR (i : Z) : Prop := i = zsi + 1 \/ i = zsi.
Definition OnC (j : Z) : Prop := j = xsi + 1 \/ j = xsi.

(* a generic x-phase / z-phase *)
Lemma xphase_foot jp vc adj sgx (dzu dzd dxi dx2i : R) l p0 (c : R) :
  0 <= p0 < nx -> chain jp p0 l -> (forall k, In k l -> 0 <= k < nx /\ 0 <= jp k < nx /\ jp k <> k) ->
  Foot (fun i j => exists k, In k l /\ OnR i /\ j = k)
       (fun i j => exists k, In k l /\ OnR i /\ (j = k \/ j = jp k))
       (fun s => for_list l (xbody jp vc adj sgx dx dz grad slow vzero xsa zsa zsi dzu dzd dxi dx2i)
                   (set (tdo s) [p0] c, tto s, sgo s)).
Proof.
  intros Hp Hc HP.
  eapply Foot_weaken;
    [| |apply (phase_foot nz nx M grad (xbody jp vc adj sgx dx dz grad slow vzero xsa zsa zsi dzu dzd dxi dx2i) jp
                 (fun k => lW (zsi + 1) k zsi k) (fun k => lR (zsi + 1) (jp k) (zsi + 1) k zsi (jp k) zsi k)
                 (fun k => 0 <= k < nx /\ 0 <= jp k < nx /\ jp k <> k))].
  - intros i j _ _ (k & Hk & Y). exists k. split; [exact Hk|]. unfold lW, OnR in *. lia.
  - intros i j _ _ (k & Hk & Y). exists k. split; [exact Hk|]. unfold lR, OnR in *. lia.
  - intros k s (K1 & K2 & K3) Hs. rewrite xbody_l. cbv zeta. apply lbody_good; auto; lia.
  - intros k s (K1 & K2 & K3) Hs. rewrite xbody_l. cbv zeta. apply (lbody_frame nz nx M); auto; lia.
  - intros k S S' s s' (K1 & K2 & K3) HS Hs Hs' Htd A. rewrite !xbody_l. cbv zeta.
    apply (lbody_local nz nx M); auto; lia.
  - lia.
  - exact Hc.
  - exact HP.
Qed.

Lemma zphase_foot ip vr adj sgz (dxw dxe dzi dz2i : R) l p0 (c : R) :
  0 <= p0 < nz -> chain ip p0 l -> (forall k, In k l -> 0 <= k < nz /\ 0 <= ip k < nz /\ ip k <> k) ->
  Foot (fun i j => exists k, In k l /\ OnC j /\ i = k)
       (fun i j => exists k, In k l /\ OnC j /\ (i = k \/ i = ip k))
       (fun s => for_list l (zbody ip vr adj sgz dx dz grad slow vzero xsa zsa xsi dxw dxe dzi dz2i)
                   (set (tdo s) [p0] c, tto s, sgo s)).
Proof.
  intros Hp Hc HP.
  eapply Foot_weaken;
    [| |apply (phase_foot nz nx M grad (zbody ip vr adj sgz dx dz grad slow vzero xsa zsa xsi dxw dxe dzi dz2i) ip
                 (fun k => lW k (xsi + 1) k xsi) (fun k => lR (ip k) (xsi + 1) k (xsi + 1) (ip k) xsi k xsi)
                 (fun k => 0 <= k < nz /\ 0 <= ip k < nz /\ ip k <> k))].
  - intros i j _ _ (k & Hk & Y). exists k. split; [exact Hk|]. unfold lW, OnC in *. lia.
  - intros i j _ _ (k & Hk & Y). exists k. split; [exact Hk|]. unfold lR, OnC in *. lia.
  - intros k s (K1 & K2 & K3) Hs. rewrite zbody_l. cbv zeta. apply lbody_good; auto; lia.
  - intros k s (K1 & K2 & K3) Hs. rewrite zbody_l. cbv zeta. apply (lbody_frame nz nx M); auto; lia.
  - intros k S S' s s' (K1 & K2 & K3) HS Hs Hs' Htd A. rewrite !zbody_l. cbv zeta.
    apply (lbody_local nz nx M); auto; lia.
  - lia.
  - exact Hc.
  - exact HP.
Qed.

(* (i) THE FOOTPRINTS OF THE FOUR PHASES.  First set: the nodes a phase may write.  Second set: the nodes on which
   its result depends (the two corner nodes of its side and the nodes it writes).  Neither the scratch line on entry
   nor any other node matters. *)
Definition WE : Z -> Z -> Prop := fun i j => OnR i /\ xsi + 2 <= j.
Definition RE : Z -> Z -> Prop := fun i j => OnR i /\ xsi + 1 <= j.
Definition WW : Z -> Z -> Prop := fun i j => OnR i /\ j <= xsi - 1.
Definition RW : Z -> Z -> Prop := fun i j => OnR i /\ j <= xsi.
Definition WD : Z -> Z -> Prop := fun i j => OnC j /\ zsi + 2 <= i.
Definition RD : Z -> Z -> Prop := fun i j => OnC j /\ zsi + 1 <= i.
Definition WU : Z -> Z -> Prop := fun i j => OnC j /\ i <= zsi - 1.
Definition RU : Z -> Z -> Prop := fun i j => OnC j /\ i <= zsi.

Theorem east_foot (dzu dzd dxe : R) :
  Foot WE RE (east_phase dx dz grad nx slow vzero xsa xsi zsa zsi dzu dzd dxe).
Proof.
  eapply Foot_ext; [|eapply Foot_weaken; [| |
    apply (xphase_foot (fun j => j - 1) (fun j => j - 1) adjm 1 dzu dzd (ndiv (nofZ 1) dx) (ndiv (ndiv (nofZ 1) dx) dx)
             (pyrange (xsi + 2) nx 1) (xsi + 1) (nmul (nmul vzero dxe) dx))]].
  - intros [[td tt] sg]. reflexivity.
  - intros i j _ _ (k & Hk & Y & ->). apply in_pyrange_up in Hk. split; [exact Y | lia].
  - intros i j _ _ (k & Hk & Y & Z0). apply in_pyrange_up in Hk. split; [exact Y | lia].
  - lia.
  - replace (xsi + 1) with (xsi + 2 - 1) by lia. apply chain_pyrange_up.
  - intros k Hk. apply in_pyrange_up in Hk. lia.
Qed.
Theorem west_foot (dzu dzd dxw : R) :
  Foot WW RW (west_phase dx dz grad slow vzero xsa xsi zsa zsi dzu dzd dxw).
Proof.
  eapply Foot_ext; [|eapply Foot_weaken; [| |
    apply (xphase_foot (fun j => j + 1) (fun j => j) adjp (-1) dzu dzd (ndiv (nofZ 1) dx) (ndiv (ndiv (nofZ 1) dx) dx)
             (pyrange (xsi - 1) (-1) (-1)) xsi (nmul (nmul vzero dxw) dx))]].
  - intros [[td tt] sg]. reflexivity.
  - intros i j _ _ (k & Hk & Y & ->). apply in_pyrange_down in Hk. split; [exact Y | lia].
  - intros i j _ _ (k & Hk & Y & Z0). apply in_pyrange_down in Hk. split; [exact Y | lia].
  - lia.
  - replace xsi with (xsi - 1 + 1) at 1 by lia. apply chain_pyrange_down.
  - intros k Hk. apply in_pyrange_down in Hk. lia.
Qed.
Theorem down_foot (dxw dxe dzd : R) :
  Foot WD RD (down_phase dx dz grad nz slow vzero xsa xsi zsa zsi dxw dxe dzd).
Proof.
  eapply Foot_ext; [|eapply Foot_weaken; [| |
    apply (zphase_foot (fun j => j - 1) (fun j => j - 1) adjm 1 dxw dxe (ndiv (nofZ 1) dz) (ndiv (ndiv (nofZ 1) dz) dz)
             (pyrange (zsi + 2) nz 1) (zsi + 1) (nmul (nmul vzero dzd) dz))]].
  - intros [[td tt] sg]. reflexivity.
  - intros i j _ _ (k & Hk & Y & ->). apply in_pyrange_up in Hk. split; [exact Y | lia].
  - intros i j _ _ (k & Hk & Y & Z0). apply in_pyrange_up in Hk. split; [exact Y | lia].
  - lia.
  - replace (zsi + 1) with (zsi + 2 - 1) by lia. apply chain_pyrange_up.
  - intros k Hk. apply in_pyrange_up in Hk. lia.
Qed.
Theorem up_foot (dxw dxe dzu : R) :
  Foot WU RU (up_phase dx dz grad slow vzero xsa xsi zsa zsi dxw dxe dzu).
Proof.
  eapply Foot_ext; [|eapply Foot_weaken; [| |
    apply (zphase_foot (fun j => j + 1) (fun j => j) adjp (-1) dxw dxe (ndiv (nofZ 1) dz) (ndiv (ndiv (nofZ 1) dz) dz)
             (pyrange (zsi - 1) (-1) (-1)) zsi (nmul (nmul vzero dzu) dz))]].
  - intros [[td tt] sg]. reflexivity.
  - intros i j _ _ (k & Hk & Y & ->). apply in_pyrange_down in Hk. split; [exact Y | lia].
  - intros i j _ _ (k & Hk & Y & Z0). apply in_pyrange_down in Hk. split; [exact Y | lia].
  - lia.
  - replace zsi with (zsi - 1 + 1) at 1 by lia. apply chain_pyrange_down.
  - intros k Hk. apply in_pyrange_down in Hk. lia.
Qed.

End Phases.

(* ========================================================================================== *)
(* 3. commutation of the phases                                                                  *)
(* ========================================================================================== *)
(* the four loops of the block in the order of the code; `td` is refilled between the x- and the z-loops *)
Definition phases (dx dz : R) (grad : bool) (nx nz : Z) (slow : arr R) (vzero xsa : R) (xsi : Z) (zsa : R) (zsi : Z)
    (dzu dzd dxw dxe : R) (s : St) : St :=
  let st := east_phase dx dz grad nx slow vzero xsa xsi zsa zsi dzu dzd dxe s in
  let st := west_phase dx dz grad slow vzero xsa xsi zsa zsi dzu dzd dxw st in
  let st := down_phase dx dz grad nz slow vzero xsa xsi zsa zsi dxw dxe dzd (fill (fst (fst st)) Big, snd (fst st), snd st) in
  up_phase dx dz grad slow vzero xsa xsi zsa zsi dxw dxe dzu st.

Lemma fteik2d_p2_phases (dx dz : R) grad nx nz slow (tt_v ttgrad : arr R) ttsgn (vzero xsa : R) xsi (zsa : R) zsi :
  fteik2d_p2 dx dz grad 2 nx nz slow tt_v ttgrad ttsgn vzero xsa xsi zsa zsi =
  let dzu := (nabs (nsub zsa (nofZ zsi))) in
  let dzd := (nsub (nofZ 1) dzu) in
  let dxw := (nabs (nsub xsa (nofZ xsi))) in
  let dxe := (nsub (nofZ 1) dxw) in
  let c := init_corners dx dz grad vzero xsa xsi zsa zsi tt_v ttgrad in
  let st := phases dx dz grad nx nz slow vzero xsa xsi zsa zsi dzu dzd dxw dxe (full [(Z.max nz nx)] Big, fst c, ttsgn) in
  (snd (fst st), snd c, snd st).
Proof. rewrite fteik2d_p2_decompose. reflexivity. Qed.

Section Commute.
Variables (nz nx M : Z) (grad : bool).
Variables (dx dz : R) (slow : arr R) (vzero xsa zsa : R) (zsi xsi : Z) (dzu dzd dxw dxe : R).
Hypothesis HM : nx <= M /\ nz <= M.
Hypothesis Hzsi : 0 <= zsi < nz - 1.
Hypothesis Hxsi : 0 <= xsi < nx - 1.

Notation Foot := (Foot nz nx M grad).
Notation good := (good nz nx M grad).
Notation agree := (agree nz nx grad).
Notation E := (east_phase dx dz grad nx slow vzero xsa xsi zsa zsi dzu dzd dxe).
Notation W := (west_phase dx dz grad slow vzero xsa xsi zsa zsi dzu dzd dxw).
Notation D := (down_phase dx dz grad nz slow vzero xsa xsi zsa zsi dxw dxe dzd).
Notation U := (up_phase dx dz grad slow vzero xsa xsi zsa zsi dxw dxe dzu).
Notation wE := (WE zsi xsi). Notation rE := (RE zsi xsi).
Notation wW := (WW zsi xsi). Notation rW := (RW zsi xsi).
Notation wD := (WD zsi xsi). Notation rD := (RD zsi xsi).
Notation wU := (WU zsi xsi). Notation rU := (RU zsi xsi).

Lemma E_foot : Foot wE rE E. Proof. apply east_foot; assumption. Qed.
Lemma W_foot : Foot wW rW W. Proof. apply west_foot; assumption. Qed.
Lemma D_foot : Foot wD rD D. Proof. apply down_foot; assumption. Qed.
Lemma U_foot : Foot wU rU U. Proof. apply up_foot; assumption. Qed.

Lemma X_foot : Foot (fun i j => wE i j \/ wW i j) (fun i j => rE i j \/ rW i j) (fun s => W (E s)).
Proof. apply (Foot_comp _ _ _ _ _ _ _ _ E W E_foot W_foot). Qed.
Lemma Z_foot : Foot (fun i j => wD i j \/ wU i j) (fun i j => rD i j \/ rU i j) (fun s => U (D s)).
Proof. apply (Foot_comp _ _ _ _ _ _ _ _ D U D_foot U_foot). Qed.

(* (ii) THE X-PHASES AND THE Z-PHASES COMMUTE on the time and sign arrays.  (The scratch line `td` is not compared:
   it ends with different contents, and is dead after the block.) *)
Theorem x_z_commute s : good s -> agree Top Top (U (D (W (E s)))) (W (E (U (D s)))).
Proof.
  apply (Foot_commute _ _ _ _ _ _ _ _ (fun s => W (E s)) (fun s => U (D s)) X_foot Z_foot);
    unfold WE, RE, WW, RW, WD, RD, WU, RU, OnR, OnC.
  - intros i j _ _ Y. lia.
  - intros i j _ _ Y. lia.
  - intros i j _ _. destruct (Z_le_gt_dec zsi i), (Z_le_gt_dec i (zsi + 1)); [right | left | left | left]; lia.
Qed.
Theorem east_west_commute s : good s -> agree Top Top (W (E s)) (E (W s)).
Proof.
  apply (Foot_commute _ _ _ _ _ _ _ _ E W E_foot W_foot);
    unfold WE, RE, WW, RW, OnR.
  - intros i j _ _ Y. lia.
  - intros i j _ _ Y. lia.
  - intros i j _ _. destruct (Z_le_gt_dec j xsi); [left | right]; lia.
Qed.
Theorem down_up_commute s : good s -> agree Top Top (U (D s)) (D (U s)).
Proof.
  apply (Foot_commute _ _ _ _ _ _ _ _ D U D_foot U_foot);
    unfold WD, RD, WU, RU, OnC.
  - intros i j _ _ Y. lia.
  - intros i j _ _ Y. lia.
  - intros i j _ _. destruct (Z_le_gt_dec i zsi); [left | right]; lia.
Qed.

(* refilling the scratch line changes nothing *)
Lemma good_refill s : good s -> good (fill (fst (fst s)) Big, snd (fst s), snd s).
Proof.
  intros ((Wd & Sd) & Gt & Gs). split; [|split; assumption]. unfold okD, tdo, fill. cbn [fst snd].
  split; [apply wf_full; destruct Wd as [_ F]; exact F | exact Sd].
Qed.

Notation P := (phases dx dz grad nx nz slow vzero xsa xsi zsa zsi dzu dzd dxw dxe).

Lemma phases_good s : good s -> good (P s).
Proof.
  intros Hs. unfold phases. cbv zeta.
  destruct E_foot as (GE & _), W_foot as (GW & _), D_foot as (GD & _), U_foot as (GU & _).
  apply GU, GD, good_refill, GW, GE, Hs.
Qed.
(* the code order, without the refill *)
Lemma phases_xz s : good s -> agree Top Top (P s) (U (D (W (E s)))).
Proof.
  intros Hs. unfold phases. cbv zeta.
  destruct E_foot as (GE & _), W_foot as (GW & _), Z_foot as (_ & _ & LZ).
  apply agree_sym.
  apply (LZ Top Top (W (E s)) (fill (fst (fst (W (E s)))) Big, snd (fst (W (E s))), snd (W (E s))));
    [intros; exact I | apply GW, GE, Hs | apply good_refill, GW, GE, Hs | apply agree_same; reflexivity].
Qed.
(* the z-loops first *)
Theorem phases_zx s : good s -> agree Top Top (P s) (W (E (U (D s)))).
Proof. intros Hs. eapply agree_trans; [apply phases_xz, Hs | apply x_z_commute, Hs]. Qed.
(* ... and, inside the x-loops, west first *)
Theorem phases_wexz s : good s -> agree Top Top (P s) (U (D (E (W s)))).
Proof.
  intros Hs. eapply agree_trans; [apply phases_xz, Hs|].
  destruct E_foot as (GE & _), W_foot as (GW & _), Z_foot as (_ & _ & LZ).
  apply (LZ Top Top (W (E s)) (E (W s))); [intros; exact I | apply GW, GE, Hs | apply GE, GW, Hs | apply east_west_commute, Hs].
Qed.
End Commute.

(* ========================================================================================== *)
(* 4. the geometric relations: symmetry, transport along `agree`, construction cell by cell      *)
(* ========================================================================================== *)
Lemma arel_sym {A} (d : A) (dom dom' : list Z -> Prop) f f' g g' a a' :
  (forall ix, dom' ix -> dom (f' ix) /\ f (f' ix) = ix /\ forall v, g' ix (g (f' ix) v) = v) ->
  arel d dom f g a a' -> arel d dom' f' g' a' a.
Proof.
  intros H (W & W' & Hin & Hg). split; [exact W'|]. split; [exact W|]. split.
  - intros ix Hd. destruct (H ix Hd) as (D & E & _). destruct (Hin _ D) as [I1 I2]. rewrite E in I2. auto.
  - intros ix Hd. destruct (H ix Hd) as (D & E & G). pose proof (Hg _ D) as Q. rewrite E in Q. rewrite Q, G. reflexivity.
Qed.
Lemma arel_ext {A} (d : A) dom f g a a' b b' :
  arel d dom f g a a' -> wf b -> wf b' ->
  (forall ix, dom ix -> inb b ix = true /\ get d b ix = get d a ix) ->
  (forall ix, dom ix -> inb b' (f ix) = true /\ get d b' (f ix) = get d a' (f ix)) ->
  arel d dom f g b b'.
Proof.
  intros (W & W' & Hin & Hg) Wb Wb' Hb Hb'. split; [exact Wb|]. split; [exact Wb'|]. split.
  - intros ix Hd. split; [apply Hb, Hd | apply Hb', Hd].
  - intros ix Hd. destruct (Hb ix Hd) as [_ ->]. destruct (Hb' ix Hd) as [_ ->]. apply Hg, Hd.
Qed.

(* the gradient array: component k under transposition, sign of component 1 / 0 under the x- / z-mirror *)
Definition gnegR (c : Z) (ix : list Z) (v : R) : R :=
  match ix with
  | [_; _; k] => if k =? c then (- v)%R else v
  | _ => v
  end.
Definition RelGRt (nz nx : Z) : arr R -> arr R -> Prop := arel 0%R (dom3 nz nx) ftr gid.
Definition RelGRx (nz nx : Z) : arr R -> arr R -> Prop := arel 0%R (dom3 nz nx) (fmx nx) (gnegR 1).
Definition RelGRz (nz nx : Z) : arr R -> arr R -> Prop := arel 0%R (dom3 nz nx) (fmz nz) (gnegR 0).
Definition okG (nz nx : Z) (tg : arr R) : Prop := wf tg /\ shape tg = [nz; nx; 2].

Ltac dom_inv :=
  repeat match goal with
  | H : dom2 _ _ _ |- _ => destruct H as (?i & ?j & -> & ? & ?)
  | H : dom3 _ _ _ |- _ => destruct H as (?i & ?j & ?k & -> & ? & ? & ?)
  end.

(* --- symmetry --- *)
Lemma RelTTt_sym nz nx a a' : RelTTt nz nx a a' -> RelTTt nx nz a' a.
Proof. apply arel_sym. intros ix Hd. dom_inv. cbn [ftr fmx gid]. split; [apply dom2_intro; lia|]. split; reflexivity. Qed.
Lemma RelSLt_sym nz nx a a' : RelSLt nz nx a a' -> RelSLt nx nz a' a.
Proof. apply arel_sym. intros ix Hd. dom_inv. cbn [ftr fmx gid]. split; [apply dom2_intro; lia|]. split; reflexivity. Qed.
Lemma ftr3_invol i j k : [i; j; 1 - (1 - k)] = [i; j; k].
Proof. repeat f_equal. lia. Qed.
Lemma RelSGt_sym nz nx a a' : RelSGt nz nx a a' -> RelSGt nx nz a' a.
Proof. apply arel_sym. intros ix Hd. dom_inv. cbn [ftr fmx gid]. split; [apply dom3_intro; lia|]. split; [apply ftr3_invol | reflexivity]. Qed.
Lemma RelGRt_sym nz nx a a' : RelGRt nz nx a a' -> RelGRt nx nz a' a.
Proof. apply arel_sym. intros ix Hd. dom_inv. cbn [ftr fmx gid]. split; [apply dom3_intro; lia|]. split; [apply ftr3_invol | reflexivity]. Qed.

Lemma fmx2_invol n i j : [i; n - 1 - (n - 1 - j)] = [i; j].
Proof. repeat f_equal. lia. Qed.
Lemma fmx3_invol n i j (k : Z) : [i; n - 1 - (n - 1 - j); k] = [i; j; k].
Proof. repeat f_equal. lia. Qed.
Lemma RelTTx_sym nz nx a a' : RelTTx nz nx a a' -> RelTTx nz nx a' a.
Proof. apply arel_sym. intros ix Hd. dom_inv. cbn [ftr fmx gid]. split; [apply dom2_intro; lia|]. split; [apply fmx2_invol | reflexivity]. Qed.
Lemma RelSLx_sym nz nx a a' : RelSLx nz nx a a' -> RelSLx nz nx a' a.
Proof. apply arel_sym. intros ix Hd. dom_inv. cbn [ftr fmx gid]. split; [apply dom2_intro; lia|]. split; [apply fmx2_invol | reflexivity]. Qed.
Lemma RelSGx_sym nz nx a a' : RelSGx nz nx a a' -> RelSGx nz nx a' a.
Proof.
  apply arel_sym. intros ix Hd. dom_inv. cbn [fmx gneg]. split; [apply dom3_intro; lia|]. split; [apply fmx3_invol|].
  intros v. destruct (k =? 1); lia.
Qed.
Lemma RelGRx_sym nz nx a a' : RelGRx nz nx a a' -> RelGRx nz nx a' a.
Proof.
  apply arel_sym. intros ix Hd. dom_inv. cbn [fmx gnegR]. split; [apply dom3_intro; lia|]. split; [apply fmx3_invol|].
  intros v. destruct (k =? 1); lra.
Qed.

(* --- construction from a cell-wise statement --- *)
Lemma RelTTt_intro nz nx a a' :
  okT nz nx a -> okT nx nz a' ->
  (forall i j, 0 <= i < nz -> 0 <= j < nx -> get 0%R a' [j; i] = get 0%R a [i; j]) -> RelTTt nz nx a a'.
Proof.
  intros [W S] [W' S'] H. split; [exact W|]. split; [exact W'|]. split; intros ix Hd; dom_inv; cbn [ftr gid].
  - split; inb_tac.
  - apply H; assumption.
Qed.
Lemma RelSGt_intro nz nx a a' :
  okS nz nx a -> okS nx nz a' ->
  (forall i j k, 0 <= i < nz -> 0 <= j < nx -> 0 <= k < 2 -> get 0 a' [j; i; 1 - k] = get 0 a [i; j; k]) ->
  RelSGt nz nx a a'.
Proof.
  intros [W S] [W' S'] H. split; [exact W|]. split; [exact W'|]. split; intros ix Hd; dom_inv; cbn [ftr gid].
  - split; inb_tac.
  - apply H; assumption.
Qed.
Lemma RelGRt_intro nz nx a a' :
  okG nz nx a -> okG nx nz a' ->
  (forall i j k, 0 <= i < nz -> 0 <= j < nx -> 0 <= k < 2 -> get 0%R a' [j; i; 1 - k] = get 0%R a [i; j; k]) ->
  RelGRt nz nx a a'.
Proof.
  intros [W S] [W' S'] H. split; [exact W|]. split; [exact W'|]. split; intros ix Hd; dom_inv; cbn [ftr gid].
  - split; inb_tac.
  - apply H; assumption.
Qed.
Lemma RelTTx_intro nz nx a a' :
  okT nz nx a -> okT nz nx a' ->
  (forall i j, 0 <= i < nz -> 0 <= j < nx -> get 0%R a' [i; nx - 1 - j] = get 0%R a [i; j]) -> RelTTx nz nx a a'.
Proof.
  intros [W S] [W' S'] H. split; [exact W|]. split; [exact W'|]. split; intros ix Hd; dom_inv; cbn [fmx gid].
  - split; inb_tac.
  - apply H; assumption.
Qed.
Lemma RelSGx_intro nz nx a a' :
  okS nz nx a -> okS nz nx a' ->
  (forall i j k, 0 <= i < nz -> 0 <= j < nx -> 0 <= k < 2 ->
     get 0 a' [i; nx - 1 - j; k] = if k =? 1 then - get 0 a [i; j; k] else get 0 a [i; j; k]) ->
  RelSGx nz nx a a'.
Proof.
  intros [W S] [W' S'] H. split; [exact W|]. split; [exact W'|]. split; intros ix Hd; dom_inv; cbn [fmx gneg].
  - split; inb_tac.
  - apply H; assumption.
Qed.
Lemma RelGRx_intro nz nx a a' :
  okG nz nx a -> okG nz nx a' ->
  (forall i j k, 0 <= i < nz -> 0 <= j < nx -> 0 <= k < 2 ->
     get 0%R a' [i; nx - 1 - j; k] = if k =? 1 then (- get 0%R a [i; j; k])%R else get 0%R a [i; j; k]) ->
  RelGRx nz nx a a'.
Proof.
  intros [W S] [W' S'] H. split; [exact W|]. split; [exact W'|]. split; intros ix Hd; dom_inv; cbn [fmx gnegR].
  - split; inb_tac.
  - apply H; assumption.
Qed.
Lemma relGRt_get nz nx s s' i j k :
  RelGRt nz nx s s' -> 0 <= i < nz -> 0 <= j < nx -> 0 <= k < 2 -> get 0%R s' [j; i; 1 - k] = get 0%R s [i; j; k].
Proof. intros H Hi Hj Hk. exact (arel_get 0%R _ _ _ s s' [i; j; k] _ H (dom3_intro _ _ _ _ _ Hi Hj Hk) eq_refl). Qed.
Lemma relGRx_get nz nx s s' i j k :
  RelGRx nz nx s s' -> 0 <= i < nz -> 0 <= j < nx -> 0 <= k < 2 ->
  get 0%R s' [i; nx - 1 - j; k] = if k =? 1 then (- get 0%R s [i; j; k])%R else get 0%R s [i; j; k].
Proof. intros H Hi Hj Hk. exact (arel_get 0%R _ _ _ s s' [i; j; k] _ H (dom3_intro _ _ _ _ _ Hi Hj Hk) eq_refl). Qed.

(* --- states --- *)
Definition TRelS (nz nx : Z) (grad : bool) (s s' : St) : Prop :=
  RelTTt nz nx (tto s) (tto s') /\ (grad = true -> RelSGt nz nx (sgo s) (sgo s')).
Definition XRelS (nz nx : Z) (grad : bool) (s s' : St) : Prop :=
  RelTTx nz nx (tto s) (tto s') /\ (grad = true -> RelSGx nz nx (sgo s) (sgo s')).

Lemma TRelS_sym nz nx grad s s' : TRelS nz nx grad s s' -> TRelS nx nz grad s' s.
Proof. intros [A B]. split; [apply RelTTt_sym, A | intros Hg; apply RelSGt_sym, B, Hg]. Qed.
Lemma XRelS_sym nz nx grad s s' : XRelS nz nx grad s s' -> XRelS nz nx grad s' s.
Proof. intros [A B]. split; [apply RelTTx_sym, A | intros Hg; apply RelSGx_sym, B, Hg]. Qed.

(* the relations only see (tt, ttsgn) cell by cell *)
Lemma TRelS_ext nz nx M M' grad s s' t t' :
  TRelS nz nx grad s s' -> good nz nx M grad t -> good nx nz M' grad t' ->
  agree nz nx grad Top Top s t -> agree nx nz grad Top Top s' t' -> TRelS nz nx grad t t'.
Proof.
  intros [A B] (_ & (Wt & St) & Gs) (_ & (Wt' & St') & Gs') [E1 E2] [E1' E2']. split.
  - apply (arel_ext 0%R _ _ _ _ _ _ _ A Wt Wt'); intros ix Hd; dom_inv; cbn [ftr].
    + split; [inb_tac | apply E1; auto; exact I].
    + split; [inb_tac | apply E1'; auto; exact I].
  - intros Hg. destruct (Gs Hg) as [Ws Ss], (Gs' Hg) as [Ws' Ss'].
    apply (arel_ext 0%Z _ _ _ _ _ _ _ (B Hg) Ws Ws'); intros ix Hd; dom_inv; cbn [ftr].
    + split; [inb_tac | apply (E2 Hg); auto; exact I].
    + split; [inb_tac | apply (E2' Hg); auto; try lia; exact I].
Qed.
Lemma XRelS_ext nz nx M M' grad s s' t t' :
  XRelS nz nx grad s s' -> good nz nx M grad t -> good nz nx M' grad t' ->
  agree nz nx grad Top Top s t -> agree nz nx grad Top Top s' t' -> XRelS nz nx grad t t'.
Proof.
  intros [A B] (_ & (Wt & St) & Gs) (_ & (Wt' & St') & Gs') [E1 E2] [E1' E2']. split.
  - apply (arel_ext 0%R _ _ _ _ _ _ _ A Wt Wt'); intros ix Hd; dom_inv; cbn [fmx].
    + split; [inb_tac | apply E1; auto; exact I].
    + split; [inb_tac | apply E1'; auto; try lia; exact I].
  - intros Hg. destruct (Gs Hg) as [Ws Ss], (Gs' Hg) as [Ws' Ss'].
    apply (arel_ext 0%Z _ _ _ _ _ _ _ (B Hg) Ws Ws'); intros ix Hd; dom_inv; cbn [fmx].
    + split; [inb_tac | apply (E2 Hg); auto; exact I].
    + split; [inb_tac | apply (E2' Hg); auto; try lia; exact I].
Qed.

(* ========================================================================================== *)
(* 5. the four corner assignments, cell by cell                                                 *)
(* ========================================================================================== *)
Definition isC (zsi xsi i j : Z) : bool := ((i =? zsi) || (i =? zsi + 1)) && ((j =? xsi) || (j =? xsi + 1)).

Lemma get_set2 nz nx (a : arr R) i j p q v :
  okT nz nx a -> 0 <= i < nz -> 0 <= j < nx -> 0 <= p < nz -> 0 <= q < nx ->
  get 0%R (set a [i; j] v) [p; q] = if (p =? i) && (q =? j) then v else get 0%R a [p; q].
Proof.
  intros [W S] Hi Hj Hp Hq. destruct (Z.eqb_spec p i) as [->|N1]; [destruct (Z.eqb_spec q j) as [->|N2]|]; cbn [andb].
  - apply get_set_same; [exact W | inb_tac].
  - apply get_set_other; try inb_tac. intros E. injection E as E. lia.
  - apply get_set_other; try inb_tac. intros E. injection E as E E'. lia.
Qed.
Lemma get_set3 nz nx (a : arr R) i j k p q r v :
  okG nz nx a -> 0 <= i < nz -> 0 <= j < nx -> 0 <= k < 2 -> 0 <= p < nz -> 0 <= q < nx -> 0 <= r < 2 ->
  get 0%R (set a [i; j; k] v) [p; q; r] = if (p =? i) && (q =? j) && (r =? k) then v else get 0%R a [p; q; r].
Proof.
  intros [W S] Hi Hj Hk Hp Hq Hr.
  destruct (Z.eqb_spec p i) as [->|N1]; [destruct (Z.eqb_spec q j) as [->|N2]; [destruct (Z.eqb_spec r k) as [->|N3]|]|];
    cbn [andb].
  - apply get_set_same; [exact W | inb_tac].
  - apply get_set_other; try inb_tac. intros E. injection E as E. lia.
  - apply get_set_other; try inb_tac. intros E. injection E as E E'. lia.
  - apply get_set_other; try inb_tac. intros E. injection E as E E' E''. lia.
Qed.
Lemma okG_set nz nx tg i j k v : okG nz nx tg -> okG nz nx (set tg [i; j; k] v).
Proof. intros [W S]. split; [apply wf_set, W | exact S]. Qed.

Ltac eqb_cases :=
  repeat match goal with |- context [?a =? ?b] => destruct (Z.eqb_spec a b) end;
  cbn [andb orb]; try lia; subst; try reflexivity.

Lemma init_corners_tt nz nx (dx dz : R) grad (vzero xsa : R) xsi (zsa : R) zsi tt tg :
  okT nz nx tt -> 0 <= zsi < nz - 1 -> 0 <= xsi < nx - 1 ->
  okT nz nx (fst (init_corners dx dz grad vzero xsa xsi zsa zsi tt tg)) /\
  forall p q, 0 <= p < nz -> 0 <= q < nx ->
    get 0%R (fst (init_corners dx dz grad vzero xsa xsi zsa zsi tt tg)) [p; q] =
    if isC zsi xsi p q then fst (fst (t_anad p q dz dx zsa xsa vzero)) else get 0%R tt [p; q].
Proof.
  intros Ht Hz Hx. unfold init_corners, corner. cbv zeta. cbn [fst snd]. split; [repeat apply okT_set; exact Ht|].
  intros p q Hp Hq. unfold isC.
  repeat (rewrite (get_set2 nz nx) by first [lia | repeat apply okT_set; exact Ht]).
  eqb_cases.
Qed.
Lemma init_corners_tg nz nx (dx dz : R) (vzero xsa : R) xsi (zsa : R) zsi tt tg :
  okG nz nx tg -> 0 <= zsi < nz - 1 -> 0 <= xsi < nx - 1 ->
  okG nz nx (snd (init_corners dx dz true vzero xsa xsi zsa zsi tt tg)) /\
  forall p q r, 0 <= p < nz -> 0 <= q < nx -> 0 <= r < 2 ->
    get 0%R (snd (init_corners dx dz true vzero xsa xsi zsa zsi tt tg)) [p; q; r] =
    if isC zsi xsi p q
    then (if r =? 0 then snd (fst (t_anad p q dz dx zsa xsa vzero)) else snd (t_anad p q dz dx zsa xsa vzero))
    else get 0%R tg [p; q; r].
Proof.
  intros Ht Hz Hx. unfold init_corners, corner. cbv zeta. cbn [fst snd]. split; [repeat apply okG_set; exact Ht|].
  intros p q r Hp Hq Hr. unfold isC.
  repeat (rewrite (get_set3 nz nx) by first [lia | repeat apply okG_set; exact Ht]).
  eqb_cases.
Qed.
Lemma init_corners_tg_false (dx dz : R) (vzero xsa : R) xsi (zsa : R) zsi tt tg :
  snd (init_corners dx dz false vzero xsa xsi zsa zsi tt tg) = tg.
Proof. reflexivity. Qed.

(* ========================================================================================== *)
(* 6. TRANSPOSITION of the whole initialisation                                                 *)
(* ========================================================================================== *)
(* the pairing theorems of InitSym on states *)
Lemma pair_east_down nz nx M M' (dx dz : R) grad slow slow' (vzero xsa : R) xsi (zsa : R) zsi (dzu dzd dxe : R) s s' :
  RelSLt nz nx slow slow' -> nx <= M -> nx <= M' -> 0 <= zsi < nz - 1 -> 0 <= xsi < nx - 1 ->
  good nz nx M grad s -> good nx nz M' grad s' -> TRelS nz nx grad s s' ->
  TRelS nz nx grad (east_phase dx dz grad nx slow vzero xsa xsi zsa zsi dzu dzd dxe s)
                   (down_phase dz dx grad nx slow' vzero zsa zsi xsa xsi dzu dzd dxe s').
Proof.
  destruct s as [[td tt] sg], s' as [[td' tt'] sg']. intros HSL HM HM' Hz Hx ((Wd & Sd) & _) ((Wd' & Sd') & _) [A B].
  exact (down_is_transpose_of_east nz nx M M' dx dz grad slow slow' vzero xsa xsi zsa zsi dzu dzd dxe td td' tt tt' sg sg'
           HSL Wd Wd' Sd Sd' HM HM' Hz Hx A B).
Qed.
Lemma pair_west_up nz nx M M' (dx dz : R) grad slow slow' (vzero xsa : R) xsi (zsa : R) zsi (dzu dzd dxw : R) s s' :
  RelSLt nz nx slow slow' -> nx <= M -> nx <= M' -> 0 <= zsi < nz - 1 -> 0 <= xsi < nx - 1 ->
  good nz nx M grad s -> good nx nz M' grad s' -> TRelS nz nx grad s s' ->
  TRelS nz nx grad (west_phase dx dz grad slow vzero xsa xsi zsa zsi dzu dzd dxw s)
                   (up_phase dz dx grad slow' vzero zsa zsi xsa xsi dzu dzd dxw s').
Proof.
  destruct s as [[td tt] sg], s' as [[td' tt'] sg']. intros HSL HM HM' Hz Hx ((Wd & Sd) & _) ((Wd' & Sd') & _) [A B].
  exact (up_is_transpose_of_west nz nx M M' dx dz grad slow slow' vzero xsa xsi zsa zsi dzu dzd dxw td td' tt tt' sg sg'
           HSL Wd Wd' Sd Sd' HM HM' Hz Hx A B).
Qed.

Lemma good_east nz nx M grad (dx dz : R) slow (vzero xsa : R) xsi (zsa : R) zsi (dzu dzd dxe : R) s :
  nx <= M /\ nz <= M -> 0 <= zsi < nz - 1 -> 0 <= xsi < nx - 1 -> good nz nx M grad s ->
  good nz nx M grad (east_phase dx dz grad nx slow vzero xsa xsi zsa zsi dzu dzd dxe s).
Proof. intros HM Hz Hx. apply (east_foot nz nx M grad dx dz slow vzero xsa zsa zsi xsi HM Hz Hx dzu dzd dxe). Qed.
Lemma good_west nz nx M grad (dx dz : R) slow (vzero xsa : R) xsi (zsa : R) zsi (dzu dzd dxw : R) s :
  nx <= M /\ nz <= M -> 0 <= zsi < nz - 1 -> 0 <= xsi < nx - 1 -> good nz nx M grad s ->
  good nz nx M grad (west_phase dx dz grad slow vzero xsa xsi zsa zsi dzu dzd dxw s).
Proof. intros HM Hz Hx. apply (west_foot nz nx M grad dx dz slow vzero xsa zsa zsi xsi HM Hz Hx dzu dzd dxw). Qed.
Lemma good_down nz nx M grad (dx dz : R) slow (vzero xsa : R) xsi (zsa : R) zsi (dxw dxe dzd : R) s :
  nx <= M /\ nz <= M -> 0 <= zsi < nz - 1 -> 0 <= xsi < nx - 1 -> good nz nx M grad s ->
  good nz nx M grad (down_phase dx dz grad nz slow vzero xsa xsi zsa zsi dxw dxe dzd s).
Proof. intros HM Hz Hx. apply (down_foot nz nx M grad dx dz slow vzero xsa zsa zsi xsi HM Hz Hx dxw dxe dzd). Qed.
Lemma good_up nz nx M grad (dx dz : R) slow (vzero xsa : R) xsi (zsa : R) zsi (dxw dxe dzu : R) s :
  nx <= M /\ nz <= M -> 0 <= zsi < nz - 1 -> 0 <= xsi < nx - 1 -> good nz nx M grad s ->
  good nz nx M grad (up_phase dx dz grad slow vzero xsa xsi zsa zsi dxw dxe dzu s).
Proof. intros HM Hz Hx. apply (up_foot nz nx M grad dx dz slow vzero xsa zsa zsi xsi HM Hz Hx dxw dxe dzu). Qed.
Ltac gd :=
  repeat match goal with
  | |- good _ _ _ _ (east_phase _ _ _ _ _ _ _ _ _ _ _ _ _ _) => apply good_east
  | |- good _ _ _ _ (west_phase _ _ _ _ _ _ _ _ _ _ _ _ _) => apply good_west
  | |- good _ _ _ _ (down_phase _ _ _ _ _ _ _ _ _ _ _ _ _ _) => apply good_down
  | |- good _ _ _ _ (up_phase _ _ _ _ _ _ _ _ _ _ _ _ _) => apply good_up
  | |- good _ _ _ _ _ => assumption
  end; try lia.

Section Transpose.
Variables (nz nx M M' : Z) (grad : bool).
Variables (dx dz : R) (slow slow' : arr R) (vzero xsa zsa : R) (zsi xsi : Z) (dzu dzd dxw dxe : R).
Hypothesis HM : nx <= M /\ nz <= M.
Hypothesis HM' : nz <= M' /\ nx <= M'.
Hypothesis Hzsi : 0 <= zsi < nz - 1.
Hypothesis Hxsi : 0 <= xsi < nx - 1.
Hypothesis HSL : RelSLt nz nx slow slow'.

Notation E := (east_phase dx dz grad nx slow vzero xsa xsi zsa zsi dzu dzd dxe).
Notation W := (west_phase dx dz grad slow vzero xsa xsi zsa zsi dzu dzd dxw).
Notation D := (down_phase dx dz grad nz slow vzero xsa xsi zsa zsi dxw dxe dzd).
Notation U := (up_phase dx dz grad slow vzero xsa xsi zsa zsi dxw dxe dzu).
(* the phases of the transposed run: everything exchanged *)
Notation E' := (east_phase dz dx grad nz slow' vzero zsa zsi xsa xsi dxw dxe dzd).
Notation W' := (west_phase dz dx grad slow' vzero zsa zsi xsa xsi dxw dxe dzu).
Notation D' := (down_phase dz dx grad nx slow' vzero zsa zsi xsa xsi dzu dzd dxe).
Notation U' := (up_phase dz dx grad slow' vzero zsa zsi xsa xsi dzu dzd dxw).

(* the z-loops first on the original = the code order on the transposed problem *)
Lemma zx_transpose s s' :
  good nz nx M grad s -> good nx nz M' grad s' -> TRelS nz nx grad s s' ->
  TRelS nz nx grad (W (E (U (D s)))) (U' (D' (W' (E' s')))).
Proof.
  intros Hs Hs' H0.
  pose proof (RelSLt_sym _ _ _ _ HSL) as HSL'.
  (* down / east' *)
  assert (H1 : TRelS nz nx grad (D s) (E' s')).
  { apply TRelS_sym.
    apply (pair_east_down nx nz M' M dz dx grad slow' slow vzero zsa zsi xsa xsi dxw dxe dzd s' s);
      [exact HSL' | lia | lia | lia | lia | gd | gd | apply TRelS_sym, H0]. }
  (* up / west' *)
  assert (H2 : TRelS nz nx grad (U (D s)) (W' (E' s'))).
  { apply TRelS_sym.
    apply (pair_west_up nx nz M' M dz dx grad slow' slow vzero zsa zsi xsa xsi dxw dxe dzu (E' s') (D s));
      [exact HSL' | lia | lia | lia | lia | gd | gd | apply TRelS_sym, H1]. }
  (* east / down' *)
  assert (H3 : TRelS nz nx grad (E (U (D s))) (D' (W' (E' s')))).
  { apply (pair_east_down nz nx M M'); [exact HSL | lia | lia | lia | lia | gd | gd | exact H2]. }
  (* west / up' *)
  apply (pair_west_up nz nx M M'); [exact HSL | lia | lia | lia | lia | gd | gd | exact H3].
Qed.

Notation P := (phases dx dz grad nx nz slow vzero xsa xsi zsa zsi dzu dzd dxw dxe).
Notation P' := (phases dz dx grad nz nx slow' vzero zsa zsi xsa xsi dxw dxe dzu dzd).

(* (iii) THE FOUR LOOPS OF THE TRANSPOSED RUN GIVE THE TRANSPOSE OF THE FOUR LOOPS *)
Theorem phases_transpose s s' :
  good nz nx M grad s -> good nx nz M' grad s' -> TRelS nz nx grad s s' -> TRelS nz nx grad (P s) (P' s').
Proof.
  intros Hs Hs' H0.
  apply (TRelS_ext nz nx M M' grad _ _ _ _ (zx_transpose s s' Hs Hs' H0)).
  - apply phases_good; assumption.
  - apply phases_good; assumption.
  - apply agree_sym. apply (phases_zx nz nx M); assumption.
  - apply agree_sym. apply (phases_xz nx nz M'); assumption.
Qed.
End Transpose.

Lemma isC_swap zsi xsi p q : isC xsi zsi q p = isC zsi xsi p q.
Proof. unfold isC. apply andb_comm. Qed.
Lemma t_anad_swap_parts i j (dz dx zsa xsa v : R) :
  fst (fst (t_anad j i dx dz xsa zsa v)) = fst (fst (t_anad i j dz dx zsa xsa v)) /\
  snd (t_anad j i dx dz xsa zsa v) = snd (fst (t_anad i j dz dx zsa xsa v)) /\
  snd (fst (t_anad j i dx dz xsa zsa v)) = snd (t_anad i j dz dx zsa xsa v).
Proof.
  rewrite (t_anad_swap i j dz dx zsa xsa v). destruct (t_anad j i dx dz xsa zsa v) as [[a b] c]. cbn [fst snd]. auto.
Qed.

Lemma corners_transpose nz nx (dx dz : R) grad (vzero xsa : R) xsi (zsa : R) zsi tt tt' tg tg' :
  0 <= zsi < nz - 1 -> 0 <= xsi < nx - 1 -> okT nz nx tt -> okT nx nz tt' -> RelTTt nz nx tt tt' ->
  (grad = true -> okG nz nx tg /\ okG nx nz tg' /\ RelGRt nz nx tg tg') ->
  let c := init_corners dx dz grad vzero xsa xsi zsa zsi tt tg in
  let c' := init_corners dz dx grad vzero zsa zsi xsa xsi tt' tg' in
  okT nz nx (fst c) /\ okT nx nz (fst c') /\ RelTTt nz nx (fst c) (fst c') /\
  (grad = true -> okG nz nx (snd c) /\ okG nx nz (snd c') /\ RelGRt nz nx (snd c) (snd c')).
Proof.
  intros Hz Hx Ht Ht' HT HG c c'.
  destruct (init_corners_tt nz nx dx dz grad vzero xsa xsi zsa zsi tt tg Ht Hz Hx) as [O1 G1].
  destruct (init_corners_tt nx nz dz dx grad vzero zsa zsi xsa xsi tt' tg' Ht' Hx Hz) as [O1' G1'].
  fold c in O1, G1. fold c' in O1', G1'.
  split; [exact O1|]. split; [exact O1'|]. split.
  - apply RelTTt_intro; [exact O1 | exact O1'|]. intros i j Hi Hj.
    rewrite (G1 i j Hi Hj), (G1' j i Hj Hi), isC_swap.
    destruct (t_anad_swap_parts i j dz dx zsa xsa vzero) as (-> & _ & _).
    rewrite (relTTt_get nz nx tt tt' i j HT Hi Hj). reflexivity.
  - intros Hg. destruct (HG Hg) as (Og & Og' & HR). subst c c'. rewrite Hg.
    destruct (init_corners_tg nz nx dx dz vzero xsa xsi zsa zsi tt tg Og Hz Hx) as [O2 G2].
    destruct (init_corners_tg nx nz dz dx vzero zsa zsi xsa xsi tt' tg' Og' Hx Hz) as [O2' G2'].
    split; [exact O2|]. split; [exact O2'|].
    apply RelGRt_intro; [exact O2 | exact O2'|]. intros i j k Hi Hj Hk.
    rewrite (G2 i j k Hi Hj Hk), (G2' j i (1 - k) Hj Hi ltac:(lia)), isC_swap.
    destruct (t_anad_swap_parts i j dz dx zsa xsa vzero) as (_ & -> & ->).
    rewrite (relGRt_get nz nx tg tg' i j k HR Hi Hj Hk).
    destruct (isC zsi xsi i j); [|reflexivity].
    destruct (Z.eqb_spec k 0) as [->|N]; [reflexivity|]. replace k with 1 by lia. reflexivity.
Qed.

Lemma okD_full M : 0 <= M -> okD M (full [M] (@Big R NumR)).
Proof. intros H. split; [apply wf_full; repeat constructor; exact H | reflexivity]. Qed.

(* shapes are preserved by the block *)
Lemma fteik2d_p2_shapes nz nx (dx dz : R) grad iflag slow tt tg sg (vzero xsa : R) xsi (zsa : R) zsi :
  (iflag = 2 -> 0 <= zsi < nz - 1 /\ 0 <= xsi < nx - 1) ->
  okT nz nx tt -> (grad = true -> okG nz nx tg /\ okS nz nx sg) ->
  let r := fteik2d_p2 dx dz grad iflag nx nz slow tt tg sg vzero xsa xsi zsa zsi in
  okT nz nx (fst (fst r)) /\ (grad = true -> okG nz nx (snd (fst r)) /\ okS nz nx (snd r)).
Proof.
  intros H2 Ht Hg r. subst r. destruct (Z.eq_dec iflag 2) as [->|N].
  - destruct (H2 eq_refl) as [Hz Hx]. rewrite fteik2d_p2_phases. cbv zeta. cbn [fst snd].
    destruct (init_corners_tt nz nx dx dz grad vzero xsa xsi zsa zsi tt tg Ht Hz Hx) as [O1 _].
    match goal with |- context [phases ?a1 ?a2 ?a3 ?a4 ?a5 ?a6 ?a7 ?a8 ?a9 ?a10 ?a11 ?a12 ?a13 ?a14 ?a15 ?s0] =>
      assert (G : good nz nx (Z.max nz nx) grad (phases a1 a2 a3 a4 a5 a6 a7 a8 a9 a10 a11 a12 a13 a14 a15 s0)) end.
    { apply phases_good; try lia. split; [apply okD_full; lia|]. split; [exact O1|]. intros Hgr. apply Hg, Hgr. }
    destruct G as (_ & Gt & Gs). split; [exact Gt|]. intros Hgr. split; [|apply Gs, Hgr].
    destruct (Hg Hgr) as [Og _]. rewrite Hgr. apply (init_corners_tg nz nx); assumption.
  - rewrite fteik2d_p2_decompose. apply Z.eqb_neq in N. rewrite N. cbn [fst snd].
    split; [apply okT_set, Ht | exact Hg].
Qed.

(* (iv) THE BLOCK ON THE TRANSPOSED PROBLEM GIVES THE TRANSPOSE, for every `iflag` (for `iflag <> 2` the single node
   written must be a node of the grid) *)
Theorem fteik2d_p2_transpose nz nx (dx dz : R) grad iflag slow slow' tt tt' tg tg' sg sg' (vzero xsa : R) xsi (zsa : R) zsi :
  (iflag = 2 -> 0 <= zsi < nz - 1 /\ 0 <= xsi < nx - 1) ->
  (iflag <> 2 -> 0 <= ntrunc zsa < nz /\ 0 <= ntrunc xsa < nx) ->
  okT nz nx tt -> okT nx nz tt' ->
  (grad = true -> okG nz nx tg /\ okG nx nz tg' /\ okS nz nx sg /\ okS nx nz sg') ->
  RelSLt nz nx slow slow' -> RelTTt nz nx tt tt' ->
  (grad = true -> RelGRt nz nx tg tg' /\ RelSGt nz nx sg sg') ->
  let r := fteik2d_p2 dx dz grad iflag nx nz slow tt tg sg vzero xsa xsi zsa zsi in
  let r' := fteik2d_p2 dz dx grad iflag nz nx slow' tt' tg' sg' vzero zsa zsi xsa xsi in
  RelTTt nz nx (fst (fst r)) (fst (fst r')) /\
  (grad = true -> RelGRt nz nx (snd (fst r)) (snd (fst r')) /\ RelSGt nz nx (snd r) (snd r')).
Proof.
  intros H2 Hn Ht Ht' Hok HSL HT HR r r'. subst r r'. destruct (Z.eq_dec iflag 2) as [->|N].
  - destruct (H2 eq_refl) as [Hz Hx]. rewrite !fteik2d_p2_phases. cbv zeta. cbn [fst snd].
    destruct (corners_transpose nz nx dx dz grad vzero xsa xsi zsa zsi tt tt' tg tg' Hz Hx Ht Ht' HT) as (O1 & O1' & HC & HGc).
    { intros Hg. destruct (Hok Hg) as (? & ? & _), (HR Hg) as [? _]. auto. }
    match goal with |- context [phases dx dz grad nx nz slow vzero xsa xsi zsa zsi ?dzu ?dzd ?dxw ?dxe ?s0] =>
      match goal with |- context [phases dz dx grad nz nx slow' vzero zsa zsi xsa xsi _ _ _ _ ?s0'] =>
        pose proof (phases_transpose nz nx (Z.max nz nx) (Z.max nx nz) grad dx dz slow slow' vzero xsa zsa zsi xsi
                      dzu dzd dxw dxe ltac:(lia) ltac:(lia) Hz Hx HSL s0 s0') as PT end end.
    destruct PT as [PT1 PT2].
    + split; [apply okD_full; lia|]. split; [exact O1|]. intros Hg. apply (Hok Hg).
    + split; [apply okD_full; lia|]. split; [exact O1'|]. intros Hg. apply (Hok Hg).
    + split; [exact HC|]. intros Hg. apply (HR Hg).
    + split; [exact PT1|]. intros Hg. split; [apply (HGc Hg) | apply (PT2 Hg)].
  - rewrite !fteik2d_p2_decompose. apply Z.eqb_neq in N. rewrite N. cbn [fst snd].
    destruct (Hn ltac:(lia)) as [Bz Bx]. split; [|exact HR].
    apply relTTt_set; assumption.
Qed.

(* the maps of the statement; `transpose`, `transpose_sgn` are those of InitSym *)
Definition transpose_grad (nz nx : Z) (g : arr R) : arr R := tab3 nx nz 2 (fun j i k => get 0%R g [i; j; 1 - k]).

Lemma okT_transpose nz nx a : 0 <= nz -> 0 <= nx -> okT nx nz (transpose nz nx a).
Proof. intros. split; [apply wf_tab2; lia | reflexivity]. Qed.
Lemma okS_transpose_sgn nz nx a : 0 <= nz -> 0 <= nx -> okS nx nz (transpose_sgn nz nx a).
Proof. intros. split; [apply wf_tab3; lia | reflexivity]. Qed.
Lemma okG_transpose_grad nz nx a : 0 <= nz -> 0 <= nx -> okG nx nz (transpose_grad nz nx a).
Proof. intros. split; [apply wf_tab3; lia | reflexivity]. Qed.
Lemma okT_nonneg nz nx a : okT nz nx a -> 0 <= nz /\ 0 <= nx.
Proof. intros [[_ F] S]. rewrite S in F. inversion F as [|? ? ? F']; inversion F'; auto. Qed.
Lemma transpose_grad_rel nz nx g : okG nz nx g -> RelGRt nz nx g (transpose_grad nz nx g).
Proof.
  intros Og. pose proof Og as [W S]. destruct (shape3_nonneg g _ _ _ W S).
  apply RelGRt_intro; [exact Og | apply okG_transpose_grad; assumption|].
  intros i j k Hi Hj Hk. unfold transpose_grad. rewrite get_tab3 by lia. rewrite ftr3_invol. reflexivity.
Qed.

(* EXPLICIT FORM: run the block on the transposed data (spacings, sizes, source coordinates and source cell
   exchanged) and read the result transposed.  When `grad = false` the gradient and sign arrays are not touched
   (they are empty in `fteik2d`), so nothing is asked of `tg'`, `sg'`. *)
Theorem fteik2d_p2_transpose_explicit nz nx (dx dz : R) grad iflag slow tt tg tg' sg sg' (vzero xsa : R) xsi (zsa : R) zsi :
  (iflag = 2 -> 0 <= zsi < nz - 1 /\ 0 <= xsi < nx - 1) ->
  (iflag <> 2 -> 0 <= ntrunc zsa < nz /\ 0 <= ntrunc xsa < nx) ->
  wf slow -> shape slow = [nz - 1; nx - 1] -> okT nz nx tt ->
  (grad = true -> okG nz nx tg /\ okS nz nx sg /\ tg' = transpose_grad nz nx tg /\ sg' = transpose_sgn nz nx sg) ->
  let r := fteik2d_p2 dx dz grad iflag nx nz slow tt tg sg vzero xsa xsi zsa zsi in
  let r' := fteik2d_p2 dz dx grad iflag nz nx (transpose (nz - 1) (nx - 1) slow) (transpose nz nx tt) tg' sg'
              vzero zsa zsi xsa xsi in
  (forall i j, 0 <= i < nz -> 0 <= j < nx -> get 0%R (fst (fst r')) [j; i] = get 0%R (fst (fst r)) [i; j]) /\
  (grad = true -> forall i j, 0 <= i < nz -> 0 <= j < nx ->
     get 0%R (snd (fst r')) [j; i; 1] = get 0%R (snd (fst r)) [i; j; 0] /\
     get 0%R (snd (fst r')) [j; i; 0] = get 0%R (snd (fst r)) [i; j; 1] /\
     get 0 (snd r') [j; i; 1] = get 0 (snd r) [i; j; 0] /\
     get 0 (snd r') [j; i; 0] = get 0 (snd r) [i; j; 1]).
Proof.
  intros H2 Hn Wsl Ssl Ht Hg r r'. destruct (okT_nonneg _ _ _ Ht) as [N1 N2]. pose proof Ht as [Wt St].
  destruct (fteik2d_p2_transpose nz nx dx dz grad iflag slow (transpose (nz - 1) (nx - 1) slow) tt (transpose nz nx tt)
              tg tg' sg sg' vzero xsa xsi zsa zsi H2 Hn Ht) as [HT HR].
  - apply okT_transpose; assumption.
  - intros G. destruct (Hg G) as (? & ? & -> & ->).
    split; [assumption|]. split; [apply okG_transpose_grad; lia|]. split; [assumption | apply okS_transpose_sgn; lia].
  - apply transpose_slow_rel; assumption.
  - apply transpose_rel; assumption.
  - intros G. destruct (Hg G) as (Og & [Ws Ss] & -> & ->). split; [apply transpose_grad_rel, Og | apply transpose_sgn_rel; assumption].
  - fold r r' in HT, HR. clearbody r r'. split.
    + intros i j Hi Hj. apply (relTTt_get nz nx _ _ i j HT Hi Hj).
    + intros G i j Hi Hj. destruct (HR G) as [HG HS].
      pose proof (relGRt_get nz nx _ _ i j 0 HG Hi Hj ltac:(lia)) as Q0.
      pose proof (relGRt_get nz nx _ _ i j 1 HG Hi Hj ltac:(lia)) as Q1.
      pose proof (relSGt_get nz nx _ _ i j 0 HS Hi Hj ltac:(lia)) as Q2.
      pose proof (relSGt_get nz nx _ _ i j 1 HS Hi Hj ltac:(lia)) as Q3.
      repeat split; assumption.
Qed.

(* ========================================================================================== *)
(* 7. X-MIRROR of the whole initialisation                                                      *)
(* ========================================================================================== *)
(* 7.1 the down / up phases under the x-mirror: a pairing that InitSym does not have.  A z-block at column `col`
   on the mirrored problem is the mirror of the z-block at column nx-1-col, with the sign of x exchanged. *)
Lemma blk_z_mirror_x nz nx (dx dz : R) grad (vzero xsa xsa' zsa dzi dz2i : R) col col' (dxw : R) sgz sgx ip i
      (vref taue tauev : R) (td td' tt tt' : arr R) (sg sg' : arr Z) :
  RelTTx nz nx tt tt' -> (grad = true -> RelSGx nz nx sg sg') ->
  0 <= col < nx -> 0 <= i < nz -> 0 <= ip < nz -> col' = nx - 1 - col ->
  xsa' = (IZR (nx - 1) - xsa)%R ->
  get 0%R td' [i] = get 0%R td [i] ->
  let r := blk_z dx dz grad vzero xsa zsa dzi dz2i col dxw sgz sgx ip i vref taue tauev td tt sg in
  let r' := blk_z dx dz grad vzero xsa' zsa dzi dz2i col' dxw sgz (- sgx) ip i vref taue tauev td' tt' sg' in
  RelTTx nz nx (fst r) (fst r') /\ (grad = true -> RelSGx nz nx (snd r) (snd r')).
Proof.
  intros HT HS Hcol Hi Hip Ec Exsa Htd r r'. subst r r'. unfold blk_z. cbv zeta.
  assert (G1 : get 0%R tt' [ip; col'] = get 0%R tt [ip; col]) by (eapply relTTx_get; eauto).
  assert (G2 : get 0%R tt' [i; col'] = get 0%R tt [i; col]) by (eapply relTTx_get; eauto).
  assert (C : (IZR col' - xsa' = - (IZR col - xsa))%R) by (subst col' xsa'; apply mir_coord).
  change (@nofZ R NumR 0) with 0%R.
  rewrite G1, G2, Htd.
  rewrite (t_ana_mirror_x ip col col' dz dx zsa xsa xsa' vzero C).
  rewrite (t_anad_mirror_x i col col' dz dx zsa xsa xsa' vzero C).
  destruct (t_anad i col dz dx zsa xsa vzero) as [[t0c tzc] txc]. cbn [fst snd].
  rewrite delta_mirror_x.
  match goal with |- context [if ?c then _ else _] => destruct c end; [|split; [exact HT | exact HS]].
  match goal with |- context [if ?c then _ else _] => destruct c end; cbn [fst snd]; [|split; [exact HT | exact HS]].
  split.
  - apply relTTx_set; assumption.
  - intros Hg. rewrite Hg. apply relSGx_set2; auto.
Qed.

(* the z-loop body with its two blocks exchanged *)
Definition zbody_sw (ip vr : Z -> Z) (adj : R -> R) (sgz : Z) (dx dz : R) (grad : bool) (slow : arr R) (vzero xsa zsa : R)
    (xsi : Z) (dxw dxe dzi dz2i : R) (i : Z) (u_s_v : St) : St :=
let td := (fst (fst u_s_v)) in
let tt_v := (snd (fst u_s_v)) in
let ttsgn := (snd u_s_v) in
let vref := (get (nofZ 0) slow [vr i; xsi]) in
let td := (set td [i] (nadd (get (nofZ 0) td [ip i]) (nmul dz vref))) in
let taue := (nsub (get (nofZ 0) td [i]) (nmul (nmul vzero (nabs (nsub (nofZ i) zsa))) dz)) in
let tauev := (nsub (get (nofZ 0) td [ip i]) (nmul (nmul vzero (nabs (adj (nsub (nofZ i) zsa)))) dz)) in
let u_j_v : ((arr R) * (arr Z)) :=
  blk_z dx dz grad vzero xsa zsa dzi dz2i xsi dxw sgz (-1) (ip i) i vref taue tauev td tt_v ttsgn in
let tt_v := (fst u_j_v) in
let ttsgn := (snd u_j_v) in
let u_j_v : ((arr R) * (arr Z)) :=
  blk_z dx dz grad vzero xsa zsa dzi dz2i (xsi + 1) dxe sgz 1 (ip i) i vref taue tauev td tt_v ttsgn in
let tt_v := (fst u_j_v) in
let ttsgn := (snd u_j_v) in
(td, tt_v, ttsgn).

Lemma zbody_sw_l ip vr adj sgz (dx dz : R) grad slow (vzero xsa zsa : R) xsi (dxw dxe dzi dz2i : R) i s :
  zbody_sw ip vr adj sgz dx dz grad slow vzero xsa zsa xsi dxw dxe dzi dz2i i s =
  let vref := get 0%R slow [vr i; xsi] in
  let taue := fun tk : R => nsub tk (nmul (nmul vzero (nabs (nsub (nofZ i) zsa))) dz) in
  let tauev := fun tp : R => nsub tp (nmul (nmul vzero (nabs (adj (nsub (nofZ i) zsa)))) dz) in
  lbody grad (ip i) i (fun t => nadd t (nmul dz vref))
    (fun tk tp => (cfz dx dz vzero xsa zsa dzi dz2i xsi dxw sgz (-1) (ip i) i vref (taue tk) (tauev tp),
                   tnz dx dz vzero xsa zsa dzi dz2i xsi dxw sgz (-1) (ip i) i vref (taue tk) (tauev tp)))
    (fun tk tp => (cfz dx dz vzero xsa zsa dzi dz2i (xsi + 1) dxe sgz 1 (ip i) i vref (taue tk) (tauev tp),
                   tnz dx dz vzero xsa zsa dzi dz2i (xsi + 1) dxe sgz 1 (ip i) i vref (taue tk) (tauev tp)))
    sgz (-1) sgz 1 (ip i) xsi i xsi (ip i) (xsi + 1) i (xsi + 1) s.
Proof.
  destruct s as [[td tt] sg]. unfold zbody_sw, lbody, cstep. cbv beta zeta. cbn [fst snd tdo tto sgo].
  rewrite !blk_z_upd. reflexivity.
Qed.

Definition SimMx (nz nx M M' : Z) (grad : bool) (p : Z) (s s' : St) : Prop :=
  good nz nx M grad s /\ good nz nx M' grad s' /\ get 0%R (tdo s') [p] = get 0%R (tdo s) [p] /\ XRelS nz nx grad s s'.

Section ZMirrorX.
Variables (nz nx M M' : Z) (grad : bool) (ip vr : Z -> Z) (adj : R -> R) (sgz : Z).
Variables (dx dz : R) (slow slow' : arr R) (vzero xsa xsa' zsa : R) (xsi xsi' : Z) (dxw dxe dzi dz2i : R).
Hypothesis HSL : RelSLx nz nx slow slow'.
Hypothesis HM : nz <= M /\ nz <= M'.
Hypothesis Hxsi : 0 <= xsi < nx - 1.
Hypothesis Exsa : xsa' = (IZR (nx - 1) - xsa)%R.
Hypothesis Exsi : xsi' = nx - 2 - xsi.

Definition PZ (i : Z) : Prop := 0 <= i < nz /\ 0 <= ip i < nz /\ ip i <> i /\ 0 <= vr i < nz - 1.

Notation B := (zbody ip vr adj sgz dx dz grad slow vzero xsa zsa xsi dxw dxe dzi dz2i).
Notation Bsw := (zbody_sw ip vr adj sgz dx dz grad slow vzero xsa zsa xsi dxw dxe dzi dz2i).
(* on the mirrored problem the fractional distances dxw and dxe are exchanged *)
Notation B' := (zbody ip vr adj sgz dx dz grad slow' vzero xsa' zsa xsi' dxe dxw dzi dz2i).

Lemma zbody_good_o i s : PZ i -> good nz nx M grad s -> good nz nx M grad (B i s).
Proof. intros (P1 & P2 & P3 & P4) Hs. rewrite zbody_l. cbv zeta. apply lbody_good; auto; lia. Qed.
Lemma zbody_good_m i s : PZ i -> good nz nx M' grad s -> good nz nx M' grad (B' i s).
Proof. intros (P1 & P2 & P3 & P4) Hs. rewrite zbody_l. cbv zeta. apply lbody_good; auto; lia. Qed.

Lemma zbody_sw_agree i s : PZ i -> good nz nx M grad s ->
  agree nz nx grad Top Top (B i s) (Bsw i s) /\ tdo (B i s) = tdo (Bsw i s) /\ good nz nx M grad (Bsw i s).
Proof.
  intros (P1 & P2 & P3 & P4) Hs. rewrite zbody_l, zbody_sw_l. cbv zeta.
  split; [|split].
  - apply (lbody_swap nz nx M); auto; lia.
  - apply (lbody_swap nz nx M); auto; lia.
  - apply lbody_good; auto; lia.
Qed.

Lemma zbody_sw_mirror_x_step i s s' : PZ i ->
  SimMx nz nx M M' grad (ip i) s s' -> SimMx nz nx M M' grad i (Bsw i s) (B' i s').
Proof.
  intros HP (Hs & Hs' & Htd & HT & HS).
  split; [apply (zbody_sw_agree i s HP Hs)|]. split; [apply zbody_good_m; assumption|].
  destruct HP as (Hi & Hip & Hne & Hvr).
  destruct s as [[td tt] sg], s' as [[td' tt'] sg'].
  destruct Hs as ((Wd & Sd) & _), Hs' as ((Wd' & Sd') & _).
  unfold XRelS, tdo, tto, sgo in *. cbn [fst snd] in *.
  cbv beta zeta delta [zbody zbody_sw]. cbn [fst snd].
  change (@nofZ R NumR 0) with 0%R.
  set (vref := get 0%R slow [vr i; xsi]).
  assert (Ev : get 0%R slow' [vr i; xsi'] = vref).
  { apply (arel_get 0%R _ _ _ slow slow' [vr i; xsi] [vr i; xsi'] HSL); [apply dom2_intro; lia | unfold fmx; idx_eq]. }
  rewrite Ev, Htd.
  set (v := nadd (get 0%R td [ip i]) (nmul dz vref)).
  rewrite (get1_set_same td M i v Wd Sd ltac:(lia)), (get1_set_same td' M' i v Wd' Sd' ltac:(lia)).
  rewrite (get1_set_other td M i (ip i) v Sd ltac:(lia) ltac:(lia) ltac:(lia)).
  rewrite (get1_set_other td' M' i (ip i) v Sd' ltac:(lia) ltac:(lia) ltac:(lia)).
  rewrite Htd.
  set (taue := nsub v _). set (tauev := nsub (get 0%R td [ip i]) _).
  set (tdn := set td [i] v). set (tdn' := set td' [i] v).
  assert (Htdn : get 0%R tdn' [i] = get 0%R tdn [i]).
  { unfold tdn, tdn'. rewrite (get1_set_same td M i v Wd Sd ltac:(lia)).
    rewrite (get1_set_same td' M' i v Wd' Sd' ltac:(lia)). reflexivity. }
  split; [first [exact Htdn | reflexivity]|].
  destruct (blk_z_mirror_x nz nx dx dz grad vzero xsa xsa' zsa dzi dz2i xsi (xsi' + 1) dxw sgz (-1) (ip i) i
              vref taue tauev tdn tdn' tt tt' sg sg' HT HS ltac:(lia) Hi Hip ltac:(lia) Exsa Htdn) as [HT1 HS1].
  match type of HT1 with RelTTx _ _ (fst ?b) (fst ?b') => set (B1 := b) in *; set (B1' := b') in * end.
  destruct (blk_z_mirror_x nz nx dx dz grad vzero xsa xsa' zsa dzi dz2i (xsi + 1) xsi' dxe sgz 1 (ip i) i
              vref taue tauev tdn tdn' (fst B1) (fst B1') (snd B1) (snd B1') HT1 HS1 ltac:(lia) Hi Hip ltac:(lia) Exsa Htdn)
    as [HT2 HS2].
  split; [exact HT2 | exact HS2].
Qed.

(* one iteration of a z-loop on the mirrored problem is the mirror of the iteration *)
Lemma zbody_mirror_x_step i s s' : PZ i ->
  SimMx nz nx M M' grad (ip i) s s' -> SimMx nz nx M M' grad i (B i s) (B' i s').
Proof.
  intros HP H. pose proof H as (Hs & Hs' & _).
  destruct (zbody_sw_mirror_x_step i s s' HP H) as (G1 & G2 & Htd & HX).
  destruct (zbody_sw_agree i s HP Hs) as (A & Etd & _).
  split; [apply zbody_good_o; assumption|]. split; [exact G2|]. split; [rewrite Etd; exact Htd|].
  apply (XRelS_ext nz nx M M' grad (Bsw i s) (B' i s') (B i s) (B' i s') HX);
    [apply zbody_good_o; assumption | exact G2 | apply agree_sym, A | apply agree_refl].
Qed.

Lemma zloop_mirror_x l : forall p s s', chain ip p l -> (forall k, In k l -> PZ k) ->
  SimMx nz nx M M' grad p s s' -> XRelS nz nx grad (for_list l B s) (for_list l B' s').
Proof.
  induction l as [|k l IH]; intros p s s' Hc HP H; [apply H|]. rewrite !for_list_cons.
  destruct Hc as [Ep Hc]. rewrite <- Ep in H.
  apply (IH k _ _ Hc (fun q Hq => HP q (or_intror Hq))).
  apply zbody_mirror_x_step; [apply HP; left; reflexivity | exact H].
Qed.

Lemma zphase_mirror_x l p0 (c : R) s s' :
  0 <= p0 < nz -> chain ip p0 l -> (forall k, In k l -> PZ k) ->
  good nz nx M grad s -> good nz nx M' grad s' -> XRelS nz nx grad s s' ->
  XRelS nz nx grad (for_list l B (set (tdo s) [p0] c, tto s, sgo s)) (for_list l B' (set (tdo s') [p0] c, tto s', sgo s')).
Proof.
  intros Hp Hc HP Hs Hs' HX. apply (zloop_mirror_x l p0 _ _ Hc HP).
  split; [apply good_seed, Hs|]. split; [apply good_seed, Hs'|]. split; [|exact HX].
  destruct Hs as ((Wd & Sd) & _), Hs' as ((Wd' & Sd') & _). cbn [tdo fst].
  rewrite (get1_set_same _ M p0 c Wd Sd ltac:(lia)), (get1_set_same _ M' p0 c Wd' Sd' ltac:(lia)). reflexivity.
Qed.
End ZMirrorX.

(* the pairings on states *)
Theorem down_mirror_x nz nx M M' (dx dz : R) grad slow slow' (vzero xsa xsa' : R) xsi xsi' (zsa : R) zsi (dxw dxe dzd : R) s s' :
  RelSLx nz nx slow slow' -> nz <= M /\ nz <= M' -> 0 <= zsi < nz - 1 -> 0 <= xsi < nx - 1 ->
  xsa' = (IZR (nx - 1) - xsa)%R -> xsi' = nx - 2 - xsi ->
  good nz nx M grad s -> good nz nx M' grad s' -> XRelS nz nx grad s s' ->
  XRelS nz nx grad (down_phase dx dz grad nz slow vzero xsa xsi zsa zsi dxw dxe dzd s)
                   (down_phase dx dz grad nz slow' vzero xsa' xsi' zsa zsi dxe dxw dzd s').
Proof.
  intros HSL HM Hz Hx Exsa Exsi Hs Hs' HX.
  refine (zphase_mirror_x nz nx M M' grad (fun i => i - 1) (fun i => i - 1) adjm 1 dx dz slow slow' vzero xsa xsa' zsa
            xsi xsi' dxw dxe (ndiv (nofZ 1) dz) (ndiv (ndiv (nofZ 1) dz) dz) HSL HM Hx Exsa Exsi
            (pyrange (zsi + 2) nz 1) (zsi + 1) (nmul (nmul vzero dzd) dz) s s' _ _ _ Hs Hs' HX).
  - lia.
  - replace (zsi + 1) with (zsi + 2 - 1) by lia. apply chain_pyrange_up.
  - intros k Hk. apply in_pyrange_up in Hk. unfold PZ. lia.
Qed.
Theorem up_mirror_x nz nx M M' (dx dz : R) grad slow slow' (vzero xsa xsa' : R) xsi xsi' (zsa : R) zsi (dxw dxe dzu : R) s s' :
  RelSLx nz nx slow slow' -> nz <= M /\ nz <= M' -> 0 <= zsi < nz - 1 -> 0 <= xsi < nx - 1 ->
  xsa' = (IZR (nx - 1) - xsa)%R -> xsi' = nx - 2 - xsi ->
  good nz nx M grad s -> good nz nx M' grad s' -> XRelS nz nx grad s s' ->
  XRelS nz nx grad (up_phase dx dz grad slow vzero xsa xsi zsa zsi dxw dxe dzu s)
                   (up_phase dx dz grad slow' vzero xsa' xsi' zsa zsi dxe dxw dzu s').
Proof.
  intros HSL HM Hz Hx Exsa Exsi Hs Hs' HX.
  refine (zphase_mirror_x nz nx M M' grad (fun i => i + 1) (fun i => i) adjp (-1) dx dz slow slow' vzero xsa xsa' zsa
            xsi xsi' dxw dxe (ndiv (nofZ 1) dz) (ndiv (ndiv (nofZ 1) dz) dz) HSL HM Hx Exsa Exsi
            (pyrange (zsi - 1) (-1) (-1)) zsi (nmul (nmul vzero dzu) dz) s s' _ _ _ Hs Hs' HX).
  - lia.
  - replace zsi with (zsi - 1 + 1) at 1 by lia. apply chain_pyrange_down.
  - intros k Hk. apply in_pyrange_down in Hk. unfold PZ. lia.
Qed.
Lemma pair_east_west_x nz nx M M' (dx dz : R) grad slow slow' (vzero xsa xsa' : R) xsi xsi' (zsa : R) zsi (dzu dzd dxe : R) s s' :
  RelSLx nz nx slow slow' -> nx <= M -> nx <= M' -> 0 <= zsi < nz - 1 -> 0 <= xsi < nx - 1 ->
  xsa' = (IZR (nx - 1) - xsa)%R -> xsi' = nx - 2 - xsi ->
  good nz nx M grad s -> good nz nx M' grad s' -> XRelS nz nx grad s s' ->
  XRelS nz nx grad (east_phase dx dz grad nx slow vzero xsa xsi zsa zsi dzu dzd dxe s)
                   (west_phase dx dz grad slow' vzero xsa' xsi' zsa zsi dzu dzd dxe s').
Proof.
  destruct s as [[td tt] sg], s' as [[td' tt'] sg'].
  intros HSL HM HM' Hz Hx Exsa Exsi ((Wd & Sd) & _) ((Wd' & Sd') & _) [A B].
  exact (west_is_mirror_of_east nz nx M M' dx dz grad slow slow' vzero xsa xsa' xsi xsi' zsa zsi dzu dzd dxe td td' tt tt'
           sg sg' HSL Wd Wd' Sd Sd' HM HM' Hz Hx Exsa Exsi A B).
Qed.

Section MirrorX.
Variables (nz nx M M' : Z) (grad : bool).
Variables (dx dz : R) (slow slow' : arr R) (vzero xsa xsa' zsa : R) (zsi xsi xsi' : Z) (dzu dzd dxw dxe : R).
Hypothesis HM : nx <= M /\ nz <= M.
Hypothesis HM' : nx <= M' /\ nz <= M'.
Hypothesis Hzsi : 0 <= zsi < nz - 1.
Hypothesis Hxsi : 0 <= xsi < nx - 1.
Hypothesis HSL : RelSLx nz nx slow slow'.
Hypothesis Exsa : xsa' = (IZR (nx - 1) - xsa)%R.
Hypothesis Exsi : xsi' = nx - 2 - xsi.

Notation E := (east_phase dx dz grad nx slow vzero xsa xsi zsa zsi dzu dzd dxe).
Notation W := (west_phase dx dz grad slow vzero xsa xsi zsa zsi dzu dzd dxw).
Notation D := (down_phase dx dz grad nz slow vzero xsa xsi zsa zsi dxw dxe dzd).
Notation U := (up_phase dx dz grad slow vzero xsa xsi zsa zsi dxw dxe dzu).
(* the phases of the mirrored run: dxw and dxe exchanged *)
Notation E' := (east_phase dx dz grad nx slow' vzero xsa' xsi' zsa zsi dzu dzd dxw).
Notation W' := (west_phase dx dz grad slow' vzero xsa' xsi' zsa zsi dzu dzd dxe).
Notation D' := (down_phase dx dz grad nz slow' vzero xsa' xsi' zsa zsi dxe dxw dzd).
Notation U' := (up_phase dx dz grad slow' vzero xsa' xsi' zsa zsi dxe dxw dzu).

Lemma wexz_mirror_x s s' :
  good nz nx M grad s -> good nz nx M' grad s' -> XRelS nz nx grad s s' ->
  XRelS nz nx grad (U (D (E (W s)))) (U' (D' (W' (E' s')))).
Proof.
  intros Hs Hs' H0.
  pose proof (RelSLx_sym _ _ _ _ HSL) as HSL'.
  assert (Exsa2 : xsa = (IZR (nx - 1) - xsa')%R) by (rewrite Exsa; ring).
  assert (Exsi2 : xsi = nx - 2 - xsi') by lia.
  (* west / east' *)
  assert (H1 : XRelS nz nx grad (W s) (E' s')).
  { apply XRelS_sym.
    apply (pair_east_west_x nz nx M' M dx dz grad slow' slow vzero xsa' xsa xsi' xsi zsa zsi dzu dzd dxw s' s);
      [exact HSL' | lia | lia | lia | lia | exact Exsa2 | exact Exsi2 | gd | gd | apply XRelS_sym, H0]. }
  (* east / west' *)
  assert (H2 : XRelS nz nx grad (E (W s)) (W' (E' s'))).
  { apply (pair_east_west_x nz nx M M'); [exact HSL | lia | lia | lia | lia | exact Exsa | exact Exsi | gd | gd | exact H1]. }
  assert (H3 : XRelS nz nx grad (D (E (W s))) (D' (W' (E' s')))).
  { apply (down_mirror_x nz nx M M'); [exact HSL | lia | lia | lia | exact Exsa | exact Exsi | gd | gd | exact H2]. }
  apply (up_mirror_x nz nx M M'); [exact HSL | lia | lia | lia | exact Exsa | exact Exsi | gd | gd | exact H3].
Qed.

Notation P := (phases dx dz grad nx nz slow vzero xsa xsi zsa zsi dzu dzd dxw dxe).
Notation P' := (phases dx dz grad nx nz slow' vzero xsa' xsi' zsa zsi dzu dzd dxe dxw).

(* THE FOUR LOOPS OF THE X-MIRRORED RUN GIVE THE X-MIRROR OF THE FOUR LOOPS *)
Theorem phases_mirror_x s s' :
  good nz nx M grad s -> good nz nx M' grad s' -> XRelS nz nx grad s s' -> XRelS nz nx grad (P s) (P' s').
Proof.
  intros Hs Hs' H0.
  apply (XRelS_ext nz nx M M' grad _ _ _ _ (wexz_mirror_x s s' Hs Hs' H0)).
  - apply phases_good; assumption.
  - apply phases_good; try assumption; lia.
  - apply agree_sym. apply (phases_wexz nz nx M); assumption.
  - apply agree_sym. apply (phases_xz nz nx M'); try assumption; lia.
Qed.
End MirrorX.

Lemma isC_mirror_x nx zsi xsi xsi' i j : xsi' = nx - 2 - xsi -> isC zsi xsi' i (nx - 1 - j) = isC zsi xsi i j.
Proof. intros ->. unfold isC. eqb_cases. Qed.
Lemma t_anad_mirror_x_parts i j j' (dz dx zsa xsa xsa' v : R) :
  (IZR j' - xsa' = - (IZR j - xsa))%R ->
  fst (fst (t_anad i j' dz dx zsa xsa' v)) = fst (fst (t_anad i j dz dx zsa xsa v)) /\
  snd (fst (t_anad i j' dz dx zsa xsa' v)) = snd (fst (t_anad i j dz dx zsa xsa v)) /\
  snd (t_anad i j' dz dx zsa xsa' v) = (- snd (t_anad i j dz dx zsa xsa v))%R.
Proof.
  intros C. rewrite (t_anad_mirror_x i j j' dz dx zsa xsa xsa' v C).
  destruct (t_anad i j dz dx zsa xsa v) as [[a b] c]. cbn [fst snd]. auto.
Qed.

Lemma corners_mirror_x nz nx (dx dz : R) grad (vzero xsa xsa' : R) xsi xsi' (zsa : R) zsi tt tt' tg tg' :
  0 <= zsi < nz - 1 -> 0 <= xsi < nx - 1 -> xsa' = (IZR (nx - 1) - xsa)%R -> xsi' = nx - 2 - xsi ->
  okT nz nx tt -> okT nz nx tt' -> RelTTx nz nx tt tt' ->
  (grad = true -> okG nz nx tg /\ okG nz nx tg' /\ RelGRx nz nx tg tg') ->
  let c := init_corners dx dz grad vzero xsa xsi zsa zsi tt tg in
  let c' := init_corners dx dz grad vzero xsa' xsi' zsa zsi tt' tg' in
  okT nz nx (fst c) /\ okT nz nx (fst c') /\ RelTTx nz nx (fst c) (fst c') /\
  (grad = true -> okG nz nx (snd c) /\ okG nz nx (snd c') /\ RelGRx nz nx (snd c) (snd c')).
Proof.
  intros Hz Hx Exsa Exsi Ht Ht' HT HG c c'.
  assert (Hx' : 0 <= xsi' < nx - 1) by lia.
  destruct (init_corners_tt nz nx dx dz grad vzero xsa xsi zsa zsi tt tg Ht Hz Hx) as [O1 G1].
  destruct (init_corners_tt nz nx dx dz grad vzero xsa' xsi' zsa zsi tt' tg' Ht' Hz Hx') as [O1' G1'].
  fold c in O1, G1. fold c' in O1', G1'.
  split; [exact O1|]. split; [exact O1'|]. split.
  - apply RelTTx_intro; [exact O1 | exact O1'|]. intros i j Hi Hj.
    rewrite (G1 i j Hi Hj), (G1' i (nx - 1 - j) Hi ltac:(lia)), (isC_mirror_x nx zsi xsi xsi' i j Exsi).
    assert (C : (IZR (nx - 1 - j) - xsa' = - (IZR j - xsa))%R) by (subst xsa'; apply mir_coord).
    destruct (t_anad_mirror_x_parts i j (nx - 1 - j) dz dx zsa xsa xsa' vzero C) as (-> & _ & _).
    rewrite (relTTx_get nz nx tt tt' i j (nx - 1 - j) HT Hi Hj eq_refl). reflexivity.
  - intros Hg. destruct (HG Hg) as (Og & Og' & HR). subst c c'. rewrite Hg.
    destruct (init_corners_tg nz nx dx dz vzero xsa xsi zsa zsi tt tg Og Hz Hx) as [O2 G2].
    destruct (init_corners_tg nz nx dx dz vzero xsa' xsi' zsa zsi tt' tg' Og' Hz Hx') as [O2' G2'].
    split; [exact O2|]. split; [exact O2'|].
    apply RelGRx_intro; [exact O2 | exact O2'|]. intros i j k Hi Hj Hk.
    rewrite (G2 i j k Hi Hj Hk), (G2' i (nx - 1 - j) k Hi ltac:(lia) Hk), (isC_mirror_x nx zsi xsi xsi' i j Exsi).
    assert (C : (IZR (nx - 1 - j) - xsa' = - (IZR j - xsa))%R) by (subst xsa'; apply mir_coord).
    destruct (t_anad_mirror_x_parts i j (nx - 1 - j) dz dx zsa xsa xsa' vzero C) as (_ & -> & ->).
    rewrite (relGRx_get nz nx tg tg' i j k HR Hi Hj Hk).
    destruct (isC zsi xsi i j); [|reflexivity].
    destruct (Z.eqb_spec k 0) as [->|N]; [reflexivity|]. replace k with 1 by lia. reflexivity.
Qed.

(* on the reals int() of an integer is that integer: the `iflag <> 2` branches of fteik2d round the source position *)
Lemma Int_part_unique' (r : R) k : (IZR k <= r < IZR k + 1)%R -> Int_part r = k.
Proof.
  intros [H1 H2]. unfold Int_part.
  assert (E : (k + 1)%Z = up r) by (apply tech_up; rewrite plus_IZR; lra). lia.
Qed.
Lemma Rtrunc_IZR' k : ntrunc (IZR k) = k.
Proof.
  cbn [ntrunc NumR]. unfold Rtrunc. destruct (Rle_dec 0 (IZR k)).
  - apply Int_part_unique'; lra.
  - rewrite <- opp_IZR. rewrite (Int_part_unique' (IZR (- k)) (- k)%Z); [lia | lra].
Qed.
Lemma ntrunc_mirror_int n k : ntrunc (IZR (n - 1) - IZR k)%R = n - 1 - ntrunc (IZR k).
Proof. rewrite <- minus_IZR, !Rtrunc_IZR'. reflexivity. Qed.

(* THE BLOCK ON THE X-MIRRORED PROBLEM GIVES THE X-MIRROR, for every `iflag`.  For `iflag = 2` the source must lie
   in its cell (then the code's dxw, dxe are exchanged); for `iflag <> 2` the node written must be the mirror node
   (true when xsa is an integer, `ntrunc_mirror_int`: fteik2d rounds xsa in these branches). *)
Theorem fteik2d_p2_mirror_x nz nx (dx dz : R) grad iflag slow slow' tt tt' tg tg' sg sg' (vzero xsa xsa' : R) xsi xsi' (zsa : R) zsi :
  (iflag = 2 -> 0 <= zsi < nz - 1 /\ 0 <= xsi < nx - 1 /\ (0 <= xsa - IZR xsi <= 1)%R) ->
  (iflag <> 2 -> 0 <= ntrunc zsa < nz /\ 0 <= ntrunc xsa < nx /\ ntrunc xsa' = nx - 1 - ntrunc xsa) ->
  xsa' = (IZR (nx - 1) - xsa)%R -> xsi' = nx - 2 - xsi ->
  okT nz nx tt -> okT nz nx tt' ->
  (grad = true -> okG nz nx tg /\ okG nz nx tg' /\ okS nz nx sg /\ okS nz nx sg') ->
  RelSLx nz nx slow slow' -> RelTTx nz nx tt tt' ->
  (grad = true -> RelGRx nz nx tg tg' /\ RelSGx nz nx sg sg') ->
  let r := fteik2d_p2 dx dz grad iflag nx nz slow tt tg sg vzero xsa xsi zsa zsi in
  let r' := fteik2d_p2 dx dz grad iflag nx nz slow' tt' tg' sg' vzero xsa' xsi' zsa zsi in
  RelTTx nz nx (fst (fst r)) (fst (fst r')) /\
  (grad = true -> RelGRx nz nx (snd (fst r)) (snd (fst r')) /\ RelSGx nz nx (snd r) (snd r')).
Proof.
  intros H2 Hn Exsa Exsi Ht Ht' Hok HSL HT HR r r'. subst r r'. destruct (Z.eq_dec iflag 2) as [->|N].
  - destruct (H2 eq_refl) as (Hz & Hx & Hin).
    destruct (corners_mirror_x nz nx dx dz grad vzero xsa xsa' xsi xsi' zsa zsi tt tt' tg tg' Hz Hx Exsa Exsi Ht Ht' HT)
      as (O1 & O1' & HC & HGc).
    { intros Hg. destruct (Hok Hg) as (? & ? & _), (HR Hg) as [? _]. auto. }
    pose proof (mirrored_dxw_is_dxe nx xsa xsi Hin) as Em. cbv zeta in Em. rewrite <- Exsa, <- Exsi in Em.
    destruct Em as [Em1 Em2].
    rewrite !fteik2d_p2_phases. cbv zeta. cbn [fst snd]. rewrite Em2, Em1.
    match goal with |- context [phases dx dz grad nx nz slow vzero xsa xsi zsa zsi ?dzu ?dzd ?dxw ?dxe ?s0] =>
      match goal with |- context [phases dx dz grad nx nz slow' vzero xsa' xsi' zsa zsi _ _ _ _ ?s0'] =>
        pose proof (phases_mirror_x nz nx (Z.max nz nx) (Z.max nz nx) grad dx dz slow slow' vzero xsa xsa' zsa zsi xsi xsi'
                      dzu dzd dxw dxe ltac:(lia) ltac:(lia) Hz Hx HSL Exsa Exsi s0 s0') as PT end end.
    destruct PT as [PT1 PT2].
    + split; [apply okD_full; lia|]. split; [exact O1|]. intros Hg. apply (Hok Hg).
    + split; [apply okD_full; lia|]. split; [exact O1'|]. intros Hg. apply (Hok Hg).
    + split; [exact HC|]. intros Hg. apply (HR Hg).
    + split; [exact PT1|]. intros Hg. split; [apply (HGc Hg) | apply (PT2 Hg)].
  - rewrite !fteik2d_p2_decompose. apply Z.eqb_neq in N. rewrite N. cbn [fst snd].
    destruct (Hn ltac:(lia)) as (Bz & Bx & Em). split; [|exact HR].
    apply relTTx_set; assumption.
Qed.

Definition mirror_grad_x (nz nx : Z) (g : arr R) : arr R :=
  tab3 nz nx 2 (fun i j k => if k =? 1 then Ropp (get 0%R g [i; nx - 1 - j; k]) else get 0%R g [i; nx - 1 - j; k]).
Lemma mirror_grad_x_rel nz nx g : okG nz nx g -> RelGRx nz nx g (mirror_grad_x nz nx g).
Proof.
  intros Og. pose proof Og as [W S]. destruct (shape3_nonneg g _ _ _ W S).
  apply RelGRx_intro; [exact Og | split; [apply wf_tab3; lia | reflexivity]|].
  intros i j k Hi Hj Hk. unfold mirror_grad_x. rewrite get_tab3 by lia. rewrite fmx3_invol. reflexivity.
Qed.

(* reading the x-mirror relations cell by cell *)
Lemma mirror_x_cells nz nx (grad : bool) (a a' g g' : arr R) (s s' : arr Z) :
  RelTTx nz nx a a' -> (grad = true -> RelGRx nz nx g g' /\ RelSGx nz nx s s') ->
  (forall i j, 0 <= i < nz -> 0 <= j < nx -> get 0%R a' [i; j] = get 0%R a [i; nx - 1 - j]) /\
  (grad = true -> forall i j, 0 <= i < nz -> 0 <= j < nx ->
     get 0%R g' [i; j; 0] = get 0%R g [i; nx - 1 - j; 0] /\
     get 0%R g' [i; j; 1] = Ropp (get 0%R g [i; nx - 1 - j; 1]) /\
     get 0 s' [i; j; 0] = get 0 s [i; nx - 1 - j; 0] /\
     get 0 s' [i; j; 1] = - get 0 s [i; nx - 1 - j; 1]).
Proof.
  intros HT HR. split.
  - intros i j Hi Hj. apply (relTTx_get nz nx _ _ i (nx - 1 - j) j HT); lia.
  - intros G i j Hi Hj. destruct (HR G) as [HG HS].
    pose proof (relGRx_get nz nx _ _ i (nx - 1 - j) 0 HG Hi ltac:(lia) ltac:(lia)) as Q0.
    pose proof (relGRx_get nz nx _ _ i (nx - 1 - j) 1 HG Hi ltac:(lia) ltac:(lia)) as Q1.
    pose proof (relSGx_get nz nx _ _ i (nx - 1 - j) j 0 HS Hi ltac:(lia) ltac:(lia) ltac:(lia)) as Q2.
    pose proof (relSGx_get nz nx _ _ i (nx - 1 - j) j 1 HS Hi ltac:(lia) ltac:(lia) ltac:(lia)) as Q3.
    rewrite fmx3_invol in Q0, Q1.
    split; [exact Q0|]. split; [exact Q1|]. split; [exact Q2 | exact Q3].
Qed.

(* EXPLICIT FORM of the x-mirror *)
Theorem fteik2d_p2_mirror_x_explicit nz nx (dx dz : R) grad iflag slow tt tg tg' sg sg' (vzero xsa : R) xsi (zsa : R) zsi :
  (iflag = 2 -> 0 <= zsi < nz - 1 /\ 0 <= xsi < nx - 1 /\ (0 <= xsa - IZR xsi <= 1)%R) ->
  (iflag <> 2 -> 0 <= ntrunc zsa < nz /\ 0 <= ntrunc xsa < nx /\ exists k, xsa = IZR k) ->
  wf slow -> shape slow = [nz - 1; nx - 1] -> okT nz nx tt ->
  (grad = true -> okG nz nx tg /\ okS nz nx sg /\ tg' = mirror_grad_x nz nx tg /\ sg' = mirror_sgn_x nz nx sg) ->
  let r := fteik2d_p2 dx dz grad iflag nx nz slow tt tg sg vzero xsa xsi zsa zsi in
  let r' := fteik2d_p2 dx dz grad iflag nx nz (mirror_x (nz - 1) (nx - 1) slow) (mirror_x nz nx tt) tg' sg'
              vzero (IZR (nx - 1) - xsa)%R (nx - 2 - xsi) zsa zsi in
  (forall i j, 0 <= i < nz -> 0 <= j < nx -> get 0%R (fst (fst r')) [i; j] = get 0%R (fst (fst r)) [i; nx - 1 - j]) /\
  (grad = true -> forall i j, 0 <= i < nz -> 0 <= j < nx ->
     get 0%R (snd (fst r')) [i; j; 0] = get 0%R (snd (fst r)) [i; nx - 1 - j; 0] /\
     get 0%R (snd (fst r')) [i; j; 1] = Ropp (get 0%R (snd (fst r)) [i; nx - 1 - j; 1]) /\
     get 0 (snd r') [i; j; 0] = get 0 (snd r) [i; nx - 1 - j; 0] /\
     get 0 (snd r') [i; j; 1] = - get 0 (snd r) [i; nx - 1 - j; 1]).
Proof.
  intros H2 Hn Wsl Ssl Ht Hg r r'. destruct (okT_nonneg _ _ _ Ht) as [N1 N2]. pose proof Ht as [Wt St].
  assert (Hn' : iflag <> 2 -> 0 <= ntrunc zsa < nz /\ 0 <= ntrunc xsa < nx /\
                 ntrunc (IZR (nx - 1) - xsa)%R = nx - 1 - ntrunc xsa).
  { intros N. destruct (Hn N) as (? & ? & k & Ek). split; [assumption|]. split; [assumption|].
    rewrite Ek. apply ntrunc_mirror_int. }
  assert (H : RelTTx nz nx (fst (fst r)) (fst (fst r')) /\
              (grad = true -> RelGRx nz nx (snd (fst r)) (snd (fst r')) /\ RelSGx nz nx (snd r) (snd r'))).
  { apply (fteik2d_p2_mirror_x nz nx dx dz grad iflag slow (mirror_x (nz - 1) (nx - 1) slow) tt (mirror_x nz nx tt)
              tg tg' sg sg' vzero xsa (IZR (nx - 1) - xsa)%R xsi (nx - 2 - xsi) zsa zsi H2 Hn' eq_refl eq_refl Ht).
    - split; [apply wf_tab2; lia | reflexivity].
    - intros G. destruct (Hg G) as (? & ? & -> & ->).
      split; [assumption|]. split; [split; [apply wf_tab3; lia | reflexivity]|].
      split; [assumption | split; [apply wf_tab3; lia | reflexivity]].
    - apply mirror_x_slow_rel; assumption.
    - apply mirror_x_rel; assumption.
    - intros G. destruct (Hg G) as (Og & [Ws Ss] & -> & ->).
      split; [apply mirror_grad_x_rel, Og | apply mirror_sgn_x_rel; assumption]. }
  clearbody r r'. exact (mirror_x_cells nz nx grad _ _ _ _ _ _ (proj1 H) (proj2 H)).
Qed.

(* ========================================================================================== *)
(* 8. Z-MIRROR = transposition o x-mirror o transposition                                       *)
(* ========================================================================================== *)
Lemma RelTTz_intro nz nx a a' :
  okT nz nx a -> okT nz nx a' ->
  (forall i j, 0 <= i < nz -> 0 <= j < nx -> get 0%R a' [nz - 1 - i; j] = get 0%R a [i; j]) -> RelTTz nz nx a a'.
Proof.
  intros [W S] [W' S'] H. split; [exact W|]. split; [exact W'|]. split; intros ix Hd; dom_inv; cbn [fmz gid].
  - split; inb_tac.
  - apply H; assumption.
Qed.
Lemma RelSGz_intro nz nx a a' :
  okS nz nx a -> okS nz nx a' ->
  (forall i j k, 0 <= i < nz -> 0 <= j < nx -> 0 <= k < 2 ->
     get 0 a' [nz - 1 - i; j; k] = if k =? 0 then - get 0 a [i; j; k] else get 0 a [i; j; k]) ->
  RelSGz nz nx a a'.
Proof.
  intros [W S] [W' S'] H. split; [exact W|]. split; [exact W'|]. split; intros ix Hd; dom_inv; cbn [fmz gneg].
  - split; inb_tac.
  - apply H; assumption.
Qed.
Lemma RelGRz_intro nz nx a a' :
  okG nz nx a -> okG nz nx a' ->
  (forall i j k, 0 <= i < nz -> 0 <= j < nx -> 0 <= k < 2 ->
     get 0%R a' [nz - 1 - i; j; k] = if k =? 0 then Ropp (get 0%R a [i; j; k]) else get 0%R a [i; j; k]) ->
  RelGRz nz nx a a'.
Proof.
  intros [W S] [W' S'] H. split; [exact W|]. split; [exact W'|]. split; intros ix Hd; dom_inv; cbn [fmz gnegR].
  - split; inb_tac.
  - apply H; assumption.
Qed.
Lemma relGRz_get nz nx s s' i j k :
  RelGRz nz nx s s' -> 0 <= i < nz -> 0 <= j < nx -> 0 <= k < 2 ->
  get 0%R s' [nz - 1 - i; j; k] = if k =? 0 then Ropp (get 0%R s [i; j; k]) else get 0%R s [i; j; k].
Proof. intros H Hi Hj Hk. exact (arel_get 0%R _ _ _ s s' [i; j; k] _ H (dom3_intro _ _ _ _ _ Hi Hj Hk) eq_refl). Qed.

Lemma get_transpose nz nx a i j : 0 <= i < nz -> 0 <= j < nx -> get 0%R (transpose nz nx a) [j; i] = get 0%R a [i; j].
Proof. intros Hi Hj. unfold transpose. rewrite get_tab2 by lia. reflexivity. Qed.
Lemma get_transpose_sgn nz nx a i j k :
  0 <= i < nz -> 0 <= j < nx -> 0 <= k < 2 -> get 0 (transpose_sgn nz nx a) [j; i; k] = get 0 a [i; j; 1 - k].
Proof. intros Hi Hj Hk. unfold transpose_sgn. rewrite get_tab3 by lia. reflexivity. Qed.
Lemma get_transpose_grad nz nx a i j k :
  0 <= i < nz -> 0 <= j < nx -> 0 <= k < 2 -> get 0%R (transpose_grad nz nx a) [j; i; k] = get 0%R a [i; j; 1 - k].
Proof. intros Hi Hj Hk. unfold transpose_grad. rewrite get_tab3 by lia. reflexivity. Qed.

(* the transposes of two z-mirror images are x-mirror images *)
Lemma z_to_x_tt nz nx a a' :
  0 <= nz -> 0 <= nx -> RelTTz nz nx a a' -> RelTTx nx nz (transpose nz nx a) (transpose nz nx a').
Proof.
  intros N1 N2 H. apply RelTTx_intro; try (apply okT_transpose; assumption).
  intros j i Hj Hi. rewrite !get_transpose by lia. apply (relTTz_get nz nx a a' i (nz - 1 - i) j H); lia.
Qed.
Lemma z_to_x_sg nz nx a a' :
  0 <= nz -> 0 <= nx -> RelSGz nz nx a a' -> RelSGx nx nz (transpose_sgn nz nx a) (transpose_sgn nz nx a').
Proof.
  intros N1 N2 H. apply RelSGx_intro; try (apply okS_transpose_sgn; assumption).
  intros j i k Hj Hi Hk. rewrite !get_transpose_sgn by lia.
  rewrite (relSGz_get nz nx a a' i (nz - 1 - i) j (1 - k) H) by lia.
  destruct (Z.eqb_spec k 1) as [->|N]; [reflexivity|]. replace k with 0 by lia. reflexivity.
Qed.
Lemma z_to_x_gr nz nx a a' :
  0 <= nz -> 0 <= nx -> RelGRz nz nx a a' -> RelGRx nx nz (transpose_grad nz nx a) (transpose_grad nz nx a').
Proof.
  intros N1 N2 H. apply RelGRx_intro; try (apply okG_transpose_grad; assumption).
  intros j i k Hj Hi Hk. rewrite !get_transpose_grad by lia.
  rewrite (relGRz_get nz nx a a' i j (1 - k) H) by lia.
  destruct (Z.eqb_spec k 1) as [->|N]; [reflexivity|]. replace k with 0 by lia. reflexivity.
Qed.

(* ... and back *)
Lemma txt_to_z_tt nz nx r r' rT rT' :
  okT nz nx r -> okT nz nx r' -> RelTTt nz nx r rT -> RelTTt nz nx r' rT' -> RelTTx nx nz rT rT' -> RelTTz nz nx r r'.
Proof.
  intros O O' H1 H2 HX. apply RelTTz_intro; [exact O | exact O'|]. intros i j Hi Hj.
  rewrite <- (relTTt_get nz nx r' rT' (nz - 1 - i) j H2) by lia.
  rewrite (relTTx_get nx nz rT rT' j i (nz - 1 - i) HX) by lia.
  apply (relTTt_get nz nx r rT i j H1); lia.
Qed.
Lemma txt_to_z_sg nz nx r r' rT rT' :
  okS nz nx r -> okS nz nx r' -> RelSGt nz nx r rT -> RelSGt nz nx r' rT' -> RelSGx nx nz rT rT' -> RelSGz nz nx r r'.
Proof.
  intros O O' H1 H2 HX. apply RelSGz_intro; [exact O | exact O'|]. intros i j k Hi Hj Hk.
  rewrite <- (relSGt_get nz nx r' rT' (nz - 1 - i) j k H2) by lia.
  rewrite (relSGx_get nx nz rT rT' j i (nz - 1 - i) (1 - k) HX) by lia.
  rewrite (relSGt_get nz nx r rT i j k H1) by lia.
  destruct (Z.eqb_spec k 0) as [->|N]; [reflexivity|]. replace k with 1 by lia. reflexivity.
Qed.
Lemma txt_to_z_gr nz nx r r' rT rT' :
  okG nz nx r -> okG nz nx r' -> RelGRt nz nx r rT -> RelGRt nz nx r' rT' -> RelGRx nx nz rT rT' -> RelGRz nz nx r r'.
Proof.
  intros O O' H1 H2 HX. apply RelGRz_intro; [exact O | exact O'|]. intros i j k Hi Hj Hk.
  rewrite <- (relGRt_get nz nx r' rT' (nz - 1 - i) j k H2) by lia.
  rewrite (relGRx_get nx nz rT rT' j i (1 - k) HX) by lia.
  rewrite (relGRt_get nz nx r rT i j k H1) by lia.
  destruct (Z.eqb_spec k 0) as [->|N]; [reflexivity|]. replace k with 1 by lia. reflexivity.
Qed.

(* THE BLOCK ON THE Z-MIRRORED PROBLEM GIVES THE Z-MIRROR, obtained by composing the two theorems above *)
Theorem fteik2d_p2_mirror_z nz nx (dx dz : R) grad iflag slow slow' tt tt' tg tg' sg sg' (vzero xsa : R) xsi (zsa zsa' : R) zsi zsi' :
  (iflag = 2 -> 0 <= zsi < nz - 1 /\ 0 <= xsi < nx - 1 /\ (0 <= zsa - IZR zsi <= 1)%R) ->
  (iflag <> 2 -> 0 <= ntrunc zsa < nz /\ 0 <= ntrunc xsa < nx /\ ntrunc zsa' = nz - 1 - ntrunc zsa) ->
  zsa' = (IZR (nz - 1) - zsa)%R -> zsi' = nz - 2 - zsi ->
  okT (nz - 1) (nx - 1) slow -> okT (nz - 1) (nx - 1) slow' -> okT nz nx tt -> okT nz nx tt' ->
  (grad = true -> okG nz nx tg /\ okG nz nx tg' /\ okS nz nx sg /\ okS nz nx sg') ->
  RelSLz nz nx slow slow' -> RelTTz nz nx tt tt' ->
  (grad = true -> RelGRz nz nx tg tg' /\ RelSGz nz nx sg sg') ->
  let r := fteik2d_p2 dx dz grad iflag nx nz slow tt tg sg vzero xsa xsi zsa zsi in
  let r' := fteik2d_p2 dx dz grad iflag nx nz slow' tt' tg' sg' vzero xsa xsi zsa' zsi' in
  RelTTz nz nx (fst (fst r)) (fst (fst r')) /\
  (grad = true -> RelGRz nz nx (snd (fst r)) (snd (fst r')) /\ RelSGz nz nx (snd r) (snd r')).
Proof.
  intros H2 Hn Ezsa Ezsi Osl Osl' Ht Ht' Hok HSL HT HR r r'.
  destruct (okT_nonneg _ _ _ Ht) as [N1 N2]. destruct (okT_nonneg _ _ _ Osl) as [N3 N4].
  (* the two transposed problems *)
  set (slT := transpose (nz - 1) (nx - 1) slow). set (slT' := transpose (nz - 1) (nx - 1) slow').
  set (ttT := transpose nz nx tt). set (ttT' := transpose nz nx tt').
  set (tgT := transpose_grad nz nx tg). set (tgT' := transpose_grad nz nx tg').
  set (sgT := transpose_sgn nz nx sg). set (sgT' := transpose_sgn nz nx sg').
  assert (OkT : grad = true -> okG nz nx tg /\ okG nx nz tgT /\ okS nz nx sg /\ okS nx nz sgT).
  { intros G. destruct (Hok G) as (? & ? & ? & ?).
    split; [assumption|]. split; [apply okG_transpose_grad; lia|]. split; [assumption | apply okS_transpose_sgn; lia]. }
  assert (OkT' : grad = true -> okG nz nx tg' /\ okG nx nz tgT' /\ okS nz nx sg' /\ okS nx nz sgT').
  { intros G. destruct (Hok G) as (? & ? & ? & ?).
    split; [assumption|]. split; [apply okG_transpose_grad; lia|]. split; [assumption | apply okS_transpose_sgn; lia]. }
  assert (H2a : iflag = 2 -> 0 <= zsi < nz - 1 /\ 0 <= xsi < nx - 1) by (intros E; destruct (H2 E) as (? & ? & _); auto).
  assert (H2b : iflag = 2 -> 0 <= zsi' < nz - 1 /\ 0 <= xsi < nx - 1) by (intros E; destruct (H2 E) as (? & ? & _); lia).
  assert (Hna : iflag <> 2 -> 0 <= ntrunc zsa < nz /\ 0 <= ntrunc xsa < nx) by (intros E; destruct (Hn E) as (? & ? & _); auto).
  assert (Hnb : iflag <> 2 -> 0 <= ntrunc zsa' < nz /\ 0 <= ntrunc xsa < nx) by (intros E; destruct (Hn E) as (? & ? & ?); lia).
  (* original and its transpose *)
  pose proof (fteik2d_p2_transpose nz nx dx dz grad iflag slow slT tt ttT tg tgT sg sgT vzero xsa xsi zsa zsi
                H2a Hna Ht (okT_transpose nz nx tt N1 N2) OkT
                (transpose_slow_rel nz nx slow (proj1 Osl) (proj2 Osl)) (transpose_rel nz nx tt (proj1 Ht) (proj2 Ht))) as T1.
  (* mirrored and its transpose *)
  pose proof (fteik2d_p2_transpose nz nx dx dz grad iflag slow' slT' tt' ttT' tg' tgT' sg' sgT' vzero xsa xsi zsa' zsi'
                H2b Hnb Ht' (okT_transpose nz nx tt' N1 N2) OkT'
                (transpose_slow_rel nz nx slow' (proj1 Osl') (proj2 Osl')) (transpose_rel nz nx tt' (proj1 Ht') (proj2 Ht'))) as T2.
  (* the two transposed problems are x-mirror images *)
  pose proof (fteik2d_p2_mirror_x nx nz dz dx grad iflag slT slT' ttT ttT' tgT tgT' sgT sgT' vzero zsa zsa' zsi zsi' xsa xsi) as X.
  (* shapes of the four results *)
  pose proof (fteik2d_p2_shapes nz nx dx dz grad iflag slow tt tg sg vzero xsa xsi zsa zsi H2a Ht) as S1.
  pose proof (fteik2d_p2_shapes nz nx dx dz grad iflag slow' tt' tg' sg' vzero xsa xsi zsa' zsi' H2b Ht') as S2.
  cbv zeta in T1, T2, X, S1, S2. fold r in T1, S1. fold r' in T2, S2.
  match type of T1 with _ -> RelTTt _ _ _ (fst (fst ?a)) /\ _ => set (rT := a) in * end.
  match type of T2 with _ -> RelTTt _ _ _ (fst (fst ?a)) /\ _ => set (rT' := a) in * end.
  clearbody r r' rT rT'.
  destruct T1 as [T1a T1b].
  { intros G. destruct (OkT G) as (Og & _ & [Ws Ss] & _). split; [apply transpose_grad_rel, Og | apply transpose_sgn_rel; assumption]. }
  destruct T2 as [T2a T2b].
  { intros G. destruct (OkT' G) as (Og & _ & [Ws Ss] & _). split; [apply transpose_grad_rel, Og | apply transpose_sgn_rel; assumption]. }
  destruct S1 as [S1a S1b]; [intros G; destruct (Hok G) as (? & ? & ? & ?); auto|].
  destruct S2 as [S2a S2b]; [intros G; destruct (Hok G) as (? & ? & ? & ?); auto|].
  destruct X as [Xa Xb].
  - intros E. destruct (H2 E) as (? & ? & ?). auto.
  - intros E. destruct (Hn E) as (? & ? & ?). auto.
  - exact Ezsa.
  - exact Ezsi.
  - apply okT_transpose; assumption.
  - apply okT_transpose; assumption.
  - intros G. destruct (OkT G) as (_ & ? & _ & ?), (OkT' G) as (_ & ? & _ & ?). auto.
  - apply (z_to_x_tt (nz - 1) (nx - 1) slow slow' N3 N4 HSL).
  - apply (z_to_x_tt nz nx tt tt' N1 N2 HT).
  - intros G. destruct (HR G) as [HGz HSz]. split; [apply z_to_x_gr | apply z_to_x_sg]; assumption.
  - split; [apply (txt_to_z_tt nz nx _ _ _ _ S1a S2a T1a T2a Xa)|].
    intros G. destruct (S1b G) as [? ?], (S2b G) as [? ?], (T1b G) as [? ?], (T2b G) as [? ?], (Xb G) as [? ?].
    split; [eapply txt_to_z_gr | eapply txt_to_z_sg]; eassumption.
Qed.

Definition mirror_grad_z (nz nx : Z) (g : arr R) : arr R :=
  tab3 nz nx 2 (fun i j k => if k =? 0 then Ropp (get 0%R g [nz - 1 - i; j; k]) else get 0%R g [nz - 1 - i; j; k]).
Lemma fmz3_invol n i j (k : Z) : [n - 1 - (n - 1 - i); j; k] = [i; j; k].
Proof. repeat f_equal. lia. Qed.
Lemma mirror_grad_z_rel nz nx g : okG nz nx g -> RelGRz nz nx g (mirror_grad_z nz nx g).
Proof.
  intros Og. pose proof Og as [W S]. destruct (shape3_nonneg g _ _ _ W S).
  apply RelGRz_intro; [exact Og | split; [apply wf_tab3; lia | reflexivity]|].
  intros i j k Hi Hj Hk. unfold mirror_grad_z. rewrite get_tab3 by lia. rewrite fmz3_invol. reflexivity.
Qed.
Lemma mirror_z_cells nz nx (grad : bool) (a a' g g' : arr R) (s s' : arr Z) :
  RelTTz nz nx a a' -> (grad = true -> RelGRz nz nx g g' /\ RelSGz nz nx s s') ->
  (forall i j, 0 <= i < nz -> 0 <= j < nx -> get 0%R a' [i; j] = get 0%R a [nz - 1 - i; j]) /\
  (grad = true -> forall i j, 0 <= i < nz -> 0 <= j < nx ->
     get 0%R g' [i; j; 0] = Ropp (get 0%R g [nz - 1 - i; j; 0]) /\
     get 0%R g' [i; j; 1] = get 0%R g [nz - 1 - i; j; 1] /\
     get 0 s' [i; j; 0] = - get 0 s [nz - 1 - i; j; 0] /\
     get 0 s' [i; j; 1] = get 0 s [nz - 1 - i; j; 1]).
Proof.
  intros HT HR. split.
  - intros i j Hi Hj. apply (relTTz_get nz nx _ _ (nz - 1 - i) i j HT); lia.
  - intros G i j Hi Hj. destruct (HR G) as [HG HS].
    pose proof (relGRz_get nz nx _ _ (nz - 1 - i) j 0 HG ltac:(lia) Hj ltac:(lia)) as Q0.
    pose proof (relGRz_get nz nx _ _ (nz - 1 - i) j 1 HG ltac:(lia) Hj ltac:(lia)) as Q1.
    pose proof (relSGz_get nz nx _ _ (nz - 1 - i) i j 0 HS ltac:(lia) Hj ltac:(lia) ltac:(lia)) as Q2.
    pose proof (relSGz_get nz nx _ _ (nz - 1 - i) i j 1 HS ltac:(lia) Hj ltac:(lia) ltac:(lia)) as Q3.
    rewrite fmz3_invol in Q0, Q1.
    split; [exact Q0|]. split; [exact Q1|]. split; [exact Q2 | exact Q3].
Qed.

(* EXPLICIT FORM of the z-mirror *)
Theorem fteik2d_p2_mirror_z_explicit nz nx (dx dz : R) grad iflag slow tt tg tg' sg sg' (vzero xsa : R) xsi (zsa : R) zsi :
  (iflag = 2 -> 0 <= zsi < nz - 1 /\ 0 <= xsi < nx - 1 /\ (0 <= zsa - IZR zsi <= 1)%R) ->
  (iflag <> 2 -> 0 <= ntrunc zsa < nz /\ 0 <= ntrunc xsa < nx /\ exists k, zsa = IZR k) ->
  okT (nz - 1) (nx - 1) slow -> okT nz nx tt ->
  (grad = true -> okG nz nx tg /\ okS nz nx sg /\ tg' = mirror_grad_z nz nx tg /\ sg' = mirror_sgn_z nz nx sg) ->
  let r := fteik2d_p2 dx dz grad iflag nx nz slow tt tg sg vzero xsa xsi zsa zsi in
  let r' := fteik2d_p2 dx dz grad iflag nx nz (mirror_z (nz - 1) (nx - 1) slow) (mirror_z nz nx tt) tg' sg'
              vzero xsa xsi (IZR (nz - 1) - zsa)%R (nz - 2 - zsi) in
  (forall i j, 0 <= i < nz -> 0 <= j < nx -> get 0%R (fst (fst r')) [i; j] = get 0%R (fst (fst r)) [nz - 1 - i; j]) /\
  (grad = true -> forall i j, 0 <= i < nz -> 0 <= j < nx ->
     get 0%R (snd (fst r')) [i; j; 0] = Ropp (get 0%R (snd (fst r)) [nz - 1 - i; j; 0]) /\
     get 0%R (snd (fst r')) [i; j; 1] = get 0%R (snd (fst r)) [nz - 1 - i; j; 1] /\
     get 0 (snd r') [i; j; 0] = - get 0 (snd r) [nz - 1 - i; j; 0] /\
     get 0 (snd r') [i; j; 1] = get 0 (snd r) [nz - 1 - i; j; 1]).
Proof.
  intros H2 Hn Osl Ht Hg r r'. destruct (okT_nonneg _ _ _ Ht) as [N1 N2]. destruct (okT_nonneg _ _ _ Osl) as [N3 N4].
  assert (Hn' : iflag <> 2 -> 0 <= ntrunc zsa < nz /\ 0 <= ntrunc xsa < nx /\
                 ntrunc (IZR (nz - 1) - zsa)%R = nz - 1 - ntrunc zsa).
  { intros N. destruct (Hn N) as (? & ? & k & Ek). split; [assumption|]. split; [assumption|].
    rewrite Ek. apply ntrunc_mirror_int. }
  assert (H : RelTTz nz nx (fst (fst r)) (fst (fst r')) /\
              (grad = true -> RelGRz nz nx (snd (fst r)) (snd (fst r')) /\ RelSGz nz nx (snd r) (snd r'))).
  { apply (fteik2d_p2_mirror_z nz nx dx dz grad iflag slow (mirror_z (nz - 1) (nx - 1) slow) tt (mirror_z nz nx tt)
              tg tg' sg sg' vzero xsa xsi zsa (IZR (nz - 1) - zsa)%R zsi (nz - 2 - zsi) H2 Hn' eq_refl eq_refl Osl).
    - split; [apply wf_tab2; lia | reflexivity].
    - exact Ht.
    - split; [apply wf_tab2; lia | reflexivity].
    - intros G. destruct (Hg G) as (? & ? & -> & ->).
      split; [assumption|]. split; [split; [apply wf_tab3; lia | reflexivity]|].
      split; [assumption | split; [apply wf_tab3; lia | reflexivity]].
    - apply mirror_z_slow_rel; apply Osl.
    - apply mirror_z_rel; apply Ht.
    - intros G. destruct (Hg G) as (Og & [Ws Ss] & -> & ->).
      split; [apply mirror_grad_z_rel, Og | apply mirror_sgn_z_rel; assumption]. }
  clearbody r r'. exact (mirror_z_cells nz nx grad _ _ _ _ _ _ (proj1 H) (proj2 H)).
Qed.

(* ========================================================================================== *)
(* 9. non-vacuity                                                                               *)
(* ========================================================================================== *)
(* closed instances: 4 x 4 nodes, heterogeneous medium, source cell (1, 1), any spacings / source position *)
Section Instances.
Variables (dx dz vzero xsa zsa : R).
Definition ex_slow : arr R := mkarr [3; 3] [1; 9 / 8; 5 / 4; 7 / 8; 1; 11 / 8; 9 / 8; 3 / 4; 1]%R.
Definition ex_tt : arr R := full [4; 4] Big.
Definition ex_tg : arr R := full [4; 4; 2] 0%R.
Definition ex_sg : arr Z := full [4; 4; 2] 0.

Lemma ex_slow_ok : okT 3 3 ex_slow.
Proof. split; [split; [reflexivity | repeat constructor; lia] | reflexivity]. Qed.
Lemma ex_tt_ok : okT 4 4 ex_tt.
Proof. split; [apply wf_full; repeat constructor; lia | reflexivity]. Qed.
Lemma ex_tg_ok : okG 4 4 ex_tg.
Proof. split; [apply wf_full; repeat constructor; lia | reflexivity]. Qed.
Lemma ex_sg_ok : okS 4 4 ex_sg.
Proof. split; [apply wf_full; repeat constructor; lia | reflexivity]. Qed.

Example fteik2d_p2_transpose_instance :
  let r := fteik2d_p2 dx dz true 2 4 4 ex_slow ex_tt ex_tg ex_sg vzero xsa 1 zsa 1 in
  let r' := fteik2d_p2 dz dx true 2 4 4 (transpose 3 3 ex_slow) (transpose 4 4 ex_tt) (transpose_grad 4 4 ex_tg)
              (transpose_sgn 4 4 ex_sg) vzero zsa 1 xsa 1 in
  forall i j, 0 <= i < 4 -> 0 <= j < 4 ->
    get 0%R (fst (fst r')) [j; i] = get 0%R (fst (fst r)) [i; j] /\
    get 0 (snd r') [j; i; 1] = get 0 (snd r) [i; j; 0] /\ get 0 (snd r') [j; i; 0] = get 0 (snd r) [i; j; 1].
Proof.
  intros r r' i j Hi Hj.
  destruct (fteik2d_p2_transpose_explicit 4 4 dx dz true 2 ex_slow ex_tt ex_tg (transpose_grad 4 4 ex_tg) ex_sg
              (transpose_sgn 4 4 ex_sg) vzero xsa 1 zsa 1) as [HT HG].
  - intros _. lia.
  - intros N. exfalso. apply N. reflexivity.
  - apply ex_slow_ok.
  - reflexivity.
  - apply ex_tt_ok.
  - intros _. split; [apply ex_tg_ok|]. split; [apply ex_sg_ok|]. split; reflexivity.
  - change (4 - 1) with 3 in HT, HG. fold r r' in HT, HG. clearbody r r'. destruct (HG eq_refl i j Hi Hj) as (_ & _ & Q2 & Q3).
    split; [apply HT; assumption|]. split; assumption.
Qed.

Example fteik2d_p2_mirror_x_instance :
  (0 <= xsa - 1 <= 1)%R ->
  let r := fteik2d_p2 dx dz true 2 4 4 ex_slow ex_tt ex_tg ex_sg vzero xsa 1 zsa 1 in
  let r' := fteik2d_p2 dx dz true 2 4 4 (mirror_x 3 3 ex_slow) (mirror_x 4 4 ex_tt) (mirror_grad_x 4 4 ex_tg)
              (mirror_sgn_x 4 4 ex_sg) vzero (3 - xsa)%R 1 zsa 1 in
  forall i j, 0 <= i < 4 -> 0 <= j < 4 ->
    get 0%R (fst (fst r')) [i; j] = get 0%R (fst (fst r)) [i; 3 - j] /\
    get 0 (snd r') [i; j; 0] = get 0 (snd r) [i; 3 - j; 0] /\ get 0 (snd r') [i; j; 1] = - get 0 (snd r) [i; 3 - j; 1].
Proof.
  intros Hin r r' i j Hi Hj.
  destruct (fteik2d_p2_mirror_x_explicit 4 4 dx dz true 2 ex_slow ex_tt ex_tg (mirror_grad_x 4 4 ex_tg) ex_sg
              (mirror_sgn_x 4 4 ex_sg) vzero xsa 1 zsa 1) as [HT HG].
  - intros _. split; [lia|]. split; [lia | exact Hin].
  - intros N. exfalso. apply N. reflexivity.
  - apply ex_slow_ok.
  - reflexivity.
  - apply ex_tt_ok.
  - intros _. split; [apply ex_tg_ok|]. split; [apply ex_sg_ok|]. split; reflexivity.
  - change (IZR (4 - 1)) with 3%R in HT, HG. change (4 - 2 - 1) with 1 in HT, HG. change (4 - 1) with 3 in HT, HG.
    fold r r' in HT, HG. clearbody r r'. destruct (HG eq_refl i j Hi Hj) as (_ & _ & Q2 & Q3).
    split; [apply HT; assumption|]. split; assumption.
Qed.
End Instances.

(* the generated function evaluated on binary64: heterogeneous medium, dz <> dx, source inside cell (1, 1) of a 4 x 4
   grid (all four loops write, see InitSym.FloatExample.four_loops_write).  On this instance the transposed, the
   x-mirrored and the z-mirrored runs reproduce the original run bit for bit, cell by cell (times, signs, and the
   gradient components written by the corner assignments). *)
Module FloatExample.
Import PrimFloat.
Definition f_slow : arr float := mkarr [3; 3] [1.0; 1.125; 1.25; 0.875; 1.0; 1.375; 1.125; 0.75; 1.0]%float.
Definition f_slow_t : arr float := mkarr [3; 3] [1.0; 0.875; 1.125; 1.125; 1.0; 0.75; 1.25; 1.375; 1.0]%float.
Definition f_slow_x : arr float := mkarr [3; 3] [1.25; 1.125; 1.0; 1.375; 1.0; 0.875; 1.0; 0.75; 1.125]%float.
Definition f_slow_z : arr float := mkarr [3; 3] [1.125; 0.75; 1.0; 0.875; 1.0; 1.375; 1.0; 1.125; 1.25]%float.
Definition f_tt : arr float := full [4; 4] Big.
Definition f_tg : arr float := full [4; 4; 2] 0%float.
Definition f_sg : arr Z := full [4; 4; 2] 0.
(* dx = 2, dz = 1, source at (zsa, xsa) = (1.375, 1.25) *)
Definition run := fteik2d_p2 (T := float) 2.0%float 1.0%float true 2 4 4 f_slow f_tt f_tg f_sg 1.0%float 1.25%float 1 1.375%float 1.
Definition run_t := fteik2d_p2 (T := float) 1.0%float 2.0%float true 2 4 4 f_slow_t f_tt f_tg f_sg 1.0%float 1.375%float 1 1.25%float 1.
Definition run_x := fteik2d_p2 (T := float) 2.0%float 1.0%float true 2 4 4 f_slow_x f_tt f_tg f_sg 1.0%float 1.75%float 1 1.375%float 1.
Definition run_z := fteik2d_p2 (T := float) 2.0%float 1.0%float true 2 4 4 f_slow_z f_tt f_tg f_sg 1.0%float 1.25%float 1 1.625%float 1.
Definition cells : list (Z * Z) := flat_map (fun i => map (fun j => (i, j)) [0; 1; 2; 3]) [0; 1; 2; 3].
Definition feq (a b : float) : bool := PrimFloat.eqb a b.
Definition tt_of (r : arr float * arr float * arr Z) := fst (fst r).
Definition tg_of (r : arr float * arr float * arr Z) := snd (fst r).
Definition sg_of (r : arr float * arr float * arr Z) := snd r.

(* the three media are the images of `f_slow` *)
Example slow_images :
  forallb (fun '(i, j) => if (i <? 3) && (j <? 3)
                          then feq (get 0%float f_slow_t [j; i]) (get 0%float f_slow [i; j])
                               && feq (get 0%float f_slow_x [i; 2 - j]) (get 0%float f_slow [i; j])
                               && feq (get 0%float f_slow_z [2 - i; j]) (get 0%float f_slow [i; j])
                          else true) cells = true.
Proof. vm_compute. reflexivity. Qed.

Example transpose_binary64 :
  forallb (fun '(i, j) =>
    feq (get 0%float (tt_of run_t) [j; i]) (get 0%float (tt_of run) [i; j]) &&
    (get 0 (sg_of run_t) [j; i; 1] =? get 0 (sg_of run) [i; j; 0]) && (get 0 (sg_of run_t) [j; i; 0] =? get 0 (sg_of run) [i; j; 1]) &&
    feq (get 0%float (tg_of run_t) [j; i; 1]) (get 0%float (tg_of run) [i; j; 0]) &&
    feq (get 0%float (tg_of run_t) [j; i; 0]) (get 0%float (tg_of run) [i; j; 1])) cells = true.
Proof. vm_compute. reflexivity. Qed.

Example mirror_x_binary64 :
  forallb (fun '(i, j) =>
    feq (get 0%float (tt_of run_x) [i; 3 - j]) (get 0%float (tt_of run) [i; j]) &&
    (get 0 (sg_of run_x) [i; 3 - j; 0] =? get 0 (sg_of run) [i; j; 0]) && (get 0 (sg_of run_x) [i; 3 - j; 1] =? - get 0 (sg_of run) [i; j; 1]) &&
    feq (get 0%float (tg_of run_x) [i; 3 - j; 0]) (get 0%float (tg_of run) [i; j; 0]) &&
    feq (get 0%float (tg_of run_x) [i; 3 - j; 1]) (PrimFloat.opp (get 0%float (tg_of run) [i; j; 1]))) cells = true.
Proof. vm_compute. reflexivity. Qed.

Example mirror_z_binary64 :
  forallb (fun '(i, j) =>
    feq (get 0%float (tt_of run_z) [3 - i; j]) (get 0%float (tt_of run) [i; j]) &&
    (get 0 (sg_of run_z) [3 - i; j; 0] =? - get 0 (sg_of run) [i; j; 0]) && (get 0 (sg_of run_z) [3 - i; j; 1] =? get 0 (sg_of run) [i; j; 1]) &&
    feq (get 0%float (tg_of run_z) [3 - i; j; 0]) (PrimFloat.opp (get 0%float (tg_of run) [i; j; 0])) &&
    feq (get 0%float (tg_of run_z) [3 - i; j; 1]) (get 0%float (tg_of run) [i; j; 1])) cells = true.
Proof. vm_compute. reflexivity. Qed.

(* and the runs are not trivial: 12 of the 16 nodes get a time below Big *)
Example run_writes : length (filter (fun '(i, j) => nltb (get 0%float (tt_of run) [i; j]) Big) cells) = 12%nat.
Proof. vm_compute. reflexivity. Qed.
End FloatExample.

(* ========================================================================================== *)
Print Assumptions east_foot.
Print Assumptions west_foot.
Print Assumptions down_foot.
Print Assumptions up_foot.
Print Assumptions x_z_commute.
Print Assumptions east_west_commute.
Print Assumptions down_up_commute.
Print Assumptions phases_zx.
Print Assumptions phases_transpose.
Print Assumptions fteik2d_p2_transpose.
Print Assumptions fteik2d_p2_transpose_explicit.
Print Assumptions down_mirror_x.
Print Assumptions up_mirror_x.
Print Assumptions phases_mirror_x.
Print Assumptions fteik2d_p2_mirror_x.
Print Assumptions fteik2d_p2_mirror_x_explicit.
Print Assumptions fteik2d_p2_mirror_z.
Print Assumptions fteik2d_p2_mirror_z_explicit.
Print Assumptions fteik2d_p2_transpose_instance.
Print Assumptions fteik2d_p2_mirror_x_instance.
Print Assumptions FloatExample.transpose_binary64.
