(* Memory safety of the a posteriori 3D ray tracer (gen/Ray3d.v; source /repo/fteikpy/_fteik/_ray3d.py).
   Same method as RaySafety2d.v (which provides the generic rules, the walkers and the 1-D facts):
     ray3d_core_ok_true, ray3d_ok_true, ray3d_1_ok_true. *)
From Coq Require Import ZArith List Bool Lia Reals Lra PrimFloat.
From FT.lib Require Import Num Arr ArrLemmas NumArr.
From FT.gen Require Import Common Interp3d FteikCommon Ray3d.
From FT.proofs Require Import SafetyTools SafetyInterp Ray2dProofs Ray3dProofs RaySafety2d.
Import ListNotations.
Open Scope Z_scope.

Section Safe3.
Context {T : Type} `{Num T}.

Lemma vec3_len (p : arr T) : vec3 p -> length (dat p) = 3%nat.
Proof. intros [_ L]. exact L. Qed.
Lemma vec3_full (v : T) : vec3 (full [3] v).
Proof. split; reflexivity. Qed.

Lemma clamp3_facts (z x y p : arr T) (zhi xhi yhi : T) :
  (forall a : T, nltb a a = false) -> vec3 p -> ge0 z zhi -> ge0 x xhi -> ge0 y yhi ->
  let p2 := set p [0] (pymin2 (pymax2 (get (nofZ 0) p [0]) (get (nofZ 0) z [0])) zhi) in
  let p3 := set p2 [1] (pymin2 (pymax2 (get (nofZ 0) p2 [1]) (get (nofZ 0) x [0])) xhi) in
  let p4 := set p3 [2] (pymin2 (pymax2 (get (nofZ 0) p3 [2]) (get (nofZ 0) y [0])) yhi) in
  vec3 p4 /\ ge0 z (get (nofZ 0) p4 [0]) /\ ge0 x (get (nofZ 0) p4 [1]) /\ ge0 y (get (nofZ 0) p4 [2]).
Proof.
  intros Irr Hp Hz Hx Hy p2 p3 p4. split; [apply vec3_set, vec3_set, vec3_set, Hp|].
  unfold p4, p3, p2.
  match goal with |- context [set (set (set p [0] ?a) [1] ?b) [2] ?c] =>
    destruct (get_set3 (nofZ 0) p a b c Hp) as (G0 & G1 & G2); rewrite G0, G1, G2 end.
  repeat split; apply clamp_ge0; assumption.
Qed.

Lemma magnet_facts3 (z x y lo up : arr T) body p :
  magnet_body lo up body -> vec3 p ->
  ge0 z (get (nofZ 0) p [0]) -> ge0 x (get (nofZ 0) p [1]) -> ge0 y (get (nofZ 0) p [2]) ->
  ge0 z (get (nofZ 0) lo [0]) -> ge0 z (get (nofZ 0) up [0]) ->
  ge0 x (get (nofZ 0) lo [1]) -> ge0 x (get (nofZ 0) up [1]) ->
  ge0 y (get (nofZ 0) lo [2]) -> ge0 y (get (nofZ 0) up [2]) ->
  let p' := for_list (pyrange 0 3 1) body p in
  vec3 p' /\ ge0 z (get (nofZ 0) p' [0]) /\ ge0 x (get (nofZ 0) p' [1]) /\ ge0 y (get (nofZ 0) p' [2]).
Proof.
  intros Hb Hp P0 P1 P2 L0 U0 L1 U1 L2 U2 p'. split.
  - apply vec3_for_list; [|exact Hp]. intros ix q Hq.
    destruct (Hb ix q) as [E|[E|E]]; rewrite E; [exact Hq|apply vec3_set; exact Hq|apply vec3_set; exact Hq].
  - destruct (magnet_for_list3 lo up body p Hb Hp) as (M0 & M1 & M2). fold p' in M0, M1, M2.
    unfold magnet_of in M0, M1, M2.
    split; [destruct M0 as [E|[E|E]]|split; [destruct M1 as [E|[E|E]]|destruct M2 as [E|[E|E]]]];
      rewrite E; assumption.
Qed.
End Safe3.

Lemma core_shape3 (a b c cz cx cy rest : bool) :
  a = true -> b = true -> c = true -> (cz = true -> cx = true -> cy = true -> rest = true) ->
  a && (let condz := cz in b && (let condx := cx in c && (let condy := cy in
        if negb (condz && condx && condy) then true else rest))) = true.
Proof.
  intros -> -> -> Hr. cbv zeta. cbn [andb]. destruct cz, cx, cy; cbn [andb negb]; auto.
Qed.

Section Core3Safe.
Context {T : Type} `{Num T}.
Context {Laws : RayLaws (T := T)}.

Lemma interp3d_1_ok_true (z x y v q : arr T) (fval : T) nz nx ny :
  axisn z nz -> axisn x nx -> axisn y ny -> 2 <= nz -> 2 <= nx -> 2 <= ny ->
  shape v = [nz; nx; ny] -> shape q = [3] ->
  Interp3d.interp3d_1_ok true false z x y v q fval = true.
Proof.
  intros Az Ax Ay Hz Hx Hy Sv Sq. unfold Interp3d.interp3d_1_ok.
  rewrite (interp3d_ok_true rl_le_lt z x y v _ _ _ fval nz nx ny Az Ax Ay Hz Hx Hy Sv).
  unfold obI. rewrite !(inb1_true q 3) by (auto; lia). reflexivity.
Qed.

Ltac solve_v3 :=
  repeat first [ assumption | apply vec3_set | apply vec3_of_list | apply vec3_full
               | apply vec3_amap2 | apply len3_amap | apply vec3_len ].

Ltac shape_fact x Hx :=
  let S := fresh "S" in
  pose proof (f_equal shape Hx) as S;
  cbn [shape set set_sub amap2 amap of_list full length Z.of_nat Pos.of_succ_nat Pos.succ] in S;
  repeat match type of S with
         | _ = ?rhs => match rhs with context [shape ?a] =>
                         match goal with Ha : shape a = _ |- _ => rewrite Ha in S end end
         end;
  try (lazymatch type of S with _ = shape _ => clear S end).

Ltac rhook3 z x y lo up x0 Hx :=
  lazymatch type of Hx with _ = ?v => tryif is_var v then subst x0 else
  lazymatch type of x0 with
  | arr _ =>
      try (assert (vec3 x0) by (rewrite Hx; solve_v3));
      shape_fact x0 Hx;
      (* the three clamps *)
      try (lazymatch type of Hx with
           | _ = set ?a [2] (pymin2 (pymax2 _ _) _) =>
               match goal with
               | Ha : a = set ?b [1] (pymin2 (pymax2 _ _) _), Hb : ?b = set _ [0] (pymin2 (pymax2 _ _) _) |- _ =>
                   let F := fresh "F" in
                   assert (F : vec3 x0 /\ ge0 z (get (nofZ 0) x0 [0]) /\ ge0 x (get (nofZ 0) x0 [1]) /\
                               ge0 y (get (nofZ 0) x0 [2]))
                     by (rewrite Hx, Ha, Hb; apply clamp3_facts; [apply rl_irrefl | assumption ..]);
                   destruct F as (_ & ? & ? & ?)
               end
           end);
      (* grid magnetism *)
      try (lazymatch type of Hx with
           | _ = for_list (pyrange 0 3 1) _ _ =>
               let F := fresh "F" in
               assert (F : vec3 x0 /\ ge0 z (get (nofZ 0) x0 [0]) /\ ge0 x (get (nofZ 0) x0 [1]) /\
                           ge0 y (get (nofZ 0) x0 [2]))
                 by (rewrite Hx; apply (magnet_facts3 z x y lo up);
                     [ intros ? ?; cbv beta zeta;
                       repeat (match goal with |- context [if ?c then _ else _] => destruct c end); auto
                     | assumption .. ]);
               let V := fresh "V" in
               destruct F as (V & ? & ? & ?); pose proof (proj1 V)
           end)
  | Z =>
      try (lazymatch type of Hx with
           | _ = searchsorted_right ?ax ?q - 1 =>
               match goal with
               | Ax : axisn ax ?n |- _ =>
                   assert (0 <= x0 <= n - 1)
                     by (rewrite Hx; apply (cell_index_range ax n q Ax); [lia | assumption])
               end
           end)
  | _ => idtac
  end end.

Ltac shape_leaf :=
  unfold obI; cbn [shape amap amap2 set];
  repeat match goal with Ha : shape ?a = _ |- context [shape ?a] => rewrite Ha end;
  reflexivity.

Ltac rleaf3 nz nx ny :=
  idtac;
  lazymatch goal with
  | |- obI true (inb _ _) = true => inb_solve
  | |- obI true (inb_sub _ _) = true => unfold obI; eapply inb_sub1_true; [eassumption | lia]
  | |- obI true (shape_eqb _ _) = true => shape_leaf
  | |- Interp3d.interp3d_1_ok _ _ _ _ _ _ _ _ = true =>
      eapply (interp3d_1_ok_true _ _ _ _ _ _ nz nx ny); eassumption
  | |- FteikCommon.shrink_ok _ _ _ _ _ _ = true => apply shrink_ok_true_gen; congruence
  | |- for_list_ok _ _ _ _ = true =>
      apply for_list_ok_inv with (P := fun q : arr T => shape q = [3]);
      [ assumption
      | let ix := fresh "ix" in let q := fresh "q" in let Hin := fresh "Hin" in let Hq := fresh "Hq" in
        intros ix q Hin Hq; apply in_pyrange_up in Hin; split;
        [ cbv beta zeta;
          repeat (match goal with |- context [if ?c then _ else _] => destruct c end);
          rewrite ?shape_set; exact Hq
        | cbv beta; rwalk ltac:(fun x0 Hx => shape_fact x0 Hx) ltac:(rleaf3 nz nx ny) ] ]
  | |- _ => reflexivity
  end.

Variables (z x y zgrad xgrad ygrad : arr T) (nz nx ny : Z).
Hypothesis (Az : axisn z nz) (Ax : axisn x nx) (Ay : axisn y ny).
Hypothesis (Hnz : 2 <= nz) (Hnx : 2 <= nx) (Hny : 2 <= ny).
Hypothesis (Szg : shape zgrad = [nz; nx; ny]) (Sxg : shape xgrad = [nz; nx; ny])
           (Syg : shape ygrad = [nz; nx; ny]).

Lemma p1_ok3_true hg max_step stepsize xend xsrc yend ysrc zend zsrc :
  1 <= max_step -> (hg = true -> ge0 z zend /\ ge0 x xend /\ ge0 y yend) ->
  u_ray3d_core_v_p1_ok true false hg max_step stepsize x xend xsrc y yend ysrc z zend zsrc = true.
Proof.
  intros Hms Hge.
  pose proof (proj1 Az) as Sz. pose proof (proj1 Ax) as Sx. pose proof (proj1 Ay) as Sy.
  pose proof (dim_0 _ _ _ Sz) as Dz. pose proof (dim_0 _ _ _ Sx) as Dx. pose proof (dim_0 _ _ _ Sy) as Dy.
  cbv beta delta [u_ray3d_core_v_p1_ok].
  destruct hg; [destruct (Hge eq_refl) as (Gz & Gx & Gy)|];
    rwalk ltac:(rhook3 z x y z x) ltac:(rleaf3 nz nx ny).
Qed.

(* loop invariant for the obligations *)
Definition SInv3 (hg : bool) (max_step : Z) (s : @St2 T) : Prop :=
  1 <= s_count s /\ shape (s_ray s) = [max_step; 3] /\
  vec3 (s_pcur s) /\ vec3 (s_delta s) /\
  (hg = true -> vec3 (s_lower s) /\ vec3 (s_upper s) /\
     ge0 z (get (nofZ 0) (s_lower s) [0]) /\ ge0 z (get (nofZ 0) (s_upper s) [0]) /\
     ge0 x (get (nofZ 0) (s_lower s) [1]) /\ ge0 x (get (nofZ 0) (s_upper s) [1]) /\
     ge0 y (get (nofZ 0) (s_lower s) [2]) /\ ge0 y (get (nofZ 0) (s_upper s) [2])).

Ltac mhook lo up x0 Hx := rhook3 z x y lo up x0 Hx.

Ltac zeta_all t :=
  lazymatch t with
  | (let x := ?v in @?F x) =>
      let v' := eval cbv beta zeta iota delta [u_ray3d_core_v_p1 fst snd] in v in
      let t' := eval cbv beta in (F v') in
      zeta_all t'
  | _ => t
  end.
Ltac zeta_head :=
  lazymatch goal with
  | |- ?t = true => let t' := zeta_all t in change_no_check (t' = true)
  end.

Ltac open_state s Hs :=
  let c := fresh "c" in let d := fresh "d" in let l := fresh "l" in let n := fresh "n" in
  let p := fresh "p" in let r := fresh "r" in let u := fresh "u" in
  destruct s as [[[[[[c d] l] n] p] r] u];
  unfold SInv3 in Hs; cbn [s_count s_delta s_lower s_nfree s_pcur s_ray s_upper fst snd] in Hs;
  let Hc := fresh "Hc" in let Sr := fresh "Sr" in let Vp := fresh "Vp" in let Vd := fresh "Vd" in
  let Hlu := fresh "Hlu" in
  destruct Hs as (Hc & Sr & Vp & Vd & Hlu);
  pose proof (proj1 Vp); pose proof (proj1 Vd).
Ltac open_lu Hlu :=
  let Vl := fresh "Vl" in let Vu := fresh "Vu" in
  destruct (Hlu eq_refl) as (Vl & Vu & ? & ? & ? & ? & ? & ?); pose proof (proj1 Vl); pose proof (proj1 Vu).

Ltac cell_ge0 Mz Mx My :=
  first [ apply (cell_lo_ge0 _ _ _ _ Mz); assumption | apply (cell_hi_ge0 _ _ _ Mz); assumption
        | apply (cell_lo_ge0 _ _ _ _ Mx); assumption | apply (cell_hi_ge0 _ _ _ Mx); assumption
        | apply (cell_lo_ge0 _ _ _ _ My); assumption | apply (cell_hi_ge0 _ _ _ My); assumption ].
(* ge0 of a recomputed cell boundary stored in lower / upper *)
Ltac ge0_cell Dz Dx Dy Mz Mx My :=
  idtac;
  lazymatch goal with
  | |- ge0 _ (get _ ?a [_]) =>
      match goal with
      | Ha2 : a = set ?a1 [2] ?C, Ha1 : ?a1 = set ?a0 [1] ?B, Ha0 : ?a0 = set ?p [0] ?A, Vp : vec3 ?p |- _ =>
          let G0 := fresh "G0" in let G1 := fresh "G1" in let G2 := fresh "G2" in
          rewrite Ha2, Ha1, Ha0; destruct (get_set3 (nofZ 0) p A B C Vp) as (G0 & G1 & G2);
          rewrite ?G0, ?G1, ?G2; rewrite ?Dz, ?Dx, ?Dy; cell_ge0 Mz Mx My
      end
  end.

Ltac sinv_leaf tac :=
  idtac;
  lazymatch goal with
  | |- post ?Q (_ ?tup) => change (Q tup)
  end;
  unfold SInv3; cbn [s_count s_delta s_lower s_nfree s_pcur s_ray s_upper fst snd];
  split; [lia|]; split; [assumption|]; split; [assumption|]; split; [assumption|];
  first [ intros; discriminate
        | intros _; split; [|split; [|split; [|split; [|split; [|split; [|split]]]]]]; first [ assumption | tac ] ].

Theorem ray3d_core_ok_true fuel zend xend yend zsrc xsrc ysrc stepsize max_step hg :
  1 <= max_step -> (hg = true -> axis_min z nz /\ axis_min x nx /\ axis_min y ny) ->
  u_ray3d_core_v_ok true false fuel z x y zgrad xgrad ygrad zend xend yend zsrc xsrc ysrc stepsize max_step hg
  = true.
Proof.
  intros Hms Hmin.
  pose proof (proj1 Az) as Sz. pose proof (proj1 Ax) as Sx. pose proof (proj1 Ay) as Sy.
  pose proof (dim_0 _ _ _ Sz) as Dz. pose proof (dim_0 _ _ _ Sx) as Dx. pose proof (dim_0 _ _ _ Sy) as Dy.
  destruct hg.
  - destruct (Hmin eq_refl) as (Mz & Mx & My).
    assert (Hzhi : ge0 z (get (nofZ 0) z [dim z 0%nat - 1])) by (apply Mz; lia).
    assert (Hxhi : ge0 x (get (nofZ 0) x [dim x 0%nat - 1])) by (apply Mx; lia).
    assert (Hyhi : ge0 y (get (nofZ 0) y [dim y 0%nat - 1])) by (apply My; lia).
    cbv beta delta [u_ray3d_core_v_ok].
    apply core_shape3; [apply andb_true_intro; split; inb_solve ..|].
    intros Ez Ex Ey. apply andb_prop in Ez, Ex, Ey.
    destruct Ez as [Ez _]. destruct Ex as [Ex _]. destruct Ey as [Ey _].
    apply hull_ge0 in Ez, Ex, Ey.
    apply andb_true_intro; split; [apply p1_ok3_true; [lia|auto]|].
    zeta_head.
    pose proof (cell_index_range z nz zend Az ltac:(lia) Ez) as Ri.
    pose proof (cell_index_range x nx xend Ax ltac:(lia) Ex) as Rj.
    pose proof (cell_index_range y ny yend Ay ltac:(lia) Ey) as Rk.
    apply (loop_ok _ _ _ _ (SInv3 true max_step)).
    + (* initial state *)
      unfold SInv3. cbn [s_count s_delta s_lower s_nfree s_pcur s_ray s_upper fst snd].
      split; [lia|]. split; [reflexivity|]. split; [apply vec3_of_list|]. split; [apply vec3_full|].
      intros _. split; [apply vec3_of_list|]. split; [apply vec3_of_list|].
      rewrite ?Dz, ?Dx, ?Dy.
      repeat split;
        match goal with |- ge0 _ (get _ (of_list [?a; ?b; ?c]) [?i]) =>
          first [ change (get (nofZ 0) (of_list [a; b; c]) [i]) with a
                | change (get (nofZ 0) (of_list [a; b; c]) [i]) with b
                | change (get (nofZ 0) (of_list [a; b; c]) [i]) with c ] end;
        cell_ge0 Mz Mx My.
    + (* loop condition *)
      intros s Hs. open_state s Hs. cbv beta. rwalk ltac:(mhook z x) ltac:(rleaf3 nz nx ny).
    + (* loop body *)
      intros s Hs. open_state s Hs. open_lu Hlu. cbv beta.
      rwalk ltac:(mhook l u) ltac:(rleaf3 nz nx ny).
    + (* the invariant is preserved *)
      intros s s' Hs Hb. refine (post_elim (SInv3 true max_step) _ s' _ Hb). clear Hb s'.
      open_state s Hs. open_lu Hlu. cbv beta.
      vwalk ltac:(mhook l u) ltac:(sinv_leaf ltac:(ge0_cell Dz Dx Dy Mz Mx My)).
    + (* after the loop *)
      intros s Hs. open_state s Hs. cbv beta. rwalk ltac:(mhook z x) ltac:(rleaf3 nz nx ny).
  - cbv beta delta [u_ray3d_core_v_ok].
    apply core_shape3; [apply andb_true_intro; split; inb_solve ..|].
    intros _ _ _.
    apply andb_true_intro; split; [apply p1_ok3_true; [lia|intros; discriminate]|].
    zeta_head.
    apply (loop_ok _ _ _ _ (SInv3 false max_step)).
    + unfold SInv3. cbn [s_count s_delta s_lower s_nfree s_pcur s_ray s_upper fst snd].
      split; [lia|]. split; [reflexivity|]. split; [apply vec3_of_list|]. split; [apply vec3_full|].
      intros; discriminate.
    + intros s Hs. open_state s Hs. cbv beta. rwalk ltac:(mhook z x) ltac:(rleaf3 nz nx ny).
    + intros s Hs. open_state s Hs. cbv beta. rwalk ltac:(mhook z x) ltac:(rleaf3 nz nx ny).
    + intros s s' Hs Hb. refine (post_elim (SInv3 false max_step) _ s' _ Hb). clear Hb s'.
      open_state s Hs. cbv beta.
      vwalk ltac:(mhook z x) ltac:(sinv_leaf ltac:(fail)).
    + intros s Hs. open_state s Hs. cbv beta. rwalk ltac:(mhook z x) ltac:(rleaf3 nz nx ny).
Qed.
End Core3Safe.

(* ---------- _ray3d and the single-point form of ray3d ---------- *)
Section Wrappers3.
Context {T : Type} `{Num T}.
Context {Laws : RayLaws (T := T)}.
Variables (z x y zgrad xgrad ygrad : arr T) (nz nx ny : Z).
Hypothesis (Az : axisn z nz) (Ax : axisn x nx) (Ay : axisn y ny).
Hypothesis (Hnz : 2 <= nz) (Hnx : 2 <= nx) (Hny : 2 <= ny).
Hypothesis (Szg : shape zgrad = [nz; nx; ny]) (Sxg : shape xgrad = [nz; nx; ny])
           (Syg : shape ygrad = [nz; nx; ny]).

Theorem ray3d_ok_true fuel zend xend yend zsrc xsrc ysrc stepsize max_step hg :
  1 <= max_step -> (hg = true -> axis_min z nz /\ axis_min x nx /\ axis_min y ny) ->
  u_ray3d_v_ok true false fuel z x y zgrad xgrad ygrad zend xend yend zsrc xsrc ysrc stepsize max_step hg = true.
Proof.
  intros Hms Hmin. unfold u_ray3d_v_ok.
  rewrite (ray3d_core_ok_true z x y zgrad xgrad ygrad nz nx ny Az Ax Ay Hnz Hnx Hny Szg Sxg Syg) by assumption.
  cbn [andb].
  destruct (u_ray3d_core_v _ _ _ _ _ _ _ _ _ _ _ _ _ _ _ _) as [[ray count]| |]; cbn [res_ok]; try reflexivity.
  cbv beta zeta. destruct (_ =? -1); [reflexivity|]. destruct (_ =? -2); reflexivity.
Qed.

Theorem ray3d_1_ok_true fuel (p src : arr T) stepsize max_step hg :
  shape p = [3] -> shape src = [3] ->
  1 <= max_step -> (hg = true -> axis_min z nz /\ axis_min x nx /\ axis_min y ny) ->
  ray3d_1_ok true false fuel z x y zgrad xgrad ygrad p src stepsize max_step hg = true.
Proof.
  intros Sp Ss Hms Hmin. unfold ray3d_1_ok.
  rewrite (ray3d_ok_true fuel) by assumption.
  unfold obI. rewrite !(inb1_true p 3), !(inb1_true src 3) by (auto; lia). cbn [andb].
  unfold u_ray3d_v.
  destruct (u_ray3d_core_v _ _ _ _ _ _ _ _ _ _ _ _ _ _ _ _) as [[ray count]| |] eqn:Ec; cbn [rbind res_ok];
    try reflexivity.
  destruct (ray3d_core_count_range _ _ _ _ _ _ _ _ _ _ _ _ _ _ _ _ _ _ Ec) as [Hr Hsh].
  cbv beta zeta. cbn [fst snd].
  destruct (Z.eqb_spec count (-1)); [reflexivity|]. destruct (Z.eqb_spec count (-2)); [reflexivity|].
  cbn [res_ok fst snd]. rewrite (dim_0 _ _ _ Hsh).
  apply andb_true_intro. split; [apply Z.leb_le|apply Z.ltb_lt]; lia.
Qed.
End Wrappers3.

(* ---------- instances for the two numeric types ---------- *)
Corollary ray3d_core_ok_true_F (z x y zgrad xgrad ygrad : arr PrimFloat.float) nz nx ny fuel zend xend yend
          zsrc xsrc ysrc stepsize max_step hg :
  axisn z nz -> axisn x nx -> axisn y ny -> 2 <= nz -> 2 <= nx -> 2 <= ny ->
  shape zgrad = [nz; nx; ny] -> shape xgrad = [nz; nx; ny] -> shape ygrad = [nz; nx; ny] ->
  1 <= max_step -> (hg = true -> axis_min z nz /\ axis_min x nx /\ axis_min y ny) ->
  u_ray3d_core_v_ok true false fuel z x y zgrad xgrad ygrad zend xend yend zsrc xsrc ysrc stepsize max_step hg
  = true.
Proof. intros. apply (ray3d_core_ok_true z x y zgrad xgrad ygrad nz nx ny); assumption. Qed.
Corollary ray3d_core_ok_true_R (z x y zgrad xgrad ygrad : arr R) nz nx ny fuel zend xend yend
          zsrc xsrc ysrc stepsize max_step hg :
  axisn z nz -> axisn x nx -> axisn y ny -> 2 <= nz -> 2 <= nx -> 2 <= ny ->
  shape zgrad = [nz; nx; ny] -> shape xgrad = [nz; nx; ny] -> shape ygrad = [nz; nx; ny] ->
  1 <= max_step -> (hg = true -> axis_min z nz /\ axis_min x nx /\ axis_min y ny) ->
  u_ray3d_core_v_ok true false fuel z x y zgrad xgrad ygrad zend xend yend zsrc xsrc ysrc stepsize max_step hg
  = true.
Proof. intros. apply (ray3d_core_ok_true z x y zgrad xgrad ygrad nz nx ny); assumption. Qed.

(* ---------- max_step = 0 is refuted: the end point is stored in row 0 of an empty buffer ---------- *)
Local Open Scope float_scope.
Definition ex_grad3 : arr float := mkarr [2%Z; 2%Z; 2%Z] [1; 1; 1; 1; 1; 1; 1; 1].
Example ray3d_core_ok_max_step_0_refuted :
  u_ray3d_core_v_ok true false 5%nat ex_ax ex_ax ex_ax ex_grad3 ex_grad3 ex_grad3 0.5 0.5 0.5 0 0 0 0.25 0%Z false
  = false.
Proof. vm_compute. reflexivity. Qed.
Local Close Scope float_scope.

Print Assumptions ray3d_core_ok_true.
Print Assumptions ray3d_ok_true.
Print Assumptions ray3d_1_ok_true.
Print Assumptions ray3d_core_ok_true_F.
Print Assumptions ray3d_core_ok_true_R.
Print Assumptions ray3d_core_ok_max_step_0_refuted.
