(* C02: consequence of the fixed-point edge inequality (Sweep2dProofs.sweep2d_fixed_edges_R): along any grid line the
   time of a converged solution grows by at most dz * (smallest slowness of the cells adjoining each edge) per edge.
   In a layered model (slowness depends on the row of cells only) this is the cumulative sum of slowness x spacing,
   with cell row c lying between node rows c and c+1 - which pins the registration of cells to nodes. *)
From Coq Require Import ZArith List Bool Reals Lra Lia.
From FT.lib Require Import Num Arr ArrLemmas Lower.
From FT.gen Require Import Fteik2d.
From FT.proofs Require Import Sweep2dProofs.
Import ListNotations.
Open Scope R_scope.

(* sum of f over the n integers a, a+1, ..., a+n-1 *)
Fixpoint zsum (f : Z -> R) (a : Z) (n : nat) : R :=
  match n with O => 0 | S n' => f a + zsum f (a + 1)%Z n' end.

Lemma zsum_last f a n : zsum f a (S n) = zsum f a n + f (a + Z.of_nat n)%Z.
Proof.
  revert a; induction n as [|n IH]; intros a.
  - simpl. replace (a + 0)%Z with a by lia. lra.
  - change (zsum f a (S (S n))) with (f a + zsum f (a + 1)%Z (S n)). rewrite IH.
    change (zsum f a (S n)) with (f a + zsum f (a + 1)%Z n).
    replace (a + 1 + Z.of_nat n)%Z with (a + Z.of_nat (S n))%Z by lia. lra.
Qed.

Lemma Rabs_le_inv' x a : Rabs x <= a -> - a <= x <= a.
Proof. intros H. unfold Rabs in H. destruct (Rcase_abs x); lra. Qed.

Section L.
Variables (nz nx : Z) (tt : arr R) (ttsgn : arr Z) (slow : arr R) (dz dx zsi xsi zsa xsa vzero : R) (grad : bool).
Hypothesis Hnz : (2 <= nz)%Z.
Hypothesis Hnx : (2 <= nx)%Z.
Hypothesis Hok : Sweep2dProofs.okT nz nx tt.
Hypothesis Hfix : fst (sweep2d tt ttsgn slow dz dx zsi xsi zsa xsa vzero nz nx grad) = tt.

Notation T i j := (get 0 tt [i; j]).

(* going down a column from row i0: T[i0+n, j] <= T[i0, j] + sum of dz * smin over the n edges crossed *)
Theorem column_upper_bound_down (i0 j : Z) (n : nat) :
  (0 <= i0)%Z -> (i0 + Z.of_nat n <= nz - 1)%Z -> (0 <= j <= nx - 1)%Z ->
  T (i0 + Z.of_nat n)%Z j <= T i0 j + zsum (fun c => dz * Sweep2dProofs.smin_zedge nx slow c j) i0 n.
Proof.
  intros Hi0 Hn Hj.
  destruct (Sweep2dProofs.sweep2d_fixed_edges_R nz nx tt ttsgn slow dz dx zsi xsi zsa xsa vzero grad Hnz Hnx Hok Hfix) as [HZ _].
  induction n as [|n IH].
  - simpl. replace (i0 + 0)%Z with i0 by lia. lra.
  - rewrite zsum_last. assert (Hn' : (i0 + Z.of_nat n <= nz - 1)%Z) by lia. specialize (IH Hn').
    specialize (HZ (i0 + Z.of_nat n)%Z j ltac:(lia) Hj).
    replace (i0 + Z.of_nat (S n))%Z with (i0 + Z.of_nat n + 1)%Z by lia.
    apply Rabs_le_inv' in HZ. lra.
Qed.

(* and up the column *)
Theorem column_upper_bound_up (i0 j : Z) (n : nat) :
  (0 <= i0 - Z.of_nat n)%Z -> (i0 <= nz - 1)%Z -> (0 <= j <= nx - 1)%Z ->
  T (i0 - Z.of_nat n)%Z j <= T i0 j + zsum (fun c => dz * Sweep2dProofs.smin_zedge nx slow c j) (i0 - Z.of_nat n) n.
Proof.
  intros Hn Hi0 Hj.
  destruct (Sweep2dProofs.sweep2d_fixed_edges_R nz nx tt ttsgn slow dz dx zsi xsi zsa xsa vzero grad Hnz Hnx Hok Hfix) as [HZ _].
  induction n as [|n IH].
  - simpl. replace (i0 - 0)%Z with i0 by lia. lra.
  - assert (Hn' : (0 <= i0 - Z.of_nat n)%Z) by lia. specialize (IH Hn').
    change (zsum _ (i0 - Z.of_nat (S n)) (S n)) with
      (dz * Sweep2dProofs.smin_zedge nx slow (i0 - Z.of_nat (S n)) j +
       zsum (fun c => dz * Sweep2dProofs.smin_zedge nx slow c j) (i0 - Z.of_nat (S n) + 1) n).
    replace (i0 - Z.of_nat (S n) + 1)%Z with (i0 - Z.of_nat n)%Z by lia.
    specialize (HZ (i0 - Z.of_nat (S n))%Z j ltac:(lia) Hj).
    replace (i0 - Z.of_nat (S n) + 1)%Z with (i0 - Z.of_nat n)%Z in HZ by lia.
    apply Rabs_le_inv' in HZ. lra.
Qed.

(* layered model: if every cell of row c has slowness s c then the edge slowness is s c *)
Lemma smin_zedge_layered (s : Z -> R) c j :
  (forall jc, (0 <= jc <= nx - 2)%Z -> get 0 slow [c; jc] = s c) -> (0 <= j <= nx - 1)%Z ->
  Sweep2dProofs.smin_zedge nx slow c j = s c.
Proof.
  intros Hs Hj. unfold Sweep2dProofs.smin_zedge, pymin2. simpl.
  rewrite !Hs by lia. destruct (Rltb (s c) (s c)); reflexivity.
Qed.

(* hence, below a node source (time 0 at (i0, j)) in a layered model, the grid-line time is at most the cumulative
   sum of slowness x spacing over the cell rows i0, i0+1, ... *)
Corollary layered_grid_line_upper (s : Z -> R) (i0 j : Z) (n : nat) :
  (forall c jc, (0 <= c <= nz - 2)%Z -> (0 <= jc <= nx - 2)%Z -> get 0 slow [c; jc] = s c) ->
  (0 <= i0)%Z -> (i0 + Z.of_nat n <= nz - 1)%Z -> (0 <= j <= nx - 1)%Z -> T i0 j = 0 ->
  T (i0 + Z.of_nat n)%Z j <= zsum (fun c => dz * s c) i0 n.
Proof.
  intros Hs Hi0 Hn Hj H0.
  pose proof (column_upper_bound_down i0 j n Hi0 Hn Hj) as B. rewrite H0 in B.
  assert (E : forall m a, (0 <= a)%Z -> (a + Z.of_nat m <= nz - 1)%Z ->
            zsum (fun c => dz * Sweep2dProofs.smin_zedge nx slow c j) a m = zsum (fun c => dz * s c) a m).
  { induction m as [|m IHm]; intros a Ha Hm; simpl; [reflexivity|].
    rewrite smin_zedge_layered with (s := s) by (auto; intros; apply Hs; lia). rewrite IHm by lia. reflexivity. }
  rewrite E in B by lia. lra.
Qed.
End L.
