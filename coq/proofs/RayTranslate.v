(* Translation covariance of the a posteriori ray tracers (gen/Ray2d.v, gen/Ray3d.v; sources
   /repo/fteikpy/_fteik/_ray2d.py, _ray3d.py), exact real arithmetic T := R (instance NumR):

     translating the model origin (every node of every axis), the source and the end point by one
     common vector translates every vertex of the ray by that vector; nothing else changes.

   Notation: shift_axis o x (TranslateR.v) is the axis with nodes o + x_k; vsh [a;b] p is the point
   p + (a,b); shray o k r is the ray buffer r with o added to its rows 0..k-1 (other rows untouched);
   addvec o r adds o to every row of the polyline r.

   Hypotheses (those of interp2d_translate / interp3d_translate, nothing more): every axis is an
   interpolation axis (SSR.axis: a 1-D array of n >= 2 strictly ascending nodes) and each gradient
   grid has the shape given by the axes.  Everything else is arbitrary: end point (inside or outside
   the hull), source, stepsize (also <= 0), max_step (also <= 0), honor_grid (both modes), fuel, and
   the shift.  All equalities are equalities of reals / of arrays.

   2D (hypotheses axis z nz, axis x nx, shape zgrad = shape xgrad = [nz; nx]):
     ray2d_core_translate        (T1) core on (z+a, x+b, end+(a,b), src+(a,b)) = image of the core on the
                                 original data: same count c (incl. -1 and -2) and ray' = shray [a;b] k ray
                                 with k = c+1 when c >= 0, k = 0 when c = -1; Raise/OutOfFuel coincide
     ray2d_core_translate_rows   (T1, as asked) same count; rows 0..c of ray' are the rows of ray plus (a,b);
                                 the rows c+1.. (never written) are identical; same shape
     ray2d_core_translate_fuel   the two runs exhaust the same fuels
     ray2d_translate             (T2) wrapper _ray2d: Ok (shray [a;b] (c+1) ray, c) / same exception
     ray2d_1_translate           (T2) entry point ray2d, one end point: returned polyline = addvec [a;b] of the
                                 original polyline (equality of arrays) / same exception
     ray2d_1_translate_vertices  the same vertex by vertex
   3D (axis z nz, axis x nx, axis y ny, the three gradient grids of shape [nz; nx; ny]):
     ray3d_core_translate, ray3d_core_translate_rows, ray3d_core_translate_fuel   (T3)
     ray3d_translate, ray3d_1_translate, ray3d_1_translate_vertices               (T4)
   Ingredients: shrink_vsh (the shrink factor only sees pcur-lower, pcur-upper: invariant for any common
     shift of pcur/lower/upper, any dimension), clamp_shift, cell_lo_shift, cell_up_shift (cell boundaries
     after searchsorted, incl. the comparison pcur == z[i]), magnet*_shift (grid magnetism),
     nfree_max*_shift, hull*_shift, tcond*_shift (stopping test).
   Examples: ray2d_translate_nonvacuous / ray3d_translate_nonvacuous (the hypotheses are satisfiable and
     a three-vertex ray is translated, for every shift); translate_needs_nonempty_axis (on an EMPTY
     axis the statement is false in the model: out-of-range reads return the default 0, which is
     not translated - so some hypothesis on the axes is necessary).

   Method: the loop body of each generated core is restated in modular form (gbody2 / gbody3) and
   proved equal to the generated one by normalisation (body2_spec / body3_spec, any numeric type; the
   loop itself is the one extracted in RayBudget.v).  The translated run is then the image of the
   original run under the state map SH (same count, nfree, delta; pcur, lower, upper translated; the
   stored rows translated), iteration by iteration (while_fuel_commute, gbody*_shift). *)
From Coq Require Import ZArith List Bool Reals Lra Lia.
From FT.lib Require Import Num Arr NumArr ArrLemmas.
From FT.gen Require Import Common Interp2d Interp3d FteikCommon Ray2d Ray3d.
From FT.proofs Require Import SSR InterpR Interp3R TranslateR Ray2dProofs Ray3dProofs RayBudget.
From FT.proofs Require RayStep.
Import ListNotations.
Open Scope Z_scope.

(* ------------------------------------------------------------------------------------------ *)
(* 0. lists: adding a vector to a list, to the leading rows of a flat row-major buffer          *)
(* ------------------------------------------------------------------------------------------ *)
Section Lists.
Local Open Scope R_scope.
Implicit Types (o l : list R).

Lemma zipw_length_min {A B C} (f : A -> B -> C) : forall (xs : list A) (ys : list B),
  length (zipw f xs ys) = Nat.min (length xs) (length ys).
Proof. induction xs as [|a t IH]; intros [|b t2]; simpl; auto. Qed.

Lemma zipw_nil_r {A B C} (f : A -> B -> C) (xs : list A) : zipw f xs (@nil B) = [].
Proof. destruct xs; reflexivity. Qed.

Lemma nth_zipw_plus : forall o l (k : nat), (k < length o)%nat -> (k < length l)%nat ->
  nth k (zipw Rplus o l) 0 = nth k o 0 + nth k l 0.
Proof.
  induction o as [|a o IH]; intros [|e l] [|k] Ho Hl; simpl in *; try lia; auto.
  apply IH; lia.
Qed.

Lemma zipw_sub_plus : forall o l q, length o = length l ->
  zipw Rminus (zipw Rplus o l) q = zipw Rplus o (zipw Rminus l q).
Proof.
  induction o as [|a o IH]; intros [|e l] [|d q] E; simpl in *; try discriminate; auto.
  f_equal; [ring|]. apply IH. lia.
Qed.

Lemma zipw_cmp_plus (f : R -> R -> bool) : (forall c u v, f (c + u) (c + v) = f u v) ->
  forall o t l, length o = length t -> length o = length l ->
  zipw f (zipw Rplus o t) (zipw Rplus o l) = zipw f t l.
Proof.
  intros Hf. induction o as [|a o IH]; intros [|e t] [|d l] E1 E2; simpl in *; try discriminate; auto.
  rewrite Hf. f_equal. apply IH; lia.
Qed.

Lemma mask_plus_length : forall o l (mm : list bool), length o = length l ->
  length (mask_list (zipw Rplus o l) mm) = length (mask_list l mm).
Proof.
  induction o as [|a o IH]; intros [|e l] mm E; simpl in *; try discriminate; auto.
  destruct mm as [|[|] mt]; simpl; auto.
Qed.

Lemma mask_diff_plus : forall o p l (m : list bool), length o = length p -> length o = length l ->
  zipw Rminus (mask_list (zipw Rplus o p) m) (mask_list (zipw Rplus o l) m) =
  zipw Rminus (mask_list p m) (mask_list l m).
Proof.
  induction o as [|a o IH]; intros [|e p] [|d l] m E1 E2; simpl in *; try discriminate; auto.
  destruct m as [|[|] mt]; simpl; auto. f_equal; [ring|]. apply IH; lia.
Qed.

(* the first k rows (of width length o) of a flat buffer get o added *)
Fixpoint shrows o (k : nat) l : list R :=
  match k with
  | O => l
  | S k' => zipw Rplus o (firstn (length o) l) ++ shrows o k' (skipn (length o) l)
  end.

Lemma shrows_length o : forall k l, length (shrows o k l) = length l.
Proof.
  induction k as [|k IH]; intros l; simpl; [reflexivity|].
  rewrite app_length, zipw_length_min, firstn_length, IH, skipn_length. lia.
Qed.

Lemma shrows_nil o : forall k, shrows o k [] = [].
Proof.
  induction k as [|k IH]; simpl; [reflexivity|]. rewrite firstn_nil, skipn_nil, zipw_nil_r, IH. reflexivity.
Qed.

Lemma firstn_app_le {A} (n : nat) (xs ys : list A) : (n <= length xs)%nat -> firstn n (xs ++ ys) = firstn n xs.
Proof. intros Hn. rewrite firstn_app. replace (n - length xs)%nat with 0%nat by lia. simpl. apply app_nil_r. Qed.
Lemma skipn_app_le {A} (n : nat) (xs ys : list A) : (n <= length xs)%nat -> skipn n (xs ++ ys) = skipn n xs ++ ys.
Proof. intros Hn. rewrite skipn_app. replace (n - length xs)%nat with 0%nat by lia. reflexivity. Qed.

Lemma shrows_app_front o : forall k l1 rest, length l1 = (k * length o)%nat ->
  shrows o k (l1 ++ rest) = shrows o k l1 ++ rest.
Proof.
  induction k as [|k IH]; intros l1 rest E; simpl in *.
  - destruct l1; [reflexivity|discriminate].
  - rewrite firstn_app_le, skipn_app_le by lia. rewrite IH by (rewrite skipn_length; lia).
    rewrite app_assoc. reflexivity.
Qed.

Lemma shrows_row o : forall k l1 row l2, length l1 = (k * length o)%nat -> length row = length o ->
  shrows o (S k) (l1 ++ row ++ l2) = shrows o k l1 ++ zipw Rplus o row ++ l2.
Proof.
  induction k as [|k IH]; intros l1 row l2 E Er.
  - destruct l1; [|discriminate]. cbn [shrows app].
    rewrite firstn_app_le, skipn_app_le by lia.
    rewrite <- Er, firstn_all, skipn_all. reflexivity.
  - change (shrows o (S (S k)) (l1 ++ row ++ l2)) with
      (zipw Rplus o (firstn (length o) (l1 ++ row ++ l2)) ++ shrows o (S k) (skipn (length o) (l1 ++ row ++ l2))).
    simpl in E. rewrite firstn_app_le, skipn_app_le by lia.
    rewrite IH by (rewrite ?skipn_length; lia).
    cbn [shrows]. rewrite <- app_assoc. reflexivity.
Qed.

Lemma nth_shrows o : forall c l (k j : nat), (j < length o)%nat -> (k * length o + j < length l)%nat ->
  nth (k * length o + j) (shrows o c l) 0 =
  (if (k <? c)%nat then nth j o 0 else 0) + nth (k * length o + j) l 0.
Proof.
  induction c as [|c IH]; intros l k j Hj Hl.
  - simpl. ring.
  - cbn [shrows]. destruct k as [|k].
    + simpl Nat.mul. simpl Nat.add. rewrite app_nth1 by (rewrite zipw_length_min, firstn_length; simpl in Hl; lia).
      rewrite nth_zipw_plus by (rewrite ?firstn_length; simpl in Hl; lia).
      rewrite nth_firstn_lt by exact Hj. reflexivity.
    + assert (Hw : length (zipw Rplus o (firstn (length o) l)) = length o).
      { rewrite zipw_length_min, firstn_length. simpl in Hl. lia. }
      rewrite app_nth2 by (rewrite Hw; simpl; lia). rewrite Hw.
      replace (S k * length o + j - length o)%nat with (k * length o + j)%nat by (simpl; lia).
      rewrite IH by (rewrite ?skipn_length; simpl in Hl; lia).
      rewrite nth_skipn_add. replace (length o + (k * length o + j))%nat with (S k * length o + j)%nat by (simpl; lia).
      change (S k <? S c)%nat with (k <? c)%nat. reflexivity.
Qed.

(* list update / block update *)
Lemma upd_block_nil {A} : forall (vs : list A) n, upd_block (@nil A) n vs = [].
Proof. induction vs as [|v vs IH]; intros n; simpl; auto. Qed.

Lemma firstn_S_upd {A} : forall (xs : list A) n v, (n < length xs)%nat -> firstn (S n) (upd xs n v) = firstn n xs ++ [v].
Proof.
  induction xs as [|h t IH]; intros [|n] v Hn; simpl in *; try lia; auto.
  f_equal. apply IH. lia.
Qed.
Lemma skipn_upd_after {A} : forall (xs : list A) n m v, (n < m)%nat -> skipn m (upd xs n v) = skipn m xs.
Proof.
  induction xs as [|h t IH]; intros [|n] [|m] v Hn; simpl in *; try lia; auto. apply IH. lia.
Qed.

Lemma upd_block_split {A} : forall (vs xs : list A) n, (n + length vs <= length xs)%nat ->
  upd_block xs n vs = firstn n xs ++ vs ++ skipn (n + length vs) xs.
Proof.
  induction vs as [|v vs IH]; intros xs n Hn; simpl in *.
  - rewrite Nat.add_0_r. symmetry. apply firstn_skipn.
  - rewrite IH by (rewrite upd_length; lia).
    rewrite firstn_S_upd by lia. rewrite skipn_upd_after by lia.
    rewrite <- app_assoc. replace (S n + length vs)%nat with (n + S (length vs))%nat by lia. reflexivity.
Qed.

Lemma skipn_add {A} : forall (b a : nat) (xs : list A), skipn a (skipn b xs) = skipn (b + a) xs.
Proof. induction b as [|b IH]; intros a [|h t]; simpl; auto. destruct a; reflexivity. Qed.

Lemma upd_block_shrows o (k : nat) l pd : length pd = length o -> (k * length o + length o <= length l)%nat ->
  upd_block (shrows o k l) (k * length o) (zipw Rplus o pd) =
  shrows o (S k) (upd_block l (k * length o) pd).
Proof.
  intros Ep Hl.
  set (w := length o) in *.
  set (l1 := firstn (k * w) l). set (l2 := skipn (k * w + w) l).
  assert (El1 : length l1 = (k * w)%nat) by (unfold l1; rewrite firstn_length; lia).
  assert (Ez : length (zipw Rplus o pd) = w) by (rewrite zipw_length_min; fold w; lia).
  rewrite (upd_block_split pd l) by lia. rewrite Ep. fold l1 l2.
  rewrite (shrows_row o k l1 pd l2) by (fold w; lia).
  assert (El : l = l1 ++ skipn (k * w) l) by (unfold l1; symmetry; apply firstn_skipn).
  rewrite El at 1. rewrite shrows_app_front by (fold w; lia).
  rewrite upd_block_split by (rewrite app_length, shrows_length, skipn_length, Ez; lia).
  rewrite Ez. rewrite firstn_app_le by (rewrite shrows_length; lia).
  rewrite <- El1 at 1. rewrite <- (shrows_length o k l1) at 1. rewrite firstn_all.
  f_equal. f_equal.
  rewrite skipn_app. rewrite shrows_length, El1.
  replace (k * w + w - k * w)%nat with w by lia.
  rewrite (skipn_all2 (shrows o k l1)) by (rewrite shrows_length; lia). simpl.
  rewrite skipn_add. reflexivity.
Qed.

(* row r of a buffer whose first k rows are translated *)
Lemma row_shrows o : forall k l (r : nat), (r < k)%nat -> ((r + 1) * length o <= length l)%nat ->
  firstn (length o) (skipn (r * length o) (shrows o k l)) =
  zipw Rplus o (firstn (length o) (skipn (r * length o) l)).
Proof.
  induction k as [|k IH]; intros l r Hr Hl; [lia|]. cbn [shrows].
  assert (Hw : length (zipw Rplus o (firstn (length o) l)) = length o).
  { rewrite zipw_length_min, firstn_length. lia. }
  destruct r as [|r].
  - simpl Nat.mul. cbn [skipn]. rewrite firstn_app_le by lia. apply firstn_all2. lia.
  - rewrite skipn_app, Hw. rewrite (skipn_all2 (zipw Rplus o (firstn (length o) l))) by (rewrite Hw; simpl; lia).
    replace (S r * length o - length o)%nat with (r * length o)%nat by (simpl; lia). cbn [app].
    rewrite IH by (rewrite ?skipn_length; simpl in Hl; lia).
    rewrite skipn_add. replace (length o + r * length o)%nat with (S r * length o)%nat by (simpl; lia). reflexivity.
Qed.

Lemma concat_shrows o : forall L : list (list R), Forall (fun r => length r = length o) L ->
  shrows o (length L) (concat L) = concat (map (zipw Rplus o) L).
Proof.
  induction L as [|r L IH]; intros HF; [reflexivity|].
  apply Forall_cons_iff in HF. destruct HF as [Hr HF]. cbn [length concat map shrows].
  rewrite firstn_app_le, skipn_app_le by lia. rewrite <- Hr, firstn_all, skipn_all. cbn [app].
  rewrite IH by exact HF. reflexivity.
Qed.

Lemma length_concat_uniform {A} (w : nat) : forall L : list (list A), Forall (fun r => length r = w) L ->
  length (concat L) = (length L * w)%nat.
Proof.
  induction L as [|r L IH]; intros HF; [reflexivity|].
  apply Forall_cons_iff in HF. destruct HF as [Hr HF]. cbn [concat length]. rewrite app_length, Hr, IH by exact HF. lia.
Qed.
End Lists.

(* ------------------------------------------------------------------------------------------ *)
(* 1. arrays: a point plus a vector, a ray buffer whose first rows are translated               *)
(* ------------------------------------------------------------------------------------------ *)
Section Arrays.
Local Open Scope R_scope.

(* the point (or cell corner) p translated by the vector o; any other array shape is kept *)
Definition vsh (o : list R) (p : arr R) : arr R := mkarr (shape p) (zipw Rplus o (dat p)).
(* the ray buffer r with its rows 0 .. c-1 translated by o (the rows from c on are untouched) *)
Definition shray (o : list R) (c : Z) (r : arr R) : arr R :=
  mkarr (shape r) (shrows o (Z.to_nat c) (dat r)).

Lemma shape_shray o c r : shape (shray o c r) = shape r.
Proof. reflexivity. Qed.
Lemma length_shray o c r : length (dat (shray o c r)) = length (dat r).
Proof. apply shrows_length. Qed.
Lemma shray_0 o r : shray o 0 r = r.
Proof. destruct r. reflexivity. Qed.

Lemma sub_off_row2 (M w c : Z) : sub_off [M; w] [c] = (c * w)%Z.
Proof. unfold sub_off, flat. simpl. unfold prodZ. simpl. lia. Qed.

(* storing a translated point in row c of a buffer whose rows < c are translated *)
Lemma set_sub_shray o (M c : Z) r p :
  shape r = [M; Z.of_nat (length o)] -> length (dat r) = (Z.to_nat M * length o)%nat ->
  (0 <= c)%Z -> (c < M \/ M <= 0)%Z -> length (dat p) = length o ->
  set_sub (shray o c r) [c] (vsh o p) = shray o (c + 1) (set_sub r [c] p).
Proof.
  intros Sr Lr Hc HM Lp. unfold set_sub, shray, vsh. cbn [shape dat]. f_equal.
  rewrite Sr, sub_off_row2.
  destruct (Z_le_gt_dec M 0) as [HM0|HM0].
  - assert (E : dat r = []).
    { destruct (dat r); [reflexivity|]. simpl in Lr. replace (Z.to_nat M) with 0%nat in Lr by lia. discriminate. }
    rewrite E, shrows_nil, !upd_block_nil, shrows_nil. reflexivity.
  - assert (Hlt : (c < M)%Z) by lia.
    replace (Z.to_nat (c * Z.of_nat (length o))) with (Z.to_nat c * length o)%nat by nia.
    replace (Z.to_nat (c + 1)) with (S (Z.to_nat c)) by lia.
    apply upd_block_shrows; [exact Lp|]. rewrite Lr.
    assert (Z.to_nat c + 1 <= Z.to_nat M)%nat by lia. nia.
Qed.

Lemma get_shray o (M c k j : Z) r :
  shape r = [M; Z.of_nat (length o)] -> length (dat r) = (Z.to_nat M * length o)%nat ->
  (0 <= k < M)%Z -> (0 <= j < Z.of_nat (length o))%Z ->
  get 0 (shray o c r) [k; j] = (if (k <? c)%Z then nth (Z.to_nat j) o 0 else 0) + get 0 r [k; j].
Proof.
  intros Sr Lr Hk Hj. unfold get, shray. cbn [shape dat]. rewrite Sr, flat2.
  replace (Z.to_nat (k * Z.of_nat (length o) + j)) with (Z.to_nat k * length o + Z.to_nat j)%nat by nia.
  rewrite nth_shrows; [| lia | rewrite Lr; assert (Z.to_nat k + 1 <= Z.to_nat M)%nat by lia; nia].
  destruct (Z.ltb_spec k c); destruct (Nat.ltb_spec (Z.to_nat k) (Z.to_nat c)); try reflexivity; lia.
Qed.

(* ---- shrink only sees the differences pcur - lower, pcur - upper ---- *)
Lemma shrink_vsh o (p d l u : arr R) :
  length (dat p) = length o -> length (dat d) = length o ->
  length (dat l) = length o -> length (dat u) = length o ->
  shrink (vsh o p) d (vsh o l) (vsh o u) = shrink p d l u.
Proof.
  intros Lp Ld Ll Lu.
  assert (Et : amap2 (@nsub R NumR) (vsh o p) d = vsh o (amap2 (@nsub R NumR) p d)).
  { unfold amap2, vsh. cbn [shape dat nsub NumR]. f_equal. apply zipw_sub_plus. lia. }
  assert (Lt : length (dat (amap2 (@nsub R NumR) p d)) = length o).
  { unfold amap2. cbn [dat]. rewrite zipw_length_min. lia. }
  assert (El : amap2 (@nltb R NumR) (amap2 (@nsub R NumR) (vsh o p) d) (vsh o l) =
               amap2 (@nltb R NumR) (amap2 (@nsub R NumR) p d) l).
  { rewrite Et. unfold amap2 at 1 3. unfold vsh. cbn [shape dat nltb NumR]. f_equal.
    apply zipw_cmp_plus; [intros; apply Rltb_shift|lia|lia]. }
  assert (Eu : amap2 (@ngtb R NumR) (amap2 (@nsub R NumR) (vsh o p) d) (vsh o u) =
               amap2 (@ngtb R NumR) (amap2 (@nsub R NumR) p d) u).
  { rewrite Et. unfold amap2 at 1 3. unfold vsh. cbn [shape dat]. f_equal.
    apply zipw_cmp_plus; [intros; unfold ngtb; cbn [nltb NumR]; apply Rltb_shift|lia|lia]. }
  assert (Em : forall (q : arr R) (m : arr bool), length (dat q) = length o ->
             amap2 (@nsub R NumR) (amask (vsh o p) m) (amask (vsh o q) m) =
             amap2 (@nsub R NumR) (amask p m) (amask q m)).
  { intros q m Lq. unfold amap2, amask, of_list, vsh. cbn [shape dat nsub NumR].
    rewrite mask_plus_length by lia. f_equal. apply mask_diff_plus; lia. }
  unfold shrink. cbv zeta. rewrite El, Eu, !(Em l) by exact Ll. rewrite !(Em u) by exact Lu. reflexivity.
Qed.

Lemma arr_eq {A} (u v : arr A) : shape u = shape v -> dat u = dat v -> u = v.
Proof. destruct u, v. simpl. intros -> ->. reflexivity. Qed.

(* ---- the returned polyline ray[count::-1] ---- *)
Lemma get_sub_row_dat (r : arr R) (n w k : Z) : shape r = [n; w] ->
  dat (get_sub r [k]) = firstn (Z.to_nat w) (skipn (Z.to_nat (k * w)) (dat r)).
Proof.
  intros E. unfold get_sub. rewrite E. change (length [k]) with 1%nat. cbn [skipn dat]. rewrite sub_off_row2.
  unfold prodZ. cbn [fold_right]. rewrite Z.mul_1_r. reflexivity.
Qed.

(* every row of the polyline r translated by o *)
Definition addvec (o : list R) (r : arr R) : arr R := shray o (dim r 0%nat) r.

Lemma rev_prefix_rows (o : list R) (n c : Z) (r : arr R) :
  shape r = [n; Z.of_nat (length o)] -> length (dat r) = (Z.to_nat n * length o)%nat -> (0 <= c < n)%Z ->
  Forall (fun row => length row = length o)
         (map (fun q : nat => dat (get_sub r [Z.of_nat q])) (seq 0 (Z.to_nat (c + 1)))).
Proof.
  intros Sr Lr Hc. apply Forall_forall. intros row Hrow. apply in_map_iff in Hrow.
  destruct Hrow as (q & <- & Hq). apply in_seq in Hq.
  rewrite (get_sub_row_dat r n _ _ Sr), Nat2Z.id.
  replace (Z.to_nat (Z.of_nat q * Z.of_nat (length o))) with (q * length o)%nat by nia.
  rewrite firstn_length, skipn_length, Lr.
  assert (q + 1 <= Z.to_nat n)%nat by lia. nia.
Qed.

Lemma length_rev_prefix (o : list R) (n c : Z) (r : arr R) :
  shape r = [n; Z.of_nat (length o)] -> length (dat r) = (Z.to_nat n * length o)%nat -> (0 <= c < n)%Z ->
  shape (rev_prefix r c) = [(c + 1)%Z; Z.of_nat (length o)] /\
  length (dat (rev_prefix r c)) = (Z.to_nat (c + 1) * length o)%nat.
Proof.
  intros Sr Lr Hc. split; [apply (shape_rev_prefix r n); exact Sr|].
  unfold rev_prefix. cbv zeta. cbn [dat].
  rewrite (length_concat_uniform (length o)).
  - rewrite rev_length, map_length, seq_length. reflexivity.
  - apply Forall_rev. apply (rev_prefix_rows o n c r Sr Lr Hc).
Qed.

Lemma rev_prefix_shray (o : list R) (n c : Z) (r : arr R) :
  shape r = [n; Z.of_nat (length o)] -> length (dat r) = (Z.to_nat n * length o)%nat -> (0 <= c < n)%Z ->
  rev_prefix (shray o (c + 1) r) c = addvec o (rev_prefix r c).
Proof.
  intros Sr Lr Hc. unfold addvec. rewrite (dim2_0 _ _ _ (shape_rev_prefix r n _ c Sr)).
  apply arr_eq.
  { rewrite shape_shray, (shape_rev_prefix r n _ c Sr).
    apply (shape_rev_prefix (shray o (c + 1) r) n). exact Sr. }
  unfold shray at 2. cbn [dat]. unfold rev_prefix. cbv zeta. cbn [dat].
  set (rows := map (fun q : nat => dat (get_sub r [Z.of_nat q])) (seq 0 (Z.to_nat (c + 1)))).
  assert (E : map (fun q : nat => dat (get_sub (shray o (c + 1) r) [Z.of_nat q])) (seq 0 (Z.to_nat (c + 1))) =
              map (zipw Rplus o) rows).
  { unfold rows. rewrite map_map. apply map_ext_in. intros q Hq. apply in_seq in Hq.
    rewrite (get_sub_row_dat (shray o (c + 1) r) n _ _ Sr), (get_sub_row_dat r n _ _ Sr), Nat2Z.id.
    replace (Z.to_nat (Z.of_nat q * Z.of_nat (length o))) with (q * length o)%nat by nia.
    unfold shray. cbn [dat]. apply row_shrows; [lia|]. rewrite Lr.
    assert (q + 1 <= Z.to_nat n)%nat by lia. nia. }
  rewrite E, <- map_rev.
  rewrite <- (concat_shrows o (rev rows)) by (apply Forall_rev; apply (rev_prefix_rows o n c r Sr Lr Hc)).
  unfold rows. rewrite rev_length, map_length, seq_length. reflexivity.
Qed.

Lemma get_addvec (o : list R) (m i j : Z) (r : arr R) :
  shape r = [m; Z.of_nat (length o)] -> length (dat r) = (Z.to_nat m * length o)%nat ->
  (0 <= i < m)%Z -> (0 <= j < Z.of_nat (length o))%Z ->
  get 0 (addvec o r) [i; j] = nth (Z.to_nat j) o 0 + get 0 r [i; j].
Proof.
  intros Sr Lr Hi Hj. unfold addvec. rewrite (dim2_0 _ _ _ Sr).
  rewrite (get_shray o m m i j r Sr Lr Hi Hj).
  destruct (Z.ltb_spec i m); [reflexivity|lia].
Qed.
End Arrays.

(* ------------------------------------------------------------------------------------------ *)
(* 2. the loop of _ray2d_core in modular form (any numeric type), equal to the generated one    *)
(* ------------------------------------------------------------------------------------------ *)
Section Spec.
Context {T : Type} `{Num T}.

(* grid magnetism on component ix *)
Definition magnet1 (lower upper : arr T) (ix : Z) (pcur : arr T) : arr T :=
  if nltb (nabs (nsub (get (nofZ 0) pcur [ix]) (get (nofZ 0) lower [ix]))) (nofQ 1 100000000)
  then set pcur [ix] (get (nofZ 0) lower [ix])
  else if nltb (nabs (nsub (get (nofZ 0) pcur [ix]) (get (nofZ 0) upper [ix]))) (nofQ 1 100000000)
       then set pcur [ix] (get (nofZ 0) upper [ix])
       else pcur.
Definition magnet (n : Z) (lower upper p : arr T) : arr T :=
  for_list (pyrange 0 n 1) (fun ix q => magnet1 lower upper ix q) p.

(* boundaries of the cell of coordinate q on an axis *)
Definition cidx (ax : arr T) (q : T) : Z := searchsorted_right ax q - 1.
Definition cell_lo (ax : arr T) (q : T) : T :=
  if neqb q (get (nofZ 0) ax [cidx ax q]) then get (nofZ 0) ax [Z.max (cidx ax q - 1) 0]
  else get (nofZ 0) ax [cidx ax q].
Definition cell_up (ax : arr T) (q : T) : T := get (nofZ 0) ax [Z.min (cidx ax q + 1) (dim ax 0%nat - 1)].
End Spec.

Section Spec2.
Context {T : Type} `{Num T}.
Variables (z x zgrad xgrad : arr T) (zend xend zsrc xsrc stepsize : T) (M : Z).
Local Notation St := (@St2 T).

Definition tcond2 (s : St) : bool :=
  ngeb (Common.dist2d zsrc xsrc (get (nofZ 0) (s_pcur s) [0]) (get (nofZ 0) (s_pcur s) [1])) stepsize.
Definition g2z (p : arr T) : T := Interp2d.interp2d_1 z x zgrad p nnan.
Definition g2x (p : arr T) : T := Interp2d.interp2d_1 z x xgrad p nnan.
Definition g2n (p : arr T) : T := Common.norm2d (g2z p) (g2x p).
Definition ndelta2 (d p : arr T) : arr T :=
  set (set d [0] (nmul (nmul stepsize (g2z p)) (ndiv (nofZ 1) (g2n p))))
      [1] (nmul (nmul stepsize (g2x p)) (ndiv (nofZ 1) (g2n p))).
Definition clamp2 (p1 : arr T) : arr T :=
  set (set p1 [0] (clamp z (get (nofZ 0) p1 [0])))
      [1] (clamp x (get (nofZ 0) (set p1 [0] (clamp z (get (nofZ 0) p1 [0]))) [1])).
Definition cells_lo2 (l p : arr T) : arr T :=
  set (set l [0] (cell_lo z (get (nofZ 0) p [0]))) [1] (cell_lo x (get (nofZ 0) p [1])).
Definition cells_up2 (u p : arr T) : arr T :=
  set (set u [0] (cell_up z (get (nofZ 0) p [0]))) [1] (cell_up x (get (nofZ 0) p [1])).

Definition gbody2 (hg : bool) (s : St) : ctl St :=
  if btest M (nfree_max2 z x stepsize) s then Brk s
  else if ngtb (g2n (s_pcur s)) (nofZ 0) then
    let d' := ndelta2 (s_delta s) (s_pcur s) in
    if hg then
      let fac := FteikCommon.shrink (s_pcur s) d' (s_lower s) (s_upper s) in
      let p3 := clamp2 (amap2 nsub (s_pcur s) (amap (fun e => nmul fac e) d')) in
      if nltb fac (nofZ 1) then
        let p4 := magnet 2 (s_lower s) (s_upper s) p3 in
        let s' := (s_count s + 1, d', cells_lo2 (s_lower s) p4, 0, p4,
                   set_sub (s_ray s) [s_count s] p4, cells_up2 (s_upper s) p4) in
        if (cidx z (get (nofZ 0) p4 [0]) =? cidx z zsrc) && (cidx x (get (nofZ 0) p4 [1]) =? cidx x xsrc)
        then Brk s' else Next s'
      else Next (s_count s, d', s_lower s, s_nfree s + 1, p3, s_ray s, s_upper s)
    else
      let p3 := clamp2 (amap2 nsub (s_pcur s) d') in
      Next (s_count s + 1, d', s_lower s, s_nfree s, p3, set_sub (s_ray s) [s_count s] p3, s_upper s)
  else Brk s.

Definition ginit2 (hg : bool) : St :=
  (1, full [2] (nofZ 0),
   (if hg then of_list [cell_lo z zend; cell_lo x xend] else mkarr [0] []), 0,
   of_list [zend; xend], set_sub (full [M; 2] (nofZ 0)) [0] (of_list [zend; xend]),
   (if hg then of_list [cell_up z zend; cell_up x xend] else mkarr [0] [])).

Lemma cond2_spec hg s : cond2 z x zgrad xgrad zend xend zsrc xsrc stepsize hg s = tcond2 s.
Proof. destruct s as [[[[[[c d] l] n] p] r] u]. reflexivity. Qed.

Lemma init2_spec hg : init2 z x zgrad xgrad zend xend zsrc xsrc stepsize hg M = ginit2 hg.
Proof. destruct hg; reflexivity. Qed.

Lemma body2_spec hg s : body2 z x zgrad xgrad zend xend zsrc xsrc stepsize hg M s = gbody2 hg s.
Proof.
  destruct s as [[[[[[c d] l] n] p] r] u].
  destruct hg;
    cbv beta zeta iota delta [body2 loop2 fst snd u_ray2d_core_v_p1 gbody2 btest nfree_max2
                              s_count s_delta s_lower s_nfree s_pcur s_ray s_upper
                              g2n g2z g2x ndelta2 clamp2 clamp cells_lo2 cells_up2 cell_lo cell_up cidx
                              magnet magnet1];
    reflexivity.
Qed.
End Spec2.

(* ------------------------------------------------------------------------------------------ *)
(* 3. generic: mapping outcomes, loops that commute with a state transformation                 *)
(* ------------------------------------------------------------------------------------------ *)
Definition cmap {S S'} (f : S -> S') (r : ctl S) : ctl S' :=
  match r with Next s => Next (f s) | Brk s => Brk (f s) | Exc e => Exc e end.
Definition rmap {S S'} (f : S -> S') (r : res S) : res S' :=
  match r with Ok s => Ok (f s) | Raise e => Raise e | OutOfFuel => OutOfFuel end.

Lemma while_fuel_commute {S S'} (f : S -> S') (P : S -> Prop)
      (cond : S -> bool) (body : S -> ctl S) (cond' : S' -> bool) (body' : S' -> ctl S') :
  (forall s, P s -> cond' (f s) = cond s) ->
  (forall s, P s -> cond s = true -> body' (f s) = cmap f (body s)) ->
  (forall s s', P s -> cond s = true -> (body s = Next s' \/ body s = Brk s') -> P s') ->
  forall fuel s, P s ->
    while_fuel fuel cond' body' (f s) = rmap f (while_fuel fuel cond body s) /\
    (forall s1, while_fuel fuel cond body s = Ok s1 -> P s1).
Proof.
  intros Hc Hb Hp. induction fuel as [|n IH]; intros s Ps; simpl; [split; [reflexivity|discriminate]|].
  rewrite (Hc s Ps). destruct (cond s) eqn:Ec.
  - rewrite (Hb s Ps Ec). destruct (body s) as [s'|s'|e] eqn:Eb; simpl.
    + apply IH. apply (Hp s s' Ps Ec). left; exact Eb.
    + split; [reflexivity|]. intros s1 E. injection E as <-. apply (Hp s s' Ps Ec). right; exact Eb.
    + split; [reflexivity|discriminate].
  - split; [reflexivity|]. intros s1 E. injection E as <-. exact Ps.
Qed.

(* the state of the shifted run: same counters and step, translated point, cell and stored rows *)
Definition SH (o : list R) (s : @St2 R) : @St2 R :=
  (s_count s, s_delta s, vsh o (s_lower s), s_nfree s, vsh o (s_pcur s),
   shray o (s_count s) (s_ray s), vsh o (s_upper s)).
(* the ray buffer has max_step rows of w entries, and the count is not negative *)
Definition RInv (w : nat) (M : Z) (s : @St2 R) : Prop :=
  0 <= s_count s /\ shape (s_ray s) = [M; Z.of_nat w] /\ length (dat (s_ray s)) = (Z.to_nat M * w)%nat.

Lemma RInv_full w M (p : arr R) c : 0 <= c ->
  forall s : @St2 R, s_count s = c -> s_ray s = set_sub (full [M; Z.of_nat w] (@nofZ R NumR 0)) [0] p -> RInv w M s.
Proof.
  intros Hc s E1 E2. unfold RInv. rewrite E1, E2. split; [exact Hc|]. split; [reflexivity|].
  unfold set_sub, full. cbn [shape dat]. rewrite upd_block_length, repeat_length.
  unfold prodZ. simpl. nia.
Qed.

(* ------------------------------------------------------------------------------------------ *)
(* 4. translation of one axis: clamps, cell boundaries                                          *)
(* ------------------------------------------------------------------------------------------ *)
Section Axis.
Local Open Scope R_scope.
Variables (c : R) (ax : arr R) (n : Z).
Hypothesis A : axis ax n.

Lemma shift_get_le k : (k <= n - 1)%Z -> get 0 (shift_axis c ax) [k] = c + get 0 ax [k].
Proof.
  intros Hk. pose proof (axis_n _ _ A) as N. destruct A as (S & L & _).
  apply shift_get_stored. rewrite S, L. unfold flat. cbn [flat_aux]. lia.
Qed.

Lemma Reqb_shift u v : Reqb (c + u) (c + v) = Reqb u v.
Proof. unfold Reqb. destruct (Req_EM_T (c + u) (c + v)), (Req_EM_T u v); auto; exfalso; lra. Qed.

Lemma clamp_shift v : clamp (shift_axis c ax) (c + v) = c + clamp ax v.
Proof.
  pose proof (axis_n _ _ A) as N. unfold clamp, pymin2, pymax2.
  rewrite shift_dim, (axis_dim _ _ A). cbn [nltb nofZ NumR].
  rewrite !shift_get_le by lia. rewrite Rltb_shift.
  destruct (Rltb v (get 0 ax [0%Z])); rewrite Rltb_shift;
    destruct (Rltb (get 0 ax [(n - 1)%Z]) _); reflexivity.
Qed.

Lemma cidx_range q : (-1 <= cidx ax q <= n - 1)%Z.
Proof.
  pose proof (axis_n _ _ A) as N. unfold cidx.
  pose proof (ssr_range ax n q (axis_axis1 _ _ A) ltac:(lia)). lia.
Qed.
Lemma cidx_shift q : cidx (shift_axis c ax) (c + q) = cidx ax q.
Proof. unfold cidx. rewrite ssr_shift. reflexivity. Qed.

Lemma cell_lo_shift q : cell_lo (shift_axis c ax) (c + q) = c + cell_lo ax q.
Proof.
  pose proof (axis_n _ _ A) as N. pose proof (cidx_range q) as Rg.
  unfold cell_lo. rewrite cidx_shift. cbn [neqb nofZ NumR].
  rewrite !shift_get_le by lia. rewrite Reqb_shift.
  destruct (Reqb q _); reflexivity.
Qed.

Lemma cell_up_shift q : cell_up (shift_axis c ax) (c + q) = c + cell_up ax q.
Proof.
  pose proof (axis_n _ _ A) as N. pose proof (cidx_range q) as Rg.
  unfold cell_up. rewrite cidx_shift, shift_dim. cbn [nofZ NumR].
  rewrite (axis_dim _ _ A). rewrite shift_get_le by lia. reflexivity.
Qed.
End Axis.

(* ------------------------------------------------------------------------------------------ *)
(* 5. 2D: one loop iteration commutes with the translation                                      *)
(* ------------------------------------------------------------------------------------------ *)
Section Shift2.
Local Open Scope R_scope.
Variables (a b : R) (z x zgrad xgrad : arr R) (nz nx : Z).
Hypothesis Az : axis z nz.
Hypothesis Ax : axis x nx.
Hypothesis Sz : shape zgrad = [nz; nx].
Hypothesis Sx : shape xgrad = [nz; nx].
Local Notation o := [a; b].
Local Notation z' := (shift_axis a z).
Local Notation x' := (shift_axis b x).
Local Notation r0 := (@nofZ R NumR 0%Z).

Lemma get_vsh2 p : vec2 p ->
  get r0 (vsh o p) [0%Z] = a + get r0 p [0%Z] /\ get r0 (vsh o p) [1%Z] = b + get r0 p [1%Z].
Proof.
  intros [S L]. destruct p as [sh l]. simpl in S, L. subst sh.
  destruct l as [|p0 [|p1 [|]]]; try discriminate. split; reflexivity.
Qed.

Lemma set_vsh2 p v : vec2 p ->
  set (vsh o p) [0%Z] (a + v) = vsh o (set p [0%Z] v) /\ set (vsh o p) [1%Z] (b + v) = vsh o (set p [1%Z] v).
Proof.
  intros [S L]. destruct p as [sh l]. simpl in S, L. subst sh.
  destruct l as [|p0 [|p1 [|]]]; try discriminate. split; reflexivity.
Qed.

Lemma vec2_vsh p : vec2 p -> vec2 (vsh o p).
Proof.
  intros [S L]. split; [exact S|]. unfold vsh. cbn [dat]. rewrite zipw_length_min, L. reflexivity.
Qed.

Lemma amap2_sub_vsh2 p q : vec2 p -> amap2 (@nsub R NumR) (vsh o p) q = vsh o (amap2 (@nsub R NumR) p q).
Proof.
  intros [S L]. unfold amap2, vsh. cbn [shape dat nsub NumR]. f_equal. apply zipw_sub_plus. rewrite L. reflexivity.
Qed.

Lemma interp2_shift g p : shape g = [nz; nx] -> vec2 p ->
  Interp2d.interp2d_1 z' x' g (vsh o p) nnan = Interp2d.interp2d_1 z x g p nnan.
Proof.
  intros Sg Hp. unfold Interp2d.interp2d_1. destruct (get_vsh2 p Hp) as [-> ->].
  apply (interp2d_translate a b z x g nz nx); assumption.
Qed.

Lemma g2n_shift p : vec2 p -> g2n z' x' zgrad xgrad (vsh o p) = g2n z x zgrad xgrad p.
Proof. intros Hp. unfold g2n, g2z, g2x. rewrite !interp2_shift by assumption. reflexivity. Qed.

Lemma ndelta2_shift s d p : vec2 p -> ndelta2 z' x' zgrad xgrad s d (vsh o p) = ndelta2 z x zgrad xgrad s d p.
Proof.
  intros Hp. unfold ndelta2. rewrite g2n_shift by exact Hp. unfold g2z, g2x.
  rewrite !interp2_shift by assumption. reflexivity.
Qed.

Lemma len2_ndelta2 s d p : length (dat d) = 2%nat -> length (dat (ndelta2 z x zgrad xgrad s d p)) = 2%nat.
Proof. intros Hd. unfold ndelta2. apply len2_set, len2_set, Hd. Qed.

Lemma clamp2_shift p1 : vec2 p1 -> clamp2 z' x' (vsh o p1) = vsh o (clamp2 z x p1).
Proof.
  intros Hp. unfold clamp2.
  destruct (get_vsh2 p1 Hp) as [G0 _]. rewrite G0, (clamp_shift a z nz Az).
  rewrite (proj1 (set_vsh2 p1 _ Hp)).
  set (p2 := set p1 [0%Z] (clamp z (get r0 p1 [0%Z]))).
  assert (Hp2 : vec2 p2) by (apply vec2_set; exact Hp).
  destruct (get_vsh2 p2 Hp2) as [_ G1]. rewrite G1, (clamp_shift b x nx Ax).
  apply (proj2 (set_vsh2 p2 _ Hp2)).
Qed.

Lemma vec2_clamp2 (u v p1 : arr R) : vec2 p1 -> vec2 (clamp2 u v p1).
Proof. intros Hp. unfold clamp2. apply vec2_set, vec2_set, Hp. Qed.

Lemma vec2_magnet1 (l u p : arr R) ix : vec2 p -> vec2 (magnet1 l u ix p).
Proof.
  intros Hp. unfold magnet1.
  repeat (match goal with |- context [if ?c then _ else _] => destruct c end); try apply vec2_set; exact Hp.
Qed.

Lemma magnet1_shift2 l u p ix : vec2 l -> vec2 u -> vec2 p -> (ix = 0 \/ ix = 1)%Z ->
  magnet1 (vsh o l) (vsh o u) ix (vsh o p) = vsh o (magnet1 l u ix p).
Proof.
  intros Hl Hu Hp Hix. unfold magnet1.
  destruct (get_vsh2 p Hp) as [P0 P1]. destruct (get_vsh2 l Hl) as [L0 L1]. destruct (get_vsh2 u Hu) as [U0 U1].
  destruct (set_vsh2 p (get r0 l [0%Z]) Hp) as [SL0 _]. destruct (set_vsh2 p (get r0 l [1%Z]) Hp) as [_ SL1].
  destruct (set_vsh2 p (get r0 u [0%Z]) Hp) as [SU0 _]. destruct (set_vsh2 p (get r0 u [1%Z]) Hp) as [_ SU1].
  destruct Hix as [-> | ->].
  - rewrite P0, L0, U0. cbn [nsub NumR].
    replace (a + get r0 p [0%Z] - (a + get r0 l [0%Z])) with (get r0 p [0%Z] - get r0 l [0%Z]) by ring.
    replace (a + get r0 p [0%Z] - (a + get r0 u [0%Z])) with (get r0 p [0%Z] - get r0 u [0%Z]) by ring.
    destruct (nltb _ _); [exact SL0|]. destruct (nltb _ _); [exact SU0|reflexivity].
  - rewrite P1, L1, U1. cbn [nsub NumR].
    replace (b + get r0 p [1%Z] - (b + get r0 l [1%Z])) with (get r0 p [1%Z] - get r0 l [1%Z]) by ring.
    replace (b + get r0 p [1%Z] - (b + get r0 u [1%Z])) with (get r0 p [1%Z] - get r0 u [1%Z]) by ring.
    destruct (nltb _ _); [exact SL1|]. destruct (nltb _ _); [exact SU1|reflexivity].
Qed.

Lemma magnet_shift2 l u p : vec2 l -> vec2 u -> vec2 p ->
  magnet 2 (vsh o l) (vsh o u) (vsh o p) = vsh o (magnet 2 l u p) /\ vec2 (magnet 2 l u p).
Proof.
  intros Hl Hu Hp. unfold magnet. change (pyrange 0 2 1) with [0%Z; 1%Z]. unfold for_list. cbn [fold_left].
  pose proof (vec2_magnet1 l u p 0 Hp) as H1.
  split; [|apply vec2_magnet1; exact H1].
  rewrite (magnet1_shift2 l u p 0) by auto. apply magnet1_shift2; auto.
Qed.

Lemma cells_lo2_shift l p : vec2 l -> vec2 p -> cells_lo2 z' x' (vsh o l) (vsh o p) = vsh o (cells_lo2 z x l p).
Proof.
  intros Hl Hp. unfold cells_lo2. destruct (get_vsh2 p Hp) as [-> ->].
  rewrite (cell_lo_shift a z nz Az), (cell_lo_shift b x nx Ax).
  rewrite (proj1 (set_vsh2 l _ Hl)). apply (proj2 (set_vsh2 _ _ (vec2_set _ _ _ Hl))).
Qed.
Lemma cells_up2_shift u p : vec2 u -> vec2 p -> cells_up2 z' x' (vsh o u) (vsh o p) = vsh o (cells_up2 z x u p).
Proof.
  intros Hu Hp. unfold cells_up2. destruct (get_vsh2 p Hp) as [-> ->].
  rewrite (cell_up_shift a z nz Az), (cell_up_shift b x nx Ax).
  rewrite (proj1 (set_vsh2 u _ Hu)). apply (proj2 (set_vsh2 _ _ (vec2_set _ _ _ Hu))).
Qed.

Lemma nfree_max2_shift s : nfree_max2 z' x' s = nfree_max2 z x s.
Proof.
  pose proof (axis_n _ _ Az). pose proof (axis_n _ _ Ax).
  unfold nfree_max2. rewrite !shift_dim, (axis_dim _ _ Az), (axis_dim _ _ Ax). cbn [nofZ NumR].
  rewrite (shift_get_le a z nz Az 0), (shift_get_le a z nz Az (nz - 1)),
          (shift_get_le b x nx Ax 0), (shift_get_le b x nx Ax (nx - 1)) by lia.
  rewrite dist2d_shift. reflexivity.
Qed.
End Shift2.

Section Body2.
Local Open Scope R_scope.
Variables (a b : R) (z x zgrad xgrad : arr R) (nz nx : Z) (zend xend zsrc xsrc stepsize : R) (M : Z).
Hypothesis Az : axis z nz.
Hypothesis Ax : axis x nx.
Hypothesis Sz : shape zgrad = [nz; nx].
Hypothesis Sx : shape xgrad = [nz; nx].
Local Notation o := [a; b].
Local Notation z' := (shift_axis a z).
Local Notation x' := (shift_axis b x).
Local Notation r0 := (@nofZ R NumR 0%Z).
Local Notation St := (@St2 R).

Lemma tcond2_shift (s : St) : vec2 (s_pcur s) ->
  tcond2 (a + zsrc) (b + xsrc) stepsize (SH o s) = tcond2 zsrc xsrc stepsize s.
Proof.
  intros Hp. unfold tcond2, SH. cbn [s_pcur fst snd].
  destruct (get_vsh2 a b _ Hp) as [-> ->]. rewrite dist2d_shift. reflexivity.
Qed.

Lemma gbody2_shift hg (s : St) : InvS hg s -> RInv 2 M s ->
  gbody2 z' x' zgrad xgrad (a + zsrc) (b + xsrc) stepsize M hg (SH o s) =
  cmap (SH o) (gbody2 z x zgrad xgrad zsrc xsrc stepsize M hg s).
Proof.
  intros (Hp & Hd & Hlu) (Hc & Sr & Lr).
  destruct s as [[[[[[c d] l] n] p] r] u]. cbn [s_count s_delta s_lower s_nfree s_pcur s_ray s_upper fst snd] in *.
  unfold gbody2, SH, btest. cbn [s_count s_delta s_lower s_nfree s_pcur s_ray s_upper fst snd].
  rewrite (nfree_max2_shift a b z x nz nx Az Ax).
  destruct ((M <=? c)%Z || (nfree_max2 z x stepsize <? n)%Z) eqn:Eb; [reflexivity|].
  apply orb_false_elim in Eb. destruct Eb as [Eb _]. apply Z.leb_gt in Eb.
  rewrite (g2n_shift a b z x zgrad xgrad nz nx Az Ax Sz Sx p Hp).
  destruct (ngtb (g2n z x zgrad xgrad p) r0); [|reflexivity].
  rewrite (ndelta2_shift a b z x zgrad xgrad nz nx Az Ax Sz Sx stepsize d p Hp).
  pose proof (len2_ndelta2 z x zgrad xgrad stepsize d p Hd) as Hd'.
  set (d' := ndelta2 z x zgrad xgrad stepsize d p) in *. clearbody d'.
  destruct hg.
  - destruct (Hlu eq_refl) as [Hl Hu].
    rewrite shrink_vsh by (first [apply Hp|apply Hl|apply Hu|exact Hd']).
    set (fac := FteikCommon.shrink p d' l u). clearbody fac.
    rewrite (amap2_sub_vsh2 a b p _ Hp).
    assert (Hp1 : vec2 (amap2 (@nsub R NumR) p (amap (fun e : R => nmul fac e) d'))).
    { apply vec2_amap2; [exact Hp|apply len2_amap; exact Hd']. }
    rewrite (clamp2_shift a b z x nz nx Az Ax _ Hp1).
    pose proof (vec2_clamp2 z x _ Hp1) as Hp3.
    set (p3 := clamp2 z x (amap2 (@nsub R NumR) p (amap (fun e : R => nmul fac e) d'))) in *. clearbody p3.
    destruct (nltb fac (nofZ 1)); [|reflexivity].
    destruct (magnet_shift2 a b l u p3 Hl Hu Hp3) as [Em Hp4]. rewrite Em.
    set (p4 := magnet 2 l u p3) in *. clearbody p4.
    destruct (get_vsh2 a b p4 Hp4) as [-> ->].
    rewrite !(cidx_shift a z), !(cidx_shift b x).
    rewrite (cells_lo2_shift a b z x nz nx Az Ax l p4 Hl Hp4), (cells_up2_shift a b z x nz nx Az Ax u p4 Hu Hp4).
    rewrite (set_sub_shray o M c r p4 Sr Lr Hc (or_introl Eb) (proj2 Hp4)).
    destruct (_ && _); reflexivity.
  - rewrite (amap2_sub_vsh2 a b p _ Hp).
    assert (Hp1 : vec2 (amap2 (@nsub R NumR) p d')) by (apply vec2_amap2; [exact Hp|exact Hd']).
    rewrite (clamp2_shift a b z x nz nx Az Ax _ Hp1).
    pose proof (vec2_clamp2 z x _ Hp1) as Hp3.
    set (p3 := clamp2 z x (amap2 (@nsub R NumR) p d')) in *. clearbody p3.
    rewrite (set_sub_shray o M c r p3 Sr Lr Hc (or_introl Eb) (proj2 Hp3)).
    reflexivity.
Qed.
End Body2.

Lemma RInv_keep w M (c : Z) (d l : arr R) (n : Z) (p r u : arr R) (c' : Z) (d' l' : arr R) (n' : Z) (p' u' : arr R) :
  RInv w M (c, d, l, n, p, r, u) -> 0 <= c' -> RInv w M (c', d', l', n', p', r, u').
Proof. intros (Hc & Sr & Lr) Hc'. split; [exact Hc'|]. split; [exact Sr|exact Lr]. Qed.
Lemma RInv_store w M (c : Z) (d l : arr R) (n : Z) (p r u : arr R) (c' : Z) (d' l' : arr R) (n' : Z) (p' u' pp : arr R) idx :
  RInv w M (c, d, l, n, p, r, u) -> 0 <= c' -> RInv w M (c', d', l', n', p', set_sub r idx pp, u').
Proof.
  intros (Hc & Sr & Lr) Hc'. split; [exact Hc'|]. split; [exact Sr|].
  cbn [s_ray fst snd set_sub dat]. rewrite upd_block_length. exact Lr.
Qed.

Section Inv2.
Variables (z x zgrad xgrad : arr R) (zsrc xsrc stepsize : R) (M : Z).
Local Notation St := (@St2 R).

Lemma gbody2_inv hg (s s' : St) : InvS hg s -> RInv 2 M s ->
  (gbody2 z x zgrad xgrad zsrc xsrc stepsize M hg s = Next s' \/
   gbody2 z x zgrad xgrad zsrc xsrc stepsize M hg s = Brk s') ->
  InvS hg s' /\ RInv 2 M s'.
Proof.
  intros Hi Hr. pose proof Hi as (Hp & Hd & Hlu). pose proof Hr as (Hc & _).
  destruct s as [[[[[[c d] l] n] p] r] u]. cbn [s_count s_delta s_lower s_nfree s_pcur s_ray s_upper fst snd] in *.
  unfold gbody2. cbn [s_count s_delta s_lower s_nfree s_pcur s_ray s_upper fst snd].
  destruct (btest _ _ _); [intros [E|E]; [discriminate|injection E as <-; split; assumption]|].
  destruct (ngtb _ _); [|intros [E|E]; [discriminate|injection E as <-; split; assumption]].
  pose proof (len2_ndelta2 z x zgrad xgrad stepsize d p Hd) as Hd'.
  set (d' := ndelta2 z x zgrad xgrad stepsize d p) in *. clearbody d'.
  destruct hg.
  - destruct (Hlu eq_refl) as [Hl Hu].
    set (fac := FteikCommon.shrink p d' l u). clearbody fac.
    assert (Hp3 : vec2 (clamp2 z x (amap2 (@nsub R NumR) p (amap (fun e : R => nmul fac e) d')))).
    { apply vec2_clamp2, vec2_amap2; [exact Hp|apply len2_amap; exact Hd']. }
    set (p3 := clamp2 z x _) in *. clearbody p3.
    destruct (nltb fac _).
    + assert (Hp4 : vec2 (magnet 2 l u p3)).
      { unfold magnet. apply vec2_for_list; [|exact Hp3]. intros ix q Hq. apply vec2_magnet1. exact Hq. }
      set (p4 := magnet 2 l u p3) in *. clearbody p4.
      assert (G : forall s0 : St, s0 = (c + 1, d', cells_lo2 z x l p4, 0, p4, set_sub r [c] p4, cells_up2 z x u p4) ->
                  InvS true s0 /\ RInv 2 M s0).
      { intros s0 ->. split.
        - split; [exact Hp4|]. split; [exact Hd'|]. intros _.
          split; [apply vec2_set, vec2_set, Hl|apply vec2_set, vec2_set, Hu].
        - eapply RInv_store; [exact Hr|lia]. }
      destruct (_ && _); intros [E|E]; try discriminate; injection E as <-; apply G; reflexivity.
    + intros [E|E]; [|discriminate]. injection E as <-. split.
      * split; [exact Hp3|]. split; [exact Hd'|]. intros _. split; assumption.
      * eapply RInv_keep; [exact Hr|lia].
  - assert (Hp3 : vec2 (clamp2 z x (amap2 (@nsub R NumR) p d'))).
    { apply vec2_clamp2, vec2_amap2; [exact Hp|exact Hd']. }
    set (p3 := clamp2 z x _) in *. clearbody p3.
    intros [E|E]; [|discriminate]. injection E as <-. split.
    + split; [exact Hp3|]. split; [exact Hd'|]. intros; discriminate.
    + eapply RInv_store; [exact Hr|lia].
Qed.
End Inv2.

(* ------------------------------------------------------------------------------------------ *)
(* 6. (T1) the 2D core                                                                          *)
(* ------------------------------------------------------------------------------------------ *)
Lemma while_fuel_ext' {S} (c c' : S -> bool) (b b' : S -> ctl S) :
  (forall s, c s = c' s) -> (forall s, b s = b' s) ->
  forall fuel s, while_fuel fuel c b s = while_fuel fuel c' b' s.
Proof.
  intros Hc Hb. induction fuel as [|f IH]; intros s; simpl; [reflexivity|].
  rewrite Hc, Hb. destruct (c' s); [|reflexivity]. destruct (b' s); auto.
Qed.

Lemma length_full2 (M w : Z) (v : R) : 0 <= w -> length (dat (full [M; w] v)) = (Z.to_nat M * Z.to_nat w)%nat.
Proof. intros Hw. unfold full. cbn [dat]. rewrite repeat_length. unfold prodZ. simpl. nia. Qed.

Section Main2.
Local Open Scope R_scope.
Variables (a b : R) (z x zgrad xgrad : arr R) (nz nx : Z) (zend xend zsrc xsrc stepsize : R) (M : Z) (hg : bool).
Hypothesis Az : axis z nz.
Hypothesis Ax : axis x nx.
Hypothesis Sz : shape zgrad = [nz; nx].
Hypothesis Sx : shape xgrad = [nz; nx].
Local Notation o := [a; b].
Local Notation z' := (shift_axis a z).
Local Notation x' := (shift_axis b x).
Local Notation r0 := (@nofZ R NumR 0%Z).
Local Notation St := (@St2 R).
Local Notation core fuel := (u_ray2d_core_v fuel z x zgrad xgrad zend xend zsrc xsrc stepsize M hg).
Local Notation core' fuel :=
  (u_ray2d_core_v fuel z' x' zgrad xgrad (a + zend) (b + xend) (a + zsrc) (b + xsrc) stepsize M hg).

Lemma hull2_shift : hull2 z' x' (a + zend) (b + xend) = hull2 z x zend xend.
Proof.
  change (hull2 z' x' (a + zend) (b + xend)) with (inhullb z' (a + zend) && inhullb x' (b + xend))%bool.
  rewrite (inhullb_shift a z nz zend Az), (inhullb_shift b x nx xend Ax). reflexivity.
Qed.

Lemma ginit2_shift : ginit2 z' x' (a + zend) (b + xend) M hg = SH o (ginit2 z x zend xend M hg).
Proof.
  unfold ginit2, SH. cbn [s_count s_delta s_lower s_nfree s_pcur s_ray s_upper fst snd].
  rewrite (cell_lo_shift a z nz Az), (cell_lo_shift b x nx Ax), (cell_up_shift a z nz Az), (cell_up_shift b x nx Ax).
  assert (Er : set_sub (full [M; 2%Z] r0) [0%Z] (of_list [a + zend; b + xend]) =
               shray o 1 (set_sub (full [M; 2%Z] r0) [0%Z] (of_list [zend; xend]))).
  { change (of_list [a + zend; b + xend]) with (vsh o (of_list [zend; xend])).
    rewrite <- (shray_0 o (full [M; 2%Z] r0)) at 1.
    apply (set_sub_shray o M 0); [reflexivity|apply (length_full2 M 2); lia|lia|lia|reflexivity]. }
  rewrite Er. destruct hg; reflexivity.
Qed.

Lemma ginit2_inv : InvS hg (ginit2 z x zend xend M hg) /\ RInv 2 M (ginit2 z x zend xend M hg).
Proof.
  split.
  - split; [apply vec2_of_list|]. split; [reflexivity|]. intros ->. split; apply vec2_of_list.
  - apply (RInv_full 2 M (of_list [zend; xend]) 1); [lia|reflexivity|reflexivity].
Qed.

(* the translated run is the image of the original run, iteration by iteration *)
Lemma loop2_shift fuel :
  while_fuel fuel (tcond2 (a + zsrc) (b + xsrc) stepsize)
             (gbody2 z' x' zgrad xgrad (a + zsrc) (b + xsrc) stepsize M hg)
             (SH o (ginit2 z x zend xend M hg)) =
  rmap (SH o) (while_fuel fuel (tcond2 zsrc xsrc stepsize) (gbody2 z x zgrad xgrad zsrc xsrc stepsize M hg)
                          (ginit2 z x zend xend M hg)) /\
  (forall s1, while_fuel fuel (tcond2 zsrc xsrc stepsize) (gbody2 z x zgrad xgrad zsrc xsrc stepsize M hg)
                         (ginit2 z x zend xend M hg) = Ok s1 -> InvS hg s1 /\ RInv 2 M s1).
Proof.
  apply (while_fuel_commute (SH o) (fun s => InvS hg s /\ RInv 2 M s)).
  - intros s [Hi _]. apply tcond2_shift. apply Hi.
  - intros s [Hi Hr] _. apply (gbody2_shift a b z x zgrad xgrad nz nx zsrc xsrc stepsize M Az Ax Sz Sx hg s Hi Hr).
  - intros s s' [Hi Hr] _ E. exact (gbody2_inv z x zgrad xgrad zsrc xsrc stepsize M hg s s' Hi Hr E).
  - exact ginit2_inv.
Qed.

(* the core as the modular loop *)
Lemma core2_modular (zz xx : arr R) (ze xe zs xs : R) fuel : hull2 zz xx ze xe = true ->
  u_ray2d_core_v fuel zz xx zgrad xgrad ze xe zs xs stepsize M hg =
  rbind (while_fuel fuel (tcond2 zs xs stepsize) (gbody2 zz xx zgrad xgrad zs xs stepsize M hg) (ginit2 zz xx ze xe M hg))
        (finG (nfree_max2 zz xx stepsize) (of_list [zs; xs]) M).
Proof.
  intros Hh. rewrite (core2_eq zz xx zgrad xgrad ze xe zs xs stepsize hg M fuel Hh). unfold run.
  rewrite (init2_spec zz xx zgrad xgrad ze xe zs xs stepsize M hg).
  rewrite (while_fuel_ext' _ (tcond2 zs xs stepsize) _ (gbody2 zz xx zgrad xgrad zs xs stepsize M hg)
             (cond2_spec zz xx zgrad xgrad ze xe zs xs stepsize hg)
             (body2_spec zz xx zgrad xgrad ze xe zs xs stepsize M hg)).
  reflexivity.
Qed.

Theorem ray2d_core_translate fuel :
  match core fuel with
  | Ok (ray, c) =>
      shape ray = [M; 2%Z] /\ length (dat ray) = (Z.to_nat M * 2)%nat /\
      exists k, core' fuel = Ok (shray o k ray, c) /\ ((0 <= c)%Z -> k = (c + 1)%Z) /\ (c = (-1)%Z -> k = 0%Z)
  | Raise e => core' fuel = Raise e
  | OutOfFuel => core' fuel = OutOfFuel
  end.
Proof.
  destruct (hull2 z x zend xend) eqn:Hh.
  - pose proof Hh as Hh'. rewrite <- hull2_shift in Hh'.
    rewrite (core2_modular z x zend xend zsrc xsrc fuel Hh), (core2_modular z' x' _ _ _ _ fuel Hh').
    rewrite ginit2_shift. destruct (loop2_shift fuel) as [-> Hfin].
    destruct (while_fuel fuel _ _ (ginit2 z x zend xend M hg)) as [s1| |] eqn:Ew; cbn [rmap rbind]; try reflexivity.
    destruct (Hfin s1 eq_refl) as [Hi (Hc & Sr & Lr)].
    unfold finG. rewrite (nfree_max2_shift a b z x nz nx Az Ax).
    destruct s1 as [[[[[[c d] l] n] p] r] u]. unfold SH, btest.
    cbn [s_count s_delta s_lower s_nfree s_pcur s_ray s_upper fst snd] in *.
    destruct ((M <=? c)%Z || (nfree_max2 z x stepsize <? n)%Z) eqn:Eb.
    + split; [exact Sr|]. split; [exact Lr|]. exists c. split; [reflexivity|]. split; intros; lia.
    + apply orb_false_elim in Eb. destruct Eb as [Eb _]. apply Z.leb_gt in Eb.
      split; [exact Sr|]. split; [cbn [set_sub dat]; rewrite upd_block_length; exact Lr|].
      exists (c + 1)%Z. split; [|split; intros; lia].
      change (of_list [a + zsrc; b + xsrc]) with (vsh o (of_list [zsrc; xsrc])).
      rewrite (set_sub_shray o M c r (of_list [zsrc; xsrc]) Sr Lr Hc (or_introl Eb) eq_refl). reflexivity.
  - pose proof Hh as Hh'. rewrite <- hull2_shift in Hh'.
    rewrite (ray2d_core_outside z x zgrad xgrad zend xend zsrc xsrc stepsize M hg Hh fuel).
    rewrite (ray2d_core_outside z' x' zgrad xgrad _ _ _ _ stepsize M hg Hh' fuel).
    split; [reflexivity|]. split; [apply (length_full2 M 2); lia|].
    exists 0%Z. rewrite shray_0. split; [reflexivity|]. split; intros; lia.
Qed.

(* (T1) as a statement about the stored rows: same count, rows 0..count translated, the other rows
   (never written: zeros) identical; the outcomes -1, -2 and fuel exhaustion coincide *)
Corollary ray2d_core_translate_rows fuel ray c : core fuel = Ok (ray, c) ->
  exists ray', core' fuel = Ok (ray', c) /\ shape ray' = shape ray /\ length (dat ray') = length (dat ray) /\
    (forall k j, (0 <= k <= c)%Z -> (0 <= j < 2)%Z ->
       get 0 ray' [k; j] = nth (Z.to_nat j) o 0 + get 0 ray [k; j]) /\
    ((-1 <= c)%Z -> forall k j, (c < k < M)%Z -> (0 <= j < 2)%Z -> get 0 ray' [k; j] = get 0 ray [k; j]).
Proof.
  intros Hc. pose proof (ray2d_core_translate fuel) as Ht. rewrite Hc in Ht.
  destruct Ht as (Sr & Lr & k & Hc' & Hk1 & Hk2).
  destruct (ray2d_core_count_range _ _ _ _ _ _ _ _ _ _ _ _ _ _ Hc) as [Hrange _].
  exists (shray o k ray). split; [exact Hc'|]. split; [reflexivity|]. split; [apply length_shray|]. split.
  - intros i j Hi Hj. rewrite (get_shray o M k i j ray Sr Lr) by (simpl; lia).
    rewrite Hk1 by lia. destruct (Z.ltb_spec i (c + 1)); [reflexivity|lia].
  - intros Hge i j Hi Hj. rewrite (get_shray o M k i j ray Sr Lr) by (simpl; lia).
    assert (Ek : k = (c + 1)%Z) by (destruct (Z.eq_dec c (-1)) as [->|]; [apply Hk2; reflexivity|apply Hk1; lia]).
    rewrite Ek. destruct (Z.ltb_spec i (c + 1)); [lia|ring].
Qed.
Corollary ray2d_core_translate_fuel fuel : core fuel = OutOfFuel <-> core' fuel = OutOfFuel.
Proof.
  pose proof (ray2d_core_translate fuel) as Ht. destruct (core fuel) as [[ray c]|e|].
  - destruct Ht as (_ & _ & k & -> & _). split; discriminate.
  - rewrite Ht. split; discriminate.
  - rewrite Ht. split; reflexivity.
Qed.

(* ---------------------------------------------------------------------------------------- *)
(* (T2) the wrapper _ray2d and the entry point ray2d (single end point)                       *)
(* ---------------------------------------------------------------------------------------- *)
Local Notation single fuel := (u_ray2d_v fuel z x zgrad xgrad zend xend zsrc xsrc stepsize M hg).
Local Notation single' fuel :=
  (u_ray2d_v fuel z' x' zgrad xgrad (a + zend) (b + xend) (a + zsrc) (b + xsrc) stepsize M hg).

Theorem ray2d_translate fuel :
  match single fuel with
  | Ok (ray, c) =>
      (1 <= c < M)%Z /\ shape ray = [M; 2%Z] /\ length (dat ray) = (Z.to_nat M * 2)%nat /\
      single' fuel = Ok (shray o (c + 1) ray, c)
  | Raise e => single' fuel = Raise e
  | OutOfFuel => single' fuel = OutOfFuel
  end.
Proof.
  unfold u_ray2d_v. pose proof (ray2d_core_translate fuel) as Ht.
  destruct (core fuel) as [[ray c]|e|] eqn:Hc; cbn [rbind fst snd].
  - destruct Ht as (Sr & Lr & k & -> & Hk1 & Hk2). cbn [rbind fst snd].
    destruct (ray2d_core_count_range _ _ _ _ _ _ _ _ _ _ _ _ _ _ Hc) as [Hrange _].
    destruct (Z.eqb_spec c (-1)); [reflexivity|]. destruct (Z.eqb_spec c (-2)); [reflexivity|].
    rewrite Hk1 by lia. split; [lia|]. split; [exact Sr|]. split; [exact Lr|reflexivity].
  - rewrite Ht. reflexivity.
  - rewrite Ht. reflexivity.
Qed.

End Main2.

(* the polyline returned by ray2d for one end point: every vertex is translated by (a, b) *)
Theorem ray2d_1_translate (a b : R) (z x zgrad xgrad : arr R) (nz nx : Z) (p src : arr R) (stepsize : R)
        (M : Z) (hg : bool) (fuel : nat) :
  axis z nz -> axis x nx -> shape zgrad = [nz; nx] -> shape xgrad = [nz; nx] -> vec2 p -> vec2 src ->
  match ray2d_1 fuel z x zgrad xgrad p src stepsize M hg with
  | Ok r => ray2d_1 fuel (shift_axis a z) (shift_axis b x) zgrad xgrad (vsh [a; b] p) (vsh [a; b] src) stepsize M hg
            = Ok (addvec [a; b] r)
  | Raise e => ray2d_1 fuel (shift_axis a z) (shift_axis b x) zgrad xgrad (vsh [a; b] p) (vsh [a; b] src) stepsize M hg
               = Raise e
  | OutOfFuel => ray2d_1 fuel (shift_axis a z) (shift_axis b x) zgrad xgrad (vsh [a; b] p) (vsh [a; b] src) stepsize M hg
                 = OutOfFuel
  end.
Proof.
  intros Az Ax Sz Sx Hp Hs. unfold ray2d_1.
  destruct (get_vsh2 a b p Hp) as [-> ->]. destruct (get_vsh2 a b src Hs) as [-> ->].
  pose proof (ray2d_translate a b z x zgrad xgrad nz nx (get (nofZ 0) p [0]) (get (nofZ 0) p [1])
                (get (nofZ 0) src [0]) (get (nofZ 0) src [1]) stepsize M hg Az Ax Sz Sx fuel) as Ht.
  destruct (u_ray2d_v fuel z x zgrad xgrad _ _ _ _ stepsize M hg) as [[ray c]|e|]; cbn [rbind].
  - destruct Ht as (Hc & Sr & Lr & ->). cbn [rbind fst snd]. f_equal.
    apply (rev_prefix_shray [a; b] M c ray Sr Lr). lia.
  - rewrite Ht. reflexivity.
  - rewrite Ht. reflexivity.
Qed.

(* vertex i of the translated polyline *)
Corollary ray2d_1_translate_vertices (a b : R) (z x zgrad xgrad : arr R) (nz nx : Z) (p src : arr R)
          (stepsize : R) (M : Z) (hg : bool) (fuel : nat) (r : arr R) :
  axis z nz -> axis x nx -> shape zgrad = [nz; nx] -> shape xgrad = [nz; nx] -> vec2 p -> vec2 src ->
  ray2d_1 fuel z x zgrad xgrad p src stepsize M hg = Ok r ->
  exists r', ray2d_1 fuel (shift_axis a z) (shift_axis b x) zgrad xgrad (vsh [a; b] p) (vsh [a; b] src)
                     stepsize M hg = Ok r' /\ shape r' = shape r /\
    forall i, 0 <= i < dim r 0%nat ->
      get (nofZ 0) r' [i; 0] = (a + get (nofZ 0%Z) r [i; 0%Z])%R /\ get (nofZ 0) r' [i; 1] = (b + get (nofZ 0%Z) r [i; 1%Z])%R.
Proof.
  intros Az Ax Sz Sx Hp Hs Hr.
  pose proof (ray2d_1_translate a b z x zgrad xgrad nz nx p src stepsize M hg fuel Az Ax Sz Sx Hp Hs) as Ht.
  rewrite Hr in Ht. exists (addvec [a; b] r). split; [exact Ht|]. split; [reflexivity|].
  unfold ray2d_1 in Hr.
  pose proof (ray2d_translate a b z x zgrad xgrad nz nx (get (nofZ 0) p [0]) (get (nofZ 0) p [1])
                (get (nofZ 0) src [0]) (get (nofZ 0) src [1]) stepsize M hg Az Ax Sz Sx fuel) as Hw.
  destruct (u_ray2d_v fuel z x zgrad xgrad _ _ _ _ stepsize M hg) as [[ray c]|e|]; cbn [rbind fst snd] in Hr; try discriminate.
  injection Hr as <-. destruct Hw as (Hc & Sr & Lr & _).
  destruct (length_rev_prefix [a; b] M c ray Sr Lr ltac:(lia)) as [Sp Lp].
  rewrite (dim2_0 _ _ _ Sp). intros i Hi.
  split; [apply (get_addvec [a; b] (c + 1) i 0 _ Sp Lp)|apply (get_addvec [a; b] (c + 1) i 1 _ Sp Lp)]; simpl; lia.
Qed.

(* ========================================================================================== *)
(* 3D                                                                                          *)
(* ========================================================================================== *)
(* 7. the loop of _ray3d_core in modular form (any numeric type), equal to the generated one   *)
Section Spec3.
Context {T : Type} `{Num T}.
Variables (z x y zgrad xgrad ygrad : arr T) (zend xend yend zsrc xsrc ysrc stepsize : T) (M : Z).
Local Notation St := (@St2 T).

Definition tcond3 (s : St) : bool :=
  ngeb (Common.dist3d zsrc xsrc ysrc (get (nofZ 0) (s_pcur s) [0]) (get (nofZ 0) (s_pcur s) [1])
                      (get (nofZ 0) (s_pcur s) [2])) stepsize.
Definition g3z (p : arr T) : T := Interp3d.interp3d_1 z x y zgrad p nnan.
Definition g3x (p : arr T) : T := Interp3d.interp3d_1 z x y xgrad p nnan.
Definition g3y (p : arr T) : T := Interp3d.interp3d_1 z x y ygrad p nnan.
Definition g3n (p : arr T) : T := Common.norm3d (g3z p) (g3x p) (g3y p).
Definition ndelta3 (d p : arr T) : arr T :=
  set (set (set d [0] (nmul (nmul stepsize (g3z p)) (ndiv (nofZ 1) (g3n p))))
           [1] (nmul (nmul stepsize (g3x p)) (ndiv (nofZ 1) (g3n p))))
      [2] (nmul (nmul stepsize (g3y p)) (ndiv (nofZ 1) (g3n p))).
Definition clamp3 (p1 : arr T) : arr T :=
  let p2 := set p1 [0] (clamp z (get (nofZ 0) p1 [0])) in
  let p3 := set p2 [1] (clamp x (get (nofZ 0) p2 [1])) in
  set p3 [2] (clamp y (get (nofZ 0) p3 [2])).
Definition cells_lo3 (l p : arr T) : arr T :=
  set (set (set l [0] (cell_lo z (get (nofZ 0) p [0]))) [1] (cell_lo x (get (nofZ 0) p [1])))
      [2] (cell_lo y (get (nofZ 0) p [2])).
Definition cells_up3 (u p : arr T) : arr T :=
  set (set (set u [0] (cell_up z (get (nofZ 0) p [0]))) [1] (cell_up x (get (nofZ 0) p [1])))
      [2] (cell_up y (get (nofZ 0) p [2])).

Definition gbody3 (hg : bool) (s : St) : ctl St :=
  if btest M (nfree_max3 z x y stepsize) s then Brk s
  else if ngtb (g3n (s_pcur s)) (nofZ 0) then
    let d' := ndelta3 (s_delta s) (s_pcur s) in
    if hg then
      let fac := FteikCommon.shrink (s_pcur s) d' (s_lower s) (s_upper s) in
      let p3 := clamp3 (amap2 nsub (s_pcur s) (amap (fun e => nmul fac e) d')) in
      if nltb fac (nofZ 1) then
        let p4 := magnet 3 (s_lower s) (s_upper s) p3 in
        let s' := (s_count s + 1, d', cells_lo3 (s_lower s) p4, 0, p4,
                   set_sub (s_ray s) [s_count s] p4, cells_up3 (s_upper s) p4) in
        if (cidx z (get (nofZ 0) p4 [0]) =? cidx z zsrc) && (cidx x (get (nofZ 0) p4 [1]) =? cidx x xsrc) &&
           (cidx y (get (nofZ 0) p4 [2]) =? cidx y ysrc)
        then Brk s' else Next s'
      else Next (s_count s, d', s_lower s, s_nfree s + 1, p3, s_ray s, s_upper s)
    else
      let p3 := clamp3 (amap2 nsub (s_pcur s) d') in
      Next (s_count s + 1, d', s_lower s, s_nfree s, p3, set_sub (s_ray s) [s_count s] p3, s_upper s)
  else Brk s.

Definition ginit3 (hg : bool) : St :=
  (1, full [3] (nofZ 0),
   (if hg then of_list [cell_lo z zend; cell_lo x xend; cell_lo y yend] else mkarr [0] []), 0,
   of_list [zend; xend; yend], set_sub (full [M; 3] (nofZ 0)) [0] (of_list [zend; xend; yend]),
   (if hg then of_list [cell_up z zend; cell_up x xend; cell_up y yend] else mkarr [0] [])).

Lemma cond3_spec hg s :
  cond3 z x y zgrad xgrad ygrad zend xend yend zsrc xsrc ysrc stepsize hg s = tcond3 s.
Proof. destruct s as [[[[[[c d] l] n] p] r] u]. reflexivity. Qed.

Lemma init3_spec hg : init3 z x y zgrad xgrad ygrad zend xend yend zsrc xsrc ysrc stepsize hg M = ginit3 hg.
Proof. destruct hg; reflexivity. Qed.

Lemma body3_spec hg s :
  body3 z x y zgrad xgrad ygrad zend xend yend zsrc xsrc ysrc stepsize hg M s = gbody3 hg s.
Proof.
  destruct s as [[[[[[c d] l] n] p] r] u].
  destruct hg;
    cbv beta zeta iota delta [body3 loop3 fst snd u_ray3d_core_v_p1 gbody3 btest nfree_max3
                              s_count s_delta s_lower s_nfree s_pcur s_ray s_upper
                              g3n g3z g3x g3y ndelta3 clamp3 clamp cells_lo3 cells_up3 cell_lo cell_up cidx
                              magnet magnet1];
    reflexivity.
Qed.
End Spec3.

(* 8. 3D: one loop iteration commutes with the translation *)
Section Shift3.
Local Open Scope R_scope.
Variables (a b c : R) (z x y zgrad xgrad ygrad : arr R) (nz nx ny : Z).
Hypothesis Az : axis z nz.
Hypothesis Ax : axis x nx.
Hypothesis Ay : axis y ny.
Hypothesis Sz : shape zgrad = [nz; nx; ny].
Hypothesis Sx : shape xgrad = [nz; nx; ny].
Hypothesis Sy : shape ygrad = [nz; nx; ny].
Local Notation o := [a; b; c].
Local Notation z' := (shift_axis a z).
Local Notation x' := (shift_axis b x).
Local Notation y' := (shift_axis c y).
Local Notation r0 := (@nofZ R NumR 0%Z).

Lemma get_vsh3 p : vec3 p ->
  get r0 (vsh o p) [0%Z] = a + get r0 p [0%Z] /\ get r0 (vsh o p) [1%Z] = b + get r0 p [1%Z] /\
  get r0 (vsh o p) [2%Z] = c + get r0 p [2%Z].
Proof.
  intros [S L]. destruct p as [sh l]. simpl in S, L. subst sh.
  destruct l as [|p0 [|p1 [|p2 [|]]]]; try discriminate. repeat split; reflexivity.
Qed.

Lemma set_vsh3 p v : vec3 p ->
  set (vsh o p) [0%Z] (a + v) = vsh o (set p [0%Z] v) /\ set (vsh o p) [1%Z] (b + v) = vsh o (set p [1%Z] v) /\
  set (vsh o p) [2%Z] (c + v) = vsh o (set p [2%Z] v).
Proof.
  intros [S L]. destruct p as [sh l]. simpl in S, L. subst sh.
  destruct l as [|p0 [|p1 [|p2 [|]]]]; try discriminate. repeat split; reflexivity.
Qed.

Lemma vec3_vsh p : vec3 p -> vec3 (vsh o p).
Proof.
  intros [S L]. split; [exact S|]. unfold vsh. cbn [dat]. rewrite zipw_length_min, L. reflexivity.
Qed.

Lemma amap2_sub_vsh3 p q : vec3 p -> amap2 (@nsub R NumR) (vsh o p) q = vsh o (amap2 (@nsub R NumR) p q).
Proof.
  intros [S L]. unfold amap2, vsh. cbn [shape dat nsub NumR]. f_equal. apply zipw_sub_plus. rewrite L. reflexivity.
Qed.

Lemma interp3_shift g p : shape g = [nz; nx; ny] -> vec3 p ->
  Interp3d.interp3d_1 z' x' y' g (vsh o p) nnan = Interp3d.interp3d_1 z x y g p nnan.
Proof.
  intros Sg Hp. unfold Interp3d.interp3d_1. destruct (get_vsh3 p Hp) as (-> & -> & ->).
  apply (interp3d_translate a b c z x y g nz nx ny); assumption.
Qed.

Lemma g3n_shift p : vec3 p -> g3n z' x' y' zgrad xgrad ygrad (vsh o p) = g3n z x y zgrad xgrad ygrad p.
Proof. intros Hp. unfold g3n, g3z, g3x, g3y. rewrite !interp3_shift by assumption. reflexivity. Qed.

Lemma ndelta3_shift s d p : vec3 p ->
  ndelta3 z' x' y' zgrad xgrad ygrad s d (vsh o p) = ndelta3 z x y zgrad xgrad ygrad s d p.
Proof.
  intros Hp. unfold ndelta3. rewrite g3n_shift by exact Hp. unfold g3z, g3x, g3y.
  rewrite !interp3_shift by assumption. reflexivity.
Qed.

Lemma len3_ndelta3 s d p : length (dat d) = 3%nat -> length (dat (ndelta3 z x y zgrad xgrad ygrad s d p)) = 3%nat.
Proof. intros Hd. unfold ndelta3. apply len3_set, len3_set, len3_set, Hd. Qed.

Lemma clamp3_shift p1 : vec3 p1 -> clamp3 z' x' y' (vsh o p1) = vsh o (clamp3 z x y p1).
Proof.
  intros Hp. unfold clamp3. cbv zeta.
  destruct (get_vsh3 p1 Hp) as (G0 & _ & _). rewrite G0, (clamp_shift a z nz Az).
  destruct (set_vsh3 p1 (clamp z (get r0 p1 [0%Z])) Hp) as (-> & _ & _).
  set (p2 := set p1 [0%Z] (clamp z (get r0 p1 [0%Z]))).
  assert (Hp2 : vec3 p2) by (apply vec3_set; exact Hp).
  destruct (get_vsh3 p2 Hp2) as (_ & G1 & _). rewrite G1, (clamp_shift b x nx Ax).
  destruct (set_vsh3 p2 (clamp x (get r0 p2 [1%Z])) Hp2) as (_ & -> & _).
  set (p3 := set p2 [1%Z] (clamp x (get r0 p2 [1%Z]))).
  assert (Hp3 : vec3 p3) by (apply vec3_set; exact Hp2).
  destruct (get_vsh3 p3 Hp3) as (_ & _ & G2). rewrite G2, (clamp_shift c y ny Ay).
  destruct (set_vsh3 p3 (clamp y (get r0 p3 [2%Z])) Hp3) as (_ & _ & ->). reflexivity.
Qed.

Lemma vec3_clamp3 (u v w p1 : arr R) : vec3 p1 -> vec3 (clamp3 u v w p1).
Proof. intros Hp. unfold clamp3. cbv zeta. apply vec3_set, vec3_set, vec3_set, Hp. Qed.

Lemma vec3_magnet1 (l u p : arr R) ix : vec3 p -> vec3 (magnet1 l u ix p).
Proof.
  intros Hp. unfold magnet1.
  repeat (match goal with |- context [if ?c then _ else _] => destruct c end); try apply vec3_set; exact Hp.
Qed.

Lemma magnet1_shift3 l u p ix : vec3 l -> vec3 u -> vec3 p -> (ix = 0 \/ ix = 1 \/ ix = 2)%Z ->
  magnet1 (vsh o l) (vsh o u) ix (vsh o p) = vsh o (magnet1 l u ix p).
Proof.
  intros Hl Hu Hp Hix. unfold magnet1.
  destruct (get_vsh3 p Hp) as (P0 & P1 & P2). destruct (get_vsh3 l Hl) as (L0 & L1 & L2).
  destruct (get_vsh3 u Hu) as (U0 & U1 & U2).
  destruct (set_vsh3 p (get r0 l [0%Z]) Hp) as (SL0 & _ & _). destruct (set_vsh3 p (get r0 l [1%Z]) Hp) as (_ & SL1 & _).
  destruct (set_vsh3 p (get r0 l [2%Z]) Hp) as (_ & _ & SL2).
  destruct (set_vsh3 p (get r0 u [0%Z]) Hp) as (SU0 & _ & _). destruct (set_vsh3 p (get r0 u [1%Z]) Hp) as (_ & SU1 & _).
  destruct (set_vsh3 p (get r0 u [2%Z]) Hp) as (_ & _ & SU2).
  destruct Hix as [-> | [-> | ->]].
  - rewrite P0, L0, U0. cbn [nsub NumR].
    replace (a + get r0 p [0%Z] - (a + get r0 l [0%Z])) with (get r0 p [0%Z] - get r0 l [0%Z]) by ring.
    replace (a + get r0 p [0%Z] - (a + get r0 u [0%Z])) with (get r0 p [0%Z] - get r0 u [0%Z]) by ring.
    destruct (nltb _ _); [exact SL0|]. destruct (nltb _ _); [exact SU0|reflexivity].
  - rewrite P1, L1, U1. cbn [nsub NumR].
    replace (b + get r0 p [1%Z] - (b + get r0 l [1%Z])) with (get r0 p [1%Z] - get r0 l [1%Z]) by ring.
    replace (b + get r0 p [1%Z] - (b + get r0 u [1%Z])) with (get r0 p [1%Z] - get r0 u [1%Z]) by ring.
    destruct (nltb _ _); [exact SL1|]. destruct (nltb _ _); [exact SU1|reflexivity].
  - rewrite P2, L2, U2. cbn [nsub NumR].
    replace (c + get r0 p [2%Z] - (c + get r0 l [2%Z])) with (get r0 p [2%Z] - get r0 l [2%Z]) by ring.
    replace (c + get r0 p [2%Z] - (c + get r0 u [2%Z])) with (get r0 p [2%Z] - get r0 u [2%Z]) by ring.
    destruct (nltb _ _); [exact SL2|]. destruct (nltb _ _); [exact SU2|reflexivity].
Qed.

Lemma magnet_shift3 l u p : vec3 l -> vec3 u -> vec3 p ->
  magnet 3 (vsh o l) (vsh o u) (vsh o p) = vsh o (magnet 3 l u p) /\ vec3 (magnet 3 l u p).
Proof.
  intros Hl Hu Hp. unfold magnet. change (pyrange 0 3 1) with [0%Z; 1%Z; 2%Z]. unfold for_list. cbn [fold_left].
  pose proof (vec3_magnet1 l u p 0 Hp) as H1. pose proof (vec3_magnet1 l u _ 1 H1) as H2.
  split; [|apply vec3_magnet1; exact H2].
  rewrite (magnet1_shift3 l u p 0) by auto. rewrite (magnet1_shift3 l u _ 1) by auto.
  apply magnet1_shift3; auto.
Qed.

Lemma cells_lo3_shift l p : vec3 l -> vec3 p ->
  cells_lo3 z' x' y' (vsh o l) (vsh o p) = vsh o (cells_lo3 z x y l p).
Proof.
  intros Hl Hp. unfold cells_lo3. destruct (get_vsh3 p Hp) as (-> & -> & ->).
  rewrite (cell_lo_shift a z nz Az), (cell_lo_shift b x nx Ax), (cell_lo_shift c y ny Ay).
  destruct (set_vsh3 l (cell_lo z (get r0 p [0%Z])) Hl) as (-> & _ & _).
  destruct (set_vsh3 _ (cell_lo x (get r0 p [1%Z])) (vec3_set _ [0%Z] (cell_lo z (get r0 p [0%Z])) Hl)) as (_ & -> & _).
  apply (set_vsh3 _ _ (vec3_set _ _ _ (vec3_set _ _ _ Hl))).
Qed.
Lemma cells_up3_shift u p : vec3 u -> vec3 p ->
  cells_up3 z' x' y' (vsh o u) (vsh o p) = vsh o (cells_up3 z x y u p).
Proof.
  intros Hu Hp. unfold cells_up3. destruct (get_vsh3 p Hp) as (-> & -> & ->).
  rewrite (cell_up_shift a z nz Az), (cell_up_shift b x nx Ax), (cell_up_shift c y ny Ay).
  destruct (set_vsh3 u (cell_up z (get r0 p [0%Z])) Hu) as (-> & _ & _).
  destruct (set_vsh3 _ (cell_up x (get r0 p [1%Z])) (vec3_set _ [0%Z] (cell_up z (get r0 p [0%Z])) Hu)) as (_ & -> & _).
  apply (set_vsh3 _ _ (vec3_set _ _ _ (vec3_set _ _ _ Hu))).
Qed.

Lemma nfree_max3_shift s : nfree_max3 z' x' y' s = nfree_max3 z x y s.
Proof.
  pose proof (axis_n _ _ Az). pose proof (axis_n _ _ Ax). pose proof (axis_n _ _ Ay).
  unfold nfree_max3. rewrite !shift_dim, (axis_dim _ _ Az), (axis_dim _ _ Ax), (axis_dim _ _ Ay). cbn [nofZ NumR].
  rewrite (shift_get_le a z nz Az 0), (shift_get_le a z nz Az (nz - 1)),
          (shift_get_le b x nx Ax 0), (shift_get_le b x nx Ax (nx - 1)),
          (shift_get_le c y ny Ay 0), (shift_get_le c y ny Ay (ny - 1)) by lia.
  rewrite dist3d_shift. reflexivity.
Qed.
End Shift3.

Section Body3.
Local Open Scope R_scope.
Variables (a b c : R) (z x y zgrad xgrad ygrad : arr R) (nz nx ny : Z) (zsrc xsrc ysrc stepsize : R) (M : Z).
Hypothesis Az : axis z nz.
Hypothesis Ax : axis x nx.
Hypothesis Ay : axis y ny.
Hypothesis Sz : shape zgrad = [nz; nx; ny].
Hypothesis Sx : shape xgrad = [nz; nx; ny].
Hypothesis Sy : shape ygrad = [nz; nx; ny].
Local Notation o := [a; b; c].
Local Notation z' := (shift_axis a z).
Local Notation x' := (shift_axis b x).
Local Notation y' := (shift_axis c y).
Local Notation r0 := (@nofZ R NumR 0%Z).
Local Notation St := (@St2 R).

Lemma tcond3_shift (s : St) : vec3 (s_pcur s) ->
  tcond3 (a + zsrc) (b + xsrc) (c + ysrc) stepsize (SH o s) = tcond3 zsrc xsrc ysrc stepsize s.
Proof.
  intros Hp. unfold tcond3, SH. cbn [s_pcur fst snd].
  destruct (get_vsh3 a b c _ Hp) as (-> & -> & ->). rewrite dist3d_shift. reflexivity.
Qed.

Lemma gbody3_shift hg (s : St) : InvS3 hg s -> RInv 3 M s ->
  gbody3 z' x' y' zgrad xgrad ygrad (a + zsrc) (b + xsrc) (c + ysrc) stepsize M hg (SH o s) =
  cmap (SH o) (gbody3 z x y zgrad xgrad ygrad zsrc xsrc ysrc stepsize M hg s).
Proof.
  intros (Hp & Hd & Hlu) (Hc & Sr & Lr).
  destruct s as [[[[[[k d] l] n] p] r] u]. cbn [s_count s_delta s_lower s_nfree s_pcur s_ray s_upper fst snd] in *.
  unfold gbody3, SH, btest. cbn [s_count s_delta s_lower s_nfree s_pcur s_ray s_upper fst snd].
  rewrite (nfree_max3_shift a b c z x y nz nx ny Az Ax Ay).
  destruct ((M <=? k)%Z || (nfree_max3 z x y stepsize <? n)%Z) eqn:Eb; [reflexivity|].
  apply orb_false_elim in Eb. destruct Eb as [Eb _]. apply Z.leb_gt in Eb.
  rewrite (g3n_shift a b c z x y zgrad xgrad ygrad nz nx ny Az Ax Ay Sz Sx Sy p Hp).
  destruct (ngtb (g3n z x y zgrad xgrad ygrad p) r0); [|reflexivity].
  rewrite (ndelta3_shift a b c z x y zgrad xgrad ygrad nz nx ny Az Ax Ay Sz Sx Sy stepsize d p Hp).
  pose proof (len3_ndelta3 z x y zgrad xgrad ygrad stepsize d p Hd) as Hd'.
  set (d' := ndelta3 z x y zgrad xgrad ygrad stepsize d p) in *. clearbody d'.
  destruct hg.
  - destruct (Hlu eq_refl) as [Hl Hu].
    rewrite shrink_vsh by (first [apply Hp|apply Hl|apply Hu|exact Hd']).
    set (fac := FteikCommon.shrink p d' l u). clearbody fac.
    rewrite (amap2_sub_vsh3 a b c p _ Hp).
    assert (Hp1 : vec3 (amap2 (@nsub R NumR) p (amap (fun e : R => nmul fac e) d'))).
    { apply vec3_amap2; [exact Hp|apply len3_amap; exact Hd']. }
    rewrite (clamp3_shift a b c z x y nz nx ny Az Ax Ay _ Hp1).
    pose proof (vec3_clamp3 z x y _ Hp1) as Hp3.
    set (p3 := clamp3 z x y (amap2 (@nsub R NumR) p (amap (fun e : R => nmul fac e) d'))) in *. clearbody p3.
    destruct (nltb fac (nofZ 1)); [|reflexivity].
    destruct (magnet_shift3 a b c l u p3 Hl Hu Hp3) as [Em Hp4]. rewrite Em.
    set (p4 := magnet 3 l u p3) in *. clearbody p4.
    destruct (get_vsh3 a b c p4 Hp4) as (-> & -> & ->).
    rewrite !(cidx_shift a z), !(cidx_shift b x), !(cidx_shift c y).
    rewrite (cells_lo3_shift a b c z x y nz nx ny Az Ax Ay l p4 Hl Hp4),
            (cells_up3_shift a b c z x y nz nx ny Az Ax Ay u p4 Hu Hp4).
    rewrite (set_sub_shray o M k r p4 Sr Lr Hc (or_introl Eb) (proj2 Hp4)).
    destruct (_ && _); reflexivity.
  - rewrite (amap2_sub_vsh3 a b c p _ Hp).
    assert (Hp1 : vec3 (amap2 (@nsub R NumR) p d')) by (apply vec3_amap2; [exact Hp|exact Hd']).
    rewrite (clamp3_shift a b c z x y nz nx ny Az Ax Ay _ Hp1).
    pose proof (vec3_clamp3 z x y _ Hp1) as Hp3.
    set (p3 := clamp3 z x y (amap2 (@nsub R NumR) p d')) in *. clearbody p3.
    rewrite (set_sub_shray o M k r p3 Sr Lr Hc (or_introl Eb) (proj2 Hp3)).
    reflexivity.
Qed.
End Body3.

Section Inv3.
Variables (z x y zgrad xgrad ygrad : arr R) (zsrc xsrc ysrc stepsize : R) (M : Z).
Local Notation St := (@St2 R).

Lemma gbody3_inv hg (s s' : St) : InvS3 hg s -> RInv 3 M s ->
  (gbody3 z x y zgrad xgrad ygrad zsrc xsrc ysrc stepsize M hg s = Next s' \/
   gbody3 z x y zgrad xgrad ygrad zsrc xsrc ysrc stepsize M hg s = Brk s') ->
  InvS3 hg s' /\ RInv 3 M s'.
Proof.
  intros Hi Hr. pose proof Hi as (Hp & Hd & Hlu). pose proof Hr as (Hc & _).
  destruct s as [[[[[[c d] l] n] p] r] u]. cbn [s_count s_delta s_lower s_nfree s_pcur s_ray s_upper fst snd] in *.
  unfold gbody3. cbn [s_count s_delta s_lower s_nfree s_pcur s_ray s_upper fst snd].
  destruct (btest _ _ _); [intros [E|E]; [discriminate|injection E as <-; split; assumption]|].
  destruct (ngtb _ _); [|intros [E|E]; [discriminate|injection E as <-; split; assumption]].
  pose proof (len3_ndelta3 z x y zgrad xgrad ygrad stepsize d p Hd) as Hd'.
  set (d' := ndelta3 z x y zgrad xgrad ygrad stepsize d p) in *. clearbody d'.
  destruct hg.
  - destruct (Hlu eq_refl) as [Hl Hu].
    set (fac := FteikCommon.shrink p d' l u). clearbody fac.
    assert (Hp3 : vec3 (clamp3 z x y (amap2 (@nsub R NumR) p (amap (fun e : R => nmul fac e) d')))).
    { apply vec3_clamp3, vec3_amap2; [exact Hp|apply len3_amap; exact Hd']. }
    set (p3 := clamp3 z x y _) in *. clearbody p3.
    destruct (nltb fac _).
    + assert (Hp4 : vec3 (magnet 3 l u p3)).
      { unfold magnet. apply vec3_for_list; [|exact Hp3]. intros ix q Hq. apply vec3_magnet1. exact Hq. }
      set (p4 := magnet 3 l u p3) in *. clearbody p4.
      assert (G : forall s0 : St, s0 = (c + 1, d', cells_lo3 z x y l p4, 0, p4, set_sub r [c] p4, cells_up3 z x y u p4) ->
                  InvS3 true s0 /\ RInv 3 M s0).
      { intros s0 ->. split.
        - split; [exact Hp4|]. split; [exact Hd'|]. intros _.
          split; [apply vec3_set, vec3_set, vec3_set, Hl|apply vec3_set, vec3_set, vec3_set, Hu].
        - eapply RInv_store; [exact Hr|lia]. }
      destruct (_ && _); intros [E|E]; try discriminate; injection E as <-; apply G; reflexivity.
    + intros [E|E]; [|discriminate]. injection E as <-. split.
      * split; [exact Hp3|]. split; [exact Hd'|]. intros _. split; assumption.
      * eapply RInv_keep; [exact Hr|lia].
  - assert (Hp3 : vec3 (clamp3 z x y (amap2 (@nsub R NumR) p d'))).
    { apply vec3_clamp3, vec3_amap2; [exact Hp|exact Hd']. }
    set (p3 := clamp3 z x y _) in *. clearbody p3.
    intros [E|E]; [|discriminate]. injection E as <-. split.
    + split; [exact Hp3|]. split; [exact Hd'|]. intros; discriminate.
    + eapply RInv_store; [exact Hr|lia].
Qed.
End Inv3.

(* ------------------------------------------------------------------------------------------ *)
(* 9. (T3) the 3D core, (T4) the wrapper _ray3d and the entry point ray3d                       *)
(* ------------------------------------------------------------------------------------------ *)
Section Main3.
Local Open Scope R_scope.
Variables (a b c : R) (z x y zgrad xgrad ygrad : arr R) (nz nx ny : Z)
          (zend xend yend zsrc xsrc ysrc stepsize : R) (M : Z) (hg : bool).
Hypothesis Az : axis z nz.
Hypothesis Ax : axis x nx.
Hypothesis Ay : axis y ny.
Hypothesis Sz : shape zgrad = [nz; nx; ny].
Hypothesis Sx : shape xgrad = [nz; nx; ny].
Hypothesis Sy : shape ygrad = [nz; nx; ny].
Local Notation o := [a; b; c].
Local Notation z' := (shift_axis a z).
Local Notation x' := (shift_axis b x).
Local Notation y' := (shift_axis c y).
Local Notation r0 := (@nofZ R NumR 0%Z).
Local Notation St := (@St2 R).
Local Notation core fuel :=
  (u_ray3d_core_v fuel z x y zgrad xgrad ygrad zend xend yend zsrc xsrc ysrc stepsize M hg).
Local Notation core' fuel :=
  (u_ray3d_core_v fuel z' x' y' zgrad xgrad ygrad (a + zend) (b + xend) (c + yend)
                  (a + zsrc) (b + xsrc) (c + ysrc) stepsize M hg).

Lemma hull3_shift : hull3 z' x' y' (a + zend) (b + xend) (c + yend) = hull3 z x y zend xend yend.
Proof.
  change (hull3 z' x' y' (a + zend) (b + xend) (c + yend))
    with (inhullb z' (a + zend) && inhullb x' (b + xend) && inhullb y' (c + yend))%bool.
  rewrite (inhullb_shift a z nz zend Az), (inhullb_shift b x nx xend Ax), (inhullb_shift c y ny yend Ay).
  reflexivity.
Qed.

Lemma ginit3_shift :
  ginit3 z' x' y' (a + zend) (b + xend) (c + yend) M hg = SH o (ginit3 z x y zend xend yend M hg).
Proof.
  unfold ginit3, SH. cbn [s_count s_delta s_lower s_nfree s_pcur s_ray s_upper fst snd].
  rewrite (cell_lo_shift a z nz Az), (cell_lo_shift b x nx Ax), (cell_lo_shift c y ny Ay),
          (cell_up_shift a z nz Az), (cell_up_shift b x nx Ax), (cell_up_shift c y ny Ay).
  assert (Er : set_sub (full [M; 3%Z] r0) [0%Z] (of_list [a + zend; b + xend; c + yend]) =
               shray o 1 (set_sub (full [M; 3%Z] r0) [0%Z] (of_list [zend; xend; yend]))).
  { change (of_list [a + zend; b + xend; c + yend]) with (vsh o (of_list [zend; xend; yend])).
    rewrite <- (shray_0 o (full [M; 3%Z] r0)) at 1.
    apply (set_sub_shray o M 0); [reflexivity|apply (length_full2 M 3); lia|lia|lia|reflexivity]. }
  rewrite Er. destruct hg; reflexivity.
Qed.

Lemma ginit3_inv : InvS3 hg (ginit3 z x y zend xend yend M hg) /\ RInv 3 M (ginit3 z x y zend xend yend M hg).
Proof.
  split.
  - split; [apply vec3_of_list|]. split; [reflexivity|]. intros ->. split; apply vec3_of_list.
  - apply (RInv_full 3 M (of_list [zend; xend; yend]) 1); [lia|reflexivity|reflexivity].
Qed.

Lemma loop3_shift fuel :
  while_fuel fuel (tcond3 (a + zsrc) (b + xsrc) (c + ysrc) stepsize)
             (gbody3 z' x' y' zgrad xgrad ygrad (a + zsrc) (b + xsrc) (c + ysrc) stepsize M hg)
             (SH o (ginit3 z x y zend xend yend M hg)) =
  rmap (SH o) (while_fuel fuel (tcond3 zsrc xsrc ysrc stepsize)
                          (gbody3 z x y zgrad xgrad ygrad zsrc xsrc ysrc stepsize M hg)
                          (ginit3 z x y zend xend yend M hg)) /\
  (forall s1, while_fuel fuel (tcond3 zsrc xsrc ysrc stepsize)
                         (gbody3 z x y zgrad xgrad ygrad zsrc xsrc ysrc stepsize M hg)
                         (ginit3 z x y zend xend yend M hg) = Ok s1 -> InvS3 hg s1 /\ RInv 3 M s1).
Proof.
  apply (while_fuel_commute (SH o) (fun s => InvS3 hg s /\ RInv 3 M s)).
  - intros s [Hi _]. apply tcond3_shift. apply Hi.
  - intros s [Hi Hr] _.
    apply (gbody3_shift a b c z x y zgrad xgrad ygrad nz nx ny zsrc xsrc ysrc stepsize M Az Ax Ay Sz Sx Sy hg s Hi Hr).
  - intros s s' [Hi Hr] _ E. exact (gbody3_inv z x y zgrad xgrad ygrad zsrc xsrc ysrc stepsize M hg s s' Hi Hr E).
  - exact ginit3_inv.
Qed.

Lemma core3_modular (zz xx yy : arr R) (ze xe ye zs xs ys : R) fuel : hull3 zz xx yy ze xe ye = true ->
  u_ray3d_core_v fuel zz xx yy zgrad xgrad ygrad ze xe ye zs xs ys stepsize M hg =
  rbind (while_fuel fuel (tcond3 zs xs ys stepsize) (gbody3 zz xx yy zgrad xgrad ygrad zs xs ys stepsize M hg)
                    (ginit3 zz xx yy ze xe ye M hg))
        (finG (nfree_max3 zz xx yy stepsize) (of_list [zs; xs; ys]) M).
Proof.
  intros Hh. rewrite (core3_eq zz xx yy zgrad xgrad ygrad ze xe ye zs xs ys stepsize hg M fuel Hh). unfold run.
  rewrite (init3_spec zz xx yy zgrad xgrad ygrad ze xe ye zs xs ys stepsize M hg).
  rewrite (while_fuel_ext' _ (tcond3 zs xs ys stepsize) _ (gbody3 zz xx yy zgrad xgrad ygrad zs xs ys stepsize M hg)
             (cond3_spec zz xx yy zgrad xgrad ygrad ze xe ye zs xs ys stepsize hg)
             (body3_spec zz xx yy zgrad xgrad ygrad ze xe ye zs xs ys stepsize M hg)).
  reflexivity.
Qed.

Theorem ray3d_core_translate fuel :
  match core fuel with
  | Ok (ray, k) =>
      shape ray = [M; 3%Z] /\ length (dat ray) = (Z.to_nat M * 3)%nat /\
      exists m, core' fuel = Ok (shray o m ray, k) /\ ((0 <= k)%Z -> m = (k + 1)%Z) /\ (k = (-1)%Z -> m = 0%Z)
  | Raise e => core' fuel = Raise e
  | OutOfFuel => core' fuel = OutOfFuel
  end.
Proof.
  destruct (hull3 z x y zend xend yend) eqn:Hh.
  - pose proof Hh as Hh'. rewrite <- hull3_shift in Hh'.
    rewrite (core3_modular z x y zend xend yend zsrc xsrc ysrc fuel Hh), (core3_modular z' x' y' _ _ _ _ _ _ fuel Hh').
    rewrite ginit3_shift. destruct (loop3_shift fuel) as [-> Hfin].
    destruct (while_fuel fuel _ _ (ginit3 z x y zend xend yend M hg)) as [s1| |] eqn:Ew; cbn [rmap rbind]; try reflexivity.
    destruct (Hfin s1 eq_refl) as [Hi (Hc & Sr & Lr)].
    unfold finG. rewrite (nfree_max3_shift a b c z x y nz nx ny Az Ax Ay).
    destruct s1 as [[[[[[k d] l] n] p] r] u]. unfold SH, btest.
    cbn [s_count s_delta s_lower s_nfree s_pcur s_ray s_upper fst snd] in *.
    destruct ((M <=? k)%Z || (nfree_max3 z x y stepsize <? n)%Z) eqn:Eb.
    + split; [exact Sr|]. split; [exact Lr|]. exists k. split; [reflexivity|]. split; intros; lia.
    + apply orb_false_elim in Eb. destruct Eb as [Eb _]. apply Z.leb_gt in Eb.
      split; [exact Sr|]. split; [cbn [set_sub dat]; rewrite upd_block_length; exact Lr|].
      exists (k + 1)%Z. split; [|split; intros; lia].
      change (of_list [a + zsrc; b + xsrc; c + ysrc]) with (vsh o (of_list [zsrc; xsrc; ysrc])).
      rewrite (set_sub_shray o M k r (of_list [zsrc; xsrc; ysrc]) Sr Lr Hc (or_introl Eb) eq_refl). reflexivity.
  - pose proof Hh as Hh'. rewrite <- hull3_shift in Hh'.
    rewrite (ray3d_core_outside z x y zgrad xgrad ygrad zend xend yend zsrc xsrc ysrc stepsize M hg Hh fuel).
    rewrite (ray3d_core_outside z' x' y' zgrad xgrad ygrad _ _ _ _ _ _ stepsize M hg Hh' fuel).
    split; [reflexivity|]. split; [apply (length_full2 M 3); lia|].
    exists 0%Z. rewrite shray_0. split; [reflexivity|]. split; intros; lia.
Qed.

Corollary ray3d_core_translate_rows fuel ray k : core fuel = Ok (ray, k) ->
  exists ray', core' fuel = Ok (ray', k) /\ shape ray' = shape ray /\ length (dat ray') = length (dat ray) /\
    (forall i j, (0 <= i <= k)%Z -> (0 <= j < 3)%Z ->
       get 0 ray' [i; j] = nth (Z.to_nat j) o 0 + get 0 ray [i; j]) /\
    ((-1 <= k)%Z -> forall i j, (k < i < M)%Z -> (0 <= j < 3)%Z -> get 0 ray' [i; j] = get 0 ray [i; j]).
Proof.
  intros Hc. pose proof (ray3d_core_translate fuel) as Ht. rewrite Hc in Ht.
  destruct Ht as (Sr & Lr & m & Hc' & Hk1 & Hk2).
  destruct (ray3d_core_count_range _ _ _ _ _ _ _ _ _ _ _ _ _ _ _ _ _ _ Hc) as [Hrange _].
  exists (shray o m ray). split; [exact Hc'|]. split; [reflexivity|]. split; [apply length_shray|]. split.
  - intros i j Hi Hj. rewrite (get_shray o M m i j ray Sr Lr) by (simpl; lia).
    rewrite Hk1 by lia. destruct (Z.ltb_spec i (k + 1)); [reflexivity|lia].
  - intros Hge i j Hi Hj. rewrite (get_shray o M m i j ray Sr Lr) by (simpl; lia).
    assert (Ek : m = (k + 1)%Z) by (destruct (Z.eq_dec k (-1)) as [->|]; [apply Hk2; reflexivity|apply Hk1; lia]).
    rewrite Ek. destruct (Z.ltb_spec i (k + 1)); [lia|ring].
Qed.
Corollary ray3d_core_translate_fuel fuel : core fuel = OutOfFuel <-> core' fuel = OutOfFuel.
Proof.
  pose proof (ray3d_core_translate fuel) as Ht. destruct (core fuel) as [[ray k]|e|].
  - destruct Ht as (_ & _ & m & -> & _). split; discriminate.
  - rewrite Ht. split; discriminate.
  - rewrite Ht. split; reflexivity.
Qed.

Local Notation single fuel :=
  (u_ray3d_v fuel z x y zgrad xgrad ygrad zend xend yend zsrc xsrc ysrc stepsize M hg).
Local Notation single' fuel :=
  (u_ray3d_v fuel z' x' y' zgrad xgrad ygrad (a + zend) (b + xend) (c + yend)
             (a + zsrc) (b + xsrc) (c + ysrc) stepsize M hg).

Theorem ray3d_translate fuel :
  match single fuel with
  | Ok (ray, k) =>
      (1 <= k < M)%Z /\ shape ray = [M; 3%Z] /\ length (dat ray) = (Z.to_nat M * 3)%nat /\
      single' fuel = Ok (shray o (k + 1) ray, k)
  | Raise e => single' fuel = Raise e
  | OutOfFuel => single' fuel = OutOfFuel
  end.
Proof.
  unfold u_ray3d_v. pose proof (ray3d_core_translate fuel) as Ht.
  destruct (core fuel) as [[ray k]|e|] eqn:Hc; cbn [rbind fst snd].
  - destruct Ht as (Sr & Lr & m & -> & Hk1 & Hk2). cbn [rbind fst snd].
    destruct (ray3d_core_count_range _ _ _ _ _ _ _ _ _ _ _ _ _ _ _ _ _ _ Hc) as [Hrange _].
    destruct (Z.eqb_spec k (-1)); [reflexivity|]. destruct (Z.eqb_spec k (-2)); [reflexivity|].
    rewrite Hk1 by lia. split; [lia|]. split; [exact Sr|]. split; [exact Lr|reflexivity].
  - rewrite Ht. reflexivity.
  - rewrite Ht. reflexivity.
Qed.
End Main3.

Theorem ray3d_1_translate (a b c : R) (z x y zgrad xgrad ygrad : arr R) (nz nx ny : Z) (p src : arr R)
        (stepsize : R) (M : Z) (hg : bool) (fuel : nat) :
  axis z nz -> axis x nx -> axis y ny ->
  shape zgrad = [nz; nx; ny] -> shape xgrad = [nz; nx; ny] -> shape ygrad = [nz; nx; ny] -> vec3 p -> vec3 src ->
  match ray3d_1 fuel z x y zgrad xgrad ygrad p src stepsize M hg with
  | Ok r => ray3d_1 fuel (shift_axis a z) (shift_axis b x) (shift_axis c y) zgrad xgrad ygrad
                    (vsh [a; b; c] p) (vsh [a; b; c] src) stepsize M hg = Ok (addvec [a; b; c] r)
  | Raise e => ray3d_1 fuel (shift_axis a z) (shift_axis b x) (shift_axis c y) zgrad xgrad ygrad
                       (vsh [a; b; c] p) (vsh [a; b; c] src) stepsize M hg = Raise e
  | OutOfFuel => ray3d_1 fuel (shift_axis a z) (shift_axis b x) (shift_axis c y) zgrad xgrad ygrad
                         (vsh [a; b; c] p) (vsh [a; b; c] src) stepsize M hg = OutOfFuel
  end.
Proof.
  intros Az Ax Ay Sz Sx Sy Hp Hs. unfold ray3d_1.
  destruct (get_vsh3 a b c p Hp) as (-> & -> & ->). destruct (get_vsh3 a b c src Hs) as (-> & -> & ->).
  pose proof (ray3d_translate a b c z x y zgrad xgrad ygrad nz nx ny
                (get (nofZ 0) p [0]) (get (nofZ 0) p [1]) (get (nofZ 0) p [2])
                (get (nofZ 0) src [0]) (get (nofZ 0) src [1]) (get (nofZ 0) src [2]) stepsize M hg
                Az Ax Ay Sz Sx Sy fuel) as Ht.
  destruct (u_ray3d_v fuel z x y zgrad xgrad ygrad _ _ _ _ _ _ stepsize M hg) as [[ray k]|e|]; cbn [rbind].
  - destruct Ht as (Hc & Sr & Lr & ->). cbn [rbind fst snd]. f_equal.
    apply (rev_prefix_shray [a; b; c] M k ray Sr Lr). lia.
  - rewrite Ht. reflexivity.
  - rewrite Ht. reflexivity.
Qed.

Corollary ray3d_1_translate_vertices (a b c : R) (z x y zgrad xgrad ygrad : arr R) (nz nx ny : Z) (p src : arr R)
          (stepsize : R) (M : Z) (hg : bool) (fuel : nat) (r : arr R) :
  axis z nz -> axis x nx -> axis y ny ->
  shape zgrad = [nz; nx; ny] -> shape xgrad = [nz; nx; ny] -> shape ygrad = [nz; nx; ny] -> vec3 p -> vec3 src ->
  ray3d_1 fuel z x y zgrad xgrad ygrad p src stepsize M hg = Ok r ->
  exists r', ray3d_1 fuel (shift_axis a z) (shift_axis b x) (shift_axis c y) zgrad xgrad ygrad
                     (vsh [a; b; c] p) (vsh [a; b; c] src) stepsize M hg = Ok r' /\ shape r' = shape r /\
    forall i, 0 <= i < dim r 0%nat ->
      get (nofZ 0) r' [i; 0] = (a + get (nofZ 0%Z) r [i; 0%Z])%R /\
      get (nofZ 0) r' [i; 1] = (b + get (nofZ 0%Z) r [i; 1%Z])%R /\
      get (nofZ 0) r' [i; 2] = (c + get (nofZ 0%Z) r [i; 2%Z])%R.
Proof.
  intros Az Ax Ay Sz Sx Sy Hp Hs Hr.
  pose proof (ray3d_1_translate a b c z x y zgrad xgrad ygrad nz nx ny p src stepsize M hg fuel
                Az Ax Ay Sz Sx Sy Hp Hs) as Ht.
  rewrite Hr in Ht. exists (addvec [a; b; c] r). split; [exact Ht|]. split; [reflexivity|].
  unfold ray3d_1 in Hr.
  pose proof (ray3d_translate a b c z x y zgrad xgrad ygrad nz nx ny
                (get (nofZ 0) p [0]) (get (nofZ 0) p [1]) (get (nofZ 0) p [2])
                (get (nofZ 0) src [0]) (get (nofZ 0) src [1]) (get (nofZ 0) src [2]) stepsize M hg
                Az Ax Ay Sz Sx Sy fuel) as Hw.
  destruct (u_ray3d_v fuel z x y zgrad xgrad ygrad _ _ _ _ _ _ stepsize M hg) as [[ray k]|e|];
    cbn [rbind fst snd] in Hr; try discriminate.
  injection Hr as <-. destruct Hw as (Hc & Sr & Lr & _).
  destruct (length_rev_prefix [a; b; c] M k ray Sr Lr ltac:(lia)) as [Sp Lp].
  rewrite (dim2_0 _ _ _ Sp). intros i Hi.
  split; [|split];
    [apply (get_addvec [a; b; c] (k + 1) i 0 _ Sp Lp)|apply (get_addvec [a; b; c] (k + 1) i 1 _ Sp Lp)
    |apply (get_addvec [a; b; c] (k + 1) i 2 _ Sp Lp)]; simpl; lia.
Qed.

(* ------------------------------------------------------------------------------------------ *)
(* 10. the hypotheses are satisfiable and the statements are not vacuous; the axes must not be  *)
(*     empty                                                                                    *)
(* ------------------------------------------------------------------------------------------ *)
Section Examples.
Local Open Scope R_scope.
(* a grid (RayStep.exz = [0,2,3], exx = [0,1], unit gradient along z) on which a ray with three
   vertices is returned: the run on the grid translated by ANY (a, b) returns the translated ray *)
Example ray2d_translate_nonvacuous (a b : R) :
  exists ray ray',
    u_ray2d_core_v 11 RayStep.exz RayStep.exx RayStep.exg1 RayStep.exg0 3 0 (3/2) 0 1 10%Z false = Ok (ray, 2%Z) /\
    u_ray2d_core_v 11 (shift_axis a RayStep.exz) (shift_axis b RayStep.exx) RayStep.exg1 RayStep.exg0
                   (a + 3) (b + 0) (a + 3/2) (b + 0) 1 10%Z false = Ok (ray', 2%Z) /\
    forall k, (0 <= k <= 2)%Z ->
      get 0 ray' [k; 0%Z] = a + get 0 ray [k; 0%Z] /\ get 0 ray' [k; 1%Z] = b + get 0 ray [k; 1%Z].
Proof.
  destruct RayStep.free_ray_three_vertices_2d as [ray H].
  destruct (ray2d_core_translate_rows a b RayStep.exz RayStep.exx RayStep.exg1 RayStep.exg0 3 2 3 0 (3/2) 0 1 10 false
              RayStep.exz_axis RayStep.exx_axis eq_refl eq_refl 11%nat ray 2 H) as (ray' & H' & _ & _ & Hrows & _).
  exists ray, ray'. split; [exact H|]. split; [exact H'|].
  intros k Hk. split; [apply (Hrows k 0%Z)|apply (Hrows k 1%Z)]; lia.
Qed.

Example ray3d_translate_nonvacuous (a b c : R) :
  exists ray ray',
    u_ray3d_core_v 11 RayStep.exz RayStep.exx RayStep.exx RayStep.exh1 RayStep.exh0 RayStep.exh0
                   3 0 0 (3/2) 0 0 1 10%Z false = Ok (ray, 2%Z) /\
    u_ray3d_core_v 11 (shift_axis a RayStep.exz) (shift_axis b RayStep.exx) (shift_axis c RayStep.exx)
                   RayStep.exh1 RayStep.exh0 RayStep.exh0
                   (a + 3) (b + 0) (c + 0) (a + 3/2) (b + 0) (c + 0) 1 10%Z false = Ok (ray', 2%Z) /\
    forall k, (0 <= k <= 2)%Z ->
      get 0 ray' [k; 0%Z] = a + get 0 ray [k; 0%Z] /\ get 0 ray' [k; 1%Z] = b + get 0 ray [k; 1%Z] /\
      get 0 ray' [k; 2%Z] = c + get 0 ray [k; 2%Z].
Proof.
  destruct RayStep.free_ray_three_vertices_3d as [ray H].
  destruct (ray3d_core_translate_rows a b c RayStep.exz RayStep.exx RayStep.exx RayStep.exh1 RayStep.exh0 RayStep.exh0
              3 2 2 3 0 0 (3/2) 0 0 1 10 false
              RayStep.exz_axis RayStep.exx_axis RayStep.exx_axis eq_refl eq_refl eq_refl 11%nat ray 2 H)
    as (ray' & H' & _ & _ & Hrows & _).
  exists ray, ray'. split; [exact H|]. split; [exact H'|].
  intros k Hk. split; [apply (Hrows k 0%Z)|split; [apply (Hrows k 1%Z)|apply (Hrows k 2%Z)]]; lia.
Qed.

(* the hypothesis on the axes cannot be dropped altogether: on an EMPTY z axis the model reads the
   default 0 for z[0] and z[-1], the hull test is 0 <= zend <= 0 whatever the translation, and the
   translated end point is rejected (count -1) although the original one is accepted *)
Example translate_needs_nonempty_axis (g : arr R) (M : Z) (hg : bool) (fuel : nat) :
  let z0 : arr R := mkarr [0%Z] [] in
  (forall ray, u_ray2d_core_v fuel z0 RayStep.exx g g 0 0 0 0 1 M hg <> Ok (ray, (-1)%Z)) /\
  u_ray2d_core_v fuel (shift_axis 1 z0) (shift_axis 0 RayStep.exx) g g (1 + 0) (0 + 0) (1 + 0) (0 + 0) 1 M hg
  = Ok (full [M; 2%Z] 0, (-1)%Z).
Proof.
  intros z0. split.
  - intros ray Hc.
    assert (Hh : hull2 z0 RayStep.exx 0 0 = true).
    { unfold hull2, z0, RayStep.exx, get, dim. cbn [shape dat nth flat flat_aux Z.to_nat nleb nofZ NumR].
      rewrite !(proj2 (Rleb_true _ _)) by (simpl; lra). reflexivity. }
    destruct (ray2d_raises_value_error_iff z0 RayStep.exx g g 0 0 0 0 1 M hg fuel) as [Ho|[Hv _]];
      unfold u_ray2d_v in *; rewrite Hc in *; cbn [rbind fst snd Z.eqb] in *; [discriminate|].
    specialize (Hv eq_refl). congruence.
  - assert (Hh : hull2 (shift_axis 1 z0) (shift_axis 0 RayStep.exx) (1 + 0) (0 + 0) = false).
    { unfold hull2, z0, RayStep.exx, shift_axis, amap, get, dim.
      simpl. assert (E : Rleb (1 + 0) 0 = false) by (apply Rleb_false; lra). rewrite E, andb_false_r. reflexivity. }
    exact (ray2d_core_outside (shift_axis 1 z0) (shift_axis 0 RayStep.exx) g g (1 + 0) (0 + 0) (1 + 0) (0 + 0) 1 M hg Hh fuel).
Qed.
End Examples.

Print Assumptions ray2d_core_translate.
Print Assumptions ray2d_core_translate_rows.
Print Assumptions ray2d_core_translate_fuel.
Print Assumptions ray2d_translate.
Print Assumptions ray2d_1_translate.
Print Assumptions ray2d_1_translate_vertices.
Print Assumptions ray3d_core_translate.
Print Assumptions ray3d_core_translate_rows.
Print Assumptions ray3d_core_translate_fuel.
Print Assumptions ray3d_translate.
Print Assumptions ray3d_1_translate.
Print Assumptions ray3d_1_translate_vertices.
Print Assumptions shrink_vsh.
Print Assumptions ray2d_translate_nonvacuous.
Print Assumptions ray3d_translate_nonvacuous.
Print Assumptions translate_needs_nonempty_axis.
