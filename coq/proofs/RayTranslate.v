(* Translation covariance of the a posteriori ray tracers (gen/Ray2d.v, gen/Ray3d.v; sources
   /repo/fteikpy/_fteik/_ray2d.py, _ray3d.py), exact real arithmetic T := R. *)
From Coq Require Import ZArith List Bool Reals Lra Lia.
From FT.lib Require Import Num Arr NumArr ArrLemmas.
From FT.gen Require Import Common Interp2d Interp3d FteikCommon Ray2d Ray3d.
From FT.proofs Require Import SSR InterpR Interp3R TranslateR Ray2dProofs Ray3dProofs RayBudget.
Import ListNotations.
Open Scope Z_scope.

(* ------------------------------------------------------------------------------------------ *)
(* 0. lists: adding a vector to a list, to the leading rows of a flat row-major buffer          *)
(* ------------------------------------------------------------------------------------------ *)
Section Lists.
Local Open Scope R_scope.
Implicit Types (o l : list R).

Lemma zipw_length_min {A B C} (f : A -> B -> C) : forall (xs : list A) (ys : list B),
  length (zipw f xs ys) = Nat.min (length xs) (length ys).
Proof. induction xs as [|a t IH]; intros [|b t2]; simpl; auto. Qed.

Lemma zipw_nil_r {A B C} (f : A -> B -> C) (xs : list A) : zipw f xs (@nil B) = [].
Proof. destruct xs; reflexivity. Qed.

Lemma nth_zipw_plus : forall o l (k : nat), (k < length o)%nat -> (k < length l)%nat ->
  nth k (zipw Rplus o l) 0 = nth k o 0 + nth k l 0.
Proof.
  induction o as [|a o IH]; intros [|e l] [|k] Ho Hl; simpl in *; try lia; auto.
  apply IH; lia.
Qed.

Lemma zipw_sub_plus : forall o l q, length o = length l ->
  zipw Rminus (zipw Rplus o l) q = zipw Rplus o (zipw Rminus l q).
Proof.
  induction o as [|a o IH]; intros [|e l] [|d q] E; simpl in *; try discriminate; auto.
  f_equal; [ring|]. apply IH. lia.
Qed.

Lemma zipw_cmp_plus (f : R -> R -> bool) : (forall c u v, f (c + u) (c + v) = f u v) ->
  forall o t l, length o = length t -> length o = length l ->
  zipw f (zipw Rplus o t) (zipw Rplus o l) = zipw f t l.
Proof.
  intros Hf. induction o as [|a o IH]; intros [|e t] [|d l] E1 E2; simpl in *; try discriminate; auto.
  rewrite Hf. f_equal. apply IH; lia.
Qed.

Lemma mask_plus_length : forall o l (mm : list bool), length o = length l ->
  length (mask_list (zipw Rplus o l) mm) = length (mask_list l mm).
Proof.
  induction o as [|a o IH]; intros [|e l] mm E; simpl in *; try discriminate; auto.
  destruct mm as [|[|] mt]; simpl; auto.
Qed.

Lemma mask_diff_plus : forall o p l (m : list bool), length o = length p -> length o = length l ->
  zipw Rminus (mask_list (zipw Rplus o p) m) (mask_list (zipw Rplus o l) m) =
  zipw Rminus (mask_list p m) (mask_list l m).
Proof.
  induction o as [|a o IH]; intros [|e p] [|d l] m E1 E2; simpl in *; try discriminate; auto.
  destruct m as [|[|] mt]; simpl; auto. f_equal; [ring|]. apply IH; lia.
Qed.

(* the first k rows (of width length o) of a flat buffer get o added *)
Fixpoint shrows o (k : nat) l : list R :=
  match k with
  | O => l
  | S k' => zipw Rplus o (firstn (length o) l) ++ shrows o k' (skipn (length o) l)
  end.

Lemma shrows_length o : forall k l, length (shrows o k l) = length l.
Proof.
  induction k as [|k IH]; intros l; simpl; [reflexivity|].
  rewrite app_length, zipw_length_min, firstn_length, IH, skipn_length. lia.
Qed.

Lemma shrows_nil o : forall k, shrows o k [] = [].
Proof.
  induction k as [|k IH]; simpl; [reflexivity|]. rewrite firstn_nil, skipn_nil, zipw_nil_r, IH. reflexivity.
Qed.

Lemma firstn_app_le {A} (n : nat) (xs ys : list A) : (n <= length xs)%nat -> firstn n (xs ++ ys) = firstn n xs.
Proof. intros Hn. rewrite firstn_app. replace (n - length xs)%nat with 0%nat by lia. simpl. apply app_nil_r. Qed.
Lemma skipn_app_le {A} (n : nat) (xs ys : list A) : (n <= length xs)%nat -> skipn n (xs ++ ys) = skipn n xs ++ ys.
Proof. intros Hn. rewrite skipn_app. replace (n - length xs)%nat with 0%nat by lia. reflexivity. Qed.

Lemma shrows_app_front o : forall k l1 rest, length l1 = (k * length o)%nat ->
  shrows o k (l1 ++ rest) = shrows o k l1 ++ rest.
Proof.
  induction k as [|k IH]; intros l1 rest E; simpl in *.
  - destruct l1; [reflexivity|discriminate].
  - rewrite firstn_app_le, skipn_app_le by lia. rewrite IH by (rewrite skipn_length; lia).
    rewrite app_assoc. reflexivity.
Qed.

Lemma shrows_row o : forall k l1 row l2, length l1 = (k * length o)%nat -> length row = length o ->
  shrows o (S k) (l1 ++ row ++ l2) = shrows o k l1 ++ zipw Rplus o row ++ l2.
Proof.
  induction k as [|k IH]; intros l1 row l2 E Er.
  - destruct l1; [|discriminate]. cbn [shrows app].
    rewrite firstn_app_le, skipn_app_le by lia.
    rewrite <- Er, firstn_all, skipn_all. reflexivity.
  - change (shrows o (S (S k)) (l1 ++ row ++ l2)) with
      (zipw Rplus o (firstn (length o) (l1 ++ row ++ l2)) ++ shrows o (S k) (skipn (length o) (l1 ++ row ++ l2))).
    simpl in E. rewrite firstn_app_le, skipn_app_le by lia.
    rewrite IH by (rewrite ?skipn_length; lia).
    cbn [shrows]. rewrite <- app_assoc. reflexivity.
Qed.

Lemma nth_shrows o : forall c l (k j : nat), (j < length o)%nat -> (k * length o + j < length l)%nat ->
  nth (k * length o + j) (shrows o c l) 0 =
  (if (k <? c)%nat then nth j o 0 else 0) + nth (k * length o + j) l 0.
Proof.
  induction c as [|c IH]; intros l k j Hj Hl.
  - simpl. ring.
  - cbn [shrows]. destruct k as [|k].
    + simpl Nat.mul. simpl Nat.add. rewrite app_nth1 by (rewrite zipw_length_min, firstn_length; simpl in Hl; lia).
      rewrite nth_zipw_plus by (rewrite ?firstn_length; simpl in Hl; lia).
      rewrite nth_firstn_lt by exact Hj. reflexivity.
    + assert (Hw : length (zipw Rplus o (firstn (length o) l)) = length o).
      { rewrite zipw_length_min, firstn_length. simpl in Hl. lia. }
      rewrite app_nth2 by (rewrite Hw; simpl; lia). rewrite Hw.
      replace (S k * length o + j - length o)%nat with (k * length o + j)%nat by (simpl; lia).
      rewrite IH by (rewrite ?skipn_length; simpl in Hl; lia).
      rewrite nth_skipn_add. replace (length o + (k * length o + j))%nat with (S k * length o + j)%nat by (simpl; lia).
      change (S k <? S c)%nat with (k <? c)%nat. reflexivity.
Qed.

(* list update / block update *)
Lemma upd_block_nil {A} : forall (vs : list A) n, upd_block (@nil A) n vs = [].
Proof. induction vs as [|v vs IH]; intros n; simpl; auto. Qed.

Lemma firstn_S_upd {A} : forall (xs : list A) n v, (n < length xs)%nat -> firstn (S n) (upd xs n v) = firstn n xs ++ [v].
Proof.
  induction xs as [|h t IH]; intros [|n] v Hn; simpl in *; try lia; auto.
  f_equal. apply IH. lia.
Qed.
Lemma skipn_upd_after {A} : forall (xs : list A) n m v, (n < m)%nat -> skipn m (upd xs n v) = skipn m xs.
Proof.
  induction xs as [|h t IH]; intros [|n] [|m] v Hn; simpl in *; try lia; auto. apply IH. lia.
Qed.

Lemma upd_block_split {A} : forall (vs xs : list A) n, (n + length vs <= length xs)%nat ->
  upd_block xs n vs = firstn n xs ++ vs ++ skipn (n + length vs) xs.
Proof.
  induction vs as [|v vs IH]; intros xs n Hn; simpl in *.
  - rewrite Nat.add_0_r. symmetry. apply firstn_skipn.
  - rewrite IH by (rewrite upd_length; lia).
    rewrite firstn_S_upd by lia. rewrite skipn_upd_after by lia.
    rewrite <- app_assoc. replace (S n + length vs)%nat with (n + S (length vs))%nat by lia. reflexivity.
Qed.

Lemma skipn_add {A} : forall (b a : nat) (xs : list A), skipn a (skipn b xs) = skipn (b + a) xs.
Proof. induction b as [|b IH]; intros a [|h t]; simpl; auto. destruct a; reflexivity. Qed.

Lemma upd_block_shrows o (k : nat) l pd : length pd = length o -> (k * length o + length o <= length l)%nat ->
  upd_block (shrows o k l) (k * length o) (zipw Rplus o pd) =
  shrows o (S k) (upd_block l (k * length o) pd).
Proof.
  intros Ep Hl.
  set (w := length o) in *.
  set (l1 := firstn (k * w) l). set (l2 := skipn (k * w + w) l).
  assert (El1 : length l1 = (k * w)%nat) by (unfold l1; rewrite firstn_length; lia).
  assert (Ez : length (zipw Rplus o pd) = w) by (rewrite zipw_length_min; fold w; lia).
  rewrite (upd_block_split pd l) by lia. rewrite Ep. fold l1 l2.
  rewrite (shrows_row o k l1 pd l2) by (fold w; lia).
  assert (El : l = l1 ++ skipn (k * w) l) by (unfold l1; symmetry; apply firstn_skipn).
  rewrite El at 1. rewrite shrows_app_front by (fold w; lia).
  rewrite upd_block_split by (rewrite app_length, shrows_length, skipn_length, Ez; lia).
  rewrite Ez. rewrite firstn_app_le by (rewrite shrows_length; lia).
  rewrite <- El1 at 1. rewrite <- (shrows_length o k l1) at 1. rewrite firstn_all.
  f_equal. f_equal.
  rewrite skipn_app. rewrite shrows_length, El1.
  replace (k * w + w - k * w)%nat with w by lia.
  rewrite (skipn_all2 (shrows o k l1)) by (rewrite shrows_length; lia). simpl.
  rewrite skipn_add. reflexivity.
Qed.

(* row r of a buffer whose first k rows are translated *)
Lemma row_shrows o : forall k l (r : nat), (r < k)%nat -> ((r + 1) * length o <= length l)%nat ->
  firstn (length o) (skipn (r * length o) (shrows o k l)) =
  zipw Rplus o (firstn (length o) (skipn (r * length o) l)).
Proof.
  induction k as [|k IH]; intros l r Hr Hl; [lia|]. cbn [shrows].
  assert (Hw : length (zipw Rplus o (firstn (length o) l)) = length o).
  { rewrite zipw_length_min, firstn_length. lia. }
  destruct r as [|r].
  - simpl Nat.mul. cbn [skipn]. rewrite firstn_app_le by lia. apply firstn_all2. lia.
  - rewrite skipn_app, Hw. rewrite (skipn_all2 (zipw Rplus o (firstn (length o) l))) by (rewrite Hw; simpl; lia).
    replace (S r * length o - length o)%nat with (r * length o)%nat by (simpl; lia). cbn [app].
    rewrite IH by (rewrite ?skipn_length; simpl in Hl; lia).
    rewrite skipn_add. replace (length o + r * length o)%nat with (S r * length o)%nat by (simpl; lia). reflexivity.
Qed.

Lemma concat_shrows o : forall L : list (list R), Forall (fun r => length r = length o) L ->
  shrows o (length L) (concat L) = concat (map (zipw Rplus o) L).
Proof.
  induction L as [|r L IH]; intros HF; [reflexivity|].
  apply Forall_cons_iff in HF. destruct HF as [Hr HF]. cbn [length concat map shrows].
  rewrite firstn_app_le, skipn_app_le by lia. rewrite <- Hr, firstn_all, skipn_all. cbn [app].
  rewrite IH by exact HF. reflexivity.
Qed.

Lemma length_concat_uniform {A} (w : nat) : forall L : list (list A), Forall (fun r => length r = w) L ->
  length (concat L) = (length L * w)%nat.
Proof.
  induction L as [|r L IH]; intros HF; [reflexivity|].
  apply Forall_cons_iff in HF. destruct HF as [Hr HF]. cbn [concat length]. rewrite app_length, Hr, IH by exact HF. lia.
Qed.
End Lists.

(* ------------------------------------------------------------------------------------------ *)
(* 1. arrays: a point plus a vector, a ray buffer whose first rows are translated               *)
(* ------------------------------------------------------------------------------------------ *)
Section Arrays.
Local Open Scope R_scope.

(* the point (or cell corner) p translated by the vector o; any other array shape is kept *)
Definition vsh (o : list R) (p : arr R) : arr R := mkarr (shape p) (zipw Rplus o (dat p)).
(* the ray buffer r with its rows 0 .. c-1 translated by o (the rows from c on are untouched) *)
Definition shray (o : list R) (c : Z) (r : arr R) : arr R :=
  mkarr (shape r) (shrows o (Z.to_nat c) (dat r)).

Lemma shape_shray o c r : shape (shray o c r) = shape r.
Proof. reflexivity. Qed.
Lemma length_shray o c r : length (dat (shray o c r)) = length (dat r).
Proof. apply shrows_length. Qed.
Lemma shray_0 o r : shray o 0 r = r.
Proof. destruct r. reflexivity. Qed.

Lemma sub_off_row2 (M w c : Z) : sub_off [M; w] [c] = (c * w)%Z.
Proof. unfold sub_off, flat. simpl. unfold prodZ. simpl. lia. Qed.

(* storing a translated point in row c of a buffer whose rows < c are translated *)
Lemma set_sub_shray o (M c : Z) r p :
  shape r = [M; Z.of_nat (length o)] -> length (dat r) = (Z.to_nat M * length o)%nat ->
  (0 <= c)%Z -> (c < M \/ M <= 0)%Z -> length (dat p) = length o ->
  set_sub (shray o c r) [c] (vsh o p) = shray o (c + 1) (set_sub r [c] p).
Proof.
  intros Sr Lr Hc HM Lp. unfold set_sub, shray, vsh. cbn [shape dat]. f_equal.
  rewrite Sr, sub_off_row2.
  destruct (Z_le_gt_dec M 0) as [HM0|HM0].
  - assert (E : dat r = []).
    { destruct (dat r); [reflexivity|]. simpl in Lr. replace (Z.to_nat M) with 0%nat in Lr by lia. discriminate. }
    rewrite E, shrows_nil, !upd_block_nil, shrows_nil. reflexivity.
  - assert (Hlt : (c < M)%Z) by lia.
    replace (Z.to_nat (c * Z.of_nat (length o))) with (Z.to_nat c * length o)%nat by nia.
    replace (Z.to_nat (c + 1)) with (S (Z.to_nat c)) by lia.
    apply upd_block_shrows; [exact Lp|]. rewrite Lr.
    assert (Z.to_nat c + 1 <= Z.to_nat M)%nat by lia. nia.
Qed.

Lemma get_shray o (M c k j : Z) r :
  shape r = [M; Z.of_nat (length o)] -> length (dat r) = (Z.to_nat M * length o)%nat ->
  (0 <= k < M)%Z -> (0 <= j < Z.of_nat (length o))%Z ->
  get 0 (shray o c r) [k; j] = (if (k <? c)%Z then nth (Z.to_nat j) o 0 else 0) + get 0 r [k; j].
Proof.
  intros Sr Lr Hk Hj. unfold get, shray. cbn [shape dat]. rewrite Sr, flat2.
  replace (Z.to_nat (k * Z.of_nat (length o) + j)) with (Z.to_nat k * length o + Z.to_nat j)%nat by nia.
  rewrite nth_shrows; [| lia | rewrite Lr; assert (Z.to_nat k + 1 <= Z.to_nat M)%nat by lia; nia].
  destruct (Z.ltb_spec k c); destruct (Nat.ltb_spec (Z.to_nat k) (Z.to_nat c)); try reflexivity; lia.
Qed.

(* ---- shrink only sees the differences pcur - lower, pcur - upper ---- *)
Lemma shrink_vsh o (p d l u : arr R) :
  length (dat p) = length o -> length (dat d) = length o ->
  length (dat l) = length o -> length (dat u) = length o ->
  shrink (vsh o p) d (vsh o l) (vsh o u) = shrink p d l u.
Proof.
  intros Lp Ld Ll Lu.
  assert (Et : amap2 (@nsub R NumR) (vsh o p) d = vsh o (amap2 (@nsub R NumR) p d)).
  { unfold amap2, vsh. cbn [shape dat nsub NumR]. f_equal. apply zipw_sub_plus. lia. }
  assert (Lt : length (dat (amap2 (@nsub R NumR) p d)) = length o).
  { unfold amap2. cbn [dat]. rewrite zipw_length_min. lia. }
  assert (El : amap2 (@nltb R NumR) (amap2 (@nsub R NumR) (vsh o p) d) (vsh o l) =
               amap2 (@nltb R NumR) (amap2 (@nsub R NumR) p d) l).
  { rewrite Et. unfold amap2 at 1 3. unfold vsh. cbn [shape dat nltb NumR]. f_equal.
    apply zipw_cmp_plus; [intros; apply Rltb_shift|lia|lia]. }
  assert (Eu : amap2 (@ngtb R NumR) (amap2 (@nsub R NumR) (vsh o p) d) (vsh o u) =
               amap2 (@ngtb R NumR) (amap2 (@nsub R NumR) p d) u).
  { rewrite Et. unfold amap2 at 1 3. unfold vsh. cbn [shape dat]. f_equal.
    apply zipw_cmp_plus; [intros; unfold ngtb; cbn [nltb NumR]; apply Rltb_shift|lia|lia]. }
  assert (Em : forall (q : arr R) (m : arr bool), length (dat q) = length o ->
             amap2 (@nsub R NumR) (amask (vsh o p) m) (amask (vsh o q) m) =
             amap2 (@nsub R NumR) (amask p m) (amask q m)).
  { intros q m Lq. unfold amap2, amask, of_list, vsh. cbn [shape dat nsub NumR].
    rewrite mask_plus_length by lia. f_equal. apply mask_diff_plus; lia. }
  unfold shrink. cbv zeta. rewrite El, Eu, !(Em l) by exact Ll. rewrite !(Em u) by exact Lu. reflexivity.
Qed.

Lemma arr_eq {A} (u v : arr A) : shape u = shape v -> dat u = dat v -> u = v.
Proof. destruct u, v. simpl. intros -> ->. reflexivity. Qed.

(* ---- the returned polyline ray[count::-1] ---- *)
Lemma get_sub_row_dat (r : arr R) (n w k : Z) : shape r = [n; w] ->
  dat (get_sub r [k]) = firstn (Z.to_nat w) (skipn (Z.to_nat (k * w)) (dat r)).
Proof.
  intros E. unfold get_sub. rewrite E. change (length [k]) with 1%nat. cbn [skipn dat]. rewrite sub_off_row2.
  unfold prodZ. cbn [fold_right]. rewrite Z.mul_1_r. reflexivity.
Qed.

(* every row of the polyline r translated by o *)
Definition addvec (o : list R) (r : arr R) : arr R := shray o (dim r 0%nat) r.

Lemma rev_prefix_rows (o : list R) (n c : Z) (r : arr R) :
  shape r = [n; Z.of_nat (length o)] -> length (dat r) = (Z.to_nat n * length o)%nat -> (0 <= c < n)%Z ->
  Forall (fun row => length row = length o)
         (map (fun q : nat => dat (get_sub r [Z.of_nat q])) (seq 0 (Z.to_nat (c + 1)))).
Proof.
  intros Sr Lr Hc. apply Forall_forall. intros row Hrow. apply in_map_iff in Hrow.
  destruct Hrow as (q & <- & Hq). apply in_seq in Hq.
  rewrite (get_sub_row_dat r n _ _ Sr), Nat2Z.id.
  replace (Z.to_nat (Z.of_nat q * Z.of_nat (length o))) with (q * length o)%nat by nia.
  rewrite firstn_length, skipn_length, Lr.
  assert (q + 1 <= Z.to_nat n)%nat by lia. nia.
Qed.

Lemma length_rev_prefix (o : list R) (n c : Z) (r : arr R) :
  shape r = [n; Z.of_nat (length o)] -> length (dat r) = (Z.to_nat n * length o)%nat -> (0 <= c < n)%Z ->
  shape (rev_prefix r c) = [(c + 1)%Z; Z.of_nat (length o)] /\
  length (dat (rev_prefix r c)) = (Z.to_nat (c + 1) * length o)%nat.
Proof.
  intros Sr Lr Hc. split; [apply (shape_rev_prefix r n); exact Sr|].
  unfold rev_prefix. cbv zeta. cbn [dat].
  rewrite (length_concat_uniform (length o)).
  - rewrite rev_length, map_length, seq_length. reflexivity.
  - apply Forall_rev. apply (rev_prefix_rows o n c r Sr Lr Hc).
Qed.

Lemma rev_prefix_shray (o : list R) (n c : Z) (r : arr R) :
  shape r = [n; Z.of_nat (length o)] -> length (dat r) = (Z.to_nat n * length o)%nat -> (0 <= c < n)%Z ->
  rev_prefix (shray o (c + 1) r) c = addvec o (rev_prefix r c).
Proof.
  intros Sr Lr Hc. unfold addvec. rewrite (dim2_0 _ _ _ (shape_rev_prefix r n _ c Sr)).
  apply arr_eq.
  { rewrite shape_shray, (shape_rev_prefix r n _ c Sr).
    apply (shape_rev_prefix (shray o (c + 1) r) n). exact Sr. }
  unfold shray at 2. cbn [dat]. unfold rev_prefix. cbv zeta. cbn [dat].
  set (rows := map (fun q : nat => dat (get_sub r [Z.of_nat q])) (seq 0 (Z.to_nat (c + 1)))).
  assert (E : map (fun q : nat => dat (get_sub (shray o (c + 1) r) [Z.of_nat q])) (seq 0 (Z.to_nat (c + 1))) =
              map (zipw Rplus o) rows).
  { unfold rows. rewrite map_map. apply map_ext_in. intros q Hq. apply in_seq in Hq.
    rewrite (get_sub_row_dat (shray o (c + 1) r) n _ _ Sr), (get_sub_row_dat r n _ _ Sr), Nat2Z.id.
    replace (Z.to_nat (Z.of_nat q * Z.of_nat (length o))) with (q * length o)%nat by nia.
    unfold shray. cbn [dat]. apply row_shrows; [lia|]. rewrite Lr.
    assert (q + 1 <= Z.to_nat n)%nat by lia. nia. }
  rewrite E, <- map_rev.
  rewrite <- (concat_shrows o (rev rows)) by (apply Forall_rev; apply (rev_prefix_rows o n c r Sr Lr Hc)).
  unfold rows. rewrite rev_length, map_length, seq_length. reflexivity.
Qed.

Lemma get_addvec (o : list R) (m i j : Z) (r : arr R) :
  shape r = [m; Z.of_nat (length o)] -> length (dat r) = (Z.to_nat m * length o)%nat ->
  (0 <= i < m)%Z -> (0 <= j < Z.of_nat (length o))%Z ->
  get 0 (addvec o r) [i; j] = nth (Z.to_nat j) o 0 + get 0 r [i; j].
Proof.
  intros Sr Lr Hi Hj. unfold addvec. rewrite (dim2_0 _ _ _ Sr).
  rewrite (get_shray o m m i j r Sr Lr Hi Hj).
  destruct (Z.ltb_spec i m); [reflexivity|lia].
Qed.
End Arrays.

(* ------------------------------------------------------------------------------------------ *)
(* 2. the loop of _ray2d_core in modular form (any numeric type), equal to the generated one    *)
(* ------------------------------------------------------------------------------------------ *)
Section Spec.
Context {T : Type} `{Num T}.

(* grid magnetism on component ix *)
Definition magnet1 (lower upper : arr T) (ix : Z) (pcur : arr T) : arr T :=
  if nltb (nabs (nsub (get (nofZ 0) pcur [ix]) (get (nofZ 0) lower [ix]))) (nofQ 1 100000000)
  then set pcur [ix] (get (nofZ 0) lower [ix])
  else if nltb (nabs (nsub (get (nofZ 0) pcur [ix]) (get (nofZ 0) upper [ix]))) (nofQ 1 100000000)
       then set pcur [ix] (get (nofZ 0) upper [ix])
       else pcur.
Definition magnet (n : Z) (lower upper p : arr T) : arr T :=
  for_list (pyrange 0 n 1) (fun ix q => magnet1 lower upper ix q) p.

(* boundaries of the cell of coordinate q on an axis *)
Definition cidx (ax : arr T) (q : T) : Z := searchsorted_right ax q - 1.
Definition cell_lo (ax : arr T) (q : T) : T :=
  if neqb q (get (nofZ 0) ax [cidx ax q]) then get (nofZ 0) ax [Z.max (cidx ax q - 1) 0]
  else get (nofZ 0) ax [cidx ax q].
Definition cell_up (ax : arr T) (q : T) : T := get (nofZ 0) ax [Z.min (cidx ax q + 1) (dim ax 0%nat - 1)].
End Spec.

Section Spec2.
Context {T : Type} `{Num T}.
Variables (z x zgrad xgrad : arr T) (zend xend zsrc xsrc stepsize : T) (M : Z).
Local Notation St := (@St2 T).

Definition tcond2 (s : St) : bool :=
  ngeb (Common.dist2d zsrc xsrc (get (nofZ 0) (s_pcur s) [0]) (get (nofZ 0) (s_pcur s) [1])) stepsize.
Definition g2z (p : arr T) : T := Interp2d.interp2d_1 z x zgrad p nnan.
Definition g2x (p : arr T) : T := Interp2d.interp2d_1 z x xgrad p nnan.
Definition g2n (p : arr T) : T := Common.norm2d (g2z p) (g2x p).
Definition ndelta2 (d p : arr T) : arr T :=
  set (set d [0] (nmul (nmul stepsize (g2z p)) (ndiv (nofZ 1) (g2n p))))
      [1] (nmul (nmul stepsize (g2x p)) (ndiv (nofZ 1) (g2n p))).
Definition clamp2 (p1 : arr T) : arr T :=
  set (set p1 [0] (clamp z (get (nofZ 0) p1 [0])))
      [1] (clamp x (get (nofZ 0) (set p1 [0] (clamp z (get (nofZ 0) p1 [0]))) [1])).
Definition cells_lo2 (l p : arr T) : arr T :=
  set (set l [0] (cell_lo z (get (nofZ 0) p [0]))) [1] (cell_lo x (get (nofZ 0) p [1])).
Definition cells_up2 (u p : arr T) : arr T :=
  set (set u [0] (cell_up z (get (nofZ 0) p [0]))) [1] (cell_up x (get (nofZ 0) p [1])).

Definition gbody2 (hg : bool) (s : St) : ctl St :=
  if btest M (nfree_max2 z x stepsize) s then Brk s
  else if ngtb (g2n (s_pcur s)) (nofZ 0) then
    let d' := ndelta2 (s_delta s) (s_pcur s) in
    if hg then
      let fac := FteikCommon.shrink (s_pcur s) d' (s_lower s) (s_upper s) in
      let p3 := clamp2 (amap2 nsub (s_pcur s) (amap (fun e => nmul fac e) d')) in
      if nltb fac (nofZ 1) then
        let p4 := magnet 2 (s_lower s) (s_upper s) p3 in
        let s' := (s_count s + 1, d', cells_lo2 (s_lower s) p4, 0, p4,
                   set_sub (s_ray s) [s_count s] p4, cells_up2 (s_upper s) p4) in
        if (cidx z (get (nofZ 0) p4 [0]) =? cidx z zsrc) && (cidx x (get (nofZ 0) p4 [1]) =? cidx x xsrc)
        then Brk s' else Next s'
      else Next (s_count s, d', s_lower s, s_nfree s + 1, p3, s_ray s, s_upper s)
    else
      let p3 := clamp2 (amap2 nsub (s_pcur s) d') in
      Next (s_count s + 1, d', s_lower s, s_nfree s, p3, set_sub (s_ray s) [s_count s] p3, s_upper s)
  else Brk s.

Definition ginit2 (hg : bool) : St :=
  (1, full [2] (nofZ 0),
   (if hg then of_list [cell_lo z zend; cell_lo x xend] else mkarr [0] []), 0,
   of_list [zend; xend], set_sub (full [M; 2] (nofZ 0)) [0] (of_list [zend; xend]),
   (if hg then of_list [cell_up z zend; cell_up x xend] else mkarr [0] [])).

Lemma cond2_spec hg s : cond2 z x zgrad xgrad zend xend zsrc xsrc stepsize hg s = tcond2 s.
Proof. destruct s as [[[[[[c d] l] n] p] r] u]. reflexivity. Qed.

Lemma init2_spec hg : init2 z x zgrad xgrad zend xend zsrc xsrc stepsize hg M = ginit2 hg.
Proof. destruct hg; reflexivity. Qed.

Lemma body2_spec hg s : body2 z x zgrad xgrad zend xend zsrc xsrc stepsize hg M s = gbody2 hg s.
Proof.
  destruct s as [[[[[[c d] l] n] p] r] u].
  destruct hg;
    cbv beta zeta iota delta [body2 loop2 fst snd u_ray2d_core_v_p1 gbody2 btest nfree_max2
                              s_count s_delta s_lower s_nfree s_pcur s_ray s_upper
                              g2n g2z g2x ndelta2 clamp2 clamp cells_lo2 cells_up2 cell_lo cell_up cidx
                              magnet magnet1];
    reflexivity.
Qed.
End Spec2.

(* ------------------------------------------------------------------------------------------ *)
(* 3. generic: mapping outcomes, loops that commute with a state transformation                 *)
(* ------------------------------------------------------------------------------------------ *)
Definition cmap {S S'} (f : S -> S') (r : ctl S) : ctl S' :=
  match r with Next s => Next (f s) | Brk s => Brk (f s) | Exc e => Exc e end.
Definition rmap {S S'} (f : S -> S') (r : res S) : res S' :=
  match r with Ok s => Ok (f s) | Raise e => Raise e | OutOfFuel => OutOfFuel end.

Lemma while_fuel_commute {S S'} (f : S -> S') (P : S -> Prop)
      (cond : S -> bool) (body : S -> ctl S) (cond' : S' -> bool) (body' : S' -> ctl S') :
  (forall s, P s -> cond' (f s) = cond s) ->
  (forall s, P s -> cond s = true -> body' (f s) = cmap f (body s)) ->
  (forall s s', P s -> cond s = true -> (body s = Next s' \/ body s = Brk s') -> P s') ->
  forall fuel s, P s ->
    while_fuel fuel cond' body' (f s) = rmap f (while_fuel fuel cond body s) /\
    (forall s1, while_fuel fuel cond body s = Ok s1 -> P s1).
Proof.
  intros Hc Hb Hp. induction fuel as [|n IH]; intros s Ps; simpl; [split; [reflexivity|discriminate]|].
  rewrite (Hc s Ps). destruct (cond s) eqn:Ec.
  - rewrite (Hb s Ps Ec). destruct (body s) as [s'|s'|e] eqn:Eb; simpl.
    + apply IH. apply (Hp s s' Ps Ec). left; exact Eb.
    + split; [reflexivity|]. intros s1 E. injection E as <-. apply (Hp s s' Ps Ec). right; exact Eb.
    + split; [reflexivity|discriminate].
  - split; [reflexivity|]. intros s1 E. injection E as <-. exact Ps.
Qed.

(* the state of the shifted run: same counters and step, translated point, cell and stored rows *)
Definition SH (o : list R) (s : @St2 R) : @St2 R :=
  (s_count s, s_delta s, vsh o (s_lower s), s_nfree s, vsh o (s_pcur s),
   shray o (s_count s) (s_ray s), vsh o (s_upper s)).
(* the ray buffer has max_step rows of w entries, and the count is not negative *)
Definition RInv (w : nat) (M : Z) (s : @St2 R) : Prop :=
  0 <= s_count s /\ shape (s_ray s) = [M; Z.of_nat w] /\ length (dat (s_ray s)) = (Z.to_nat M * w)%nat.

Lemma RInv_full w M (p : arr R) c : 0 <= c ->
  forall s : @St2 R, s_count s = c -> s_ray s = set_sub (full [M; Z.of_nat w] (@nofZ R NumR 0)) [0] p -> RInv w M s.
Proof.
  intros Hc s E1 E2. unfold RInv. rewrite E1, E2. split; [exact Hc|]. split; [reflexivity|].
  unfold set_sub, full. cbn [shape dat]. rewrite upd_block_length, repeat_length.
  unfold prodZ. simpl. nia.
Qed.

(* ------------------------------------------------------------------------------------------ *)
(* 4. translation of one axis: clamps, cell boundaries                                          *)
(* ------------------------------------------------------------------------------------------ *)
Section Axis.
Local Open Scope R_scope.
Variables (c : R) (ax : arr R) (n : Z).
Hypothesis A : axis ax n.

Lemma shift_get_le k : (k <= n - 1)%Z -> get 0 (shift_axis c ax) [k] = c + get 0 ax [k].
Proof.
  intros Hk. pose proof (axis_n _ _ A) as N. destruct A as (S & L & _).
  apply shift_get_stored. rewrite S, L. unfold flat. cbn [flat_aux]. lia.
Qed.

Lemma Reqb_shift u v : Reqb (c + u) (c + v) = Reqb u v.
Proof. unfold Reqb. destruct (Req_EM_T (c + u) (c + v)), (Req_EM_T u v); auto; exfalso; lra. Qed.

Lemma clamp_shift v : clamp (shift_axis c ax) (c + v) = c + clamp ax v.
Proof.
  pose proof (axis_n _ _ A) as N. unfold clamp, pymin2, pymax2.
  rewrite shift_dim, (axis_dim _ _ A). cbn [nltb nofZ NumR].
  rewrite !shift_get_le by lia. rewrite Rltb_shift.
  destruct (Rltb v (get 0 ax [0%Z])); rewrite Rltb_shift;
    destruct (Rltb (get 0 ax [(n - 1)%Z]) _); reflexivity.
Qed.

Lemma cidx_range q : (-1 <= cidx ax q <= n - 1)%Z.
Proof.
  pose proof (axis_n _ _ A) as N. unfold cidx.
  pose proof (ssr_range ax n q (axis_axis1 _ _ A) ltac:(lia)). lia.
Qed.
Lemma cidx_shift q : cidx (shift_axis c ax) (c + q) = cidx ax q.
Proof. unfold cidx. rewrite ssr_shift. reflexivity. Qed.

Lemma cell_lo_shift q : cell_lo (shift_axis c ax) (c + q) = c + cell_lo ax q.
Proof.
  pose proof (axis_n _ _ A) as N. pose proof (cidx_range q) as Rg.
  unfold cell_lo. rewrite cidx_shift. cbn [neqb nofZ NumR].
  rewrite !shift_get_le by lia. rewrite Reqb_shift.
  destruct (Reqb q _); reflexivity.
Qed.

Lemma cell_up_shift q : cell_up (shift_axis c ax) (c + q) = c + cell_up ax q.
Proof.
  pose proof (axis_n _ _ A) as N. pose proof (cidx_range q) as Rg.
  unfold cell_up. rewrite cidx_shift, shift_dim. cbn [nofZ NumR].
  rewrite (axis_dim _ _ A). rewrite shift_get_le by lia. reflexivity.
Qed.
End Axis.

(* ------------------------------------------------------------------------------------------ *)
(* 5. 2D: one loop iteration commutes with the translation                                      *)
(* ------------------------------------------------------------------------------------------ *)
Section Shift2.
Local Open Scope R_scope.
Variables (a b : R) (z x zgrad xgrad : arr R) (nz nx : Z).
Hypothesis Az : axis z nz.
Hypothesis Ax : axis x nx.
Hypothesis Sz : shape zgrad = [nz; nx].
Hypothesis Sx : shape xgrad = [nz; nx].
Local Notation o := [a; b].
Local Notation z' := (shift_axis a z).
Local Notation x' := (shift_axis b x).
Local Notation r0 := (@nofZ R NumR 0%Z).

Lemma get_vsh2 p : vec2 p ->
  get r0 (vsh o p) [0%Z] = a + get r0 p [0%Z] /\ get r0 (vsh o p) [1%Z] = b + get r0 p [1%Z].
Proof.
  intros [S L]. destruct p as [sh l]. simpl in S, L. subst sh.
  destruct l as [|p0 [|p1 [|]]]; try discriminate. split; reflexivity.
Qed.

Lemma set_vsh2 p v : vec2 p ->
  set (vsh o p) [0%Z] (a + v) = vsh o (set p [0%Z] v) /\ set (vsh o p) [1%Z] (b + v) = vsh o (set p [1%Z] v).
Proof.
  intros [S L]. destruct p as [sh l]. simpl in S, L. subst sh.
  destruct l as [|p0 [|p1 [|]]]; try discriminate. split; reflexivity.
Qed.

Lemma vec2_vsh p : vec2 p -> vec2 (vsh o p).
Proof.
  intros [S L]. split; [exact S|]. unfold vsh. cbn [dat]. rewrite zipw_length_min, L. reflexivity.
Qed.

Lemma amap2_sub_vsh2 p q : vec2 p -> amap2 (@nsub R NumR) (vsh o p) q = vsh o (amap2 (@nsub R NumR) p q).
Proof.
  intros [S L]. unfold amap2, vsh. cbn [shape dat nsub NumR]. f_equal. apply zipw_sub_plus. rewrite L. reflexivity.
Qed.

Lemma interp2_shift g p : shape g = [nz; nx] -> vec2 p ->
  Interp2d.interp2d_1 z' x' g (vsh o p) nnan = Interp2d.interp2d_1 z x g p nnan.
Proof.
  intros Sg Hp. unfold Interp2d.interp2d_1. destruct (get_vsh2 p Hp) as [-> ->].
  apply (interp2d_translate a b z x g nz nx); assumption.
Qed.

Lemma g2n_shift p : vec2 p -> g2n z' x' zgrad xgrad (vsh o p) = g2n z x zgrad xgrad p.
Proof. intros Hp. unfold g2n, g2z, g2x. rewrite !interp2_shift by assumption. reflexivity. Qed.

Lemma ndelta2_shift s d p : vec2 p -> ndelta2 z' x' zgrad xgrad s d (vsh o p) = ndelta2 z x zgrad xgrad s d p.
Proof.
  intros Hp. unfold ndelta2. rewrite g2n_shift by exact Hp. unfold g2z, g2x.
  rewrite !interp2_shift by assumption. reflexivity.
Qed.

Lemma len2_ndelta2 s d p : length (dat d) = 2%nat -> length (dat (ndelta2 z x zgrad xgrad s d p)) = 2%nat.
Proof. intros Hd. unfold ndelta2. apply len2_set, len2_set, Hd. Qed.

Lemma clamp2_shift p1 : vec2 p1 -> clamp2 z' x' (vsh o p1) = vsh o (clamp2 z x p1).
Proof.
  intros Hp. unfold clamp2.
  destruct (get_vsh2 p1 Hp) as [G0 _]. rewrite G0, (clamp_shift a z nz Az).
  rewrite (proj1 (set_vsh2 p1 _ Hp)).
  set (p2 := set p1 [0%Z] (clamp z (get r0 p1 [0%Z]))).
  assert (Hp2 : vec2 p2) by (apply vec2_set; exact Hp).
  destruct (get_vsh2 p2 Hp2) as [_ G1]. rewrite G1, (clamp_shift b x nx Ax).
  apply (proj2 (set_vsh2 p2 _ Hp2)).
Qed.

Lemma vec2_clamp2 (u v p1 : arr R) : vec2 p1 -> vec2 (clamp2 u v p1).
Proof. intros Hp. unfold clamp2. apply vec2_set, vec2_set, Hp. Qed.

Lemma vec2_magnet1 (l u p : arr R) ix : vec2 p -> vec2 (magnet1 l u ix p).
Proof.
  intros Hp. unfold magnet1.
  repeat (match goal with |- context [if ?c then _ else _] => destruct c end); try apply vec2_set; exact Hp.
Qed.

Lemma magnet1_shift2 l u p ix : vec2 l -> vec2 u -> vec2 p -> (ix = 0 \/ ix = 1)%Z ->
  magnet1 (vsh o l) (vsh o u) ix (vsh o p) = vsh o (magnet1 l u ix p).
Proof.
  intros Hl Hu Hp Hix. unfold magnet1.
  destruct (get_vsh2 p Hp) as [P0 P1]. destruct (get_vsh2 l Hl) as [L0 L1]. destruct (get_vsh2 u Hu) as [U0 U1].
  destruct (set_vsh2 p (get r0 l [0%Z]) Hp) as [SL0 _]. destruct (set_vsh2 p (get r0 l [1%Z]) Hp) as [_ SL1].
  destruct (set_vsh2 p (get r0 u [0%Z]) Hp) as [SU0 _]. destruct (set_vsh2 p (get r0 u [1%Z]) Hp) as [_ SU1].
  destruct Hix as [-> | ->].
  - rewrite P0, L0, U0. cbn [nsub NumR].
    replace (a + get r0 p [0%Z] - (a + get r0 l [0%Z])) with (get r0 p [0%Z] - get r0 l [0%Z]) by ring.
    replace (a + get r0 p [0%Z] - (a + get r0 u [0%Z])) with (get r0 p [0%Z] - get r0 u [0%Z]) by ring.
    destruct (nltb _ _); [exact SL0|]. destruct (nltb _ _); [exact SU0|reflexivity].
  - rewrite P1, L1, U1. cbn [nsub NumR].
    replace (b + get r0 p [1%Z] - (b + get r0 l [1%Z])) with (get r0 p [1%Z] - get r0 l [1%Z]) by ring.
    replace (b + get r0 p [1%Z] - (b + get r0 u [1%Z])) with (get r0 p [1%Z] - get r0 u [1%Z]) by ring.
    destruct (nltb _ _); [exact SL1|]. destruct (nltb _ _); [exact SU1|reflexivity].
Qed.

Lemma magnet_shift2 l u p : vec2 l -> vec2 u -> vec2 p ->
  magnet 2 (vsh o l) (vsh o u) (vsh o p) = vsh o (magnet 2 l u p) /\ vec2 (magnet 2 l u p).
Proof.
  intros Hl Hu Hp. unfold magnet. change (pyrange 0 2 1) with [0%Z; 1%Z]. unfold for_list. cbn [fold_left].
  pose proof (vec2_magnet1 l u p 0 Hp) as H1.
  split; [|apply vec2_magnet1; exact H1].
  rewrite (magnet1_shift2 l u p 0) by auto. apply magnet1_shift2; auto.
Qed.

Lemma cells_lo2_shift l p : vec2 l -> vec2 p -> cells_lo2 z' x' (vsh o l) (vsh o p) = vsh o (cells_lo2 z x l p).
Proof.
  intros Hl Hp. unfold cells_lo2. destruct (get_vsh2 p Hp) as [-> ->].
  rewrite (cell_lo_shift a z nz Az), (cell_lo_shift b x nx Ax).
  rewrite (proj1 (set_vsh2 l _ Hl)). apply (proj2 (set_vsh2 _ _ (vec2_set _ _ _ Hl))).
Qed.
Lemma cells_up2_shift u p : vec2 u -> vec2 p -> cells_up2 z' x' (vsh o u) (vsh o p) = vsh o (cells_up2 z x u p).
Proof.
  intros Hu Hp. unfold cells_up2. destruct (get_vsh2 p Hp) as [-> ->].
  rewrite (cell_up_shift a z nz Az), (cell_up_shift b x nx Ax).
  rewrite (proj1 (set_vsh2 u _ Hu)). apply (proj2 (set_vsh2 _ _ (vec2_set _ _ _ Hu))).
Qed.

Lemma nfree_max2_shift s : nfree_max2 z' x' s = nfree_max2 z x s.
Proof.
  pose proof (axis_n _ _ Az). pose proof (axis_n _ _ Ax).
  unfold nfree_max2. rewrite !shift_dim, (axis_dim _ _ Az), (axis_dim _ _ Ax). cbn [nofZ NumR].
  rewrite (shift_get_le a z nz Az 0), (shift_get_le a z nz Az (nz - 1)),
          (shift_get_le b x nx Ax 0), (shift_get_le b x nx Ax (nx - 1)) by lia.
  rewrite dist2d_shift. reflexivity.
Qed.
End Shift2.

Section Body2.
Local Open Scope R_scope.
Variables (a b : R) (z x zgrad xgrad : arr R) (nz nx : Z) (zend xend zsrc xsrc stepsize : R) (M : Z).
Hypothesis Az : axis z nz.
Hypothesis Ax : axis x nx.
Hypothesis Sz : shape zgrad = [nz; nx].
Hypothesis Sx : shape xgrad = [nz; nx].
Local Notation o := [a; b].
Local Notation z' := (shift_axis a z).
Local Notation x' := (shift_axis b x).
Local Notation r0 := (@nofZ R NumR 0%Z).
Local Notation St := (@St2 R).

Lemma tcond2_shift (s : St) : vec2 (s_pcur s) ->
  tcond2 (a + zsrc) (b + xsrc) stepsize (SH o s) = tcond2 zsrc xsrc stepsize s.
Proof.
  intros Hp. unfold tcond2, SH. cbn [s_pcur fst snd].
  destruct (get_vsh2 a b _ Hp) as [-> ->]. rewrite dist2d_shift. reflexivity.
Qed.

Lemma gbody2_shift hg (s : St) : InvS hg s -> RInv 2 M s ->
  gbody2 z' x' zgrad xgrad (a + zsrc) (b + xsrc) stepsize M hg (SH o s) =
  cmap (SH o) (gbody2 z x zgrad xgrad zsrc xsrc stepsize M hg s).
Proof.
  intros (Hp & Hd & Hlu) (Hc & Sr & Lr).
  destruct s as [[[[[[c d] l] n] p] r] u]. cbn [s_count s_delta s_lower s_nfree s_pcur s_ray s_upper fst snd] in *.
  unfold gbody2, SH, btest. cbn [s_count s_delta s_lower s_nfree s_pcur s_ray s_upper fst snd].
  rewrite (nfree_max2_shift a b z x nz nx Az Ax).
  destruct ((M <=? c)%Z || (nfree_max2 z x stepsize <? n)%Z) eqn:Eb; [reflexivity|].
  apply orb_false_elim in Eb. destruct Eb as [Eb _]. apply Z.leb_gt in Eb.
  rewrite (g2n_shift a b z x zgrad xgrad nz nx Az Ax Sz Sx p Hp).
  destruct (ngtb (g2n z x zgrad xgrad p) r0); [|reflexivity].
  rewrite (ndelta2_shift a b z x zgrad xgrad nz nx Az Ax Sz Sx stepsize d p Hp).
  pose proof (len2_ndelta2 z x zgrad xgrad stepsize d p Hd) as Hd'.
  set (d' := ndelta2 z x zgrad xgrad stepsize d p) in *. clearbody d'.
  destruct hg.
  - destruct (Hlu eq_refl) as [Hl Hu].
    rewrite shrink_vsh by (first [apply Hp|apply Hl|apply Hu|exact Hd']).
    set (fac := FteikCommon.shrink p d' l u). clearbody fac.
    rewrite (amap2_sub_vsh2 a b p _ Hp).
    assert (Hp1 : vec2 (amap2 (@nsub R NumR) p (amap (fun e : R => nmul fac e) d'))).
    { apply vec2_amap2; [exact Hp|apply len2_amap; exact Hd']. }
    rewrite (clamp2_shift a b z x nz nx Az Ax _ Hp1).
    pose proof (vec2_clamp2 z x _ Hp1) as Hp3.
    set (p3 := clamp2 z x (amap2 (@nsub R NumR) p (amap (fun e : R => nmul fac e) d'))) in *. clearbody p3.
    destruct (nltb fac (nofZ 1)); [|reflexivity].
    destruct (magnet_shift2 a b l u p3 Hl Hu Hp3) as [Em Hp4]. rewrite Em.
    set (p4 := magnet 2 l u p3) in *. clearbody p4.
    destruct (get_vsh2 a b p4 Hp4) as [-> ->].
    rewrite !(cidx_shift a z), !(cidx_shift b x).
    rewrite (cells_lo2_shift a b z x nz nx Az Ax l p4 Hl Hp4), (cells_up2_shift a b z x nz nx Az Ax u p4 Hu Hp4).
    rewrite (set_sub_shray o M c r p4 Sr Lr Hc (or_introl Eb) (proj2 Hp4)).
    destruct (_ && _); reflexivity.
  - rewrite (amap2_sub_vsh2 a b p _ Hp).
    assert (Hp1 : vec2 (amap2 (@nsub R NumR) p d')) by (apply vec2_amap2; [exact Hp|exact Hd']).
    rewrite (clamp2_shift a b z x nz nx Az Ax _ Hp1).
    pose proof (vec2_clamp2 z x _ Hp1) as Hp3.
    set (p3 := clamp2 z x (amap2 (@nsub R NumR) p d')) in *. clearbody p3.
    rewrite (set_sub_shray o M c r p3 Sr Lr Hc (or_introl Eb) (proj2 Hp3)).
    reflexivity.
Qed.
End Body2.

Lemma RInv_keep w M (c : Z) (d l : arr R) (n : Z) (p r u : arr R) (c' : Z) (d' l' : arr R) (n' : Z) (p' u' : arr R) :
  RInv w M (c, d, l, n, p, r, u) -> 0 <= c' -> RInv w M (c', d', l', n', p', r, u').
Proof. intros (Hc & Sr & Lr) Hc'. split; [exact Hc'|]. split; [exact Sr|exact Lr]. Qed.
Lemma RInv_store w M (c : Z) (d l : arr R) (n : Z) (p r u : arr R) (c' : Z) (d' l' : arr R) (n' : Z) (p' u' pp : arr R) idx :
  RInv w M (c, d, l, n, p, r, u) -> 0 <= c' -> RInv w M (c', d', l', n', p', set_sub r idx pp, u').
Proof.
  intros (Hc & Sr & Lr) Hc'. split; [exact Hc'|]. split; [exact Sr|].
  cbn [s_ray fst snd set_sub dat]. rewrite upd_block_length. exact Lr.
Qed.

Section Inv2.
Variables (z x zgrad xgrad : arr R) (zsrc xsrc stepsize : R) (M : Z).
Local Notation St := (@St2 R).

Lemma gbody2_inv hg (s s' : St) : InvS hg s -> RInv 2 M s ->
  (gbody2 z x zgrad xgrad zsrc xsrc stepsize M hg s = Next s' \/
   gbody2 z x zgrad xgrad zsrc xsrc stepsize M hg s = Brk s') ->
  InvS hg s' /\ RInv 2 M s'.
Proof.
  intros Hi Hr. pose proof Hi as (Hp & Hd & Hlu). pose proof Hr as (Hc & _).
  destruct s as [[[[[[c d] l] n] p] r] u]. cbn [s_count s_delta s_lower s_nfree s_pcur s_ray s_upper fst snd] in *.
  unfold gbody2. cbn [s_count s_delta s_lower s_nfree s_pcur s_ray s_upper fst snd].
  destruct (btest _ _ _); [intros [E|E]; [discriminate|injection E as <-; split; assumption]|].
  destruct (ngtb _ _); [|intros [E|E]; [discriminate|injection E as <-; split; assumption]].
  pose proof (len2_ndelta2 z x zgrad xgrad stepsize d p Hd) as Hd'.
  set (d' := ndelta2 z x zgrad xgrad stepsize d p) in *. clearbody d'.
  destruct hg.
  - destruct (Hlu eq_refl) as [Hl Hu].
    set (fac := FteikCommon.shrink p d' l u). clearbody fac.
    assert (Hp3 : vec2 (clamp2 z x (amap2 (@nsub R NumR) p (amap (fun e : R => nmul fac e) d')))).
    { apply vec2_clamp2, vec2_amap2; [exact Hp|apply len2_amap; exact Hd']. }
    set (p3 := clamp2 z x _) in *. clearbody p3.
    destruct (nltb fac _).
    + assert (Hp4 : vec2 (magnet 2 l u p3)).
      { unfold magnet. apply vec2_for_list; [|exact Hp3]. intros ix q Hq. apply vec2_magnet1. exact Hq. }
      set (p4 := magnet 2 l u p3) in *. clearbody p4.
      assert (G : forall s0 : St, s0 = (c + 1, d', cells_lo2 z x l p4, 0, p4, set_sub r [c] p4, cells_up2 z x u p4) ->
                  InvS true s0 /\ RInv 2 M s0).
      { intros s0 ->. split.
        - split; [exact Hp4|]. split; [exact Hd'|]. intros _.
          split; [apply vec2_set, vec2_set, Hl|apply vec2_set, vec2_set, Hu].
        - eapply RInv_store; [exact Hr|lia]. }
      destruct (_ && _); intros [E|E]; try discriminate; injection E as <-; apply G; reflexivity.
    + intros [E|E]; [|discriminate]. injection E as <-. split.
      * split; [exact Hp3|]. split; [exact Hd'|]. intros _. split; assumption.
      * eapply RInv_keep; [exact Hr|lia].
  - assert (Hp3 : vec2 (clamp2 z x (amap2 (@nsub R NumR) p d'))).
    { apply vec2_clamp2, vec2_amap2; [exact Hp|exact Hd']. }
    set (p3 := clamp2 z x _) in *. clearbody p3.
    intros [E|E]; [|discriminate]. injection E as <-. split.
    + split; [exact Hp3|]. split; [exact Hd'|]. intros; discriminate.
    + eapply RInv_store; [exact Hr|lia].
Qed.
End Inv2.

(* ------------------------------------------------------------------------------------------ *)
(* 6. (T1) the 2D core                                                                          *)
(* ------------------------------------------------------------------------------------------ *)
Lemma while_fuel_ext' {S} (c c' : S -> bool) (b b' : S -> ctl S) :
  (forall s, c s = c' s) -> (forall s, b s = b' s) ->
  forall fuel s, while_fuel fuel c b s = while_fuel fuel c' b' s.
Proof.
  intros Hc Hb. induction fuel as [|f IH]; intros s; simpl; [reflexivity|].
  rewrite Hc, Hb. destruct (c' s); [|reflexivity]. destruct (b' s); auto.
Qed.

Lemma length_full2 (M w : Z) (v : R) : 0 <= w -> length (dat (full [M; w] v)) = (Z.to_nat M * Z.to_nat w)%nat.
Proof. intros Hw. unfold full. cbn [dat]. rewrite repeat_length. unfold prodZ. simpl. nia. Qed.

Section Main2.
Local Open Scope R_scope.
Variables (a b : R) (z x zgrad xgrad : arr R) (nz nx : Z) (zend xend zsrc xsrc stepsize : R) (M : Z) (hg : bool).
Hypothesis Az : axis z nz.
Hypothesis Ax : axis x nx.
Hypothesis Sz : shape zgrad = [nz; nx].
Hypothesis Sx : shape xgrad = [nz; nx].
Local Notation o := [a; b].
Local Notation z' := (shift_axis a z).
Local Notation x' := (shift_axis b x).
Local Notation r0 := (@nofZ R NumR 0%Z).
Local Notation St := (@St2 R).
Local Notation core fuel := (u_ray2d_core_v fuel z x zgrad xgrad zend xend zsrc xsrc stepsize M hg).
Local Notation core' fuel :=
  (u_ray2d_core_v fuel z' x' zgrad xgrad (a + zend) (b + xend) (a + zsrc) (b + xsrc) stepsize M hg).

Lemma hull2_shift : hull2 z' x' (a + zend) (b + xend) = hull2 z x zend xend.
Proof.
  change (hull2 z' x' (a + zend) (b + xend)) with (inhullb z' (a + zend) && inhullb x' (b + xend))%bool.
  rewrite (inhullb_shift a z nz zend Az), (inhullb_shift b x nx xend Ax). reflexivity.
Qed.

Lemma ginit2_shift : ginit2 z' x' (a + zend) (b + xend) M hg = SH o (ginit2 z x zend xend M hg).
Proof.
  unfold ginit2, SH. cbn [s_count s_delta s_lower s_nfree s_pcur s_ray s_upper fst snd].
  rewrite (cell_lo_shift a z nz Az), (cell_lo_shift b x nx Ax), (cell_up_shift a z nz Az), (cell_up_shift b x nx Ax).
  assert (Er : set_sub (full [M; 2%Z] r0) [0%Z] (of_list [a + zend; b + xend]) =
               shray o 1 (set_sub (full [M; 2%Z] r0) [0%Z] (of_list [zend; xend]))).
  { change (of_list [a + zend; b + xend]) with (vsh o (of_list [zend; xend])).
    rewrite <- (shray_0 o (full [M; 2%Z] r0)) at 1.
    apply (set_sub_shray o M 0); [reflexivity|apply (length_full2 M 2); lia|lia|lia|reflexivity]. }
  rewrite Er. destruct hg; reflexivity.
Qed.

Lemma ginit2_inv : InvS hg (ginit2 z x zend xend M hg) /\ RInv 2 M (ginit2 z x zend xend M hg).
Proof.
  split.
  - split; [apply vec2_of_list|]. split; [reflexivity|]. intros ->. split; apply vec2_of_list.
  - apply (RInv_full 2 M (of_list [zend; xend]) 1); [lia|reflexivity|reflexivity].
Qed.

(* the translated run is the image of the original run, iteration by iteration *)
Lemma loop2_shift fuel :
  while_fuel fuel (tcond2 (a + zsrc) (b + xsrc) stepsize)
             (gbody2 z' x' zgrad xgrad (a + zsrc) (b + xsrc) stepsize M hg)
             (SH o (ginit2 z x zend xend M hg)) =
  rmap (SH o) (while_fuel fuel (tcond2 zsrc xsrc stepsize) (gbody2 z x zgrad xgrad zsrc xsrc stepsize M hg)
                          (ginit2 z x zend xend M hg)) /\
  (forall s1, while_fuel fuel (tcond2 zsrc xsrc stepsize) (gbody2 z x zgrad xgrad zsrc xsrc stepsize M hg)
                         (ginit2 z x zend xend M hg) = Ok s1 -> InvS hg s1 /\ RInv 2 M s1).
Proof.
  apply (while_fuel_commute (SH o) (fun s => InvS hg s /\ RInv 2 M s)).
  - intros s [Hi _]. apply tcond2_shift. apply Hi.
  - intros s [Hi Hr] _. apply (gbody2_shift a b z x zgrad xgrad nz nx zsrc xsrc stepsize M Az Ax Sz Sx hg s Hi Hr).
  - intros s s' [Hi Hr] _ E. exact (gbody2_inv z x zgrad xgrad zsrc xsrc stepsize M hg s s' Hi Hr E).
  - exact ginit2_inv.
Qed.

(* the core as the modular loop *)
Lemma core2_modular (zz xx : arr R) (ze xe zs xs : R) fuel : hull2 zz xx ze xe = true ->
  u_ray2d_core_v fuel zz xx zgrad xgrad ze xe zs xs stepsize M hg =
  rbind (while_fuel fuel (tcond2 zs xs stepsize) (gbody2 zz xx zgrad xgrad zs xs stepsize M hg) (ginit2 zz xx ze xe M hg))
        (finG (nfree_max2 zz xx stepsize) (of_list [zs; xs]) M).
Proof.
  intros Hh. rewrite (core2_eq zz xx zgrad xgrad ze xe zs xs stepsize hg M fuel Hh). unfold run.
  rewrite (init2_spec zz xx zgrad xgrad ze xe zs xs stepsize M hg).
  rewrite (while_fuel_ext' _ (tcond2 zs xs stepsize) _ (gbody2 zz xx zgrad xgrad zs xs stepsize M hg)
             (cond2_spec zz xx zgrad xgrad ze xe zs xs stepsize hg)
             (body2_spec zz xx zgrad xgrad ze xe zs xs stepsize M hg)).
  reflexivity.
Qed.

Theorem ray2d_core_translate fuel :
  match core fuel with
  | Ok (ray, c) =>
      shape ray = [M; 2%Z] /\ length (dat ray) = (Z.to_nat M * 2)%nat /\
      exists k, core' fuel = Ok (shray o k ray, c) /\ ((0 <= c)%Z -> k = (c + 1)%Z) /\ (c = (-1)%Z -> k = 0%Z)
  | Raise e => core' fuel = Raise e
  | OutOfFuel => core' fuel = OutOfFuel
  end.
Proof.
  destruct (hull2 z x zend xend) eqn:Hh.
  - pose proof Hh as Hh'. rewrite <- hull2_shift in Hh'.
    rewrite (core2_modular z x zend xend zsrc xsrc fuel Hh), (core2_modular z' x' _ _ _ _ fuel Hh').
    rewrite ginit2_shift. destruct (loop2_shift fuel) as [-> Hfin].
    destruct (while_fuel fuel _ _ (ginit2 z x zend xend M hg)) as [s1| |] eqn:Ew; cbn [rmap rbind]; try reflexivity.
    destruct (Hfin s1 eq_refl) as [Hi (Hc & Sr & Lr)].
    unfold finG. rewrite (nfree_max2_shift a b z x nz nx Az Ax).
    destruct s1 as [[[[[[c d] l] n] p] r] u]. unfold SH, btest.
    cbn [s_count s_delta s_lower s_nfree s_pcur s_ray s_upper fst snd] in *.
    destruct ((M <=? c)%Z || (nfree_max2 z x stepsize <? n)%Z) eqn:Eb.
    + split; [exact Sr|]. split; [exact Lr|]. exists c. split; [reflexivity|]. split; intros; lia.
    + apply orb_false_elim in Eb. destruct Eb as [Eb _]. apply Z.leb_gt in Eb.
      split; [exact Sr|]. split; [cbn [set_sub dat]; rewrite upd_block_length; exact Lr|].
      exists (c + 1)%Z. split; [|split; intros; lia].
      change (of_list [a + zsrc; b + xsrc]) with (vsh o (of_list [zsrc; xsrc])).
      rewrite (set_sub_shray o M c r (of_list [zsrc; xsrc]) Sr Lr Hc (or_introl Eb) eq_refl). reflexivity.
  - pose proof Hh as Hh'. rewrite <- hull2_shift in Hh'.
    rewrite (ray2d_core_outside z x zgrad xgrad zend xend zsrc xsrc stepsize M hg Hh fuel).
    rewrite (ray2d_core_outside z' x' zgrad xgrad _ _ _ _ stepsize M hg Hh' fuel).
    split; [reflexivity|]. split; [apply (length_full2 M 2); lia|].
    exists 0%Z. rewrite shray_0. split; [reflexivity|]. split; intros; lia.
Qed.

(* (T1) as a statement about the stored rows: same count, rows 0..count translated, the other rows
   (never written: zeros) identical; the outcomes -1, -2 and fuel exhaustion coincide *)
Corollary ray2d_core_translate_rows fuel ray c : core fuel = Ok (ray, c) ->
  exists ray', core' fuel = Ok (ray', c) /\ shape ray' = shape ray /\ length (dat ray') = length (dat ray) /\
    (forall k j, (0 <= k <= c)%Z -> (0 <= j < 2)%Z ->
       get 0 ray' [k; j] = nth (Z.to_nat j) o 0 + get 0 ray [k; j]) /\
    ((-1 <= c)%Z -> forall k j, (c < k < M)%Z -> (0 <= j < 2)%Z -> get 0 ray' [k; j] = get 0 ray [k; j]).
Proof.
  intros Hc. pose proof (ray2d_core_translate fuel) as Ht. rewrite Hc in Ht.
  destruct Ht as (Sr & Lr & k & Hc' & Hk1 & Hk2).
  destruct (ray2d_core_count_range _ _ _ _ _ _ _ _ _ _ _ _ _ _ Hc) as [Hrange _].
  exists (shray o k ray). split; [exact Hc'|]. split; [reflexivity|]. split; [apply length_shray|]. split.
  - intros i j Hi Hj. rewrite (get_shray o M k i j ray Sr Lr) by (simpl; lia).
    rewrite Hk1 by lia. destruct (Z.ltb_spec i (c + 1)); [reflexivity|lia].
  - intros Hge i j Hi Hj. rewrite (get_shray o M k i j ray Sr Lr) by (simpl; lia).
    assert (Ek : k = (c + 1)%Z) by (destruct (Z.eq_dec c (-1)) as [->|]; [apply Hk2; reflexivity|apply Hk1; lia]).
    rewrite Ek. destruct (Z.ltb_spec i (c + 1)); [lia|ring].
Qed.
Corollary ray2d_core_translate_fuel fuel : core fuel = OutOfFuel <-> core' fuel = OutOfFuel.
Proof.
  pose proof (ray2d_core_translate fuel) as Ht. destruct (core fuel) as [[ray c]|e|].
  - destruct Ht as (_ & _ & k & -> & _). split; discriminate.
  - rewrite Ht. split; discriminate.
  - rewrite Ht. split; reflexivity.
Qed.

(* ---------------------------------------------------------------------------------------- *)
(* (T2) the wrapper _ray2d and the entry point ray2d (single end point)                       *)
(* ---------------------------------------------------------------------------------------- *)
Local Notation single fuel := (u_ray2d_v fuel z x zgrad xgrad zend xend zsrc xsrc stepsize M hg).
Local Notation single' fuel :=
  (u_ray2d_v fuel z' x' zgrad xgrad (a + zend) (b + xend) (a + zsrc) (b + xsrc) stepsize M hg).

Theorem ray2d_translate fuel :
  match single fuel with
  | Ok (ray, c) =>
      (1 <= c < M)%Z /\ shape ray = [M; 2%Z] /\ length (dat ray) = (Z.to_nat M * 2)%nat /\
      single' fuel = Ok (shray o (c + 1) ray, c)
  | Raise e => single' fuel = Raise e
  | OutOfFuel => single' fuel = OutOfFuel
  end.
Proof.
  unfold u_ray2d_v. pose proof (ray2d_core_translate fuel) as Ht.
  destruct (core fuel) as [[ray c]|e|] eqn:Hc; cbn [rbind fst snd].
  - destruct Ht as (Sr & Lr & k & -> & Hk1 & Hk2). cbn [rbind fst snd].
    destruct (ray2d_core_count_range _ _ _ _ _ _ _ _ _ _ _ _ _ _ Hc) as [Hrange _].
    destruct (Z.eqb_spec c (-1)); [reflexivity|]. destruct (Z.eqb_spec c (-2)); [reflexivity|].
    rewrite Hk1 by lia. split; [lia|]. split; [exact Sr|]. split; [exact Lr|reflexivity].
  - rewrite Ht. reflexivity.
  - rewrite Ht. reflexivity.
Qed.

End Main2.

(* the polyline returned by ray2d for one end point: every vertex is translated by (a, b) *)
Theorem ray2d_1_translate (a b : R) (z x zgrad xgrad : arr R) (nz nx : Z) (p src : arr R) (stepsize : R)
        (M : Z) (hg : bool) (fuel : nat) :
  axis z nz -> axis x nx -> shape zgrad = [nz; nx] -> shape xgrad = [nz; nx] -> vec2 p -> vec2 src ->
  match ray2d_1 fuel z x zgrad xgrad p src stepsize M hg with
  | Ok r => ray2d_1 fuel (shift_axis a z) (shift_axis b x) zgrad xgrad (vsh [a; b] p) (vsh [a; b] src) stepsize M hg
            = Ok (addvec [a; b] r)
  | Raise e => ray2d_1 fuel (shift_axis a z) (shift_axis b x) zgrad xgrad (vsh [a; b] p) (vsh [a; b] src) stepsize M hg
               = Raise e
  | OutOfFuel => ray2d_1 fuel (shift_axis a z) (shift_axis b x) zgrad xgrad (vsh [a; b] p) (vsh [a; b] src) stepsize M hg
                 = OutOfFuel
  end.
Proof.
  intros Az Ax Sz Sx Hp Hs. unfold ray2d_1.
  destruct (get_vsh2 a b p Hp) as [-> ->]. destruct (get_vsh2 a b src Hs) as [-> ->].
  pose proof (ray2d_translate a b z x zgrad xgrad nz nx (get (nofZ 0) p [0]) (get (nofZ 0) p [1])
                (get (nofZ 0) src [0]) (get (nofZ 0) src [1]) stepsize M hg Az Ax Sz Sx fuel) as Ht.
  destruct (u_ray2d_v fuel z x zgrad xgrad _ _ _ _ stepsize M hg) as [[ray c]|e|]; cbn [rbind].
  - destruct Ht as (Hc & Sr & Lr & ->). cbn [rbind fst snd]. f_equal.
    apply (rev_prefix_shray [a; b] M c ray Sr Lr). lia.
  - rewrite Ht. reflexivity.
  - rewrite Ht. reflexivity.
Qed.

(* vertex i of the translated polyline *)
Corollary ray2d_1_translate_vertices (a b : R) (z x zgrad xgrad : arr R) (nz nx : Z) (p src : arr R)
          (stepsize : R) (M : Z) (hg : bool) (fuel : nat) (r : arr R) :
  axis z nz -> axis x nx -> shape zgrad = [nz; nx] -> shape xgrad = [nz; nx] -> vec2 p -> vec2 src ->
  ray2d_1 fuel z x zgrad xgrad p src stepsize M hg = Ok r ->
  exists r', ray2d_1 fuel (shift_axis a z) (shift_axis b x) zgrad xgrad (vsh [a; b] p) (vsh [a; b] src)
                     stepsize M hg = Ok r' /\ shape r' = shape r /\
    forall i, 0 <= i < dim r 0%nat ->
      get (nofZ 0) r' [i; 0] = (a + get (nofZ 0%Z) r [i; 0%Z])%R /\ get (nofZ 0) r' [i; 1] = (b + get (nofZ 0%Z) r [i; 1%Z])%R.
Proof.
  intros Az Ax Sz Sx Hp Hs Hr.
  pose proof (ray2d_1_translate a b z x zgrad xgrad nz nx p src stepsize M hg fuel Az Ax Sz Sx Hp Hs) as Ht.
  rewrite Hr in Ht. exists (addvec [a; b] r). split; [exact Ht|]. split; [reflexivity|].
  unfold ray2d_1 in Hr.
  pose proof (ray2d_translate a b z x zgrad xgrad nz nx (get (nofZ 0) p [0]) (get (nofZ 0) p [1])
                (get (nofZ 0) src [0]) (get (nofZ 0) src [1]) stepsize M hg Az Ax Sz Sx fuel) as Hw.
  destruct (u_ray2d_v fuel z x zgrad xgrad _ _ _ _ stepsize M hg) as [[ray c]|e|]; cbn [rbind fst snd] in Hr; try discriminate.
  injection Hr as <-. destruct Hw as (Hc & Sr & Lr & _).
  destruct (length_rev_prefix [a; b] M c ray Sr Lr ltac:(lia)) as [Sp Lp].
  rewrite (dim2_0 _ _ _ Sp). intros i Hi.
  split; [apply (get_addvec [a; b] (c + 1) i 0 _ Sp Lp)|apply (get_addvec [a; b] (c + 1) i 1 _ Sp Lp)]; simpl; lia.
Qed.
