(* C11, clause "every gradient vector returned with return_gradient=True has unit Euclidean norm (or is the zero
   vector)", at SOLVER level, over the reals (T := R, instance NumR), for ALL inputs (no bound on sizes, no hypothesis on
   the medium, the spacings, the source or nsweep: the only hypothesis is that the solver returned).

   The code (end of fteik2d in _fteik/_fteik2d.py; fteik3d_p1 = end of fteik3d in _fteik/_fteik3d.py):
       for i in range(nz): for j in range(nx):
           if ttsgn[i,j,0] != 0: ttgrad[i,j,0] = sgn * (tt[i,j] - tt[i-sgn,j]) / dz        (same for x [, y])
           gn = norm2d(ttgrad[i,j,0], ttgrad[i,j,1]);  if gn > 0.0: ttgrad[i,j] /= gn

     A. arrays         get_block_map3 / get_block_map4: `a[i,j] = f(a[i,j])` (set_sub / amap / get_sub on the last axis)
                       applies f to the entries of node (i,j) and leaves every other node alone
     B. loops          for_list_each: a property established by iteration i and kept by every iteration holds for all i
     C. one node       node2_spec / node3_spec: after its iteration the node holds v/|v| (|v| > 0: norm 1 by
                       GradR.norm2d_normalised) or v = 0 (GradR.norm2d_zero_iff), where v is the raw vector (from the
                       signs, or whatever was in the slot when a sign is 0, e.g. the t_anad seed of the initialisation);
                       no other node is touched (the `frame`), so nothing is normalised twice or by another iteration
     D. ASSEMBLY level asm2_unit_or_zero, asm3_unit_or_zero, fteik3d_p1_unit_or_zero: for ANY incoming tt, ttsgn and any
                       well-formed ttgrad of shape (nz, nx, 2) / (nz, nx, ny, 3), every node of the outgoing array is
                       unit-or-zero; asm2 / asm3 are the loop nests (assembly_is_asm2, fteik3d_p1_is_asm3: reflexivity)
     E. SOLVER level   fteik2d_gradient_unit_or_zero      (1)
                       fteik3d_gradient_unit_or_zero      (2)
                       fteik2d_gradient_shape, fteik3d_gradient_shape   the returned array is well formed, shape
                                                          (nz+1, nx+1, 2) / (nz+1, nx+1, ny+1, 3): the entries read in
                                                          (1), (2) are slots of the array, not defaults
                       fteik2d_gradient_empty_without_flag, fteik3d_gradient_empty_without_flag   (3) grad = false:
                                                          shape (0, 0, 0) / (0, 0, 0, 0), no values
     F. non-vacuity    fteik2d_gradient_run_R, fteik3d_gradient_run_R (the hypothesis is satisfiable: a 2 x 2 (x 2)-cell
                       model, off-node source), asm2_normalises_R (the unit branch: (3, 4) -> (3/5, 4/5)),
                       FloatRun.run2_binary64 / run3_binary64 (vm_compute on binary64: the run returns, node (0,0[,0]) has
                       a non-zero gradient, squared norms are 1 up to 2^-50 at all nodes)

   Caveat (binary64): the statement is exact arithmetic; in floating point g/|g| has norm 1 only up to rounding. *)
From Coq Require Import ZArith List Bool Lia Reals Lra Psatz.
From FT.lib Require Import Num Arr ArrLemmas.
From FT.gen Require Import Common Fteik2d Fteik3d.
From FT.proofs Require Import GradR Solve2dProofs Solve3dProofs Safety2d.
Import ListNotations.
Open Scope Z_scope.

(* ------------------------------------------------------------------------------------------ *)
(* lists: a block of c consecutive entries replaced by its image under f                        *)
(* ------------------------------------------------------------------------------------------ *)
Section Lists.
Context {A : Type}.

Lemma upd_block_length (vs : list A) : forall l n, length (upd_block l n vs) = length l.
Proof. induction vs as [|v vs IH]; intros l n; cbn [upd_block]; [reflexivity|]. rewrite IH. apply upd_length. Qed.

Lemma nth_upd_block_out (vs : list A) : forall l n m d,
  (m < n \/ n + length vs <= m)%nat -> nth m (upd_block l n vs) d = nth m l d.
Proof.
  induction vs as [|v vs IH]; intros l n m d Hm; cbn [upd_block]; [reflexivity|].
  cbn [length] in Hm. rewrite IH by lia. apply nth_upd_other. lia.
Qed.

Lemma nth_upd_block_in (vs : list A) : forall l n m d,
  (n + length vs <= length l)%nat -> (n <= m < n + length vs)%nat ->
  nth m (upd_block l n vs) d = nth (m - n) vs d.
Proof.
  induction vs as [|v vs IH]; intros l n m d Hl Hm; cbn [length] in *; [lia|]. cbn [upd_block].
  destruct (Nat.eq_dec m n) as [->|Hne].
  - rewrite nth_upd_block_out by lia. rewrite Nat.sub_diag. cbn [nth]. apply nth_upd_same. lia.
  - rewrite IH by (rewrite ?upd_length; lia).
    replace (m - n)%nat with (S (m - S n)) by lia. reflexivity.
Qed.

Lemma nth_skipn_add (l : list A) : forall n k d, nth k (skipn n l) d = nth (n + k) l d.
Proof.
  induction l as [|x l IH]; intros [|n] k d; cbn [skipn plus]; try reflexivity.
  - destruct k; reflexivity.
  - rewrite IH. reflexivity.
Qed.

Lemma nth_firstn_lt (l : list A) : forall c k d, (k < c)%nat -> nth k (firstn c l) d = nth k l d.
Proof.
  induction l as [|x l IH]; intros [|c] [|k] d Hk; cbn [firstn nth]; try reflexivity; try lia.
  apply IH. lia.
Qed.

(* the block [off, off + c) of l is replaced by its image under f *)
Lemma nth_block_map (f : A -> A) (l : list A) (off c m : nat) d :
  (off + c <= length l)%nat ->
  nth m (upd_block l off (map f (firstn c (skipn off l)))) d =
  if ((off <=? m) && (m <? off + c))%nat then f (nth m l d) else nth m l d.
Proof.
  intros Hl.
  assert (Hlen : length (map f (firstn c (skipn off l))) = c).
  { rewrite map_length, firstn_length, skipn_length. lia. }
  destruct ((off <=? m) && (m <? off + c))%nat eqn:E.
  - apply andb_prop in E as [E1 E2]. apply Nat.leb_le in E1. apply Nat.ltb_lt in E2.
    rewrite nth_upd_block_in by (rewrite ?Hlen; lia).
    rewrite (nth_indep _ d (f d)) by (rewrite Hlen; lia).
    rewrite map_nth. f_equal. rewrite nth_firstn_lt by lia. rewrite nth_skipn_add. f_equal. lia.
  - apply nth_upd_block_out. rewrite Hlen.
    apply andb_false_iff in E as [E|E]; [apply Nat.leb_gt in E | apply Nat.ltb_ge in E]; lia.
Qed.
End Lists.

(* ------------------------------------------------------------------------------------------ *)
(* arrays: `a[i, j] = f(a[i, j])` on the last axis (Python `ttgrad[i, j] /= gn`)                *)
(* ------------------------------------------------------------------------------------------ *)
Lemma lin_inj a b a' b' n : 0 <= b < n -> 0 <= b' < n -> a * n + b = a' * n + b' -> a = a' /\ b = b'.
Proof. intros Hb Hb' E. assert (a = a') by nia. subst a'. lia. Qed.

Section Blocks.
Context {A : Type}.

Lemma wf_set_sub_map (f : A -> A) (a : arr A) idx :
  wf a -> wf (set_sub a idx (amap f (get_sub a idx))).
Proof. intros [Hl Hs]. split; cbn [set_sub shape dat]; [|exact Hs]. rewrite upd_block_length. exact Hl. Qed.

Lemma shape_set_sub' (a s : arr A) idx : shape (set_sub a idx s) = shape a.
Proof. reflexivity. Qed.

(* rank 3, node index [i; j], c entries per node *)
Lemma get_block_map3 (f : A -> A) d (a : arr A) n0 n1 c i j i' j' k :
  wf a -> shape a = [n0; n1; c] ->
  0 <= i < n0 -> 0 <= j < n1 -> 0 <= i' < n0 -> 0 <= j' < n1 -> 0 <= k < c ->
  get d (set_sub a [i; j] (amap f (get_sub a [i; j]))) [i'; j'; k] =
  if (i =? i') && (j =? j') then f (get d a [i'; j'; k]) else get d a [i'; j'; k].
Proof.
  intros [Hl _] Hs Hi Hj Hi' Hj' Hk.
  unfold get, set_sub, amap, get_sub, sub_off. rewrite Hs in *. cbn [shape dat length skipn flat flat_aux].
  unfold prodZ in *. cbn [fold_right] in *.
  set (p := (0 * n0 + i) * n1 + j). set (q := (0 * n0 + i') * n1 + j').
  assert (Hp : 0 <= p < n0 * n1) by (unfold p; nia).
  assert (Hq : 0 <= q < n0 * n1) by (unfold q; nia).
  rewrite nth_block_map by nia.
  destruct ((i =? i') && (j =? j')) eqn:E.
  - apply andb_prop in E as [E1 E2]. apply Z.eqb_eq in E1, E2. subst i' j'. subst q. fold p.
    lazymatch goal with |- (if ?b then _ else _) = _ => replace b with true; [reflexivity|] end.
    symmetry. apply andb_true_intro. split; [apply Nat.leb_le | apply Nat.ltb_lt]; nia.
  - assert (Hpq : p <> q).
    { intro Epq. unfold p, q in Epq. apply lin_inj in Epq as [Ei Ej]; [|lia|lia].
      assert (i = i') by lia. subst i' j'.
      rewrite !Z.eqb_refl in E. discriminate. }
    lazymatch goal with |- (if ?b then _ else _) = _ => replace b with false; [reflexivity|] end.
    symmetry. apply andb_false_iff.
    destruct (Z_lt_ge_dec q p) as [Hlt|Hge]; [left; apply Nat.leb_gt | right; apply Nat.ltb_ge].
    + assert (q * c + k < p * c) by nia. nia.
    + assert ((p + 1) * c <= q * c + k) by nia. nia.
Qed.

(* rank 4, node index [i; j; l], c entries per node *)
Lemma get_block_map4 (f : A -> A) d (a : arr A) n0 n1 n2 c i j l i' j' l' k :
  wf a -> shape a = [n0; n1; n2; c] ->
  0 <= i < n0 -> 0 <= j < n1 -> 0 <= l < n2 -> 0 <= i' < n0 -> 0 <= j' < n1 -> 0 <= l' < n2 -> 0 <= k < c ->
  get d (set_sub a [i; j; l] (amap f (get_sub a [i; j; l]))) [i'; j'; l'; k] =
  if (i =? i') && (j =? j') && (l =? l') then f (get d a [i'; j'; l'; k]) else get d a [i'; j'; l'; k].
Proof.
  intros [Hl _] Hs Hi Hj Hll Hi' Hj' Hll' Hk.
  unfold get, set_sub, amap, get_sub, sub_off. rewrite Hs in *. cbn [shape dat length skipn flat flat_aux].
  unfold prodZ in *. cbn [fold_right] in *.
  set (p := ((0 * n0 + i) * n1 + j) * n2 + l). set (q := ((0 * n0 + i') * n1 + j') * n2 + l').
  assert (Hp0 : 0 <= (0 * n0 + i) * n1 + j < n0 * n1) by nia.
  assert (Hq0 : 0 <= (0 * n0 + i') * n1 + j' < n0 * n1) by nia.
  assert (Hp : 0 <= p < n0 * n1 * n2) by (unfold p; nia).
  assert (Hq : 0 <= q < n0 * n1 * n2) by (unfold q; nia).
  rewrite nth_block_map by nia.
  destruct ((i =? i') && (j =? j') && (l =? l')) eqn:E.
  - apply andb_prop in E as [E E3]. apply andb_prop in E as [E1 E2]. apply Z.eqb_eq in E1, E2, E3. subst i' j' l'. subst q. fold p.
    lazymatch goal with |- (if ?b then _ else _) = _ => replace b with true; [reflexivity|] end.
    symmetry. apply andb_true_intro. split; [apply Nat.leb_le | apply Nat.ltb_lt]; nia.
  - assert (Hpq : p <> q).
    { intro Epq. unfold p, q in Epq.
      apply lin_inj in Epq as [Eij El]; [|lia|lia]. apply lin_inj in Eij as [Ei Ej]; [|lia|lia].
      assert (i = i') by lia. subst i' j' l'.
      rewrite !Z.eqb_refl in E. discriminate. }
    lazymatch goal with |- (if ?b then _ else _) = _ => replace b with false; [reflexivity|] end.
    symmetry. apply andb_false_iff.
    destruct (Z_lt_ge_dec q p) as [Hlt|Hge]; [left; apply Nat.leb_gt | right; apply Nat.ltb_ge].
    + assert (q * c + k < p * c) by nia. nia.
    + assert ((p + 1) * c <= q * c + k) by nia. nia.
Qed.
End Blocks.

(* ------------------------------------------------------------------------------------------ *)
(* loops: a property established by the iteration of index i and kept by all iterations          *)
(* ------------------------------------------------------------------------------------------ *)
Lemma for_list_each {S} (I : S -> Prop) (Q : Z -> S -> Prop) (l : list Z) (body : Z -> S -> S) :
  (forall i s, In i l -> I s -> I (body i s) /\ Q i (body i s)) ->
  (forall i i' s, In i l -> In i' l -> I s -> Q i s -> Q i (body i' s)) ->
  forall s, I s -> I (for_list l body s) /\ forall i, In i l -> Q i (for_list l body s).
Proof.
  induction l as [|a l IH]; intros He Hk s Hs; [split; [exact Hs | intros i []]|].
  rewrite for_list_cons.
  destruct (He a s (or_introl eq_refl) Hs) as [Ia Qa].
  destruct (IH (fun i s Hi => He i s (or_intror Hi))
               (fun i i' s Hi Hi' => Hk i i' s (or_intror Hi) (or_intror Hi')) (body a s) Ia) as [If Qf].
  split; [exact If|]. intros i [<-|Hi]; [|apply Qf, Hi].
  apply (for_list_inv (fun t => I t /\ Q a t)); [split; assumption|].
  intros i' t Hi' [It Qt]. split.
  - apply (He i' t (or_intror Hi') It).
  - apply Hk; auto. left; reflexivity. right; exact Hi'.
Qed.

(* ------------------------------------------------------------------------------------------ *)
(* 2D: one node of the assembly loop, the loop nest                                              *)
(* ------------------------------------------------------------------------------------------ *)
Section Node2.
Context {T : Type} `{Num T}.

(* `gn = norm2d(ttgrad[i, j, 0], ttgrad[i, j, 1]); if gn > 0.0: ttgrad[i, j] /= gn` *)
Definition normalize2 (G : arr T) (i j : Z) : arr T :=
  let gn := norm2d (get (nofZ 0) G [i; j; 0]) (get (nofZ 0) G [i; j; 1]) in
  if ngtb gn (nofZ 0) then set_sub G [i; j] (amap (fun e => ndiv e gn) (get_sub G [i; j])) else G.

(* body of `for i in range(nz): for j in range(nx):` at the end of fteik2d *)
Definition node2 (tt : arr T) (sg : arr Z) (dz dx : T) (i j : Z) (G : arr T) : arr T :=
  let sz := get 0 sg [i; j; 0] in
  let G1 := if negb (sz =? 0)
            then set G [i; j; 0] (ndiv (nmul (nofZ sz) (nsub (get (nofZ 0) tt [i; j]) (get (nofZ 0) tt [i - sz; j]))) dz)
            else G in
  let sx := get 0 sg [i; j; 1] in
  let G2 := if negb (sx =? 0)
            then set G1 [i; j; 1] (ndiv (nmul (nofZ sx) (nsub (get (nofZ 0) tt [i; j]) (get (nofZ 0) tt [i; j - sx]))) dx)
            else G1 in
  normalize2 G2 i j.

Definition asm2 (tt : arr T) (sg : arr Z) (dz dx : T) (nz nx : Z) (G : arr T) : arr T :=
  for_list (pyrange 0 nz 1) (fun i G => for_list (pyrange 0 nx 1) (fun j G => node2 tt sg dz dx i j G) G) G.

(* the loop nest of the generated solver is asm2 (Safety2d.assembly is a verbatim copy of the generated text, tied to
   fteik2d_ok by Safety2d.fteik2d_ok_assembly; the solver-level theorem below does not rely on this copy) *)
Lemma assembly_is_asm2 tt sg G dz dx nz nx : Safety2d.assembly tt sg G dz dx nz nx = asm2 tt sg dz dx nz nx G.
Proof. reflexivity. Qed.
End Node2.

Definition okG2 (nz nx : Z) (G : arr R) : Prop := wf G /\ shape G = [nz; nx; 2].
(* the vector stored at node (i, j) is the zero vector or has Euclidean norm 1 *)
Definition uz2 (G : arr R) (i j : Z) : Prop :=
  let gz := get 0%R G [i; j; 0] in let gx := get 0%R G [i; j; 1] in
  (gz = 0 /\ gx = 0)%R \/ sqrt (gz * gz + gx * gx) = 1%R.

Lemma okG2_inb nz nx G i j k : okG2 nz nx G -> 0 <= i < nz -> 0 <= j < nx -> 0 <= k < 2 -> inb G [i; j; k] = true.
Proof.
  intros [_ Hs] Hi Hj Hk. unfold inb. rewrite Hs. cbn [inb_sh].
  repeat (apply andb_true_intro; split); first [reflexivity | apply Z.leb_le; lia | apply Z.ltb_lt; lia].
Qed.

Lemma okG2_set nz nx G idx v : okG2 nz nx G -> okG2 nz nx (set G idx v).
Proof. intros [W S]. split; [apply wf_set, W | exact S]. Qed.

Lemma set_frame2 nz nx G i j c v i' j' k :
  okG2 nz nx G -> 0 <= i < nz -> 0 <= j < nx -> 0 <= c < 2 -> 0 <= i' < nz -> 0 <= j' < nx -> 0 <= k < 2 ->
  (i' <> i \/ j' <> j) -> get 0%R (set G [i; j; c] v) [i'; j'; k] = get 0%R G [i'; j'; k].
Proof.
  intros Hok Hi Hj Hc Hi' Hj' Hk Hne. apply get_set_other; try (eapply okG2_inb; eauto).
  intro E. injection E; intros; lia.
Qed.

Lemma normalize2_spec nz nx (G : arr R) i j :
  okG2 nz nx G -> 0 <= i < nz -> 0 <= j < nx ->
  okG2 nz nx (normalize2 G i j) /\ uz2 (normalize2 G i j) i j /\
  forall i' j' k, 0 <= i' < nz -> 0 <= j' < nx -> 0 <= k < 2 -> (i' <> i \/ j' <> j) ->
    get 0%R (normalize2 G i j) [i'; j'; k] = get 0%R G [i'; j'; k].
Proof.
  intros Hok Hi Hj. pose proof Hok as [W S]. unfold normalize2. cbv zeta.
  change (@nofZ R NumR 0) with 0%R.
  set (gz := get 0%R G [i; j; 0]). set (gx := get 0%R G [i; j; 1]).
  change (ngtb (norm2d gz gx) 0%R) with (Rltb 0 (norm2d gz gx)).
  destruct (Rltb 0 (norm2d gz gx)) eqn:E.
  - apply Rltb_true in E. split; [split; [apply wf_set_sub_map, W | exact S]|]. split.
    + unfold uz2. cbv zeta. right.
      rewrite !(get_block_map3 _ 0%R G nz nx 2 i j i j) by (auto; lia). rewrite !Z.eqb_refl. cbn [andb].
      fold gz gx. change (@ndiv R NumR) with Rdiv.
      rewrite <- norm2d_R. apply norm2d_normalised, E.
    + intros i' j' k Hi' Hj' Hk Hne. rewrite (get_block_map3 _ 0%R G nz nx 2 i j i' j' k) by (auto; lia).
      replace ((i =? i') && (j =? j')) with false; [reflexivity|].
      symmetry. apply andb_false_iff. destruct Hne; [left | right]; apply Z.eqb_neq; lia.
  - apply Rltb_false in E. split; [exact Hok|]. split; [|reflexivity].
    unfold uz2. cbv zeta. fold gz gx. left. apply norm2d_zero_iff.
    pose proof (norm2d_nonneg gz gx). lra.
Qed.

Lemma node2_spec nz nx (tt : arr R) sg dz dx (G : arr R) i j :
  okG2 nz nx G -> 0 <= i < nz -> 0 <= j < nx ->
  okG2 nz nx (node2 tt sg dz dx i j G) /\ uz2 (node2 tt sg dz dx i j G) i j /\
  forall i' j' k, 0 <= i' < nz -> 0 <= j' < nx -> 0 <= k < 2 -> (i' <> i \/ j' <> j) ->
    get 0%R (node2 tt sg dz dx i j G) [i'; j'; k] = get 0%R G [i'; j'; k].
Proof.
  intros Hok Hi Hj. unfold node2. cbv zeta.
  set (b1 := negb (get 0 sg [i; j; 0] =? 0)). set (b2 := negb (get 0 sg [i; j; 1] =? 0)).
  clearbody b1 b2.
  set (G1 := if b1 then set G [i; j; 0] _ else G).
  set (G2 := if b2 then set G1 [i; j; 1] _ else G1).
  assert (H1 : okG2 nz nx G1 /\ forall i' j' k, 0 <= i' < nz -> 0 <= j' < nx -> 0 <= k < 2 -> (i' <> i \/ j' <> j) ->
                 get 0%R G1 [i'; j'; k] = get 0%R G [i'; j'; k]).
  { unfold G1. destruct b1; [|split; [exact Hok | reflexivity]].
    split; [apply okG2_set, Hok|]. intros. apply (set_frame2 nz nx); auto; lia. }
  destruct H1 as [Hok1 F1].
  assert (H2 : okG2 nz nx G2 /\ forall i' j' k, 0 <= i' < nz -> 0 <= j' < nx -> 0 <= k < 2 -> (i' <> i \/ j' <> j) ->
                 get 0%R G2 [i'; j'; k] = get 0%R G [i'; j'; k]).
  { unfold G2. destruct b2; [|split; [exact Hok1 | exact F1]].
    split; [apply okG2_set, Hok1|]. intros. rewrite (set_frame2 nz nx) by (auto; lia). apply F1; auto. }
  destruct H2 as [Hok2 F2].
  destruct (normalize2_spec nz nx G2 i j Hok2 Hi Hj) as (Hok3 & U & F3).
  split; [exact Hok3|]. split; [exact U|]. intros. rewrite F3 by auto. apply F2; auto.
Qed.

(* one iteration makes its own node unit-or-zero and keeps that property at every other node *)
Lemma node2_keeps nz nx (tt : arr R) sg dz dx (G : arr R) i j i' j' :
  okG2 nz nx G -> 0 <= i < nz -> 0 <= j < nx -> 0 <= i' < nz -> 0 <= j' < nx ->
  uz2 G i' j' -> uz2 (node2 tt sg dz dx i j G) i' j'.
Proof.
  intros Hok Hi Hj Hi' Hj' U. destruct (node2_spec nz nx tt sg dz dx G i j Hok Hi Hj) as (_ & Un & F).
  destruct (Z.eq_dec i' i) as [->|Ni]; [destruct (Z.eq_dec j' j) as [->|Nj]|]; [exact Un | |];
    unfold uz2 in *; cbv zeta in *; rewrite !F by (auto; lia); exact U.
Qed.

(* ASSEMBLY LEVEL, 2D: whatever the incoming traveltimes, signs and (well-formed) gradient array, after the loop nest
   every node holds the zero vector or a unit vector *)
Lemma asm2_spec (tt : arr R) (sg : arr Z) (dz dx : R) (nz nx : Z) (G : arr R) :
  okG2 nz nx G ->
  okG2 nz nx (asm2 tt sg dz dx nz nx G) /\
  forall i j, 0 <= i < nz -> 0 <= j < nx -> uz2 (asm2 tt sg dz dx nz nx G) i j.
Proof.
  intros Hok.
  unfold asm2.
  destruct (for_list_each (okG2 nz nx) (fun i G => forall j, 0 <= j < nx -> uz2 G i j) (pyrange 0 nz 1)
              (fun i G => for_list (pyrange 0 nx 1) (fun j G => node2 tt sg dz dx i j G) G)) with (s := G)
    as [HI HQ]; [| | exact Hok | split; [exact HI|]; intros i j Hi Hj; apply HQ; [apply in_pyrange_up; lia | exact Hj]].
  - intros i s Hi Hs. apply in_pyrange_up in Hi.
    destruct (for_list_each (okG2 nz nx) (fun j G => uz2 G i j) (pyrange 0 nx 1)
                (fun j G => node2 tt sg dz dx i j G)) with (s := s) as [Io Qo]; [| | exact Hs |].
    + intros j t Hj Ht. apply in_pyrange_up in Hj.
      destruct (node2_spec nz nx tt sg dz dx t i j Ht) as (A & B & _); try lia. split; assumption.
    + intros j j' t Hj Hj' Ht U. apply in_pyrange_up in Hj, Hj'. apply (node2_keeps nz nx); auto; lia.
    + split; [exact Io|]. intros j Hj. apply Qo, in_pyrange_up. lia.
  - intros i i' s Hi Hi' Hs U. apply in_pyrange_up in Hi, Hi'. cbv beta.
    refine (proj2 (for_list_inv (fun t => okG2 nz nx t /\ forall j, 0 <= j < nx -> uz2 t i j) _ _ _ _ _));
      [split; assumption|].
    intros j' t Hj' [Ht Ut]. apply in_pyrange_up in Hj'. split.
    + apply (node2_spec nz nx tt sg dz dx t i' j' Ht); lia.
    + intros j Hj. apply (node2_keeps nz nx); auto; lia.
Qed.

Theorem asm2_unit_or_zero (tt : arr R) (sg : arr Z) (dz dx : R) (nz nx : Z) (G : arr R) :
  wf G -> shape G = [nz; nx; 2] ->
  forall i j, 0 <= i < nz -> 0 <= j < nx -> uz2 (asm2 tt sg dz dx nz nx G) i j.
Proof. intros W S. apply asm2_spec. split; assumption. Qed.

(* ------------------------------------------------------------------------------------------ *)
(* the gradient array returned by a solver                                                      *)
(* ------------------------------------------------------------------------------------------ *)
Definition grad_is {T} (Q : arr T -> Prop) (r : res (arr T * arr T * T)) : Prop :=
  match r with Ok (_, G, _) => Q G | _ => True end.
Lemma grad_is_ok {T} (Q : arr T -> Prop) a G c : Q G -> grad_is Q (Ok (a, G, c)).
Proof. exact (fun h => h). Qed.
Lemma grad_is_inv {T} (Q : arr T -> Prop) r a G c : grad_is Q r -> r = Ok (a, G, c) -> Q G.
Proof. intros Hr ->. exact Hr. Qed.

(* one top-level binding becomes a local definition (nothing is copied) *)
Ltac glet :=
  lazymatch goal with
  | |- grad_is ?Q (let x := ?v in @?F x) => let y := fresh x in pose (y := v); change (grad_is Q (F y)); cbv beta
  end.
(* the `raise ValueError` guard: nothing to prove when the solver raises *)
Ltac gguard :=
  lazymatch goal with |- grad_is _ (if ?c then _ else _) => destruct c; [exact I|] end.

(* ------------------------------------------------------------------------------------------ *)
(* 2D solver                                                                                    *)
(* ------------------------------------------------------------------------------------------ *)
Local Strategy 1000 [fteik2d_p1 fteik2d_p2 sweep2d fteik3d_p1 sweep3d Fteik3d.t_anad].

Section Solve2.
Context {T : Type} `{Num T}.

(* the source initialisation keeps shape and data length of the gradient array *)
Lemma fteik2d_p2_G dx dz grad iflag nx nz slow (tt : arr T) G S vzero xsa xsi zsa zsi :
  snd (fst (fteik2d_p2 dx dz grad iflag nx nz slow tt G S vzero xsa xsi zsa zsi)) =
  snd (fst (p2core T _ dx dz grad iflag nx nz slow tt G S vzero xsa xsi zsa zsi)).
Proof. exact_no_check (eq_refl (snd (fst (p2core T _ dx dz grad iflag nx nz slow tt G S vzero xsa xsi zsa zsi)))). Qed.

Definition G_keeps (g0 : arr T) (r : arr T * arr T * arr Z) : Prop := sig (snd (fst r)) = sig g0.
Lemma fteik2d_p2_sigG dx dz grad iflag nx nz slow (tt : arr T) G S vzero xsa xsi zsa zsi :
  G_keeps G (fteik2d_p2 dx dz grad iflag nx nz slow tt G S vzero xsa xsi zsa zsi).
Proof.
  unfold G_keeps. rewrite fteik2d_p2_G.
  change (G_keeps G (p2core T _ dx dz grad iflag nx nz slow tt G S vzero xsa xsi zsa zsi)).
  cbv beta delta [p2core].
  lazymatch goal with |- G_keeps _ (if ?c then _ else _) => destruct c end.
  - uwalk ltac:(unfold G_keeps).
  - uwalk ltac:(unfold G_keeps).
Qed.

Variables (slow : arr T) (dz dx zsrc xsrc : T).
Notation NZ := (dim slow 0 + 1).
Notation NX := (dim slow 1 + 1).

Lemma i_ttgrad1_true : i_ttgrad1 slow dz dx zsrc xsrc true = full [NZ; NX; 2] (nofZ 0).
Proof. unfold i_ttgrad1, p1. cbv beta delta [fteik2d_p1]. reflexivity. Qed.
Lemma i_ttgrad1_false : i_ttgrad1 slow dz dx zsrc xsrc false = full [0; 0; 0] (nofZ 0).
Proof. unfold i_ttgrad1, p1. cbv beta delta [fteik2d_p1]. reflexivity. Qed.

Lemma i_ttgrad_sig grad : sig (i_ttgrad slow dz dx zsrc xsrc grad) = sig (i_ttgrad1 slow dz dx zsrc xsrc grad).
Proof. unfold i_ttgrad, p2. apply fteik2d_p2_sigG. Qed.

(* the gradient array entering the assembly loop *)
Lemma i_ttgrad_true_ok :
  0 <= NZ -> 0 <= NX ->
  wf (i_ttgrad slow dz dx zsrc xsrc true) /\ shape (i_ttgrad slow dz dx zsrc xsrc true) = [NZ; NX; 2].
Proof.
  intros Hz Hx. pose proof (i_ttgrad_sig true) as E. rewrite i_ttgrad1_true in E. split.
  - apply (sig_wf _ _ E). apply wf_full. repeat constructor; lia.
  - unfold sig in E. injection E as E _. exact E.
Qed.

(* with return_gradient=True the returned gradient is the result of the assembly loop nest on the initialised array *)
Lemma fteik2d_grad_true nsweep :
  grad_is (fun G => exists tt sg, G = asm2 tt sg dz dx NZ NX (i_ttgrad slow dz dx zsrc xsrc true))
          (fteik2d slow dz dx zsrc xsrc nsweep true).
Proof.
  rewrite <- (i_nz_eq slow dz dx zsrc xsrc true), <- (i_nx_eq slow dz dx zsrc xsrc true).
  cbv beta delta [fteik2d]. repeat glet. gguard. repeat glet.
  lazymatch goal with sg := _ : arr Z |- grad_is _ (Ok (?tt, _, _)) => apply grad_is_ok; exists tt, sg; reflexivity end.
Qed.

(* without the flag the returned gradient is the placeholder allocated at the start *)
Lemma fteik2d_grad_false nsweep :
  grad_is (fun G => G = i_ttgrad slow dz dx zsrc xsrc false) (fteik2d slow dz dx zsrc xsrc nsweep false).
Proof.
  cbv beta delta [fteik2d]. repeat glet. gguard. repeat glet.
  apply grad_is_ok. reflexivity.
Qed.

(* (3) with return_gradient=False the returned gradient array is empty, shape (0, 0, 0) *)
Theorem fteik2d_gradient_empty_without_flag nsweep tt ttgrad vzero :
  fteik2d slow dz dx zsrc xsrc nsweep false = Ok (tt, ttgrad, vzero) ->
  shape ttgrad = [0; 0; 0] /\ dat ttgrad = [].
Proof.
  intros E. pose proof (grad_is_inv _ _ _ _ _ (fteik2d_grad_false nsweep) E) as ->.
  pose proof (i_ttgrad_sig false) as S. rewrite i_ttgrad1_false in S. unfold sig in S. cbn [shape dat full] in S.
  injection S as S1 S2. split; [exact S1|]. apply length_zero_iff_nil. rewrite S2. reflexivity.
Qed.
End Solve2.

(* (1) SOLVER LEVEL, 2D *)
Theorem fteik2d_gradient_unit_or_zero (slow : arr R) (dz dx zsrc xsrc : R) (nsweep : Z) (tt ttgrad : arr R) (vzero : R) :
  fteik2d slow dz dx zsrc xsrc nsweep true = Ok (tt, ttgrad, vzero) ->
  forall i j, 0 <= i < dim slow 0 + 1 -> 0 <= j < dim slow 1 + 1 ->
    let gz := get 0%R ttgrad [i; j; 0] in
    let gx := get 0%R ttgrad [i; j; 1] in
    (gz = 0 /\ gx = 0)%R \/ sqrt (gz * gz + gx * gx) = 1%R.
Proof.
  intros E i j Hi Hj.
  destruct (grad_is_inv _ _ _ _ _ (fteik2d_grad_true slow dz dx zsrc xsrc nsweep) E) as (tt' & sg & ->).
  destruct (i_ttgrad_true_ok slow dz dx zsrc xsrc) as [W S]; [lia | lia |].
  exact (asm2_unit_or_zero tt' sg dz dx _ _ _ W S i j Hi Hj).
Qed.

(* the entries read above are slots of the returned array: it is well formed, of shape (nz + 1, nx + 1, 2) *)
Theorem fteik2d_gradient_shape (slow : arr R) (dz dx zsrc xsrc : R) (nsweep : Z) (tt ttgrad : arr R) (vzero : R) :
  0 <= dim slow 0 + 1 -> 0 <= dim slow 1 + 1 ->
  fteik2d slow dz dx zsrc xsrc nsweep true = Ok (tt, ttgrad, vzero) ->
  wf ttgrad /\ shape ttgrad = [dim slow 0 + 1; dim slow 1 + 1; 2].
Proof.
  intros Hz Hx E.
  destruct (grad_is_inv _ _ _ _ _ (fteik2d_grad_true slow dz dx zsrc xsrc nsweep) E) as (tt' & sg & ->).
  apply asm2_spec. apply i_ttgrad_true_ok; assumption.
Qed.

(* ------------------------------------------------------------------------------------------ *)
(* 3D: one node of the assembly loop, the loop nest (Fteik3d.fteik3d_p1)                         *)
(* ------------------------------------------------------------------------------------------ *)
Section Node3.
Context {T : Type} `{Num T}.

Definition normalize3 (G : arr T) (i j k : Z) : arr T :=
  let gn := norm3d (get (nofZ 0) G [i; j; k; 0]) (get (nofZ 0) G [i; j; k; 1]) (get (nofZ 0) G [i; j; k; 2]) in
  if ngtb gn (nofZ 0) then set_sub G [i; j; k] (amap (fun e => ndiv e gn) (get_sub G [i; j; k])) else G.

Definition node3 (tt : arr T) (sg : arr Z) (dz dx dy : T) (i j k : Z) (G : arr T) : arr T :=
  let sz := get 0 sg [i; j; k; 0] in
  let G1 := if negb (sz =? 0)
            then set G [i; j; k; 0]
                     (ndiv (nmul (nofZ sz) (nsub (get (nofZ 0) tt [i; j; k]) (get (nofZ 0) tt [i - sz; j; k]))) dz)
            else G in
  let sx := get 0 sg [i; j; k; 1] in
  let G2 := if negb (sx =? 0)
            then set G1 [i; j; k; 1]
                     (ndiv (nmul (nofZ sx) (nsub (get (nofZ 0) tt [i; j; k]) (get (nofZ 0) tt [i; j - sx; k]))) dx)
            else G1 in
  let sy := get 0 sg [i; j; k; 2] in
  let G3 := if negb (sy =? 0)
            then set G2 [i; j; k; 2]
                     (ndiv (nmul (nofZ sy) (nsub (get (nofZ 0) tt [i; j; k]) (get (nofZ 0) tt [i; j; k - sy]))) dy)
            else G2 in
  normalize3 G3 i j k.

Definition asm3 (tt : arr T) (sg : arr Z) (dz dx dy : T) (nz nx ny : Z) (G : arr T) : arr T :=
  for_list (pyrange 0 nz 1) (fun i G =>
    for_list (pyrange 0 nx 1) (fun j G =>
      for_list (pyrange 0 ny 1) (fun k G => node3 tt sg dz dx dy i j k G) G) G) G.

(* the outlined gradient assembly of the generated solver, with the flag on, is asm3 (its arguments i j k are dead) *)
Lemma fteik3d_p1_is_asm3 dx dy dz i0 j0 k0 nx ny nz tt G sg :
  fteik3d_p1 dx dy dz true i0 j0 k0 nx ny nz tt G sg = asm3 tt sg dz dx dy nz nx ny G.
Proof. reflexivity. Qed.
Lemma fteik3d_p1_off dx dy dz i0 j0 k0 nx ny nz tt G sg :
  fteik3d_p1 dx dy dz false i0 j0 k0 nx ny nz tt G sg = G.
Proof. reflexivity. Qed.
End Node3.

Lemma norm3d_nonneg a b c : (0 <= norm3d (T:=R) a b c)%R.
Proof. rewrite norm3d_R. apply sqrt_pos. Qed.
Lemma norm3d_zero_iff a b c : norm3d (T:=R) a b c = 0%R <-> (a = 0 /\ b = 0 /\ c = 0)%R.
Proof.
  rewrite norm3d_R. split.
  - intros H0. apply sqrt_eq_0 in H0; [|nra]. repeat split; nra.
  - intros (-> & -> & ->). replace (0 * 0 + 0 * 0 + 0 * 0)%R with 0%R by ring. apply sqrt_0.
Qed.

Definition okG3 (nz nx ny : Z) (G : arr R) : Prop := wf G /\ shape G = [nz; nx; ny; 3].
Definition uz3 (G : arr R) (i j k : Z) : Prop :=
  let gz := get 0%R G [i; j; k; 0] in let gx := get 0%R G [i; j; k; 1] in let gy := get 0%R G [i; j; k; 2] in
  (gz = 0 /\ gx = 0 /\ gy = 0)%R \/ sqrt (gz * gz + gx * gx + gy * gy) = 1%R.

Lemma okG3_inb nz nx ny G i j k c :
  okG3 nz nx ny G -> 0 <= i < nz -> 0 <= j < nx -> 0 <= k < ny -> 0 <= c < 3 -> inb G [i; j; k; c] = true.
Proof.
  intros [_ Hs] Hi Hj Hk Hc. unfold inb. rewrite Hs. cbn [inb_sh].
  repeat (apply andb_true_intro; split); first [reflexivity | apply Z.leb_le; lia | apply Z.ltb_lt; lia].
Qed.
Lemma okG3_set nz nx ny G idx v : okG3 nz nx ny G -> okG3 nz nx ny (set G idx v).
Proof. intros [W S]. split; [apply wf_set, W | exact S]. Qed.

Section Frame3.
Variables (nz nx ny : Z).
(* the entries of all nodes other than (i, j, k) are the same in G' and G *)
Definition frame3 (i j k : Z) (G' G : arr R) : Prop :=
  forall i' j' k' c, 0 <= i' < nz -> 0 <= j' < nx -> 0 <= k' < ny -> 0 <= c < 3 -> (i' <> i \/ j' <> j \/ k' <> k) ->
    get 0%R G' [i'; j'; k'; c] = get 0%R G [i'; j'; k'; c].

Lemma set_frame3 G i j k c v :
  okG3 nz nx ny G -> 0 <= i < nz -> 0 <= j < nx -> 0 <= k < ny -> 0 <= c < 3 -> frame3 i j k (set G [i; j; k; c] v) G.
Proof.
  intros Hok Hi Hj Hk Hc i' j' k' c' Hi' Hj' Hk' Hc' Hne. apply get_set_other; try (eapply okG3_inb; eauto).
  intro E. injection E; intros; lia.
Qed.

Lemma normalize3_spec (G : arr R) i j k :
  okG3 nz nx ny G -> 0 <= i < nz -> 0 <= j < nx -> 0 <= k < ny ->
  okG3 nz nx ny (normalize3 G i j k) /\ uz3 (normalize3 G i j k) i j k /\ frame3 i j k (normalize3 G i j k) G.
Proof.
  intros Hok Hi Hj Hk. pose proof Hok as [W S]. unfold normalize3. cbv zeta.
  change (@nofZ R NumR 0) with 0%R.
  set (gz := get 0%R G [i; j; k; 0]). set (gx := get 0%R G [i; j; k; 1]). set (gy := get 0%R G [i; j; k; 2]).
  change (ngtb (norm3d gz gx gy) 0%R) with (Rltb 0 (norm3d gz gx gy)).
  destruct (Rltb 0 (norm3d gz gx gy)) eqn:E.
  - apply Rltb_true in E. split; [split; [apply wf_set_sub_map, W | exact S]|]. split.
    + unfold uz3. cbv zeta. right.
      rewrite !(get_block_map4 _ 0%R G nz nx ny 3 i j k i j k) by (auto; lia). rewrite !Z.eqb_refl. cbn [andb].
      fold gz gx gy. change (@ndiv R NumR) with Rdiv.
      rewrite <- norm3d_R. apply norm3d_normalised, E.
    + intros i' j' k' c Hi' Hj' Hk' Hc Hne. rewrite (get_block_map4 _ 0%R G nz nx ny 3 i j k i' j' k' c) by (auto; lia).
      replace ((i =? i') && (j =? j') && (k =? k')) with false; [reflexivity|].
      symmetry. destruct Hne as [N|[N|N]].
      * replace (i =? i') with false by (symmetry; apply Z.eqb_neq; lia). reflexivity.
      * replace (j =? j') with false by (symmetry; apply Z.eqb_neq; lia). rewrite andb_false_r. reflexivity.
      * replace (k =? k') with false by (symmetry; apply Z.eqb_neq; lia). rewrite andb_false_r. reflexivity.
  - apply Rltb_false in E. split; [exact Hok|]. split; [|intros ? ? ? ? ? ? ? ? ?; reflexivity].
    unfold uz3. cbv zeta. fold gz gx gy. left. apply norm3d_zero_iff.
    pose proof (norm3d_nonneg gz gx gy). lra.
Qed.

Lemma node3_spec (tt : arr R) sg dz dx dy (G : arr R) i j k :
  okG3 nz nx ny G -> 0 <= i < nz -> 0 <= j < nx -> 0 <= k < ny ->
  okG3 nz nx ny (node3 tt sg dz dx dy i j k G) /\ uz3 (node3 tt sg dz dx dy i j k G) i j k /\
  frame3 i j k (node3 tt sg dz dx dy i j k G) G.
Proof.
  intros Hok Hi Hj Hk. unfold node3. cbv zeta.
  set (b1 := negb (get 0 sg [i; j; k; 0] =? 0)). set (b2 := negb (get 0 sg [i; j; k; 1] =? 0)).
  set (b3 := negb (get 0 sg [i; j; k; 2] =? 0)). clearbody b1 b2 b3.
  set (G1 := if b1 then set G [i; j; k; 0] _ else G).
  set (G2 := if b2 then set G1 [i; j; k; 1] _ else G1).
  set (G3 := if b3 then set G2 [i; j; k; 2] _ else G2).
  assert (H1 : okG3 nz nx ny G1 /\ frame3 i j k G1 G).
  { unfold G1. destruct b1; [|split; [exact Hok | intros ? ? ? ? ? ? ? ? ?; reflexivity]].
    split; [apply okG3_set, Hok | apply set_frame3; auto; lia]. }
  destruct H1 as [Hok1 F1].
  assert (H2 : okG3 nz nx ny G2 /\ frame3 i j k G2 G).
  { unfold G2. destruct b2; [|split; assumption].
    split; [apply okG3_set, Hok1|]. intros i' j' k' c ? ? ? ? ?.
    rewrite (set_frame3 G1 i j k 1) by (auto; lia). apply F1; auto. }
  destruct H2 as [Hok2 F2].
  assert (H3 : okG3 nz nx ny G3 /\ frame3 i j k G3 G).
  { unfold G3. destruct b3; [|split; assumption].
    split; [apply okG3_set, Hok2|]. intros i' j' k' c ? ? ? ? ?.
    rewrite (set_frame3 G2 i j k 2) by (auto; lia). apply F2; auto. }
  destruct H3 as [Hok3 F3].
  destruct (normalize3_spec G3 i j k Hok3 Hi Hj Hk) as (Hok4 & U & F4).
  split; [exact Hok4|]. split; [exact U|]. intros i' j' k' c ? ? ? ? ?. rewrite F4 by auto. apply F3; auto.
Qed.

(* "G is well formed and every in-range node selected by X holds a unit-or-zero vector" is kept by every iteration *)
Definition allX (X : Z -> Z -> Z -> Prop) (G : arr R) : Prop :=
  okG3 nz nx ny G /\ forall a b c, X a b c -> 0 <= a < nz -> 0 <= b < nx -> 0 <= c < ny -> uz3 G a b c.

Lemma node3_allX X (tt : arr R) sg dz dx dy (G : arr R) i j k :
  0 <= i < nz -> 0 <= j < nx -> 0 <= k < ny -> allX X G -> allX X (node3 tt sg dz dx dy i j k G).
Proof.
  intros Hi Hj Hk [Hok U]. destruct (node3_spec tt sg dz dx dy G i j k Hok Hi Hj Hk) as (Hok' & Un & F).
  split; [exact Hok'|]. intros a b c Hx Ha Hb Hc. specialize (U a b c Hx Ha Hb Hc).
  destruct (Z.eq_dec a i) as [->|Ni]; [destruct (Z.eq_dec b j) as [->|Nj]; [destruct (Z.eq_dec c k) as [->|Nk]|]|];
    [exact Un | | |]; unfold uz3 in *; cbv zeta in *; rewrite !F by (auto; lia); exact U.
Qed.

Lemma row3_allX X (tt : arr R) sg dz dx dy (G : arr R) i j :
  0 <= i < nz -> 0 <= j < nx -> allX X G ->
  allX X (for_list (pyrange 0 ny 1) (fun k G => node3 tt sg dz dx dy i j k G) G).
Proof.
  intros Hi Hj HG. apply for_list_inv; [exact HG|]. intros k t Hk Ht. apply in_pyrange_up in Hk.
  apply node3_allX; auto; lia.
Qed.

Lemma plane3_allX X (tt : arr R) sg dz dx dy (G : arr R) i :
  0 <= i < nz -> allX X G ->
  allX X (for_list (pyrange 0 nx 1) (fun j G =>
            for_list (pyrange 0 ny 1) (fun k G => node3 tt sg dz dx dy i j k G) G) G).
Proof.
  intros Hi HG. apply for_list_inv; [exact HG|]. intros j t Hj Ht. apply in_pyrange_up in Hj.
  apply row3_allX; auto; lia.
Qed.

(* ASSEMBLY LEVEL, 3D *)
Lemma asm3_spec (tt : arr R) (sg : arr Z) (dz dx dy : R) (G : arr R) :
  okG3 nz nx ny G ->
  okG3 nz nx ny (asm3 tt sg dz dx dy nz nx ny G) /\
  forall i j k, 0 <= i < nz -> 0 <= j < nx -> 0 <= k < ny -> uz3 (asm3 tt sg dz dx dy nz nx ny G) i j k.
Proof.
  intros Hok.
  unfold asm3.
  destruct (for_list_each (okG3 nz nx ny) (fun i G => forall j k, 0 <= j < nx -> 0 <= k < ny -> uz3 G i j k)
              (pyrange 0 nz 1)
              (fun i G => for_list (pyrange 0 nx 1) (fun j G =>
                 for_list (pyrange 0 ny 1) (fun k G => node3 tt sg dz dx dy i j k G) G) G)) with (s := G)
    as [HI HQ]; [| | exact Hok | split; [exact HI|];
                                 intros i j k Hi Hj Hk; apply HQ; [apply in_pyrange_up; lia | exact Hj | exact Hk]].
  - intros i s Hi Hs. apply in_pyrange_up in Hi.
    destruct (for_list_each (okG3 nz nx ny) (fun j G => forall k, 0 <= k < ny -> uz3 G i j k) (pyrange 0 nx 1)
                (fun j G => for_list (pyrange 0 ny 1) (fun k G => node3 tt sg dz dx dy i j k G) G)) with (s := s)
      as [Io Qo]; [| | exact Hs | split; [exact Io | intros j k Hj Hk; apply Qo; [apply in_pyrange_up; lia | exact Hk]]].
    + intros j t Hj Ht. apply in_pyrange_up in Hj.
      destruct (for_list_each (okG3 nz nx ny) (fun k G => uz3 G i j k) (pyrange 0 ny 1)
                  (fun k G => node3 tt sg dz dx dy i j k G)) with (s := t)
        as [Ii Qi]; [| | exact Ht | split; [exact Ii | intros k Hk; apply Qi, in_pyrange_up; lia]].
      * intros k u Hk Hu. apply in_pyrange_up in Hk.
        destruct (node3_spec tt sg dz dx dy u i j k Hu) as (A & B & _); try lia. split; assumption.
      * intros k k' u Hk Hk' Hu U. apply in_pyrange_up in Hk, Hk'.
        refine (proj2 (node3_allX (fun a b c => a = i /\ b = j /\ c = k) tt sg dz dx dy u i j k' _ _ _ _)
                      i j k _ _ _ _); try lia; try (cbv beta; repeat split; reflexivity).
        split; [exact Hu|]. intros a b c (-> & -> & ->) _ _ _. exact U.
    + intros j j' t Hj Hj' Ht U. apply in_pyrange_up in Hj, Hj'. cbv beta. intros k Hk.
      refine (proj2 (row3_allX (fun a b c => a = i /\ b = j) tt sg dz dx dy t i j' _ _ _) i j k _ _ _ _);
        try lia; try (cbv beta; repeat split; reflexivity).
      split; [exact Ht|]. intros a b c (-> & ->) _ _ Hc. apply U, Hc.
  - intros i i' s Hi Hi' Hs U. apply in_pyrange_up in Hi, Hi'. cbv beta. intros j k Hj Hk.
    refine (proj2 (plane3_allX (fun a b c => a = i) tt sg dz dx dy s i' _ _) i j k _ _ _ _); try lia; try (cbv beta; repeat split; reflexivity).
    split; [exact Hs|]. intros a b c -> _ Hb Hc. apply U; assumption.
Qed.

Theorem asm3_unit_or_zero (tt : arr R) (sg : arr Z) (dz dx dy : R) (G : arr R) :
  wf G -> shape G = [nz; nx; ny; 3] ->
  forall i j k, 0 <= i < nz -> 0 <= j < nx -> 0 <= k < ny -> uz3 (asm3 tt sg dz dx dy nz nx ny G) i j k.
Proof. intros W S. apply asm3_spec. split; assumption. Qed.
End Frame3.

(* the same, said about the generated assembly function *)
Corollary fteik3d_p1_unit_or_zero (dx dy dz : R) i0 j0 k0 nx ny nz (tt G : arr R) (sg : arr Z) :
  wf G -> shape G = [nz; nx; ny; 3] ->
  forall i j k, 0 <= i < nz -> 0 <= j < nx -> 0 <= k < ny ->
    uz3 (fteik3d_p1 dx dy dz true i0 j0 k0 nx ny nz tt G sg) i j k.
Proof. intros W S. rewrite fteik3d_p1_is_asm3. apply asm3_unit_or_zero; assumption. Qed.

(* ------------------------------------------------------------------------------------------ *)
(* 3D solver                                                                                    *)
(* ------------------------------------------------------------------------------------------ *)
(* shape and data length through a chain of local definitions made of `set`s *)
Ltac sig_chase :=
  repeat first
    [ rewrite sig_set
    | lazymatch goal with
      | |- sig ?x = _ => is_var x; unfold x; cbv beta iota zeta
      | |- sig (fst ?x) = _ => is_var x; unfold x; cbv beta iota zeta; cbn [fst]
      end ];
  reflexivity.

Section Solve3.
Context {T : Type} `{Num T}.
Variables (slow : arr T) (dz dx dy zsrc xsrc ysrc : T).
Notation NZ := (dim slow 0 + 1).
Notation NX := (dim slow 1 + 1).
Notation NY := (dim slow 2 + 1).

(* with return_gradient=True the returned gradient is the result of the assembly function on an array that has the
   shape and data length of the `np.zeros((nz, nx, ny, 3))` allocated at the start (the 8 source corners were written
   into it) *)
Lemma fteik3d_grad_true nsweep :
  grad_is (fun G => exists tt sg G0 i0 j0 k0,
             G = fteik3d_p1 dx dy dz true i0 j0 k0 NX NY NZ tt G0 sg /\
             sig G0 = sig (full [NZ; NX; NY; 3] (nofZ 0 : T)))
          (fteik3d slow dz dx dy zsrc xsrc ysrc nsweep true).
Proof.
  cbv beta delta [fteik3d]. repeat glet. gguard. repeat glet.
  apply grad_is_ok.
  lazymatch goal with |- exists _ _ _ _ _ _, ?g = _ /\ _ =>
    let b := eval cbv delta [g] in g in
    let b2 := eval cbv delta [b] in b in
    lazymatch b2 with
    | fteik3d_p1 _ _ _ _ ?i0 ?j0 ?k0 _ _ _ ?tt ?G0 ?sg => exists tt, sg, G0, i0, j0, k0
    end
  end.
  split; [reflexivity|]. sig_chase.
Qed.

Lemma fteik3d_grad_false nsweep :
  grad_is (fun G => sig G = sig (full [0; 0; 0; 0] (nofZ 0 : T))) (fteik3d slow dz dx dy zsrc xsrc ysrc nsweep false).
Proof.
  cbv beta delta [fteik3d]. repeat glet. gguard. repeat glet.
  apply grad_is_ok.
  lazymatch goal with |- sig ?g = _ =>
    let b := eval cbv delta [g] in g in
    let b2 := eval cbv delta [b] in b in
    lazymatch b2 with
    | fteik3d_p1 _ _ _ _ ?i0 ?j0 ?k0 ?nx ?ny ?nz ?tt ?G0 ?sg =>
        change (sig (fteik3d_p1 dx dy dz false i0 j0 k0 nx ny nz tt G0 sg) = sig (full [0; 0; 0; 0] (nofZ 0 : T)));
        rewrite fteik3d_p1_off
    end
  end.
  sig_chase.
Qed.

Theorem fteik3d_gradient_empty_without_flag nsweep tt ttgrad vzero :
  fteik3d slow dz dx dy zsrc xsrc ysrc nsweep false = Ok (tt, ttgrad, vzero) ->
  shape ttgrad = [0; 0; 0; 0] /\ dat ttgrad = [].
Proof.
  intros E. pose proof (grad_is_inv _ _ _ _ _ (fteik3d_grad_false nsweep) E) as S. cbv beta in S.
  unfold sig in S. cbn [shape dat full] in S.
  injection S as S1 S2. split; [exact S1|]. apply length_zero_iff_nil. rewrite S2. reflexivity.
Qed.
End Solve3.

(* (2) SOLVER LEVEL, 3D *)
Theorem fteik3d_gradient_unit_or_zero (slow : arr R) (dz dx dy zsrc xsrc ysrc : R) (nsweep : Z)
        (tt ttgrad : arr R) (vzero : R) :
  fteik3d slow dz dx dy zsrc xsrc ysrc nsweep true = Ok (tt, ttgrad, vzero) ->
  forall i j k, 0 <= i < dim slow 0 + 1 -> 0 <= j < dim slow 1 + 1 -> 0 <= k < dim slow 2 + 1 ->
    let gz := get 0%R ttgrad [i; j; k; 0] in
    let gx := get 0%R ttgrad [i; j; k; 1] in
    let gy := get 0%R ttgrad [i; j; k; 2] in
    (gz = 0 /\ gx = 0 /\ gy = 0)%R \/ sqrt (gz * gz + gx * gx + gy * gy) = 1%R.
Proof.
  intros E i j k Hi Hj Hk.
  destruct (grad_is_inv _ _ _ _ _ (fteik3d_grad_true slow dz dx dy zsrc xsrc ysrc nsweep) E)
    as (tt' & sg & G0 & i0 & j0 & k0 & -> & S).
  apply (fteik3d_p1_unit_or_zero dx dy dz i0 j0 k0 _ _ _ tt' G0 sg); try assumption.
  - apply (sig_wf _ _ S). apply wf_full. repeat constructor; lia.
  - unfold sig in S. injection S as S _. exact S.
Qed.

Theorem fteik3d_gradient_shape (slow : arr R) (dz dx dy zsrc xsrc ysrc : R) (nsweep : Z)
        (tt ttgrad : arr R) (vzero : R) :
  0 <= dim slow 0 + 1 -> 0 <= dim slow 1 + 1 -> 0 <= dim slow 2 + 1 ->
  fteik3d slow dz dx dy zsrc xsrc ysrc nsweep true = Ok (tt, ttgrad, vzero) ->
  wf ttgrad /\ shape ttgrad = [dim slow 0 + 1; dim slow 1 + 1; dim slow 2 + 1; 3].
Proof.
  intros Hz Hx Hy E.
  destruct (grad_is_inv _ _ _ _ _ (fteik3d_grad_true slow dz dx dy zsrc xsrc ysrc nsweep) E)
    as (tt' & sg & G0 & i0 & j0 & k0 & -> & S).
  rewrite fteik3d_p1_is_asm3. apply asm3_spec. split.
  - apply (sig_wf _ _ S). apply wf_full. repeat constructor; lia.
  - unfold sig in S. injection S as S _. exact S.
Qed.

(* ------------------------------------------------------------------------------------------ *)
(* non-vacuity                                                                                  *)
(* ------------------------------------------------------------------------------------------ *)
(* 1. over R, a 2 x 2-cell model (3 x 3 nodes), unit slowness and spacings, source (1/2, 3/4) inside cell (0, 0) and
      on no node, two sweeps, return_gradient=True: the solver returns, so the hypothesis of
      fteik2d_gradient_unit_or_zero is satisfiable, and its conclusion holds at the 9 nodes *)
Example fteik2d_gradient_run_R :
  exists t G v,
    fteik2d (full [2; 2] 1%R) 1%R 1%R (1 / 2)%R (3 / 4)%R 2 true = Ok (t, G, v) /\
    forall i j, 0 <= i < 3 -> 0 <= j < 3 -> uz2 G i j.
Proof.
  destruct (proj2 (fteik2d_raises_iff (full [2; 2] 1%R) 1%R 1%R (1 / 2)%R (3 / 4)%R 2 true)) as [[[t G] v] E].
  - unfold inside2d. cbv zeta. cbn [dim full shape nth nleb nofZ nmul NumR].
    repeat (apply andb_true_intro; split); apply Rleb_true; lra.
  - exists t, G, v. split; [exact E|]. intros i j Hi Hj.
    exact (fteik2d_gradient_unit_or_zero _ _ _ _ _ _ _ _ _ E i j Hi Hj).
Qed.

Example fteik3d_gradient_run_R :
  exists t G v,
    fteik3d (full [2; 2; 2] 1%R) 1%R 1%R 1%R (1 / 2)%R (3 / 4)%R (1 / 4)%R 2 true = Ok (t, G, v) /\
    forall i j k, 0 <= i < 3 -> 0 <= j < 3 -> 0 <= k < 3 -> uz3 G i j k.
Proof.
  destruct (proj2 (fteik3d_raises_iff (full [2; 2; 2] 1%R) 1%R 1%R 1%R (1 / 2)%R (3 / 4)%R (1 / 4)%R 2 true))
    as [[[t G] v] E].
  - unfold inside3d. cbv zeta. cbn [dim full shape nth nleb nofZ nmul NumR].
    repeat (apply andb_true_intro; split); apply Rleb_true; lra.
  - exists t, G, v. split; [exact E|]. intros i j k Hi Hj Hk.
    exact (fteik3d_gradient_unit_or_zero _ _ _ _ _ _ _ _ _ _ _ E i j k Hi Hj Hk).
Qed.

(* 2. over R, the unit branch is taken: a raw vector (3, 4) seeded at a node without signs comes out as (3/5, 4/5) *)
Example asm2_normalises_R (tt : arr R) (dz dx : R) :
  let G0 := set (set (full [1; 1; 2] 0%R) [0; 0; 0] 3%R) [0; 0; 1] 4%R in
  let G := asm2 tt (full [1; 1; 2] 0) dz dx 1 1 G0 in
  get 0%R G [0; 0; 0] = (3 / 5)%R /\ get 0%R G [0; 0; 1] = (4 / 5)%R.
Proof.
  intros G0 G.
  assert (A : get 0%R G0 [0; 0; 0] = 3%R) by reflexivity.
  assert (B : get 0%R G0 [0; 0; 1] = 4%R) by reflexivity.
  assert (W : wf G0) by (split; [reflexivity | repeat constructor; lia]).
  assert (N : norm2d (T:=R) 3%R 4%R = 5%R).
  { rewrite norm2d_R. replace (3 * 3 + 4 * 4)%R with (5 * 5)%R by ring. apply sqrt_square. lra. }
  assert (E : G = normalize2 G0 0 0) by reflexivity.
  rewrite E. unfold normalize2. cbv zeta. change (@nofZ R NumR 0) with 0%R. rewrite A, B, N.
  change (ngtb 5%R 0%R) with (Rltb 0 5). replace (Rltb 0 5) with true by (symmetry; apply Rltb_true; lra).
  rewrite !(get_block_map3 _ 0%R G0 1 1 2 0 0 0 0) by (auto; lia). cbn [Z.eqb andb]. rewrite A, B.
  split; reflexivity.
Qed.

(* 3. binary64 (lib/Num.v NumF, evaluated by vm_compute): the same 2 x 2-cell run returns, the gradient array has shape
      (3, 3, 2), the vector at node (0, 0) is non-zero, and at each of the 9 nodes the squared norm is 1 up to 2^-50
      (in floating point the norm is only approximately 1; the exact statement above is over R) *)
Module FloatRun.
Import Coq.Floats.PrimFloat.
Module PF := Coq.Floats.PrimFloat.
Definition run2 :=
  fteik2d (T := float) (full [2; 2] 1.0%float) 1.0%float 1.0%float 0.5%float 0.75%float 2 true.
Definition run3 :=
  fteik3d (T := float) (full [2; 2; 2] 1.0%float) 1.0%float 1.0%float 1.0%float 0.5%float 0.75%float 0.25%float 2 true.
Definition gradient (r : res (arr float * arr float * float)) : arr float :=
  match r with Ok (_, G, _) => G | _ => full [] 0%float end.
Definition returned (r : res (arr float * arr float * float)) : bool := match r with Ok _ => true | _ => false end.
Definition near1 (x : float) : bool := PF.leb (PF.abs (PF.sub x 1%float)) 0x1p-50%float.
Definition sq2 (G : arr float) (i j : Z) : float :=
  let gz := get 0%float G [i; j; 0] in let gx := get 0%float G [i; j; 1] in
  PF.add (PF.mul gz gz) (PF.mul gx gx).
Definition sq3 (G : arr float) (i j k : Z) : float :=
  let gz := get 0%float G [i; j; k; 0] in let gx := get 0%float G [i; j; k; 1] in let gy := get 0%float G [i; j; k; 2] in
  PF.add (PF.add (PF.mul gz gz) (PF.mul gx gx)) (PF.mul gy gy).

Example run2_binary64 :
  returned run2 = true /\ shape (gradient run2) = [3; 3; 2] /\
  PF.ltb (get 0%float (gradient run2) [0; 0; 0]) 0%float = true /\
  forallb (fun i => forallb (fun j => near1 (sq2 (gradient run2) i j)) [0; 1; 2]) [0; 1; 2] = true.
Proof. vm_compute. repeat split. Qed.

Example run3_binary64 :
  returned run3 = true /\ shape (gradient run3) = [3; 3; 3; 3] /\
  PF.ltb (get 0%float (gradient run3) [0; 0; 0; 0]) 0%float = true /\
  forallb (fun i => forallb (fun j => forallb (fun k => near1 (sq3 (gradient run3) i j k)) [0; 1; 2]) [0; 1; 2])
          [0; 1; 2] = true.
Proof. vm_compute. repeat split. Qed.

(* without the flag: no gradient values *)
Example run2_noflag_binary64 :
  shape (gradient (fteik2d (T := float) (full [2; 2] 1.0%float) 1.0%float 1.0%float 0.5%float 0.75%float 2 false))
  = [0; 0; 0].
Proof. vm_compute. reflexivity. Qed.
End FloatRun.

Print Assumptions asm2_unit_or_zero.
Print Assumptions asm3_unit_or_zero.
Print Assumptions fteik3d_p1_unit_or_zero.
Print Assumptions fteik2d_gradient_unit_or_zero.
Print Assumptions fteik3d_gradient_unit_or_zero.
Print Assumptions fteik2d_gradient_shape.
Print Assumptions fteik3d_gradient_shape.
Print Assumptions fteik2d_gradient_empty_without_flag.
Print Assumptions fteik3d_gradient_empty_without_flag.
Print Assumptions fteik2d_gradient_run_R.
Print Assumptions asm2_normalises_R.
