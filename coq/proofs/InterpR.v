(* _interp2d (gen/Interp2d.v: u_interp2d_v) computes bilinear interpolation of the node values on
   ascending axes.  Exact real arithmetic (T := R), every axis length >= 2, every in-hull query;
   the outside-hull statement holds for every numeric type. *)
From Coq Require Import ZArith List Bool Reals Lra Lia Psatz Field.
From FT.lib Require Import Num Arr NumArr ArrLemmas.
From FT.gen Require Import Interp2d.
From FT.proofs Require Import SSR.
Import ListNotations.
Open Scope R_scope.

(* ================================================================== *)
(* 1. outside the hull: the fill value, for every numeric type          *)
(* ================================================================== *)
Theorem interp2d_outside {T : Type} `{Num T} (x y v : arr T) (xq yq fval : T) :
  (nleb (get (nofZ 0) x [0%Z]) xq && nleb xq (get (nofZ 0) x [(dim x 0%nat - 1)%Z])) &&
  (nleb (get (nofZ 0) y [0%Z]) yq && nleb yq (get (nofZ 0) y [(dim y 0%nat - 1)%Z])) = false ->
  u_interp2d_v x y v xq yq fval = fval.
Proof. intros E. cbv beta zeta delta [u_interp2d_v]. rewrite E. reflexivity. Qed.

(* ================================================================== *)
(* 2. the specification                                                 *)
(* ================================================================== *)
(* textbook bilinear interpolation on the rectangle [x1,x2] x [y1,y2] *)
Definition bilin_core (x1 x2 y1 y2 v11 v21 v12 v22 xq yq : R) : R :=
  let tx := (xq - x1) / (x2 - x1) in
  let ty := (yq - y1) / (y2 - y1) in
  (1 - tx) * (1 - ty) * v11 + tx * (1 - ty) * v21 + (1 - tx) * ty * v12 + tx * ty * v22.

(* ... on cell (i,j) of the grid *)
Definition bilin (x y v : arr R) (i j : Z) (xq yq : R) : R :=
  bilin_core (get 0 x [i]) (get 0 x [(i + 1)%Z]) (get 0 y [j]) (get 0 y [(j + 1)%Z])
             (get 0 v [i; j]) (get 0 v [(i + 1)%Z; j])
             (get 0 v [i; (j + 1)%Z]) (get 0 v [(i + 1)%Z; (j + 1)%Z]) xq yq.

Lemma dim2_0 {A} (v : arr A) a b : shape v = [a; b] -> dim v 0%nat = a.
Proof. intros E. unfold dim. rewrite E. reflexivity. Qed.
Lemma dim2_1 {A} (v : arr A) a b : shape v = [a; b] -> dim v 1%nat = b.
Proof. intros E. unfold dim. rewrite E. reflexivity. Qed.

(* every |.| in the kernel has a known sign: push Rabs through products, then remove it *)
Ltac kill_abs :=
  repeat rewrite Rabs_mult;
  repeat match goal with
  | |- context [Rabs ?e] =>
      first [ rewrite (Rabs_pos_eq e) by lra | rewrite (Rabs_left1 e) by lra ]
  end.

(* the kernel selects a tuple (corner values, cell bounds) by a nested `if`, then uses it many times:
   name the selection `u`, keep ONE copy of it as an equation Eu : u = if ... *)
Ltac name_selection u Eu :=
  match goal with
  | |- context [snd (if ?c then ?a else ?b)] => set (u := if c then a else b)
  | |- context [fst (if ?c then ?a else ?b)] => set (u := if c then a else b)
  end;
  pose proof (eq_refl u) as Eu; unfold u at 2 in Eu; clearbody u.

(* one axis: split into interior cell / far face, decide the kernel's `i1 =? n-1` in Eu accordingly *)
Ltac axis_split C i1 Eu :=
  let Hi := fresh "Hi" in let Hm := fresh "Hm" in let Hl := fresh "Hl" in
  let Hu := fresh "Hu" in let Hq := fresh "Hq" in let Hd := fresh "Hd" in
  destruct C as [(Hi & Hm & Hl & Hu) | (Hi & Hm & Hq & Hd)]; rewrite Hm;
  [ match type of Eu with context [Z.eqb i1 ?m] =>
      replace (Z.eqb i1 m) with false in Eu by (symmetry; apply Z.eqb_neq; lia) end
  | match type of Eu with context [Z.eqb i1 ?m] =>
      replace (Z.eqb i1 m) with true in Eu by (symmetry; apply Z.eqb_eq; lia) end;
    subst i1;
    match goal with |- context [(?n - 2 + 1)%Z] => replace (n - 2 + 1)%Z with (n - 1)%Z by lia end ];
  cbn [andb negb] in Eu.

(* one branch of the kernel, after the axis splits *)
Ltac branch_done u :=
  subst u; cbn [fst snd];
  repeat match goal with H : ?q = get _ _ _ |- _ => is_var q; subst q end;
  kill_abs; field; repeat split; lra.

Theorem interp2d_spec (x y v : arr R) (nx ny : Z) (xq yq fval : R) :
  axis x nx -> axis y ny -> shape v = [nx; ny] ->
  get 0 x [0%Z] <= xq <= get 0 x [(nx - 1)%Z] ->
  get 0 y [0%Z] <= yq <= get 0 y [(ny - 1)%Z] ->
  u_interp2d_v x y v xq yq fval = bilin x y v (cell x nx xq) (cell y ny yq) xq yq.
Proof.
  intros Ax Ay Sv [Hx0 Hx1] [Hy0 Hy1].
  pose proof (ssrR_cases x nx xq Ax Hx0 Hx1) as Cx.
  pose proof (ssrR_cases y ny yq Ay Hy0 Hy1) as Cy.
  unfold bilin, bilin_core, cell, u_interp2d_v.
  cbv beta iota zeta delta [nleb nsub nmul nadd ndiv nabs nofZ NumR]. cbn [fst snd].
  name_selection u Eu.
  rewrite (axis_dim x nx Ax), (axis_dim y ny Ay).
  rewrite ?(axis_dim x nx Ax), ?(axis_dim y ny Ay), ?(dim2_0 v nx ny Sv), ?(dim2_1 v nx ny Sv) in Eu.
  rewrite (proj2 (Rleb_true _ _) Hx0), (proj2 (Rleb_true _ _) Hx1),
          (proj2 (Rleb_true _ _) Hy0), (proj2 (Rleb_true _ _) Hy1).
  cbn [andb negb].
  remember (searchsorted_right x xq - 1)%Z as i1 eqn:Ei1. clear Ei1.
  remember (searchsorted_right y yq - 1)%Z as j1 eqn:Ej1. clear Ej1.
  axis_split Cx i1 Eu; axis_split Cy j1 Eu; branch_done u.
Qed.

(* ================================================================== *)
(* 3. pure real-number facts about the bilinear formula                 *)
(* ================================================================== *)
Lemma unit_param (a b q : R) : a < b -> a <= q <= b -> 0 <= (q - a) / (b - a) <= 1.
Proof.
  intros Hab [H1 H2]. set (t := (q - a) / (b - a)).
  assert (E : t * (b - a) = q - a) by (unfold t; field; lra).
  split; nra.
Qed.

Lemma bilin_core_corners x1 x2 y1 y2 v11 v21 v12 v22 : x1 <> x2 -> y1 <> y2 ->
  bilin_core x1 x2 y1 y2 v11 v21 v12 v22 x1 y1 = v11 /\
  bilin_core x1 x2 y1 y2 v11 v21 v12 v22 x2 y1 = v21 /\
  bilin_core x1 x2 y1 y2 v11 v21 v12 v22 x1 y2 = v12 /\
  bilin_core x1 x2 y1 y2 v11 v21 v12 v22 x2 y2 = v22.
Proof. intros Hx Hy. unfold bilin_core. repeat split; field; lra. Qed.

Lemma bilin_core_convex x1 x2 y1 y2 v11 v21 v12 v22 xq yq lo hi :
  x1 < x2 -> x1 <= xq <= x2 -> y1 < y2 -> y1 <= yq <= y2 ->
  lo <= v11 <= hi -> lo <= v21 <= hi -> lo <= v12 <= hi -> lo <= v22 <= hi ->
  lo <= bilin_core x1 x2 y1 y2 v11 v21 v12 v22 xq yq <= hi.
Proof.
  intros Hx Hxq Hy Hyq H11 H21 H12 H22. unfold bilin_core.
  pose proof (unit_param x1 x2 xq Hx Hxq) as Tx. pose proof (unit_param y1 y2 yq Hy Hyq) as Ty.
  set (tx := (xq - x1) / (x2 - x1)) in *. set (ty := (yq - y1) / (y2 - y1)) in *.
  assert (W11 : 0 <= (1 - tx) * (1 - ty)) by (apply Rmult_le_pos; lra).
  assert (W21 : 0 <= tx * (1 - ty)) by (apply Rmult_le_pos; lra).
  assert (W12 : 0 <= (1 - tx) * ty) by (apply Rmult_le_pos; lra).
  assert (W22 : 0 <= tx * ty) by (apply Rmult_le_pos; lra).
  split.
  - assert (0 <= (1 - tx) * (1 - ty) * (v11 - lo)) by (apply Rmult_le_pos; lra).
    assert (0 <= tx * (1 - ty) * (v21 - lo)) by (apply Rmult_le_pos; lra).
    assert (0 <= (1 - tx) * ty * (v12 - lo)) by (apply Rmult_le_pos; lra).
    assert (0 <= tx * ty * (v22 - lo)) by (apply Rmult_le_pos; lra).
    nra.
  - assert (0 <= (1 - tx) * (1 - ty) * (hi - v11)) by (apply Rmult_le_pos; lra).
    assert (0 <= tx * (1 - ty) * (hi - v21)) by (apply Rmult_le_pos; lra).
    assert (0 <= (1 - tx) * ty * (hi - v12)) by (apply Rmult_le_pos; lra).
    assert (0 <= tx * ty * (hi - v22)) by (apply Rmult_le_pos; lra).
    nra.
Qed.

Lemma bilin_core_exact x1 x2 y1 y2 xq yq a b c d : x1 <> x2 -> y1 <> y2 ->
  bilin_core x1 x2 y1 y2 (a + b * x1 + c * y1 + d * x1 * y1) (a + b * x2 + c * y1 + d * x2 * y1)
             (a + b * x1 + c * y2 + d * x1 * y2) (a + b * x2 + c * y2 + d * x2 * y2) xq yq
  = a + b * xq + c * yq + d * xq * yq.
Proof. intros Hx Hy. unfold bilin_core. field. lra. Qed.

(* ================================================================== *)
(* 4. corollaries of the specification                                  *)
(* ================================================================== *)
Section Corollaries.
Variables (x y v : arr R) (nx ny : Z).
Hypothesis Ax : axis x nx.
Hypothesis Ay : axis y ny.
Hypothesis Sv : shape v = [nx; ny].

Lemma hull_node (a : arr R) n k : axis a n -> (0 <= k < n)%Z ->
  get 0 a [0%Z] <= get 0 a [k] <= get 0 a [(n - 1)%Z].
Proof. intros A Hk. split; apply (axis_le a n); auto; lia. Qed.

(* at a node the node value is returned: every node, far faces and corner included *)
Theorem interp2d_node (k l : Z) (fval : R) : (0 <= k < nx)%Z -> (0 <= l < ny)%Z ->
  u_interp2d_v x y v (get 0 x [k]) (get 0 y [l]) fval = get 0 v [k; l].
Proof.
  intros Hk Hl.
  rewrite (interp2d_spec x y v nx ny _ _ fval Ax Ay Sv (hull_node x nx k Ax Hk) (hull_node y ny l Ay Hl)).
  rewrite (cell_node x nx k Ax Hk), (cell_node y ny l Ay Hl).
  pose proof (axis_n _ _ Ax) as Nx. pose proof (axis_n _ _ Ay) as Ny.
  remember (Z.min k (nx - 2)) as c eqn:Ec. remember (Z.min l (ny - 2)) as e eqn:Ee.
  assert (Hc : (0 <= c <= nx - 2)%Z) by lia. assert (He : (0 <= e <= ny - 2)%Z) by lia.
  pose proof (axis_lt x nx c (c + 1) Ax ltac:(lia)) as Dx.
  pose proof (axis_lt y ny e (e + 1) Ay ltac:(lia)) as Dy.
  unfold bilin.
  destruct (bilin_core_corners (get 0 x [c]) (get 0 x [(c + 1)%Z]) (get 0 y [e]) (get 0 y [(e + 1)%Z])
              (get 0 v [c; e]) (get 0 v [(c + 1)%Z; e]) (get 0 v [c; (e + 1)%Z])
              (get 0 v [(c + 1)%Z; (e + 1)%Z]) ltac:(lra) ltac:(lra)) as (C11 & C21 & C12 & C22).
  assert (Kc : k = c \/ k = (c + 1)%Z) by lia. assert (Le : l = e \/ l = (e + 1)%Z) by lia.
  clear Ec Ee.
  destruct Kc as [-> | ->]; destruct Le as [-> | ->]; assumption.
Qed.

Section InHull.
Variables (xq yq fval : R).
Hypothesis Hx : get 0 x [0%Z] <= xq <= get 0 x [(nx - 1)%Z].
Hypothesis Hy : get 0 y [0%Z] <= yq <= get 0 y [(ny - 1)%Z].

(* the result lies between the smallest and the largest corner value of the enclosing cell *)
Theorem interp2d_convex (lo hi : R) :
  let i := cell x nx xq in let j := cell y ny yq in
  lo <= get 0 v [i; j] <= hi -> lo <= get 0 v [(i + 1)%Z; j] <= hi ->
  lo <= get 0 v [i; (j + 1)%Z] <= hi -> lo <= get 0 v [(i + 1)%Z; (j + 1)%Z] <= hi ->
  lo <= u_interp2d_v x y v xq yq fval <= hi.
Proof.
  intros i j H11 H21 H12 H22.
  rewrite (interp2d_spec x y v nx ny xq yq fval Ax Ay Sv Hx Hy). fold i j. unfold bilin.
  destruct (cell_facts x nx xq Ax (proj1 Hx) (proj2 Hx)) as (_ & Bx & Dx).
  destruct (cell_facts y ny yq Ay (proj1 Hy) (proj2 Hy)) as (_ & By & Dy).
  fold i in Bx, Dx. fold j in By, Dy.
  apply bilin_core_convex; assumption.
Qed.

(* exact on every function a + b x + c y + d x y *)
Theorem interp2d_multilinear_exact (a b c d : R) :
  (forall i j, (0 <= i < nx)%Z -> (0 <= j < ny)%Z ->
     get 0 v [i; j] = a + b * get 0 x [i] + c * get 0 y [j] + d * get 0 x [i] * get 0 y [j]) ->
  u_interp2d_v x y v xq yq fval = a + b * xq + c * yq + d * xq * yq.
Proof.
  intros Hv.
  rewrite (interp2d_spec x y v nx ny xq yq fval Ax Ay Sv Hx Hy). unfold bilin.
  destruct (cell_facts x nx xq Ax (proj1 Hx) (proj2 Hx)) as (Ix & _ & Dx).
  destruct (cell_facts y ny yq Ay (proj1 Hy) (proj2 Hy)) as (Iy & _ & Dy).
  rewrite !Hv by lia. apply bilin_core_exact; lra.
Qed.
End InHull.

(* across a cell face the two adjacent cells give the same value *)
Theorem interp2d_continuous_faces :
  (forall k j yq, (0 < k < nx - 1)%Z ->
     bilin x y v (k - 1) j (get 0 x [k]) yq = bilin x y v k j (get 0 x [k]) yq) /\
  (forall i l xq, (0 < l < ny - 1)%Z ->
     bilin x y v i (l - 1) xq (get 0 y [l]) = bilin x y v i l xq (get 0 y [l])).
Proof.
  split.
  - intros k j yq Hk. unfold bilin, bilin_core. cbv zeta.
    replace (k - 1 + 1)%Z with k by lia.
    pose proof (axis_lt x nx (k - 1) k Ax ltac:(lia)) as D.
    replace ((get 0 x [k] - get 0 x [(k - 1)%Z]) / (get 0 x [k] - get 0 x [(k - 1)%Z])) with 1 by (field; lra).
    replace ((get 0 x [k] - get 0 x [k]) / (get 0 x [(k + 1)%Z] - get 0 x [k])) with 0 by (unfold Rdiv; ring).
    ring.
  - intros i l xq Hl. unfold bilin, bilin_core. cbv zeta.
    replace (l - 1 + 1)%Z with l by lia.
    pose proof (axis_lt y ny (l - 1) l Ay ltac:(lia)) as D.
    replace ((get 0 y [l] - get 0 y [(l - 1)%Z]) / (get 0 y [l] - get 0 y [(l - 1)%Z])) with 1 by (field; lra).
    replace ((get 0 y [l] - get 0 y [l]) / (get 0 y [(l + 1)%Z] - get 0 y [l])) with 0 by (unfold Rdiv; ring).
    ring.
Qed.

(* hence the kernel agrees with the bilinear formula of ANY closed cell that contains the query
   (a query on a shared face or node may be evaluated in either neighbour) *)
Theorem interp2d_spec_any_cell (i j : Z) (xq yq fval : R) :
  (0 <= i <= nx - 2)%Z -> (0 <= j <= ny - 2)%Z ->
  get 0 x [i] <= xq <= get 0 x [(i + 1)%Z] -> get 0 y [j] <= yq <= get 0 y [(j + 1)%Z] ->
  u_interp2d_v x y v xq yq fval = bilin x y v i j xq yq.
Proof.
  intros Hi Hj Bx By.
  assert (Hx : get 0 x [0%Z] <= xq <= get 0 x [(nx - 1)%Z]).
  { pose proof (axis_le x nx 0 i Ax ltac:(lia)). pose proof (axis_le x nx (i + 1) (nx - 1) Ax ltac:(lia)). lra. }
  assert (Hy : get 0 y [0%Z] <= yq <= get 0 y [(ny - 1)%Z]).
  { pose proof (axis_le y ny 0 j Ay ltac:(lia)). pose proof (axis_le y ny (j + 1) (ny - 1) Ay ltac:(lia)). lra. }
  rewrite (interp2d_spec x y v nx ny xq yq fval Ax Ay Sv Hx Hy).
  destruct interp2d_continuous_faces as [Fx Fy].
  destruct (cell_any x nx xq i Ax Hi Bx) as [-> | (Eq & -> & Hi')];
  destruct (cell_any y ny yq j Ay Hj By) as [-> | (Eq' & -> & Hj')]; try reflexivity.
  - subst yq. rewrite <- Fy by lia. replace (j + 1 - 1)%Z with j by lia. reflexivity.
  - subst xq. rewrite <- Fx by lia. replace (i + 1 - 1)%Z with i by lia. reflexivity.
  - subst xq yq. rewrite <- Fx by lia. replace (i + 1 - 1)%Z with i by lia.
    rewrite <- Fy by lia. replace (j + 1 - 1)%Z with j by lia. reflexivity.
Qed.
End Corollaries.

(* swapping the roles of the two axes (and transposing the node values) does not change the result;
   holds for every query, inside or outside the hull *)
Theorem interp2d_axis_swap (x y v vt : arr R) (nx ny : Z) (xq yq fval : R) :
  axis x nx -> axis y ny -> shape v = [nx; ny] -> shape vt = [ny; nx] ->
  (forall i j, (0 <= i < nx)%Z -> (0 <= j < ny)%Z -> get 0 vt [j; i] = get 0 v [i; j]) ->
  u_interp2d_v x y v xq yq fval = u_interp2d_v y x vt yq xq fval.
Proof.
  intros Ax Ay Sv Svt Ht.
  destruct ((nleb (get (nofZ 0) x [0%Z]) xq && nleb xq (get (nofZ 0) x [(dim x 0%nat - 1)%Z])) &&
            (nleb (get (nofZ 0) y [0%Z]) yq && nleb yq (get (nofZ 0) y [(dim y 0%nat - 1)%Z]))) eqn:E.
  - apply andb_prop in E as [E1 E2]. apply andb_prop in E1 as [Ex0 Ex1]. apply andb_prop in E2 as [Ey0 Ey1].
    rewrite (axis_dim _ _ Ax) in Ex1. rewrite (axis_dim _ _ Ay) in Ey1.
    apply Rleb_true in Ex0, Ex1, Ey0, Ey1.
    rewrite (interp2d_spec x y v nx ny xq yq fval Ax Ay Sv (conj Ex0 Ex1) (conj Ey0 Ey1)).
    rewrite (interp2d_spec y x vt ny nx yq xq fval Ay Ax Svt (conj Ey0 Ey1) (conj Ex0 Ex1)).
    destruct (cell_facts x nx xq Ax Ex0 Ex1) as (Ix & _).
    destruct (cell_facts y ny yq Ay Ey0 Ey1) as (Iy & _).
    unfold bilin. rewrite !Ht by lia. unfold bilin_core. ring.
  - rewrite (interp2d_outside x y v xq yq fval E).
    rewrite andb_comm in E. rewrite (interp2d_outside y x vt yq xq fval E). reflexivity.
Qed.


(* ================================================================== *)
(* 5. a concrete transpose: the hypothesis on `vt` above is satisfiable *)
(* ================================================================== *)
(* ---------- arrays tabulated from a function (to exhibit concrete transposes) ---------- *)
Section Tab.
Context {A : Type}.

Lemma flat_map_rows_length (f : nat -> list A) (m : nat) : (forall k, length (f k) = m) ->
  forall n s, length (flat_map f (seq s n)) = (n * m)%nat.
Proof.
  intros Hf n. induction n as [|n IH]; intros s; simpl; [reflexivity|].
  rewrite app_length, Hf, IH. reflexivity.
Qed.

Lemma nth_flat_map_rows (f : nat -> list A) (m : nat) (d : A) : (forall k, length (f k) = m) ->
  forall n s a b, (a < n)%nat -> (b < m)%nat ->
  nth (a * m + b) (flat_map f (seq s n)) d = nth b (f (s + a)%nat) d.
Proof.
  intros Hf n. induction n as [|n IH]; intros s a b Ha Hb; [lia|]. simpl.
  destruct a as [|a].
  - rewrite app_nth1 by (rewrite Hf; lia). simpl. rewrite Nat.add_0_r. reflexivity.
  - rewrite app_nth2 by (rewrite Hf; simpl; lia). rewrite Hf.
    replace (S a * m + b - m)%nat with (a * m + b)%nat by (simpl; lia).
    rewrite IH by lia. f_equal. f_equal. lia.
Qed.

Lemma nth_map_seq (g : nat -> A) (n b : nat) (d : A) : (b < n)%nat -> nth b (map g (seq 0 n)) d = g b.
Proof.
  intros Hb. rewrite (nth_indep _ d (g 0%nat)) by (rewrite map_length, seq_length; exact Hb).
  rewrite map_nth. rewrite seq_nth by exact Hb. reflexivity.
Qed.

Definition tab2 (n0 n1 : Z) (f : Z -> Z -> A) : arr A :=
  mkarr [n0; n1]
    (flat_map (fun a => map (fun b => f (Z.of_nat a) (Z.of_nat b)) (seq 0 (Z.to_nat n1))) (seq 0 (Z.to_nat n0))).

Lemma get_tab2 d n0 n1 f i j : (0 <= i < n0)%Z -> (0 <= j < n1)%Z -> get d (tab2 n0 n1 f) [i; j] = f i j.
Proof.
  intros Hi Hj. unfold get, tab2, flat. cbn [shape dat flat_aux].
  replace (Z.to_nat ((0 * n0 + i) * n1 + j)) with (Z.to_nat i * Z.to_nat n1 + Z.to_nat j)%nat by nia.
  rewrite (nth_flat_map_rows _ (Z.to_nat n1)); [| intros; rewrite map_length, seq_length; reflexivity | lia | lia].
  rewrite nth_map_seq by lia. cbn [Nat.add]. rewrite !Z2Nat.id by lia. reflexivity.
Qed.

Lemma wf_tab2 n0 n1 f : (0 <= n0)%Z -> (0 <= n1)%Z -> wf (tab2 n0 n1 f).
Proof.
  intros H0 H1. split; cbn [tab2 shape dat].
  - rewrite (flat_map_rows_length _ (Z.to_nat n1)) by (intros; rewrite map_length, seq_length; reflexivity).
    unfold prodZ; simpl. nia.
  - repeat constructor; assumption.
Qed.

Definition tab3 (n0 n1 n2 : Z) (f : Z -> Z -> Z -> A) : arr A :=
  mkarr [n0; n1; n2]
    (flat_map (fun a =>
       flat_map (fun b => map (fun c => f (Z.of_nat a) (Z.of_nat b) (Z.of_nat c)) (seq 0 (Z.to_nat n2)))
                (seq 0 (Z.to_nat n1)))
       (seq 0 (Z.to_nat n0))).

Lemma get_tab3 d n0 n1 n2 f i j k : (0 <= i < n0)%Z -> (0 <= j < n1)%Z -> (0 <= k < n2)%Z ->
  get d (tab3 n0 n1 n2 f) [i; j; k] = f i j k.
Proof.
  intros Hi Hj Hk. unfold get, tab3, flat. cbn [shape dat flat_aux].
  replace (Z.to_nat (((0 * n0 + i) * n1 + j) * n2 + k))
    with (Z.to_nat i * (Z.to_nat n1 * Z.to_nat n2) + (Z.to_nat j * Z.to_nat n2 + Z.to_nat k))%nat by nia.
  rewrite (nth_flat_map_rows _ (Z.to_nat n1 * Z.to_nat n2)); [| | lia | nia].
  2:{ intros a. apply flat_map_rows_length. intros; rewrite map_length, seq_length; reflexivity. }
  rewrite (nth_flat_map_rows _ (Z.to_nat n2)); [| intros; rewrite map_length, seq_length; reflexivity | lia | lia].
  rewrite nth_map_seq by lia. cbn [Nat.add]. rewrite !Z2Nat.id by lia. reflexivity.
Qed.

Lemma wf_tab3 n0 n1 n2 f : (0 <= n0)%Z -> (0 <= n1)%Z -> (0 <= n2)%Z -> wf (tab3 n0 n1 n2 f).
Proof.
  intros H0 H1 H2. split; cbn [tab3 shape dat].
  - rewrite (flat_map_rows_length _ (Z.to_nat n1 * Z.to_nat n2)).
    + unfold prodZ; simpl. nia.
    + intros a. apply flat_map_rows_length. intros; rewrite map_length, seq_length; reflexivity.
  - repeat constructor; assumption.
Qed.
End Tab.

Definition transpose2 (v : arr R) : arr R :=
  tab2 (dim v 1%nat) (dim v 0%nat) (fun j i => get 0 v [i; j]).

Lemma transpose2_spec (v : arr R) nx ny : (0 <= nx)%Z -> (0 <= ny)%Z -> shape v = [nx; ny] ->
  wf (transpose2 v) /\ shape (transpose2 v) = [ny; nx] /\
  forall i j, (0 <= i < nx)%Z -> (0 <= j < ny)%Z -> get 0 (transpose2 v) [j; i] = get 0 v [i; j].
Proof.
  intros Hx Hy Sv. unfold transpose2. rewrite (dim2_0 v _ _ Sv), (dim2_1 v _ _ Sv).
  split; [apply wf_tab2; assumption|]. split; [reflexivity|].
  intros i j Hi Hj. rewrite get_tab2 by assumption. reflexivity.
Qed.

Corollary interp2d_axis_swap_transpose (x y v : arr R) (nx ny : Z) (xq yq fval : R) :
  axis x nx -> axis y ny -> shape v = [nx; ny] ->
  u_interp2d_v x y v xq yq fval = u_interp2d_v y x (transpose2 v) yq xq fval.
Proof.
  intros Ax Ay Sv. pose proof (axis_n _ _ Ax). pose proof (axis_n _ _ Ay).
  destruct (transpose2_spec v nx ny ltac:(lia) ltac:(lia) Sv) as (_ & St & Gt).
  apply (interp2d_axis_swap x y v (transpose2 v) nx ny); assumption.
Qed.

Print Assumptions interp2d_outside.
Print Assumptions interp2d_spec.
Print Assumptions interp2d_node.
Print Assumptions interp2d_convex.
Print Assumptions interp2d_multilinear_exact.
Print Assumptions interp2d_continuous_faces.
Print Assumptions interp2d_spec_any_cell.
Print Assumptions interp2d_axis_swap.
Print Assumptions interp2d_axis_swap_transpose.
