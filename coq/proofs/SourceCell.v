(* The reference slowness returned by the eikonal solvers is the slowness of the cell containing the source.

   Python (fteikpy/_fteik/_fteik2d.py fteik2d, _fteik3d.py fteik3d):
       zsa = zsrc / dz ; zsi = min(int(zsa), nz - 1) ; ... ; vzero = slow[zsi, xsi]      (nz, nx = np.shape(slow))
   and vzero is the third component of the returned tuple.

   S1  fteik2d_vzero_is_source_cell   every Num instance: a returned vzero is get (nofZ 0) slow [zsi; xsi] with the code's
                                      zsi, xsi; fteik2d_vzero_indep: the same for every nsweep and gradient flag
   S2  fteik2d_source_cell_R          reals, positive spacings, >= 1 cell per axis: when the solver returns, the indices are
                                      in range, the source lies in the closed cell (zsi, xsi), the far boundary belongs to
                                      the last cell, and a source in the half-open cell [k d, (k+1) d), k < n, (in particular
                                      strictly inside a cell) gets exactly that cell
   S3  fteik3d_vzero_is_source_cell, fteik3d_vzero_indep     the same for fteik3d
   S4  fteik3d_source_cell_R
   S5  binary64 (NumF), 1 .. 2^50 cells per axis, every float (second half of the file):
       - source_cell_exact_F_refuted   REFUTED: the exact membership  zsi * d <= z  is false in binary64: d = 1 + 2^-52,
         z = 3 + 2^-51 lies strictly inside cell 2 (2 d < z < 3 d) but fl(z / d) = 3.0 and the code takes cell 3
         (fteik2d_next_cell_binary64: the generated solver returns the slowness of cell 3; the Python code does the same);
         domain_test_inexact_F: z = fl(3 d) > 3 d passes the domain test of a 3-cell axis (rounded product d * n)
       - cell_1d_F, fteik2d_source_cell_F, fteik3d_source_cell_F   what does hold: indices in range (all floats), and for
         finite z, d membership up to one rounding error on each side,
             zsi * d <= z * (1 + 2^-53)   and   z <= (zsi + 1) * d * (1 + 2^-53)      (exact values of the floats),
         with the exact strict bound z < (zsi + 1) * d whenever int(z / d) < n (no clipping by min)
   Build: see PROOF_NOTES.md. *)
From Coq Require Import ZArith List Bool Lia Reals Lra.
From FT.lib Require Import Num Arr ArrLemmas.
From FT.gen Require Fteik2d Fteik3d.
From FT.proofs Require Import Solve2dProofs Solve3dProofs SafetySolveTools.
From FT.proofs Require Pos2d.
Import ListNotations.
Open Scope Z_scope.

(* ------------------------------------------------------------------------------------------ *)
(* S1, S3: every numeric type                                                                   *)
(* ------------------------------------------------------------------------------------------ *)
Section Generic.
Context {T : Type} `{Num T}.

(* the code's source-cell index along one axis: min(int(src / d), n - 1) *)
Definition cell_index (src d : T) (n : Z) : Z := Z.min (ntrunc (ndiv src d)) (n - 1).

(* ---------- 2D ---------- *)
Lemma i_vzero_eq (slow : arr T) (dz dx zsrc xsrc : T) grad :
  i_vzero slow dz dx zsrc xsrc grad =
  get (nofZ 0) slow [cell_index zsrc dz (dim slow 0); cell_index xsrc dx (dim slow 1)].
Proof. unfold i_vzero, p1. cbv beta delta [Fteik2d.fteik2d_p1]. reflexivity. Qed.

Theorem fteik2d_vzero_is_source_cell (slow : arr T) (dz dx zsrc xsrc : T) (nsweep : Z) (grad : bool) tt ttgrad vzero :
  Fteik2d.fteik2d slow dz dx zsrc xsrc nsweep grad = Ok (tt, ttgrad, vzero) ->
  let nz := dim slow 0 in let nx := dim slow 1 in
  let zsi := Z.min (ntrunc (ndiv zsrc dz)) (nz - 1) in
  let xsi := Z.min (ntrunc (ndiv xsrc dx)) (nx - 1) in
  vzero = get (nofZ 0) slow [zsi; xsi].
Proof.
  intros E. apply fteik2d_ok_inv in E as (_ & _ & ->). cbv zeta. apply i_vzero_eq.
Qed.

(* the returned vzero does not depend on the number of sweeps or on the gradient flag *)
Corollary fteik2d_vzero_indep (slow : arr T) (dz dx zsrc xsrc : T) n1 g1 n2 g2 tt1 G1 v1 tt2 G2 v2 :
  Fteik2d.fteik2d slow dz dx zsrc xsrc n1 g1 = Ok (tt1, G1, v1) ->
  Fteik2d.fteik2d slow dz dx zsrc xsrc n2 g2 = Ok (tt2, G2, v2) -> v1 = v2.
Proof.
  intros E1 E2. rewrite (fteik2d_vzero_is_source_cell _ _ _ _ _ _ _ _ _ _ E1), (fteik2d_vzero_is_source_cell _ _ _ _ _ _ _ _ _ _ E2).
  reflexivity.
Qed.

(* the solver returns exactly when the code's domain test holds (Solve2dProofs), so the statements above are not vacuous *)
Corollary fteik2d_returns_vzero (slow : arr T) (dz dx zsrc xsrc : T) (nsweep : Z) (grad : bool) :
  inside2d slow dz dx zsrc xsrc = true ->
  exists tt ttgrad, Fteik2d.fteik2d slow dz dx zsrc xsrc nsweep grad =
    Ok (tt, ttgrad, get (nofZ 0) slow [cell_index zsrc dz (dim slow 0); cell_index xsrc dx (dim slow 1)]).
Proof.
  intros Hin. destruct (fteik2d_char slow dz dx zsrc xsrc nsweep grad) as [G E]. rewrite Hin in E.
  rewrite i_vzero_eq in E. eauto.
Qed.

(* ---------- 3D ---------- *)
Theorem fteik3d_vzero_is_source_cell (slow : arr T) (dz dx dy zsrc xsrc ysrc : T) (nsweep : Z) (grad : bool)
    tt ttgrad vzero :
  Fteik3d.fteik3d slow dz dx dy zsrc xsrc ysrc nsweep grad = Ok (tt, ttgrad, vzero) ->
  let nz := dim slow 0 in let nx := dim slow 1 in let ny := dim slow 2 in
  let zsi := Z.min (ntrunc (ndiv zsrc dz)) (nz - 1) in
  let xsi := Z.min (ntrunc (ndiv xsrc dx)) (nx - 1) in
  let ysi := Z.min (ntrunc (ndiv ysrc dy)) (ny - 1) in
  vzero = get (nofZ 0) slow [zsi; xsi; ysi].
Proof.
  intros E. apply fteik3d_ok_inv in E as (_ & _ & ->). reflexivity.
Qed.

Corollary fteik3d_vzero_indep (slow : arr T) (dz dx dy zsrc xsrc ysrc : T) n1 g1 n2 g2 tt1 G1 v1 tt2 G2 v2 :
  Fteik3d.fteik3d slow dz dx dy zsrc xsrc ysrc n1 g1 = Ok (tt1, G1, v1) ->
  Fteik3d.fteik3d slow dz dx dy zsrc xsrc ysrc n2 g2 = Ok (tt2, G2, v2) -> v1 = v2.
Proof.
  intros E1 E2.
  rewrite (fteik3d_vzero_is_source_cell _ _ _ _ _ _ _ _ _ _ _ _ E1), (fteik3d_vzero_is_source_cell _ _ _ _ _ _ _ _ _ _ _ _ E2).
  reflexivity.
Qed.

Corollary fteik3d_returns_vzero (slow : arr T) (dz dx dy zsrc xsrc ysrc : T) (nsweep : Z) (grad : bool) :
  inside3d slow dz dx dy zsrc xsrc ysrc = true ->
  exists tt ttgrad, Fteik3d.fteik3d slow dz dx dy zsrc xsrc ysrc nsweep grad =
    Ok (tt, ttgrad, get (nofZ 0) slow [cell_index zsrc dz (dim slow 0); cell_index xsrc dx (dim slow 1);
                                       cell_index ysrc dy (dim slow 2)]).
Proof.
  intros Hin. destruct (fteik3d_char slow dz dx dy zsrc xsrc ysrc nsweep grad) as [G E]. rewrite Hin in E. eauto.
Qed.

(* what the domain test says, axis by axis *)
Lemma inside2d_split (slow : arr T) (dz dx zsrc xsrc : T) :
  inside2d slow dz dx zsrc xsrc = true ->
  (nleb (nofZ 0) zsrc = true /\ nleb zsrc (nmul dz (nofZ (dim slow 0))) = true) /\
  (nleb (nofZ 0) xsrc = true /\ nleb xsrc (nmul dx (nofZ (dim slow 1))) = true).
Proof. unfold inside2d. cbv zeta. rewrite !andb_true_iff. tauto. Qed.
Lemma inside3d_split (slow : arr T) (dz dx dy zsrc xsrc ysrc : T) :
  inside3d slow dz dx dy zsrc xsrc ysrc = true ->
  (nleb (nofZ 0) zsrc = true /\ nleb zsrc (nmul dz (nofZ (dim slow 0))) = true) /\
  (nleb (nofZ 0) xsrc = true /\ nleb xsrc (nmul dx (nofZ (dim slow 1))) = true) /\
  (nleb (nofZ 0) ysrc = true /\ nleb ysrc (nmul dy (nofZ (dim slow 2))) = true).
Proof. unfold inside3d. cbv zeta. rewrite !andb_true_iff. tauto. Qed.

(* subscripts in range: the value read is an entry of the model, whatever the default of `get` *)
Lemma inb2_range (a : arr T) n0 n1 i j : shape a = [n0; n1] -> 0 <= i < n0 -> 0 <= j < n1 -> inb a [i; j] = true.
Proof.
  intros E Hi Hj. unfold inb. rewrite E. cbn [inb_sh]. rewrite !andb_true_iff, !Z.leb_le, !Z.ltb_lt. lia.
Qed.
Lemma inb3_range (a : arr T) n0 n1 n2 i j k :
  shape a = [n0; n1; n2] -> 0 <= i < n0 -> 0 <= j < n1 -> 0 <= k < n2 -> inb a [i; j; k] = true.
Proof.
  intros E Hi Hj Hk. unfold inb. rewrite E. cbn [inb_sh]. rewrite !andb_true_iff, !Z.leb_le, !Z.ltb_lt. lia.
Qed.
Lemma get_in_dat (d : T) (a : arr T) idx : wf a -> inb a idx = true -> In (get d a idx) (dat a) /\ forall d', get d' a idx = get d a idx.
Proof.
  intros [L _] Hi. pose proof (flat_bound _ _ Hi) as B. unfold get.
  assert (Hlt : (Z.to_nat (flat (shape a) idx) < length (dat a))%nat) by (rewrite L; lia).
  split; [apply nth_In; exact Hlt | intros d'; apply nth_indep; exact Hlt].
Qed.
End Generic.

(* ------------------------------------------------------------------------------------------ *)
(* S2, S4: exact real arithmetic                                                                *)
(* ------------------------------------------------------------------------------------------ *)
Section Reals.
Open Scope R_scope.

(* one axis: coordinate z, spacing d > 0, n >= 1 cells, 0 <= z <= d * n (the domain test) *)
Definition in_closed_cell (z d : R) (k : Z) : Prop := IZR k * d <= z <= (IZR k + 1) * d.

Lemma cell_1d_R (z d : R) (n : Z) :
  0 < d -> (1 <= n)%Z -> 0 <= z <= d * IZR n ->
  let k := cell_index (T := R) z d n in
  (0 <= k < n)%Z /\ in_closed_cell z d k /\
  (z = d * IZR n -> k = (n - 1)%Z) /\
  (forall j, (j < n)%Z -> IZR j * d <= z < (IZR j + 1) * d -> k = j) /\
  (forall j, IZR j * d < z < (IZR j + 1) * d -> k = j).
Proof.
  intros Hd Hn [Hz0 Hz1] k. unfold cell_index in k. cbn [ntrunc ndiv NumR] in k.
  set (a := z / d) in *.
  assert (Ez : z = a * d) by (unfold a; field; lra).
  assert (Ha : 0 <= a <= IZR n).
  { split.
    - unfold a. apply Rle_mult_inv_pos; assumption.
    - apply Rmult_le_reg_r with d; [exact Hd|]. rewrite <- Ez. lra. }
  destruct (Pos2d.src_cell a n Hn Ha) as [Hk [Hk0 Hk1]]. fold k in Hk, Hk0, Hk1.
  assert (Half : forall j, (j < n)%Z -> IZR j * d <= z < (IZR j + 1) * d -> k = j).
  { intros j Hj [J0 J1].
    assert (A0 : IZR j <= a) by (apply Rmult_le_reg_r with d; [exact Hd | lra]).
    assert (A1 : a < IZR j + 1) by (apply Rmult_lt_reg_r with d; [exact Hd | lra]).
    destruct (Pos2d.Rtrunc_bounds a (proj1 Ha)) as (_ & B0 & B1).
    assert (C0 : IZR (Rtrunc a) < IZR (j + 1)) by (rewrite plus_IZR; lra).
    assert (C1 : IZR j < IZR (Rtrunc a + 1)) by (rewrite plus_IZR; lra).
    apply lt_IZR in C0, C1. unfold k. lia. }
  split; [lia|]. split; [|split; [|split]].
  - unfold in_closed_cell. rewrite Ez. split; apply Rmult_le_compat_r; lra.
  - intros E. assert (Ea : a = IZR n) by (unfold a; rewrite E; field; lra).
    unfold k. rewrite Ea, Pos2d.Rtrunc_IZR. lia.
  - exact Half.
  - intros j [J0 J1]. apply Half; [|lra].
    assert (C : IZR j < IZR n).
    { apply Rmult_lt_reg_r with d; [exact Hd|]. lra. }
    apply lt_IZR in C. exact C.
Qed.

(* the domain test on the reals *)
Lemma nleb_R_true (a b : R) : nleb (T := R) a b = true -> a <= b.
Proof. apply Rleb_true. Qed.

Theorem fteik2d_source_cell_R (slow : arr R) (dz dx zsrc xsrc : R) (nsweep : Z) (grad : bool) (nz nx : Z) tt ttgrad vzero :
  wf slow -> shape slow = [nz; nx] -> (1 <= nz)%Z -> (1 <= nx)%Z -> 0 < dz -> 0 < dx ->
  Fteik2d.fteik2d slow dz dx zsrc xsrc nsweep grad = Ok (tt, ttgrad, vzero) ->
  let zsi := Z.min (Rtrunc (zsrc / dz)) (nz - 1) in
  let xsi := Z.min (Rtrunc (xsrc / dx)) (nx - 1) in
  (* the value returned, an entry of the model *)
  vzero = get 0 slow [zsi; xsi] /\ inb slow [zsi; xsi] = true /\ In vzero (dat slow) /\
  (* indices in range, the source in the closed cell *)
  (0 <= zsi < nz)%Z /\ (0 <= xsi < nx)%Z /\
  in_closed_cell zsrc dz zsi /\ in_closed_cell xsrc dx xsi /\
  (* far boundary: the last cell *)
  (zsrc = dz * IZR nz -> zsi = (nz - 1)%Z) /\ (xsrc = dx * IZR nx -> xsi = (nx - 1)%Z) /\
  (* a source in the half-open cell [k d, (k+1) d), in particular strictly inside a cell: that cell and no other *)
  (forall k, (k < nz)%Z -> IZR k * dz <= zsrc < (IZR k + 1) * dz -> zsi = k) /\
  (forall k, (k < nx)%Z -> IZR k * dx <= xsrc < (IZR k + 1) * dx -> xsi = k) /\
  (forall k, IZR k * dz < zsrc < (IZR k + 1) * dz -> zsi = k) /\
  (forall k, IZR k * dx < xsrc < (IZR k + 1) * dx -> xsi = k).
Proof.
  intros Hwf Hs Hnz Hnx Hdz Hdx E zsi xsi.
  pose proof (fteik2d_vzero_is_source_cell _ _ _ _ _ _ _ _ _ _ E) as Ev. cbv zeta in Ev.
  apply fteik2d_ok_inv in E as (Hin & _ & _). apply inside2d_split in Hin.
  assert (D0 : dim slow 0 = nz) by (unfold dim; rewrite Hs; reflexivity).
  assert (D1 : dim slow 1 = nx) by (unfold dim; rewrite Hs; reflexivity).
  rewrite D0, D1 in Hin, Ev. cbn [ntrunc ndiv nofZ nmul NumR] in Hin, Ev. fold zsi xsi in Ev.
  destruct Hin as [[Z0 Z1] [X0 X1]]. apply Rleb_true in Z0, Z1, X0, X1.
  destruct (cell_1d_R zsrc dz nz Hdz Hnz (conj Z0 Z1)) as (Rz & Cz & Bz & Uz & Vz).
  destruct (cell_1d_R xsrc dx nx Hdx Hnx (conj X0 X1)) as (Rx & Cx & Bx & Ux & Vx).
  change (cell_index (T := R) zsrc dz nz) with zsi in *. change (cell_index (T := R) xsrc dx nx) with xsi in *.
  assert (Hib : inb slow [zsi; xsi] = true) by (apply (inb2_range slow nz nx); assumption).
  split; [exact Ev|]. split; [exact Hib|]. split; [rewrite Ev; apply (get_in_dat 0 slow _ Hwf Hib)|].
  repeat (split; [assumption|]); assumption.
Qed.

Theorem fteik3d_source_cell_R (slow : arr R) (dz dx dy zsrc xsrc ysrc : R) (nsweep : Z) (grad : bool) (nz nx ny : Z)
    tt ttgrad vzero :
  wf slow -> shape slow = [nz; nx; ny] -> (1 <= nz)%Z -> (1 <= nx)%Z -> (1 <= ny)%Z -> 0 < dz -> 0 < dx -> 0 < dy ->
  Fteik3d.fteik3d slow dz dx dy zsrc xsrc ysrc nsweep grad = Ok (tt, ttgrad, vzero) ->
  let zsi := Z.min (Rtrunc (zsrc / dz)) (nz - 1) in
  let xsi := Z.min (Rtrunc (xsrc / dx)) (nx - 1) in
  let ysi := Z.min (Rtrunc (ysrc / dy)) (ny - 1) in
  vzero = get 0 slow [zsi; xsi; ysi] /\ inb slow [zsi; xsi; ysi] = true /\ In vzero (dat slow) /\
  (0 <= zsi < nz)%Z /\ (0 <= xsi < nx)%Z /\ (0 <= ysi < ny)%Z /\
  in_closed_cell zsrc dz zsi /\ in_closed_cell xsrc dx xsi /\ in_closed_cell ysrc dy ysi /\
  (zsrc = dz * IZR nz -> zsi = (nz - 1)%Z) /\ (xsrc = dx * IZR nx -> xsi = (nx - 1)%Z) /\
  (ysrc = dy * IZR ny -> ysi = (ny - 1)%Z) /\
  (forall k, (k < nz)%Z -> IZR k * dz <= zsrc < (IZR k + 1) * dz -> zsi = k) /\
  (forall k, (k < nx)%Z -> IZR k * dx <= xsrc < (IZR k + 1) * dx -> xsi = k) /\
  (forall k, (k < ny)%Z -> IZR k * dy <= ysrc < (IZR k + 1) * dy -> ysi = k) /\
  (forall k, IZR k * dz < zsrc < (IZR k + 1) * dz -> zsi = k) /\
  (forall k, IZR k * dx < xsrc < (IZR k + 1) * dx -> xsi = k) /\
  (forall k, IZR k * dy < ysrc < (IZR k + 1) * dy -> ysi = k).
Proof.
  intros Hwf Hs Hnz Hnx Hny Hdz Hdx Hdy E zsi xsi ysi.
  pose proof (fteik3d_vzero_is_source_cell _ _ _ _ _ _ _ _ _ _ _ _ E) as Ev. cbv zeta in Ev.
  apply fteik3d_ok_inv in E as (Hin & _ & _). apply inside3d_split in Hin.
  assert (D0 : dim slow 0 = nz) by (unfold dim; rewrite Hs; reflexivity).
  assert (D1 : dim slow 1 = nx) by (unfold dim; rewrite Hs; reflexivity).
  assert (D2 : dim slow 2 = ny) by (unfold dim; rewrite Hs; reflexivity).
  rewrite D0, D1, D2 in Hin, Ev. cbn [ntrunc ndiv nofZ nmul NumR] in Hin, Ev. fold zsi xsi ysi in Ev.
  destruct Hin as [[Z0 Z1] [[X0 X1] [Y0 Y1]]]. apply Rleb_true in Z0, Z1, X0, X1, Y0, Y1.
  destruct (cell_1d_R zsrc dz nz Hdz Hnz (conj Z0 Z1)) as (Rz & Cz & Bz & Uz & Vz).
  destruct (cell_1d_R xsrc dx nx Hdx Hnx (conj X0 X1)) as (Rx & Cx & Bx & Ux & Vx).
  destruct (cell_1d_R ysrc dy ny Hdy Hny (conj Y0 Y1)) as (Ry & Cy & By & Uy & Vy).
  change (cell_index (T := R) zsrc dz nz) with zsi in *. change (cell_index (T := R) xsrc dx nx) with xsi in *.
  change (cell_index (T := R) ysrc dy ny) with ysi in *.
  assert (Hib : inb slow [zsi; xsi; ysi] = true) by (apply (inb3_range slow nz nx ny); assumption).
  split; [exact Ev|]. split; [exact Hib|]. split; [rewrite Ev; apply (get_in_dat 0 slow _ Hwf Hib)|].
  repeat (split; [assumption|]); assumption.
Qed.

(* ---------- a direct real-number instance ---------- *)
(* 2 x 3 cells with six different slownesses, dz = 1/2, dx = 2; the source (0.7, 4.5) lies strictly inside cell (1, 2);
   the source (1, 6) is the far corner and belongs to the last cell (1, 2) as well; the source (0.5, 2) is the node (1, 1)
   and gets cell (1, 1) (the cell to its lower right) *)
Definition slowR : arr R := mkarr [2%Z; 3%Z] [1; 2; 3; 4; 5; 6].
Lemma slowR_wf : wf slowR.
Proof. split; [reflexivity | repeat constructor; lia]. Qed.

Example ex2d_R_inside nsweep grad :
  exists tt G, Fteik2d.fteik2d slowR (1/2) 2 (7/10) (9/2) nsweep grad = Ok (tt, G, 6).
Proof.
  destruct (fteik2d_returns_vzero slowR (1/2) 2 (7/10) (9/2) nsweep grad) as (tt & G & E).
  { unfold inside2d. cbv zeta. change (dim slowR 0) with 2%Z. change (dim slowR 1) with 3%Z.
    cbn [nleb nofZ nmul NumR]. rewrite !andb_true_iff. repeat split; apply Rleb_true; lra. }
  exists tt, G. rewrite E.
  assert (P := fun h1 h2 h3 h4 => fteik2d_source_cell_R _ _ _ _ _ _ _ 2%Z 3%Z _ _ _ slowR_wf eq_refl h1 h2 h3 h4 E).
  specialize (P ltac:(lia) ltac:(lia) ltac:(lra) ltac:(lra)).
  cbv zeta in P. destruct P as
    (_ & _ & _ & _ & _ & _ & _ & _ & _ & _ & _ & Vz & Vx).
  change (dim slowR 0) with 2%Z. change (dim slowR 1) with 3%Z. unfold cell_index. cbn [ntrunc ndiv NumR].
  rewrite (Vz 1%Z) by lra. rewrite (Vx 2%Z) by lra. reflexivity.
Qed.

Example ex2d_R_far_corner nsweep grad :
  exists tt G, Fteik2d.fteik2d slowR (1/2) 2 1 6 nsweep grad = Ok (tt, G, 6).
Proof.
  destruct (fteik2d_returns_vzero slowR (1/2) 2 1 6 nsweep grad) as (tt & G & E).
  { unfold inside2d. cbv zeta. change (dim slowR 0) with 2%Z. change (dim slowR 1) with 3%Z.
    cbn [nleb nofZ nmul NumR]. rewrite !andb_true_iff. repeat split; apply Rleb_true; lra. }
  exists tt, G. rewrite E.
  assert (P := fun h1 h2 h3 h4 => fteik2d_source_cell_R _ _ _ _ _ _ _ 2%Z 3%Z _ _ _ slowR_wf eq_refl h1 h2 h3 h4 E).
  specialize (P ltac:(lia) ltac:(lia) ltac:(lra) ltac:(lra)).
  cbv zeta in P. destruct P as
    (_ & _ & _ & _ & _ & _ & _ & Bz & Bx & _).
  change (dim slowR 0) with 2%Z. change (dim slowR 1) with 3%Z. unfold cell_index. cbn [ntrunc ndiv NumR].
  rewrite Bz by lra. rewrite Bx by lra. reflexivity.
Qed.

Example ex2d_R_node nsweep grad :
  exists tt G, Fteik2d.fteik2d slowR (1/2) 2 (1/2) 2 nsweep grad = Ok (tt, G, 5).
Proof.
  destruct (fteik2d_returns_vzero slowR (1/2) 2 (1/2) 2 nsweep grad) as (tt & G & E).
  { unfold inside2d. cbv zeta. change (dim slowR 0) with 2%Z. change (dim slowR 1) with 3%Z.
    cbn [nleb nofZ nmul NumR]. rewrite !andb_true_iff. repeat split; apply Rleb_true; lra. }
  exists tt, G. rewrite E.
  assert (P := fun h1 h2 h3 h4 => fteik2d_source_cell_R _ _ _ _ _ _ _ 2%Z 3%Z _ _ _ slowR_wf eq_refl h1 h2 h3 h4 E).
  specialize (P ltac:(lia) ltac:(lia) ltac:(lra) ltac:(lra)).
  cbv zeta in P. destruct P as
    (_ & _ & _ & _ & _ & _ & _ & _ & _ & Uz & Ux & _).
  change (dim slowR 0) with 2%Z. change (dim slowR 1) with 3%Z. unfold cell_index. cbn [ntrunc ndiv NumR].
  rewrite (Uz 1%Z) by (lia || lra). rewrite (Ux 1%Z) by (lia || lra). reflexivity.
Qed.
End Reals.

(* ------------------------------------------------------------------------------------------ *)
(* S5: binary64                                                                                 *)
(* ------------------------------------------------------------------------------------------ *)
From Coq Require Import PrimFloat Uint63 FloatOps FloatAxioms SpecFloat.
From Flocq Require Import Core Relative BinarySingleNaN.
From Flocq Require IEEE754.PrimFloat.
From FT.proofs Require Import NumFLaws TruncLawsF.

Section Binary64.
Local Open Scope R_scope.
Local Existing Instance FP.Hprec.
Local Existing Instance FP.Hmax.
Local Instance prec53_gt_0_sc : Prec_gt_0 53 := eq_refl.
Notation flt := PrimFloat.float.

(* the exact real value of a float (0 for infinities and NaN), finiteness *)
Definition Rval (x : flt) : R := B2R (FP.Prim2B x).
Definition finite (x : flt) : Prop := is_finite (FP.Prim2B x) = true.
(* the unit roundoff 2^-53 *)
Definition u53 : R := / 9007199254740992.
Lemma u53_pos : 0 < u53.
Proof. unfold u53. apply Rinv_0_lt_compat. lra. Qed.

(* membership in the closed cell k, up to one rounding error on each side *)
Definition in_cell_approx (z d : flt) (k : Z) : Prop :=
  IZR k * Rval d <= Rval z * (1 + u53) /\ Rval z <= (IZR k + 1) * Rval d * (1 + u53).

(* int() of a finite non-negative float is above its value minus one *)
Lemma f_trunc_lt (r : flt) :
  is_finite (FP.Prim2B r) = true -> 0 <= B2R (FP.Prim2B r) -> B2R (FP.Prim2B r) < IZR (f_trunc r) + 1.
Proof.
  unfold f_trunc. rewrite <- FP.B2SF_Prim2B.
  destruct (FP.Prim2B r) as [s | s | | s m e Hb]; cbn [B2SF B2R is_finite]; intros Hf Hr; try discriminate Hf.
  - lra.
  - destruct s.
    + exfalso.
      assert (F2R (Float radix2 (cond_Zopp true (Z.pos m)) e) < 0) by (apply F2R_lt_0; reflexivity). lra.
    + cbn [cond_Zopp]. unfold F2R. cbn [Fnum Fexp].
      destruct (0 <=? e)%Z eqn:E.
      * apply Z.leb_le in E. rewrite mult_IZR, IZR_pow2 by exact E. lra.
      * apply Z.leb_gt in E.
        assert (Hp : (0 < 2 ^ (- e))%Z) by (apply Z.pow_pos_nonneg; lia).
        replace e with (- (- e))%Z at 1 by lia. rewrite bpow_opp, <- IZR_pow2 by lia.
        assert (HpR : 0 < IZR (2 ^ (- e))) by (apply IZR_lt; exact Hp).
        assert (M : IZR (Z.pos m) < (IZR (Z.pos m / 2 ^ (- e)) + 1) * IZR (2 ^ (- e))).
        { rewrite <- (plus_IZR _ 1), <- mult_IZR. apply IZR_lt.
          pose proof (Z.mul_succ_div_gt (Z.pos m) (2 ^ (- e)) Hp). lia. }
        apply Rmult_lt_reg_r with (IZR (2 ^ (- e))); [ exact HpR | ].
        rewrite Rmult_assoc, Rinv_l by lra. lra.
Qed.

(* rounding to nearest: an integer below rnd x is below x (1 + 2^-53); an integer above rnd x is above x *)
Lemma rnd_ge_int (x : R) (k : Z) :
  (1 <= k < 2 ^ 53)%Z -> 0 <= x -> IZR k <= rnd x -> IZR k <= x * (1 + u53).
Proof.
  intros Hk Hx Hle.
  assert (K1 : 1 <= IZR k) by (apply IZR_le; lia).
  destruct (Rlt_or_le x (bpow radix2 (-1022))) as [Small | Big].
  - exfalso.
    assert (F : fmt (bpow radix2 (-1022))).
    { replace (bpow radix2 (-1022)) with (F2R (Float radix2 1 (-1022))) by (unfold F2R; cbn [Fnum Fexp]; ring).
      apply fmt_F2R; [ reflexivity | lia ]. }
    pose proof (rnd_le x _ (Rlt_le _ _ Small)) as L. rewrite (rnd_id _ F) in L.
    assert (B : bpow radix2 (-1022) < 1) by (change 1 with (bpow radix2 0); apply bpow_lt; lia).
    lra.
  - pose proof (relative_error_N_FLT radix2 (-1074) 53 prec53_gt_0_sc (fun z => negb (Z.even z)) x) as E.
    change (-1074 + 53 - 1)%Z with (-1022)%Z in E. rewrite (Rabs_pos_eq x Hx) in E. specialize (E Big).
    fold ZnearestE in E. change (Z.opp 53 + 1)%Z with (-53 + 1)%Z in E. rewrite bpow_m52 in E. unfold P52 in E.
    assert (E' : rnd x - x <= / 2 * / 4503599627370496 * x).
    { revert E. unfold Rabs. destruct Rcase_abs; lra. }
    unfold u53. lra.
Qed.

Lemma rnd_lt_int (x : R) (k : Z) : (Z.abs k < 2 ^ 53)%Z -> rnd x < IZR k -> x < IZR k.
Proof.
  intros Hk Hlt. destruct (Rlt_or_le x (IZR k)) as [L | G]; [ exact L | exfalso ].
  pose proof (rnd_le _ _ G) as M. rewrite (rnd_id _ (fmt_IZR k Hk)) in M. lra.
Qed.

(* one axis, every float: the index is in range; finite coordinate and spacing: the source is in the cell up to one
   rounding error, and exactly below the upper face when int(z / d) is a cell index (no clipping) *)
Theorem cell_1d_F (z d : flt) (n : Z) :
  (1 <= n <= 2 ^ 50)%Z ->
  PrimFloat.leb (f_ofZ 0) z = true -> PrimFloat.ltb (f_ofZ 0) d = true ->
  PrimFloat.leb z (PrimFloat.mul d (f_ofZ n)) = true ->
  let k := cell_index (T := flt) z d n in
  (0 <= k < n)%Z /\
  (finite z -> finite d ->
   in_cell_approx z d k /\ ((f_trunc (PrimFloat.div z d) < n)%Z -> Rval z < (IZR k + 1) * Rval d)).
Proof.
  intros Hn Hz Hd Hle k.
  pose proof (trunc_div_nonneg_F z d Hz Hd) as T0.
  unfold cell_index in k. cbn [ntrunc ndiv NumF] in k.
  split; [ unfold k; lia | ]. intros FZ FD. unfold finite in FZ, FD.
  change (2 ^ 50)%Z with 1125899906842624%Z in Hn.
  change (f_ofZ 0) with 0%float in Hz, Hd.
  rewrite FP.leb_equiv in Hz, Hle. rewrite FP.ltb_equiv in Hd. rewrite FP.mul_equiv in Hle.
  rewrite zero_B in Hz, Hd.
  destruct (ofZ_B n Hn) as [FN RN].
  destruct (Bltb_zero_cases _ Hd) as [[_ RD] | ED]; [ | rewrite ED in FD; discriminate FD ].
  destruct (Bleb_zero_cases _ Hz) as [[_ RZ] | EZ]; [ | rewrite EZ in FZ; discriminate FZ ].
  assert (Fd : fmt (B2R (FP.Prim2B d))) by (exact (generic_format_B2R prec emax (FP.Prim2B d))).
  assert (N1 : 1 <= IZR n <= 1125899906842624) by (split; apply IZR_le; lia).
  assert (Hdn : 0 <= B2R (FP.Prim2B d) * IZR n) by (apply Rmult_le_pos; lra).
  assert (R0 : 0 <= rnd (B2R (FP.Prim2B d) * IZR n)) by (rewrite <- rnd_0; apply rnd_le; exact Hdn).
  assert (Hzr : B2R (FP.Prim2B z) <= rnd (B2R (FP.Prim2B d) * IZR n)).
  { destruct (Rlt_or_le (Rabs (rnd (B2R (FP.Prim2B d) * IZR n))) (bpow radix2 1024)) as [Hfin | Hovf].
    - rewrite <- RN in Hfin. destruct (Bmult_rnd_fin _ _ Hfin) as [RM FM].
      rewrite FD, FN in FM. rewrite Bleb_correct in Hle by assumption.
      revert Hle. case Rle_bool_spec; [ intros L _ | intros _ H; discriminate H ].
      rewrite RM, RN in L. exact L.
    - rewrite Rabs_pos_eq in Hovf by exact R0.
      pose proof (abs_B2R_lt_emax prec emax (FP.Prim2B z)) as Hlt.
      rewrite Rabs_pos_eq in Hlt by exact RZ. change (bpow radix2 emax) with (bpow radix2 1024) in Hlt. lra. }
  destruct (core_R _ _ n Fd RZ RD Hn Hzr) as [Q0 Q1].
  assert (HQ : Rabs (rnd (B2R (FP.Prim2B z) / B2R (FP.Prim2B d))) < bpow radix2 1024).
  { pose proof big_1024. rewrite Rabs_pos_eq by exact Q0. lra. }
  destruct (Bdiv_rnd_fin (FP.Prim2B z) (FP.Prim2B d)) as [RQ FQ]; [ lra | exact HQ | ].
  rewrite <- FP.div_equiv in RQ, FQ. rewrite FZ in FQ.
  destruct (f_trunc_le _ FQ) as [_ T1]; [ rewrite RQ; exact Q0 | ].
  pose proof (f_trunc_lt _ FQ) as T2. rewrite RQ in T1, T2. specialize (T2 Q0).
  set (t := f_trunc (PrimFloat.div z d)) in *.
  set (zr := B2R (FP.Prim2B z)) in *. set (dr := B2R (FP.Prim2B d)) in *.
  set (x := zr / dr) in *.
  assert (Ex : zr = x * dr) by (unfold x; field; lra).
  assert (X0 : 0 <= x) by (unfold x; apply Rle_mult_inv_pos; assumption).
  (* t <= n + 1/4 *)
  assert (Tn : (t <= n)%Z).
  { assert (A : IZR t < IZR (n + 1)) by (rewrite plus_IZR; lra). apply lt_IZR in A. lia. }
  assert (Kt : IZR k <= IZR t) by (apply IZR_le; unfold k; lia).
  (* lower face *)
  assert (Lo : IZR k * dr <= zr * (1 + u53)).
  { destruct (Z_le_gt_dec k 0) as [K0 | K1].
    - assert (Ek0 : k = 0%Z) by (unfold k in *; lia). rewrite Ek0.
      assert (0 <= zr * (1 + u53)) by (apply Rmult_le_pos; [ exact RZ | pose proof u53_pos; lra ]). lra.
    - assert (G : IZR k <= x * (1 + u53)).
      { apply rnd_ge_int; [ unfold k in *; lia | exact X0 | lra ]. }
      rewrite Ex. replace (x * dr * (1 + u53)) with (x * (1 + u53) * dr) by ring.
      apply Rmult_le_compat_r; lra. }
  (* upper face, without clipping *)
  assert (Up1 : (t < n)%Z -> zr < (IZR k + 1) * dr).
  { intros Ht. assert (Ek : k = t) by (unfold k; lia).
    assert (G : x < IZR (t + 1)).
    { apply rnd_lt_int; [ lia | rewrite plus_IZR; exact T2 ]. }
    rewrite plus_IZR in G. rewrite Ek, Ex. apply Rmult_lt_compat_r; lra. }
  split; [ split; [ exact Lo | ] | exact Up1 ].
  change (Rval z) with zr. change (Rval d) with dr.
  destruct (Z_lt_ge_dec t n) as [Ht | Ht].
  - specialize (Up1 Ht).
    assert (0 <= (IZR k + 1) * dr) by lra.
    assert (0 <= (IZR k + 1) * dr * u53) by (apply Rmult_le_pos; [ assumption | pose proof u53_pos; lra ]).
    replace ((IZR k + 1) * dr * (1 + u53)) with ((IZR k + 1) * dr + (IZR k + 1) * dr * u53) by ring. lra.
  - assert (Ek : k = (n - 1)%Z) by (unfold k; lia). rewrite Ek, minus_IZR.
    pose proof (mul_int_err dr n Fd) as E. rewrite bpow_m52 in E. unfold P52 in E.
    rewrite (Rabs_pos_eq _ Hdn) in E.
    assert (E' : rnd (dr * IZR n) <= dr * IZR n + / 2 * / 4503599627370496 * (dr * IZR n)).
    { revert E. unfold Rabs. destruct Rcase_abs; lra. }
    unfold u53. lra.
Qed.
(* ---------- the solvers at binary64 ---------- *)
Theorem fteik2d_source_cell_F (slow : arr flt) (dz dx zsrc xsrc : flt) (nsweep : Z) (grad : bool) (nz nx : Z)
    tt ttgrad vzero :
  wf slow -> shape slow = [nz; nx] -> (1 <= nz <= 2 ^ 50)%Z -> (1 <= nx <= 2 ^ 50)%Z ->
  PrimFloat.ltb 0%float dz = true -> PrimFloat.ltb 0%float dx = true ->
  Fteik2d.fteik2d slow dz dx zsrc xsrc nsweep grad = Ok (tt, ttgrad, vzero) ->
  let zsi := Z.min (f_trunc (PrimFloat.div zsrc dz)) (nz - 1) in
  let xsi := Z.min (f_trunc (PrimFloat.div xsrc dx)) (nx - 1) in
  vzero = get 0%float slow [zsi; xsi] /\ inb slow [zsi; xsi] = true /\ In vzero (dat slow) /\
  (0 <= zsi < nz)%Z /\ (0 <= xsi < nx)%Z /\
  (finite zsrc -> finite dz ->
   in_cell_approx zsrc dz zsi /\ ((f_trunc (PrimFloat.div zsrc dz) < nz)%Z -> Rval zsrc < (IZR zsi + 1) * Rval dz)) /\
  (finite xsrc -> finite dx ->
   in_cell_approx xsrc dx xsi /\ ((f_trunc (PrimFloat.div xsrc dx) < nx)%Z -> Rval xsrc < (IZR xsi + 1) * Rval dx)).
Proof.
  intros Hwf Hs Hnz Hnx Hdz Hdx E zsi xsi.
  pose proof (fteik2d_vzero_is_source_cell _ _ _ _ _ _ _ _ _ _ E) as Ev. cbv zeta in Ev.
  apply fteik2d_ok_inv in E as (Hin & _ & _). apply inside2d_split in Hin.
  assert (D0 : dim slow 0 = nz) by (unfold dim; rewrite Hs; reflexivity).
  assert (D1 : dim slow 1 = nx) by (unfold dim; rewrite Hs; reflexivity).
  rewrite D0, D1 in Hin, Ev. cbn [ntrunc ndiv nofZ nleb nmul NumF] in Hin, Ev. fold zsi xsi in Ev.
  destruct Hin as [[Z0 Z1] [X0 X1]].
  destruct (cell_1d_F zsrc dz nz Hnz Z0 Hdz Z1) as [Rz Cz].
  destruct (cell_1d_F xsrc dx nx Hnx X0 Hdx X1) as [Rx Cx].
  change (cell_index (T := flt) zsrc dz nz) with zsi in *. change (cell_index (T := flt) xsrc dx nx) with xsi in *.
  assert (Hib : inb slow [zsi; xsi] = true) by (apply (inb2_range slow nz nx); assumption).
  split; [exact Ev|]. split; [exact Hib|]. split; [rewrite Ev; apply (get_in_dat (f_ofZ 0) slow _ Hwf Hib)|].
  repeat (split; [assumption|]); assumption.
Qed.

Theorem fteik3d_source_cell_F (slow : arr flt) (dz dx dy zsrc xsrc ysrc : flt) (nsweep : Z) (grad : bool) (nz nx ny : Z)
    tt ttgrad vzero :
  wf slow -> shape slow = [nz; nx; ny] -> (1 <= nz <= 2 ^ 50)%Z -> (1 <= nx <= 2 ^ 50)%Z -> (1 <= ny <= 2 ^ 50)%Z ->
  PrimFloat.ltb 0%float dz = true -> PrimFloat.ltb 0%float dx = true -> PrimFloat.ltb 0%float dy = true ->
  Fteik3d.fteik3d slow dz dx dy zsrc xsrc ysrc nsweep grad = Ok (tt, ttgrad, vzero) ->
  let zsi := Z.min (f_trunc (PrimFloat.div zsrc dz)) (nz - 1) in
  let xsi := Z.min (f_trunc (PrimFloat.div xsrc dx)) (nx - 1) in
  let ysi := Z.min (f_trunc (PrimFloat.div ysrc dy)) (ny - 1) in
  vzero = get 0%float slow [zsi; xsi; ysi] /\ inb slow [zsi; xsi; ysi] = true /\ In vzero (dat slow) /\
  (0 <= zsi < nz)%Z /\ (0 <= xsi < nx)%Z /\ (0 <= ysi < ny)%Z /\
  (finite zsrc -> finite dz ->
   in_cell_approx zsrc dz zsi /\ ((f_trunc (PrimFloat.div zsrc dz) < nz)%Z -> Rval zsrc < (IZR zsi + 1) * Rval dz)) /\
  (finite xsrc -> finite dx ->
   in_cell_approx xsrc dx xsi /\ ((f_trunc (PrimFloat.div xsrc dx) < nx)%Z -> Rval xsrc < (IZR xsi + 1) * Rval dx)) /\
  (finite ysrc -> finite dy ->
   in_cell_approx ysrc dy ysi /\ ((f_trunc (PrimFloat.div ysrc dy) < ny)%Z -> Rval ysrc < (IZR ysi + 1) * Rval dy)).
Proof.
  intros Hwf Hs Hnz Hnx Hny Hdz Hdx Hdy E zsi xsi ysi.
  pose proof (fteik3d_vzero_is_source_cell _ _ _ _ _ _ _ _ _ _ _ _ E) as Ev. cbv zeta in Ev.
  apply fteik3d_ok_inv in E as (Hin & _ & _). apply inside3d_split in Hin.
  assert (D0 : dim slow 0 = nz) by (unfold dim; rewrite Hs; reflexivity).
  assert (D1 : dim slow 1 = nx) by (unfold dim; rewrite Hs; reflexivity).
  assert (D2 : dim slow 2 = ny) by (unfold dim; rewrite Hs; reflexivity).
  rewrite D0, D1, D2 in Hin, Ev. cbn [ntrunc ndiv nofZ nleb nmul NumF] in Hin, Ev. fold zsi xsi ysi in Ev.
  destruct Hin as [[Z0 Z1] [[X0 X1] [Y0 Y1]]].
  destruct (cell_1d_F zsrc dz nz Hnz Z0 Hdz Z1) as [Rz Cz].
  destruct (cell_1d_F xsrc dx nx Hnx X0 Hdx X1) as [Rx Cx].
  destruct (cell_1d_F ysrc dy ny Hny Y0 Hdy Y1) as [Ry Cy].
  change (cell_index (T := flt) zsrc dz nz) with zsi in *. change (cell_index (T := flt) xsrc dx nx) with xsi in *.
  change (cell_index (T := flt) ysrc dy ny) with ysi in *.
  assert (Hib : inb slow [zsi; xsi; ysi] = true) by (apply (inb3_range slow nz nx ny); assumption).
  split; [exact Ev|]. split; [exact Hib|]. split; [rewrite Ev; apply (get_in_dat (f_ofZ 0) slow _ Hwf Hib)|].
  repeat (split; [assumption|]); assumption.
Qed.

(* ---------- the exact statement is false at binary64 ---------- *)
(* spacing d = 1 + 2^-52, four cells, source z = 3 + 2^-51.  In exact arithmetic 2 d < z < 3 d (3 d = 3 + 3 * 2^-52): the
   source is strictly inside cell 2.  The computed quotient z / d = 3 - 2^-52 + ... rounds to 3.0, so the code takes
   cell 3: the returned slowness is the one of the NEXT cell, the source being 2^-52 outside it. *)
Definition wz : flt := 0x1.8000000000001p1%float.
Definition wd : flt := 0x1.0000000000001p0%float.

Lemma Rval_finite_pos (x : flt) m e : Prim2SF x = S754_finite false m e -> finite x /\ Rval x = IZR (Z.pos m) * bpow radix2 e.
Proof.
  intros E. unfold finite, Rval, FP.Prim2B. rewrite is_finite_SF2B, B2R_SF2B, E. split; reflexivity.
Qed.

Theorem source_cell_exact_F_refuted :
  PrimFloat.leb (f_ofZ 0) wz = true /\ PrimFloat.ltb (f_ofZ 0) wd = true /\
  PrimFloat.leb wz (PrimFloat.mul wd (f_ofZ 4)) = true /\          (* the domain test passes, 4 cells *)
  finite wz /\ finite wd /\
  cell_index (T := flt) wz wd 4 = 3%Z /\                            (* the code's cell *)
  2 * Rval wd < Rval wz < 3 * Rval wd /\                            (* the cell containing the source: cell 2 *)
  ~ (IZR (cell_index (T := flt) wz wd 4) * Rval wd <= Rval wz).     (* exact membership fails *)
Proof.
  assert (Ez : Prim2SF wz = S754_finite false 6755399441055745 (-51)) by (vm_compute; reflexivity).
  assert (Ed : Prim2SF wd = S754_finite false 4503599627370497 (-52)) by (vm_compute; reflexivity).
  destruct (Rval_finite_pos _ _ _ Ez) as [Fz Vz]. destruct (Rval_finite_pos _ _ _ Ed) as [Fd Vd].
  assert (Ek : cell_index (T := flt) wz wd 4 = 3%Z) by (vm_compute; reflexivity).
  assert (B51 : bpow radix2 (-51) = / 2251799813685248) by (simpl; reflexivity).
  assert (B52 : bpow radix2 (-52) = / 4503599627370496) by (simpl; reflexivity).
  rewrite B51 in Vz. rewrite B52 in Vd.
  repeat split; try (vm_compute; reflexivity); try assumption.
  - rewrite Vz, Vd. lra.
  - rewrite Vz, Vd. lra.
  - rewrite Ek, Vz, Vd. lra.
Qed.

(* the same on the generated solver, run by vm_compute: 4 x 1 cells of slowness 1, 2, 3, 4; the source above is strictly
   inside the cell of slowness 3, the solver returns vzero = 4 *)
Definition slowF4 : arr flt := mkarr [4%Z; 1%Z] [1; 2; 3; 4]%float.
Example fteik2d_next_cell_binary64 :
  match Fteik2d.fteik2d (T := flt) slowF4 wd 1%float wz 0.5%float 1 false with
  | Ok (_, _, v) => v = 4%float
  | _ => False
  end.
Proof. vm_compute. reflexivity. Qed.

(* the other slack is needed as well: the domain test compares with the ROUNDED product d * n.  d = 1 + 2^-52, three cells,
   z = 3 + 2^-50 = fl(3 d) passes the test although z > 3 d: the source is outside the model (and outside the closed last
   cell) by 2^-52 *)
Definition wz' : flt := 0x1.8000000000002p1%float.
Theorem domain_test_inexact_F :
  PrimFloat.leb (f_ofZ 0) wz' = true /\ PrimFloat.leb wz' (PrimFloat.mul wd (f_ofZ 3)) = true /\
  cell_index (T := flt) wz' wd 3 = 2%Z /\ (IZR 2 + 1) * Rval wd < Rval wz'.
Proof.
  assert (Ez : Prim2SF wz' = S754_finite false 6755399441055746 (-51)) by (vm_compute; reflexivity).
  assert (Ed : Prim2SF wd = S754_finite false 4503599627370497 (-52)) by (vm_compute; reflexivity).
  destruct (Rval_finite_pos _ _ _ Ez) as [Fz Vz]. destruct (Rval_finite_pos _ _ _ Ed) as [Fd Vd].
  assert (B51 : bpow radix2 (-51) = / 2251799813685248) by (simpl; reflexivity).
  assert (B52 : bpow radix2 (-52) = / 4503599627370496) by (simpl; reflexivity).
  rewrite B51 in Vz. rewrite B52 in Vd.
  repeat split; try (vm_compute; reflexivity).
  rewrite Vz, Vd. lra.
Qed.

(* ---------- a concrete binary64 run (generated solvers, vm_compute) ---------- *)
(* 2 x 3 cells, dz = 0.5, dx = 2: interior source, far corner, node (the same three cases as over the reals) *)
Definition slowF : arr flt := mkarr [2%Z; 3%Z] [1; 2; 3; 4; 5; 6]%float.
Definition vz2 (r : res (arr flt * arr flt * flt)) : option flt := match r with Ok (_, _, v) => Some v | _ => None end.
Example ex2d_F :
  vz2 (Fteik2d.fteik2d (T := flt) slowF 0.5%float 2%float 0.75%float 4.5%float 2 false) = Some 6%float /\
  vz2 (Fteik2d.fteik2d (T := flt) slowF 0.5%float 2%float 1%float 6%float 3 true) = Some 6%float /\
  vz2 (Fteik2d.fteik2d (T := flt) slowF 0.5%float 2%float 0.5%float 2%float 1 true) = Some 5%float /\
  vz2 (Fteik2d.fteik2d (T := flt) slowF 0.5%float 2%float 1.5%float 2%float 1 true) = None.
Proof. vm_compute. repeat split; reflexivity. Qed.
(* 2 x 2 x 2 cells, slowness 1 .. 8 (row-major), unit spacings *)
Definition slowF3 : arr flt := mkarr [2%Z; 2%Z; 2%Z] [1; 2; 3; 4; 5; 6; 7; 8]%float.
Example ex3d_F :
  vz2 (Fteik3d.fteik3d (T := flt) slowF3 1%float 1%float 1%float 1.5%float 0.25%float 1.75%float 1 false) = Some 6%float /\
  vz2 (Fteik3d.fteik3d (T := flt) slowF3 1%float 1%float 1%float 2%float 2%float 2%float 1 true) = Some 8%float.
Proof. vm_compute. repeat split; reflexivity. Qed.
End Binary64.

Print Assumptions fteik2d_vzero_is_source_cell.
Print Assumptions fteik2d_vzero_indep.
Print Assumptions fteik3d_vzero_is_source_cell.
Print Assumptions fteik3d_vzero_indep.
Print Assumptions fteik2d_source_cell_R.
Print Assumptions fteik3d_source_cell_R.
Print Assumptions cell_1d_F.
Print Assumptions fteik2d_source_cell_F.
Print Assumptions fteik3d_source_cell_F.
Print Assumptions source_cell_exact_F_refuted.
Print Assumptions domain_test_inexact_F.
