(* Facts about np.searchsorted(x, q, side="right") (lib/NumArr.v: searchsorted_right).
   Part 1: any numeric type T.  `ssr_list l q` is the index of the first element e with `nltb q e`
           (length if none): characterisation WITHOUT any order law.  With the order laws of
           `NumLaws` (irreflexive, transitive nltb) and an ascending axis: value at a node, last cell.
   Part 2: T := R, the statements used by the interpolation proofs. *)
From Coq Require Import ZArith List Bool Reals Lra Lia.
From FT.lib Require Import Num Arr NumArr ArrLemmas.
Import ListNotations.
Open Scope Z_scope.

(* ---------- 1-D indexing ---------- *)
Lemma get1 {A} (d : A) (x : arr A) n i : shape x = [n] -> get d x [i] = nth (Z.to_nat i) (dat x) d.
Proof. intros E. unfold get, flat. rewrite E. simpl. reflexivity. Qed.

Lemma dim1 {A} (x : arr A) n : shape x = [n] -> dim x 0%nat = n.
Proof. intros E. unfold dim. rewrite E. reflexivity. Qed.

(* ================================================================== *)
(* Part 1: generic T                                                    *)
(* ================================================================== *)
Section ListLevel.
Context {T : Type} `{Num T}.

Lemma ssr_list_bounds (l : list T) q : 0 <= ssr_list l q <= Z.of_nat (length l).
Proof.
  induction l as [|e t IH]; [simpl; lia|]. cbn [ssr_list length]. rewrite Nat2Z.inj_succ.
  destruct (nltb q e); lia.
Qed.

(* every element before the returned position is <= q (in the sense: not q < e) *)
Lemma ssr_list_below (l : list T) q d : forall k : nat,
  Z.of_nat k < ssr_list l q -> nltb q (nth k l d) = false.
Proof.
  induction l as [|e t IH]; cbn [ssr_list]; intros k Hk; [lia|].
  destruct (nltb q e) eqn:E; [lia|]. destruct k as [|k]; [exact E|]. cbn [nth]. apply IH. lia.
Qed.

(* the element at the returned position, if any, is > q *)
Lemma ssr_list_at (l : list T) q d :
  ssr_list l q < Z.of_nat (length l) -> nltb q (nth (Z.to_nat (ssr_list l q)) l d) = true.
Proof.
  induction l as [|e t IH]; [simpl; lia|]. cbn [ssr_list length]. rewrite Nat2Z.inj_succ. intros Hk.
  destruct (nltb q e) eqn:E; [exact E|].
  pose proof (ssr_list_bounds t q) as B.
  replace (Z.to_nat (1 + ssr_list t q)) with (S (Z.to_nat (ssr_list t q))) by lia.
  apply IH. lia.
Qed.

(* these two properties determine the result *)
Lemma ssr_list_char (l : list T) q d : forall m : nat,
  (m <= length l)%nat ->
  (forall k, (k < m)%nat -> nltb q (nth k l d) = false) ->
  ((m < length l)%nat -> nltb q (nth m l d) = true) ->
  ssr_list l q = Z.of_nat m.
Proof.
  induction l as [|e t IH]; cbn [ssr_list length]; intros m Hm Hlo Hhi.
  - assert (m = 0)%nat by lia. subst. reflexivity.
  - destruct m as [|m].
    + pose proof (Hhi ltac:(lia)) as E. cbn [nth] in E. rewrite E. reflexivity.
    + pose proof (Hlo 0%nat ltac:(lia)) as E. cbn [nth] in E. rewrite E. rewrite (IH m); [lia|lia| |].
      * intros k Hk. apply (Hlo (S k)). lia.
      * intros Hk. apply Hhi. lia.
Qed.
End ListLevel.

Section ArrLevel.
Context {T : Type} `{Num T}.
Variable d : T.

(* a 1-D array of n entries *)
Definition axis1 (x : arr T) (n : Z) : Prop := shape x = [n] /\ length (dat x) = Z.to_nat n.
(* strictly ascending for the numeric type's own comparison *)
Definition ascending (x : arr T) (n : Z) : Prop :=
  forall i j, 0 <= i < j /\ j < n -> nltb (get d x [i]) (get d x [j]) = true.

Lemma ssr_range x n q : axis1 x n -> 0 <= n -> 0 <= searchsorted_right x q <= n.
Proof. intros [_ L] Hn. unfold searchsorted_right. pose proof (ssr_list_bounds (dat x) q). lia. Qed.

Lemma ssr_below x n q k : axis1 x n -> 0 <= k < searchsorted_right x q -> nltb q (get d x [k]) = false.
Proof.
  intros [S L] Hk. rewrite (get1 d x n k S). apply ssr_list_below. unfold searchsorted_right in Hk. lia.
Qed.

Lemma ssr_at x n q : axis1 x n -> searchsorted_right x q < n ->
  nltb q (get d x [searchsorted_right x q]) = true.
Proof.
  intros [S L] Hk. rewrite (get1 d x n _ S). unfold searchsorted_right in *. apply ssr_list_at. lia.
Qed.

Lemma ssr_unique x n q m : axis1 x n -> 0 <= m <= n ->
  (forall k, 0 <= k < m -> nltb q (get d x [k]) = false) ->
  (m < n -> nltb q (get d x [m]) = true) ->
  searchsorted_right x q = m.
Proof.
  intros [S L] Hm Hlo Hhi. unfold searchsorted_right.
  rewrite (ssr_list_char (dat x) q d (Z.to_nat m)); [lia|lia| |].
  - intros k Hk. specialize (Hlo (Z.of_nat k) ltac:(lia)). rewrite (get1 d x n _ S) in Hlo.
    rewrite Nat2Z.id in Hlo. exact Hlo.
  - intros Hk. rewrite <- (get1 d x n _ S). apply Hhi. lia.
Qed.

(* x[0] <= q  gives a non-negative cell index *)
Lemma ssr_pos x n q : axis1 x n -> 1 <= n -> nltb q (get d x [0]) = false -> 1 <= searchsorted_right x q.
Proof.
  intros A Hn H0. pose proof (ssr_range x n q A ltac:(lia)) as R.
  destruct (Z.eq_dec (searchsorted_right x q) 0) as [E|E]; [|lia].
  pose proof (ssr_at x n q A ltac:(lia)) as Hat. rewrite E in Hat. congruence.
Qed.

(* ---------- with the order laws, on an ascending axis ---------- *)
Context `{L : !NumLaws T}.

Lemma nltb_asym (a b : T) : nltb a b = true -> nltb b a = false.
Proof.
  intros Hab. destruct (nltb b a) eqn:E; auto.
  pose proof (nltb_trans a b a Hab E) as C. rewrite nltb_irrefl in C. discriminate.
Qed.

(* everything from the returned position on is > q *)
Lemma ssr_above x n q k : axis1 x n -> ascending x n ->
  searchsorted_right x q <= k < n -> nltb q (get d x [k]) = true.
Proof.
  intros A Asc Hk. pose proof (ssr_list_bounds (dat x) q) as R0. fold (searchsorted_right x q) in R0.
  pose proof (ssr_range x n q A ltac:(lia)) as R.
  pose proof (ssr_at x n q A ltac:(lia)) as Hat.
  destruct (Z.eq_dec (searchsorted_right x q) k) as [E|E]; [rewrite <- E; exact Hat|].
  apply (nltb_trans _ _ _ Hat). apply Asc. lia.
Qed.

(* the result is n exactly when q is not below the last entry *)
Lemma ssr_last_iff x n q : axis1 x n -> ascending x n -> 1 <= n ->
  (searchsorted_right x q = n <-> nltb q (get d x [n - 1]) = false).
Proof.
  intros A Asc Hn. split.
  - intros E. apply (ssr_below x n q (n - 1) A). lia.
  - intros Hl. pose proof (ssr_range x n q A ltac:(lia)) as R.
    destruct (Z.eq_dec (searchsorted_right x q) n) as [E|E]; auto.
    pose proof (ssr_above x n q (n - 1) A Asc ltac:(lia)). congruence.
Qed.

(* at a node value *)
Lemma ssr_node x n k : axis1 x n -> ascending x n -> 0 <= k < n ->
  searchsorted_right x (get d x [k]) = k + 1.
Proof.
  intros A Asc Hk. apply (ssr_unique x n _ (k + 1) A); [lia| |].
  - intros j Hj. destruct (Z.eq_dec j k) as [->|Ne]; [apply nltb_irrefl|].
    apply nltb_asym. apply Asc. lia.
  - intros Hk1. apply Asc. lia.
Qed.
End ArrLevel.

(* ================================================================== *)
(* Part 2: T := R                                                       *)
(* ================================================================== *)
Open Scope R_scope.

(* an interpolation axis: n >= 2 strictly ascending reals *)
Definition axis (x : arr R) (n : Z) : Prop :=
  shape x = [n] /\ length (dat x) = Z.to_nat n /\ (2 <= n)%Z /\
  forall i j, (0 <= i < j /\ j < n)%Z -> get 0 x [i] < get 0 x [j].

Lemma axis_axis1 x n : axis x n -> axis1 x n.
Proof. intros (S & L & _). split; auto. Qed.
Lemma axis_ascending x n : axis x n -> ascending 0 x n.
Proof. intros (S & L & N & A) i j Hij. simpl. apply Rltb_true. apply A. exact Hij. Qed.
Lemma axis_n x n : axis x n -> (2 <= n)%Z.
Proof. intros (S & L & N & A). exact N. Qed.
Lemma axis_lt x n i j : axis x n -> (0 <= i < j /\ j < n)%Z -> get 0 x [i] < get 0 x [j].
Proof. intros (S & L & N & A). apply A. Qed.
Lemma axis_le x n i j : axis x n -> (0 <= i <= j /\ j < n)%Z -> get 0 x [i] <= get 0 x [j].
Proof.
  intros A Hij. destruct (Z.eq_dec i j) as [->|Ne]; [lra|]. apply Rlt_le. apply (axis_lt x n); auto. lia.
Qed.
Lemma axis_dim x n : axis x n -> dim x 0%nat = n.
Proof. intros (S & _). apply dim1; auto. Qed.

Section SSR_R.
Variables (x : arr R) (n : Z) (q : R).
Hypothesis A : axis x n.
Hypothesis Hlo : get 0 x [0%Z] <= q.
Hypothesis Hhi : q <= get 0 x [(n - 1)%Z].
Local Notation i1 := (searchsorted_right x q - 1)%Z.

Lemma ssrR_range : (0 <= i1 <= n - 1)%Z.
Proof.
  pose proof (axis_n _ _ A) as N. pose proof (axis_axis1 _ _ A) as A1.
  pose proof (ssr_range x n q A1 ltac:(lia)).
  pose proof (ssr_pos 0 x n q A1 ltac:(lia)) as P. simpl in P.
  specialize (P (proj2 (Rltb_false _ _) Hlo)). lia.
Qed.

Lemma ssrR_le : get 0 x [i1] <= q.
Proof.
  pose proof ssrR_range as Rg. pose proof (axis_axis1 _ _ A) as A1.
  assert (Hk : (0 <= i1 < searchsorted_right x q)%Z) by (lia).
  pose proof (ssr_below 0 x n q i1 A1 Hk) as B. simpl in B.
  apply Rltb_false in B. exact B.
Qed.

Lemma ssrR_lt : (i1 < n - 1)%Z -> q < get 0 x [(i1 + 1)%Z].
Proof.
  intros Hi. pose proof (axis_axis1 _ _ A) as A1.
  assert (Hk : (searchsorted_right x q < n)%Z) by (lia).
  pose proof (ssr_at 0 x n q A1 Hk) as B. simpl in B.
  apply Rltb_true in B. replace (i1 + 1)%Z with (searchsorted_right x q) by lia. exact B.
Qed.

Lemma ssrR_last : (i1 = n - 1)%Z <-> q = get 0 x [(n - 1)%Z].
Proof.
  pose proof (axis_axis1 _ _ A) as A1. pose proof (axis_n _ _ A) as N.
  pose proof (ssr_last_iff 0 x n q A1 (axis_ascending _ _ A) ltac:(lia)) as I. simpl in I.
  rewrite Rltb_false in I. split.
  - intros E. assert (E' : searchsorted_right x q = n) by lia. apply I in E'. lra.
  - intros E. assert (E' : get 0 x [(n - 1)%Z] <= q) by lra. apply I in E'. lia.
Qed.

Lemma ssrR_last_ge : (i1 = n - 1)%Z <-> get 0 x [(n - 1)%Z] <= q.
Proof. rewrite ssrR_last. split; intros; lra. Qed.

(* the two situations the kernels distinguish, packaged:
   interior: x[i1] <= q < x[i1+1] and the clamped cell index is i1;
   far face: q = x[n-1], the clamped cell index is n-2. *)
Lemma ssrR_cases :
  ((0 <= i1 < n - 1)%Z /\ Z.min i1 (n - 2) = i1 /\ get 0 x [i1] <= q < get 0 x [(i1 + 1)%Z]) \/
  (i1 = (n - 1)%Z /\ Z.min i1 (n - 2) = (n - 2)%Z /\ q = get 0 x [(n - 1)%Z] /\
   get 0 x [(n - 2)%Z] < get 0 x [(n - 1)%Z]).
Proof.
  pose proof ssrR_range as Rg. pose proof (axis_n _ _ A) as N.
  destruct (Z.eq_dec i1 (n - 1)) as [E|E].
  - right. repeat split; [exact E|lia|apply ssrR_last; exact E|apply (axis_lt x n); auto; lia].
  - left. repeat split; try lia; [apply ssrR_le|apply ssrR_lt; lia].
Qed.
End SSR_R.

(* searchsorted_right at a node *)
Lemma ssrR_node x n k : axis x n -> (0 <= k < n)%Z ->
  searchsorted_right x (get 0 x [k]) = (k + 1)%Z.
Proof. intros A Hk. apply (ssr_node 0 x n k (axis_axis1 _ _ A) (axis_ascending _ _ A) Hk). Qed.

(* any half-open cell containing q is the one searchsorted_right finds *)
Lemma ssrR_cell x n q i : axis x n -> (0 <= i < n - 1)%Z ->
  get 0 x [i] <= q < get 0 x [(i + 1)%Z] -> (searchsorted_right x q - 1)%Z = i.
Proof.
  intros A Hi [Hl Hu]. pose proof (axis_axis1 _ _ A) as A1.
  rewrite (ssr_unique 0 x n q (i + 1) A1); [lia|lia| |].
  - intros k Hk. simpl. apply Rltb_false. pose proof (axis_le x n k i A ltac:(lia)). lra.
  - intros _. simpl. apply Rltb_true. exact Hu.
Qed.

(* q at or beyond the last node: the result is n *)
Lemma ssrR_beyond x n q : axis x n -> get 0 x [(n - 1)%Z] <= q -> searchsorted_right x q = n.
Proof.
  intros A Hq. pose proof (axis_axis1 _ _ A) as A1. pose proof (axis_n _ _ A) as N.
  apply (ssr_last_iff 0 x n q A1 (axis_ascending _ _ A) ltac:(lia)). simpl. apply Rltb_false. exact Hq.
Qed.

(* ---------- the enclosing cell used by the interpolation kernels ---------- *)
(* index of the cell of the axis that contains q; on the far end the last cell *)
Definition cell (x : arr R) (n : Z) (q : R) : Z := Z.min (searchsorted_right x q - 1) (n - 2).

Lemma cell_facts x n q : axis x n -> get 0 x [0%Z] <= q -> q <= get 0 x [(n - 1)%Z] ->
  (0 <= cell x n q <= n - 2)%Z /\
  get 0 x [cell x n q] <= q <= get 0 x [(cell x n q + 1)%Z] /\
  get 0 x [cell x n q] < get 0 x [(cell x n q + 1)%Z].
Proof.
  intros A Hlo Hhi. pose proof (axis_n _ _ A) as N. unfold cell.
  destruct (ssrR_cases x n q A Hlo Hhi) as [(Hi & Hm & Hl & Hu) | (Hi & Hm & Hq & Hd)]; rewrite Hm.
  - assert (get 0 x [(searchsorted_right x q - 1)%Z] < get 0 x [(searchsorted_right x q - 1 + 1)%Z])
      by (apply (axis_lt x n); auto; lia).
    repeat split; try lia; lra.
  - replace (n - 2 + 1)%Z with (n - 1)%Z by lia. repeat split; try lia; lra.
Qed.

Lemma cell_node x n k : axis x n -> (0 <= k < n)%Z -> cell x n (get 0 x [k]) = Z.min k (n - 2).
Proof. intros A Hk. unfold cell. rewrite (ssrR_node x n k A Hk). f_equal. lia. Qed.

(* any closed cell [x_i, x_{i+1}] containing q is the chosen one, or its left neighbour when q is the shared node *)
Lemma cell_any x n q i : axis x n -> (0 <= i <= n - 2)%Z ->
  get 0 x [i] <= q <= get 0 x [(i + 1)%Z] ->
  cell x n q = i \/ (q = get 0 x [(i + 1)%Z] /\ cell x n q = (i + 1)%Z /\ (i + 1 <= n - 2)%Z).
Proof.
  intros A Hi [Hl Hu]. destruct (Rle_lt_or_eq_dec _ _ Hu) as [Hlt|He].
  - left. unfold cell. rewrite (ssrR_cell x n q i A ltac:(lia) (conj Hl Hlt)). lia.
  - subst q. rewrite (cell_node x n (i + 1) A ltac:(lia)).
    destruct (Z_le_gt_dec (i + 1) (n - 2)); [right; repeat split; lia | left; lia].
Qed.

Print Assumptions ssr_unique.
Print Assumptions ssr_node.
Print Assumptions ssr_last_iff.
Print Assumptions ssrR_cases.
Print Assumptions ssrR_node.
Print Assumptions ssrR_cell.
Print Assumptions cell_facts.
Print Assumptions cell_any.
