(* Instantiations of the generic theorems at binary64 (NumF with the order laws of NumFLaws): the statements hold bit
   for bit for the floats the kernels run on, NaN and infinities included. *)
From Coq Require Import ZArith List Bool PrimFloat.
From FT.lib Require Import Num Arr ArrLemmas Lower.
From FT.gen Require Import Fteik2d Fteik3d.
From FT.proofs Require Import NumFLaws Sweep2dProofs Sweep3dProofs.
Import ListNotations.
Open Scope Z_scope.

Lemma sweep2d_lowers_binary64 :
  forall (nz nx : Z) (tt : arr float) (ttsgn : arr Z) (slow : arr float) (dz dx zsi xsi zsa xsa vzero : float) (grad : bool),
  Sweep2dProofs.okT nz nx tt ->
  Sweep2dProofs.leT nz nx (fst (sweep2d tt ttsgn slow dz dx zsi xsi zsa xsa vzero nz nx grad)) tt.
Proof. intros. apply (@Sweep2dProofs.sweep2d_lowers float NumF NumLawsF); assumption. Qed.

Lemma sweep3d_lowers_binary64 :
  forall (nz nx ny : Z) (tt : arr float) (ttsgn : arr Z) (slow : arr float) (dz dx dy : float) (grad : bool),
  Sweep3dProofs.okT nz nx ny tt ->
  Sweep3dProofs.leT nz nx ny (fst (sweep3d tt ttsgn slow dz dx dy nz nx ny grad)) tt.
Proof. intros. apply (@Sweep3dProofs.sweep3d_lowers float NumF NumLawsF); assumption. Qed.

Lemma okT_inhabited : Sweep2dProofs.okT 2 2 (full [2; 2] 1%float).
Proof. split; [apply wf_full; repeat constructor; discriminate | reflexivity]. Qed.
