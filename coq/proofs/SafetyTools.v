(* Tools shared by Safety2d.v, Safety3d.v and SafetyInterp.v: in-range lemmas for 1- to 4-D subscripts, a tactic that
   walks through a generated obligation term (`f_ok`), direction patterns of the sweeping loops, and the range of
   `searchsorted_right` (no order law needed). *)
From Coq Require Import ZArith List Bool Lia.
From FT.lib Require Import Num Arr ArrLemmas NumArr.
Import ListNotations.
Open Scope Z_scope.

(* ------------------------------------------------------------------------------------------ *)
(* subscripts                                                                                   *)
(* ------------------------------------------------------------------------------------------ *)
Lemma inb1_true {A} (a : arr A) n0 i :
  shape a = [n0] -> 0 <= i < n0 -> inb a [i] = true.
Proof. intros E Hi. unfold inb. rewrite E. cbn [inb_sh].
  repeat (apply andb_true_intro; split); first [ reflexivity | apply Z.leb_le; lia | apply Z.ltb_lt; lia ]. Qed.
Lemma inb2_true {A} (a : arr A) n0 n1 i j :
  shape a = [n0; n1] -> 0 <= i < n0 -> 0 <= j < n1 -> inb a [i; j] = true.
Proof. intros E Hi Hj. unfold inb. rewrite E. cbn [inb_sh].
  repeat (apply andb_true_intro; split); first [ reflexivity | apply Z.leb_le; lia | apply Z.ltb_lt; lia ]. Qed.
Lemma inb3_true {A} (a : arr A) n0 n1 n2 i j k :
  shape a = [n0; n1; n2] -> 0 <= i < n0 -> 0 <= j < n1 -> 0 <= k < n2 -> inb a [i; j; k] = true.
Proof. intros E Hi Hj Hk. unfold inb. rewrite E. cbn [inb_sh].
  repeat (apply andb_true_intro; split); first [ reflexivity | apply Z.leb_le; lia | apply Z.ltb_lt; lia ]. Qed.
Lemma inb4_true {A} (a : arr A) n0 n1 n2 n3 i j k l :
  shape a = [n0; n1; n2; n3] -> 0 <= i < n0 -> 0 <= j < n1 -> 0 <= k < n2 -> 0 <= l < n3 ->
  inb a [i; j; k; l] = true.
Proof. intros E Hi Hj Hk Hl. unfold inb. rewrite E. cbn [inb_sh].
  repeat (apply andb_true_intro; split); first [ reflexivity | apply Z.leb_le; lia | apply Z.ltb_lt; lia ]. Qed.

Lemma inb_sub2_true {A} (a : arr A) n0 n1 l i j :
  shape a = n0 :: n1 :: l -> 0 <= i < n0 -> 0 <= j < n1 -> inb_sub a [i; j] = true.
Proof. intros E Hi Hj. unfold inb_sub. rewrite E. cbn [inb_prefix].
  repeat (apply andb_true_intro; split);
    first [ reflexivity | apply Z.leb_le; lia | apply Z.ltb_lt; lia | destruct l; reflexivity ]. Qed.

(* one index obligation: the array may be wrapped in `set`s *)
Ltac inb_solve :=
  unfold obI;
  first [ eapply inb2_true; [ eassumption | lia | lia ]
        | eapply inb3_true; [ eassumption | lia | lia | lia ]
        | eapply inb4_true; [ eassumption | lia | lia | lia | lia ]
        | eapply inb1_true; [ eassumption | lia ]
        | eapply inb_sub2_true; [ eassumption | lia | lia ]
        | rewrite !inb_set;
          first [ eapply inb2_true; [ eassumption | lia | lia ]
                | eapply inb3_true; [ eassumption | lia | lia | lia ]
                | eapply inb4_true; [ eassumption | lia | lia | lia | lia ]
                | eapply inb1_true; [ eassumption | lia ] ] ].

(* boolean hypotheses produced by `destruct c eqn:E` into propositions `lia` understands; no case split *)
Ltac bool_hyps_ns :=
  repeat match goal with
  | H : negb _ = true |- _ => apply negb_true_iff in H
  | H : negb _ = false |- _ => apply negb_false_iff in H
  | H : andb _ _ = true |- _ => apply andb_true_iff in H; destruct H
  | H : orb _ _ = false |- _ => apply orb_false_iff in H; destruct H
  | H : (_ =? _) = true |- _ => apply Z.eqb_eq in H
  | H : (_ =? _) = false |- _ => apply Z.eqb_neq in H
  end.
Ltac use_imps :=
  repeat match goal with
  | H : ?P -> _, H' : ?P |- _ =>
      lazymatch type of P with Prop => specialize (H H') | _ => fail end
  end.

(* let-bound values are turned into variables: a continuation `k := fun u => ...` becomes a variable with
   `forall u, Q u -> k u = true` (proved once), any other value a variable x with `x = v` (arrays: only the shape
   is kept, loop results: only the loop invariant is kept) *)
Lemma let_eq_true {A} (v : A) (F : A -> bool) : (forall x, x = v -> F x = true) -> (let x := v in F x) = true.
Proof. intros Hf. exact (Hf v eq_refl). Qed.
Lemma let_fun_true {A} (f : A -> bool) (R : (A -> bool) -> bool) :
  (forall u, f u = true) -> (forall k, (forall u, k u = true) -> R k = true) -> (let k := f in R k) = true.
Proof. intros Hf HR. exact (HR f Hf). Qed.
Lemma let_fun_true_pre {A} (Q : A -> Prop) (f : A -> bool) (R : (A -> bool) -> bool) :
  (forall u, Q u -> f u = true) -> (forall k, (forall u, Q u -> k u = true) -> R k = true) ->
  (let k := f in R k) = true.
Proof. intros Hf HR. exact (HR f Hf). Qed.
Lemma shape_set_sub {A} (a : arr A) idx s : shape (set_sub a idx s) = shape a.
Proof. reflexivity. Qed.

Ltac let_post x Hx :=
  lazymatch type of x with
  | arr _ =>
      let S := fresh "S" in
      pose proof (f_equal shape Hx) as S; rewrite ?shape_set, ?shape_set_sub in S;
      try match type of S with
          | _ = shape ?a => match goal with Ha : shape a = _ |- _ => rewrite Ha in S end
          end;
      clear Hx
  | Z => idtac
  | _ => clear Hx
  end.

(* walks through an obligation term: conjunctions, lets (see above), conditionals (integer comparisons are
   decided once and for all, any other condition is destructed as a whole and remembered), loops (`inv` is the
   loop invariant, a predicate on the loop state, and `inv_solve` proves it of a state expression), calls of
   let-bound continuations, leaves closed by `leaf` *)
Ltac ok_walk_gen inv inv_solve leaf :=
  lazymatch goal with
  | |- true = true => reflexivity
  | |- andb _ _ = true => apply andb_true_intro; split; ok_walk_gen inv inv_solve leaf
  | |- (let x := ?v in @?F x) = true =>
      let tv := type of v in
      lazymatch tv with
      | _ -> bool =>
          first
            [ refine (let_fun_true_pre inv v F _ _);
              [ let u := fresh "u" in let Hu := fresh "Hu" in
                intros u Hu; cbv beta in Hu; cbv beta; ok_walk_gen inv inv_solve leaf
              | let k := fresh "k" in let Hk := fresh "Hk" in
                intros k Hk; cbv beta; ok_walk_gen inv inv_solve leaf ]
            | refine (let_fun_true v F _ _);
              [ intro; cbv beta; ok_walk_gen inv inv_solve leaf
              | let k := fresh "k" in let Hk := fresh "Hk" in
                intros k Hk; cbv beta; ok_walk_gen inv inv_solve leaf ] ]
      | _ =>
          let x := fresh "x" in let Hx := fresh "Hx" in
          refine (let_eq_true v F _); intros x Hx; cbv beta;
          lazymatch v with
          | fst _ => subst x
          | snd _ => subst x
          | for_list _ _ _ =>
              let Sx := fresh "Sx" in
              assert (Sx : inv x) by (rewrite Hx; cbv beta zeta; inv_solve); cbv beta in Sx; clear Hx
          | _ => let_post x Hx
          end;
          ok_walk_gen inv inv_solve leaf
      end
  | |- (if ?c then ?a else ?b) = true =>
      let c' := eval cbn [andb negb orb] in c in
      lazymatch c' with
      | true => change (a = true); ok_walk_gen inv inv_solve leaf
      | false => change (b = true); ok_walk_gen inv inv_solve leaf
      | context [Z.eqb ?p ?q] =>
          let E := fresh "E" in
          destruct (Z.eqb p q) eqn:E; [ apply Z.eqb_eq in E | apply Z.eqb_neq in E ];
          ok_walk_gen inv inv_solve leaf
      | _ => let E := fresh "E" in destruct c eqn:E; bool_hyps_ns; use_imps; ok_walk_gen inv inv_solve leaf
      end
  | |- for_list_ok _ _ _ _ = true =>
      let s := fresh "s" in let Hs := fresh "Hs" in
      apply for_list_ok_inv with (P := inv);
      [ cbv beta zeta; inv_solve
      | intros ? s ? Hs; cbv beta in Hs; split;
        [ cbv beta zeta; inv_solve | cbv beta; ok_walk_gen inv inv_solve leaf ] ]
  | |- obD false _ = true => reflexivity
  | Hk : forall u, ?k u = true |- ?k _ = true => apply Hk
  | Hk : forall u, _ -> ?k u = true |- ?k _ = true => apply Hk; cbv beta; inv_solve
  | |- _ => leaf
  end.
Ltac ok_walk leaf := ok_walk_gen (fun _ : unit => True) idtac leaf.

(* direction pattern along one axis, as used by the sweeping loops:
   (sgnv, sgnt) = (1, 1) with 1 <= idx <= n-1   or   (0, -1) with 0 <= idx <= n-2 *)
Definition dirp (sgnv sgnt idx n : Z) : Prop :=
  (sgnv = 1 /\ sgnt = 1 /\ 1 <= idx <= n - 1) \/ (sgnv = 0 /\ sgnt = -1 /\ 0 <= idx <= n - 2).

Ltac range_hyps :=
  repeat match goal with
         | H : In _ (pyrange _ _ 1) |- _ => apply in_pyrange_up in H
         | H : In _ (pyrange _ _ (-1)) |- _ => apply in_pyrange_down in H
         end.


(* boolean hypotheses produced by `destruct c eqn:E` into propositions `lia` understands *)
Ltac bool_hyps :=
  repeat match goal with
  | H : negb _ = true |- _ => apply negb_true_iff in H
  | H : negb _ = false |- _ => apply negb_false_iff in H
  | H : andb _ _ = true |- _ => apply andb_true_iff in H; destruct H
  | H : andb _ _ = false |- _ => apply andb_false_iff in H; destruct H
  | H : orb _ _ = true |- _ => apply orb_true_iff in H; destruct H
  | H : orb _ _ = false |- _ => apply orb_false_iff in H; destruct H
  | H : (_ =? _) = true |- _ => apply Z.eqb_eq in H
  | H : (_ =? _) = false |- _ => apply Z.eqb_neq in H
  end.

Lemma dim_0 {A} (a : arr A) n l : shape a = n :: l -> dim a 0%nat = n.
Proof. intros E. unfold dim. rewrite E. reflexivity. Qed.
Lemma dim_1 {A} (a : arr A) n0 n l : shape a = n0 :: n :: l -> dim a 1%nat = n.
Proof. intros E. unfold dim. rewrite E. reflexivity. Qed.
Lemma dim_2 {A} (a : arr A) n0 n1 n l : shape a = n0 :: n1 :: n :: l -> dim a 2%nat = n.
Proof. intros E. unfold dim. rewrite E. reflexivity. Qed.

(* ---------- np.searchsorted(x, q, side="right"): range, for any numeric type ---------- *)
Section SSRange.
Context {T : Type} `{Num T}.
Lemma ssr_list_range (l : list T) q : 0 <= ssr_list l q <= Z.of_nat (length l).
Proof. induction l as [|e t IH]; [simpl; lia|]. cbn [ssr_list length]. rewrite Nat2Z.inj_succ.
  destruct (nltb q e); lia. Qed.
Lemma ssr_list_pos (l : list T) q d : l <> [] -> nltb q (nth 0 l d) = false -> 1 <= ssr_list l q.
Proof. destruct l as [|e t]; [congruence|]. intros _ E. cbn [nth] in E. cbn [ssr_list]. rewrite E.
  pose proof (ssr_list_range t q). lia. Qed.

(* the only relation between `<=` and `<` the interpolation kernels rely on for their subscripts *)
Definition le_lt_law : Prop := forall a b : T, nleb a b = true -> nltb b a = false.

Lemma ssr_upper (x : arr T) n q : length (dat x) = Z.to_nat n -> 0 <= n -> 0 <= searchsorted_right x q <= n.
Proof. intros L Hn. unfold searchsorted_right. pose proof (ssr_list_range (dat x) q). lia. Qed.
Lemma ssr_lower (x : arr T) n q d :
  le_lt_law -> shape x = [n] -> length (dat x) = Z.to_nat n -> 1 <= n ->
  nleb (get d x [0]) q = true -> 1 <= searchsorted_right x q.
Proof.
  intros Law S L Hn Hle. unfold searchsorted_right. apply (ssr_list_pos (dat x) q d).
  - intros E. rewrite E in L. simpl in L. lia.
  - apply Law. unfold get, flat in Hle. rewrite S in Hle. exact Hle.
Qed.
End SSRange.
