(* Traveltimes of the 3D solver are non-negative (clause of C03), over the reals (T := R, instance NumR), for ALL
   inputs - and the record of why this was FALSE before the causality guard on the 8-point operator.

   The value written by one node update is min(t0, t1d, t2d, t3d).  For all spacings > 0 and every state with entries
   >= 0: t0 >= 0, t1d >= 0 (1D: t + d * s), t2d >= 0 (each plane operator is the 2D 4-point operator under its
   admissibility test, which returns at least the face-diagonal neighbour's time: NonNeg2d.four_point_ge_tev, stated
   for arbitrary spacings of the two axes of the plane).  The 8-point operator
         op3 = (t1 + sqrt (t2 - t3)) / dsum,   t1 = tb * dz2i + ta * dx2i + tc * dy2i
   has, with p = 1/dz^2, q = 1/dx^2, r = 1/dy^2,
         t1 = (p - (q+r)/2) tv + (q - (p+r)/2) te + (r - (p+q)/2) tn
            + ((p+q)/2 - r) tev + ((q+r)/2 - p) ten + ((p+r)/2 - q) tnv + (p+q+r) tnve        (op3_t1_weights)
   and the two tests of the code ( min(t1d,t2d) > max(tv,te,tn)  and  t2 >= t3 ) do not bound tev, ten, tnv:

     op3_ge_tnve_cubic            p = q = r:  t1 = 3 p tnve, hence op3 >= tnve (>= 0), with or without the tests
     op3_negative_example         dz = dy = 1, dx = 1/2, tnv = 1, the other six neighbours 0, slowness 3/5:
                                  the test t3 <= t2 holds and op3 = - 3/10
     op3_negative_iff_noncubic    for p, q, r > 0: there are neighbour values >= 0 and a slowness >= 0 passing the test
                                  t3 <= t2 with op3 < 0   IFF   not (p = q = r)

   The source now discards the 8-point time when it is earlier than the cube-diagonal neighbour (`if t3d < tnve:
   t3d = Big`).  This file defines the node value in both forms (`node_value true` = with the guard = the generated
   code: sweep_tt_eq_guarded; `node_value false` = without = the code before the fix) and proves

   about the code WITHOUT the guard (record of the defect; Gallina copies `node_value false`, `fteik3dU`):
     node_unguarded_refuted       a 2 x 2 x 2 node grid with entries >= 0, slowness 3/5 > 0, dz = dy = 1, dx = 1/2:
                                  the value written at node (1,1,1) is - 3/10
     Binary64.node_unguarded_negative_binary64, Binary64.fteik3dU_negative_binary64
                                  the same in binary64, and a complete run (2 x 2 x 1 cells, slowness 8 in the source
                                  cell and 1 elsewhere, spacings 1/2, 4, 4, source at the origin, 1, 2, 5 sweeps):
                                  tt[0,0,1] = -3.107380552746847 (the value the unfixed Python code returned)
     t3d_guard_noop_cubic         dz = dx = dy: the guard never fires (node_value true = node_value false), i.e. the fix
                                  changes nothing on cubic grids

   about the generated code (WITH the guard), for ALL inputs - no hypothesis on shapes or index ranges:
     1. sweep_nonneg_3d           one node update (Fteik3d.sweep with the tuple sweep3d builds) keeps every entry >= 0
     2. sweep3d_nonneg (+ _get)   one pass keeps every entry >= 0
     3. init_nonneg_3d            the state before the first pass is >= 0 and vzero >= 0 (no hypothesis on the spacings)
     4. fteik3d_nonneg (+ _get)   every traveltime returned by fteik3d is >= 0, and so is vzero
   Hypotheses: dz, dx, dy > 0 and every slowness >= 0. *)
From Coq Require Import ZArith List Bool Lia Reals Lra Psatz.
From Coq Require Floats.PrimFloat.
From FT.lib Require Import Num Arr ArrLemmas.
From FT.gen Require Import Fteik3d.
From FT.proofs Require OperatorsR Sweep2dProofs Solve2dProofs.
From FT.proofs Require Import NonNeg2d Sweep3dProofs Solve3dProofs SweepDargs.
Import ListNotations.
Open Scope R_scope.

Notation four_point := OperatorsR.four_point.
Notation dir_range := Sweep2dProofs.dir_range.
Notation sgnv := Sweep2dProofs.sgnv.
Notation sgnt := Sweep2dProofs.sgnt.

Ltac numR := cbn [nadd nsub nmul ndiv nsqrt nabs nneg nltb nleb neqb nofZ nofQ NumR] in *.
Ltac unnum := unfold nsq, ngtb, ngeb, nneb in *; numR.

(* ------------------------------------------------------------------------------------------ *)
(* 0. the candidates of one node update, transcribed from `sweep` (every numeric instance)      *)
(* ------------------------------------------------------------------------------------------ *)
Section Ops.
Context {T : Type} `{Num T}.
Notation g := (get (nofZ 0)).
Implicit Types (tt slow : arr T) (i j k sgnvz sgnvx sgnvy sgntz sgntx sgnty nz nx ny : Z).

(* orientation: tv, te, tn the three face neighbours, tev, ten, tnv the three face diagonals, tnve the cube diagonal *)
Definition nb_v tt i j k sgntz : T := g tt [(i - sgntz)%Z; j; k].
Definition nb_e tt i j k sgntx : T := g tt [i; (j - sgntx)%Z; k].
Definition nb_n tt i j k sgnty : T := g tt [i; j; (k - sgnty)%Z].
Definition nb_ev tt i j k sgntz sgntx : T := g tt [(i - sgntz)%Z; (j - sgntx)%Z; k].
Definition nb_en tt i j k sgntx sgnty : T := g tt [i; (j - sgntx)%Z; (k - sgnty)%Z].
Definition nb_nv tt i j k sgntz sgnty : T := g tt [(i - sgntz)%Z; j; (k - sgnty)%Z].
Definition nb_nve tt i j k sgntz sgntx sgnty : T := g tt [(i - sgntz)%Z; (j - sgntx)%Z; (k - sgnty)%Z].

(* slowness used along an edge (min over the four cells adjoining it), in a face (two cells), in the cell *)
Definition edge_s_z slow i j k sgnvz nx ny : T :=
  pymin4 (g slow [(i - sgnvz)%Z; Z.max (j - 1) 0; Z.max (k - 1) 0]) (g slow [(i - sgnvz)%Z; Z.max (j - 1) 0; Z.min k (ny - 2)])
         (g slow [(i - sgnvz)%Z; Z.min j (nx - 2); Z.max (k - 1) 0]) (g slow [(i - sgnvz)%Z; Z.min j (nx - 2); Z.min k (ny - 2)]).
Definition edge_s_x slow i j k sgnvx nz ny : T :=
  pymin4 (g slow [Z.max (i - 1) 0; (j - sgnvx)%Z; Z.max (k - 1) 0]) (g slow [Z.min i (nz - 2); (j - sgnvx)%Z; Z.max (k - 1) 0])
         (g slow [Z.max (i - 1) 0; (j - sgnvx)%Z; Z.min k (ny - 2)]) (g slow [Z.min i (nz - 2); (j - sgnvx)%Z; Z.min k (ny - 2)]).
Definition edge_s_y slow i j k sgnvy nz nx : T :=
  pymin4 (g slow [Z.max (i - 1) 0; Z.max (j - 1) 0; (k - sgnvy)%Z]) (g slow [Z.max (i - 1) 0; Z.min j (nx - 2); (k - sgnvy)%Z])
         (g slow [Z.min i (nz - 2); Z.max (j - 1) 0; (k - sgnvy)%Z]) (g slow [Z.min i (nz - 2); Z.min j (nx - 2); (k - sgnvy)%Z]).
Definition face_s_zx slow i j k sgnvz sgnvx ny : T :=
  pymin2 (g slow [(i - sgnvz)%Z; (j - sgnvx)%Z; Z.max (k - 1) 0]) (g slow [(i - sgnvz)%Z; (j - sgnvx)%Z; Z.min k (ny - 2)]).
Definition face_s_zy slow i j k sgnvz sgnvy nx : T :=
  pymin2 (g slow [(i - sgnvz)%Z; Z.max (j - 1) 0; (k - sgnvy)%Z]) (g slow [(i - sgnvz)%Z; Z.min j (nx - 2); (k - sgnvy)%Z]).
Definition face_s_xy slow i j k sgnvx sgnvy nz : T :=
  pymin2 (g slow [Z.max (i - 1) 0; (j - sgnvx)%Z; (k - sgnvy)%Z]) (g slow [Z.min i (nz - 2); (j - sgnvx)%Z; (k - sgnvy)%Z]).
Definition cell_s slow i j k sgnvz sgnvx sgnvy : T := g slow [(i - sgnvz)%Z; (j - sgnvx)%Z; (k - sgnvy)%Z].

Definition c_t1d tt slow (dz dx dy : T) i j k sgnvz sgnvx sgnvy sgntz sgntx sgnty nz nx ny : T :=
  pymin3 (nadd (nb_v tt i j k sgntz) (nmul dz (edge_s_z slow i j k sgnvz nx ny)))
         (nadd (nb_e tt i j k sgntx) (nmul dx (edge_s_x slow i j k sgnvx nz ny)))
         (nadd (nb_n tt i j k sgnty) (nmul dy (edge_s_y slow i j k sgnvy nz nx))).

(* the plane operator in the two syntactic forms of the code; A, B are the two extrapolated times *)
Definition plane_zx (tv te tev vref d1 d2 : T) : T :=
  let ta := nsub (nadd tev te) tv in let tb := nadd (nsub tev te) tv in
  ndiv (nadd (nadd (nmul tb d1) (nmul ta d2))
             (nsqrt (nsub (nmul (nmul (nofZ 4) (nsq vref)) (nadd d1 d2)) (nmul (nmul d1 d2) (nsq (nsub ta tb))))))
       (nadd d1 d2).
Definition plane_op (A B d1 d2 vref : T) : T :=
  ndiv (nadd (nadd (nmul A d1) (nmul B d2))
             (nsqrt (nsub (nmul (nmul (nofZ 4) (nsq vref)) (nadd d1 d2)) (nmul (nmul d1 d2) (nsq (nsub A B))))))
       (nadd d1 d2).
Definition c_t2d_zx (tv te tev vref dz dx dz2i dx2i : T) : T :=
  if nltb tv (nadd te (nmul dx vref)) && nltb te (nadd tv (nmul dz vref)) then plane_zx tv te tev vref dz2i dx2i else Big.
Definition c_t2d_zy (tv tn tnv vref dz dy dz2i dy2i : T) : T :=
  if nltb tv (nadd tn (nmul dy vref)) && nltb tn (nadd tv (nmul dz vref))
  then plane_op (nadd (nsub tv tn) tnv) (nadd (nsub tn tv) tnv) dz2i dy2i vref else Big.
Definition c_t2d_xy (te tn ten vref dx dy dx2i dy2i : T) : T :=
  if nltb te (nadd tn (nmul dy vref)) && nltb tn (nadd te (nmul dx vref))
  then plane_op (nadd (nsub te tn) ten) (nadd (nsub tn te) ten) dx2i dy2i vref else Big.
Definition c_t2d tt slow (dz dx dy dz2i dx2i dy2i : T) i j k sgnvz sgnvx sgnvy sgntz sgntx sgnty nz nx ny : T :=
  let tv := nb_v tt i j k sgntz in let te := nb_e tt i j k sgntx in let tn := nb_n tt i j k sgnty in
  pymin3 (c_t2d_zx tv te (nb_ev tt i j k sgntz sgntx) (face_s_zx slow i j k sgnvz sgnvx ny) dz dx dz2i dx2i)
         (c_t2d_zy tv tn (nb_nv tt i j k sgntz sgnty) (face_s_zy slow i j k sgnvz sgnvy nx) dz dy dz2i dy2i)
         (c_t2d_xy te tn (nb_en tt i j k sgntx sgnty) (face_s_xy slow i j k sgnvx sgnvy nz) dx dy dx2i dy2i).

(* the 8-point operator *)
Definition hf : T := nofQ 1 2.
Definition op3_a (tv te tn tev ten tnv tnve : T) : T :=
  nadd (nsub (nadd (nsub (nadd (nsub te (nmul hf tn)) (nmul hf ten)) (nmul hf tv)) (nmul hf tev)) tnv) tnve.
Definition op3_b (tv te tn tev ten tnv tnve : T) : T :=
  nadd (nsub (nadd (nsub (nadd (nsub tv (nmul hf tn)) (nmul hf tnv)) (nmul hf te)) (nmul hf tev)) ten) tnve.
Definition op3_c (tv te tn tev ten tnv tnve : T) : T :=
  nadd (nsub (nadd (nsub (nadd (nsub tn (nmul hf te)) (nmul hf ten)) (nmul hf tv)) (nmul hf tnv)) tev) tnve.
Definition op3_t2 (vref dsum : T) : T := nmul (nmul (nsq vref) dsum) (nofZ 9).
Definition op3_t3 (tv te tn tev ten tnv tnve dzxi dzyi dxyi : T) : T :=
  let ta := op3_a tv te tn tev ten tnv tnve in let tb := op3_b tv te tn tev ten tnv tnve in
  let tc := op3_c tv te tn tev ten tnv tnve in
  nadd (nadd (nmul dzxi (nsq (nsub ta tb))) (nmul dzyi (nsq (nsub tb tc)))) (nmul dxyi (nsq (nsub ta tc))).
Definition op3 (tv te tn tev ten tnv tnve vref dz2i dx2i dy2i dzxi dzyi dxyi dsum : T) : T :=
  let ta := op3_a tv te tn tev ten tnv tnve in let tb := op3_b tv te tn tev ten tnv tnve in
  let tc := op3_c tv te tn tev ten tnv tnve in
  ndiv (nadd (nadd (nadd (nmul tb dz2i) (nmul ta dx2i)) (nmul tc dy2i))
             (nsqrt (nsub (op3_t2 vref dsum) (op3_t3 tv te tn tev ten tnv tnve dzxi dzyi dxyi))))
       dsum.
(* the causality guard added to the source: a time earlier than the cube-diagonal neighbour is discarded *)
Definition guard3 (guarded : bool) (v tnve : T) : T := if guarded then (if nltb v tnve then Big else v) else v.

Definition c_t3d (guarded : bool) tt slow (dz dx dy dz2i dx2i dy2i dzxi dzyi dxyi dsum : T)
           i j k sgnvz sgnvx sgnvy sgntz sgntx sgnty nz nx ny : T :=
  let tv := nb_v tt i j k sgntz in let te := nb_e tt i j k sgntx in let tn := nb_n tt i j k sgnty in
  let tev := nb_ev tt i j k sgntz sgntx in let ten := nb_en tt i j k sgntx sgnty in
  let tnv := nb_nv tt i j k sgntz sgnty in let tnve := nb_nve tt i j k sgntz sgntx sgnty in
  let vref := cell_s slow i j k sgnvz sgnvx sgnvy in
  if ngtb (pymin2 (c_t1d tt slow dz dx dy i j k sgnvz sgnvx sgnvy sgntz sgntx sgnty nz nx ny)
                  (c_t2d tt slow dz dx dy dz2i dx2i dy2i i j k sgnvz sgnvx sgnvy sgntz sgntx sgnty nz nx ny))
          (pymax3 tv te tn)
  then if ngeb (op3_t2 vref dsum) (op3_t3 tv te tn tev ten tnv tnve dzxi dzyi dxyi)
       then guard3 guarded (op3 tv te tn tev ten tnv tnve vref dz2i dx2i dy2i dzxi dzyi dxyi dsum) tnve
       else Big
  else Big.

(* the value written at node (i,j,k): min(t0, t1d, t2d, t3d) *)
Definition node_value (guarded : bool) tt slow (dz dx dy dz2i dx2i dy2i dzxi dzyi dxyi dsum : T)
           i j k sgnvz sgnvx sgnvy sgntz sgntx sgnty nz nx ny : T :=
  pymin4 (g tt [i; j; k])
         (c_t1d tt slow dz dx dy i j k sgnvz sgnvx sgnvy sgntz sgntx sgnty nz nx ny)
         (c_t2d tt slow dz dx dy dz2i dx2i dy2i i j k sgnvz sgnvx sgnvy sgntz sgntx sgnty nz nx ny)
         (c_t3d guarded tt slow dz dx dy dz2i dx2i dy2i dzxi dzyi dxyi dsum
                i j k sgnvz sgnvx sgnvy sgntz sgntx sgnty nz nx ny).

(* the same with the spacing constants computed as in sweep3d (SweepDargs.dargs3) *)
Definition node_value_sp (guarded : bool) tt slow (dz dx dy : T) i j k sgnvz sgnvx sgnvy sgntz sgntx sgnty nz nx ny : T :=
  let dz2i := ndiv (ndiv (nofZ 1) dz) dz in
  let dx2i := ndiv (ndiv (nofZ 1) dx) dx in
  let dy2i := ndiv (ndiv (nofZ 1) dy) dy in
  node_value guarded tt slow dz dx dy dz2i dx2i dy2i (nmul dz2i dx2i) (nmul dz2i dy2i) (nmul dx2i dy2i)
             (nadd (nadd dz2i dx2i) dy2i) i j k sgnvz sgnvx sgnvy sgntz sgntx sgnty nz nx ny.

(* THE TIE: the generated sweep writes node_value true (by computation) *)
Theorem sweep_tt_eq_guarded tt ttsgn slow (dz dx dy dz2i dx2i dy2i dzxi dzyi dxyi dsum : T)
        i j k sgnvz sgnvx sgnvy sgntz sgntx sgnty nz nx ny grad :
  fst (sweep tt ttsgn slow (dz, dx, dy, dz2i, dx2i, dy2i, dzxi, dzyi, dxyi, dsum)
             i j k sgnvz sgnvx sgnvy sgntz sgntx sgnty nz nx ny grad)
  = set tt [i; j; k] (node_value true tt slow dz dx dy dz2i dx2i dy2i dzxi dzyi dxyi dsum
                                 i j k sgnvz sgnvx sgnvy sgntz sgntx sgnty nz nx ny).
Proof.
  unfold sweep. cbv zeta.
  lazymatch goal with |- fst (?a, _) = ?r => change (a = r) end.
  reflexivity.
Qed.

Corollary sweep_dargs3_eq tt ttsgn slow (dz dx dy : T) i j k sgnvz sgnvx sgnvy sgntz sgntx sgnty nz nx ny grad :
  fst (sweep tt ttsgn slow (dargs3 dz dx dy) i j k sgnvz sgnvx sgnvy sgntz sgntx sgnty nz nx ny grad)
  = set tt [i; j; k] (node_value_sp true tt slow dz dx dy i j k sgnvz sgnvx sgnvy sgntz sgntx sgnty nz nx ny).
Proof. unfold dargs3, node_value_sp. cbv zeta. apply sweep_tt_eq_guarded. Qed.

(* a model of the solver WITHOUT the guard (the code before the fix): the node update writes node_value false, the
   loop nest is that of sweep3d (Sweep3dProofs.pass3T / sweep3dT), the initial state is Solve3dProofs.tt0_3d.
   Faithfulness of the node update was checked once against the model generated from the pre-fix source (repository
   commit fdc5767): there, for every numeric instance,
       fst (sweep tt ttsgn slow (dargs3 dz dx dy) i j k .. grad) = updU slow dz dx dy nz nx ny .. i j k tt
   holds by `unfold; cbv zeta; reflexivity` (the proof script of sweep_tt_eq_guarded); on the binary64 instance the run
   below reproduces the 17 digits the unfixed Python code returned. *)
Definition updU slow (dz dx dy : T) nz nx ny sgnvz sgnvx sgnvy sgntz sgntx sgnty i j k tt : arr T :=
  set tt [i; j; k] (node_value_sp false tt slow dz dx dy i j k sgnvz sgnvx sgnvy sgntz sgntx sgnty nz nx ny).
Definition passU slow (dz dx dy : T) nz nx ny (uz ux uy : bool) tt : arr T :=
  for_list (dir_range uy ny) (fun k tt =>
    for_list (dir_range ux nx) (fun j tt =>
      for_list (dir_range uz nz) (fun i tt =>
        updU slow dz dx dy nz nx ny (sgnv uz) (sgnv ux) (sgnv uy) (sgnt uz) (sgnt ux) (sgnt uy) i j k tt) tt) tt) tt.
Definition sweep3dU slow (dz dx dy : T) nz nx ny tt : arr T :=
  let tt := passU slow dz dx dy nz nx ny true true true tt in
  let tt := passU slow dz dx dy nz nx ny true false true tt in
  let tt := passU slow dz dx dy nz nx ny true true false tt in
  let tt := passU slow dz dx dy nz nx ny true false false tt in
  let tt := passU slow dz dx dy nz nx ny false true true tt in
  let tt := passU slow dz dx dy nz nx ny false false true tt in
  let tt := passU slow dz dx dy nz nx ny false true false tt in
  let tt := passU slow dz dx dy nz nx ny false false false tt in
  tt.
Definition fteik3dU slow (dz dx dy zsrc xsrc ysrc : T) (nsweep : nat) : arr T :=
  Nat.iter nsweep (sweep3dU slow dz dx dy (dim slow 0 + 1) (dim slow 1 + 1) (dim slow 2 + 1))
           (tt0_3d slow dz dx dy zsrc xsrc ysrc).
End Ops.

(* ------------------------------------------------------------------------------------------ *)
(* real arithmetic                                                                              *)
(* ------------------------------------------------------------------------------------------ *)
Lemma pymin4_ge (m a b c d : R) : m <= a -> m <= b -> m <= c -> m <= d -> m <= pymin4 a b c d.
Proof. intros Ha Hb Hc Hd. unfold pymin4. apply pymin2_ge; [apply pymin3_ge|]; assumption. Qed.
Lemma pymin2_gt (x p q : R) : x < p -> x < q -> x < pymin2 p q.
Proof. intros. unfold pymin2. destruct (nltb q p); assumption. Qed.
Lemma pymin3_gt (x p q r : R) : x < p -> x < q -> x < r -> x < pymin3 p q r.
Proof. intros. unfold pymin3. repeat apply pymin2_gt; assumption. Qed.
Lemma pymax3_lt (x p q r : R) : p < x -> q < x -> r < x -> pymax3 p q r < x.
Proof. intros. unfold pymax3, pymax2. repeat destruct (nltb _ _); assumption. Qed.
Lemma pymin2_same (p : R) : pymin2 p p = p.
Proof. unfold pymin2. destruct (nltb p p); reflexivity. Qed.
Lemma pymin4_same (x : R) : pymin4 x x x x = x.
Proof. unfold pymin4, pymin3. rewrite !pymin2_same. reflexivity. Qed.
Lemma pymin4_eq_last (a b c d : R) : d < a -> d < b -> d < c -> pymin4 a b c d = d.
Proof.
  intros Ha Hb Hc. unfold pymin4, pymin2 at 1. cbn [nltb NumR].
  rewrite (proj2 (Rltb_true _ _)); [reflexivity | apply pymin3_gt; assumption].
Qed.

Lemma Big3_nonneg : 0 <= (Big : R).
Proof. unfold Big. cbn [nofZ NumR]. lra. Qed.

Lemma inv2_pos (d : R) : 0 < d -> 0 < 1 / d / d.
Proof. intros Hd. unfold Rdiv. rewrite Rmult_1_l. apply Rmult_lt_0_compat; apply Rinv_0_lt_compat; exact Hd. Qed.

(* ------------------------------------------------------------------------------------------ *)
(* the three plane operators: arbitrary spacings                                                *)
(* ------------------------------------------------------------------------------------------ *)
Lemma plane_zx_four_point (tv te tev vref d1 d2 : R) : plane_zx tv te tev vref d1 d2 = four_point tv te tev vref d1 d2.
Proof. reflexivity. Qed.
Lemma plane_op_four_point (tv tn tnv d1 d2 vref : R) :
  plane_op (nadd (nsub tv tn) tnv) (nadd (nsub tn tv) tnv) d1 d2 vref = four_point tv tn tnv vref d1 d2.
Proof. unfold plane_op, OperatorsR.four_point. unnum. cbv zeta. f_equal. f_equal; [ring | f_equal; ring]. Qed.

(* each is the 2D 4-point operator of its plane under (the strict form of) its admissibility test, and the placeholder
   Big otherwise; so it is Big or at least the time of the face-diagonal neighbour *)
Lemma t2d_zx_ge (tv te tev vref dz dx : R) :
  0 < dz -> 0 < dx -> 0 <= vref ->
  c_t2d_zx tv te tev vref dz dx (1 / dz / dz) (1 / dx / dx) = Big \/
  tev <= c_t2d_zx tv te tev vref dz dx (1 / dz / dz) (1 / dx / dx).
Proof.
  intros Hdz Hdx Hv. unfold c_t2d_zx. rewrite plane_zx_four_point. numR.
  destruct (Rltb tv (te + dx * vref)) eqn:E1; [|left; reflexivity].
  destruct (Rltb te (tv + dz * vref)) eqn:E2; [|left; reflexivity]. cbn [andb]. right.
  apply Rltb_true in E1, E2. apply four_point_ge_tev; lra.
Qed.
Lemma t2d_zy_ge (tv tn tnv vref dz dy : R) :
  0 < dz -> 0 < dy -> 0 <= vref ->
  c_t2d_zy tv tn tnv vref dz dy (1 / dz / dz) (1 / dy / dy) = Big \/
  tnv <= c_t2d_zy tv tn tnv vref dz dy (1 / dz / dz) (1 / dy / dy).
Proof.
  intros Hdz Hdy Hv. unfold c_t2d_zy. rewrite plane_op_four_point. numR.
  destruct (Rltb tv (tn + dy * vref)) eqn:E1; [|left; reflexivity].
  destruct (Rltb tn (tv + dz * vref)) eqn:E2; [|left; reflexivity]. cbn [andb]. right.
  apply Rltb_true in E1, E2. apply four_point_ge_tev; lra.
Qed.
Lemma t2d_xy_ge (te tn ten vref dx dy : R) :
  0 < dx -> 0 < dy -> 0 <= vref ->
  c_t2d_xy te tn ten vref dx dy (1 / dx / dx) (1 / dy / dy) = Big \/
  ten <= c_t2d_xy te tn ten vref dx dy (1 / dx / dx) (1 / dy / dy).
Proof.
  intros Hdx Hdy Hv. unfold c_t2d_xy. rewrite plane_op_four_point. numR.
  destruct (Rltb te (tn + dy * vref)) eqn:E1; [|left; reflexivity].
  destruct (Rltb tn (te + dx * vref)) eqn:E2; [|left; reflexivity]. cbn [andb]. right.
  apply Rltb_true in E1, E2. apply four_point_ge_tev; lra.
Qed.

Lemma big_or_ge_nonneg (x d : R) : 0 <= d -> x = Big \/ d <= x -> 0 <= x.
Proof. intros Hd [-> | Hx]; [apply Big3_nonneg | lra]. Qed.

(* the radicands of the three plane operators are >= 0 under their tests: NonNeg2d.four_point_radicand_nonneg, which is
   stated for arbitrary spacings of the two axes of the plane, applies verbatim (ZX: dz dx, ZY: dz dy, XY: dx dy) *)
Example plane_radicand_zy (tv tn tnv vref dz dy : R) :
  0 < dz -> 0 < dy -> 0 <= vref -> tv <= tn + dy * vref -> tn <= tv + dz * vref ->
  let ta := tnv + tn - tv in let tb := tnv - tn + tv in
  0 <= 4 * (vref * vref) * (1 / dz / dz + 1 / dy / dy) - (1 / dz / dz) * (1 / dy / dy) * ((ta - tb) * (ta - tb)).
Proof. exact (four_point_radicand_nonneg tv tn tnv vref dz dy). Qed.

(* ------------------------------------------------------------------------------------------ *)
(* the 8-point operator (without the guard)                                                     *)
(* ------------------------------------------------------------------------------------------ *)
(* the linear part t1 of the 8-point operator, neighbour by neighbour *)
Lemma op3_t1_weights (tv te tn tev ten tnv tnve p q r : R) :
  op3_b tv te tn tev ten tnv tnve * p + op3_a tv te tn tev ten tnv tnve * q + op3_c tv te tn tev ten tnv tnve * r
  = (p - (q + r) / 2) * tv + (q - (p + r) / 2) * te + (r - (p + q) / 2) * tn
    + ((p + q) / 2 - r) * tev + ((q + r) / 2 - p) * ten + ((p + r) / 2 - q) * tnv + (p + q + r) * tnve.
Proof. unfold op3_a, op3_b, op3_c, hf. numR. field. Qed.

(* op3 in real-number notation *)
Lemma op3_R (tv te tn tev ten tnv tnve vref dz2i dx2i dy2i dzxi dzyi dxyi dsum : R) :
  op3 tv te tn tev ten tnv tnve vref dz2i dx2i dy2i dzxi dzyi dxyi dsum
  = ((op3_b tv te tn tev ten tnv tnve * dz2i + op3_a tv te tn tev ten tnv tnve * dx2i
      + op3_c tv te tn tev ten tnv tnve * dy2i)
     + sqrt (op3_t2 vref dsum - op3_t3 tv te tn tev ten tnv tnve dzxi dzyi dxyi)) / dsum.
Proof. reflexivity. Qed.

(* equal spacings: t1 = 3 p tnve, so the operator returns at least the time of the cube-diagonal neighbour (whatever
   the other six values and the slowness are, with or without the test t3 <= t2): the guard is a no-op there *)
Theorem op3_ge_tnve_cubic (tv te tn tev ten tnv tnve vref p : R) :
  0 < p -> tnve <= op3 tv te tn tev ten tnv tnve vref p p p (p * p) (p * p) (p * p) (p + p + p).
Proof.
  intros Hp. rewrite op3_R, op3_t1_weights.
  set (S := sqrt _). assert (HS : 0 <= S) by apply sqrt_pos.
  apply (Rmult_le_reg_r (p + p + p)); [lra|].
  unfold Rdiv. rewrite Rmult_assoc, Rinv_l by lra. nra.
Qed.

(* a concrete failure: dz = dy = 1, dx = 1/2 *)
Theorem op3_negative_example :
  let dz := 1 in let dx := 1 / 2 in let dy := 1 in
  let dz2i := 1 / dz / dz in let dx2i := 1 / dx / dx in let dy2i := 1 / dy / dy in
  op3_t3 0 0 0 0 0 1 0 (dz2i * dx2i) (dz2i * dy2i) (dx2i * dy2i) <= op3_t2 (3 / 5) (dz2i + dx2i + dy2i) /\
  op3 0 0 0 0 0 1 0 (3 / 5) dz2i dx2i dy2i (dz2i * dx2i) (dz2i * dy2i) (dx2i * dy2i) (dz2i + dx2i + dy2i) = - 3 / 10.
Proof.
  cbv zeta.
  replace (1 / 1 / 1) with 1 by field. replace (1 / (1 / 2) / (1 / 2)) with 4 by field.
  split.
  - unfold op3_t3, op3_t2, op3_a, op3_b, op3_c, hf. cbv zeta. unnum. lra.
  - rewrite op3_R.
    replace (op3_t2 (3 / 5) (1 + 4 + 1) - op3_t3 0 0 0 0 0 1 0 (1 * 4) (1 * 1) (4 * 1)) with ((6 / 5) * (6 / 5))
      by (unfold op3_t3, op3_t2, op3_a, op3_b, op3_c, hf; cbv zeta; unnum; field).
    rewrite sqrt_square by lra. unfold op3_a, op3_b, op3_c, hf. numR. field.
Qed.

(* the sign of the 8-point operator is safe exactly on cubic grids *)
Lemma op3_negative_witness (p q r tv te tn tev ten tnv : R) :
  0 < p -> 0 < q -> 0 < r ->
  (* exactly one of tev, ten, tnv is 1, everything else 0; c = its (negative) weight in t1, m = its weight in t3 *)
  forall c m : R, c < 0 -> 0 <= m ->
  op3_b tv te tn tev ten tnv 0 * p + op3_a tv te tn tev ten tnv 0 * q + op3_c tv te tn tev ten tnv 0 * r = c ->
  op3_t3 tv te tn tev ten tnv 0 (p * q) (p * r) (q * r) = m ->
  exists vref, 0 <= vref /\
    op3_t3 tv te tn tev ten tnv 0 (p * q) (p * r) (q * r) <= op3_t2 vref (p + q + r) /\
    op3 tv te tn tev ten tnv 0 vref p q r (p * q) (p * r) (q * r) (p + q + r) < 0.
Proof.
  intros Hp Hq Hr c m Hc Hm E1 E3.
  assert (Hs : 0 < p + q + r) by lra.
  assert (Hk : 0 <= m / (9 * (p + q + r))).
  { apply Rmult_le_pos; [exact Hm | left; apply Rinv_0_lt_compat; lra]. }
  exists (sqrt (m / (9 * (p + q + r)))).
  assert (E2 : op3_t2 (sqrt (m / (9 * (p + q + r)))) (p + q + r) = m).
  { unfold op3_t2. unnum. rewrite sqrt_sqrt by exact Hk. field. lra. }
  split; [apply sqrt_pos|]. split; [rewrite E2, E3; lra|].
  rewrite op3_R, E1, E2, E3. replace (m - m) with 0 by ring. rewrite sqrt_0, Rplus_0_r.
  unfold Rdiv. pose proof (Rinv_0_lt_compat _ Hs) as Hi. nra.
Qed.

Theorem op3_negative_iff_noncubic (p q r : R) :
  0 < p -> 0 < q -> 0 < r ->
  ((exists tv te tn tev ten tnv tnve vref,
      0 <= tv /\ 0 <= te /\ 0 <= tn /\ 0 <= tev /\ 0 <= ten /\ 0 <= tnv /\ 0 <= tnve /\ 0 <= vref /\
      op3_t3 tv te tn tev ten tnv tnve (p * q) (p * r) (q * r) <= op3_t2 vref (p + q + r) /\
      op3 tv te tn tev ten tnv tnve vref p q r (p * q) (p * r) (q * r) (p + q + r) < 0)
   <-> ~ (p = q /\ q = r)).
Proof.
  intros Hp Hq Hr. split.
  - intros (tv & te & tn & tev & ten & tnv & tnve & vref & _ & _ & _ & _ & _ & _ & Hn & _ & _ & Hneg) [E1 E2].
    subst q r. pose proof (op3_ge_tnve_cubic tv te tn tev ten tnv tnve vref p Hp). lra.
  - intros Hne.
    assert (Hcase : 2 * q > p + r \/ 2 * p > q + r \/ 2 * r > p + q).
    { destruct (Rlt_dec (p + r) (2 * q)); [left; lra|]. destruct (Rlt_dec (q + r) (2 * p)); [right; left; lra|].
      destruct (Rlt_dec (p + q) (2 * r)); [right; right; lra|]. exfalso. apply Hne. split; lra. }
    destruct Hcase as [Hc | [Hc | Hc]].
    + (* dx is the small spacing: tnv = 1 *)
      destruct (op3_negative_witness p q r 0 0 0 0 0 1 Hp Hq Hr ((p + r) / 2 - q) (9 / 4 * (q * (p + r))))
        as (vref & Hv & Ht & Hn); [lra | nra | | |].
      * unfold op3_a, op3_b, op3_c, hf. numR. field.
      * unfold op3_t3, op3_a, op3_b, op3_c, hf. cbv zeta. unnum. field.
      * exists 0, 0, 0, 0, 0, 1, 0, vref. repeat split; first [assumption | lra].
    + (* dz is the small spacing: ten = 1 *)
      destruct (op3_negative_witness p q r 0 0 0 0 1 0 Hp Hq Hr ((q + r) / 2 - p) (9 / 4 * (p * (q + r))))
        as (vref & Hv & Ht & Hn); [lra | nra | | |].
      * unfold op3_a, op3_b, op3_c, hf. numR. field.
      * unfold op3_t3, op3_a, op3_b, op3_c, hf. cbv zeta. unnum. field.
      * exists 0, 0, 0, 0, 1, 0, 0, vref. repeat split; first [assumption | lra].
    + (* dy is the small spacing: tev = 1 *)
      destruct (op3_negative_witness p q r 0 0 0 1 0 0 Hp Hq Hr ((p + q) / 2 - r) (9 / 4 * (r * (p + q))))
        as (vref & Hv & Ht & Hn); [lra | nra | | |].
      * unfold op3_a, op3_b, op3_c, hf. numR. field.
      * unfold op3_t3, op3_a, op3_b, op3_c, hf. cbv zeta. unnum. field.
      * exists 0, 0, 0, 1, 0, 0, 0, vref. repeat split; first [assumption | lra].
Qed.

(* ------------------------------------------------------------------------------------------ *)
(* 1. one node update                                                                           *)
(* ------------------------------------------------------------------------------------------ *)
Lemma pymin4_get_nonneg (a : arr R) i1 i2 i3 i4 : nonneg a -> 0 <= pymin4 (get 0 a i1) (get 0 a i2) (get 0 a i3) (get 0 a i4).
Proof. intros Ha. apply pymin4_ge; apply get_nonneg, Ha. Qed.

Lemma t1d_nonneg_3d (tt slow : arr R) (dz dx dy : R) i j k sgnvz sgnvx sgnvy sgntz sgntx sgnty nz nx ny :
  0 < dz -> 0 < dx -> 0 < dy -> nonneg slow -> nonneg tt ->
  0 <= c_t1d tt slow dz dx dy i j k sgnvz sgnvx sgnvy sgntz sgntx sgnty nz nx ny.
Proof.
  intros Hdz Hdx Hdy Hs Ht. unfold c_t1d, edge_s_z, edge_s_x, edge_s_y, nb_v, nb_e, nb_n. numR.
  apply pymin3_ge;
    match goal with |- 0 <= ?a + ?d * ?m =>
      assert (0 <= a) by (apply get_nonneg, Ht);
      assert (0 <= m) by (apply pymin4_get_nonneg, Hs); nra end.
Qed.

Lemma t2d_nonneg_3d (tt slow : arr R) (dz dx dy : R) i j k sgnvz sgnvx sgnvy sgntz sgntx sgnty nz nx ny :
  0 < dz -> 0 < dx -> 0 < dy -> nonneg slow -> nonneg tt ->
  0 <= c_t2d tt slow dz dx dy (1 / dz / dz) (1 / dx / dx) (1 / dy / dy)
             i j k sgnvz sgnvx sgnvy sgntz sgntx sgnty nz nx ny.
Proof.
  intros Hdz Hdx Hdy Hs Ht. unfold c_t2d. cbv zeta.
  assert (Fzx : 0 <= face_s_zx slow i j k sgnvz sgnvx ny)
    by (unfold face_s_zx; numR; apply pymin2_ge; apply get_nonneg, Hs).
  assert (Fzy : 0 <= face_s_zy slow i j k sgnvz sgnvy nx)
    by (unfold face_s_zy; numR; apply pymin2_ge; apply get_nonneg, Hs).
  assert (Fxy : 0 <= face_s_xy slow i j k sgnvx sgnvy nz)
    by (unfold face_s_xy; numR; apply pymin2_ge; apply get_nonneg, Hs).
  apply pymin3_ge.
  - apply (big_or_ge_nonneg _ (nb_ev tt i j k sgntz sgntx)); [apply (get_nonneg tt), Ht | apply t2d_zx_ge; assumption].
  - apply (big_or_ge_nonneg _ (nb_nv tt i j k sgntz sgnty)); [apply (get_nonneg tt), Ht | apply t2d_zy_ge; assumption].
  - apply (big_or_ge_nonneg _ (nb_en tt i j k sgntx sgnty)); [apply (get_nonneg tt), Ht | apply t2d_xy_ge; assumption].
Qed.

(* with the guard the 8-point candidate is Big or at least the cube-diagonal neighbour's time, whatever the spacings *)
Lemma t3d_guarded_nonneg (tt slow : arr R) (dz dx dy dz2i dx2i dy2i dzxi dzyi dxyi dsum : R)
      i j k sgnvz sgnvx sgnvy sgntz sgntx sgnty nz nx ny :
  nonneg tt ->
  0 <= c_t3d true tt slow dz dx dy dz2i dx2i dy2i dzxi dzyi dxyi dsum i j k sgnvz sgnvx sgnvy sgntz sgntx sgnty nz nx ny.
Proof.
  intros Ht. unfold c_t3d. cbv zeta.
  destruct (ngtb _ _); [|apply Big3_nonneg]. destruct (ngeb _ _); [|apply Big3_nonneg].
  unfold guard3. numR.
  match goal with |- 0 <= (if Rltb ?v ?d then _ else _) => destruct (Rltb v d) eqn:E end; [apply Big3_nonneg|].
  apply Rltb_false in E. eapply Rle_trans; [|exact E]. apply (get_nonneg tt), Ht.
Qed.

(* cubic grid: the guard never fires *)
Theorem t3d_guard_noop_cubic (tt slow : arr R) (d : R) i j k sgnvz sgnvx sgnvy sgntz sgntx sgnty nz nx ny :
  0 < d ->
  node_value_sp true tt slow d d d i j k sgnvz sgnvx sgnvy sgntz sgntx sgnty nz nx ny
  = node_value_sp false tt slow d d d i j k sgnvz sgnvx sgnvy sgntz sgntx sgnty nz nx ny.
Proof.
  intros Hd. unfold node_value_sp, node_value. cbv zeta. f_equal. unfold c_t3d. cbv zeta.
  destruct (ngtb _ _); [|reflexivity]. destruct (ngeb _ _); [|reflexivity].
  unfold guard3. numR.
  match goal with |- (if Rltb ?v ?t then _ else _) = _ => assert (Hge : t <= v) end.
  { apply op3_ge_tnve_cubic, inv2_pos, Hd. }
  rewrite (proj2 (Rltb_false _ _) Hge). reflexivity.
Qed.

(* the value written at node (i,j,k) *)
Lemma node_value_nonneg (tt slow : arr R) (dz dx dy : R) i j k sgnvz sgnvx sgnvy sgntz sgntx sgnty nz nx ny :
  0 < dz -> 0 < dx -> 0 < dy -> nonneg slow -> nonneg tt ->
  0 <= node_value_sp true tt slow dz dx dy i j k sgnvz sgnvx sgnvy sgntz sgntx sgnty nz nx ny.
Proof.
  intros Hdz Hdx Hdy Hs Ht. unfold node_value_sp, node_value. cbv zeta. numR. apply pymin4_ge.
  - apply get_nonneg, Ht.
  - apply t1d_nonneg_3d; assumption.
  - apply t2d_nonneg_3d; assumption.
  - apply t3d_guarded_nonneg; assumption.
Qed.

(* MAIN 1: all indices, all shapes, all signs, all spacings *)
Theorem sweep_nonneg_3d (tt : arr R) ttsgn (slow : arr R) (dz dx dy : R)
        i j k sgnvz sgnvx sgnvy sgntz sgntx sgnty nz nx ny grad :
  0 < dz -> 0 < dx -> 0 < dy -> nonneg slow -> nonneg tt ->
  nonneg (fst (sweep tt ttsgn slow (dargs3 dz dx dy) i j k sgnvz sgnvx sgnvy sgntz sgntx sgnty nz nx ny grad)).
Proof.
  intros Hdz Hdx Hdy Hs Ht. rewrite sweep_dargs3_eq. apply nonneg_set; [exact Ht|].
  apply node_value_nonneg; assumption.
Qed.

(* the tuple in real-number notation (Operators3R.dargs_of) *)
Lemma dargs3_R (dz dx dy : R) :
  dargs3 dz dx dy = (dz, dx, dy, 1 / dz / dz, 1 / dx / dx, 1 / dy / dy,
                     1 / dz / dz * (1 / dx / dx), 1 / dz / dz * (1 / dy / dy), 1 / dx / dx * (1 / dy / dy),
                     1 / dz / dz + 1 / dx / dx + 1 / dy / dy).
Proof. reflexivity. Qed.

(* the index form: every in-range entry of the result is >= 0 *)
Corollary sweep_nonneg_3d_get (tt : arr R) ttsgn (slow : arr R) (dz dx dy : R)
          i j k sgnvz sgnvx sgnvy sgntz sgntx sgnty nz nx ny grad :
  0 < dz -> 0 < dx -> 0 < dy -> nonneg slow -> nonneg tt ->
  forall p q r,
    0 <= get 0 (fst (sweep tt ttsgn slow (dargs3 dz dx dy) i j k sgnvz sgnvx sgnvy sgntz sgntx sgnty nz nx ny grad)) [p; q; r].
Proof. intros Hdz Hdx Hdy Hs Ht p q r. apply get_nonneg, sweep_nonneg_3d; assumption. Qed.

(* ---- record: WITHOUT the guard the statement is false ---- *)
Definition cx_tt : arr R := mkarr [2%Z; 2%Z; 2%Z] [0; 0; 1; 0; 0; 0; 0; 100000].   (* tt[0,1,0] = 1 is `tnv` of node (1,1,1) *)
Definition cx_slow : arr R := mkarr [1%Z; 1%Z; 1%Z] [3 / 5].
Definition cx_sgn : arr Z := full [2%Z; 2%Z; 2%Z; 3%Z] 0%Z.

Lemma cx_tt_nonneg : nonneg cx_tt.
Proof. unfold nonneg, cx_tt. cbn [dat]. repeat (apply Forall_cons; [lra|]). apply Forall_nil. Qed.
Lemma cx_slow_nonneg : nonneg cx_slow.
Proof. unfold nonneg, cx_slow. cbn [dat]. repeat (apply Forall_cons; [lra|]). apply Forall_nil. Qed.
Lemma cx_tt_wf : wf cx_tt.
Proof. split; [reflexivity | repeat constructor; lia]. Qed.

Theorem node_unguarded_refuted :
  (0 < 1 /\ 0 < 1 / 2 /\ nonneg cx_slow /\ nonneg cx_tt /\ wf cx_tt /\ shape cx_tt = [2%Z; 2%Z; 2%Z]) /\
  node_value_sp false cx_tt cx_slow 1 (1 / 2) 1 1 1 1 1 1 1 1 1 1 2 2 2 = - 3 / 10.
Proof.
  split; [repeat split; try lra; [apply cx_slow_nonneg | apply cx_tt_nonneg | repeat constructor; lia]|].
  pose proof (t1d_nonneg_3d cx_tt cx_slow 1 (1 / 2) 1 1 1 1 1 1 1 1 1 1 2 2 2
                ltac:(lra) ltac:(lra) ltac:(lra) cx_slow_nonneg cx_tt_nonneg) as H1.
  pose proof (t2d_nonneg_3d cx_tt cx_slow 1 (1 / 2) 1 1 1 1 1 1 1 1 1 1 2 2 2
                ltac:(lra) ltac:(lra) ltac:(lra) cx_slow_nonneg cx_tt_nonneg) as H2.
  unfold node_value_sp, node_value. cbv zeta. numR.
  assert (Ez : edge_s_z cx_slow 1 1 1 1 2 2 = 3 / 5) by exact (pymin4_same (3 / 5)).
  assert (Ex : edge_s_x cx_slow 1 1 1 1 2 2 = 3 / 5) by exact (pymin4_same (3 / 5)).
  assert (Ey : edge_s_y cx_slow 1 1 1 1 2 2 = 3 / 5) by exact (pymin4_same (3 / 5)).
  assert (Fzx : face_s_zx cx_slow 1 1 1 1 1 2 = 3 / 5) by exact (pymin2_same (3 / 5)).
  assert (Fzy : face_s_zy cx_slow 1 1 1 1 1 2 = 3 / 5) by exact (pymin2_same (3 / 5)).
  assert (Fxy : face_s_xy cx_slow 1 1 1 1 1 2 = 3 / 5) by exact (pymin2_same (3 / 5)).
  assert (Ev : nb_v cx_tt 1 1 1 1 = 0) by reflexivity.
  assert (Ee : nb_e cx_tt 1 1 1 1 = 0) by reflexivity.
  assert (En : nb_n cx_tt 1 1 1 1 = 0) by reflexivity.
  assert (Eev : nb_ev cx_tt 1 1 1 1 1 = 0) by reflexivity.
  assert (Een : nb_en cx_tt 1 1 1 1 1 = 0) by reflexivity.
  assert (Env : nb_nv cx_tt 1 1 1 1 1 = 1) by reflexivity.
  assert (Enve : nb_nve cx_tt 1 1 1 1 1 1 = 0) by reflexivity.
  assert (Ec : cell_s cx_slow 1 1 1 1 1 1 = 3 / 5) by reflexivity.
  destruct op3_negative_example as [Htest Hval]. cbv zeta in Htest, Hval.
  match goal with |- pymin4 _ _ _ ?d = _ => assert (E3 : d = - 3 / 10) end.
  { unfold c_t3d. cbv zeta. rewrite Ev, Ee, En, Eev, Een, Env, Enve, Ec. unfold guard3, ngeb, ngtb. numR.
    rewrite (proj2 (Rleb_true _ _) Htest), Hval.
    match goal with |- (if Rltb ?a ?b then _ else _) = _ => assert (Hlt : a < b) end.
    { unfold c_t1d, c_t2d. cbv zeta. rewrite Ez, Ex, Ey, Fzx, Fzy, Fxy, Ev, Ee, En, Eev, Een, Env. numR.
      apply pymax3_lt; (apply pymin2_gt; [apply pymin3_gt | apply pymin3_gt]); try lra.
      all: unfold c_t2d_zx, c_t2d_zy, c_t2d_xy; numR;
           repeat (rewrite (proj2 (Rltb_true _ _)) by lra); cbn [andb];
           unfold plane_zx, plane_op; cbv zeta; unnum.
      all: try (replace (1 / 1 / 1) with 1 by field); try (replace (1 / (1 / 2) / (1 / 2)) with 4 by field).
      all: match goal with |- 0 < (?a + sqrt ?x) / ?y =>
             assert (Hx : 0 < x) by lra; pose proof (sqrt_lt_R0 x Hx); apply Rdiv_lt_0_compat; lra end. }
    rewrite (proj2 (Rltb_true _ _) Hlt). reflexivity. }
  rewrite E3. apply pymin4_eq_last; try lra.
  change (get 0 cx_tt [1%Z; 1%Z; 1%Z]) with 100000. lra.
Qed.

(* hence, without the guard, "one node update keeps every entry >= 0" fails on a well-formed state with entries >= 0 *)
Corollary updU_not_nonneg :
  nonneg cx_tt /\ nonneg cx_slow /\ ~ nonneg (updU cx_slow 1 (1 / 2) 1 2 2 2 1 1 1 1 1 1 1 1 1 cx_tt).
Proof.
  split; [apply cx_tt_nonneg|]. split; [apply cx_slow_nonneg|]. intros Hn.
  apply (get_nonneg _ [1%Z; 1%Z; 1%Z]) in Hn. unfold updU in Hn.
  rewrite get_set_same in Hn; [| apply cx_tt_wf | reflexivity].
  rewrite (proj2 node_unguarded_refuted) in Hn. lra.
Qed.

(* ------------------------------------------------------------------------------------------ *)
(* 2. one pass                                                                                  *)
(* ------------------------------------------------------------------------------------------ *)
(* sweep3d, traveltime component, as the chain of the eight passes of Sweep3dProofs with the known tuple *)
Lemma sweep3d_proj_dargs3 nz nx ny (slow : arr R) (dz dx dy : R) (tt : arr R) ttsgn grad :
  fst (sweep3d tt ttsgn slow dz dx dy nz nx ny grad) = sweep3dT nz nx ny slow (dargs3 dz dx dy) tt.
Proof.
  cbv beta iota delta [sweep3d sweep3dT pass3T Sweep2dProofs.dir_range Sweep2dProofs.sgnv Sweep2dProofs.sgnt].
  Sweep2dProofs.proj_solve ltac:(subst; unfold swT, dargs3; cbv zeta; apply sweep_tt_indep).
Qed.

Lemma pass3T_nonneg nz nx ny (slow : arr R) (dz dx dy : R) uz ux uy (tt : arr R) :
  0 < dz -> 0 < dx -> 0 < dy -> nonneg slow -> nonneg tt ->
  nonneg (pass3T nz nx ny slow (dargs3 dz dx dy) uz ux uy tt).
Proof.
  intros Hdz Hdx Hdy Hs Ht. unfold pass3T.
  apply (for_list_inv nonneg); [exact Ht|]. intros k t1 _ H1.
  apply (for_list_inv nonneg); [exact H1|]. intros j t2 _ H2.
  apply (for_list_inv nonneg); [exact H2|]. intros i t3 _ H3.
  unfold swT. apply sweep_nonneg_3d; assumption.
Qed.

(* MAIN 2: all grid sizes nz, nx, ny (also degenerate ones), all spacings *)
Theorem sweep3d_nonneg (tt : arr R) ttsgn (slow : arr R) (dz dx dy : R) nz nx ny grad :
  0 < dz -> 0 < dx -> 0 < dy -> nonneg slow -> nonneg tt ->
  nonneg (fst (sweep3d tt ttsgn slow dz dx dy nz nx ny grad)).
Proof.
  intros Hdz Hdx Hdy Hs Ht. rewrite sweep3d_proj_dargs3. unfold sweep3dT. cbv zeta.
  repeat (apply pass3T_nonneg; [exact Hdz | exact Hdx | exact Hdy | exact Hs |]). exact Ht.
Qed.

Corollary sweep3d_nonneg_get (tt : arr R) ttsgn (slow : arr R) (dz dx dy : R) nz nx ny grad :
  0 < dz -> 0 < dx -> 0 < dy -> nonneg slow -> nonneg tt ->
  forall p q r, 0 <= get 0 (fst (sweep3d tt ttsgn slow dz dx dy nz nx ny grad)) [p; q; r].
Proof. intros Hdz Hdx Hdy Hs Ht p q r. apply get_nonneg, sweep3d_nonneg; assumption. Qed.

(* ------------------------------------------------------------------------------------------ *)
(* 3. the initial state                                                                         *)
(* ------------------------------------------------------------------------------------------ *)
Lemma t_ana_exact i j k (dz dx dy zsa xsa ysa v : R) :
  t_ana i j k dz dx dy zsa xsa ysa v
  = v * sqrt ((dz * (IZR i - zsa)) ^ 2 + (dx * (IZR j - xsa)) ^ 2 + (dy * (IZR k - ysa)) ^ 2).
Proof. unfold t_ana. unnum. f_equal. f_equal. ring. Qed.
Lemma t_ana_nonneg_3d i j k (dz dx dy zsa xsa ysa vzero : R) : 0 <= vzero -> 0 <= t_ana i j k dz dx dy zsa xsa ysa vzero.
Proof. intros Hv. rewrite t_ana_exact. apply Rmult_le_pos; [exact Hv | apply sqrt_pos]. Qed.
Lemma t_anad_fst i j k (dz dx dy zsa xsa ysa v : R) :
  fst (fst (fst (t_anad i j k dz dx dy zsa xsa ysa v))) = t_ana i j k dz dx dy zsa xsa ysa v.
Proof.
  unfold t_anad. set (t := t_ana i j k dz dx dy zsa xsa ysa v). cbv zeta.
  destruct (ngtb t (nofZ 0)); reflexivity.
Qed.

(* MAIN 3: Big everywhere except the eight corners of the source cell, which hold vzero * distance; no hypothesis on
   the spacings, the source position or the shape of the model *)
Theorem init_nonneg_3d (slow : arr R) (dz dx dy zsrc xsrc ysrc : R) :
  nonneg slow ->
  nonneg (tt0_3d slow dz dx dy zsrc xsrc ysrc) /\ 0 <= vzero3 slow dz dx dy zsrc xsrc ysrc.
Proof.
  intros Hs.
  assert (Hv : 0 <= vzero3 slow dz dx dy zsrc xsrc ysrc) by (unfold vzero3; apply (get_nonneg slow), Hs).
  split; [|exact Hv]. unfold tt0_3d, corner3. cbv zeta.
  repeat (apply nonneg_set; [| rewrite t_anad_fst; apply t_ana_nonneg_3d; exact Hv]).
  apply nonneg_full, Big3_nonneg.
Qed.

(* ------------------------------------------------------------------------------------------ *)
(* 4. the solver                                                                                *)
(* ------------------------------------------------------------------------------------------ *)
Lemma ptt3_nonneg (slow : arr R) (dz dx dy : R) grad t :
  0 < dz -> 0 < dx -> 0 < dy -> nonneg slow -> nonneg t -> nonneg (ptt3 slow dz dx dy grad t).
Proof. intros Hdz Hdx Hdy Hs Ht. unfold ptt3, pass3d. cbn [fst snd]. apply sweep3d_nonneg; assumption. Qed.

(* MAIN 4: all models (any shape), all spacings, any source, any number of sweeps, with or without gradient *)
Theorem fteik3d_nonneg (slow : arr R) (dz dx dy zsrc xsrc ysrc : R) nsweep grad (tt ttgrad : arr R) (vzero : R) :
  0 < dz -> 0 < dx -> 0 < dy -> nonneg slow ->
  fteik3d slow dz dx dy zsrc xsrc ysrc nsweep grad = Ok (tt, ttgrad, vzero) ->
  nonneg tt /\ 0 <= vzero.
Proof.
  intros Hdz Hdx Hdy Hs E. apply fteik3d_ok_inv in E as (_ & -> & ->).
  destruct (init_nonneg_3d slow dz dx dy zsrc xsrc ysrc Hs) as [H0 Hv]. split; [|exact Hv].
  induction (Z.to_nat nsweep) as [|n IH]; [exact H0|].
  rewrite Solve2dProofs.iter_S. apply ptt3_nonneg; assumption.
Qed.

(* every entry >= 0, said with indices, for a well-formed 3-D array *)
Lemma nonneg_iff_get3 (a : arr R) (nz nx ny : Z) :
  wf a -> shape a = [nz; nx; ny] ->
  (nonneg a <-> forall i j k, (0 <= i < nz)%Z -> (0 <= j < nx)%Z -> (0 <= k < ny)%Z -> 0 <= get 0 a [i; j; k]).
Proof.
  intros [Hl Hsh] Es. split; [intros Ha i j k _ _ _; apply get_nonneg, Ha|].
  intros Hg. unfold nonneg. rewrite Forall_forall. intros x Hx.
  destruct (In_nth _ _ 0 Hx) as (n & Hn & <-).
  rewrite Hl, Es in Hn. unfold prodZ in Hn. cbn [fold_right] in Hn.
  rewrite Es in Hsh. inversion Hsh as [|? ? Hnz Hs1]; subst. inversion Hs1 as [|? ? Hnx Hs2]; subst.
  inversion Hs2 as [|? ? Hny _]; subst.
  assert (Hny' : (0 < ny)%Z) by nia. assert (Hnx' : (0 < nx)%Z) by nia.
  assert (Hn' : (0 <= Z.of_nat n < (nz * nx) * ny)%Z) by nia.
  destruct (Sweep2dProofs.decomp2 (Z.of_nat n) (nz * nx) ny Hn' Hny') as (Hm & Hr & En).
  destruct (Sweep2dProofs.decomp2 (Z.of_nat n / ny) nz nx Hm Hnx') as (Hp & Hq & Em).
  specialize (Hg _ _ _ Hp Hq Hr). unfold get in Hg. rewrite Es in Hg. unfold flat in Hg. cbn [flat_aux] in Hg.
  replace (((0 * nz + Z.of_nat n / ny / nx) * nx + Z.of_nat n / ny mod nx) * ny + Z.of_nat n mod ny)%Z
    with (Z.of_nat n) in Hg by lia.
  rewrite Nat2Z.id in Hg. exact Hg.
Qed.

(* the same with indices: slownesses given cell by cell, traveltimes read node by node *)
Corollary fteik3d_nonneg_get (slow : arr R) (dz dx dy zsrc xsrc ysrc : R) nsweep grad (tt ttgrad : arr R) (vzero : R) :
  0 < dz -> 0 < dx -> 0 < dy -> wf slow -> shape slow = [dim slow 0; dim slow 1; dim slow 2] ->
  (forall i j k, (0 <= i < dim slow 0)%Z -> (0 <= j < dim slow 1)%Z -> (0 <= k < dim slow 2)%Z -> 0 <= get 0 slow [i; j; k]) ->
  fteik3d slow dz dx dy zsrc xsrc ysrc nsweep grad = Ok (tt, ttgrad, vzero) ->
  (forall i j k, (0 <= i <= dim slow 0)%Z -> (0 <= j <= dim slow 1)%Z -> (0 <= k <= dim slow 2)%Z -> 0 <= get 0 tt [i; j; k])
  /\ 0 <= vzero.
Proof.
  intros Hdz Hdx Hdy Hw Hsh Hg E.
  destruct (fteik3d_nonneg slow dz dx dy zsrc xsrc ysrc nsweep grad tt ttgrad vzero Hdz Hdx Hdy) as [Ht Hv]; [|exact E|].
  - apply (nonneg_iff_get3 slow _ _ _ Hw Hsh), Hg.
  - split; [|exact Hv]. intros i j k _ _ _. apply get_nonneg, Ht.
Qed.

(* ------------------------------------------------------------------------------------------ *)
(* non-vacuity: a model of 2 x 2 x 2 cells of slowness 1 (3 x 3 x 3 nodes), spacings 1, 1/2, 2    *)
(* ------------------------------------------------------------------------------------------ *)
Definition ex3 : arr R := mkarr [2%Z; 2%Z; 2%Z] [1; 1; 1; 1; 1; 1; 1; 1].
(* seven nodes of the cube (0..1)^3 already reached, every other node at Big; node (1,1,1) is updated *)
Definition ex3_tt : arr R :=
  mkarr [3%Z; 3%Z; 3%Z] [0; 2; 100000;  1/2; 2; 100000;  100000; 100000; 100000;
                           1; 2; 100000;  1; 100000; 100000;  100000; 100000; 100000;
                           100000; 100000; 100000;  100000; 100000; 100000;  100000; 100000; 100000].
Definition ex3_sgn : arr Z := full [3%Z; 3%Z; 3%Z; 3%Z] 0%Z.
Lemma ex3_nonneg : nonneg ex3.
Proof. unfold nonneg, ex3. cbn [dat]. repeat (apply Forall_cons; [lra|]). apply Forall_nil. Qed.
Lemma ex3_tt_nonneg : nonneg ex3_tt.
Proof. unfold nonneg, ex3_tt. cbn [dat]. repeat (apply Forall_cons; [lra|]). apply Forall_nil. Qed.

Example sweep_nonneg_3d_ex :
  nonneg (fst (sweep ex3_tt ex3_sgn ex3 (dargs3 1 (1/2) 2) 1 1 1 1 1 1 1 1 1 3 3 3 false)).
Proof. apply sweep_nonneg_3d; [lra | lra | lra | apply ex3_nonneg | apply ex3_tt_nonneg]. Qed.

Example sweep3d_nonneg_ex : nonneg (fst (sweep3d ex3_tt ex3_sgn ex3 1 (1/2) 2 3 3 3 false)).
Proof. apply sweep3d_nonneg; [lra | lra | lra | apply ex3_nonneg | apply ex3_tt_nonneg]. Qed.

(* source in the middle of cell (0,0,0) *)
Example init_nonneg_3d_ex :
  nonneg (tt0_3d ex3 1 (1/2) 2 (1/2) (1/4) 1) /\ 0 <= vzero3 ex3 1 (1/2) 2 (1/2) (1/4) 1.
Proof. apply init_nonneg_3d, ex3_nonneg. Qed.

Lemma ex3_inside : inside3d ex3 1 (1/2) 2 (1/2) (1/4) 1 = true.
Proof.
  unfold inside3d. cbn [dim shape ex3 nth]. cbn [nleb nmul nofZ NumR].
  rewrite !andb_true_iff, !Rleb_true. lra.
Qed.
Example fteik3d_nonneg_ex :
  exists tt G v, fteik3d ex3 1 (1/2) 2 (1/2) (1/4) 1 2 false = Ok (tt, G, v) /\ nonneg tt /\ 0 <= v.
Proof.
  destruct (fteik3d_raises_iff ex3 1 (1/2) 2 (1/2) (1/4) 1 2 false) as [_ H].
  destruct (H ex3_inside) as [[[tt G] v] E]. exists tt, G, v. split; [exact E|].
  apply (fteik3d_nonneg ex3 1 (1/2) 2 (1/2) (1/4) 1 2 false tt G v); [lra | lra | lra | apply ex3_nonneg | exact E].
Qed.

(* ------------------------------------------------------------------------------------------ *)
(* binary64, by computation: the defect without the guard, and the generated code on the same inputs *)
(* ------------------------------------------------------------------------------------------ *)
Module Binary64.
Import Coq.Floats.PrimFloat.
Local Open Scope float_scope.

(* the node update of node_unguarded_refuted with slowness 5/8 (exactly representable) *)
Definition cxF_tt : arr float := mkarr [2%Z; 2%Z; 2%Z] [0; 0; 1; 0; 0; 0; 0; 100000].
Definition cxF_slow : arr float := mkarr [1%Z; 1%Z; 1%Z] [0.625].
Example node_unguarded_negative_binary64 :
  ltb (node_value_sp false cxF_tt cxF_slow 1 0.5 1 1 1 1 1 1 1 1 1 1 2 2 2) (-0.1875) = true /\
  leb 0 (node_value_sp true cxF_tt cxF_slow 1 0.5 1 1 1 1 1 1 1 1 1 1 2 2 2) = true.
Proof. vm_compute. split; reflexivity. Qed.

(* 2 x 2 x 1 cells; slowness 8 in the source cell (0,0,0), 1 in the three others; dz = 1/2, dx = dy = 4; source at the
   origin.  Before the fix the Python implementation returned tt[0,0,1] = -3.107380552746847 on this input (also
   through Eikonal3D(1/slow, gridsize=(0.5, 4, 4)).solve((0,0,0))) for every number of sweeps; so does the model
   without the guard.  The generated code (with the guard) returns a grid whose entries are all >= 0. *)
Definition bugF_slow : arr float := mkarr [2%Z; 2%Z; 1%Z] [8; 1; 1; 1].
Definition neg_val : float := (-0x1.8dbea55d23161p+1).   (* the binary64 number printed -3.107380552746847 *)
Example fteik3dU_negative_binary64 :
  get 0 (fteik3dU bugF_slow 0.5 4 4 0 0 0 1) [0%Z; 0%Z; 1%Z] = neg_val /\
  get 0 (fteik3dU bugF_slow 0.5 4 4 0 0 0 2) [0%Z; 0%Z; 1%Z] = neg_val /\
  get 0 (fteik3dU bugF_slow 0.5 4 4 0 0 0 5) [0%Z; 0%Z; 1%Z] = neg_val.
Proof. vm_compute. repeat split; reflexivity. Qed.
Example fteik3d_guarded_binary64 :
  forall n, In n [1%Z; 2%Z; 5%Z] ->
  match fteik3d bugF_slow 0.5 4 4 0 0 0 n false with
  | Ok (t, _, v) => forallb (fun x => leb 0 x) (dat t) = true /\ v = 8
  | _ => False
  end.
Proof. intros n [<- | [<- | [<- | []]]]; vm_compute; split; reflexivity. Qed.
End Binary64.

Print Assumptions op3_ge_tnve_cubic.
Print Assumptions op3_negative_example.
Print Assumptions op3_negative_iff_noncubic.
Print Assumptions sweep_tt_eq_guarded.
Print Assumptions node_unguarded_refuted.
Print Assumptions t3d_guard_noop_cubic.
Print Assumptions sweep_nonneg_3d.
Print Assumptions sweep3d_nonneg.
Print Assumptions init_nonneg_3d.
Print Assumptions fteik3d_nonneg.
Print Assumptions fteik3d_nonneg_get.
Print Assumptions Binary64.node_unguarded_negative_binary64.
Print Assumptions Binary64.fteik3dU_negative_binary64.
Print Assumptions Binary64.fteik3d_guarded_binary64.
